/-
  Go's UTF-8 decoding (`for _, c := range s`, utf8.DecodeRuneInString): an invalid or
  truncated sequence yields (U+FFFD, width 1).  Plus `unicode.IsSpace`, `strings.Fields`,
  `strings.TrimSpace` and the `unicode.L ∪ unicode.Nd` test used by isLegalLayerName.
-/
import Lc.Base.Bytes
import Lc.Generated.UnicodeTables

namespace Lc

def runeError : Nat := 0xFFFD

def isCont (b : Nat) : Bool := 0x80 ≤ b && b ≤ 0xBF

/-- (rune, width) of the first rune of a non-empty byte string -/
def decodeRune : Bytes → Nat × Nat
  | [] => (runeError, 0)
  | b0 :: rest =>
    if b0 < 0x80 then (b0, 1)
    else if 0xC2 ≤ b0 && b0 ≤ 0xDF then
      match rest with
      | b1 :: _ => if isCont b1 then ((b0 - 0xC0) * 64 + (b1 - 0x80), 2) else (runeError, 1)
      | _ => (runeError, 1)
    else if 0xE0 ≤ b0 && b0 ≤ 0xEF then
      match rest with
      | b1 :: b2 :: _ =>
        let lo := if b0 = 0xE0 then 0xA0 else 0x80
        let hi := if b0 = 0xED then 0x9F else 0xBF
        if lo ≤ b1 && b1 ≤ hi && isCont b2 then
          ((b0 - 0xE0) * 4096 + (b1 - 0x80) * 64 + (b2 - 0x80), 3)
        else (runeError, 1)
      | _ => (runeError, 1)
    else if 0xF0 ≤ b0 && b0 ≤ 0xF4 then
      match rest with
      | b1 :: b2 :: b3 :: _ =>
        let lo := if b0 = 0xF0 then 0x90 else 0x80
        let hi := if b0 = 0xF4 then 0x8F else 0xBF
        if lo ≤ b1 && b1 ≤ hi && isCont b2 && isCont b3 then
          ((b0 - 0xF0) * 262144 + (b1 - 0x80) * 4096 + (b2 - 0x80) * 64 + (b3 - 0x80), 4)
        else (runeError, 1)
      | _ => (runeError, 1)
    else (runeError, 1)

/-- list of (byte offset, rune, raw bytes of that rune) -/
def runesAux : Nat → Nat → Bytes → List (Nat × Nat × Bytes)
  | 0, _, _ => []
  | _, _, [] => []
  | fuel + 1, off, s =>
    let (r, w) := decodeRune s
    let w := if w = 0 then 1 else w
    (off, r, s.take w) :: runesAux fuel (off + w) (s.drop w)

def runes (s : Bytes) : List (Nat × Nat × Bytes) := runesAux s.length 0 s

/-- unicode.IsSpace -/
def isSpaceRune (r : Nat) : Bool :=
  r == 0x20 || (0x09 ≤ r && r ≤ 0x0D) || r == 0x85 || r == 0xA0 || r == 0x1680 ||
  (0x2000 ≤ r && r ≤ 0x200A) || r == 0x2028 || r == 0x2029 || r == 0x202F || r == 0x205F ||
  r == 0x3000

/-- strings.Fields -/
def fields (s : Bytes) : List Bytes :=
  let step := fun (acc : List Bytes × Bytes) (x : Nat × Nat × Bytes) =>
    if isSpaceRune x.2.1 then
      (if acc.2.isEmpty then acc.1 else acc.1 ++ [acc.2], [])
    else (acc.1, acc.2 ++ x.2.2)
  let r := (runes s).foldl step ([], [])
  if r.2.isEmpty then r.1 else r.1 ++ [r.2]

/-- strings.TrimSpace -/
def trimSpace (s : Bytes) : Bytes :=
  let rs := runes s
  let rs := rs.dropWhile (fun x => isSpaceRune x.2.1)
  let rs := (rs.reverse.dropWhile (fun x => isSpaceRune x.2.1)).reverse
  rs.flatMap (·.2.2)

def inRanges (r : Nat) : List (Nat × Nat) → Bool
  | [] => false
  | (lo, hi) :: rest => (lo ≤ r && r ≤ hi) || inRanges r rest

/-- unicode.In(c, unicode.L, unicode.Nd) -/
def isLetterOrDigit (r : Nat) : Bool := inRanges r Lc.Generated.letterDigitRanges

/-- ASCII strings.ToUpper (exact for ASCII input) -/
def toUpperAscii (s : Bytes) : Bytes := s.map fun b => if 97 ≤ b && b ≤ 122 then b - 32 else b

end Lc
