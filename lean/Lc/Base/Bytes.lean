/-
  Go strings are byte strings.  We model them as `List Nat` (every element < 256 in
  well-formed values); see DESIGN.md Appendix A for why not `UInt8`.
  Core only (no Mathlib) so that the driver links as a compiled executable.
-/
import Lean

namespace Lc

abbrev Bytes := List Nat

/-- `b!"abc"` elaborates to the literal list `[97, 98, 99]` (UTF-8 bytes). -/
syntax:max "b!" str : term

open Lean in
macro_rules
  | `(b! $s:str) => do
      let bs := s.getString.toUTF8.toList
      let elems ← bs.toArray.mapM (fun (b : UInt8) => `($(Syntax.mkNumLit (toString b.toNat))))
      `(([$elems,*] : List Nat))

/-- All elements are bytes. -/
def IsBytes (s : Bytes) : Prop := ∀ b ∈ s, b < 256

/-! ### comparison (Go `<` on strings is bytewise lexicographic) -/

def bytesLt : Bytes → Bytes → Bool
  | [], [] => false
  | [], _ :: _ => true
  | _ :: _, [] => false
  | a :: as, b :: bs => if a < b then true else if b < a then false else bytesLt as bs

def bytesLe (a b : Bytes) : Bool := !(bytesLt b a)

/-! ### prefix / suffix / search -/

def hasPrefix : Bytes → Bytes → Bool
  | _, [] => true
  | [], _ :: _ => false
  | a :: as, p :: ps => a == p && hasPrefix as ps

def hasSuffix (s suf : Bytes) : Bool := hasPrefix s.reverse suf.reverse

/-- index of the first occurrence of byte `c`, or `none` -/
def indexByte (c : Nat) : Bytes → Option Nat
  | [] => none
  | x :: xs => if x = c then some 0 else (indexByte c xs).map (· + 1)

/-- `strings.Index(s, sub)`; fuel-free structural definition -/
def indexOf (s sub : Bytes) : Option Nat :=
  go s 0
where
  go : Bytes → Nat → Option Nat
    | [], n => if sub.isEmpty then some n else none
    | x :: xs, n => if hasPrefix (x :: xs) sub then some n else go xs (n + 1)

def containsByte (c : Nat) (s : Bytes) : Bool := s.any (· == c)

/-! ### strings.Split with a single-byte separator -/

def splitOn (sep : Nat) : Bytes → List Bytes
  | [] => [[]]
  | c :: cs =>
    if c = sep then [] :: splitOn sep cs
    else match splitOn sep cs with
      | [] => [[c]]
      | h :: t => (c :: h) :: t

theorem splitOn_ne_nil (sep : Nat) (s : Bytes) : splitOn sep s ≠ [] := by
  induction s with
  | nil => simp [splitOn]
  | cons c cs ih =>
    unfold splitOn
    split
    · simp
    · split <;> simp

/-- join with a single-byte separator -/
def joinWith (sep : Nat) : List Bytes → Bytes
  | [] => []
  | [x] => x
  | x :: y :: rest => x ++ sep :: joinWith sep (y :: rest)

theorem splitOn_noSep (sep : Nat) (s : Bytes) (h : sep ∉ s) : splitOn sep s = [s] := by
  induction s with
  | nil => rfl
  | cons c cs ih =>
    have hc : c ≠ sep := by intro e; apply h; simp [e]
    have hcs : sep ∉ cs := by intro e; apply h; simp [e]
    simp [splitOn, hc, ih hcs]

theorem splitOn_append_sep (sep : Nat) (x : Bytes) (rest : Bytes) (h : sep ∉ x) :
    splitOn sep (x ++ sep :: rest) = x :: splitOn sep rest := by
  induction x with
  | nil => simp [splitOn]
  | cons c cs ih =>
    have hc : c ≠ sep := by intro e; apply h; simp [e]
    have hcs : sep ∉ cs := by intro e; apply h; simp [e]
    simp [splitOn, hc, ih hcs]

/-- `strings.Split(strings.Join(parts, sep), sep) = parts` when no part contains the
    separator and there is at least one part. -/
theorem splitOn_joinWith (sep : Nat) (parts : List Bytes) (hne : parts ≠ [])
    (h : ∀ p ∈ parts, sep ∉ p) : splitOn sep (joinWith sep parts) = parts := by
  induction parts with
  | nil => exact absurd rfl hne
  | cons x rest ih =>
    cases rest with
    | nil => simp [joinWith]; exact splitOn_noSep sep x (h x (by simp))
    | cons y rest' =>
      simp only [joinWith]
      rw [splitOn_append_sep sep x _ (h x (by simp))]
      congr 1
      exact ih (by simp) (fun p hp => h p (by simp [hp]))

/-- `strings.SplitN(s, sep, 2)` for a single-byte separator -/
def splitN2 (sep : Nat) : Bytes → List Bytes
  | [] => [[]]
  | c :: cs =>
    if c = sep then [[], cs]
    else match splitN2 sep cs with
      | [] => [[c]]
      | h :: t => (c :: h) :: t

theorem splitN2_append_sep (sep : Nat) (x rest : Bytes) (h : sep ∉ x) :
    splitN2 sep (x ++ sep :: rest) = [x, rest] := by
  induction x with
  | nil => simp [splitN2]
  | cons c cs ih =>
    have hc : c ≠ sep := by intro e; apply h; simp [e]
    have hcs : sep ∉ cs := by intro e; apply h; simp [e]
    simp [splitN2, hc, ih hcs]

/-! ### whitespace (ASCII subset of `unicode.IsSpace`; see Fields.lean for the note) -/

def isAsciiSpace (c : Nat) : Bool :=
  c == 32 || c == 9 || c == 10 || c == 11 || c == 12 || c == 13

/-! ### hex transport encoding (driver boundary only) -/

def hexDigit (n : Nat) : Char :=
  if n < 10 then Char.ofNat (48 + n) else Char.ofNat (87 + n)

def toHex (s : Bytes) : String :=
  String.ofList (s.flatMap fun b => [hexDigit ((b / 16) % 16), hexDigit (b % 16)])

def hexVal (c : Char) : Nat :=
  let n := c.toNat
  if 48 ≤ n ∧ n ≤ 57 then n - 48
  else if 97 ≤ n ∧ n ≤ 102 then n - 87
  else if 65 ≤ n ∧ n ≤ 70 then n - 55
  else 0

def fromHex (s : String) : Bytes :=
  go s.toList
where
  go : List Char → Bytes
    | a :: b :: rest => (hexVal a * 16 + hexVal b) :: go rest
    | _ => []

def ofString (s : String) : Bytes := s.toUTF8.toList.map (·.toNat)

def toStringLossy (s : Bytes) : String :=
  String.ofList (s.map fun b => Char.ofNat b)

end Lc
