/-
  sort.Sort / sort.Slice on unique keys: any correct sort gives the same list, so the
  model uses insertion sort (structurally recursive, easy to reason about).
-/
import Lc.Base.Bytes

namespace Lc

def insertBy {α} (lt : α → α → Bool) (x : α) : List α → List α
  | [] => [x]
  | y :: ys => if lt x y then x :: y :: ys else y :: insertBy lt x ys

def sortBy {α} (lt : α → α → Bool) : List α → List α
  | [] => []
  | x :: xs => insertBy lt x (sortBy lt xs)

def sortBytes (l : List Bytes) : List Bytes := sortBy bytesLt l

end Lc
