/-
  Outcome of a modelled Go function: a value, an `error` return (with a small class
  tag, never the message text) or a Go run-time panic.  A panic is an explicit
  outcome, never a default value.
-/
namespace Lc

inductive Fault where
  | panic
  | err (cls : String)
  deriving Repr, DecidableEq, BEq

abbrev Res (α : Type) := Except Fault α

def Res.panic {α} : Res α := .error .panic
def Res.err {α} (cls : String) : Res α := .error (.err cls)

def Res.isPanic {α} : Res α → Bool
  | .error .panic => true
  | _ => false

def Res.isOk {α} : Res α → Bool
  | .ok _ => true
  | _ => false

def Res.cls {α} : Res α → String
  | .ok _ => "ok"
  | .error .panic => "panic"
  | .error (.err c) => "err:" ++ c

end Lc
