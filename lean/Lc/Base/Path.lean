/-
  Models of Go's `path` package on byte strings (trusted-base library code; each is a
  driver op diffed against the Go standard library on every run, see `check base`).
-/
import Lc.Base.Bytes

namespace Lc

def SLASH : Nat := 47
def DOT : Nat := 46

def dotdot : Bytes := [46, 46]

/-- component stack step of `path.Clean` -/
def cleanStep (rooted : Bool) (stack : List Bytes) (c : Bytes) : List Bytes :=
  if c = dotdot then
    match stack with
    | [] => if rooted then [] else [dotdot]
    | top :: rest => if top = dotdot then dotdot :: top :: rest else rest
  else c :: stack

/-- components of a path that survive cleaning (no empty, no ".") -/
def pathComps (s : Bytes) : List Bytes :=
  (splitOn SLASH s).filter (fun c => !(c.isEmpty) && c != [DOT])

def isAbs (s : Bytes) : Bool :=
  match s with
  | 47 :: _ => true
  | _ => false

/-- `path.Clean` -/
def pathClean (s : Bytes) : Bytes :=
  let rooted := isAbs s
  let stack := (pathComps s).foldl (cleanStep rooted) []
  let body := joinWith SLASH stack.reverse
  let out := if rooted then SLASH :: body else body
  if out.isEmpty then [DOT] else out

/-- `path.Join` -/
def pathJoin (elems : List Bytes) : Bytes :=
  let nonEmpty := elems.dropWhile (·.isEmpty)
  if nonEmpty.isEmpty then [] else pathClean (joinWith SLASH nonEmpty)

def pathJoin2 (a b : Bytes) : Bytes := pathJoin [a, b]

/-- `path.Split`'s split point: everything up to and including the last slash -/
def lastSlashSplit (s : Bytes) : Bytes × Bytes :=
  let r := s.reverse
  let file := (r.takeWhile (· != SLASH)).reverse
  let dir := (r.dropWhile (· != SLASH)).reverse
  (dir, file)

/-- `path.Dir` -/
def pathDir (s : Bytes) : Bytes := pathClean (lastSlashSplit s).1

/-- `path.Base` -/
def pathBase (s : Bytes) : Bytes :=
  if s.isEmpty then [DOT] else
  let t := (s.reverse.dropWhile (· == SLASH)).reverse
  let b := (lastSlashSplit t).2
  if b.isEmpty then [SLASH] else b

end Lc
