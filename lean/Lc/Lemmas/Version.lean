/-
  Helper lemmas for C13: byte-string comparison, digit strings and numbers, the shape of
  the comparison string that the model builds for a version of Dom5.
-/
import Lc.Model.Atom
import Lc.Spec.PmsDomain

set_option linter.unusedSimpArgs false

namespace Lc.Lemmas.Version
open Lc Lc.Version Lc.Atom Lc.Spec.Pms

/-! ### Nat comparison -/

theorem compare_def (a b : Nat) :
    compare a b = if a < b then .lt else if b < a then .gt else .eq := by
  simp only [compare, compareOfLessAndEq]
  split
  · rfl
  · split
    · subst_vars; simp
    · rw [if_pos (by omega)]

/-! ### bytewise comparison -/

theorem strCmp_cons (a b : Nat) (x y : Bytes) :
    strCmp (a :: x) (b :: y) = (compare a b).then (strCmp x y) := by
  rw [compare_def]
  simp only [strCmp]
  split
  · rfl
  · split <;> rfl

theorem strCmp_cons_same (a : Nat) (x y : Bytes) : strCmp (a :: x) (a :: y) = strCmp x y := by
  simp [strCmp]

theorem strCmp_cons_lt (a b : Nat) (x y : Bytes) (h : a < b) : strCmp (a :: x) (b :: y) = .lt := by
  simp [strCmp, h]

theorem strCmp_cons_gt (a b : Nat) (x y : Bytes) (h : b < a) : strCmp (a :: x) (b :: y) = .gt := by
  have : ¬ a < b := by omega
  simp [strCmp, h, this]

theorem strCmp_self (x : Bytes) : strCmp x x = .eq := by
  induction x with
  | nil => rfl
  | cons a x ih => simp [strCmp, ih]

/-- equal-length prefixes are compared first -/
theorem strCmp_append (x y s t : Bytes) (h : x.length = y.length) :
    strCmp (x ++ s) (y ++ t) = (strCmp x y).then (strCmp s t) := by
  induction x generalizing y with
  | nil =>
    cases y with
    | nil => simp [strCmp, Ordering.then]
    | cons b y => simp at h
  | cons a x ih =>
    cases y with
    | nil => simp at h
    | cons b y =>
      simp only [List.cons_append, strCmp_cons]
      rw [ih y (by simpa using h), Ordering.then_assoc]

/-- Go's `<` and `==` on strings, as the model has them, in terms of `strCmp` -/
theorem bytesLt_iff (x y : Bytes) : bytesLt x y = (strCmp x y == .lt) := by
  induction x generalizing y with
  | nil => cases y <;> simp [bytesLt, strCmp]
  | cons a x ih =>
    cases y with
    | nil => simp [bytesLt, strCmp]
    | cons b y =>
      simp only [bytesLt, strCmp]
      split
      · rfl
      · split
        · rfl
        · exact ih y

theorem strCmp_swap (x y : Bytes) : strCmp y x = (strCmp x y).swap := by
  induction x generalizing y with
  | nil => cases y <;> simp [strCmp, Ordering.swap]
  | cons a x ih =>
    cases y with
    | nil => simp [strCmp, Ordering.swap]
    | cons b y =>
      simp only [strCmp]
      by_cases h1 : a < b
      · have : ¬ b < a := by omega
        simp [h1, this, Ordering.swap]
      · by_cases h2 : b < a
        · simp [h1, h2, Ordering.swap]
        · simp [h1, h2, ih y]

theorem beq_iff (x y : Bytes) : (x == y) = (strCmp x y == .eq) := by
  induction x generalizing y with
  | nil => cases y <;> simp [strCmp]
  | cons a x ih =>
    cases y with
    | nil => simp [strCmp]
    | cons b y =>
      simp only [strCmp, List.cons_beq_cons]
      by_cases h1 : a < b
      · have : ¬ a = b := by omega
        simp [h1, this]
      · by_cases h2 : b < a
        · have : ¬ a = b := by omega
          simp [h1, h2, this]
        · have : a = b := by omega
          simp [h1, h2, this, ih y]

/-! ### digit strings -/

def Digits (s : Bytes) : Prop := ∀ d ∈ s, 48 ≤ d ∧ d ≤ 57

theorem digits_of_allDigits (s : Bytes) (h : allDigits s = true) : Digits s := by
  intro d hd
  have := (List.all_eq_true.mp h) d hd
  simpa [isDigitB] using this

theorem Digits.tail {d : Nat} {s : Bytes} (h : Digits (d :: s)) : Digits s :=
  fun x hx => h x (by simp [hx])

theorem Digits.head {d : Nat} {s : Bytes} (h : Digits (d :: s)) : 48 ≤ d ∧ d ≤ 57 :=
  h d (by simp)

/-- value with an accumulator (the `foldl` of `natOf`) -/
def natAcc (acc : Nat) (s : Bytes) : Nat := s.foldl (fun acc d => acc * 10 + (d - 48)) acc

theorem natOf_eq (s : Bytes) : natOf s = natAcc 0 s := rfl

/-- **numeric-run lemma**: equal-length digit strings order like the numbers they denote
    (stated with accumulators so that the induction goes through) -/
theorem natAcc_order (x y : Bytes) (ax ay : Nat) (hl : x.length = y.length)
    (hx : Digits x) (hy : Digits y) :
    compare (natAcc ax x) (natAcc ay y) = (compare ax ay).then (strCmp x y) := by
  induction x generalizing y ax ay with
  | nil =>
    cases y with
    | nil => simp [natAcc, strCmp]
    | cons b y => simp at hl
  | cons a x ih =>
    cases y with
    | nil => simp at hl
    | cons b y =>
      have ha := hx.head
      have hb := hy.head
      have := ih y (ax * 10 + (a - 48)) (ay * 10 + (b - 48)) (by simpa using hl) hx.tail hy.tail
      simp only [natAcc, List.foldl_cons] at this ⊢
      rw [this, strCmp_cons, ← Ordering.then_assoc]
      congr 1
      simp only [compare_def]
      by_cases h1 : ax < ay
      · have : ax * 10 + (a - 48) < ay * 10 + (b - 48) := by omega
        simp [h1, this, Ordering.then]
      · by_cases h2 : ay < ax
        · have h3 : ay * 10 + (b - 48) < ax * 10 + (a - 48) := by omega
          have h4 : ¬ ax * 10 + (a - 48) < ay * 10 + (b - 48) := by omega
          simp [h1, h2, h3, h4, Ordering.then]
        · have : ax = ay := by omega
          subst this
          by_cases h5 : a < b
          · have : ax * 10 + (a - 48) < ax * 10 + (b - 48) := by omega
            simp [h5, this, Ordering.then]
          · by_cases h6 : b < a
            · have h7 : ax * 10 + (b - 48) < ax * 10 + (a - 48) := by omega
              have h8 : ¬ ax * 10 + (a - 48) < ax * 10 + (b - 48) := by omega
              simp [h5, h6, h7, h8, Ordering.then]
            · have : a = b := by omega
              subst this
              simp [Ordering.then]

/-- equal-length digit strings order like numbers -/
theorem digits_order (x y : Bytes) (hl : x.length = y.length) (hx : Digits x) (hy : Digits y) :
    strCmp x y = compare (natOf x) (natOf y) := by
  have := natAcc_order x y 0 0 hl hx hy
  simp [natOf_eq, this, compare_def, Ordering.then]

theorem natAcc_zeros (k : Nat) (s : Bytes) : natAcc 0 (List.replicate k 48 ++ s) = natAcc 0 s := by
  induction k with
  | zero => simp
  | succ k ih => simpa [List.replicate_succ, natAcc] using ih

theorem digits_pad (s : Bytes) (h : Digits s) : Digits (padNumericSegment s) := by
  intro d hd
  simp only [padNumericSegment, List.mem_append, List.mem_replicate] at hd
  rcases hd with ⟨_, rfl⟩ | hd
  · omega
  · exact h d hd

theorem length_pad (s : Bytes) (h : s.length ≤ 5) : (padNumericSegment s).length = 5 := by
  simp [padNumericSegment, segWidth]; omega

theorem natOf_pad (s : Bytes) : natOf (padNumericSegment s) = natOf s := by
  simp [natOf_eq, padNumericSegment, natAcc_zeros]

/-- **padded strings order like numbers** for digit strings of at most 5 digits -/
theorem pad5_order (a b : Bytes) (ha : Digits a) (hb : Digits b) (la : a.length ≤ 5) (lb : b.length ≤ 5) :
    strCmp (padNumericSegment a) (padNumericSegment b) = compare (natOf a) (natOf b) := by
  rw [digits_order _ _ (by rw [length_pad a la, length_pad b lb]) (digits_pad a ha) (digits_pad b hb),
    natOf_pad, natOf_pad]

/-! ### makeComparable on digit runs -/

theorem isDigit_iff (c : Nat) : Lc.Version.isDigit c = true ↔ 48 ≤ c ∧ c ≤ 57 := by
  simp [Lc.Version.isDigit]

theorem mcGo_digits (ds run rest : Bytes) (h : Digits ds) :
    mcGo run (ds ++ rest) = mcGo (run ++ ds) rest := by
  induction ds generalizing run with
  | nil => simp
  | cons d ds ih =>
    have hd : Lc.Version.isDigit d = true := (isDigit_iff d).mpr h.head
    simp only [List.cons_append, mcGo, hd, if_true]
    rw [ih _ h.tail]
    simp

theorem mcGo_nondigit (c : Nat) (run rest : Bytes) (h : Lc.Version.isDigit c = false) :
    mcGo run (c :: rest) = flushRun run ++ c :: mcGo [] rest := by
  simp [mcGo, h]

theorem flushRun_ne (run : Bytes) (h : run ≠ []) : flushRun run = padNumericSegment run := by
  cases run with
  | nil => exact absurd rfl h
  | cons a r => rfl

theorem mc_digits_end (ds : Bytes) (h : Digits ds) (hne : ds ≠ []) :
    mcGo [] ds = padNumericSegment ds := by
  have := mcGo_digits ds [] [] h
  simp only [List.append_nil, List.nil_append] at this
  rw [this]
  simp [mcGo, flushRun_ne ds hne]

/-- the padded later components, each preceded by its dot, followed by `t` -/
def encRest : List Bytes → Bytes → Bytes
  | [], t => t
  | m :: ms, t => 46 :: (padNumericSegment m ++ encRest ms t)

theorem encRest_append (ms : List Bytes) (t u : Bytes) : encRest ms (t ++ u) = encRest ms t ++ u := by
  induction ms with
  | nil => rfl
  | cons m ms ih => simp [encRest, ih]

/-- `makeComparable` of dot-joined digit strings followed by something that does not
    start with a digit -/
theorem mc_nums (n : Bytes) (rest : List Bytes) (t : Bytes)
    (hn : Digits n) (hne : n ≠ []) (hr : ∀ m ∈ rest, Digits m ∧ m ≠ [])
    (ht : ∀ c t', t = c :: t' → Lc.Version.isDigit c = false) :
    mcGo [] (joinWith 46 (n :: rest) ++ t) = padNumericSegment n ++ encRest rest (mcGo [] t) := by
  induction rest generalizing n with
  | nil =>
    simp only [joinWith, encRest]
    rw [mcGo_digits n [] t hn]
    simp only [List.nil_append]
    cases t with
    | nil =>
      have h0 : flushRun ([] : Bytes) = [] := rfl
      simp [mcGo, flushRun_ne n hne, h0]
    | cons c t' =>
      rw [mcGo_nondigit c n t' (ht c t' rfl), mcGo_nondigit c [] t' (ht c t' rfl), flushRun_ne n hne]
      simp [flushRun]
  | cons m ms ih =>
    have hm := hr m (by simp)
    simp only [joinWith, encRest, List.append_assoc, List.cons_append]
    rw [mcGo_digits n [] _ hn]
    simp only [List.nil_append]
    rw [mcGo_nondigit 46 n _ (by decide), flushRun_ne n hne]
    rw [ih m hm.1 hm.2 (fun x hx => hr x (by simp [hx]))]

/-- a string that ends in a digit -/
def EndsInDigit (b : Bytes) : Prop := ∃ ini c, b = ini ++ [c] ∧ Lc.Version.isDigit c = true

theorem endsInDigit_digits (n : Bytes) (hn : Digits n) (hne : n ≠ []) (pre : Bytes) :
    EndsInDigit (pre ++ n) := by
  rcases List.eq_nil_or_concat n with h | ⟨ini, c, h⟩
  · exact absurd h hne
  · refine ⟨pre ++ ini, c, by simp [h], ?_⟩
    exact (isDigit_iff c).mpr (hn c (by simp [h]))

theorem endsInDigit_enc (n : Bytes) (rest : List Bytes) (hn : Digits n) (hne : n ≠ [])
    (hr : ∀ m ∈ rest, Digits m ∧ m ≠ []) (pre : Bytes) :
    EndsInDigit (pre ++ (padNumericSegment n ++ encRest rest [])) := by
  induction rest generalizing n pre with
  | nil =>
    simp only [encRest, List.append_nil, padNumericSegment]
    rw [← List.append_assoc]
    exact endsInDigit_digits n hn hne _
  | cons m ms ih =>
    have hm := hr m (by simp)
    have := ih m hm.1 hm.2 (fun x hx => hr x (by simp [hx])) (pre ++ padNumericSegment n ++ [46])
    simpa [encRest] using this

theorem normBase_endsInDigit (basever : Bytes) (h : EndsInDigit (makeComparable basever)) :
    normBase basever = makeComparable basever := by
  obtain ⟨ini, c, hb, hc⟩ := h
  simp only [normBase, hb, List.reverse_append, List.reverse_cons, List.reverse_nil,
    List.nil_append, List.cons_append, hc]
  simp

theorem normBase_letter (basever pre : Bytes) (l : Nat) (hl : Lc.Version.isDigit l = false)
    (h : makeComparable basever = pre ++ [l]) : normBase basever = pre ++ [32, l] := by
  simp only [normBase, h, List.reverse_append, List.reverse_cons, List.reverse_nil,
    List.nil_append, List.cons_append, hl]
  simp

/-! ### the suffix names -/

def sufCode : SufKind → Nat
  | .alpha => 97 | .beta => 98 | .pre => 99 | .rc => 100 | .p => 112

theorem replaceAllGo_digits (pat' rep ds : Bytes) (h : Digits ds) :
    replaceAllGo (95 :: pat') rep 0 ds = ds := by
  induction ds with
  | nil => rfl
  | cons d ds ih =>
    have hd := h.head
    have hne : (d == 95) = false := by simp; omega
    simp [replaceAllGo, hasPrefix, hne, ih h.tail]

theorem mapSuffixNames_render (k : SufKind) (ds : Bytes) (h : Digits ds) :
    mapSuffixNames (95 :: (k.text ++ ds)) = 95 :: sufCode k :: ds := by
  cases k
  case p =>
    cases ds with
    | nil => decide
    | cons d ds' =>
      have hd := h.head
      have hne : (d == 114) = false := by simp; omega
      have hne2 : (d == 95) = false := by simp; omega
      simp [mapSuffixNames, replaceAll, replaceAllGo, hasPrefix, SufKind.text, sufCode, hne, hne2,
        replaceAllGo_digits _ _ _ h.tail]
  all_goals
    simp [mapSuffixNames, replaceAll, replaceAllGo, hasPrefix, SufKind.text, sufCode,
      replaceAllGo_digits _ _ _ h]

/-! ### the comparison string of a Dom5 version -/

def sufPart : List Suffix → Bytes
  | [] => [95, 110]
  | s :: _ => 95 :: sufCode s.kind ::
      (match s.num with
       | none => []
       | some ds => padNumericSegment ds)

def revPart : Option Bytes → Bytes
  | none => 114 :: padNumericSegment [48]
  | some r => 114 :: padNumericSegment r

def letterPart : Option Nat → Bytes
  | none => []
  | some l => [32, l]

/-- everything after the numeric components -/
def tailOf (v : Version) : Bytes :=
  letterPart v.letter ++ 32 :: (sufPart v.sufs ++ 32 :: revPart v.rev)

theorem cleanNum_facts (s : Bytes) (h : cleanNum s = true) : Digits s ∧ s ≠ [] ∧ s.length ≤ 5 := by
  simp only [cleanNum, Bool.and_eq_true, decide_eq_true_eq] at h
  refine ⟨digits_of_allDigits s h.1.1.1, ?_, h.1.2⟩
  intro e; rw [e] at h; simp at h

theorem posNum_facts (s : Bytes) (h : posNum s = true) :
    Digits s ∧ s ≠ [] ∧ s.length ≤ 5 ∧ 0 < natOf s := by
  simp only [posNum, Bool.and_eq_true, decide_eq_true_eq] at h
  have hd := digits_of_allDigits s h.1.1
  refine ⟨hd, ?_, h.1.2, ?_⟩
  · intro e; rw [e] at h; simp at h
  · cases s with
    | nil => simp at h
    | cons c r =>
      have hc : 49 ≤ c := by simpa using h.2
      -- the value is at least the leading digit's contribution
      have mono : ∀ (r : Bytes) (a : Nat), 0 < a → 0 < natAcc a r := by
        intro r
        induction r with
        | nil => intro a ha; simpa [natAcc] using ha
        | cons d r ih => intro a ha; simp only [natAcc, List.foldl_cons]; exact ih _ (by omega)
      simp only [natOf_eq, natAcc, List.foldl_cons]
      exact mono r _ (by omega)

theorem shortNum_facts (s : Bytes) (h : shortNum s = true) : Digits s ∧ s ≠ [] ∧ s.length ≤ 5 := by
  simp only [shortNum, Bool.and_eq_true, decide_eq_true_eq] at h
  refine ⟨digits_of_allDigits s h.1.1, ?_, h.2⟩
  intro e; rw [e] at h; simp at h

theorem normSuffix_shape (sufs : List Suffix) (h1 : sufs.length ≤ 1)
    (h2 : ∀ s ∈ sufs, dom5Suffix s = true) :
    normSuffix (sufs.flatMap Suffix.render) = sufPart sufs := by
  cases sufs with
  | nil => rfl
  | cons s rest =>
    have hr : rest = [] := by
      cases rest with
      | nil => rfl
      | cons _ _ => simp at h1
    subst hr
    have hs := h2 s (by simp)
    have h95 : Lc.Version.isDigit 95 = false := by decide
    have hcode : Lc.Version.isDigit (sufCode s.kind) = false := by cases s.kind <;> decide
    have h0 : flushRun ([] : Bytes) = [] := rfl
    cases hnum : s.num with
    | none =>
      simp only [List.flatMap_cons, List.flatMap_nil, List.append_nil, Suffix.render, hnum,
        Option.getD_none, normSuffix, sufPart, List.cons_append]
      have := mapSuffixNames_render s.kind [] (by intro d hd; simp at hd)
      simp only [List.append_nil] at this ⊢
      rw [this]
      simp [makeComparable, mcGo_nondigit, h95, hcode, h0, mcGo]
    | some ds =>
      have hp : posNum ds = true := by simpa [dom5Suffix, hnum] using hs
      obtain ⟨hd, hne, _, _⟩ := posNum_facts ds hp
      simp only [List.flatMap_cons, List.flatMap_nil, List.append_nil, Suffix.render, hnum,
        Option.getD_some, normSuffix, sufPart, List.cons_append]
      rw [mapSuffixNames_render s.kind ds hd]
      simp [makeComparable, mcGo_nondigit, h95, hcode, h0, mc_digits_end ds hd hne]

def letterBytes : Option Nat → Bytes
  | none => []
  | some l => [l]

/-- regexp group 4 (`r\d+`) of a rendered version -/
def revGroup : Option Bytes → Bytes
  | none => []
  | some r => 114 :: r

theorem renderBase_eq (v : Version) : v.renderBase = joinWith 46 v.nums ++ letterBytes v.letter := by
  cases h : v.letter <;> simp [Version.renderBase, letterBytes, h]

theorem renderRev_eq (v : Version) : v.renderRev = revGroup v.rev := by
  cases h : v.rev <;> simp [Version.renderRev, revGroup, h]

theorem normRevision_shape (rev : Option Bytes)
    (h : ∀ r, rev = some r → shortNum r = true) :
    normRevision (revGroup rev) = revPart rev := by
  cases rev with
  | none => decide
  | some r =>
    obtain ⟨hd, hne, _⟩ := shortNum_facts r (h r rfl)
    have h114 : Lc.Version.isDigit 114 = false := by decide
    have h0 : flushRun ([] : Bytes) = [] := rfl
    simp [normRevision, revGroup, revPart, makeComparable, mcGo_nondigit, h114, h0,
      mc_digits_end r hd hne]

theorem normBase_shape (n : Bytes) (rest : List Bytes) (letter : Option Nat)
    (hn : Digits n) (hne : n ≠ []) (hr : ∀ m ∈ rest, Digits m ∧ m ≠ [])
    (hl : ∀ l, letter = some l → 97 ≤ l ∧ l ≤ 122) :
    normBase (joinWith 46 (n :: rest) ++ letterBytes letter) =
      padNumericSegment n ++ encRest rest (letterPart letter) := by
  cases letter with
  | none =>
    have hmc := mc_nums n rest [] hn hne hr (by intro c t' h; cases h)
    have h0 : mcGo [] ([] : Bytes) = [] := rfl
    rw [h0] at hmc
    have he := endsInDigit_enc n rest hn hne hr []
    simp only [List.nil_append] at he
    rw [← hmc] at he
    simp only [letterBytes, letterPart]
    rw [normBase_endsInDigit _ he]
    exact hmc
  | some l =>
    have hl' := hl l rfl
    have hld : Lc.Version.isDigit l = false := by simp [Lc.Version.isDigit]; omega
    have hmc := mc_nums n rest [l] hn hne hr (by intro c t' h; cases h; exact hld)
    have h1 : mcGo [] [l] = [l] := by simp [mcGo, hld, flushRun]
    rw [h1] at hmc
    have : makeComparable (joinWith 46 (n :: rest) ++ [l]) =
        (padNumericSegment n ++ encRest rest []) ++ [l] := by
      rw [makeComparable, hmc, List.append_assoc, ← encRest_append]; rfl
    simp only [letterBytes, letterPart]
    rw [normBase_letter _ _ l hld this, List.append_assoc, ← encRest_append]
    rfl

/-- **shape of the comparison string**: for a Dom5 version the model's CompVer is the padded
    first component, the padded later components with their dots, then letter, suffix
    and revision fields separated by blanks -/
theorem compVer_shape (v : Version) (h : dom5 v = true) :
    ∃ n rest, v.nums = n :: rest ∧
      compVerOf v.renderBase v.renderSufs v.renderRev false =
        padNumericSegment n ++ encRest rest (tailOf v) := by
  simp only [dom5, Bool.and_eq_true, Bool.not_eq_true', decide_eq_true_eq, List.all_eq_true] at h
  obtain ⟨⟨⟨⟨⟨hne, hnums⟩, hlet⟩, hlen⟩, hsufs⟩, hrev⟩ := h
  cases hn : v.nums with
  | nil => simp [hn] at hne
  | cons n rest =>
    refine ⟨n, rest, rfl, ?_⟩
    have hn1 := cleanNum_facts n (hnums n (by simp [hn]))
    have hrest : ∀ m ∈ rest, Digits m ∧ m ≠ [] := by
      intro m hm
      have := cleanNum_facts m (hnums m (by simp [hn, hm]))
      exact ⟨this.1, this.2.1⟩
    have hl : ∀ l, v.letter = some l → 97 ≤ l ∧ l ≤ 122 := by
      intro l e; rw [e] at hlet; simpa using hlet
    have hb := normBase_shape n rest v.letter hn1.1 hn1.2.1 hrest hl
    have hs := normSuffix_shape v.sufs hlen hsufs
    have hr := normRevision_shape v.rev (by intro r e; rw [e] at hrev; simpa using hrev)
    have e2 : v.renderSufs = v.sufs.flatMap Suffix.render := rfl
    simp only [compVerOf, renderBase_eq, renderRev_eq, e2, hn, hb, hs, hr, tailOf]
    simp [encRest_append]

/-! ### the PMS algorithms on Dom5, in `Ordering.then` form -/

theorem natOf_pos (c : Nat) (r : Bytes) (hc : 49 ≤ c) : 0 < natOf (c :: r) := by
  have mono : ∀ (r : Bytes) (a : Nat), 0 < a → 0 < natAcc a r := by
    intro r
    induction r with
    | nil => intro a ha; simpa [natAcc] using ha
    | cons d r ih => intro a ha; simp only [natAcc, List.foldl_cons]; exact ih _ (by omega)
  simp only [natOf_eq, natAcc, List.foldl_cons]
  exact mono r _ (by omega)

theorem dropWhile_snoc (p : Nat → Bool) (l : Bytes) (c : Nat) (hc : p c = false) :
    ∃ t, (l ++ [c]).dropWhile p = t ++ [c] := by
  induction l with
  | nil => exact ⟨[], by simp [List.dropWhile, hc]⟩
  | cons a l ih =>
    by_cases ha : p a = true
    · obtain ⟨t, ht⟩ := ih
      exact ⟨t, by simp [List.dropWhile, ha, ht]⟩
    · exact ⟨a :: l, by simp [List.dropWhile, ha]⟩

theorem strip_nonzero_head (c : Nat) (r : Bytes) (hc : c ≠ 48) :
    ∃ t, stripTrailingZeros (c :: r) = c :: t := by
  obtain ⟨t, ht⟩ := dropWhile_snoc (· == 48) r.reverse c (by simp [hc])
  refine ⟨t.reverse, ?_⟩
  simp [stripTrailingZeros, ht]

/-- on components without leading zero (lone `0` allowed) Algorithm 3.3 is the numeric
    comparison -/
theorem cmpLaterComponent_clean (a b : Bytes) (ha : cleanNum a = true) (hb : cleanNum b = true) :
    cmpLaterComponent a b = compare (natOf a) (natOf b) := by
  have fa := cleanNum_facts a ha
  have fb := cleanNum_facts b hb
  -- a clean number with a leading zero is "0"
  have lone : ∀ s : Bytes, cleanNum s = true → hasLeadingZero s = true → s = [48] := by
    intro s hs hz
    match s, hs, hz with
    | [48], _, _ => rfl
    | 48 :: _ :: _, hs, _ => simp [cleanNum] at hs
  have nz : ∀ s : Bytes, cleanNum s = true → hasLeadingZero s = false →
      ∃ c r, s = c :: r ∧ 49 ≤ c := by
    intro s hs hz
    have f := cleanNum_facts s hs
    match s, f, hz with
    | [], f, _ => exact absurd rfl f.2.1
    | c :: r, f, hz =>
      have hd := f.1.head
      refine ⟨c, r, rfl, ?_⟩
      have : c ≠ 48 := by intro e; subst e; simp [hasLeadingZero] at hz
      omega
  unfold cmpLaterComponent
  cases hza : hasLeadingZero a <;> cases hzb : hasLeadingZero b
  · simp
  · have eb := lone b hb hzb
    obtain ⟨c, r, ea, hc⟩ := nz a ha hza
    obtain ⟨t, ht⟩ := strip_nonzero_head c r (by omega)
    subst eb; subst ea
    have hpos := natOf_pos c r hc
    have h0 : natOf [48] = 0 := by decide
    have hs0 : stripTrailingZeros [48] = [] := by decide
    simp only [Bool.false_or, if_true, ht, hs0, strCmp, compare_def, h0]
    have : ¬ natOf (c :: r) < 0 := by omega
    simp [this, hpos]
  · have ea := lone a ha hza
    obtain ⟨c, r, eb, hc⟩ := nz b hb hzb
    obtain ⟨t, ht⟩ := strip_nonzero_head c r (by omega)
    subst ea; subst eb
    have hpos := natOf_pos c r hc
    have h0 : natOf [48] = 0 := by decide
    have hs0 : stripTrailingZeros [48] = [] := by decide
    simp only [Bool.true_or, if_true, ht, hs0, strCmp, compare_def, h0]
    simp [hpos]
  · have ea := lone a ha hza
    have eb := lone b hb hzb
    subst ea; subst eb
    decide

theorem then_match (o x : Ordering) :
    (match o with
     | .eq => x
     | o => o) = o.then x := by
  cases o <;> rfl

/-- numeric lexicographic comparison of the later components, shorter list first -/
def lexNum : List Bytes → List Bytes → Ordering
  | [], [] => .eq
  | [], _ :: _ => .lt
  | _ :: _, [] => .gt
  | a :: as, b :: bs => (compare (natOf a) (natOf b)).then (lexNum as bs)

theorem cmpLaterComponents_clean (as bs : List Bytes)
    (ha : ∀ x ∈ as, cleanNum x = true) (hb : ∀ x ∈ bs, cleanNum x = true) :
    cmpLaterComponents as bs = lexNum as bs := by
  induction as generalizing bs with
  | nil => cases bs <;> rfl
  | cons a as ih =>
    cases bs with
    | nil => rfl
    | cons b bs =>
      simp only [cmpLaterComponents, lexNum]
      rw [cmpLaterComponent_clean a b (ha a (by simp)) (hb b (by simp)),
        ih bs (fun x hx => ha x (by simp [hx])) (fun x hx => hb x (by simp [hx]))]
      cases compare (natOf a) (natOf b) <;> rfl

/-! ### comparing the encoded pieces -/

theorem pad_head (ds : Bytes) (hd : Digits ds) (hl : ds.length ≤ 5) :
    ∃ d0 t, padNumericSegment ds = d0 :: t ∧ 48 ≤ d0 := by
  have hlen := length_pad ds hl
  have hdig := digits_pad ds hd
  cases h : padNumericSegment ds with
  | nil => rw [h] at hlen; simp at hlen
  | cons d0 t => exact ⟨d0, t, rfl, (by rw [h] at hdig; exact hdig.head.1)⟩

/-- the later components: dot + padded number each; a shorter list is followed by a blank,
    which is below the dot -/
theorem encRest_order (as bs : List Bytes) (ta tb : Bytes)
    (ha : ∀ x ∈ as, cleanNum x = true) (hb : ∀ x ∈ bs, cleanNum x = true) :
    strCmp (encRest as (32 :: ta)) (encRest bs (32 :: tb)) =
      (lexNum as bs).then (strCmp ta tb) := by
  induction as generalizing bs with
  | nil =>
    cases bs with
    | nil => simp [encRest, lexNum, strCmp_cons_same, Ordering.then]
    | cons b bs => simp [encRest, lexNum, strCmp, Ordering.then]
  | cons a as ih =>
    cases bs with
    | nil => simp [encRest, lexNum, strCmp, Ordering.then]
    | cons b bs =>
      have fa := cleanNum_facts a (ha a (by simp))
      have fb := cleanNum_facts b (hb b (by simp))
      simp only [encRest, lexNum, strCmp_cons_same]
      rw [strCmp_append _ _ _ _ (by rw [length_pad a fa.2.2, length_pad b fb.2.2]),
        pad5_order a b fa.1 fb.1 fa.2.2 fb.2.2,
        ih bs (fun x hx => ha x (by simp [hx])) (fun x hx => hb x (by simp [hx])),
        Ordering.then_assoc]

def numEnc : Option Bytes → Bytes
  | none => []
  | some ds => padNumericSegment ds

def numVal : Option Bytes → Nat
  | none => 0
  | some ds => natOf ds

/-- a suffix number field followed by a blank: absent < any positive number -/
theorem numEnc_order (na nb : Option Bytes) (x y : Bytes)
    (ha : ∀ d, na = some d → posNum d = true) (hb : ∀ d, nb = some d → posNum d = true) :
    strCmp (numEnc na ++ 32 :: x) (numEnc nb ++ 32 :: y) =
      (compare (numVal na) (numVal nb)).then (strCmp x y) := by
  cases na with
  | none =>
    cases nb with
    | none => simp [numEnc, numVal, strCmp_cons_same, compare_def, Ordering.then]
    | some db =>
      obtain ⟨hd, _, hl, hpos⟩ := posNum_facts db (hb db rfl)
      obtain ⟨d0, t, e, h0⟩ := pad_head db hd hl
      simp only [numEnc, numVal, List.nil_append, e, List.cons_append]
      rw [strCmp_cons_lt 32 d0 _ _ (by omega), compare_def]
      simp [hpos, Ordering.then]
  | some da =>
    obtain ⟨hda, _, hla, hposa⟩ := posNum_facts da (ha da rfl)
    cases nb with
    | none =>
      obtain ⟨d0, t, e, h0⟩ := pad_head da hda hla
      simp only [numEnc, numVal, List.nil_append, e, List.cons_append]
      rw [strCmp_cons_gt d0 32 _ _ (by omega), compare_def]
      have : ¬ natOf da < 0 := by omega
      simp [hposa, this, Ordering.then]
    | some db =>
      obtain ⟨hdb, _, hlb, _⟩ := posNum_facts db (hb db rfl)
      simp only [numEnc, numVal]
      rw [strCmp_append _ _ _ _ (by rw [length_pad da hla, length_pad db hlb]),
        pad5_order da db hda hdb hla hlb, strCmp_cons_same]

/-- kind letter and number of an at-most-one-suffix list (`n` = no suffix) -/
def sufKey : List Suffix → Nat × Option Bytes
  | [] => (110, none)
  | s :: _ => (sufCode s.kind, s.num)

theorem sufPart_eq (sufs : List Suffix) :
    sufPart sufs = 95 :: (sufKey sufs).1 :: numEnc (sufKey sufs).2 := by
  cases sufs with
  | nil => rfl
  | cons s rest => cases h : s.num <;> simp [sufPart, sufKey, numEnc, h]

/-- Algorithm 3.5/3.6 on at most one suffix each is the comparison of (letter, number) -/
theorem cmpSufs_key (sa sb : List Suffix) (ha : sa.length ≤ 1) (hb : sb.length ≤ 1) :
    cmpSufs sa sb = (compare (sufKey sa).1 (sufKey sb).1).then
      (compare (numVal (sufKey sa).2) (numVal (sufKey sb).2)) := by
  have one : ∀ (s : Suffix) (r : List Suffix), (s :: r).length ≤ 1 → r = [] := by
    intro s r h
    cases r with
    | nil => rfl
    | cons _ _ => simp at h
  have hnum : ∀ s : Suffix, sufNum s = numVal s.num := by
    intro s; cases h : s.num <;> simp [sufNum, numVal, h]
  cases sa with
  | nil =>
    cases sb with
    | nil => simp [cmpSufs, sufKey, numVal, compare_def, Ordering.then]
    | cons b rb =>
      obtain ⟨kb, nb⟩ := b
      cases kb <;> simp [cmpSufs, sufKey, sufCode, compare_def, Ordering.then]
  | cons a ra =>
    have era := one a ra ha
    subst era
    obtain ⟨ka, na⟩ := a
    cases sb with
    | nil => cases ka <;> simp [cmpSufs, sufKey, sufCode, compare_def, Ordering.then]
    | cons b rb =>
      have erb := one b rb hb
      subst erb
      obtain ⟨kb, nb⟩ := b
      have single : ∀ x y : Suffix, cmpSufs [x] [y] = cmpSuffix x y := by
        intro x y
        simp only [cmpSufs]
        cases cmpSuffix x y <;> rfl
      rw [single]
      cases ka <;> cases kb <;>
        simp [cmpSuffix, sufKey, sufCode, SufKind.rank, hnum, compare_def, Ordering.then]

theorem revPart_order (ra rb : Option Bytes)
    (ha : ∀ r, ra = some r → shortNum r = true) (hb : ∀ r, rb = some r → shortNum r = true) :
    strCmp (revPart ra) (revPart rb) = cmpRev ra rb := by
  have key : ∀ r : Option Bytes, (∀ x, r = some x → shortNum x = true) →
      ∃ d, revPart r = 114 :: padNumericSegment d ∧ revNum r = natOf d ∧ Digits d ∧ d.length ≤ 5 := by
    intro r h
    cases r with
    | none => exact ⟨[48], rfl, by decide, by intro d hd; simp at hd; omega, by simp⟩
    | some x =>
      obtain ⟨hd, _, hl⟩ := shortNum_facts x (h x rfl)
      exact ⟨x, rfl, rfl, hd, hl⟩
  obtain ⟨da, ea, va, hda, hla⟩ := key ra ha
  obtain ⟨db, eb, vb, hdb, hlb⟩ := key rb hb
  rw [ea, eb, strCmp_cons_same, pad5_order da db hda hdb hla hlb, cmpRev, va, vb]

/-- the part after the numeric components -/
theorem tailOf_order (a b : Version) (ha : dom5 a = true) (hb : dom5 b = true) :
    ∃ ta tb, tailOf a = 32 :: ta ∧ tailOf b = 32 :: tb ∧
      strCmp ta tb = (cmpLetter a.letter b.letter).then
        ((cmpSufs a.sufs b.sufs).then (cmpRev a.rev b.rev)) := by
  simp only [dom5, Bool.and_eq_true, Bool.not_eq_true', decide_eq_true_eq, List.all_eq_true] at ha hb
  obtain ⟨⟨⟨⟨⟨_, _⟩, hleta⟩, hlena⟩, hsufsa⟩, hreva⟩ := ha
  obtain ⟨⟨⟨⟨⟨_, _⟩, hletb⟩, hlenb⟩, hsufsb⟩, hrevb⟩ := hb
  -- suffix and revision fields
  have hsr : strCmp (sufPart a.sufs ++ 32 :: revPart a.rev) (sufPart b.sufs ++ 32 :: revPart b.rev) =
      (cmpSufs a.sufs b.sufs).then (cmpRev a.rev b.rev) := by
    have pa : ∀ d, (sufKey a.sufs).2 = some d → posNum d = true := by
      intro d hd
      cases hs : a.sufs with
      | nil => rw [hs] at hd; simp [sufKey] at hd
      | cons s r =>
        rw [hs] at hd
        have := hsufsa s (by simp [hs])
        simp only [sufKey] at hd
        simpa [dom5Suffix, hd] using this
    have pb : ∀ d, (sufKey b.sufs).2 = some d → posNum d = true := by
      intro d hd
      cases hs : b.sufs with
      | nil => rw [hs] at hd; simp [sufKey] at hd
      | cons s r =>
        rw [hs] at hd
        have := hsufsb s (by simp [hs])
        simp only [sufKey] at hd
        simpa [dom5Suffix, hd] using this
    rw [sufPart_eq, sufPart_eq]
    simp only [List.cons_append, strCmp_cons_same, strCmp_cons]
    rw [numEnc_order _ _ _ _ pa pb,
      revPart_order a.rev b.rev (by intro r e; rw [e] at hreva; simpa using hreva)
        (by intro r e; rw [e] at hrevb; simpa using hrevb),
      cmpSufs_key a.sufs b.sufs hlena hlenb, Ordering.then_assoc]
  have s95 : ∀ sufs : List Suffix, ∃ t, sufPart sufs = 95 :: t := by
    intro sufs; rw [sufPart_eq]; exact ⟨_, rfl⟩
  obtain ⟨sa', esa⟩ := s95 a.sufs
  obtain ⟨sb', esb⟩ := s95 b.sufs
  cases hla : a.letter with
  | none =>
    cases hlb : b.letter with
    | none =>
      refine ⟨_, _, by simp [tailOf, letterPart, hla]; rfl, by simp [tailOf, letterPart, hlb]; rfl, ?_⟩
      simp [cmpLetter, hsr, Ordering.then]
    | some lb =>
      have hb' : 97 ≤ lb := by rw [hlb] at hletb; simp at hletb; exact hletb.1
      refine ⟨_, _, by simp [tailOf, letterPart, hla]; rfl, by simp [tailOf, letterPart, hlb]; rfl, ?_⟩
      rw [esa]
      simp only [List.cons_append]
      rw [strCmp_cons_lt 95 lb _ _ (by omega)]
      simp [cmpLetter, Ordering.then]
  | some la =>
    have ha' : 97 ≤ la := by rw [hla] at hleta; simp at hleta; exact hleta.1
    cases hlb : b.letter with
    | none =>
      refine ⟨_, _, by simp [tailOf, letterPart, hla]; rfl, by simp [tailOf, letterPart, hlb]; rfl, ?_⟩
      rw [esb]
      simp only [List.cons_append]
      rw [strCmp_cons_gt la 95 _ _ (by omega)]
      simp [cmpLetter, Ordering.then]
    | some lb =>
      refine ⟨_, _, by simp [tailOf, letterPart, hla]; rfl, by simp [tailOf, letterPart, hlb]; rfl, ?_⟩
      rw [strCmp_cons, strCmp_cons_same, hsr]
      simp [cmpLetter]

/-! ### moved from Props: helper lemmas for MakeNextVer termination, vercmp, FlagsMatch -/

theorem vercmp_then (a b : Spec.Pms.Version) :
    vercmp a b = (cmpNums a.nums b.nums).then ((cmpLetter a.letter b.letter).then
      ((cmpSufs a.sufs b.sufs).then (cmpRev a.rev b.rev))) := by
  simp only [vercmp, vercmpNoRev]
  cases cmpNums a.nums b.nums <;> cases cmpLetter a.letter b.letter <;>
    cases cmpSufs a.sufs b.sufs <;> rfl

theorem length_dropWhile_le2 (p : Nat → Bool) (l : Bytes) : (l.dropWhile p).length ≤ l.length := by
  induction l with
  | nil => simp
  | cons a l ih =>
    simp only [List.dropWhile]
    split
    · simp only [List.length_cons]; omega
    · simp

theorem stripZs_again (l : Bytes) (k : Nat) (v' : Bytes) (h : stripZs l k = .again v') :
    v'.length < l.length := by
  induction l generalizing k with
  | nil => simp [stripZs] at h
  | cons c rest ih =>
    simp only [stripZs] at h
    split at h
    · cases h; simp
    · split at h
      · cases h
      · split at h
        · cases h
        · split at h
          · cases h
          · have := ih _ h
            simp only [List.length_cons] at this ⊢
            omega

theorem nextStep_again (v v' : Bytes) (h : nextStep v = .again v') : v'.length < v.length := by
  unfold nextStep at h
  have hle : (v.reverse.dropWhile isDotDash).length ≤ v.length := by
    have := length_dropWhile_le2 isDotDash v.reverse
    simpa using this
  cases hr : v.reverse.dropWhile isDotDash with
  | nil => rw [hr] at h; cases h
  | cons c rest =>
    rw [hr] at h hle
    simp only at h
    split at h
    · rename_i hc
      cases hi : incrementDecimal (List.takeWhile isDigit (c :: rest)).reverse with
      | mk val ovf =>
        rw [hi] at h
        cases ovf with
        | false => cases h
        | true =>
          cases h
          have hd : (c :: rest).dropWhile isDigit = rest.dropWhile isDigit := by
            simp [List.dropWhile, hc]
          have := length_dropWhile_le2 isDigit rest
          simp only [List.length_reverse, hd, List.length_cons] at hle ⊢
          omega
    · have := stripZs_again _ _ _ h
      simp only [List.length_cons] at this hle ⊢
      omega

theorem makeNextVerFuel_some (n : Nat) (v : Bytes) (h : v.length < n) :
    (makeNextVerFuel n v).isSome = true := by
  induction n generalizing v with
  | zero => omega
  | succ n ih =>
    simp only [makeNextVerFuel]
    cases hs : nextStep v with
    | done r => rfl
    | again v' =>
      have := nextStep_again v v' hs
      exact ih v' (by omega)

theorem flagsMatchOne_ne_yes (fl : FlagSet) (ctx : List (Bytes × Bool)) (d : Atom.UseDep) :
    flagsMatchOne fl ctx d ≠ some .yes := by
  simp only [flagsMatchOne]
  repeat' split
  all_goals simp


/-! ### the version regexp on the rendered text of a Dom5 version -/

def revText : Option Bytes → Bytes
  | none => []
  | some r => 45 :: 114 :: r

theorem render_eq (v : Version) :
    v.render = joinWith 46 v.nums ++ (letterBytes v.letter ++
      (v.sufs.flatMap Suffix.render ++ revText v.rev)) := by
  cases h : v.rev <;>
    simp [Version.render, renderBase_eq, Version.renderSufs, revText, h, List.append_assoc]

/-- `t` does not continue a `\d+(?:\.\d+)*` match: its first byte (0 when empty) is
    neither a digit nor the dot -/
def StopsNums (t : Bytes) : Prop := Lc.Version.isDigit (Atom.hd t) = false ∧ Atom.hd t ≠ 46

theorem scanNums_stop (fuel : Nat) (t : Bytes) (h : StopsNums t) : scanNums fuel t = ([], t) := by
  cases fuel with
  | zero => rfl
  | succ f =>
    cases t with
    | nil => rfl
    | cons c t' =>
      obtain ⟨hc, hdot⟩ := h
      simp only [Atom.hd, List.head?_cons, Option.getD_some] at hc hdot
      have : (c == 46) = false := by simp [hdot]
      simp [scanNums, hc, this]

theorem scanNums_digits (ds r : Bytes) (fuel : Nat) (hd : Digits ds) (hf : (ds ++ r).length < fuel) :
    scanNums fuel (ds ++ r) =
      (ds ++ (scanNums (fuel - ds.length) r).1, (scanNums (fuel - ds.length) r).2) := by
  induction ds generalizing fuel with
  | nil => simp
  | cons d ds ih =>
    cases fuel with
    | zero => simp at hf
    | succ f =>
      have hdd : Lc.Version.isDigit d = true := (isDigit_iff d).mpr hd.head
      have := ih f hd.tail (by simp at hf ⊢; omega)
      simp only [List.cons_append, scanNums, hdd, if_true, this, List.length_cons]
      have e : f + 1 - (ds.length + 1) = f - ds.length := by omega
      rw [e]

theorem scanNums_join (n : Bytes) (rest : List Bytes) (t : Bytes) (fuel : Nat)
    (hn : Digits n) (hr : ∀ m ∈ rest, Digits m ∧ m ≠ []) (ht : StopsNums t)
    (hf : (joinWith 46 (n :: rest) ++ t).length < fuel) :
    scanNums fuel (joinWith 46 (n :: rest) ++ t) = (joinWith 46 (n :: rest), t) := by
  induction rest generalizing n fuel with
  | nil =>
    simp only [joinWith] at hf ⊢
    rw [scanNums_digits n t fuel hn hf, scanNums_stop _ t ht]
    simp
  | cons m ms ih =>
    obtain ⟨hm, hmne⟩ := hr m (by simp)
    simp only [joinWith, List.append_assoc, List.cons_append] at hf ⊢
    rw [scanNums_digits n _ fuel hn hf]
    -- the dot followed by the first digit of m
    cases m with
    | nil => exact absurd rfl hmne
    | cons d m' =>
      have hdd : Lc.Version.isDigit d = true := (isDigit_iff d).mpr hm.head
      have hlen : n.length + 1 + ((joinWith 46 ((d :: m') :: ms) ++ t).length) < fuel := by
        simp only [List.length_append, List.length_cons] at hf ⊢
        omega
      cases hfu : fuel - n.length with
      | zero => omega
      | succ f =>
        have hjoin : ∃ tl, joinWith 46 ((d :: m') :: ms) ++ t = d :: tl := by
          cases ms with
          | nil => exact ⟨m' ++ t, by simp [joinWith]⟩
          | cons m2 ms2 => exact ⟨m' ++ 46 :: (joinWith 46 (m2 :: ms2) ++ t), by simp [joinWith]⟩
        obtain ⟨tl, htl⟩ := hjoin
        have hrec := ih (d :: m') f hm (fun x hx => hr x (by simp [hx])) (by omega)
        have h46 : Lc.Version.isDigit 46 = false := by decide
        have hstep : scanNums (f + 1) (46 :: (joinWith 46 ((d :: m') :: ms) ++ t)) =
            (46 :: joinWith 46 ((d :: m') :: ms), t) := by
          rw [htl] at hrec ⊢
          simp only [scanNums, h46, Atom.hd, List.head?_cons, Option.getD_some, hdd]
          simp [hrec]
        rw [hstep]

theorem span_loop_all (p : Nat → Bool) (xs r acc : Bytes) (hx : ∀ x ∈ xs, p x = true)
    (hr : r = [] ∨ ∃ c r', r = c :: r' ∧ p c = false) :
    List.span.loop p (xs ++ r) acc = (acc.reverse ++ xs, r) := by
  induction xs generalizing acc with
  | nil =>
    rcases hr with rfl | ⟨c, r', rfl, hc⟩
    · simp [List.span.loop]
    · simp [List.span.loop, hc]
  | cons a xs ih =>
    have ha := hx a (by simp)
    have := ih (a :: acc) (fun x h => hx x (by simp [h]))
    simp [List.span.loop, ha, this]

theorem span_all (p : Nat → Bool) (xs r : Bytes) (hx : ∀ x ∈ xs, p x = true)
    (hr : r = [] ∨ ∃ c r', r = c :: r' ∧ p c = false) : (xs ++ r).span p = (xs, r) := by
  simpa [List.span] using span_loop_all p xs r [] hx hr

theorem kindText_word (k : SufKind) : ∀ x ∈ k.text, isWord x = true := by
  cases k <;> decide

theorem digits_word (ds : Bytes) (h : Digits ds) : ∀ x ∈ ds, isWord x = true := by
  intro x hx
  have := h x hx
  simp [isWord, isAlnum, Lc.Version.isDigit]
  omega

theorem digits_isDigit (ds : Bytes) (h : Digits ds) : ∀ x ∈ ds, Lc.Version.isDigit x = true :=
  fun x hx => (isDigit_iff x).mpr (h x hx)

/-- what may follow a suffix or a revision: nothing, or a byte that is not `\w` -/
def StopsWord (t : Bytes) : Prop := isWord (Atom.hd t) = false

theorem stops_cases (p : Nat → Bool) (t : Bytes) (h : p (Atom.hd t) = false) :
    t = [] ∨ ∃ c r', t = c :: r' ∧ p c = false := by
  cases t with
  | nil => exact Or.inl rfl
  | cons c r' => exact Or.inr ⟨c, r', rfl, by simpa [Atom.hd] using h⟩

theorem takeLetter_some (l : Nat) (t : Bytes) (h : isLower l = true) :
    takeLetter (l :: t) = ([l], t) := by
  simp [takeLetter, Atom.hd, h]

theorem takeLetter_none (t : Bytes) (h : isLower (Atom.hd t) = false) : takeLetter t = ([], t) := by
  simp [takeLetter, h]

theorem takeSuffix_none (t : Bytes) (h : (Atom.hd t == 95) = false) : takeSuffix t = ([], t) := by
  simp [takeSuffix, h]

theorem takeSuffix_one (s : Suffix) (tl : Bytes) (hs : dom5Suffix s = true) (htl : StopsWord tl) :
    takeSuffix (s.render ++ tl) = (s.render, tl) := by
  have hw : ∀ x ∈ s.kind.text ++ s.num.getD [], isWord x = true := by
    intro x hx
    rcases List.mem_append.mp hx with hx | hx
    · exact kindText_word s.kind x hx
    · cases hnum : s.num with
      | none => rw [hnum] at hx; simp at hx
      | some ds =>
        rw [hnum] at hx
        have hp : posNum ds = true := by simpa [dom5Suffix, hnum] using hs
        exact digits_word ds (posNum_facts ds hp).1 x (by simpa using hx)
  have hsp := span_all isWord _ tl hw (stops_cases isWord tl htl)
  obtain ⟨k, num⟩ := s
  cases k <;>
    · simp only [SufKind.text, List.cons_append, List.nil_append] at hsp
      simp [Suffix.render, SufKind.text, takeSuffix, Atom.hd, isWord, isAlnum, isLower, hsp]

theorem takeRevision_nil : takeRevision [] = ([], []) := by decide

theorem takeRevision_some (r : Bytes) (hd : Digits r) (hne : r ≠ []) :
    takeRevision (45 :: 114 :: r) = (114 :: r, []) := by
  have hsp := span_all Lc.Version.isDigit r [] (digits_isDigit r hd) (Or.inl rfl)
  simp only [List.append_nil] at hsp
  cases r with
  | nil => exact absurd rfl hne
  | cons d r' =>
    have hdd := (isDigit_iff d).mpr hd.head
    simp [takeRevision, Atom.hd, hdd, hsp]

/-- **the version regexp splits the rendered text of a Dom5 version into the groups the
    order theorem is about** (no wildcard) -/
theorem matchVerTail_render (v : Version) (h : dom5 v = true) :
    matchVerTail v.render = some ⟨v.renderBase, v.renderSufs, v.renderRev, false⟩ := by
  have h' := h
  simp only [dom5, Bool.and_eq_true, Bool.not_eq_true', decide_eq_true_eq, List.all_eq_true] at h'
  obtain ⟨⟨⟨⟨⟨hne, hnums⟩, hlet⟩, hlen⟩, hsufs⟩, hrev⟩ := h'
  cases hn : v.nums with
  | nil => simp [hn] at hne
  | cons n rest =>
  have hn1 := cleanNum_facts n (hnums n (by simp [hn]))
  have hrest : ∀ m ∈ rest, Digits m ∧ m ≠ [] := by
    intro m hm
    have := cleanNum_facts m (hnums m (by simp [hn, hm]))
    exact ⟨this.1, this.2.1⟩
  -- revision stage
  have hRev : takeRevision (revText v.rev) = (revGroup v.rev, []) := by
    cases hr : v.rev with
    | none => exact takeRevision_nil
    | some r =>
      rw [hr] at hrev
      have := shortNum_facts r (by simpa using hrev)
      exact takeRevision_some r this.1 this.2.1
  have revStop : StopsWord (revText v.rev) := by
    cases v.rev with
    | none => simp [StopsWord, revText, Atom.hd]; decide
    | some r => simp [StopsWord, revText, Atom.hd]; decide
  have revHd : (Atom.hd (revText v.rev) == 95) = false ∧ isLower (Atom.hd (revText v.rev)) = false
      ∧ StopsNums (revText v.rev) := by
    cases v.rev with
    | none => simp [StopsNums, revText, Atom.hd]; decide
    | some r => simp [StopsNums, revText, Atom.hd]; decide
  -- suffix stage
  have hSuf : takeSuffix (v.sufs.flatMap Suffix.render ++ revText v.rev) =
      (v.sufs.flatMap Suffix.render, revText v.rev) := by
    cases hs : v.sufs with
    | nil => simpa using takeSuffix_none _ revHd.1
    | cons s r =>
      have hr : r = [] := by
        cases r with
        | nil => rfl
        | cons _ _ => rw [hs] at hlen; simp at hlen
      subst hr
      simpa using takeSuffix_one s _ (hsufs s (by simp [hs])) revStop
  have sufHd : isLower (Atom.hd (v.sufs.flatMap Suffix.render ++ revText v.rev)) = false
      ∧ StopsNums (v.sufs.flatMap Suffix.render ++ revText v.rev) := by
    cases hs : v.sufs with
    | nil => simpa using ⟨revHd.2.1, revHd.2.2⟩
    | cons s r => simp [StopsNums, Suffix.render, Atom.hd]; decide
  -- letter stage
  have hLet : takeLetter (letterBytes v.letter ++ (v.sufs.flatMap Suffix.render ++ revText v.rev)) =
      (letterBytes v.letter, v.sufs.flatMap Suffix.render ++ revText v.rev) := by
    cases hl : v.letter with
    | none => simpa [letterBytes] using takeLetter_none _ sufHd.1
    | some l =>
      rw [hl] at hlet
      have hl2 : 97 ≤ l ∧ l ≤ 122 := by simpa using hlet
      have hlow : isLower l = true := by simp [isLower]; omega
      simpa [letterBytes] using takeLetter_some l _ hlow
  have stopAll : StopsNums (letterBytes v.letter ++ (v.sufs.flatMap Suffix.render ++ revText v.rev)) := by
    cases hl : v.letter with
    | none => simpa [letterBytes] using sufHd.2
    | some l =>
      rw [hl] at hlet
      have hl2 : 97 ≤ l ∧ l ≤ 122 := by simpa using hlet
      refine ⟨?_, ?_⟩
      · simp only [letterBytes, List.cons_append, Atom.hd, List.head?_cons, Option.getD_some,
          Lc.Version.isDigit, Bool.and_eq_false_iff, decide_eq_false_iff_not]
        right
        exact decide_eq_false (by omega)
      · simp only [letterBytes, List.cons_append, Atom.hd, List.head?_cons, Option.getD_some]
        omega
  -- numbers stage
  have hscan := scanNums_join n rest _ (v.render.length + 1) hn1.1 hrest stopAll
    (by rw [render_eq, hn]; omega)
  have hhead : Lc.Version.isDigit (Atom.hd v.render) = true := by
    rw [render_eq, hn]
    cases n with
    | nil => exact absurd rfl hn1.2.1
    | cons d n' =>
      have hdd := (isDigit_iff d).mpr hn1.1.head
      cases rest <;> simpa [joinWith, Atom.hd] using hdd
  rw [← hn, ← render_eq] at hscan
  unfold matchVerTail
  simp only [hhead, Bool.not_true, Bool.false_eq_true, if_false, hscan, hLet, hSuf, hRev]
  simp [takeStar, renderBase_eq, Version.renderSufs, renderRev_eq]

/-! ### range atoms (`~`, `=…*`): one pass of MakeNextVer on a comparison string -/

theorem takeWhile_append_stop (p : Nat → Bool) (xs r : Bytes) (hx : ∀ x ∈ xs, p x = true)
    (hr : p (Atom.hd r) = false) : (xs ++ r).takeWhile p = xs := by
  induction xs with
  | nil =>
    cases r with
    | nil => rfl
    | cons c r' => simp [Atom.hd] at hr; simp [List.takeWhile, hr]
  | cons a xs ih =>
    have ha := hx a (by simp)
    simp [List.takeWhile, ha, ih (fun x h => hx x (by simp [h]))]

theorem dropWhile_append_stop (p : Nat → Bool) (xs r : Bytes) (hx : ∀ x ∈ xs, p x = true)
    (hr : p (Atom.hd r) = false) : (xs ++ r).dropWhile p = r := by
  induction xs with
  | nil =>
    cases r with
    | nil => rfl
    | cons c r' => simp [Atom.hd] at hr; simp [List.dropWhile, hr]
  | cons a xs ih =>
    have ha := hx a (by simp)
    simp [List.dropWhile, ha, ih (fun x h => hx x (by simp [h]))]

/-- `incRev` (little-endian increment) of digits: same length, and the big-endian strings
    compare `lt` -/
theorem incRev_facts (ds r : Bytes) (hd : Digits ds) (h : incRev ds = some r) :
    r.length = ds.length ∧ strCmp ds.reverse r.reverse = .lt := by
  induction ds generalizing r with
  | nil => simp [incRev] at h
  | cons d ds ih =>
    have hdd := hd.head
    simp only [incRev] at h
    have hmod : (d + 1) % 256 = d + 1 := by omega
    rw [hmod] at h
    split at h
    · cases h
      refine ⟨rfl, ?_⟩
      simp only [List.reverse_cons]
      rw [strCmp_append _ _ _ _ rfl, strCmp_self]
      simp [Ordering.then, strCmp]
    · cases hrec : incRev ds with
      | none => rw [hrec] at h; simp at h
      | some r' =>
        rw [hrec] at h
        simp only [Option.map_some, Option.some.injEq] at h
        subst h
        obtain ⟨hl, hc⟩ := ih r' hd.tail hrec
        refine ⟨by simp [hl], ?_⟩
        simp only [List.reverse_cons]
        rw [strCmp_append _ _ _ _ (by simp [hl]), hc]
        rfl

theorem incPlain_facts (g val : Bytes) (hd : Digits g) (h : incPlain g = (val, false)) :
    val.length = g.length ∧ strCmp g val = .lt := by
  simp only [incPlain] at h
  cases hr : incRev g.reverse with
  | none => rw [hr] at h; simp at h
  | some r =>
    rw [hr] at h
    simp only [Prod.mk.injEq, and_true] at h
    subst h
    have hd' : Digits g.reverse := fun x hx => hd x (by simpa using hx)
    obtain ⟨hl, hc⟩ := incRev_facts g.reverse r hd' hr
    simp only [List.reverse_reverse] at hc
    exact ⟨by simpa using hl, hc⟩

/-- the string ends in a five-digit group `g` that is preceded by a non-digit (or by
    nothing) and does not overflow: one pass of MakeNextVer increments the group -/
theorem nextStep_digits (X g val : Bytes) (hX : Lc.Version.isDigit (Atom.hd X.reverse) = false)
    (hg : Digits g) (hne : g ≠ []) (hlen : g.length ≠ 8) (hinc : incPlain g = (val, false)) :
    nextStep (X ++ g) = .done (X ++ val) := by
  have hgd := digits_isDigit g.reverse (fun x hx => hg x (by simpa using hx))
  have hnotdd : ∀ x ∈ g.reverse, isDotDash x = false := by
    intro x hx
    have := hg x (by simpa using hx)
    simp [isDotDash]; omega
  cases hgr : g.reverse with
  | nil => simp at hgr; exact absurd hgr hne
  | cons c gr =>
    have hc : Lc.Version.isDigit c = true := hgd c (by simp [hgr])
    have hcdd : isDotDash c = false := hnotdd c (by simp [hgr])
    have htw := takeWhile_append_stop Lc.Version.isDigit g.reverse X.reverse hgd hX
    have hdw := dropWhile_append_stop Lc.Version.isDigit g.reverse X.reverse hgd hX
    have hincd : incrementDecimal g = (val, false) := by
      have : (g.length == 8) = false := by simp [hlen]
      simp [incrementDecimal, this, hinc]
    unfold nextStep
    simp only [List.reverse_append, hgr, List.cons_append, List.dropWhile, hcdd]
    rw [hgr] at htw hdw
    simp only [List.cons_append] at htw hdw
    simp only [hc, if_true, htw, hdw]
    have hrr : (c :: gr).reverse = g := by rw [← hgr]; simp
    have hdw' : List.dropWhile Lc.Version.isDigit (gr ++ X.reverse) = X.reverse := by
      simpa [List.dropWhile, hc] using hdw
    rw [hrr, hincd]
    simp [hdw']

/-- the string ends in a byte that MakeNextVer simply increments -/
theorem nextStep_letter (X : Bytes) (c : Nat) (h1 : Lc.Version.isDigit c = false)
    (h2 : c ≠ 45 ∧ c ≠ 95 ∧ c ≠ 46 ∧ c ≠ 90) (h3 : c < 122) :
    nextStep (X ++ [c]) = .done (X ++ [c + 1]) := by
  have hdd : isDotDash c = false := by simp [isDotDash]; omega
  have e1 : (c == 45) = false := by simp; omega
  have e2 : (c == 95) = false := by simp; omega
  have e3 : (c == 46) = false := by simp; omega
  have e4 : (c == 90) = false := by simp; omega
  unfold nextStep
  simp [List.dropWhile, hdd, h1, stripZs, e1, e2, e3, e4, h3]

theorem makeNextVer_of_done (s r : Bytes) (h : nextStep s = .done r) : makeNextVer s = some r := by
  simp [makeNextVer, makeNextVerFuel, h]

/-- a string is never above its own extensions -/
theorem bytesLt_ext_self (s x : Bytes) : bytesLt (s ++ x) s = false := by
  induction s with
  | nil => cases x <;> rfl
  | cons a s ih => simp [bytesLt, ih]

/-! ### the comparison string of a range atom (`~v`, `=v*`) -/

def sufTail : List Suffix → Bytes
  | [] => []
  | s :: r => 32 :: sufPart (s :: r)

/-- shape of the comparison string of `~v` / `=v*` when the revision is absent or there is
    no suffix (the cases in which the code drops the revision) -/
theorem compVerRange_shape (v : Version) (h : dom5 v = true) (hr : v.sufs = [] ∨ v.rev = none) :
    ∃ n rest, v.nums = n :: rest ∧
      compVerOf v.renderBase v.renderSufs v.renderRev true =
        padNumericSegment n ++ encRest rest (letterPart v.letter ++ sufTail v.sufs) := by
  simp only [dom5, Bool.and_eq_true, Bool.not_eq_true', decide_eq_true_eq, List.all_eq_true] at h
  obtain ⟨⟨⟨⟨⟨hne, hnums⟩, hlet⟩, hlen⟩, hsufs⟩, hrev⟩ := h
  cases hn : v.nums with
  | nil => simp [hn] at hne
  | cons n rest =>
    refine ⟨n, rest, rfl, ?_⟩
    have hn1 := cleanNum_facts n (hnums n (by simp [hn]))
    have hrest : ∀ m ∈ rest, Digits m ∧ m ≠ [] := by
      intro m hm
      have := cleanNum_facts m (hnums m (by simp [hn, hm]))
      exact ⟨this.1, this.2.1⟩
    have hl : ∀ l, v.letter = some l → 97 ≤ l ∧ l ≤ 122 := by
      intro l e; rw [e] at hlet; simpa using hlet
    have hb := normBase_shape n rest v.letter hn1.1 hn1.2.1 hrest hl
    have hs := normSuffix_shape v.sufs hlen hsufs
    have e2 : v.renderSufs = v.sufs.flatMap Suffix.render := rfl
    cases hsf : v.sufs with
    | nil =>
      simp only [compVerOf, renderBase_eq, e2, hn, hb, hsf, List.flatMap_nil, List.isEmpty_nil,
        sufTail, List.append_nil]
      simp
    | cons s r =>
      have hrn : v.rev = none := by
        rcases hr with h | h
        · rw [hsf] at h; cases h
        · exact h
      rw [hsf] at hs
      have hne' : (List.flatMap Suffix.render (s :: r)).isEmpty = false := by
        simp [Suffix.render]
      simp only [compVerOf, renderBase_eq, renderRev_eq, e2, hn, hb, hsf, hs, hne', hrn, revGroup,
        sufTail]
      simp [encRest_append]

theorem encRest_snoc (init : List Bytes) (m t : Bytes) :
    encRest (init ++ [m]) t = encRest init [] ++ 46 :: (padNumericSegment m ++ t) := by
  induction init with
  | nil => simp [encRest]
  | cons a init ih => simp [encRest, ih]

/-- range comparer on an extension, digit-group ending -/
theorem range_ext_digits (X g val x : Bytes) (hstep : nextStep (X ++ g) = .done (X ++ val))
    (hl : val.length = g.length) (hc : strCmp g val = .lt) :
    versionComparer relopRange (X ++ g) (X ++ g ++ x) = some true := by
  have hlt : bytesLt (X ++ g ++ x) (X ++ val) = true := by
    rw [bytesLt_iff, List.append_assoc, strCmp_append X X _ _ rfl, strCmp_self]
    have : strCmp (g ++ x) (val ++ []) = .lt := by
      rw [strCmp_append g val x [] hl.symm, hc]; rfl
    simp only [List.append_nil] at this
    simp [Ordering.then, this]
  have hle := bytesLt_ext_self (X ++ g) x
  simp only [List.append_assoc] at hle hlt
  simp [versionComparer, relopRange, relopLt, relopLe, relopEq, relopGe, relopGt,
    makeNextVer_of_done _ _ hstep, bytesLe, hle, hlt]

/-- range comparer on an extension, letter ending -/
theorem range_ext_letter (X x : Bytes) (c : Nat) (hstep : nextStep (X ++ [c]) = .done (X ++ [c + 1])) :
    versionComparer relopRange (X ++ [c]) (X ++ [c] ++ x) = some true := by
  have hlt : bytesLt (X ++ [c] ++ x) (X ++ [c + 1]) = true := by
    rw [bytesLt_iff, List.append_assoc, strCmp_append X X _ _ rfl, strCmp_self]
    simp [Ordering.then, strCmp]
  have hle := bytesLt_ext_self (X ++ [c]) x
  simp only [List.append_assoc, List.singleton_append, List.cons_append, List.nil_append] at hle hlt
  simp [versionComparer, relopRange, relopLt, relopLe, relopEq, relopGe, relopGt,
    makeNextVer_of_done _ _ hstep, bytesLe, hle, hlt]

/-- the digit group MakeNextVer increments in the comparison string of a range atom
    (`none`: the string ends in a letter) -/
def lastGroup (v : Version) : Option Bytes :=
  match v.sufs with
  | s :: _ => s.num
  | [] =>
    match v.letter with
    | some _ => none
    | none => v.nums.getLast?

/-- no carry out of the last digit group (the last component / suffix number is not 99999) -/
def noCarry (v : Version) : Bool :=
  match lastGroup v with
  | some g => !(incPlain (padNumericSegment g)).2
  | none => true

theorem sufCode_facts (k : SufKind) :
    Lc.Version.isDigit (sufCode k) = false ∧ (sufCode k ≠ 45 ∧ sufCode k ≠ 95 ∧ sufCode k ≠ 46 ∧
      sufCode k ≠ 90) ∧ sufCode k < 122 := by
  cases k <;> decide

/-- **the range comparer accepts every extension of its comparison string** (Dom5 version,
    revision absent or no suffix, letter not `z`, no carry) -/
theorem range_accepts_ext (v : Version) (h : dom5 v = true) (hr : v.sufs = [] ∨ v.rev = none)
    (hz : v.letter ≠ some 122) (hnc : noCarry v = true) (x : Bytes) :
    versionComparer relopRange (compVerOf v.renderBase v.renderSufs v.renderRev true)
      (compVerOf v.renderBase v.renderSufs v.renderRev true ++ x) = some true := by
  obtain ⟨n, rest, hn, hshape⟩ := compVerRange_shape v h hr
  rw [hshape]
  have h' := h
  simp only [dom5, Bool.and_eq_true, Bool.not_eq_true', decide_eq_true_eq, List.all_eq_true] at h'
  obtain ⟨⟨⟨⟨⟨_, hnums⟩, hlet⟩, hlen⟩, hsufs⟩, _⟩ := h'
  have hl : ∀ l, v.letter = some l → 97 ≤ l ∧ l < 122 := by
    intro l e
    have hne : l ≠ 122 := by intro e2; apply hz; rw [e, e2]
    rw [e] at hlet
    have : 97 ≤ l ∧ l ≤ 122 := by simpa using hlet
    omega
  -- a five-digit group at the end
  have digitsEnd : ∀ (X g : Bytes), Lc.Version.isDigit (Atom.hd X.reverse) = false →
      Digits g → g.length ≤ 5 → (incPlain (padNumericSegment g)).2 = false →
      versionComparer relopRange (X ++ padNumericSegment g) (X ++ padNumericSegment g ++ x) = some true := by
    intro X g hX hg hl5 hinc
    have hpd := digits_pad g hg
    have hpl := length_pad g hl5
    have hpe : incPlain (padNumericSegment g) = ((incPlain (padNumericSegment g)).1, false) := by
      rw [← hinc]
    obtain ⟨hvl, hvc⟩ := incPlain_facts _ _ hpd hpe
    have hstep := nextStep_digits X (padNumericSegment g) _ hX hpd
      (by intro e; rw [e] at hpl; simp at hpl) (by omega) hpe
    exact range_ext_digits X _ _ x hstep hvl hvc
  cases hsf : v.sufs with
  | cons s r =>
    have hrnil : r = [] := by
      cases r with
      | nil => rfl
      | cons _ _ => rw [hsf] at hlen; simp at hlen
    subst hrnil
    have hk := sufCode_facts s.kind
    cases hnum : s.num with
    | none =>
      have e : padNumericSegment n ++ encRest rest (letterPart v.letter ++ sufTail [s]) =
          (padNumericSegment n ++ encRest rest (letterPart v.letter ++ [32, 95])) ++ [sufCode s.kind] := by
        simp [sufTail, sufPart, hnum, ← encRest_append]
      rw [e]
      exact range_ext_letter _ x _ (nextStep_letter _ _ hk.1 hk.2.1 hk.2.2)
    | some d =>
      have hp : posNum d = true := by
        have := hsufs s (by simp [hsf])
        simpa [dom5Suffix, hnum] using this
      obtain ⟨hd, _, hl5, _⟩ := posNum_facts d hp
      have e : padNumericSegment n ++ encRest rest (letterPart v.letter ++ sufTail [s]) =
          (padNumericSegment n ++ encRest rest (letterPart v.letter ++ [32, 95, sufCode s.kind])) ++
            padNumericSegment d := by
        simp [sufTail, sufPart, hnum, ← encRest_append]
      rw [e]
      have hcarry : (incPlain (padNumericSegment d)).2 = false := by
        simpa [noCarry, lastGroup, hsf, hnum] using hnc
      refine digitsEnd _ d ?_ hd hl5 hcarry
      have : (padNumericSegment n ++ encRest rest (letterPart v.letter ++ [32, 95, sufCode s.kind])).reverse =
          sufCode s.kind :: (padNumericSegment n ++ encRest rest (letterPart v.letter ++ [32, 95])).reverse := by
        have : letterPart v.letter ++ [32, 95, sufCode s.kind] =
            (letterPart v.letter ++ [32, 95]) ++ [sufCode s.kind] := by simp
        rw [this, encRest_append, ← List.append_assoc, List.reverse_append]
        rfl
      rw [this]
      simpa [Atom.hd] using hk.1
  | nil =>
    simp only [sufTail, List.append_nil]
    cases hlt : v.letter with
    | some l =>
      obtain ⟨hl1, hl2⟩ := hl l hlt
      have e : padNumericSegment n ++ encRest rest (letterPart (some l)) =
          (padNumericSegment n ++ encRest rest [32]) ++ [l] := by
        simp [letterPart, ← encRest_append]
      rw [e]
      refine range_ext_letter _ x _ (nextStep_letter _ _ ?_ (by omega) hl2)
      simp [Lc.Version.isDigit]; omega
    | none =>
      simp only [letterPart]
      have hcarry : ∀ g, v.nums.getLast? = some g → (incPlain (padNumericSegment g)).2 = false := by
        intro g hg
        simpa [noCarry, lastGroup, hsf, hlt, hg] using hnc
      rcases List.eq_nil_or_concat rest with hrest | ⟨init, m, hrest⟩
      · subst hrest
        have fn := cleanNum_facts n (hnums n (by simp [hn]))
        simp only [encRest, List.append_nil]
        have := digitsEnd [] n (by decide) fn.1 fn.2.2 (hcarry n (by simp [hn]))
        simpa using this
      · rw [List.concat_eq_append] at hrest
        subst hrest
        have fm := cleanNum_facts m (hnums m (by simp [hn]))
        rw [encRest_snoc]
        have e : padNumericSegment n ++ (encRest init [] ++ 46 :: (padNumericSegment m ++ [])) =
            (padNumericSegment n ++ encRest init [] ++ [46]) ++ padNumericSegment m := by simp
        rw [e]
        have hlast : (n :: (init ++ [m])).getLast? = some m := by
          rw [← List.cons_append, List.getLast?_append]; simp
        refine digitsEnd _ m ?_ fm.1 fm.2.2 (hcarry m (by rw [hn]; exact hlast))
        simp [Atom.hd]; decide

/-! ### reflexivity of the PMS comparison (spec side) -/

theorem compare_self (n : Nat) : compare n n = .eq := by simp [compare_def]

theorem cmpLaterComponent_self (a : Bytes) : cmpLaterComponent a a = .eq := by
  simp only [cmpLaterComponent]
  split
  · exact strCmp_self _
  · exact compare_self _

theorem cmpLaterComponents_self (l : List Bytes) : cmpLaterComponents l l = .eq := by
  induction l with
  | nil => rfl
  | cons a l ih => simp [cmpLaterComponents, cmpLaterComponent_self, ih]

theorem cmpNums_self (l : List Bytes) : cmpNums l l = .eq := by
  cases l with
  | nil => rfl
  | cons a l => simp [cmpNums, compare_self, cmpLaterComponents_self]

theorem cmpLetter_self (o : Option Nat) : cmpLetter o o = .eq := by
  cases o <;> simp [cmpLetter, compare_self]

theorem cmpSufs_self (l : List Suffix) : cmpSufs l l = .eq := by
  induction l with
  | nil => rfl
  | cons a l ih => simp [cmpSufs, cmpSuffix, compare_self, ih]

theorem vercmpNoRev_same (a b : Version) (h1 : a.nums = b.nums) (h2 : a.letter = b.letter)
    (h3 : a.sufs = b.sufs) : vercmpNoRev a b = .eq := by
  simp [vercmpNoRev, h1, h2, h3, cmpNums_self, cmpLetter_self, cmpSufs_self]

/-- the comparison string of an installed package extends the one of a range atom with the
    same components, letter and suffixes -/
theorem compVer_extends_range (pat cand : Version) (hp : dom5 pat = true) (hc : dom5 cand = true)
    (hr : pat.sufs = [] ∨ pat.rev = none)
    (h1 : cand.nums = pat.nums) (h2 : cand.letter = pat.letter) (h3 : cand.sufs = pat.sufs) :
    ∃ x, compVerOf cand.renderBase cand.renderSufs cand.renderRev false =
      compVerOf pat.renderBase pat.renderSufs pat.renderRev true ++ x := by
  obtain ⟨n, rest, hn, hs⟩ := compVer_shape cand hc
  obtain ⟨n', rest', hn', hs'⟩ := compVerRange_shape pat hp hr
  have : n :: rest = n' :: rest' := by rw [← hn, ← hn', h1]
  cases this
  rw [hs, hs', tailOf, h2, h3]
  cases hsf : pat.sufs with
  | nil =>
    refine ⟨32 :: (sufPart [] ++ 32 :: revPart cand.rev), ?_⟩
    simp [sufTail, ← encRest_append]
  | cons s r =>
    refine ⟨32 :: revPart cand.rev, ?_⟩
    simp [sufTail, ← encRest_append]

end Lc.Lemmas.Version
