/-
  The documented classification `Spec.World.stateOf` against the closed form of
  `findLayerstate` (Lemmas/StateProbe): resolution of import and export lists on both
  sides, the export tallies, the tail of the classification (imports, exports, final
  if-chain) for base and derived layers.  Helper lemmas for Props/C08
  (`state_eq_spec_base`, `state_eq_spec_derived`).  Model and specification are not changed.
-/
import Lc.Lemmas.SpecBridge
import Lc.Lemmas.Path

namespace Lc.StateProbe
open Lc Lc.Layers Lc.Mountinfo Lc.Layerfile Lc.Spec.World

/-! ### `mapM` in `Except` -/

/-- pointwise relation of two lists of the same length -/
inductive Zip2 {α β : Type} (R : α → β → Prop) : List α → List β → Prop
  | nil : Zip2 R [] []
  | cons {a b as bs} : R a b → Zip2 R as bs → Zip2 R (a :: as) (b :: bs)

theorem mapM_ok_forall2 {α β ε : Type} (f : α → Except ε β) :
    ∀ (xs : List α) (ys : List β), xs.mapM f = .ok ys → Zip2 (fun x y => f x = .ok y) xs ys := by
  intro xs
  induction xs with
  | nil =>
    intro ys h
    simp [List.mapM_nil, pure, Except.pure] at h
    subst h
    exact Zip2.nil
  | cons x xs ih =>
    intro ys h
    rw [List.mapM_cons] at h
    simp only [bind, Except.bind] at h
    split at h
    · cases h
    · rename_i y hy
      split at h
      · cases h
      · rename_i ys' hys
        simp only [pure, Except.pure, Except.ok.injEq] at h
        subst h
        exact Zip2.cons hy (ih ys' hys)

theorem mapM_err_exists {α β ε : Type} (f : α → Except ε β) :
    ∀ (xs : List α) (e : ε), xs.mapM f = .error e → ∃ x ∈ xs, f x = .error e := by
  intro xs
  induction xs with
  | nil =>
    intro e h
    simp [List.mapM_nil, pure, Except.pure] at h
  | cons x xs ih =>
    intro e h
    rw [List.mapM_cons] at h
    simp only [bind, Except.bind] at h
    split at h
    · rename_i e' he
      cases h
      exact ⟨x, List.mem_cons_self .., he⟩
    · rename_i y hy
      split at h
      · rename_i e' he
        cases h
        obtain ⟨x', hx', hf⟩ := ih e he
        exact ⟨x', List.mem_cons_of_mem _ hx', hf⟩
      · cases h

theorem forall2_any {α β : Type} (R : α → β → Prop) (p : α → Bool) (q : β → Bool)
    (h : ∀ x y, R x y → p x = q y) :
    ∀ (xs : List α) (ys : List β), Zip2 R xs ys → xs.any p = ys.any q := by
  intro xs ys hf
  induction hf with
  | nil => rfl
  | cons hxy _ ih => simp only [List.any_cons, h _ _ hxy, ih]

theorem forall2_map {α β γ : Type} (R : α → β → Prop) (f : α → γ) (g : β → γ)
    (h : ∀ x y, R x y → f x = g y) :
    ∀ (xs : List α) (ys : List β), Zip2 R xs ys → xs.map f = ys.map g := by
  intro xs ys hf
  induction hf with
  | nil => rfl
  | cons hxy _ ih => simp only [List.map_cons, h _ _ hxy, ih]

theorem forall2_mem_right {α β : Type} (R : α → β → Prop) :
    ∀ (xs : List α) (ys : List β), Zip2 R xs ys → ∀ y ∈ ys, ∃ x ∈ xs, R x y := by
  intro xs ys hf
  induction hf with
  | nil => intro y hy; cases hy
  | cons hxy _ ih =>
    intro y hy
    rcases List.mem_cons.mp hy with rfl | hy
    · exact ⟨_, List.mem_cons_self .., hxy⟩
    · obtain ⟨x, hx, hr⟩ := ih y hy
      exact ⟨x, List.mem_cons_of_mem _ hx, hr⟩

/-! ### the documented classification, cut into named pieces -/

/-- what `layerOfFile` makes of a layer found on disk (the state and the probe's fields aside) -/
structure Corr (i : Inst) (dl : DLayer) (l : Layer) : Prop where
  name : l.name = dl.name
  base : l.base = dl.file.base
  cmounts : l.cmounts = dl.file.mounts
  cexports : l.cexports = dl.file.exports
  layerPath : l.layerPath = layerDir i dl.name

/-- the root of the chain of `n` (the layer `$$base` refers to), as the manual has it -/
def rootOf (ls : List DLayer) (n : Bytes) : Bytes :=
  ((ancestorsOf ls (ls.length + 1) n).getLast?).getD n

/-- the import list as the classification resolves it -/
def specImports (i : Inst) (ls : List DLayer) (dl : DLayer) : List (Bytes × Option Bytes × Bytes) :=
  dl.file.mounts.map fun imp =>
    (pathJoin [buildDir i dl.name, imp.mount], resolveSource i ls dl.name imp.source, imp.fstype)

/-- per-import code of the classification on a resolved triple -/
def specClassify (i : Inst) (x : Bytes × Option Bytes × Bytes) : Nat :=
  let (mp, src, fstype) := x
  let src := src.getD []
  if !Fs.lexists i.fs mp then 0
  else if !Fs.lexists i.fs src && !underLayers i src then 0
  else match topAt i.mnts mp with
    | none => 1
    | some m => if importAsConfigured i m fstype src then 2 else 3

def specExportLink (i : Inst) (n : Bytes) (e : NeededMount) : Option Bytes :=
  match adjustPrefixedPath e.mount (fun sym =>
      if sym == b!"package_export" then some (pathJoin [i.cfg.exportdirs, i.cfg.exportBinPkg, n])
      else if sym == b!"file_export" then some (pathJoin [i.cfg.exportdirs, i.cfg.exportGenerated, n])
      else none) with
  | .ok p => some p
  | .error _ => none

def specExportBad (i : Inst) (n : Bytes) (e : NeededMount) : Bool :=
  let src := pathJoin [layerDir i n, i.cfg.buildRoot, e.source]
  match specExportLink i n e with
  | none => true
  | some lk =>
    !(atOrBelow (buildDir i n) src) ||
    (Fs.lexists i.fs src && match Fs.get i.fs lk with
      | some (.symlink t) => t != src
      | _ => false)

def specExportMissing (i : Inst) (n : Bytes) (e : NeededMount) : Bool :=
  !Fs.lexists i.fs (pathJoin [layerDir i n, i.cfg.buildRoot, e.source])

/-- the tail of the classification: imports coded `cls`, exports, the final chain -/
def specTail (i : Inst) (users : List (Bytes × List User)) (dl : DLayer) (derived : Bool)
    (cls : List Nat) : St :=
  if cls.any (· == 3) || dl.file.exports.any (specExportBad i dl.name) then .error
  else if cls.any (· == 0) || dl.file.exports.any (specExportMissing i dl.name) then .inhabited
  else
    let nMounted := (cls.filter (· == 2)).length + (if derived then 1 else 0)
    let nExpected := cls.length + (if derived then 1 else 0)
    if nMounted == 0 then .mountable
    else if nMounted < nExpected then .partialmount
    else if mountBusy i users dl.name || overlain i dl.name then .mountedBusy
    else .mounted

def specParentMountable (ps : Option St) : Bool :=
  match ps with
  | some s => s.toNat ≥ 5
  | none => true

def specOvlOk (i : Inst) (dl : DLayer) : Bool :=
  match topAt i.mnts (buildDir i dl.name) with
  | some m => m.fstype == b!"overlay" && m.lower == buildDir i dl.file.base
              && m.upper == upperDir i dl.name && m.work == workDir i dl.name
  | none => true

def specFhs (i : Inst) (dl : DLayer) : Bool :=
  fhsDirs.all fun d => Fs.isDir i.fs (pathJoin [buildDir i dl.name, d])

/-- `stateOf`, with its pieces named -/
theorem stateOf_unfold (i : Inst) (ls : List DLayer) (users : List (Bytes × List User)) (dl : DLayer)
    (ps : Option St) :
    stateOf i ls users dl ps =
      (let derived := !dl.file.base.isEmpty
       if dl.file.nmsgs > 0 then .error else
       if !Fs.isDir i.fs (buildDir i dl.name) then .incomplete else
       if derived && (!Fs.isDir i.fs (workDir i dl.name) || !Fs.isDir i.fs (upperDir i dl.name)) then .incomplete else
       if derived && !specParentMountable ps then .complete else
       if derived && !specOvlOk i dl then .error else
       if derived && (topAt i.mnts (buildDir i dl.name)).isNone then
         (if mountedAtOrBelow i dl.name then .error else .mountable)
       else
       if !specFhs i dl then .complete else
       if (specImports i ls dl).any (fun x => x.2.1.isNone) then .inhabited else
       specTail i users dl derived ((specImports i ls dl).map (specClassify i))) := by
  rfl

/-! ### the expansions of the model, element by element -/

def modelResolve (d : Defs) (l : Layer) (sym : Bytes) : Option Bytes :=
  if sym == b!"base" then (findLayerBase d (d.layers.length + 1) l).map (·.layerPath)
  else if sym == b!"self" then some l.layerPath
  else none

def importOf (cfg : Config) (d : Defs) (l : Layer) (m : NeededMount) : Res Expanded :=
  match adjustPrefixedPath m.source (modelResolve d l) with
  | .ok src => .ok ⟨pathJoin [buildPath cfg l, m.mount], src, m.fstype, m.mount, m.source⟩
  | .error e => .error e

theorem expandConfigMounts_mapM (cfg : Config) (d : Defs) (l : Layer) :
    expandConfigMounts cfg d l = l.cmounts.mapM (importOf cfg d l) := rfl

def exportResolve (cfg : Config) (name : Bytes) (sym : Bytes) : Option Bytes :=
  if sym == b!"package_export" then some (pathJoin [cfg.exportdirs, cfg.exportBinPkg, name])
  else if sym == b!"file_export" then some (pathJoin [cfg.exportdirs, cfg.exportGenerated, name])
  else none

def exportOf (cfg : Config) (l : Layer) (m : NeededMount) : Res Expanded :=
  match adjustPrefixedPath m.mount (exportResolve cfg l.name) with
  | .ok tgt => .ok ⟨tgt, pathJoin [l.layerPath, cfg.buildRoot, m.source], m.fstype, m.mount, m.source⟩
  | .error e => .error e

theorem expandConfigExports_mapM (cfg : Config) (l : Layer) :
    expandConfigExports cfg l = l.cexports.mapM (exportOf cfg l) := rfl

/-- `AdjustPrefixedPath` returns an error value, never panics -/
theorem adjustPrefixedPath_no_panic (p : Bytes) (r : Bytes → Option Bytes) :
    adjustPrefixedPath p r ≠ .error .panic := by
  unfold adjustPrefixedPath
  simp only [Res.err]
  intro h
  split at h
  · cases h
  · split at h
    · rename_i e he
      cases h
      repeat' split at he
      all_goals cases he
    · split at h <;> cases h

theorem expandConfigMounts_no_panic (cfg : Config) (d : Defs) (l : Layer) :
    expandConfigMounts cfg d l ≠ .error .panic := by
  intro h
  rw [expandConfigMounts_mapM] at h
  obtain ⟨m, _, hm⟩ := mapM_err_exists _ _ _ h
  unfold importOf at hm
  split at hm
  · cases hm
  · rename_i e he
    cases hm
    exact adjustPrefixedPath_no_panic _ _ he

/-- the specification's resolver is the model's, once `$$base` names the same directory -/
theorem resolveSource_eq (i : Inst) (ls : List DLayer) (dl : DLayer) (d : Defs) (l : Layer)
    (hc : Corr i dl l)
    (hroot : (findLayerBase d (d.layers.length + 1) l).map (·.layerPath)
      = some (layerDir i (rootOf ls dl.name)))
    (src : Bytes) :
    resolveSource i ls dl.name src =
      match adjustPrefixedPath src (modelResolve d l) with
      | .ok p => some p
      | .error _ => none := by
  have hr : modelResolve d l = (fun sym =>
      if sym == b!"base" then some (layerDir i (rootOf ls dl.name))
      else if sym == b!"self" then some (layerDir i dl.name) else none) := by
    funext sym
    unfold modelResolve
    rw [hroot, hc.layerPath]
  rw [hr]
  rfl

/-- the import list, as resolved by the classification, is the model's expansion -/
theorem specImports_ok (i : Inst) (ls : List DLayer) (dl : DLayer) (d : Defs) (l : Layer)
    (imports : List Expanded) (hc : Corr i dl l)
    (hroot : (findLayerBase d (d.layers.length + 1) l).map (·.layerPath)
      = some (layerDir i (rootOf ls dl.name)))
    (hexp : expandConfigMounts i.cfg d l = .ok imports) :
    specImports i ls dl = imports.map (fun e => (e.mount, some e.source, e.fstype)) := by
  rw [expandConfigMounts_mapM, hc.cmounts] at hexp
  have hz := mapM_ok_forall2 _ _ _ hexp
  unfold specImports
  refine forall2_map _ _ _ ?_ _ _ hz
  intro m e hme
  have hbp : buildPath i.cfg l = buildDir i dl.name := by
    unfold buildPath buildDir
    rw [hc.layerPath]
  rw [resolveSource_eq i ls dl d l hc hroot]
  unfold importOf at hme
  split at hme
  · rename_i p hp
    cases hme
    simp only [hbp]
  · cases hme

/-- … and when the model's expansion fails, some import does not resolve -/
theorem specImports_err (i : Inst) (ls : List DLayer) (dl : DLayer) (d : Defs) (l : Layer)
    (e : Fault) (hc : Corr i dl l)
    (hroot : (findLayerBase d (d.layers.length + 1) l).map (·.layerPath)
      = some (layerDir i (rootOf ls dl.name)))
    (hexp : expandConfigMounts i.cfg d l = .error e) :
    (specImports i ls dl).any (fun x => x.2.1.isNone) = true := by
  rw [expandConfigMounts_mapM, hc.cmounts] at hexp
  obtain ⟨m, hm, hf⟩ := mapM_err_exists _ _ _ hexp
  unfold specImports
  rw [List.any_map, List.any_eq_true]
  refine ⟨m, hm, ?_⟩
  simp only [Function.comp]
  rw [resolveSource_eq i ls dl d l hc hroot]
  unfold importOf at hf
  split at hf
  · cases hf
  · rename_i e' he
    simp

theorem specClassify_code (i : Inst) (e : Expanded) :
    specClassify i (e.mount, some e.source, e.fstype) = specCode i e := rfl

/-! ### exports -/

/-- the two "inside the build directory" tests agree on an export source: the code's
    `IsDescendant` (filepath.Rel, first byte of the relative path not '.') or equality, and
    the manual's "the build directory or below it" -/
def ExportSrcAgree (i : Inst) (n : Bytes) (e : NeededMount) : Prop :=
  (isDescendant (buildDir i n) (pathJoin [layerDir i n, i.cfg.buildRoot, e.source])
      || buildDir i n == pathJoin [layerDir i n, i.cfg.buildRoot, e.source])
    = atOrBelow (buildDir i n) (pathJoin [layerDir i n, i.cfg.buildRoot, e.source])

instance (i : Inst) (n : Bytes) (e : NeededMount) : Decidable (ExportSrcAgree i n e) := by
  unfold ExportSrcAgree; exact inferInstance

theorem forall2_any_cond {α β : Type} (R : α → β → Prop) (p : α → Bool) (q c : β → Bool)
    (h : ∀ x y, R x y → c y = false → p x = q y) :
    ∀ (xs : List α) (ys : List β), Zip2 R xs ys → ys.any c = false → xs.any p = ys.any q := by
  intro xs ys hf
  induction hf with
  | nil => intro _; rfl
  | cons hxy _ ih =>
    intro hc
    simp only [List.any_cons, Bool.or_eq_false_iff] at hc
    simp only [List.any_cons, h _ _ hxy hc.1, ih hc.2]

theorem specExportLink_eq (i : Inst) (dl : DLayer) (l : Layer) (hc : Corr i dl l) (m : NeededMount) :
    specExportLink i dl.name m =
      match adjustPrefixedPath m.mount (exportResolve i.cfg l.name) with
      | .ok p => some p
      | .error _ => none := by
  rw [hc.name]
  rfl

/-- per export: the classification's "bad" is the code's "incorrect", its "missing" the
    code's "missing" once nothing is incorrect -/
theorem export_elem (i : Inst) (dl : DLayer) (l : Layer) (hc : Corr i dl l) (m : NeededMount)
    (e : Expanded) (ha : ExportSrcAgree i dl.name m) (hme : exportOf i.cfg l m = .ok e) :
    specExportBad i dl.name m = expWrong i.fs (buildPath i.cfg l) e ∧
    (expWrong i.fs (buildPath i.cfg l) e = false →
      specExportMissing i dl.name m = expMissing i.fs (buildPath i.cfg l) e) := by
  have hbp : buildPath i.cfg l = buildDir i dl.name := by
    unfold buildPath buildDir
    rw [hc.layerPath]
  unfold ExportSrcAgree at ha
  unfold specExportBad specExportMissing expWrong expMissing
  rw [specExportLink_eq i dl l hc, hbp]
  unfold exportOf at hme
  split at hme
  · rename_i tgt htgt
    cases hme
    simp only [hc.layerPath]
    generalize pathJoin [layerDir i dl.name, i.cfg.buildRoot, m.source] = src at ha ⊢
    have ha' : (!isDescendant (buildDir i dl.name) src && buildDir i dl.name != src)
        = !atOrBelow (buildDir i dl.name) src := by
      rw [← ha]
      cases isDescendant (buildDir i dl.name) src <;> cases hq : (buildDir i dl.name == src) <;>
        simp [bne, hq]
    rw [ha']
    have hsl : (Fs.isSymlink i.fs tgt && readlink i.fs tgt != some src)
        = (match Fs.get i.fs tgt with
           | some (.symlink t) => t != src
           | _ => false) := by
      unfold Fs.isSymlink readlink
      cases hg : Fs.get i.fs tgt with
      | none => rfl
      | some nd =>
        cases nd with
        | dir => rfl
        | file c => rfl
        | symlink t =>
          simp only [Bool.true_and]
          by_cases ht : t = src
          · subst ht; simp
          · simp [bne]
    rw [Bool.and_assoc, hsl]
    constructor
    · rfl
    · intro hw
      simp only [Bool.or_eq_false_iff] at hw
      rw [hw.1]
      rfl
  · cases hme

/-- the export tallies of the classification and of the code -/
theorem exports_bridge (i : Inst) (dl : DLayer) (l : Layer) (hc : Corr i dl l)
    (hex : ∀ e ∈ dl.file.exports, ExportSrcAgree i dl.name e) :
    dl.file.exports.any (specExportBad i dl.name) =
      ((exportsOf i.cfg l).1.any (expWrong i.fs (buildPath i.cfg l)) || (exportsOf i.cfg l).2) ∧
    (((exportsOf i.cfg l).1.any (expWrong i.fs (buildPath i.cfg l)) || (exportsOf i.cfg l).2) = false →
      dl.file.exports.any (specExportMissing i dl.name) =
        (exportsOf i.cfg l).1.any (expMissing i.fs (buildPath i.cfg l))) := by
  unfold exportsOf
  cases hexp : expandConfigExports i.cfg l with
  | error e =>
    simp only [List.any_nil, Bool.or_true, Bool.true_eq_false, false_implies, and_true]
    rw [expandConfigExports_mapM, hc.cexports] at hexp
    obtain ⟨m, hm, hf⟩ := mapM_err_exists _ _ _ hexp
    rw [List.any_eq_true]
    refine ⟨m, hm, ?_⟩
    unfold specExportBad
    rw [specExportLink_eq i dl l hc]
    unfold exportOf at hf
    split at hf
    · cases hf
    · simp
  | ok exports =>
    simp only [Bool.or_false]
    rw [expandConfigExports_mapM, hc.cexports] at hexp
    have hz := mapM_ok_forall2 _ _ _ hexp
    -- strengthen the relation with membership on the left
    have hz' : Zip2 (fun m e => ExportSrcAgree i dl.name m ∧ exportOf i.cfg l m = .ok e)
        dl.file.exports exports := by
      clear hexp
      revert hex
      generalize dl.file.exports = xs at hz
      intro hex
      induction hz with
      | nil => exact Zip2.nil
      | cons hxy _ ih =>
        exact Zip2.cons ⟨hex _ (List.mem_cons_self ..), hxy⟩
          (ih (fun e he => hex e (List.mem_cons_of_mem _ he)))
    constructor
    · exact forall2_any _ _ _ (fun m e h => (export_elem i dl l hc m e h.1 h.2).1) _ _ hz'
    · intro hw
      exact forall2_any_cond _ _ _ _ (fun m e h hc' => (export_elem i dl l hc m e h.1 h.2).2 hc') _ _ hz' hw

/-! ### the tail of the classification = `classify` -/

/-- the state named by the classification's tail, as a number, in the shape of `finish_state` -/
theorem specTail_toNat (i : Inst) (users : List (Bytes × List User)) (dl : DLayer) (derived : Bool)
    (cls : List Nat) :
    (specTail i users dl derived cls).toNat =
      if cls.any (· == 3) || dl.file.exports.any (specExportBad i dl.name) then S_error
      else if cls.any (· == 0) || dl.file.exports.any (specExportMissing i dl.name) then S_inhabited
      else if (cls.filter (· == 2)).length + (if derived then 1 else 0) == 0 then S_mountable
      else if (cls.filter (· == 2)).length + (if derived then 1 else 0)
          < cls.length + (if derived then 1 else 0) then S_partialmount
      else if mountBusy i users dl.name || overlain i dl.name then S_mounted_busy
      else S_mounted := by
  unfold specTail
  simp only []
  repeat' split
  all_goals rfl

/-- After the overlay pre-check the code and the classification agree: `classify` started
    with the overlay counted (`n0`) reports the state the tail of `stateOf` names. -/
theorem classify_eq_specTail (i : Inst) (ls : List DLayer) (users : List (Bytes × List User))
    (dl : DLayer) (d : Defs) (lc : Layer) (n0 : Nat)
    (hc : Corr i dl lc)
    (hroot : (findLayerBase d (d.layers.length + 1) lc).map (·.layerPath)
      = some (layerDir i (rootOf ls dl.name)))
    (hbr : ∀ imports, expandConfigMounts i.cfg d lc = .ok imports →
      ∀ e ∈ imports, ImportBridge i d.mounts e)
    (hex : ∀ e ∈ dl.file.exports, ExportSrcAgree i dl.name e)
    (hbusy : (lc.mountBusy || lc.overlain) = (mountBusy i users dl.name || overlain i dl.name))
    (hn0 : n0 = if !dl.file.base.isEmpty then 1 else 0) :
    ∃ l', classify i.cfg i.fs d (buildPath i.cfg lc) lc n0 = .ok l' ∧
      l'.state = (if (specImports i ls dl).any (fun x => x.2.1.isNone) then St.inhabited
                  else specTail i users dl (!dl.file.base.isEmpty)
                    ((specImports i ls dl).map (specClassify i))).toNat := by
  rw [classify_eq]
  cases hexp : expandConfigMounts i.cfg d lc with
  | error e =>
    cases e with
    | panic => exact absurd hexp (expandConfigMounts_no_panic _ _ _)
    | err c =>
      rw [specImports_err i ls dl d lc _ hc hroot hexp]
      exact ⟨_, rfl, rfl⟩
  | ok imports =>
    have hbr' := hbr imports hexp
    have hnone : ((List.map (fun e : Expanded => (e.mount, some e.source, e.fstype)) imports).any
        fun x => x.snd.fst.isNone) = false := by
      rw [List.any_map]
      simp
    have hcls : (imports.map (fun e : Expanded => (e.mount, some e.source, e.fstype))).map (specClassify i)
        = imports.map (specCode i) := by
      rw [List.map_map]
      rfl
    rw [specImports_ok i ls dl d lc imports hc hroot hexp, hnone, hcls]
    have h3 : (imports.map (specCode i)).any (fun x => x == 3) = imports.any (impWrong i.cfg i.fs d.mounts) :=
      any_map_congr _ _ _ _ (fun e he => bridge_wrong i d.mounts e (hbr' e he))
    have h0 : (imports.map (specCode i)).any (fun x => x == 0) = imports.any (impMissing i.cfg i.fs) :=
      any_map_congr _ _ _ _ (fun e he => bridge_missing i d.mounts e (hbr' e he))
    have hpn : imports.any (impPanic i.cfg i.fs d.mounts) = false := by
      rw [List.any_eq_false]
      intro e he
      simp [bridge_panic i d.mounts e (hbr' e he)]
    have hlen := expandConfigMounts_length i.cfg d lc imports hexp
    obtain ⟨hxb, hxm⟩ := exports_bridge i dl lc hc hex
    simp only [hpn, Bool.false_eq_true, ↓reduceIte]
    refine ⟨_, rfl, ?_⟩
    rw [finish_state, specTail_toNat, h3, h0, hxb, List.length_map]
    have hder : (lc.base.length > 0) = ((!dl.file.base.isEmpty) = true) := by
      rw [hc.base]
      cases dl.file.base <;> simp
    have hne : numExpected lc = imports.length + (if (!dl.file.base.isEmpty) = true then 1 else 0) := by
      unfold numExpected
      rw [hlen]
      simp only [hder]
    rw [hne, hbusy, hn0]
    simp only [Bool.or_assoc]
    cases hw : imports.any (impWrong i.cfg i.fs d.mounts) with
    | true => rfl
    | false =>
      simp only [Bool.false_or]
      cases hxw : ((exportsOf i.cfg lc).1.any (expWrong i.fs (buildPath i.cfg lc)) || (exportsOf i.cfg lc).2) with
      | true => rfl
      | false =>
        rw [hxm hxw]
        have h2 : ((imports.map (specCode i)).filter (fun x => x == 2)).length
            = imports.countP (impMounted i.cfg i.fs d.mounts) :=
          filter_map_length _ _ _ _ (fun e he => bridge_mounted i d.mounts e (hbr' e he)
            (by simpa using List.any_eq_false.mp hw e he))
        rw [h2]
        simp only [Bool.false_eq_true, ↓reduceIte, Nat.add_comm]

/-- the same, for the record `findLayerstate` works on (fresh `mounts`, state reset) -/
theorem classify_eq_specTail_of (i : Inst) (ls : List DLayer) (users : List (Bytes × List User))
    (dl : DLayer) (d : Defs) (l : Layer) (ms : List MountType) (s n0 : Nat)
    (hc : Corr i dl l)
    (hroot : (findLayerBase d (d.layers.length + 1) l).map (·.layerPath)
      = some (layerDir i (rootOf ls dl.name)))
    (hbr : ∀ imports, expandConfigMounts i.cfg d l = .ok imports →
      ∀ e ∈ imports, ImportBridge i d.mounts e)
    (hex : ∀ e ∈ dl.file.exports, ExportSrcAgree i dl.name e)
    (hbusy : (l.mountBusy || l.overlain) = (mountBusy i users dl.name || overlain i dl.name))
    (hn0 : n0 = if !dl.file.base.isEmpty then 1 else 0) :
    ∃ l', classify i.cfg i.fs d (buildPath i.cfg l) { l with mounts := ms, state := s } n0 = .ok l' ∧
      l'.state = (if (specImports i ls dl).any (fun x => x.2.1.isNone) then St.inhabited
                  else specTail i users dl (!dl.file.base.isEmpty)
                    ((specImports i ls dl).map (specClassify i))).toNat := by
  have hcongr : expandConfigMounts i.cfg d ({ l with mounts := ms, state := s } : Layer)
      = expandConfigMounts i.cfg d l :=
    expandConfigMounts_congr i.cfg d ({ l with mounts := ms, state := s } : Layer) l rfl rfl rfl
  exact classify_eq_specTail i ls users dl d ({ l with mounts := ms, state := s } : Layer) n0
    ⟨hc.name, hc.base, hc.cmounts, hc.cexports, hc.layerPath⟩
    ((findLayerBase_path d _ ({ l with mounts := ms, state := s } : Layer) l rfl rfl).trans hroot)
    (fun imports himp => hbr imports (hcongr.symm.trans himp))
    hex hbusy hn0

/-! ### `findLayerstate` on a derived layer, in closed form -/

/-- what is assumed about the two views of the mount table at the build directory of a
    derived layer: both see a mount there or neither does, and the one `ProbeMounts` shows
    has the type and (for an overlay) the lower/upper/work directories of the kernel's -/
structure OverlayBridge (i : Inst) (m : Mounts) (bd : Bytes) : Prop where
  mounted : (getMount m bd).isSome = (topAt i.mnts bd).isSome
  /-- "something is mounted at or below the build directory": `GetMountAndSubmounts` is not
      empty iff the kernel table has such a mount -/
  below : decide ((getMountAndSubmounts m bd).length > 0) = i.mnts.any (fun k => atOrBelow bd k.mp)
  fields : ∀ mnt km, getMount m bd = some mnt → topAt i.mnts bd = some km →
    mnt.fstype = km.fstype ∧
    (km.fstype = b!"overlay" → mnt.source = km.lower ∧ mnt.source2 = km.upper ∧ mnt.workdir = km.work)

theorem findLayerstate_derived (cfg : Config) (fs : Fs.Tree) (d : Defs) (l bl : Layer)
    (hs : ¬ l.state < S_complete) (hb : l.base.length > 0) (hbl : findLayer d l.base = some bl) :
    findLayerstate cfg fs d l =
      if bl.state < S_mountable then
        .ok { l with mounts := getMountAndSubmounts d.mounts (buildPath cfg l), state := S_complete }
      else match getMount d.mounts (buildPath cfg l) with
        | none =>
          if (getMountAndSubmounts d.mounts (buildPath cfg l)).length > 0 then
            .ok { l with mounts := getMountAndSubmounts d.mounts (buildPath cfg l), state := S_error }
          else
            .ok { l with mounts := getMountAndSubmounts d.mounts (buildPath cfg l), state := S_mountable }
        | some mnt =>
          if mnt.fstype != b!"overlay" || (mnt.source != buildPath cfg bl || mnt.source2 != upperPath cfg l
                || mnt.workdir != workPath cfg l) then
            .ok { l with mounts := getMountAndSubmounts d.mounts (buildPath cfg l), state := S_error }
          else if !minimalBuildDirsPresent fs (buildPath cfg l) then
            .ok { l with mounts := getMountAndSubmounts d.mounts (buildPath cfg l), state := S_complete }
          else classify cfg fs d (buildPath cfg l)
            { l with mounts := getMountAndSubmounts d.mounts (buildPath cfg l), state := S_complete } 1 := by
  rw [findLayerstate_eq]
  unfold findLayerstate2
  simp only [hs, ↓reduceIte]
  unfold preCheck
  simp only [hb, ↓reduceIte, hbl]
  by_cases hst : bl.state < S_mountable
  · simp only [hst, ↓reduceIte]
    rfl
  · simp only [hst, ↓reduceIte]
    show afterPre cfg fs d (buildPath cfg l) _
      (match getMount d.mounts (buildPath cfg l) with | none => _ | some mnt => _) = _
    cases hg : getMount d.mounts (buildPath cfg l) with
    | none =>
      simp only []
      by_cases hlen : (getMountAndSubmounts d.mounts (buildPath cfg l)).length > 0
      · simp only [hlen, ↓reduceIte]; rfl
      · simp only [hlen, ↓reduceIte]; rfl
    | some mnt =>
      simp only []
      by_cases hft : (mnt.fstype != b!"overlay") = true
      · simp only [hft, ↓reduceIte, Bool.true_or]
        rfl
      · simp only [hft, Bool.false_eq_true, ↓reduceIte, Bool.false_or]
        show afterPre cfg fs d (buildPath cfg l) _
          (if (mnt.source != buildPath cfg bl || mnt.source2 != upperPath cfg l
                || mnt.workdir != workPath cfg l) = true then _ else _) = _
        by_cases hsrc : (mnt.source != buildPath cfg bl || mnt.source2 != upperPath cfg l
                || mnt.workdir != workPath cfg l) = true
        · simp only [hsrc, ↓reduceIte]
          rfl
        · simp only [hsrc, Bool.false_eq_true, ↓reduceIte]
          show afterPre cfg fs d (buildPath cfg l) _
            (if (!minimalBuildDirsPresent fs (buildPath cfg l)) = true then _ else _) = _
          cases minimalBuildDirsPresent fs (buildPath cfg l) <;> simp [afterPre]

/-! ### when the two "inside the build directory" tests agree -/

/-- `p` is not below `dir`, or its path relative to `dir` is a proper relative path: not
    empty, not ".", not "..", not beginning with "../" -/
def relProper (dir p : Bytes) : Bool :=
  !hasPrefix p (dir ++ [47]) ||
    ((p.drop (dir.length + 1)).length > 0 && p.drop (dir.length + 1) != [46]
      && p.drop (dir.length + 1) != [46, 46] && !hasPrefix (p.drop (dir.length + 1)) [46, 46, 47])

theorem descendant_or_eq_iff (dir p : Bytes) (hd : dir ≠ [47]) :
    ((isDescendant dir p || dir == p) = atOrBelow dir p) ↔ relProper dir p = true := by
  unfold isDescendant atOrBelow relProper Fs.under
  have hd' : (dir == [47]) = false := by simpa using hd
  simp only [hd', Bool.false_eq_true, ↓reduceIte]
  by_cases he : p = dir
  · subst he
    have hnp : hasPrefix p (p ++ [47]) = false := by
      clear hd hd'
      induction p with
      | nil => rfl
      | cons a as ih => simp [hasPrefix, ih]
    simp [hnp]
  · have he1 : (p == dir) = false := by simpa using he
    have he2 : (dir == p) = false := by simpa using fun h : dir = p => he h.symm
    simp only [he1, he2, Bool.false_or, Bool.or_false, Bool.false_eq_true, ↓reduceIte]
    cases hp : hasPrefix p (dir ++ [47]) with
    | false => simp
    | true =>
      simp only [↓reduceIte, Bool.not_true, Bool.false_or]

/-- the hypothesis `ExportSrcAgree` of the classification theorems, in plain terms (after
    fix eeedaf2): the export source is outside the build directory, the build directory
    itself, or a path below it that is not "", ".", ".." or "../…" relative to it — which
    every clean path is (`Lc.InLayers.relProper_clean`) -/
theorem export_src_agree_iff (i : Inst) (n : Bytes) (e : NeededMount) (hd : buildDir i n ≠ [47]) :
    ExportSrcAgree i n e ↔
      relProper (buildDir i n) (pathJoin [layerDir i n, i.cfg.buildRoot, e.source]) = true := by
  unfold ExportSrcAgree
  exact descendant_or_eq_iff _ _ hd

/-! ### the bridge hypotheses are decidable -/

def importBridgeB (i : Inst) (m : Mounts) (e : Expanded) : Bool :=
  isAbs e.source &&
  decide (inAnyLayerDirectory i.cfg (e.source.length + 1) e.source = underLayers i e.source) &&
  decide ((getMount m e.mount).isSome = (topAt i.mnts e.mount).isSome) &&
  match getMount m e.mount, topAt i.mnts e.mount with
  | some mnt, some km =>
    decide (mountSourceIsExpected m mnt e.source = .ok (importAsConfigured i km e.fstype e.source))
  | _, _ => true

theorem importBridge_iff (i : Inst) (m : Mounts) (e : Expanded) :
    importBridgeB i m e = true ↔ ImportBridge i m e := by
  unfold importBridgeB
  simp only [Bool.and_eq_true, decide_eq_true_eq]
  constructor
  · rintro ⟨⟨⟨h1, h2⟩, h3⟩, h4⟩
    refine ⟨h1, h2, h3, ?_⟩
    intro mnt km hg ht
    rw [hg, ht] at h4
    simpa using h4
  · intro h
    refine ⟨⟨⟨h.abs, h.inLayers⟩, h.mounted⟩, ?_⟩
    cases hg : getMount m e.mount with
    | none => rfl
    | some mnt =>
      cases ht : topAt i.mnts e.mount with
      | none => rfl
      | some km => simpa using h.expected mnt km hg ht

instance (i : Inst) (m : Mounts) (e : Expanded) : Decidable (ImportBridge i m e) :=
  decidable_of_iff _ (importBridge_iff i m e)

def overlayBridgeB (i : Inst) (m : Mounts) (bd : Bytes) : Bool :=
  decide ((getMount m bd).isSome = (topAt i.mnts bd).isSome) &&
  decide (decide ((getMountAndSubmounts m bd).length > 0) = i.mnts.any (fun k => atOrBelow bd k.mp)) &&
  match getMount m bd, topAt i.mnts bd with
  | some mnt, some km =>
    decide (mnt.fstype = km.fstype) &&
    (km.fstype != b!"overlay" ||
      (decide (mnt.source = km.lower) && decide (mnt.source2 = km.upper) && decide (mnt.workdir = km.work)))
  | _, _ => true

theorem overlayBridge_iff (i : Inst) (m : Mounts) (bd : Bytes) :
    overlayBridgeB i m bd = true ↔ OverlayBridge i m bd := by
  unfold overlayBridgeB
  simp only [Bool.and_eq_true, decide_eq_true_eq]
  constructor
  · rintro ⟨⟨h1, hb⟩, h2⟩
    refine ⟨h1, hb, ?_⟩
    intro mnt km hg ht
    rw [hg, ht] at h2
    simp only [Bool.and_eq_true, decide_eq_true_eq, Bool.or_eq_true, bne_iff_ne, ne_eq] at h2
    refine ⟨h2.1, fun hov => ?_⟩
    rcases h2.2 with h | h
    · exact absurd hov h
    · exact ⟨h.1.1, h.1.2, h.2⟩
  · intro h
    refine ⟨⟨h.mounted, h.below⟩, ?_⟩
    cases hg : getMount m bd with
    | none => rfl
    | some mnt =>
      cases ht : topAt i.mnts bd with
      | none => rfl
      | some km =>
        obtain ⟨hf1, hf2⟩ := h.fields mnt km hg ht
        simp only [Bool.and_eq_true, decide_eq_true_eq, Bool.or_eq_true, bne_iff_ne, ne_eq]
        refine ⟨hf1, ?_⟩
        by_cases hov : km.fstype = b!"overlay"
        · right
          obtain ⟨a, b, c⟩ := hf2 hov
          exact ⟨⟨a, b⟩, c⟩
        · left; exact hov

instance (i : Inst) (m : Mounts) (bd : Bytes) : Decidable (OverlayBridge i m bd) :=
  decidable_of_iff _ (overlayBridge_iff i m bd)

instance (i : Inst) (dl : DLayer) (l : Layer) : Decidable (Corr i dl l) :=
  decidable_of_iff (l.name = dl.name ∧ l.base = dl.file.base ∧ l.cmounts = dl.file.mounts ∧
      l.cexports = dl.file.exports ∧ l.layerPath = layerDir i dl.name)
    ⟨fun ⟨a, b, c, d, e⟩ => ⟨a, b, c, d, e⟩, fun h => ⟨h.name, h.base, h.cmounts, h.cexports, h.layerPath⟩⟩

end Lc.StateProbe
