/-
  Every structural command keeps the file-system tree well-formed (`TreeWF`,
  Lemmas/TreeWF.lean) on every exit — normal, error, injected fault or crash, pretending or
  not — when the configured directories are clean absolute paths.  One `Holds` specification
  per primitive, then per command, as in Lemmas/PretendKeeps.lean.  Helper lemmas for
  Props/C02.
-/
import Lc.Lemmas.Hoare
import Lc.Lemmas.TreeWF
import Lc.Lemmas.LayerPaths
import Lc.Lemmas.ForestCmd

namespace Lc.TreeKeeps
open Std.Do Lc Lc.Layers Lc.Hoare Lc.TreeWF Lc.Fs Lc.Lemmas.Path Lc.ExportPath Lc.InLayers
set_option mvcgen.warning false

/-- the invariant: the tree of the world is well-formed -/
abbrev T (w : World) : Prop := TreeWF w.fs
abbrev Tk {α} (m : M α) : Prop := Holds T m

/-! ### paths the commands compute -/

theorem cleanAbs_join (a : Bytes) (rest : List Bytes) (ha : isAbs a = true) :
    CleanAbs (pathJoin (a :: rest)) := pathJoin_head_shape a rest ha

/-- a clean name with a slash-free suffix glued on is a clean name -/
theorem cleanName_suffix (c s : Bytes) (hc : CleanName c) (hs : s ≠ []) (h47 : (47 : Nat) ∉ s) :
    CleanName (c ++ s) := by
  obtain ⟨⟨hcne, hcdot, hcsl⟩, hcdd⟩ := hc
  refine ⟨⟨by simp [hcne], ?_, ?_⟩, ?_⟩
  · intro e
    have := congrArg List.length e
    cases c with
    | nil => exact hcne rfl
    | cons x xs => cases s with
      | nil => exact hs rfl
      | cons y ys => simp [DOT] at this
  · intro hm
    rcases List.mem_append.mp hm with hm | hm
    · exact hcsl hm
    · exact h47 hm
  · intro e
    cases c with
    | nil => exact hcne rfl
    | cons x xs =>
      cases s with
      | nil => exact hs rfl
      | cons y ys =>
        cases xs with
        | nil =>
          simp [dotdot] at e
          exact hcdot (by rw [e.1]; rfl)
        | cons z zs =>
          have := congrArg List.length e
          simp [dotdot] at this

/-- a clean absolute path other than "/" with a slash-free suffix glued to its last
    component (`layerconfig.new`, `<name>~removed`) -/
theorem cleanAbs_suffix (F s : Bytes) (hF : CleanAbs F) (hne : F ≠ [47]) (hs : s ≠ [])
    (h47 : (47 : Nat) ∉ s) : CleanAbs (F ++ s) := by
  obtain ⟨pre, c, hpre, hc, hk, _⟩ := parent_shape F hF hne
  have hcs := cleanName_suffix c s hc hs h47
  have : F ++ s = absPath (pre ++ [c ++ s]) := by
    rw [hk, absPath_snoc_eq, absPath_snoc_eq]; simp
  rw [this]
  apply cleanAbs_absPath
  intro x hx
  rcases List.mem_append.mp hx with hx | hx
  · exact hpre x hx
  · simp at hx; rw [hx]; exact hcs

theorem cleanAbs_layerPath (cfg : Config) (n : Bytes) (hld : isAbs cfg.layerdirs = true) :
    CleanAbs (layerPath cfg n) := cleanAbs_join _ _ hld

theorem cleanAbs_buildPath (cfg : Config) (l : Layer) (hl : CleanAbs l.layerPath) : CleanAbs (buildPath cfg l) :=
  cleanAbs_join _ _ hl.2
theorem cleanAbs_workPath (cfg : Config) (l : Layer) (hl : CleanAbs l.layerPath) : CleanAbs (workPath cfg l) :=
  cleanAbs_join _ _ hl.2
theorem cleanAbs_upperPath (cfg : Config) (l : Layer) (hl : CleanAbs l.layerPath) : CleanAbs (upperPath cfg l) :=
  cleanAbs_join _ _ hl.2
theorem cleanAbs_cfgPath (l : Layer) (hl : CleanAbs l.layerPath) : CleanAbs (layerconfigPath l) :=
  cleanAbs_join _ _ hl.2
theorem cleanAbs_tmpPath (l : Layer) (hl : CleanAbs l.layerPath) : CleanAbs (layerconfigPath l ++ tmpSuffix) :=
  cleanAbs_suffix _ _ (cleanAbs_cfgPath l hl) (Lemmas.WriteLF.layerconfigPath_ne_root l) (by decide) (by decide)

/-- closes the routine verification conditions: the invariant is among the hypotheses -/
macro "tw_done" : tactic => `(tactic| first
  | assumption
  | (intros; assumption)
  | (((try intros) <;> simp_all); done))

/-! ### primitives -/

theorem fsStep_tw (op : Op) (f : Fs.Tree → Except String Fs.Tree)
    (hf : ∀ fs fs', TreeWF fs → f fs = .ok fs' → TreeWF fs') : Tk (fsStep op f) := by
  unfold Tk Holds
  mvcgen [fsStep, gate, getW, setW, fail, record]
  all_goals first
    | assumption
    | (rename_i h; exact hf _ _ (by assumption) h)

theorem fsMkdir_tw (p : Bytes) (hp : CleanAbs p) : Tk (fsMkdir p) :=
  fsStep_tw _ _ (fun _ _ h hr => mkdirAll_wf h p hp hr)

theorem fsRename_tw (a b : Bytes) (hb : CleanAbs b) : Tk (fsRename a b) :=
  fsStep_tw _ _ (fun _ _ h hr => rename_wf' h a b hb hr)

theorem fsRemove_tw (p : Bytes) : Tk (fsRemove p) :=
  fsStep_tw _ _ (fun fs fs' h hr => by injection hr with hr; rw [← hr]; exact removeAll_wf h p)

theorem fsSymlink_tw (link target : Bytes) (hl : CleanAbs link) : Tk (fsSymlink link target) :=
  fsStep_tw _ _ (fun _ _ h hr => symlink_wf h target link hl hr)

theorem fsWriteTextFile_tw (p content : Bytes) (hp : CleanAbs p) : Tk (fsWriteTextFile p content) :=
  fsStep_tw _ _ (fun fs fs' h hr => by
    cases ho : openWrite fs p false with
    | error e => rw [ho] at hr; cases hr
    | ok fs1 =>
      rw [ho] at hr
      simp only [bind, Except.bind, pure, Except.pure, Except.ok.injEq] at hr
      rw [← hr]
      exact overwriteFile_wf (openWrite_wf h p false hp ho) p content)

theorem cursorOpen_tw (p : Bytes) (hp : CleanAbs p) : Tk (cursorOpen p) := by
  unfold Tk Holds
  mvcgen [cursorOpen, getW, setW, fail, record]
  all_goals first
    | assumption
    | (rename_i h; exact openWrite_wf (by assumption) p true hp h)

theorem cursorWrite_tw (p chunk : Bytes) (failed : Bool) : Tk (cursorWrite p chunk failed) := by
  unfold Tk Holds
  mvcgen [cursorWrite, getW, setW, fail, record]
  all_goals first
    | assumption
    | (exact appendFile_wf (by assumption) p chunk)

theorem sysMount_tw (s t f : Bytes) (fl : Nat) (dt : Bytes) : Tk (sysMount s t f fl dt) := by
  unfold Tk Holds
  mvcgen [sysMount, getW, setW, fail, record]

theorem fsMount_tw (s t f o : Bytes) : Tk (fsMount s t f o) := by
  unfold Tk Holds
  have h := sysMount_tw
  unfold Tk Holds at h
  mvcgen [fsMount, gate, getW, setW, fail, h]

theorem fsUnmount_tw (t : Bytes) : Tk (fsUnmount t) := by
  unfold Tk Holds
  mvcgen [fsUnmount, gate, getW, setW, fail, record]

theorem fIsDir_tw (p) : Tk (fIsDir p) := by unfold Tk Holds; mvcgen [fIsDir, getW]
theorem fIsFile_tw (p) : Tk (fIsFile p) := by unfold Tk Holds; mvcgen [fIsFile, getW]
theorem fExists_tw (p) : Tk (fExists p) := by unfold Tk Holds; mvcgen [fExists, getW]
theorem fIsSymlink_tw (p) : Tk (fIsSymlink p) := by unfold Tk Holds; mvcgen [fIsSymlink, getW]
theorem holdsOnlyOwnFiles_tw (cfg l) : Tk (holdsOnlyOwnFiles cfg l) := by
  unfold Tk Holds; mvcgen [holdsOnlyOwnFiles, getW]

theorem testName_tw (d t) : Tk (testName d t) := by
  unfold Tk Holds testName; split <;> mvcgen [fail]
theorem reorder_tw (d) : Tk (reorder d) := by
  unfold Tk Holds reorder; split <;> mvcgen
theorem errorIfError_tw (l) : Tk (errorIfError l) := by
  unfold Tk Holds errorIfError; split <;> mvcgen [fail]
theorem errorIfBusy_tw (l a) : Tk (errorIfBusy l a) := by
  unfold Tk Holds errorIfBusy; split <;> mvcgen [fail]
theorem liftRes_tw {α} (r : Res α) : Tk (liftRes r) := liftRes_holds _ r

/-- looking a layer up: the tree is untouched and the layer is the one found -/
theorem getL_tw (d : Defs) (n : Bytes) :
    ⦃fun w => ⌜T w⌝⦄ getL d n ⦃post⟨fun l w => ⌜findLayer d n = some l ∧ T w⌝, fun _ w => ⌜T w⌝⟩⦄ := by
  unfold getL
  split <;> mvcgen

/-! ### writeLayerFile -/

theorem writeLayerFile_tw (l : Layer) (hl : CleanAbs l.layerPath) : Tk (writeLayerFile l) := by
  have h1 := cursorOpen_tw _ (cleanAbs_tmpPath l hl)
  have h2 := cursorWrite_tw (layerconfigPath l ++ tmpSuffix)
  have h3 := fsRename_tw (layerconfigPath l ++ tmpSuffix) (layerconfigPath l) (cleanAbs_cfgPath l hl)
  unfold Tk Holds at *
  mvcgen [writeLayerFile, getW, fail, h1, h2, h3]
  case inv1 => exact post⟨fun _ w => ⌜T w⌝, fun _ w => ⌜T w⌝⟩
  all_goals tw_done

/-! ### the commands -/

attribute [local irreducible] pathJoin

/-- closes the path premises: the paths a command derives from a layer directory `h` -/
macro "tw_path" h:term : tactic => `(tactic| ((try intros); first
  | exact $h
  | exact cleanAbs_buildPath _ _ $h
  | exact cleanAbs_workPath _ _ $h
  | exact cleanAbs_upperPath _ _ $h
  | exact cleanAbs_join _ _ (cleanAbs_buildPath _ _ $h).2
  | exact cleanAbs_join _ _ (cleanAbs_join _ _ (cleanAbs_buildPath _ _ $h).2).2))

/-- every layer of the table lives at a clean absolute path -/
def DirsOK (d : Defs) : Prop := ∀ l ∈ d.layers, CleanAbs l.layerPath

theorem getDefaultLayerinfo_tw (cfg f) : Tk (getDefaultLayerinfo cfg f) := by
  unfold Tk Holds
  mvcgen [getDefaultLayerinfo, getW, fail]
  all_goals tw_done

theorem addLayer_tw (cfg : Config) (d : Defs) (n b f : Bytes) (hld : isAbs cfg.layerdirs = true) :
    Tk (addLayer cfg d n b f) := by
  have hlp : CleanAbs (layerPath cfg n) := cleanAbs_layerPath cfg n hld
  have hT := testName_tw d
  have hG := getDefaultLayerinfo_tw cfg
  have hM := fsMkdir_tw
  have hW := writeLayerFile_tw
  have hF := fsWriteTextFile_tw
  have hR := reorder_tw
  unfold Tk Holds at *
  mvcgen [addLayer, hT, hG, hM, hW, hF, hR, fail]
  all_goals first
    | assumption
    | (intros; assumption)
    | tw_path hlp
    | tw_done

theorem removeLayerExportLinks_tw (cfg l) : Tk (removeLayerExportLinks cfg l) := by
  have h1 := fExists_tw
  have h2 := fIsSymlink_tw
  have h3 := fsRemove_tw
  unfold Tk Holds at *
  mvcgen [removeLayerExportLinks, h1, h2, h3, fail]
  case inv1 => exact post⟨fun _ w => ⌜T w⌝, fun _ w => ⌜T w⌝⟩
  all_goals tw_done

theorem findLayer_mem' {d : Defs} {n : Bytes} {l : Layer} (h : findLayer d n = some l) : l ∈ d.layers :=
  List.mem_of_find?_eq_some h

theorem cleanAbs_removed (F : Bytes) (hF : CleanAbs F) : CleanAbs (F ++ removedSuffix) := by
  by_cases h : F = [47]
  · subst h; decide
  · exact cleanAbs_suffix F _ hF h (by decide) (by decide)

theorem removeLayer_tw (cfg : Config) (d : Defs) (n : Bytes) (files : Bool) (hd : DirsOK d) :
    Tk (removeLayer cfg d n files) := by
  have hT := testName_tw d
  have hG := getL_tw d
  have h1 := errorIfError_tw
  have h2 := errorIfBusy_tw
  have h3 := removeLayerExportLinks_tw cfg
  have h4 := fsRemove_tw
  have h5 := fsRename_tw
  have h6 := fExists_tw
  have h7 := holdsOnlyOwnFiles_tw cfg
  have hR := reorder_tw
  unfold Tk Holds at *
  mvcgen [removeLayer, hT, hG, h1, h2, h3, h4, h5, h6, h7, hR, fail]
  all_goals first
    | assumption
    | (intros; assumption)
    | exact (‹_ ∧ T _›).2
    | exact cleanAbs_removed _ (hd _ (findLayer_mem' (‹findLayer d n = some _ ∧ T _›).1))

theorem rebaseLayer_tw (cfg : Config) (d : Defs) (n nb : Bytes) (hd : DirsOK d) :
    Tk (rebaseLayer cfg d n nb) := by
  have hT := testName_tw d
  have hG := getL_tw d
  have h1 := errorIfError_tw
  have h2 := errorIfBusy_tw
  have hW := writeLayerFile_tw
  have hR := reorder_tw
  unfold Tk Holds at *
  mvcgen [rebaseLayer, hT, hG, h1, h2, hW, hR, fail]
  all_goals first
    | assumption
    | (intros; assumption)
    | exact (‹_ ∧ T _›).2
    | (have := hd _ (findLayer_mem' (‹findLayer d n = some _ ∧ T _›).1); exact this)
    | tw_done

/-- the directories `mkdirs` creates -/
theorem need_clean (cfg : Config) (l : Layer) (hl : CleanAbs l.layerPath) (fs : Fs.Tree) (p : Bytes)
    (hp : p ∈ ([buildPath cfg l] ++ (if l.base.length > 0 then [workPath cfg l, upperPath cfg l] else [])).filter
      (fun p => !Fs.isDir fs p)) : CleanAbs p := by
  have hp' := (List.mem_filter.mp hp).1
  rcases List.mem_append.mp hp' with h | h
  · simp at h; rw [h]; exact cleanAbs_buildPath cfg l hl
  · split at h
    · simp at h
      rcases h with h | h
      · rw [h]; exact cleanAbs_workPath cfg l hl
      · rw [h]; exact cleanAbs_upperPath cfg l hl
    · cases h

theorem mem_of_split {α} (A p q : List α) (c : α) (h : A = p ++ c :: q) : c ∈ A := by
  rw [h]; simp

theorem makedirs_tw (cfg : Config) (d : Defs) (n : Bytes) (hd : DirsOK d) : Tk (makedirs cfg d n) := by
  have hT := testName_tw d
  have hG := getL_tw d
  have h1 := errorIfError_tw
  have hM := fsMkdir_tw
  have hL := @liftRes_tw
  unfold Tk Holds at *
  mvcgen [makedirs, hT, hG, h1, hM, hL, getW]
  case inv1 => exact post⟨fun _ w => ⌜T w⌝, fun _ w => ⌜T w⌝⟩
  all_goals first
    | assumption
    | (intros; assumption)
    | exact (‹_ ∧ T _›).2
    | (have hl := hd _ (findLayer_mem' (‹findLayer d n = some _ ∧ T _›).1)
       have he := ‹_ = _ ++ _ :: _›
       exact need_clean cfg _ hl _ _ (mem_of_split _ _ _ _ he))
    | tw_done

theorem renameLayer_tw (cfg : Config) (d : Defs) (old new : Bytes) (co : List Bytes) (hd : DirsOK d)
    (hld : isAbs cfg.layerdirs = true) : Tk (renameLayer cfg d old new co) := by
  have hnp : CleanAbs (layerPath cfg new) := cleanAbs_layerPath cfg new hld
  have hT := testName_tw d
  have hG := getL_tw d
  have h1 := errorIfError_tw
  have h2 := errorIfBusy_tw
  have h3 := removeLayerExportLinks_tw cfg
  have h5 := fsRename_tw
  have hW := writeLayerFile_tw
  have hR := reorder_tw
  unfold Tk Holds at *
  mvcgen [renameLayer, hT, hG, h1, h2, h3, h5, hW, hR, fail]
  case inv1 => exact post⟨fun _ w => ⌜T w⌝, fun _ w => ⌜T w⌝⟩
  all_goals first
    | assumption
    | (intros; assumption)
    | exact (‹_ ∧ T _›).2
    | exact hnp
    | (have he := ‹_ = _ ++ _ :: _›
       have := hd _ (ForestCmd.kidsOf_mem d old co _ (mem_of_split _ _ _ _ he)).1
       exact this)
    | tw_done

/-- the configured directories are clean absolute paths -/
def CfgClean (cfg : Config) : Prop :=
  CleanAbs cfg.basepath ∧ CleanAbs cfg.layerdirs ∧ CleanAbs cfg.exportdirs

instance (cfg : Config) : Decidable (CfgClean cfg) := inferInstanceAs (Decidable (_ ∧ _ ∧ _))

theorem missing_clean (cfg : Config) (hc : CfgClean cfg) (fs : Fs.Tree) (p : Bytes)
    (hp : p ∈ (if !Fs.isDir fs cfg.basepath then [cfg.basepath] else [])
      ++ [cfg.layerdirs, cfg.exportdirs].filter (fun p => !Fs.isDir fs p)) : CleanAbs p := by
  rcases List.mem_append.mp hp with h | h
  · split at h
    · simp at h; rw [h]; exact hc.1
    · cases h
  · have := (List.mem_filter.mp h).1
    simp at this
    rcases this with e | e
    · rw [e]; exact hc.2.1
    · rw [e]; exact hc.2.2

theorem needF_clean (cfg : Config) (hc : CfgClean cfg) (fs : Fs.Tree) (f : Bytes × Bool)
    (hf : f ∈ [ (pathJoin [cfg.basepath, skeletonFile], true), (pathJoin [cfg.exportdirs, b!"index.html"], false) ].filter
      (fun f => !Fs.isFile fs f.1)) : CleanAbs f.1 := by
  have := (List.mem_filter.mp hf).1
  simp at this
  rcases this with e | e
  · rw [e]; exact cleanAbs_join _ _ hc.1.2
  · rw [e]; exact cleanAbs_join _ _ hc.2.2.2

theorem initBase_tw (cfg : Config) (hc : CfgClean cfg) : Tk (initBase cfg) := by
  have hM := fsMkdir_tw
  have hF := fsWriteTextFile_tw
  unfold Tk Holds at *
  mvcgen [initBase, hM, hF, getW, fail]
  case inv1 => exact post⟨fun _ w => ⌜T w⌝, fun _ w => ⌜T w⌝⟩
  case inv2 => exact post⟨fun _ w => ⌜T w⌝, fun _ w => ⌜T w⌝⟩
  all_goals first
    | assumption
    | (intros; assumption)
    | (have he := ‹_ = _ ++ _ :: _›
       exact missing_clean cfg hc _ _ (mem_of_split _ _ _ _ he))
    | (have he := ‹_ = _ ++ _ :: _›
       exact needF_clean cfg hc _ _ (mem_of_split _ _ _ _ he))
    | tw_done

theorem unmountLayer_tw (cfg d n) : Tk (unmountLayer cfg d n) := by
  have hG := getL_tw
  have hU := fsUnmount_tw
  have hL := @liftRes_tw
  unfold Tk Holds at *
  mvcgen [unmountLayer, hG, hU, hL, refreshMountInfo, getW]
  case inv1 => exact post⟨fun _ w => ⌜T w⌝, fun _ w => ⌜T w⌝⟩
  all_goals first
    | assumption
    | (intros; assumption)
    | exact (‹_ ∧ T _›).2
    | tw_done

theorem unmountCmd_tw (cfg d n a) : Tk (unmountCmd cfg d n a) := by
  have hT := testName_tw
  have hU := unmountLayer_tw cfg
  unfold Tk Holds at *
  mvcgen [unmountCmd, hT, hU, fail]
  case inv1 => exact post⟨fun _ w => ⌜T w⌝, fun _ w => ⌜T w⌝⟩
  all_goals first
    | assumption
    | (intros; assumption)
    | tw_done

theorem shake_tw (cfg d) : Tk (shake cfg d) := by
  have hG := getL_tw d
  have hM := fsMount_tw
  unfold Tk Holds at *
  mvcgen [shake, hG, hM]
  case inv1 => exact post⟨fun _ w => ⌜T w⌝, fun _ w => ⌜T w⌝⟩
  all_goals first
    | assumption
    | (intros; assumption)
    | exact (‹_ ∧ T _›).2
    | tw_done

/-- reading the layers, probing them: the tree is not touched (any property of it stays) -/
theorem findLayers_fs (P : Fs.Tree → Prop) (cfg) : Holds (fun w => P w.fs) (findLayers cfg) := by
  unfold Holds findLayers reorder
  mvcgen [getW, fail]
  all_goals first
    | assumption
    | (split <;> mvcgen <;> assumption)

theorem probeAll_fs (P : Fs.Tree → Prop) (cfg inuse d) : Holds (fun w => P w.fs) (probeAll cfg inuse d) := by
  have hL := fun {α} (r : Res α) => liftRes_holds (fun w => P w.fs) r
  unfold Holds at *
  mvcgen [probeAll, refreshMountInfo, hL, getW]
  case inv1 => exact post⟨fun _ w => ⌜P w.fs⌝, fun _ w => ⌜P w.fs⌝⟩
  all_goals first
    | assumption
    | (intros; assumption)
    | tw_done

theorem getLayers_fs (P : Fs.Tree → Prop) (cfg inuse) : Holds (fun w => P w.fs) (getLayers cfg inuse) := by
  have h1 := findLayers_fs P cfg
  have h2 := probeAll_fs P cfg inuse
  unfold Holds at *
  mvcgen [getLayers, h1, h2]

theorem getLayers_tw (cfg inuse) : Tk (getLayers cfg inuse) := getLayers_fs TreeWF cfg inuse

/-! ### what probing never touches -/

open Lc.ForestCmd Lc.ForestInv Lc.RunM

/-- the fields of a layer record that come from the disk (name, base, imports, exports) and
    from the configuration (its directory) -/
def sig (l : Layer) : Bytes × Bytes × List Layerfile.NeededMount × List Layerfile.NeededMount × Bytes :=
  (l.name, l.base, l.cmounts, l.cexports, l.layerPath)

theorem sig_name {a b : Layer} (h : sig a = sig b) : a.name = b.name := congrArg (·.1) h
theorem sig_base {a b : Layer} (h : sig a = sig b) : a.base = b.base := congrArg (·.2.1) h
theorem sig_path {a b : Layer} (h : sig a = sig b) : a.layerPath = b.layerPath := congrArg (·.2.2.2.2) h

theorem sig_nb {L L' : List Layer} (h : L'.map sig = L.map sig) : L'.map nb = L.map nb := by
  have e : ∀ M : List Layer, M.map nb = (M.map sig).map (fun s => (s.1, s.2.1)) := by
    intro M; rw [List.map_map]; rfl
  rw [e L', e L, h]

theorem sig_names {L L' : List Layer} (h : L'.map sig = L.map sig) : L'.map (·.name) = L.map (·.name) := by
  have e : ∀ M : List Layer, M.map (·.name) = (M.map sig).map (·.1) := by
    intro M; rw [List.map_map]; rfl
  rw [e L', e L, h]

/-- replacing the record found under a name by one with the same `sig` keeps the list of `sig`s -/
theorem sig_setLayer (d : Defs) (l l' : Layer) (hnd : (d.layers.map (·.name)).Nodup)
    (hl : findLayer d l'.name = some l) (hs : sig l' = sig l) :
    (setLayer d l').layers.map sig = d.layers.map sig := by
  unfold setLayer
  simp only [List.map_map]
  apply List.map_congr_left
  intro x hx
  simp only [Function.comp]
  split
  · rename_i hxn
    have hxn' : x.name = l'.name := by simpa using hxn
    have : x = l := nodup_name_inj hnd hx (findLayer_mem hl).1 (hxn'.trans (findLayer_mem hl).2.symm)
    rw [this, hs]
  · rfl

open Lc.StateProbe in
theorem probeLayer_sig (cfg : Config) (inuse : List (Bytes × List User)) (fs : Fs.Tree) (d : Defs)
    (name : Bytes) (l0 l' : Layer) (h : probeLayer cfg inuse fs d name l0 = .ok l') : sig l' = sig l0 := by
  unfold probeLayer at h
  simp only [] at h
  have hc := classifyUsers_sameCore cfg
    { l0 with mounts := getMountAndSubmounts d.mounts (buildPath cfg l0) } (usersOf inuse name)
  obtain ⟨c1, c2, c3, c4, c5, _⟩ := hc
  have hsig : sig (classifyUsers cfg { l0 with mounts := getMountAndSubmounts d.mounts (buildPath cfg l0) }
      (usersOf inuse name)) = sig l0 := by
    unfold sig; rw [c1, c2, c3, c4, c5]
  split at h
  · injection h with h; subst h; exact hsig
  · split at h
    · injection h with h; subst h; exact hsig
    · obtain ⟨s, hs, _⟩ := findLayerstate_shape cfg fs d _ l' h
      subst hs
      exact hsig

open Lc.StateProbe in
theorem probeStep_sig (cfg : Config) (inuse : List (Bytes × List User)) (fs : Fs.Tree) (d0 d : Defs)
    (name : Bytes) (hnd : (d0.layers.map (·.name)).Nodup)
    (h : d.layers.map sig = d0.layers.map sig ∧ d.order = d0.order) :
    Ret (probeStep cfg inuse fs d name) (fun d' => d'.layers.map sig = d0.layers.map sig ∧ d'.order = d0.order) := by
  apply ret_intro
  intro w a w' hr
  rw [probeStep_eq] at hr
  cases hf : findLayer d name with
  | none => rw [hf] at hr; simp only [run_throw] at hr; injection hr with h1 _; cases h1
  | some l =>
    rw [hf] at hr
    simp only [] at hr
    split at hr
    · simp only [run_pure] at hr
      injection hr with h1 _; injection h1 with h1; subst h1
      have hs : sig (probeErr cfg inuse d name l) = sig l := by
        obtain ⟨c1, c2, c3, c4, c5, _⟩ := classifyUsers_sameCore cfg
          { l with mounts := getMountAndSubmounts d.mounts (buildPath cfg l) } (usersOf inuse name)
        unfold probeErr sig; rw [c1, c2, c3, c4, c5]
      have hn : l.name = name := (findLayer_mem hf).2
      have hnd' : (d.layers.map (·.name)).Nodup := by rw [sig_names h.1]; exact hnd
      refine ⟨?_, h.2⟩
      rw [sig_setLayer d l _ hnd' (by rw [sig_name hs, hn]; exact hf) hs]
      exact h.1
    · obtain ⟨l', w1, h1, h2⟩ := bind_ok_inv _ _ _ _ _ hr
      rw [run_liftRes] at h1
      injection h1 with h1 _
      simp only [run_pure] at h2
      injection h2 with h2 _; injection h2 with h2; subst h2
      have hs := probeLayer_sig cfg inuse fs d name l l' h1
      have hn : l.name = name := (findLayer_mem hf).2
      have hnd' : (d.layers.map (·.name)).Nodup := by rw [sig_names h.1]; exact hnd
      refine ⟨?_, h.2⟩
      rw [sig_setLayer d l l' hnd' (by rw [sig_name hs, hn]; exact hf) hs]
      exact h.1

theorem refreshMountInfo_sig (cfg : Config) (d : Defs) :
    Ret (refreshMountInfo cfg d) (fun d' => d'.layers.map sig = d.layers.map sig ∧ d'.order = d.order) := by
  unfold Ret
  mvcgen [refreshMountInfo, getW, liftRes]
  all_goals first
    | rfl
    | (rw [List.map_map]; rfl)

open Lc.StateProbe in
/-- **probing keeps every record's name, base, imports, exports and directory** -/
theorem probeAll_sig (cfg : Config) (inuse : List (Bytes × List User)) (d : Defs)
    (hnd : (d.layers.map (·.name)).Nodup) :
    Ret (probeAll cfg inuse d) (fun d' => d'.layers.map sig = d.layers.map sig ∧ d'.order = d.order) := by
  apply ret_intro
  intro w a w' hr
  rw [probeAll_eq] at hr
  obtain ⟨d1, w1, h1, h2⟩ := bind_ok_inv _ _ _ _ _ hr
  have hd1 := ret_elim _ _ (refreshMountInfo_sig cfg d) w d1 w1 h1
  obtain ⟨w2, w3, h3, h4⟩ := bind_ok_inv _ _ _ _ _ h2
  exact ret_elim _ _ (foldlM_ret (fun d' => d'.layers.map sig = d.layers.map sig ∧ d'.order = d.order)
    d1.order (probeStep cfg inuse w2.fs) d1
    (fun b x hb => probeStep_sig cfg inuse w2.fs d b x hnd hb) hd1) w3 a w' h4

/-! ### a whole invocation -/

theorem readLayerFiles_path (cfg : Config) (fs : Fs.Tree) (names : List Bytes) (l : Layer)
    (hl : l ∈ readLayerFiles cfg fs names) : l.layerPath = layerPath cfg l.name := by
  unfold readLayerFiles at hl
  obtain ⟨n, _, hf⟩ := List.mem_filterMap.mp hl
  split at hf
  · cases hf
  · dsimp only at hf
    split at hf
    · injection hf with hf; rw [← hf]; rfl
    · cases hf

/-- the tree after `getLayers` is the tree before -/
theorem getLayers_fs_eq (cfg : Config) (inuse : List (Bytes × List User)) (w : World) :
    ((getLayers cfg inuse).run.run w).2.fs = w.fs :=
  extract (fun w' => w'.fs = w.fs) _ (getLayers_fs (· = w.fs) cfg inuse) w rfl

/-- what `getLayers` hands to a command when the tree is well-formed: a well-formed table whose
    records carry what `readLayerFiles` read (name, base, imports, exports, directory) -/
theorem getLayers_ok (cfg : Config) (inuse : List (Bytes × List User)) (w w' : World) (d : Defs)
    (hT : TreeWF w.fs) (hr : (getLayers cfg inuse).run.run w = (.ok d, w')) :
    WF d ∧ Fs.isDir w.fs cfg.layerdirs = true ∧
      d.layers.map sig = (readLayerFiles cfg w.fs (Fs.children w.fs cfg.layerdirs)).map sig := by
  unfold getLayers at hr
  obtain ⟨d1, w1, h1, h2⟩ := bind_ok_inv _ _ _ _ _ hr
  obtain ⟨_, hL, hc, ho⟩ := findLayers_ok cfg w w1 d1 h1
  have hdir : Fs.isDir w.fs cfg.layerdirs = true := by
    cases hd : Fs.isDir w.fs cfg.layerdirs with
    | true => rfl
    | false =>
      exfalso
      unfold findLayers fail at h1
      simp only [run_bind, run_getW, run_ite, run_throw, hd] at h1
      simp at h1
      injection h1 with a _; cases a
  have hwf1 : WF d1 := by
    refine ⟨?_, ?_, parent_of_check _ hc, hc, ho⟩
    · rw [hL]; exact List.Nodup.sublist (readLayerFiles_names cfg w.fs _) (children_nodup hT _)
    · intro l hl
      rw [hL] at hl
      obtain ⟨hm, hleg⟩ := readLayerFiles_legal cfg w.fs _ l hl
      exact ⟨children_ne_nil _ _ _ hm, hleg⟩
  obtain ⟨hs, hord⟩ := ret_elim _ _ (probeAll_sig cfg inuse d1 hwf1.nodup) w1 d w' h2
  exact ⟨wf_of_view hwf1 (sig_nb hs) hord, hdir, by rw [hs, hL]⟩

theorem getLayers_dirsOK (cfg : Config) (inuse : List (Bytes × List User)) (w w' : World) (d : Defs)
    (hld : isAbs cfg.layerdirs = true) (hT : TreeWF w.fs)
    (hr : (getLayers cfg inuse).run.run w = (.ok d, w')) : DirsOK d := by
  obtain ⟨_, _, hs⟩ := getLayers_ok cfg inuse w w' d hT hr
  intro l hl
  have : sig l ∈ (readLayerFiles cfg w.fs (Fs.children w.fs cfg.layerdirs)).map sig := by
    rw [← hs]; exact List.mem_map.mpr ⟨l, hl, rfl⟩
  obtain ⟨l0, hl0, e⟩ := List.mem_map.mp this
  rw [← sig_path e, readLayerFiles_path cfg _ _ l0 hl0]
  exact cleanAbs_layerPath cfg _ hld

/-- the commands covered: every one except `mount` and `chroot`, which create directories and
    symbolic links at paths taken verbatim from a layerconfig (not necessarily clean) -/
def fsSafe : Cmd → Bool
  | .mount _ | .chroot _ => false
  | _ => true

/-- **run_keeps_treeWF** (helper form): a whole invocation, any exit -/
theorem run_tw (cfg : Config) (inuse : List (Bytes × List User)) (c : Cmd) (w : World)
    (hc : CfgClean cfg) (hs : fsSafe c = true) (hT : TreeWF w.fs) : TreeWF (run cfg inuse c w).2.fs := by
  have hld : isAbs cfg.layerdirs = true := hc.2.1.2
  -- everything but init: read the layers, then the command on what was read
  have key : ∀ (cmd : Defs → M Defs), (∀ d, DirsOK d → Tk (cmd d)) →
      TreeWF ((getLayers cfg inuse >>= cmd).run.run w).2.fs := by
    intro cmd hcmd
    rw [run_bind]
    have hg := extract T _ (getLayers_tw cfg inuse) w hT
    generalize hgr : (getLayers cfg inuse).run.run w = r at hg
    obtain ⟨x, w1⟩ := r
    cases x with
    | error e => exact hg
    | ok d =>
      have hd := getLayers_dirsOK cfg inuse w w1 d hld hT hgr
      exact extract T _ (hcmd d hd) w1 hg
  unfold run
  cases c with
  | init =>
    have : Tk (runCmd cfg inuse .init) := by
      have h := initBase_tw cfg hc
      unfold Tk Holds at *
      mvcgen [runCmd, h]
    exact extract T _ this w hT
  | add n b f => exact key (fun d => addLayer cfg d n b f) (fun d _ => addLayer_tw cfg d n b f hld)
  | remove n f => exact key (fun d => removeLayer cfg d n f) (fun d hd => removeLayer_tw cfg d n f hd)
  | rename o n co => exact key (fun d => renameLayer cfg d o n co) (fun d hd => renameLayer_tw cfg d o n co hd hld)
  | rebase n b => exact key (fun d => rebaseLayer cfg d n b) (fun d hd => rebaseLayer_tw cfg d n b hd)
  | mkdirs n => exact key (fun d => makedirs cfg d n) (fun d hd => makedirs_tw cfg d n hd)
  | mount _ => cases hs
  | umount n a => exact key (fun d => unmountCmd cfg d n a) (fun d _ => unmountCmd_tw cfg d n a)
  | shake => exact key (fun d => shake cfg d) (fun d _ => shake_tw cfg d)
  | chroot _ => cases hs
  | probe => exact key (fun d => pure d) (fun d _ => pure_holds T d)

end Lc.TreeKeeps
