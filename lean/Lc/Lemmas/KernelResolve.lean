/-
  Path resolution of the kernel mount-table model (`Kernel.resolve`, `Kernel.mountedAt`).
  * basic facts: the resolved mount is an entry of the table and contains the path;
  * `Tree`: the tree discipline of a table (unique ids, parents listed before their children,
    a child at/below its parent's mountpoint); `NoHidden`: moreover no two entries hanging
    below the same mount (or two roots) have nested mountpoints — nothing is covered;
  * `resolve_eq_findContaining`, `mountedAt_eq_topmostAt`: on a `NoHidden` table the lookup is
    the flat reading of the table (longest mountpoint containing the path, last among equals;
    last entry with this mountpoint), so `kmount`/`kumount` behave there as the flat model did;
  * `walk_fuel`: on a `Tree` table more fuel than `mnts.length` changes nothing.
-/
import Lc.Model.Kernel
import Lc.Lemmas.ExportFs

namespace Lc.KernelResolve
open Lc Lc.Kernel

/-! ### `findContaining` -/

/-- the fold of `findContaining`, from an arbitrary start -/
def fcFold (path : Bytes) (best : Option KMnt) (l : List KMnt) : Option KMnt :=
  l.foldl (fun best m =>
    if pathUnder m.mp path then
      match best with
      | none => some m
      | some b => if b.mp.length ≤ m.mp.length then some m else some b
    else best) best

theorem findContaining_eq (mnts : List KMnt) (path : Bytes) : findContaining mnts path = fcFold path none mnts := rfl

theorem fcFold_spec (path : Bytes) : ∀ (l : List KMnt) (best : Option KMnt) (r : KMnt),
    fcFold path best l = some r → (r ∈ l ∧ pathUnder r.mp path = true) ∨ best = some r := by
  intro l
  induction l with
  | nil => intro best r h; exact .inr h
  | cons x xs ih =>
    intro best r h
    unfold fcFold at h
    rw [List.foldl_cons] at h
    rcases ih _ r h with ⟨h1, h2⟩ | h1
    · exact .inl ⟨List.mem_cons_of_mem _ h1, h2⟩
    · by_cases hu : pathUnder x.mp path = true
      · simp only [hu, if_true] at h1
        cases best with
        | none => cases h1; exact .inl ⟨List.mem_cons_self, hu⟩
        | some b =>
          simp only at h1
          split at h1
          · cases h1; exact .inl ⟨List.mem_cons_self, hu⟩
          · exact .inr h1
      · simp only [hu, Bool.false_eq_true, if_false] at h1
        exact .inr h1

theorem findContaining_spec (mnts : List KMnt) (path : Bytes) (p : KMnt)
    (h : findContaining mnts path = some p) : p ∈ mnts ∧ pathUnder p.mp path = true := by
  rcases fcFold_spec path mnts none p h with h | h
  · exact h
  · cases h

theorem fcFold_none (path : Bytes) : ∀ (l : List KMnt), (∀ x ∈ l, pathUnder x.mp path = false) →
    ∀ best, fcFold path best l = best := by
  intro l
  induction l with
  | nil => intro _ best; rfl
  | cons x xs ih =>
    intro h best
    unfold fcFold
    rw [List.foldl_cons]
    simp only [h x (by simp), Bool.false_eq_true, if_false]
    exact ih (fun y hy => h y (by simp [hy])) best

/-! ### the walk stays in the table and on the way to the path -/

theorem stepFrom_spec {mnts : List KMnt} {c k : KMnt} {p : Bytes} (h : stepFrom mnts c p = some k) :
    k ∈ mnts ∧ k.parent = c.id ∧ k.id ≠ c.id ∧
      ((k.mp = c.mp) ∨ (pathUnder c.mp k.mp = true ∧ pathUnder k.mp p = true)) := by
  unfold stepFrom at h
  simp only at h
  split at h
  · rename_i k' hk'
    cases h
    have hm := List.mem_of_getLast? hk'
    simp only [List.mem_filter, Bool.and_eq_true, beq_iff_eq, bne_iff_ne, ne_eq] at hm
    exact ⟨hm.1.1, hm.1.2.1, hm.1.2.2, .inl hm.2⟩
  · -- the fold over the proper children: its result is one of them
    have key : ∀ (l : List KMnt) (best : Option KMnt) (r : KMnt),
        l.foldl (fun best k =>
          match best with
          | none => some k
          | some b => if k.mp.length ≤ b.mp.length then some k else some b) best = some r →
        r ∈ l ∨ best = some r := by
      intro l
      induction l with
      | nil => intro best r h; exact .inr h
      | cons x xs ih =>
        intro best r h
        rw [List.foldl_cons] at h
        rcases ih _ r h with h1 | h1
        · exact .inl (List.mem_cons_of_mem _ h1)
        · cases best with
          | none => cases h1; exact .inl List.mem_cons_self
          | some b =>
            simp only at h1
            split at h1
            · cases h1; exact .inl List.mem_cons_self
            · exact .inr h1
    rcases key _ none k h with hm | hm
    · simp only [List.mem_filter, Bool.and_eq_true, beq_iff_eq, bne_iff_ne, ne_eq] at hm
      exact ⟨hm.1.1, hm.1.2.1, hm.1.2.2, .inr hm.2⟩
    · cases hm

/-- `pathUnder` as an equation: `q` is `p`, or `p` with a slash and more -/
def sl (p : Bytes) : Bytes := if p == [47] then [47] else p ++ [47]

theorem pathUnder_iff (p q : Bytes) : pathUnder p q = true ↔ q = p ∨ ∃ t, q = sl p ++ t := by
  unfold pathUnder sl
  by_cases hp : p = [47]
  · subst hp
    simp only [beq_self_eq_true, if_true, Bool.or_eq_true, beq_iff_eq, ExportFs.hasPrefix_iff]
  · have : (p == [47]) = false := by simpa using hp
    simp only [this, Bool.false_eq_true, if_false, Bool.or_eq_true, beq_iff_eq, ExportFs.hasPrefix_iff]

theorem pathUnder_refl (p : Bytes) : pathUnder p p = true := (pathUnder_iff p p).mpr (.inl rfl)

theorem sl_ne_nil (p : Bytes) : sl p ≠ [] := by
  unfold sl; split <;> simp

/-- `a ++ [47] = x ++ u` with `u ≠ []`: `a` extends `x` -/
theorem strip_last {a x u : Bytes} (hu : u ≠ []) (h : a ++ [47] = x ++ u) : ∃ u0, a = x ++ u0 := by
  have hu' : u = u.dropLast ++ [u.getLast hu] := (List.dropLast_concat_getLast hu).symm
  rw [hu', ← List.append_assoc] at h
  have := List.append_inj' h (by simp)
  exact ⟨u.dropLast, this.1⟩

/-- `sl a = sl b ++ u` with `u ≠ []`: `a` lies properly below `b` -/
theorem sl_ext {a b u : Bytes} (hu : u ≠ []) (h : sl a = sl b ++ u) : ∃ t, a = sl b ++ t := by
  unfold sl at h
  by_cases ha : a = [47]
  · subst ha
    simp only [beq_self_eq_true, if_true] at h
    have hl := congrArg List.length h
    simp only [List.length_cons, List.length_nil, List.length_append] at hl
    have h1 : 0 < (sl b).length := List.length_pos_iff.mpr (sl_ne_nil b)
    have h2 : 0 < u.length := List.length_pos_iff.mpr hu
    unfold sl at h1
    omega
  · have : (a == [47]) = false := by simpa using ha
    simp only [this, Bool.false_eq_true, if_false] at h
    exact strip_last hu h

theorem sl_eq {a b : Bytes} (h : sl a = sl b) : a = b ∨ pathUnder a b = true ∨ pathUnder b a = true := by
  unfold sl at h
  by_cases ha : a = [47] <;> by_cases hb : b = [47]
  · left; rw [ha, hb]
  · have h2 : (b == [47]) = false := by simpa using hb
    subst ha
    simp only [beq_self_eq_true, if_true, h2, Bool.false_eq_true, if_false] at h
    -- [47] = b ++ [47]: b = []
    have : b = [] := by
      cases b with
      | nil => rfl
      | cons x xs =>
        have := congrArg List.length h
        simp at this
    subst this
    right; right
    decide
  · have h2 : (a == [47]) = false := by simpa using ha
    subst hb
    simp only [beq_self_eq_true, if_true, h2, Bool.false_eq_true, if_false] at h
    have : a = [] := by
      cases a with
      | nil => rfl
      | cons x xs =>
        have := congrArg List.length h
        simp at this
    subst this
    right; left
    decide
  · have h1 : (a == [47]) = false := by simpa using ha
    have h2 : (b == [47]) = false := by simpa using hb
    simp only [h1, h2, Bool.false_eq_true, if_false] at h
    left
    exact List.append_cancel_right h

/-- two mountpoints that contain one path are nested -/
theorem pathUnder_comparable {a b x : Bytes} (ha : pathUnder a x = true) (hb : pathUnder b x = true) :
    pathUnder a b = true ∨ pathUnder b a = true := by
  rw [pathUnder_iff] at ha hb
  rcases ha with ha | ⟨t1, ha⟩
  · subst ha
    exact .inr ((pathUnder_iff _ _).mpr hb)
  · rcases hb with hb | ⟨t2, hb⟩
    · subst hb
      exact .inl ((pathUnder_iff _ _).mpr (.inr ⟨t1, ha⟩))
    · rw [ha] at hb
      rcases List.append_eq_append_iff.mp hb with ⟨u, h1, _⟩ | ⟨u, h1, _⟩
      · -- sl b = sl a ++ u
        by_cases hu : u = []
        · subst hu
          rw [List.append_nil] at h1
          rcases sl_eq h1 with h | h | h
          · subst h; exact .inl (pathUnder_refl _)
          · exact .inr h
          · exact .inl h
        · obtain ⟨t, ht⟩ := sl_ext hu h1
          exact .inl ((pathUnder_iff _ _).mpr (.inr ⟨t, ht⟩))
      · by_cases hu : u = []
        · subst hu
          rw [List.append_nil] at h1
          rcases sl_eq h1 with h | h | h
          · subst h; exact .inl (pathUnder_refl _)
          · exact .inl h
          · exact .inr h
        · obtain ⟨t, ht⟩ := sl_ext hu h1
          exact .inr ((pathUnder_iff _ _).mpr (.inr ⟨t, ht⟩))

theorem pathUnder_trans {a b c : Bytes} (h1 : pathUnder a b = true) (h2 : pathUnder b c = true) :
    pathUnder a c = true := by
  rw [pathUnder_iff] at *
  rcases h1 with h1 | ⟨t1, h1⟩
  · subst h1; exact h2
  · rcases h2 with h2 | ⟨t2, h2⟩
    · subst h2; exact .inr ⟨t1, h1⟩
    · right
      -- c = sl b ++ t2, b = sl a ++ t1
      refine ⟨t1 ++ (if b == [47] then [] else [47]) ++ t2, ?_⟩
      rw [h2]
      unfold sl at h1 ⊢
      by_cases hb : b = [47]
      · -- b = "/" = sl a ++ t1: then sl a = "/" and t1 = []
        have hb' : (b == [47]) = true := by simpa using hb
        simp only [hb', if_true, List.append_nil]
        rw [hb] at h1
        by_cases ha : a = [47]
        · have ha' : (a == [47]) = true := by simpa using ha
          simp only [ha', if_true] at h1 ⊢
          have : t1 = [] := List.self_eq_append_right.mp h1
          rw [this]; simp
        · have ha' : (a == [47]) = false := by simpa using ha
          simp only [ha', Bool.false_eq_true, if_false] at h1 ⊢
          have hl := congrArg List.length h1
          simp at hl
          have h3 : a = [] := List.eq_nil_of_length_eq_zero (by omega)
          have h4 : t1 = [] := List.eq_nil_of_length_eq_zero (by omega)
          rw [h3, h4]; simp
      · have hb' : (b == [47]) = false := by simpa using hb
        simp only [hb', Bool.false_eq_true, if_false]
        rw [h1]
        simp [List.append_assoc]

theorem pathUnder_length {a b : Bytes} (h : pathUnder a b = true) : a.length ≤ b.length := by
  rw [pathUnder_iff] at h
  rcases h with h | ⟨t, h⟩
  · subst h; exact Nat.le_refl _
  · unfold sl at h
    split at h
    · rename_i ha
      have : a = [47] := by simpa using ha
      rw [h, this]; simp
    · rw [h]; simp

theorem walk_spec (mnts : List KMnt) (p : Bytes) : ∀ (fuel : Nat) (c : KMnt), c ∈ mnts →
    pathUnder c.mp p = true → walk mnts p fuel c ∈ mnts ∧ pathUnder (walk mnts p fuel c).mp p = true := by
  intro fuel
  induction fuel with
  | zero => intro c hc hp; exact ⟨hc, hp⟩
  | succ f ih =>
    intro c hc hp
    unfold walk
    cases hs : stepFrom mnts c p with
    | none => exact ⟨hc, hp⟩
    | some k =>
      obtain ⟨hk, _, _, hk2⟩ := stepFrom_spec hs
      refine ih k hk ?_
      rcases hk2 with h | ⟨_, h⟩
      · rw [h]; exact hp
      · exact h

theorem startOf_spec {mnts : List KMnt} {p : Bytes} {r : KMnt} (h : startOf mnts p = some r) :
    r ∈ mnts ∧ pathUnder r.mp p = true ∧ isRootIn mnts r = true := by
  unfold startOf at h
  obtain ⟨h1, h2⟩ := findContaining_spec _ _ _ h
  exact ⟨(List.mem_filter.mp h1).1, h2, (List.mem_filter.mp h1).2⟩

/-- the mount a lookup ends in is an entry of the table and contains the path -/
theorem resolve_spec {mnts : List KMnt} {p : Bytes} {m : KMnt} (h : resolve mnts p = some m) :
    m ∈ mnts ∧ pathUnder m.mp p = true := by
  unfold resolve at h
  split at h
  · cases h
  · rename_i r hr
    cases h
    obtain ⟨h1, h2, _⟩ := startOf_spec hr
    exact walk_spec mnts p _ r h1 h2

theorem resolve_mem {mnts : List KMnt} {p : Bytes} {m : KMnt} (h : resolve mnts p = some m) : m ∈ mnts :=
  (resolve_spec h).1

theorem mountedAt_spec {mnts : List KMnt} {p : Bytes} {m : KMnt} (h : mountedAt mnts p = some m) :
    resolve mnts p = some m ∧ m ∈ mnts ∧ m.mp = p := by
  unfold mountedAt at h
  split at h
  · rename_i m' hm'
    split at h
    · rename_i hmp
      cases h
      exact ⟨hm', resolve_mem hm', by simpa using hmp⟩
    · cases h
  · cases h

theorem mountedAt_none {mnts : List KMnt} {p : Bytes} (h : mountedAt mnts p = none) :
    resolve mnts p = none ∨ ∃ m, resolve mnts p = some m ∧ m.mp ≠ p := by
  unfold mountedAt at h
  split at h
  · rename_i m' hm'
    split at h
    · cases h
    · rename_i hmp
      exact .inr ⟨m', hm', by simpa using hmp⟩
  · rename_i hn; exact .inl hn

/-! ### tree discipline; no hidden mounts -/

/-- unique ids; an entry's parent is not listed after it and is not the entry itself; an
    entry lies at or below its parent's mountpoint -/
structure Tree (mnts : List KMnt) : Prop where
  ids : (mnts.map (·.id)).Nodup
  parentFirst : mnts.Pairwise (fun a b => a.parent ≠ b.id)
  noSelf : ∀ c ∈ mnts, c.parent ≠ c.id
  under : ∀ c ∈ mnts, ∀ m ∈ mnts, c.parent = m.id → pathUnder m.mp c.mp = true

/-- hanging below the same mount, or both roots -/
def Siblings (mnts : List KMnt) (a b : KMnt) : Prop :=
  a.parent = b.parent ∨ (isRootIn mnts a = true ∧ isRootIn mnts b = true)

instance (mnts : List KMnt) (a b : KMnt) : Decidable (Siblings mnts a b) := by
  unfold Siblings; exact inferInstance

/-- **nothing is covered**: the tree discipline, and the mountpoints of two siblings are never
    nested (in particular nothing is mounted on a mountpoint below which something else of the
    same parent is mounted, and a mount stacked on another one's root is its only child) -/
structure NoHidden (mnts : List KMnt) : Prop extends Tree mnts where
  sib : ∀ a ∈ mnts, ∀ b ∈ mnts, a ≠ b → Siblings mnts a b → pathUnder a.mp b.mp = false

theorem eq_of_id_eq {l : List KMnt} (hn : (l.map (·.id)).Nodup) {x y : KMnt} (hx : x ∈ l) (hy : y ∈ l)
    (h : x.id = y.id) : x = y := by
  induction l with
  | nil => cases hx
  | cons z zs ih =>
    rw [List.map_cons, List.nodup_cons] at hn
    rcases List.mem_cons.mp hx with hx1 | hx1 <;> rcases List.mem_cons.mp hy with hy1 | hy1
    · rw [hx1, hy1]
    · subst hx1
      exact absurd (show x.id ∈ zs.map (·.id) from List.mem_map.mpr ⟨y, hy1, h.symm⟩) hn.1
    · subst hy1
      exact absurd (show y.id ∈ zs.map (·.id) from List.mem_map.mpr ⟨x, hx1, h⟩) hn.1
    · exact ih hn.2 hx1 hy1

theorem isRootIn_false {mnts : List KMnt} {m : KMnt} (h : isRootIn mnts m = false) :
    ∃ q ∈ mnts, q.id = m.parent ∧ q.id ≠ m.id := by
  unfold isRootIn at h
  have : (mnts.any fun x => x.id == m.parent && x.id != m.id) = true := by
    cases hh : (mnts.any fun x => x.id == m.parent && x.id != m.id) with
    | true => rfl
    | false => rw [hh] at h; cases h
  obtain ⟨q, hq, hc⟩ := List.any_eq_true.mp this
  simp only [Bool.and_eq_true, beq_iff_eq, bne_iff_ne, ne_eq] at hc
  exact ⟨q, hq, hc.1, hc.2⟩

theorem isRootIn_true {mnts : List KMnt} {m : KMnt} (h : isRootIn mnts m = true) :
    ∀ q ∈ mnts, q.id = m.parent → q.id = m.id := by
  unfold isRootIn at h
  intro q hq he
  have : (mnts.any fun x => x.id == m.parent && x.id != m.id) = false := by simpa using h
  have h2 := List.any_eq_false.mp this q hq
  simp only [he, beq_self_eq_true, Bool.true_and, bne_iff_ne, ne_eq] at h2
  rw [he]
  exact Classical.not_not.mp h2

/-- consecutive entries are parent and child -/
def Linked : List KMnt → Prop
  | [] => True
  | [_] => True
  | a :: b :: r => b.parent = a.id ∧ Linked (b :: r)

theorem Linked.snoc : ∀ {L : List KMnt} {x : KMnt}, Linked L →
    (∀ l, L.getLast? = some l → x.parent = l.id) → Linked (L ++ [x]) := by
  intro L
  induction L with
  | nil => intro x _ _; trivial
  | cons a r ih =>
    intro x h hl
    cases r with
    | nil => exact ⟨hl a rfl, trivial⟩
    | cons b r' =>
      obtain ⟨h1, h2⟩ := h
      refine ⟨h1, ?_⟩
      apply ih h2
      intro l hll
      apply hl
      rw [List.getLast?_cons_cons]
      exact hll

/-- in a linked list every entry but the last has its child in the list -/
theorem Linked.succ : ∀ {L : List KMnt} {q : KMnt}, Linked L → q ∈ L → L.getLast? ≠ some q →
    ∃ s ∈ L, s.parent = q.id := by
  intro L
  induction L with
  | nil => intro q _ hq; cases hq
  | cons a r ih =>
    intro q h hq hl
    cases r with
    | nil =>
      have : q = a := by simpa using hq
      subst this
      exact absurd rfl hl
    | cons b r' =>
      obtain ⟨h1, h2⟩ := h
      rcases List.mem_cons.mp hq with hq | hq
      · subst hq
        exact ⟨b, by simp, h1⟩
      · rw [List.getLast?_cons_cons] at hl
        obtain ⟨s, hs, hp⟩ := ih h2 hq hl
        exact ⟨s, List.mem_cons_of_mem _ hs, hp⟩

/-- the entries containing `p`, in table order -/
def onPath (mnts : List KMnt) (p : Bytes) : List KMnt := mnts.filter fun m => pathUnder m.mp p

/-- two different siblings cannot both contain one path -/
theorem NoHidden.sib_excl {mnts : List KMnt} (h : NoHidden mnts) {a b : KMnt} {p : Bytes} (ha : a ∈ mnts)
    (hb : b ∈ mnts) (hs : Siblings mnts a b) (hpa : pathUnder a.mp p = true) (hpb : pathUnder b.mp p = true) :
    a = b := by
  by_cases hab : a = b
  · exact hab
  · exfalso
    have hs' : Siblings mnts b a := by
      rcases hs with hs | ⟨h1, h2⟩
      · exact .inl hs.symm
      · exact .inr ⟨h2, h1⟩
    rcases pathUnder_comparable hpa hpb with hc | hc
    · rw [h.sib a ha b hb hab hs] at hc; cases hc
    · rw [h.sib b hb a ha (fun e => hab e.symm) hs'] at hc; cases hc

/-- **the entries containing a path form one chain** root → child → … (each the parent of the next) -/
theorem onPath_chain {mnts : List KMnt} (h : NoHidden mnts) (p : Bytes) :
    Linked (onPath mnts p) ∧ ∀ r, (onPath mnts p).head? = some r → isRootIn mnts r = true := by
  have key : ∀ (rest pre : List KMnt), mnts = pre ++ rest →
      (Linked (onPath pre p) ∧ ∀ r, (onPath pre p).head? = some r → isRootIn mnts r = true) →
      (Linked (onPath mnts p) ∧ ∀ r, (onPath mnts p).head? = some r → isRootIn mnts r = true) := by
    intro rest
    induction rest with
    | nil => intro pre he hg; rw [he, List.append_nil]; rw [he, List.append_nil] at hg; exact hg
    | cons x rest' ih =>
      intro pre he hg
      apply ih (pre ++ [x]) (by rw [he]; simp)
      have hxm : x ∈ mnts := by rw [he]; simp
      have hpre : ∀ y ∈ pre, y ∈ mnts := fun y hy => by rw [he]; simp [hy]
      unfold onPath at hg ⊢
      rw [List.filter_append]
      by_cases hx : pathUnder x.mp p = true
      · have hfx : [x].filter (fun m => pathUnder m.mp p) = [x] := by simp [hx]
        rw [hfx]
        have hLsub : ∀ y ∈ pre.filter (fun m => pathUnder m.mp p), y ∈ pre ∧ pathUnder y.mp p = true :=
          fun y hy => List.mem_filter.mp hy
        -- elements of `pre` differ from `x` (unique ids)
        have hne : ∀ y ∈ pre, y ≠ x := by
          intro y hy e
          subst e
          have hn := h.ids
          rw [he, List.map_append, List.map_cons, List.nodup_append] at hn
          exact hn.2.2 y.id (List.mem_map.mpr ⟨y, hy, rfl⟩) y.id (by simp) rfl
        cases hr : isRootIn mnts x with
        | true =>
          -- a second root containing p is impossible: nothing of `pre` contains p
          have hnil : pre.filter (fun m => pathUnder m.mp p) = [] := by
            cases hL : pre.filter (fun m => pathUnder m.mp p) with
            | nil => rfl
            | cons r0 L' =>
              exfalso
              have hr0 := hg.2 r0 (by rw [hL]; rfl)
              have hr0m := hLsub r0 (by rw [hL]; simp)
              exact hne r0 hr0m.1 (h.sib_excl (hpre r0 hr0m.1) hxm (.inr ⟨hr0, hr⟩) hr0m.2 hx)
          rw [hnil]
          refine ⟨trivial, ?_⟩
          intro r hrr
          have : r = x := by simpa using hrr.symm
          rw [this]; exact hr
        | false =>
          obtain ⟨q, hq, hqid, hqne⟩ := isRootIn_false hr
          -- the parent is listed before x
          have hqpre : q ∈ pre := by
            rw [he] at hq
            rcases List.mem_append.mp hq with hq | hq
            · exact hq
            · rcases List.mem_cons.mp hq with hq | hq
              · subst hq; exact absurd rfl hqne
              · exfalso
                have hpf := h.parentFirst
                rw [he, List.pairwise_append] at hpf
                exact (List.pairwise_cons.mp hpf.2.1).1 q hq hqid.symm
          have hqp : pathUnder q.mp p = true :=
            pathUnder_trans (h.under x hxm q (hpre q hqpre) hqid.symm) hx
          have hqL : q ∈ pre.filter (fun m => pathUnder m.mp p) := List.mem_filter.mpr ⟨hqpre, hqp⟩
          have hlast : ∀ l, (pre.filter (fun m => pathUnder m.mp p)).getLast? = some l → x.parent = l.id := by
            intro l hl
            by_cases hql : (pre.filter (fun m => pathUnder m.mp p)).getLast? = some q
            · rw [hql] at hl; cases hl; exact hqid.symm
            · exfalso
              obtain ⟨s, hs, hsp⟩ := hg.1.succ hqL hql
              have hsm := hLsub s hs
              exact hne s hsm.1 (h.sib_excl (hpre s hsm.1) hxm (.inl (by rw [hsp, hqid])) hsm.2 hx)
          refine ⟨hg.1.snoc hlast, ?_⟩
          intro r hrr
          cases hL : pre.filter (fun m => pathUnder m.mp p) with
          | nil => rw [hL] at hqL; cases hqL
          | cons r0 L' =>
            rw [hL] at hrr
            apply hg.2 r
            rw [hL]
            simpa using hrr
      · have hfx : [x].filter (fun m => pathUnder m.mp p) = [] := by simp [hx]
        rw [hfx, List.append_nil]
        exact hg
  exact key mnts [] rfl ⟨trivial, fun r hr => by cases hr⟩

/-- `c` has no child that contains `p` -/
def Terminal (mnts : List KMnt) (p : Bytes) (c : KMnt) : Prop :=
  ∀ k ∈ mnts, k.parent = c.id → k.id ≠ c.id → pathUnder k.mp p = false

theorem stepFrom_none {mnts : List KMnt} (ht : Tree mnts) {c : KMnt} (hc : c ∈ mnts) {p : Bytes}
    (h : stepFrom mnts c p = none) : Terminal mnts p c := by
  intro k hk hpar hne
  unfold stepFrom at h
  simp only at h
  have hkid : k ∈ mnts.filter (fun k => k.parent == c.id && k.id != c.id) :=
    List.mem_filter.mpr ⟨hk, by simp [hpar, hne]⟩
  split at h
  · cases h
  · rename_i hst
    cases hp : pathUnder k.mp p with
    | false => rfl
    | true =>
      exfalso
      by_cases hmp : k.mp = c.mp
      · have : k ∈ (mnts.filter (fun k => k.parent == c.id && k.id != c.id)).filter (·.mp == c.mp) :=
          List.mem_filter.mpr ⟨hkid, by simp [hmp]⟩
        have hnil := List.getLast?_eq_none_iff.mp hst
        rw [hnil] at this; cases this
      · have hmem : k ∈ (mnts.filter (fun k => k.parent == c.id && k.id != c.id)).filter
            (fun k => pathUnder c.mp k.mp && pathUnder k.mp p) :=
          List.mem_filter.mpr ⟨hkid, by simp [ht.under k hk c hc hpar, hp]⟩
        -- a fold over a non-empty list is not `none`
        have key : ∀ (l : List KMnt) (best : Option KMnt), (l ≠ [] ∨ best ≠ none) →
            l.foldl (fun best k =>
              match best with
              | none => some k
              | some b => if k.mp.length ≤ b.mp.length then some k else some b) best ≠ none := by
          intro l
          induction l with
          | nil => intro best hb; rcases hb with hb | hb; exact absurd rfl hb; exact hb
          | cons x xs ih =>
            intro best _
            rw [List.foldl_cons]
            apply ih
            right
            cases best with
            | none => simp
            | some b => simp only; split <;> simp
        exact key _ none (.inl (List.ne_nil_of_mem hmem)) h

/-- the walk, given fuel for the rest of the table, ends on a mount without a child on the path -/
theorem walk_terminal {mnts : List KMnt} (ht : Tree mnts) (p : Bytes) :
    ∀ (fuel : Nat) (c : KMnt) (a b : List KMnt), mnts = a ++ c :: b → b.length ≤ fuel →
      Terminal mnts p (walk mnts p fuel c) := by
  -- a child of `c` is listed after `c`
  have hafter : ∀ (c k : KMnt) (a b : List KMnt), mnts = a ++ c :: b → k ∈ mnts → k.parent = c.id →
      k.id ≠ c.id → k ∈ b := by
    intro c k a b he hk hpar hne
    rw [he] at hk
    rcases List.mem_append.mp hk with hk | hk
    · exfalso
      have hpf := ht.parentFirst
      rw [he, List.pairwise_append] at hpf
      exact hpf.2.2 k hk c (by simp) hpar
    · rcases List.mem_cons.mp hk with hk | hk
      · subst hk; exact absurd rfl hne
      · exact hk
  intro fuel
  induction fuel with
  | zero =>
    intro c a b he hb k hk hpar hne
    have := hafter c k a b he hk hpar hne
    have hbn : b = [] := List.eq_nil_of_length_eq_zero (by omega)
    rw [hbn] at this; cases this
  | succ f ih =>
    intro c a b he hb
    have hc : c ∈ mnts := by rw [he]; simp
    unfold walk
    cases hs : stepFrom mnts c p with
    | none => exact stepFrom_none ht hc hs
    | some k =>
      simp only
      obtain ⟨hk, hpar, hne, _⟩ := stepFrom_spec hs
      have hkb := hafter c k a b he hk hpar hne
      obtain ⟨b1, b2, hb12⟩ := List.append_of_mem hkb
      apply ih k (a ++ c :: b1) b2
      · rw [he, hb12]; simp
      · rw [hb12] at hb
        simp at hb
        omega

/-- standing on a mount that contains the path and has no child on it, the walk stays -/
theorem walk_stay {mnts : List KMnt} {p : Bytes} : ∀ (f : Nat) (c : KMnt),
    pathUnder c.mp p = true → Terminal mnts p c → walk mnts p f c = c := by
  intro f
  induction f with
  | zero => intro c _ _; rfl
  | succ f _ =>
    intro c hcp htc
    unfold walk
    cases hs : stepFrom mnts c p with
    | none => rfl
    | some k =>
      exfalso
      obtain ⟨hk, hpar, hne, hk2⟩ := stepFrom_spec hs
      have hkp : pathUnder k.mp p = false := htc k hk hpar hne
      rcases hk2 with h | ⟨_, h⟩
      · rw [h, hcp] at hkp; cases hkp
      · rw [h] at hkp; cases hkp

theorem walk_more {mnts : List KMnt} {p : Bytes} : ∀ (f : Nat) (c : KMnt), pathUnder c.mp p = true →
    Terminal mnts p (walk mnts p f c) → ∀ e, walk mnts p (f + e) c = walk mnts p f c := by
  intro f
  induction f with
  | zero =>
    intro c hcp ht e
    rw [Nat.zero_add]
    exact walk_stay e c hcp ht
  | succ f ih =>
    intro c hcp ht e
    have : f + 1 + e = (f + e) + 1 := by omega
    rw [this]
    unfold walk at ht ⊢
    cases hs : stepFrom mnts c p with
    | none => rfl
    | some k =>
      rw [hs] at ht
      simp only at ht ⊢
      obtain ⟨_, _, _, hk2⟩ := stepFrom_spec hs
      refine ih k ?_ ht e
      rcases hk2 with h | ⟨_, h⟩
      · rw [h]; exact hcp
      · exact h

/-- **fuel**: on a tree, more fuel than the length of the table changes nothing -/
theorem walk_fuel {mnts : List KMnt} (ht : Tree mnts) (p : Bytes) (c : KMnt) (hc : c ∈ mnts)
    (hcp : pathUnder c.mp p = true) (extra : Nat) :
    walk mnts p (mnts.length + extra) c = walk mnts p mnts.length c := by
  obtain ⟨a, b, he⟩ := List.append_of_mem hc
  refine walk_more _ c hcp (walk_terminal ht p _ c a b he ?_) extra
  rw [he]; simp; omega


/-! ### the lookup is the flat reading of a table without hidden mounts -/

/-- a mount on the path without a child on the path is the last entry of the chain -/
theorem terminal_is_last {mnts : List KMnt} (h : NoHidden mnts) {p : Bytes} {r : KMnt} (hr : r ∈ mnts)
    (hrp : pathUnder r.mp p = true) (ht : Terminal mnts p r) : (onPath mnts p).getLast? = some r := by
  have hrL : r ∈ onPath mnts p := List.mem_filter.mpr ⟨hr, hrp⟩
  cases hl : (onPath mnts p).getLast? with
  | none => rw [List.getLast?_eq_none_iff.mp hl] at hrL; cases hrL
  | some l =>
    by_cases he : l = r
    · rw [he]
    · exfalso
      have hne : (onPath mnts p).getLast? ≠ some r := by rw [hl]; intro e; cases e; exact he rfl
      obtain ⟨s, hs, hsp⟩ := (onPath_chain h p).1.succ hrL hne
      obtain ⟨hsm, hspp⟩ := List.mem_filter.mp hs
      have hsne : s.id ≠ r.id := by rw [← hsp]; exact fun e => h.noSelf s hsm e.symm
      rw [ht s hsm hsp hsne] at hspp
      cases hspp

/-- the fold of `findContaining` skips what does not contain the path -/
theorem fcFold_filter (p : Bytes) : ∀ (l : List KMnt) (best : Option KMnt),
    fcFold p best l = fcFold p best (l.filter fun m => pathUnder m.mp p) := by
  intro l
  induction l with
  | nil => intro best; rfl
  | cons x xs ih =>
    intro best
    by_cases hx : pathUnder x.mp p = true
    · rw [List.filter_cons, if_pos hx]
      unfold fcFold
      rw [List.foldl_cons, List.foldl_cons]
      exact ih _
    · rw [List.filter_cons, if_neg hx]
      unfold fcFold
      rw [List.foldl_cons]
      simp only [hx, Bool.false_eq_true, if_false]
      exact ih _

/-- consecutive entries: the mountpoint does not get shorter -/
def Mono : List KMnt → Prop
  | [] => True
  | [_] => True
  | a :: b :: r => a.mp.length ≤ b.mp.length ∧ Mono (b :: r)

theorem fcFold_chain (p : Bytes) : ∀ (L : List KMnt) (b : KMnt),
    (∀ x ∈ b :: L, pathUnder x.mp p = true) → Mono (b :: L) →
    fcFold p (some b) L = (b :: L).getLast? := by
  intro L
  induction L with
  | nil => intro b _ _; rfl
  | cons x xs ih =>
    intro b hall hm
    unfold fcFold
    rw [List.foldl_cons]
    have hx : pathUnder x.mp p = true := hall x (by simp)
    simp only [hx, if_true, hm.1]
    rw [List.getLast?_cons_cons]
    exact ih x (fun y hy => hall y (List.mem_cons_of_mem _ hy)) hm.2

theorem mono_of_linked {mnts : List KMnt} (ht : Tree mnts) : ∀ (L : List KMnt), (∀ x ∈ L, x ∈ mnts) →
    Linked L → Mono L := by
  intro L
  induction L with
  | nil => intro _ _; trivial
  | cons a r ih =>
    intro hsub hl
    cases r with
    | nil => trivial
    | cons b r' =>
      refine ⟨pathUnder_length (ht.under b (hsub b (by simp)) a (hsub a (by simp)) hl.1), ?_⟩
      exact ih (fun x hx => hsub x (List.mem_cons_of_mem _ hx)) hl.2

/-- `findContaining` picks the last entry of the chain -/
theorem findContaining_last {mnts : List KMnt} (h : NoHidden mnts) (p : Bytes) :
    findContaining mnts p = (onPath mnts p).getLast? := by
  rw [findContaining_eq, fcFold_filter]
  show fcFold p none (onPath mnts p) = _
  have hsub : ∀ x ∈ onPath mnts p, x ∈ mnts ∧ pathUnder x.mp p = true := fun x hx => List.mem_filter.mp hx
  have hmono := mono_of_linked h.toTree (onPath mnts p) (fun x hx => (hsub x hx).1) (onPath_chain h p).1
  cases hL : onPath mnts p with
  | nil => rfl
  | cons m1 L =>
    rw [hL] at hsub hmono
    have : fcFold p none (m1 :: L) = fcFold p (some m1) L := by
      unfold fcFold
      rw [List.foldl_cons]
      simp [(hsub m1 (by simp)).2]
    rw [this]
    exact fcFold_chain p L m1 (fun x hx => (hsub x hx).2) hmono

/-- **`resolve_eq_findContaining`**: on a table without hidden mounts the lookup ends in the
    entry with the longest mountpoint containing the path, the last among equals -/
theorem resolve_eq_findContaining {mnts : List KMnt} (h : NoHidden mnts) (p : Bytes) :
    resolve mnts p = findContaining mnts p := by
  rw [findContaining_last h p]
  unfold resolve
  cases hs : startOf mnts p with
  | none =>
    -- no root contains p: nothing contains p
    simp only
    cases hL : onPath mnts p with
    | nil => rfl
    | cons m1 L =>
      exfalso
      have hroot := (onPath_chain h p).2 m1 (by rw [hL]; rfl)
      have hm1 : m1 ∈ mnts ∧ pathUnder m1.mp p = true := by
        have : m1 ∈ onPath mnts p := by rw [hL]; simp
        exact List.mem_filter.mp this
      unfold startOf at hs
      rw [findContaining_eq] at hs
      -- the fold over a list with an element containing p is not none
      have key : ∀ (l : List KMnt) (best : Option KMnt), ((∃ x ∈ l, pathUnder x.mp p = true) ∨ best ≠ none) →
          fcFold p best l ≠ none := by
        intro l
        induction l with
        | nil =>
          intro best hb
          rcases hb with ⟨x, hx, _⟩ | hb
          · cases hx
          · exact hb
        | cons x xs ih =>
          intro best hb
          unfold fcFold
          rw [List.foldl_cons]
          apply ih
          by_cases hx : pathUnder x.mp p = true
          · right
            simp only [hx, if_true]
            cases best with
            | none => simp
            | some b => simp only; split <;> simp
          · simp only [hx, Bool.false_eq_true, if_false]
            rcases hb with ⟨y, hy, hyp⟩ | hb
            · rcases List.mem_cons.mp hy with hy | hy
              · subst hy; exact absurd hyp hx
              · exact .inl ⟨y, hy, hyp⟩
            · exact .inr hb
      exact key _ none (.inl ⟨m1, List.mem_filter.mpr ⟨hm1.1, hroot⟩, hm1.2⟩) hs
  | some r =>
    simp only
    obtain ⟨hr, hrp, _⟩ := startOf_spec hs
    obtain ⟨hw1, hw2⟩ := walk_spec mnts p mnts.length r hr hrp
    obtain ⟨a, b, he⟩ := List.append_of_mem hr
    have hterm := walk_terminal h.toTree p mnts.length r a b he (by rw [he]; simp; omega)
    exact (terminal_is_last h hw1 hw2 hterm).symm

/-- the last entry that satisfies `g` splits the list -/
theorem filter_getLast_split {α} (g : α → Bool) : ∀ (l : List α) (f : α), (l.filter g).getLast? = some f →
    ∃ a b, l = a ++ f :: b ∧ g f = true ∧ ∀ x ∈ b, g x = false := by
  intro l
  induction l with
  | nil => intro f h; cases h
  | cons x xs ih =>
    intro f h
    cases hx : (xs.filter g).getLast? with
    | some f' =>
      -- the last one lies in xs
      have : ((x :: xs).filter g).getLast? = some f' := by
        rw [List.filter_cons]
        split
        · cases hxs : xs.filter g with
          | nil => rw [hxs] at hx; cases hx
          | cons y ys => rw [List.getLast?_cons_cons, ← hxs, hx]
        · exact hx
      rw [this] at h
      cases h
      obtain ⟨a, b, he, hg, hb⟩ := ih f hx
      exact ⟨x :: a, b, by rw [he]; rfl, hg, hb⟩
    | none =>
      have hnil := List.getLast?_eq_none_iff.mp hx
      rw [List.filter_cons] at h
      split at h
      · rename_i hgx
        rw [hnil] at h
        have : f = x := by simpa using h.symm
        subst this
        refine ⟨[], xs, rfl, hgx, ?_⟩
        intro y hy
        cases hgy : g y with
        | false => rfl
        | true =>
          have : y ∈ xs.filter g := List.mem_filter.mpr ⟨hy, hgy⟩
          rw [hnil] at this; cases this
      · rw [hnil] at h; cases h

/-- **`mountedAt_eq_topmostAt`**: on a table without hidden mounts a path is a reachable
    mountpoint exactly if some entry has this mountpoint, and the lookup ends in the last such -/
theorem mountedAt_eq_topmostAt {mnts : List KMnt} (h : NoHidden mnts) (p : Bytes) :
    mountedAt mnts p = topmostAt mnts p := by
  unfold mountedAt
  rw [resolve_eq_findContaining h p, findContaining_last h p]
  cases hl : (onPath mnts p).getLast? with
  | none =>
    have hnil := List.getLast?_eq_none_iff.mp hl
    simp only
    symm
    unfold topmostAt
    apply List.find?_eq_none.mpr
    intro x hx
    have hxm : x ∈ mnts := List.mem_reverse.mp hx
    intro hmp
    have hmp' : x.mp = p := by simpa using hmp
    have : x ∈ onPath mnts p := List.mem_filter.mpr ⟨hxm, by rw [hmp']; exact pathUnder_refl p⟩
    rw [hnil] at this; cases this
  | some f =>
    simp only
    obtain ⟨a, b, he, hf, hb⟩ := filter_getLast_split _ mnts f hl
    by_cases hfp : f.mp = p
    · have : (f.mp == p) = true := by simpa using hfp
      rw [if_pos this]
      symm
      unfold topmostAt
      rw [he]
      simp only [List.reverse_append, List.reverse_cons, List.append_assoc, List.singleton_append]
      rw [List.find?_append]
      have hnone : (b.reverse).find? (fun x => x.mp == p) = none := by
        apply List.find?_eq_none.mpr
        intro x hx hmp
        have hmp' : x.mp = p := by simpa using hmp
        have := hb x (List.mem_reverse.mp hx)
        rw [hmp', pathUnder_refl] at this
        cases this
      rw [hnone]
      simp [this]
    · have : (f.mp == p) = false := by simpa using hfp
      rw [this]
      simp only [Bool.false_eq_true, if_false]
      symm
      unfold topmostAt
      apply List.find?_eq_none.mpr
      intro x hx hmp
      have hmp' : x.mp = p := by simpa using hmp
      have hxm : x ∈ mnts := List.mem_reverse.mp hx
      -- x contains p with the longest possible mountpoint, so it is on the chain at or after f
      have hxL : x ∈ onPath mnts p := List.mem_filter.mpr ⟨hxm, by rw [hmp']; exact pathUnder_refl p⟩
      -- f is the last of the chain; lengths do not decrease: |p| = |x.mp| ≤ |f.mp| ≤ |p|
      have hfl : f.mp.length ≤ p.length := pathUnder_length (by simpa using hf)
      have hmono := mono_of_linked h.toTree (onPath mnts p) (fun y hy => (List.mem_filter.mp hy).1)
        (onPath_chain h p).1
      have hle : ∀ (L : List KMnt), Mono L → ∀ y ∈ L, ∀ l, L.getLast? = some l → y.mp.length ≤ l.mp.length := by
        intro L
        induction L with
        | nil => intro _ y hy; cases hy
        | cons a r ih =>
          intro hm y hy l hl
          cases r with
          | nil =>
            have h1 : y = a := by simpa using hy
            have h2 : l = a := by simpa using hl.symm
            rw [h1, h2]; exact Nat.le_refl _
          | cons b2 r' =>
            rw [List.getLast?_cons_cons] at hl
            rcases List.mem_cons.mp hy with hy | hy
            · subst hy
              exact Nat.le_trans hm.1 (ih hm.2 b2 (by simp) l hl)
            · exact ih hm.2 y hy l hl
      have hxf := hle _ hmono x hxL f hl
      rw [hmp'] at hxf
      -- equal length and containment: equal
      have hfeq : f.mp = p := by
        have hfu : pathUnder f.mp p = true := by simpa using hf
        rw [pathUnder_iff] at hfu
        rcases hfu with h1 | ⟨t, h1⟩
        · exact h1.symm
        · exfalso
          have hlen := congrArg List.length h1
          unfold sl at hlen
          split at hlen
          · rename_i hroot
            have hr : f.mp = [47] := by simpa using hroot
            rw [hr] at hxf
            simp at hlen hxf
            have ht : t = [] := List.eq_nil_of_length_eq_zero (by omega)
            rw [ht] at h1
            unfold sl at h1
            rw [if_pos hroot] at h1
            exact hfp (by rw [hr, h1]; rfl)
          · simp at hlen; omega
      exact hfp hfeq


/-! ### more about the result of a lookup -/

theorem fcFold_ne_none (p : Bytes) : ∀ (l : List KMnt) (best : Option KMnt),
    ((∃ x ∈ l, pathUnder x.mp p = true) ∨ best ≠ none) → fcFold p best l ≠ none := by
  intro l
  induction l with
  | nil =>
    intro best hb
    rcases hb with ⟨x, hx, _⟩ | hb
    · cases hx
    · exact hb
  | cons x xs ih =>
    intro best hb
    unfold fcFold
    rw [List.foldl_cons]
    apply ih
    by_cases hx : pathUnder x.mp p = true
    · right
      simp only [hx, if_true]
      cases best with
      | none => simp
      | some b => simp only; split <;> simp
    · simp only [hx, Bool.false_eq_true, if_false]
      rcases hb with ⟨y, hy, hyp⟩ | hb
      · rcases List.mem_cons.mp hy with hy | hy
        · subst hy; exact absurd hyp hx
        · exact .inl ⟨y, hy, hyp⟩
      · exact .inr hb

/-- no lookup result: no root of the table contains the path -/
theorem resolve_none {mnts : List KMnt} {p : Bytes} (h : resolve mnts p = none) :
    ∀ r ∈ mnts, isRootIn mnts r = true → pathUnder r.mp p = false := by
  unfold resolve at h
  split at h
  · rename_i hs
    intro r hr hroot
    cases hp : pathUnder r.mp p with
    | false => rfl
    | true =>
      exfalso
      unfold startOf at hs
      rw [findContaining_eq] at hs
      exact fcFold_ne_none p _ none (.inl ⟨r, List.mem_filter.mpr ⟨hr, hroot⟩, hp⟩) hs
  · cases h

/-- on a tree the mount a lookup ends in has no child on the path -/
theorem resolve_terminal {mnts : List KMnt} (ht : Tree mnts) {p : Bytes} {m : KMnt}
    (h : resolve mnts p = some m) : Terminal mnts p m := by
  unfold resolve at h
  split at h
  · cases h
  · rename_i r hr
    cases h
    obtain ⟨hrm, _, _⟩ := startOf_spec hr
    obtain ⟨a, b, he⟩ := List.append_of_mem hrm
    exact walk_terminal ht p mnts.length r a b he (by rw [he]; simp; omega)

theorem pathUnder_antisymm {a b : Bytes} (h1 : pathUnder a b = true) (h2 : pathUnder b a = true) : a = b := by
  have l2 := pathUnder_length h2
  rw [pathUnder_iff] at h1
  rcases h1 with h1 | ⟨t, h1⟩
  · exact h1.symm
  · by_cases ha : a = [47]
    · subst ha
      have hs : sl [47] = [47] := rfl
      rw [hs] at h1
      rw [h1] at l2
      have l3 : ([47] ++ t).length = 1 + t.length := by simp; omega
      have l4 : ([47] : Bytes).length = 1 := rfl
      have : t = [] := List.eq_nil_of_length_eq_zero (by omega)
      rw [h1, this]; rfl
    · exfalso
      have hs : sl a = a ++ [47] := by
        unfold sl
        have : (a == [47]) = false := by simpa using ha
        rw [this]; rfl
      rw [hs] at h1
      rw [h1] at l2
      simp at l2
      omega

/-! ### table order and nesting on a table without hidden mounts -/

theorem mono_pairwise : ∀ (L : List KMnt), Mono L → L.Pairwise (fun x y => x.mp.length ≤ y.mp.length) := by
  intro L
  induction L with
  | nil => intro _; exact List.Pairwise.nil
  | cons a r ih =>
    intro hm
    cases r with
    | nil => exact List.pairwise_singleton _ _
    | cons b r' =>
      have hrest := ih hm.2
      refine List.pairwise_cons.mpr ⟨?_, hrest⟩
      intro y hy
      rcases List.mem_cons.mp hy with hy | hy
      · rw [hy]; exact hm.1
      · exact Nat.le_trans hm.1 ((List.pairwise_cons.mp hrest).1 y hy)

theorem pathUnder_eq_of_length {a b : Bytes} (h : pathUnder a b = true) (hl : b.length ≤ a.length) : a = b := by
  rw [pathUnder_iff] at h
  rcases h with h | ⟨t, h⟩
  · exact h.symm
  · by_cases ha : a = [47]
    · subst ha
      have hs : sl [47] = [47] := rfl
      rw [hs] at h
      rw [h] at hl
      have l3 : ([47] ++ t).length = 1 + t.length := by simp; omega
      have l4 : ([47] : Bytes).length = 1 := rfl
      have : t = [] := List.eq_nil_of_length_eq_zero (by omega)
      rw [h, this]; rfl
    · exfalso
      have hs : sl a = a ++ [47] := by
        unfold sl
        have : (a == [47]) = false := by simpa using ha
        rw [this]; rfl
      rw [hs] at h
      rw [h] at hl
      simp at hl
      omega

/-- an entry listed earlier than one whose mountpoint contains its own has the same mountpoint
    (it is the lower entry of a stack): a later mount never lies above an earlier one -/
theorem earlier_below_eq {mnts : List KMnt} (h : NoHidden mnts) {a b : List KMnt} {d c : KMnt}
    (he : mnts = a ++ d :: b) (hc : c ∈ b) (hu : pathUnder c.mp d.mp = true) : d.mp = c.mp := by
  have hsub : ∀ x ∈ onPath mnts d.mp, x ∈ mnts ∧ pathUnder x.mp d.mp = true := fun x hx => List.mem_filter.mp hx
  have hmono := mono_pairwise _ (mono_of_linked h.toTree (onPath mnts d.mp) (fun x hx => (hsub x hx).1)
    (onPath_chain h d.mp).1)
  unfold onPath at hmono
  rw [he, List.filter_append, List.filter_cons, if_pos (pathUnder_refl d.mp)] at hmono
  have hcf : c ∈ b.filter (fun m => pathUnder m.mp d.mp) := List.mem_filter.mpr ⟨hc, hu⟩
  have h2 := (List.pairwise_append.mp hmono).2.1
  have hle := (List.pairwise_cons.mp h2).1 c hcf
  exact (pathUnder_eq_of_length hu hle).symm

end Lc.KernelResolve
