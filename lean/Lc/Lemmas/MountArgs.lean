/-
  The arguments of the mount calls `mountOne` issues are well-formed for the kernel-table
  renderer (`KernelProbe.ArgsOK`) when the layer records and the configuration consist of byte
  strings (`DefsOK`); hence `mount` keeps a well-formed kernel table well-formed.
  Helper lemmas for Props/C01 (`mountOne_establishes_cache`, `mount_idempotent`).
-/
import Lc.Lemmas.MountKernel
import Lc.Lemmas.LayerfileRW
import Lc.Lemmas.Expand

namespace Lc.MountArgs
open Std.Do Lc Lc.Layers Lc.Hoare Lc.Mountinfo Lc.Kernel Lc.KernelProbe Lc.Trace Lc.MountTrace
open Lc.Spec Lc.Lemmas.Path Lc.Lemmas.LayerfileRW Lc.Expand Lc.MountKernel Lc.Layerfile

set_option mvcgen.warning false

/-! ### `path.Clean` / `path.Join` produce byte strings from byte strings -/

theorem isB_joinWith (sep : Nat) (hs : sep < 256) : ∀ (l : List Bytes), (∀ p ∈ l, IsB p) → IsB (joinWith sep l)
  | [], _ => isB_nil
  | [x], h => h x (by simp)
  | x :: y :: rest, h => by
    rw [joinWith, isB_append, isB_cons]
    exact ⟨h x (by simp), hs, isB_joinWith sep hs (y :: rest) (fun p hp => h p (by simp [hp]))⟩

theorem isB_pathClean (s : Bytes) (h : IsB s) : IsB (pathClean s) := by
  rw [pathClean_eq_assemble]
  have hst : ∀ c ∈ (pathComps s).foldl (cleanStep (isAbs s)) [], IsB c := by
    intro c hc
    rcases foldl_cleanStep_mem _ _ _ c hc with e | e
    · simp at e
    · unfold pathComps at e
      exact isB_splitOn _ s h c (List.mem_filter.mp e).1
  generalize (pathComps s).foldl (cleanStep (isAbs s)) [] = stack at hst
  generalize isAbs s = r
  have hbody : IsB (joinWith SLASH stack.reverse) :=
    isB_joinWith 47 (by omega) _ (fun p hp => hst p (by simpa using hp))
  unfold assemble
  cases r
  · simp only [Bool.false_eq_true, if_false]
    split
    · simp [IsB, DOT]
    · exact hbody
  · simp only [if_true, List.isEmpty_cons, Bool.false_eq_true, if_false]
    rw [isB_cons]
    exact ⟨by simp [SLASH], hbody⟩

theorem isB_pathJoin (elems : List Bytes) (h : ∀ p ∈ elems, IsB p) : IsB (pathJoin elems) := by
  unfold pathJoin
  simp only []
  split
  · exact isB_nil
  · apply isB_pathClean
    apply isB_joinWith 47 (by omega)
    intro p hp
    exact h p (List.dropWhile_subset _ hp)

/-! ### well-formed layer records -/

/-- the fields of a layer record that reach mount calls are byte strings; import types are
    tokens (they are `strings.Fields` tokens of the layerconfig) -/
structure LayerOK (l : Layer) : Prop where
  path : IsB l.layerPath
  imports : ∀ m ∈ l.cmounts, IsB m.mount ∧ IsB m.source ∧ TokenOK m.fstype

/-- `l` is a layer record of `d` that a lookup by name finds -/
def Found (d : Defs) (l : Layer) : Prop := ∃ n, findLayer d n = some l

/-- layer records and configuration are made of byte strings, and no overlay workdir — as the
    option parser of the kernel model reads it from the mount data — ends in a carriage return
    (C12's finding `mountinfo-cr-at-line-end`: such a mount would be misread) -/
structure DefsOK (cfg : Config) (d : Defs) : Prop where
  buildRoot : IsB cfg.buildRoot
  workdir : IsB cfg.workdir
  upperdir : IsB cfg.upperdir
  layers : ∀ l, Found d l → LayerOK l
  workLast : ∀ l bl, Found d l → Found d bl →
    (parseOverlayOpts (ovData cfg bl l)).work.getLast? ≠ some 13

theorem findLayer_mem {d : Defs} {n : Bytes} {l : Layer} (h : findLayer d n = some l) : Found d l := ⟨n, h⟩

theorem isB_buildPath {cfg : Config} {d : Defs} (hd : DefsOK cfg d) {l : Layer} (hl : Found d l) :
    IsB (buildPath cfg l) :=
  isB_pathJoin _ (by
    intro p hp
    simp only [List.mem_cons, List.not_mem_nil, or_false] at hp
    rcases hp with rfl | rfl
    · exact (hd.layers l hl).path
    · exact hd.buildRoot)

theorem isB_workPath {cfg : Config} {d : Defs} (hd : DefsOK cfg d) {l : Layer} (hl : Found d l) :
    IsB (workPath cfg l) :=
  isB_pathJoin _ (by
    intro p hp
    simp only [List.mem_cons, List.not_mem_nil, or_false] at hp
    rcases hp with rfl | rfl
    · exact (hd.layers l hl).path
    · exact hd.workdir)

theorem isB_upperPath {cfg : Config} {d : Defs} (hd : DefsOK cfg d) {l : Layer} (hl : Found d l) :
    IsB (upperPath cfg l) :=
  isB_pathJoin _ (by
    intro p hp
    simp only [List.mem_cons, List.not_mem_nil, or_false] at hp
    rcases hp with rfl | rfl
    · exact (hd.layers l hl).path
    · exact hd.upperdir)

theorem isB_ovData {cfg : Config} {d : Defs} (hd : DefsOK cfg d) {l bl : Layer} (hl : Found d l)
    (hbl : Found d bl) : IsB (ovData cfg bl l) := by
  unfold ovData
  simp only [isB_append]
  exact ⟨⟨⟨⟨⟨by simp [IsB], isB_buildPath hd hbl⟩, by simp [IsB]⟩, isB_upperPath hd hl⟩, by simp [IsB]⟩,
    isB_workPath hd hl⟩

theorem findLayerBase_mem (d : Defs) : ∀ (fuel : Nat) (l r : Layer),
    findLayerBase d fuel l = some r → r = l ∨ Found d r := by
  intro fuel
  induction fuel with
  | zero => intro l r h; simp [findLayerBase] at h
  | succ k ih =>
    intro l r h
    unfold findLayerBase at h
    split at h
    · split at h
      · rename_i p hp
        rcases ih p r h with e | e
        · right; rw [e]; exact findLayer_mem hp
        · right; exact e
      · cases h
    · cases h; left; rfl

theorem isB_adjust {p : Bytes} {res : Bytes → Option Bytes} {src : Bytes} (hp : IsB p)
    (hr : ∀ n pre, res n = some pre → IsB pre) (h : adjustPrefixedPath p res = .ok src) : IsB src := by
  unfold adjustPrefixedPath at h
  split at h
  · cases h; exact isB_nil
  · have ht : IsB (decomposePrefix p).2.2 := by
      unfold decomposePrefix
      exact isB_drop _ (isB_drop _ hp)
    generalize decomposePrefix p = trip at h ht
    obtain ⟨sigil, name, tail⟩ := trip
    simp only [] at h ht
    split at h
    · cases h
    · rename_i np hnp
      split at h
      · cases h
      · cases h
        by_cases c1 : (sigil == [126]) = true
        · rw [if_pos c1] at hnp; cases hnp
        · rw [if_neg c1] at hnp
          by_cases c2 : (sigil == [36, 36]) = true
          · rw [if_pos c2] at hnp
            split at hnp
            · rename_i pre hpre
              cases hnp
              apply isB_pathJoin
              intro q hq
              simp only [List.mem_cons, List.not_mem_nil, or_false] at hq
              rcases hq with rfl | rfl
              · exact hr _ _ hpre
              · exact ht
            · cases hnp
          · rw [if_neg c2] at hnp
            by_cases c3 : sigil.length > 0
            · rw [if_pos c3] at hnp; cases hnp
            · rw [if_neg c3] at hnp; cases hnp; exact hp

/-- the arguments of the mount call for an expanded import are well-formed -/
theorem import_argsOK {cfg : Config} {d : Defs} (hd : DefsOK cfg d) {l : Layer} (hl : Found d l)
    {ex : List Expanded} (hex : expandConfigMounts cfg d l = .ok ex) {e : Expanded} (he : e ∈ ex) :
    ArgsOK e.source e.mount e.fstype (mountFlags e.fstype) [] := by
  obtain ⟨m, hm, h1, h2, _, _, h5⟩ := expand_mem hex e he
  have hmo := (hd.layers l hl).imports m hm
  refine ⟨?_, ?_, ?_, isB_nil, by decide⟩
  · apply isB_adjust hmo.2.1 _ h5
    intro n pre hn
    unfold resolver at hn
    split at hn
    · cases hb : findLayerBase d (d.layers.length + 1) l with
      | none => rw [hb] at hn; cases hn
      | some r =>
        rw [hb] at hn
        cases hn
        rcases findLayerBase_mem d _ l r hb with e | e
        · rw [e]; exact (hd.layers l hl).path
        · exact (hd.layers r e).path
    · split at hn
      · cases hn; exact (hd.layers l hl).path
      · cases hn
  · rw [h1]
    apply isB_pathJoin
    intro q hq
    simp only [List.mem_cons, List.not_mem_nil, or_false] at hq
    rcases hq with rfl | rfl
    · exact isB_buildPath hd hl
    · exact hmo.1
  · intro _; rw [h2]; exact hmo.2.2

/-- the arguments of the overlay mount call are well-formed -/
theorem overlay_argsOK {cfg : Config} {d : Defs} (hd : DefsOK cfg d) {l bl : Layer} (hl : Found d l)
    (hbl : Found d bl) :
    ArgsOK b!"overlay" (buildPath cfg l) b!"overlay" (mountFlags b!"overlay") (ovData cfg bl l) :=
  ⟨by simp [IsB], isB_buildPath hd hl, fun _ => by simp [TokenOK], isB_ovData hd hl hbl, hd.workLast l bl hl hbl⟩

/-! ### `mount` keeps the kernel table well-formed -/

/-- the kernel table of the world is well-formed -/
def KW (w : World) : Prop := KWF w.kt

theorem bind_holds {α β} (I : World → Prop) (x : M α) (f : α → M β) (hx : Holds I x)
    (hf : ∀ a, Holds I (f a)) : Holds I (x >>= f) := by
  unfold Holds at *
  mvcgen [hx]
  rename_i a
  exact hf a

theorem gate_kw : Holds KW gate := by
  unfold Holds
  mvcgen [gate, getW, setW, fail]
  all_goals simp_all [KW]

theorem sysMount_kw (s t f : Bytes) (fl : Nat) (o : Bytes)
    (ha : isStructural fl = true → ArgsOK s t f fl o) : Holds KW (sysMount s t f fl o) := by
  unfold Holds
  mvcgen [sysMount, record, getW, setW, fail]
  all_goals (try intros)
  all_goals simp_all (config := { zetaDelta := true }) [KW]
  exact kmount_wf' ‹KWF _› (fun h => ha h) ‹kmount _ _ _ _ _ _ = _›

theorem slave_not_structural : isStructural (MS_SLAVE + MS_REC) = false := by decide

theorem fsMount_kw (s t f o : Bytes) (ha : ArgsOK s t f (mountFlags f) o) : Holds KW (fsMount s t f o) := by
  have h1 := gate_kw
  have h2 := sysMount_kw s t f (mountFlags f) o (fun _ => ha)
  have h3 := sysMount_kw [] t [] (MS_SLAVE + MS_REC) o (fun h => by rw [slave_not_structural] at h; cases h)
  unfold Holds mountFlags at *
  mvcgen [fsMount, h1, h2, h3]

theorem fsStep_kw (op : Op) (f) : Holds KW (fsStep op f) := by
  unfold Holds
  mvcgen [fsStep, gate, record, getW, setW, fail]
  all_goals (try intros)
  all_goals simp_all (config := { zetaDelta := true }) [KW]

theorem fExists_kw (p) : Holds KW (fExists p) := by
  unfold Holds; mvcgen [fExists, getW]

theorem getL_bind_holds {β} (I : World → Prop) (d : Defs) (n : Bytes) (f : Layer → M β)
    (hf : ∀ l, findLayer d n = some l → Holds I (f l)) : Holds I (getL d n >>= f) := by
  unfold getL
  cases h : findLayer d n with
  | none =>
    simp only []
    have : ((throw Fault.panic : M Layer) >>= f) = throw Fault.panic := rfl
    rw [this]
    exact throw_holds _ _
  | some l =>
    simp only [pure_bind]
    exact hf l h

theorem mountOverlay_kw {cfg : Config} {d : Defs} (hd : DefsOK cfg d) {l : Layer} (hl : Found d l) :
    Holds KW (mountOverlay cfg d l) := by
  unfold mountOverlay
  split
  · split
    · apply getL_bind_holds
      intro bl hbl
      exact fsMount_kw _ _ _ _ (overlay_argsOK hd hl (findLayer_mem hbl))
    · exact pure_holds _ _
  · exact pure_holds _ _

theorem mountItem_kw (cfg : Config) (d : Defs) (m : Expanded)
    (ha : ArgsOK m.source m.mount m.fstype (mountFlags m.fstype) []) : Holds KW (mountItem cfg d m) := by
  have h1 := fsMount_kw _ _ _ _ ha
  have h2 := fsStep_kw
  have h3 := fExists_kw
  unfold Holds at *
  mvcgen [mountItem, fsMkdir, h1, h2, h3, fail]

theorem mountItems_kw (cfg : Config) (d : Defs) : ∀ (ex : List Expanded),
    (∀ m ∈ ex, ArgsOK m.source m.mount m.fstype (mountFlags m.fstype) []) → Holds KW (mountItems cfg d ex) := by
  intro ex
  induction ex with
  | nil => intro _; rw [mountItems_nil]; exact pure_holds _ _
  | cons m ms ih =>
    intro h
    rw [mountItems_cons]
    exact bind_holds _ _ _ (mountItem_kw cfg d m (h m (by simp))) (fun _ => ih (fun x hx => h x (by simp [hx])))

theorem refreshMountInfo_kw (cfg d) : Holds KW (refreshMountInfo cfg d) := by
  have h := fun {α} (r : Res α) => liftRes_holds KW r
  unfold Holds at *
  mvcgen [refreshMountInfo, getW, h]
  all_goals (try intros) <;> simp_all

/-- **`mountOne` keeps the kernel table well-formed** when the layer records are -/
theorem mountOne_kw {cfg : Config} {d : Defs} (hd : DefsOK cfg d) (name : Bytes) :
    Holds KW (mountOne cfg d name) := by
  rw [mountOne_eq]
  unfold mountOne'
  apply getL_bind_holds
  intro l hl
  have hlm := findLayer_mem hl
  simp only []
  have hrest : Holds KW (do
        mountOverlay cfg d l
        let expanded ← liftRes (expandConfigMounts cfg d l)
        mountItems cfg d expanded
        let d ← refreshMountInfo cfg d
        let l ← getL d name
        let __do_lift ← getW
        let l' ← liftRes (findLayerstate cfg __do_lift.fs d l)
        pure (setLayer d l')) := by
    apply bind_holds _ _ _ (mountOverlay_kw hd hlm)
    intro _
    cases hex : expandConfigMounts cfg d l with
    | error e =>
      have : ∀ {β} (f : List Expanded → M β), (liftRes (Except.error e : Res (List Expanded)) >>= f) = throw e := fun _ => rfl
      rw [this]; exact throw_holds _ _
    | ok ex =>
      have : ∀ {β} (f : List Expanded → M β), (liftRes (Except.ok ex : Res (List Expanded)) >>= f) = f ex := fun _ => rfl
      rw [this]
      apply bind_holds _ _ _ (mountItems_kw cfg d ex (fun m hm => import_argsOK hd hlm hex hm))
      intro _
      apply bind_holds _ _ _ (refreshMountInfo_kw cfg d)
      intro d2
      apply getL_bind_holds
      intro l2 _
      apply bind_holds _ _ _ (getW_holds _)
      intro w
      apply bind_holds _ _ _ (liftRes_holds _ _)
      intro l'
      exact pure_holds _ _
  split
  · apply bind_holds _ _ _ (fail_holds _ _)
    intro _
    exact hrest
  · exact hrest

end Lc.MountArgs
