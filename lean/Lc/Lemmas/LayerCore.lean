/-
  The part of a layer record that `mount` depends on (`core`: name, base, imports, layer
  path) and the lookups by name that agree on it (`LEq`, `Sub`).  `setLayer` with a
  re-classified layer, `refreshMountInfo`, `makedirs`, `mountOne` and the probe change only
  state, user flags and mount lists, so all of them keep every lookup's core.
  Helper lemmas for Props/C01 (`mount_idempotent`).
-/
import Lc.Lemmas.MountArgs
import Lc.Lemmas.StateProbeAll
import Lc.Lemmas.Forest

namespace Lc.LayerCore
open Lc Lc.Layers Lc.Mountinfo Lc.Layerfile Lc.MountArgs Lc.MountTrace Lc.KernelProbe

/-- what `mount` reads of a layer record -/
def core (l : Layer) : Bytes × Bytes × List NeededMount × Bytes := (l.name, l.base, l.cmounts, l.layerPath)

/-- every lookup by name finds a record with the same core in `d'` as in `d` (or none in both) -/
def LEq (d d' : Defs) : Prop := ∀ n, (findLayer d' n).map core = (findLayer d n).map core

theorem LEq.refl (d : Defs) : LEq d d := fun _ => rfl
theorem LEq.symm {d d' : Defs} (h : LEq d d') : LEq d' d := fun n => (h n).symm
theorem LEq.trans {a b c : Defs} (h1 : LEq a b) (h2 : LEq b c) : LEq a c := fun n => (h2 n).trans (h1 n)

/-- every record a lookup finds in `d` is found, with the same core, under the same name in `d'` -/
def Sub (d d' : Defs) : Prop := ∀ n l, findLayer d n = some l → ∃ l', findLayer d' n = some l' ∧ core l' = core l

theorem Sub.refl (d : Defs) : Sub d d := fun _ l h => ⟨l, h, rfl⟩
theorem Sub.trans {a b c : Defs} (h1 : Sub a b) (h2 : Sub b c) : Sub a c := by
  intro n l hl
  obtain ⟨l1, h1', e1⟩ := h1 n l hl
  obtain ⟨l2, h2', e2⟩ := h2 n l1 h1'
  exact ⟨l2, h2', e2.trans e1⟩

theorem LEq.sub {d d' : Defs} (h : LEq d d') : Sub d d' := by
  intro n l hl
  have := h n
  rw [hl] at this
  cases h' : findLayer d' n with
  | none => rw [h'] at this; cases this
  | some l' => rw [h'] at this; exact ⟨l', rfl, by simpa using this⟩

theorem LEq.of_layers {d d' : Defs} (h : d'.layers = d.layers) : LEq d d' := by
  intro n; unfold findLayer; rw [h]

theorem core_eq_iff {a b : Layer} :
    core a = core b ↔ a.name = b.name ∧ a.base = b.base ∧ a.cmounts = b.cmounts ∧ a.layerPath = b.layerPath := by
  simp [core]

/-- replacing the record found under a name by one with the same core keeps all lookups -/
theorem LEq.setLayer {d : Defs} {l l' : Layer} (hl : findLayer d l'.name = some l) (hc : core l' = core l) :
    LEq d (setLayer d l') := by
  intro n
  by_cases hn : n = l'.name
  · subst hn
    have := Forest.find?_setLayer_self d l l' l'.name hl rfl
    unfold findLayer
    rw [this]
    unfold findLayer at hl
    rw [hl]
    simp [hc]
  · have := Forest.find?_setLayer_other d l' n hn
    unfold findLayer
    rw [this]

theorem LEq.overlain (d : Defs) (m : Mounts) (f : Layer → Bool) :
    LEq d { d with mounts := m, layers := d.layers.map fun l => { l with overlain := f l } } := by
  intro n
  unfold findLayer
  simp only []
  rw [List.find?_map]
  have : ((fun x : Layer => x.name == n) ∘ fun (l : Layer) => { l with overlain := f l }) = fun x => x.name == n := by
    funext x; rfl
  rw [this]
  cases d.layers.find? (fun x => x.name == n) <;> rfl

theorem findLayerstate_core {cfg : Config} {fs : Fs.Tree} {d : Defs} {l l' : Layer}
    (h : findLayerstate cfg fs d l = .ok l') : core l' = core l := by
  obtain ⟨s, hs, _⟩ := StateProbe.findLayerstate_shape cfg fs d l l' h
  rw [hs]
  rfl

/-! ### `DefsOK` only depends on cores -/

theorem Sub.found {d d' : Defs} (h : Sub d' d) {l' : Layer} (hf : Found d' l') :
    ∃ l, Found d l ∧ core l = core l' := by
  obtain ⟨n, hn⟩ := hf
  obtain ⟨l, hl, e⟩ := h n l' hn
  exact ⟨l, ⟨n, hl⟩, e⟩

theorem ovData_core {cfg : Config} {l l' bl bl' : Layer} (h1 : core l' = core l) (h2 : core bl' = core bl) :
    ovData cfg bl' l' = ovData cfg bl l := by
  rw [core_eq_iff] at h1 h2
  unfold ovData buildPath upperPath workPath
  rw [h1.2.2.2, h2.2.2.2]

theorem DefsOK.of_sub {cfg : Config} {d d' : Defs} (hd : DefsOK cfg d) (h : Sub d' d) : DefsOK cfg d' := by
  refine ⟨hd.buildRoot, hd.workdir, hd.upperdir, ?_, ?_⟩
  · intro l' hf
    obtain ⟨l, hl, e⟩ := h.found hf
    rw [core_eq_iff] at e
    have := hd.layers l hl
    exact ⟨by rw [← e.2.2.2]; exact this.path, by rw [← e.2.2.1]; exact this.imports⟩
  · intro l' bl' hf hbf
    obtain ⟨l, hl, e⟩ := h.found hf
    obtain ⟨bl, hbl, eb⟩ := h.found hbf
    rw [← ovData_core e eb]
    exact hd.workLast l bl hl hbl

end Lc.LayerCore
