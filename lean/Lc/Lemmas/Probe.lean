/-
  ProbeAllLayerstate, one layer at a time: findLayerstate touches only `mounts` and
  `state`; the loop keeps, for a fixed layer name, "once visited, the layer is in error
  state or carries the mounts below its build root and a process flag if a process is
  attributed to it".  Helper lemmas for Props/C04 (end-to-end statement).
-/
import Lc.Lemmas.Busy
import Lc.Lemmas.Forest

namespace Lc.Probe
open Lc Lc.Mountinfo Lc.Layers Lc.RunM Lc.Hoare Std.Do Lc.Busy Lc.Forest

set_option mvcgen.warning false

theorem classify_any_user_busy' (cfg : Config) (l : Layer) (users : List User) (hne : users ≠ []) :
    (classifyUsers cfg l users).mountBusy = true ∨ (classifyUsers cfg l users).nonMountBusy = true := by
  obtain ⟨_, h1, h2⟩ := classifyUsers_spec cfg users l
  cases users with
  | nil => exact absurd rfl hne
  | cons u rest =>
    rw [h1, h2]
    by_cases hs : sameDirOrDesc u.file cfg.buildRoot = true
    · left; simp [hs]
    · right; simp [hs]

/-- same layer up to `state` -/
def SameButState (a b : Layer) : Prop :=
  a.name = b.name ∧ a.layerPath = b.layerPath ∧ a.mountBusy = b.mountBusy ∧
  a.nonMountBusy = b.nonMountBusy ∧ a.overlain = b.overlain ∧ a.mounts = b.mounts

set_option maxHeartbeats 1000000 in
/-- findLayerstate only sets `mounts` (to the mounts at/below the build root) and `state` -/
theorem findLayerstate_fields (cfg : Config) (fs : Fs.Tree) (d : Defs) (l l' : Layer)
    (h : findLayerstate cfg fs d l = .ok l') :
    SameButState l' { l with mounts := getMountAndSubmounts d.mounts (buildPath cfg l) } := by
  unfold findLayerstate at h
  simp only at h
  by_cases h0 : l.state < S_complete
  · simp only [h0, if_true] at h; injection h with h; subst h; simp [SameButState]
  simp only [h0, if_false] at h
  split at h
  · cases h
  · injection h with h; subst h; simp [SameButState]
  · rename_i lx heq
    injection h with h; subst h
    repeat' split at heq
    all_goals (first | (cases heq; done) | skip)
    all_goals (injection heq with heq; injection heq with heq; injection heq with heq1 heq2; subst heq1; simp [SameButState])
  · rename_i lx nm hne heq
    have hlx : SameButState lx { l with mounts := getMountAndSubmounts d.mounts (buildPath cfg l) } := by
      repeat' split at heq
      all_goals (first | (cases heq; done) | skip)
      all_goals (injection heq with heq; injection heq with heq; injection heq with heq1 heq2; subst heq1; simp [SameButState])
    clear heq
    have : SameButState l' lx := by
      repeat' split at h
      all_goals (first | (cases h; done) | skip)
      all_goals (injection h with h; subst h; simp [SameButState])
    obtain ⟨a1, a2, a3, a4, a5, a6⟩ := this
    obtain ⟨b1, b2, b3, b4, b5, b6⟩ := hlx
    exact ⟨a1.trans b1, a2.trans b2, a3.trans b3, a4.trans b4, a5.trans b5, a6.trans b6⟩

/-- the processes the in-use map attributes to a layer -/
def usersOf (inuse : List (Bytes × List User)) (name : Bytes) : List User :=
  match inuse.find? (·.1 == name) with
  | some (_, us) => us
  | none => []

/-- one iteration of ProbeAllLayerstate's loop -/
def probeStep (cfg : Config) (inuse : List (Bytes × List User)) (fs : Fs.Tree) (d : Defs) (name : Bytes) : M Defs := do
    match findLayer d name with
    | none => throw Fault.panic
    | some l =>
      let buildroot := buildPath cfg l
      let l := { l with mounts := getMountAndSubmounts d.mounts buildroot }
      let users := match inuse.find? (·.1 == name) with
        | some (_, us) => us
        | none => []
      let l := classifyUsers cfg l users
      if l.state == S_error then pure (setLayer d l) else
      if !Fs.isDir fs buildroot then pure (setLayer d { l with state := S_incomplete }) else
      let haveWork := Fs.isDir fs (workPath cfg l)
      let haveUpper := Fs.isDir fs (upperPath cfg l)
      if l.base.length ≥ 1 && (!haveWork || !haveUpper) then
        pure (setLayer d { l with state := S_incomplete })
      else
        let l ← liftRes (findLayerstate cfg fs d { l with state := S_complete })
        pure (setLayer d l)

theorem probeAll_eq (cfg : Config) (inuse : List (Bytes × List User)) (d : Defs) :
    probeAll cfg inuse d = (do
      let d ← refreshMountInfo cfg d
      let fs := (← getW).fs
      d.order.foldlM (probeStep cfg inuse fs) d) := rfl

/-- what the probe has established for a layer it has visited (after fix e3cb7aa for EVERY
    visited layer, whatever its state: the error state is no exception any more) -/
def Probed (cfg : Config) (m : Mounts) (us : List User) (l : Layer) : Prop :=
  l.mounts = getMountAndSubmounts m (buildPath cfg l) ∧
    (us ≠ [] → l.mountBusy = true ∨ l.nonMountBusy = true)

/-- loop invariant, for one layer name -/
def PInv (cfg : Config) (m : Mounts) (us : List User) (name lp : Bytes) (ov : Bool)
    (done : List Bytes) (d : Defs) : Prop :=
  d.mounts = m ∧ ∃ l, findLayer d name = some l ∧ l.layerPath = lp ∧ l.overlain = ov ∧
    (name ∈ done → Probed cfg m us l)

theorem findLayer_name {d : Defs} {n : Bytes} {l : Layer} (h : findLayer d n = some l) : l.name = n := by
  have := List.find?_some h; simpa using this

theorem step_inv (cfg m us name lp ov done) (d : Defs) (n : Bytes) (ln l1 : Layer)
    (hi : PInv cfg m us name lp ov done d) (hn : findLayer d n = some ln) (h1 : l1.name = ln.name)
    (hgood : n = name → l1.layerPath = ln.layerPath ∧ l1.overlain = ln.overlain ∧ Probed cfg m us l1) :
    PInv cfg m us name lp ov (done ++ [n]) (setLayer d l1) := by
  obtain ⟨hm, l, hl, hlp, hov, hp⟩ := hi
  have hnn := findLayer_name hn
  refine ⟨hm, ?_⟩
  by_cases e : n = name
  · subst e
    rw [hn] at hl; cases hl
    obtain ⟨g1, g2, g3⟩ := hgood rfl
    exact ⟨l1, find?_setLayer_self d ln l1 n hn (h1.trans hnn), g1.trans hlp, g2.trans hov, fun _ => g3⟩
  · refine ⟨l, ?_, hlp, hov, ?_⟩
    · unfold findLayer
      rw [find?_setLayer_other d l1 name (by rw [h1, hnn]; exact fun h => e h.symm)]
      exact hl
    · intro hmem
      rcases List.mem_append.mp hmem with h | h
      · exact hp h
      · simp at h; exact absurd h.symm e

theorem probeStep_layer (cfg : Config) (inuse : List (Bytes × List User)) (fs : Fs.Tree) (d : Defs)
    (n name : Bytes) (l0 lx : Layer) (m : Mounts) (hm : d.mounts = m)
    (hx : (∃ st, lx = { classifyUsers cfg { l0 with mounts := getMountAndSubmounts d.mounts (buildPath cfg l0) }
                  (usersOf inuse n) with state := st }) ∨
          findLayerstate cfg fs d
            { classifyUsers cfg { l0 with mounts := getMountAndSubmounts d.mounts (buildPath cfg l0) }
                (usersOf inuse n) with state := S_complete } = .ok lx) :
    lx.name = l0.name ∧
    (n = name → lx.layerPath = l0.layerPath ∧ lx.overlain = l0.overlain ∧
      Probed cfg m (usersOf inuse name) lx) := by
  obtain ⟨hr, hmb, hnb⟩ := classifyUsers_spec cfg (usersOf inuse n)
    { l0 with mounts := getMountAndSubmounts d.mounts (buildPath cfg l0) }
  have hbusy := classify_any_user_busy' cfg
    { l0 with mounts := getMountAndSubmounts d.mounts (buildPath cfg l0) } (usersOf inuse n)
  generalize classifyUsers cfg { l0 with mounts := getMountAndSubmounts d.mounts (buildPath cfg l0) }
    (usersOf inuse n) = lc at *
  unfold SameRest at hr
  obtain ⟨r1, _, _, _, r5, _, r7, r8⟩ := hr
  simp only at r1 r5 r7 r8
  have key : lx.name = l0.name ∧ lx.layerPath = l0.layerPath ∧ lx.overlain = l0.overlain ∧
      lx.mounts = getMountAndSubmounts d.mounts (buildPath cfg l0) ∧
      lx.mountBusy = lc.mountBusy ∧ lx.nonMountBusy = lc.nonMountBusy := by
    rcases hx with ⟨st, rfl⟩ | hx
    · exact ⟨r1, r5, r7, r8, rfl, rfl⟩
    · obtain ⟨a1, a2, a3, a4, a5, a6⟩ := findLayerstate_fields cfg fs d _ lx hx
      simp only at a1 a2 a3 a4 a5 a6
      refine ⟨a1.trans r1, a2.trans r5, a5.trans r7, ?_, a3, a4⟩
      rw [a6]
      unfold buildPath
      simp only [r5]
  obtain ⟨k1, k2, k3, k4, k5, k6⟩ := key
  refine ⟨k1, fun e => ⟨k2, k3, ⟨?_, ?_⟩⟩⟩
  · rw [k4, hm]; unfold buildPath; rw [k2]
  · intro hne
    rw [k5, k6]
    exact hbusy (by rw [e]; exact hne)

theorem probeStep_spec (cfg : Config) (inuse : List (Bytes × List User)) (fs : Fs.Tree) (w : World)
    (m : Mounts) (name lp : Bytes) (ov : Bool) (done : List Bytes) (d : Defs) (n : Bytes) :
    ⦃fun w' => ⌜w' = w ∧ PInv cfg m (usersOf inuse name) name lp ov done d⌝⦄
    probeStep cfg inuse fs d n
    ⦃post⟨fun d' w' => ⌜w' = w ∧ PInv cfg m (usersOf inuse name) name lp ov (done ++ [n]) d'⌝,
          fun _ w' => ⌜w' = w⌝⟩⦄ := by
  mvcgen [probeStep, liftRes]
  all_goals (have h := ‹_ ∧ PInv _ _ _ _ _ _ _ _›)
  all_goals (try (exact h.1))
  all_goals (have hx := ‹findLayer d n = some _›)
  · refine ⟨h.1, step_inv _ _ _ _ _ _ _ d n _ _ h.2 hx ?_ ?_⟩
    · exact (probeStep_layer cfg inuse fs d n name _ _ m h.2.1 (Or.inl ⟨_, rfl⟩)).1
    · exact (probeStep_layer cfg inuse fs d n name _ _ m h.2.1 (Or.inl ⟨_, rfl⟩)).2
  · refine ⟨h.1, step_inv _ _ _ _ _ _ _ d n _ _ h.2 hx ?_ ?_⟩
    · exact (probeStep_layer cfg inuse fs d n name _ _ m h.2.1 (Or.inl ⟨_, rfl⟩)).1
    · exact (probeStep_layer cfg inuse fs d n name _ _ m h.2.1 (Or.inl ⟨_, rfl⟩)).2
  · refine ⟨h.1, step_inv _ _ _ _ _ _ _ d n _ _ h.2 hx ?_ ?_⟩
    · exact (probeStep_layer cfg inuse fs d n name _ _ m h.2.1 (Or.inl ⟨_, rfl⟩)).1
    · exact (probeStep_layer cfg inuse fs d n name _ _ m h.2.1 (Or.inl ⟨_, rfl⟩)).2
  · have hfs := ‹findLayerstate _ _ _ _ = Except.ok _›
    refine ⟨h.1, step_inv _ _ _ _ _ _ _ d n _ _ h.2 hx ?_ ?_⟩
    · exact (probeStep_layer cfg inuse fs d n name _ _ m h.2.1 (Or.inr hfs)).1
    · exact (probeStep_layer cfg inuse fs d n name _ _ m h.2.1 (Or.inr hfs)).2

/-- general extraction: from a triple with a fixed start world to the run function -/
theorem extractRun {α} (A : Prop) (Q : α → World → Prop) (E : World → Prop) (m : M α) (w : World)
    (h : ⦃fun w' => ⌜w' = w ∧ A⌝⦄ m ⦃post⟨fun a w' => ⌜Q a w'⌝, fun _ w' => ⌜E w'⌝⟩⦄) (ha : A) :
    match m.run.run w with
    | (.ok a, w') => Q a w'
    | (.error _, w') => E w' := by
  have h2 := h w ⟨rfl, ha⟩
  simp [wp] at h2
  generalize (StateT.run (ExceptT.run m) w) = r at h2 ⊢
  obtain ⟨a, s⟩ := r
  cases a <;> exact h2

theorem probeFold_run (cfg : Config) (inuse : List (Bytes × List User)) (fs : Fs.Tree) (w : World)
    (m : Mounts) (name lp : Bytes) (ov : Bool) (xs : List Bytes) :
    ∀ (done : List Bytes) (d : Defs), PInv cfg m (usersOf inuse name) name lp ov done d →
    match (xs.foldlM (probeStep cfg inuse fs) d).run.run w with
    | (.ok d', w') => w' = w ∧ PInv cfg m (usersOf inuse name) name lp ov (done ++ xs) d'
    | (.error _, w') => w' = w := by
  induction xs with
  | nil =>
    intro done d hi
    simp only [List.foldlM_nil, List.append_nil]
    exact ⟨rfl, hi⟩
  | cons x xs ih =>
    intro done d hi
    have hx := extractRun _ _ _ _ w (probeStep_spec cfg inuse fs w m name lp ov done d x) hi
    simp only [List.foldlM_cons]
    rw [run_bind]
    revert hx
    generalize (StateT.run (ExceptT.run (probeStep cfg inuse fs d x)) w) = r
    obtain ⟨a, s⟩ := r
    cases a with
    | error e => exact id
    | ok d1 =>
      rintro ⟨rfl, h1⟩
      have := ih (done ++ [x]) d1 h1
      simp only [List.append_assoc, List.singleton_append] at this
      exact this

theorem find?_map_overlain (ls : List Layer) (f : Layer → Bool) (name : Bytes) (l0 : Layer)
    (h : ls.find? (·.name == name) = some l0) :
    (ls.map fun (l : Layer) => { l with overlain := f l }).find? (·.name == name) = some { l0 with overlain := f l0 } := by
  rw [List.find?_map]
  have : ((fun x : Layer => x.name == name) ∘ fun (l : Layer) => { l with overlain := f l }) = fun x => x.name == name := by
    funext x; rfl
  rw [this, h]; rfl

theorem refresh_run (cfg : Config) (d : Defs) (w : World) (m : Mounts)
    (hm : Kernel.probe w.kt = .ok m) :
    (refreshMountInfo cfg d).run.run w =
      (.ok { d with mounts := m,
                    layers := d.layers.map fun l =>
                      { l with overlain := (overlayLowerdirs m).contains (buildPath cfg l) } }, w) := by
  unfold refreshMountInfo
  simp only [run_bind, run_getW, run_liftRes, hm, run_pure]

/-- **the probe, for one layer**: ProbeAllLayerstate leaves the world alone and, when it
    returns, the layer `name` (present in the table, listed in the order) is in error state or
    carries exactly the mounts at/below its build root, a process flag if any process is
    attributed to it, and Overlain iff a mounted overlay has its build root as lowerdir. -/
theorem probeAll_layer (cfg : Config) (inuse : List (Bytes × List User)) (d0 : Defs) (w : World)
    (m : Mounts) (name : Bytes) (l0 : Layer) (hm : Kernel.probe w.kt = .ok m)
    (hl0 : findLayer d0 name = some l0) (hord : name ∈ d0.order) :
    match (probeAll cfg inuse d0).run.run w with
    | (.ok d, w') => w' = w ∧ ∃ l, findLayer d name = some l ∧ l.layerPath = l0.layerPath ∧
        l.overlain = (overlayLowerdirs m).contains (buildPath cfg l0) ∧
        Probed cfg m (usersOf inuse name) l
    | (.error _, w') => w' = w := by
  rw [probeAll_eq]
  rw [bind_ok _ _ _ _ _ (refresh_run cfg d0 w m hm), bind_ok _ _ w w w (run_getW w)]
  simp only
  have hinv : PInv cfg m (usersOf inuse name) name l0.layerPath
      ((overlayLowerdirs m).contains (buildPath cfg l0)) []
      { d0 with mounts := m, layers := d0.layers.map fun l =>
          { l with overlain := (overlayLowerdirs m).contains (buildPath cfg l) } } := by
    refine ⟨rfl, _, find?_map_overlain d0.layers _ name l0 hl0, rfl, rfl, ?_⟩
    intro h; cases h
  have h := probeFold_run cfg inuse w.fs w m name l0.layerPath
    ((overlayLowerdirs m).contains (buildPath cfg l0)) d0.order [] _ hinv
  revert h
  generalize (StateT.run (ExceptT.run (List.foldlM (probeStep cfg inuse w.fs) _ d0.order)) w) = r
  obtain ⟨a, s⟩ := r
  cases a with
  | error e => exact id
  | ok d =>
    rintro ⟨h1, _, l, hl, hlp, hov, hp⟩
    exact ⟨h1, l, hl, hlp, hov, hp (by simpa using hord)⟩

end Lc.Probe
