/-
  `inTreeOrder` (Model/Mountinfo.lean, fix 05db66c): the WHOLE SUBTREE of a covered mount is
  listed before the mount that covers it (`inTreeOrder_subtree_first`).  The loop keeps, for the
  list placed so far: entries are the processed part of the input (`J.perm`), nothing before its
  parent (`PF`), the level of an entry is one more than the level of the entry it hangs below,
  0 if that is not listed (`DepthOK`), and no entry is listed after an entry that covers it or
  an entry it hangs below (`CovFirst`).
-/
import Lc.Lemmas.TreeOrder
import Lc.Lemmas.Prefix
import Lc.Lemmas.ExportFs

namespace Lc.TreeOrder
open Lc Lc.Layers Lc.Mountinfo

/-- `x` is `c`, or hangs below `c` over entries of `S` -/
inductive ChainV (S : List MountType) : MountType → MountType → Prop
  | refl {x : MountType} : x ∈ S → ChainV S x x
  | step {c a x : MountType} : c ∈ S → a ∈ S → a.parent = c.id → ChainV S a x → ChainV S c x

theorem ChainV.mem_left {S : List MountType} {c x : MountType} (h : ChainV S c x) : c ∈ S := by
  cases h with
  | refl hx => exact hx
  | step hc _ _ _ => exact hc

theorem ChainV.mem_right {S : List MountType} {c x : MountType} (h : ChainV S c x) : x ∈ S := by
  induction h with
  | refl hx => exact hx
  | step _ _ _ _ ih => exact ih

theorem ChainV.snoc {S : List MountType} {c q x : MountType} (h : ChainV S c q) (hx : x ∈ S)
    (hp : x.parent = q.id) : ChainV S c x := by
  induction h with
  | refl hq => exact .step hq hx hp (.refl hx)
  | step hc ha hpar _ ih => exact .step hc ha hpar (ih hp)

/-- a chain that does not end where it starts ends with a last link -/
theorem ChainV.last {S : List MountType} {c x : MountType} (h : ChainV S c x) :
    c = x ∨ ∃ q, ChainV S c q ∧ x.parent = q.id := by
  induction h with
  | refl _ => exact .inl rfl
  | step hc ha hpar hrest ih =>
    right
    rcases ih with h | ⟨q, hq, hp⟩
    · subst h; exact ⟨_, .refl hc, hpar⟩
    · exact ⟨q, .step hc ha hpar hq, hp⟩

/-- `u` covers `v` or an entry `v` hangs below -/
def UBV (S : List MountType) (u v : MountType) : Prop := ∃ a, covers u a = true ∧ ChainV S a v

theorem covers_parent {a b : MountType} (h : covers a b = true) : a.parent = b.parent := by
  unfold covers at h
  simp only [Bool.and_eq_true, beq_iff_eq] at h
  exact h.1.2

theorem covers_ne_id {a b : MountType} (h : covers a b = true) : a.id ≠ b.id := by
  unfold covers at h
  simp only [Bool.and_eq_true, bne_iff_ne, ne_eq] at h
  exact h.1.1.1.2

theorem covers_lt {a b : MountType} (h : covers a b = true) : bytesLt a.mountpoint b.mountpoint = true := by
  unfold covers at h
  simp only [Bool.and_eq_true] at h
  obtain ⟨t, ht⟩ := (ExportFs.hasPrefix_iff _ _).mp h.2
  rw [ht, List.append_assoc]
  exact prefix_lt _ _ (by simp)

/-! ### levels -/

def DepthOK (out : List (MountType × Nat)) : Prop :=
  ∀ e ∈ out, (∀ p ∈ out, p.1.id = e.1.parent → e.2 = p.2 + 1) ∧
    ((∀ p ∈ out, p.1.id ≠ e.1.parent) → e.2 = 0)

theorem depth_unique {out : List (MountType × Nat)} (hnd : (out.map (·.1.id)).Nodup) {x : MountType} {d1 d2 : Nat}
    (h1 : (x, d1) ∈ out) (h2 : (x, d2) ∈ out) : d1 = d2 := by
  induction out with
  | nil => cases h1
  | cons e es ih =>
    rw [List.map_cons, List.nodup_cons] at hnd
    rcases List.mem_cons.mp h1 with h1 | h1 <;> rcases List.mem_cons.mp h2 with h2 | h2
    · rw [← h1] at h2; exact (Prod.mk.inj h2).2.symm
    · exfalso; apply hnd.1; rw [← h1]; exact List.mem_map.mpr ⟨(x, d2), h2, rfl⟩
    · exfalso; apply hnd.1; rw [← h2]; exact List.mem_map.mpr ⟨(x, d1), h1, rfl⟩
    · exact ih hnd.2 h1 h2

theorem entry_unique {out : List (MountType × Nat)} (hnd : (out.map (·.1.id)).Nodup) {e f : MountType × Nat}
    (he : e ∈ out) (hf : f ∈ out) (hid : e.1.id = f.1.id) : e = f := by
  induction out with
  | nil => cases he
  | cons g gs ih =>
    rw [List.map_cons, List.nodup_cons] at hnd
    rcases List.mem_cons.mp he with he | he <;> rcases List.mem_cons.mp hf with hf | hf
    · rw [he, hf]
    · exfalso; apply hnd.1; rw [← he, hid]; exact List.mem_map.mpr ⟨f, hf, rfl⟩
    · exfalso; apply hnd.1; rw [← hf, ← hid]; exact List.mem_map.mpr ⟨e, he, rfl⟩
    · exact ih hnd.2 he hf

/-- entries hanging below the same mount are on one level -/
theorem depth_siblings {out : List (MountType × Nat)} (hd : DepthOK out) {e f : MountType × Nat}
    (he : e ∈ out) (hf : f ∈ out) (hp : e.1.parent = f.1.parent) : e.2 = f.2 := by
  by_cases hex : ∃ p ∈ out, p.1.id = e.1.parent
  · obtain ⟨p, hp1, hp2⟩ := hex
    rw [(hd e he).1 p hp1 hp2, (hd f hf).1 p hp1 (by rw [hp2, hp])]
  · have hno : ∀ p ∈ out, p.1.id ≠ e.1.parent := fun p hp1 hp2 => hex ⟨p, hp1, hp2⟩
    rw [(hd e he).2 hno, (hd f hf).2 (fun p hp1 => by rw [← hp]; exact hno p hp1)]

/-- the level `placeBelow` computes -/
theorem placeBelow_level (out : List (MountType × Nat)) (m : MountType) (hnd : (out.map (·.1.id)).Nodup) :
    (∀ p ∈ out, p.1.id = m.parent → (placeBelow out m).1 = p.2 + 1) ∧
    ((∀ p ∈ out, p.1.id ≠ m.parent) → (placeBelow out m).1 = 0) := by
  unfold placeBelow
  cases hp : out.dropWhile (fun (p : MountType × Nat) => !(p.1.id == m.parent)) with
  | nil =>
    have hall := dropWhile_nil_all hp
    refine ⟨fun p hp1 hp2 => ?_, fun _ => rfl⟩
    have := hall p hp1
    simp [hp2] at this
  | cons par after =>
    have hpar : par.1.id = m.parent := by simpa using dropWhile_head_not hp
    have hparmem : par ∈ out := by
      have : par ∈ out.dropWhile (fun (p : MountType × Nat) => !(p.1.id == m.parent)) := by rw [hp]; simp
      exact (List.dropWhile_sublist _).subset this
    refine ⟨fun p hp1 hp2 => ?_, fun hno => absurd hpar (hno par hparmem)⟩
    have : p = par := entry_unique hnd hp1 hparmem (by rw [hp2, hpar])
    rw [this]

/-! ### the invariant of the loop -/

/-- no entry is listed after an entry that covers it or an entry it hangs below -/
def CovFirst (S : List MountType) (out : List (MountType × Nat)) : Prop :=
  out.Pairwise (fun u v => ¬ UBV S u.1 v.1)

structure J (l pre : List MountType) (out : List (MountType × Nat)) : Prop where
  perm : (out.map (·.1)).Perm pre
  pf : PF out
  depth : DepthOK out
  cov : CovFirst l out

/-- along a chain of placed entries the level grows -/
theorem chain_depth {l pre : List MountType} {out : List (MountType × Nat)} (hj : J l pre out)
    (hnd : (out.map (·.1.id)).Nodup)
    (hclosed : ∀ x ∈ pre, ∀ c ∈ l, x.parent = c.id → c ∈ pre) {a q : MountType} (h : ChainV l a q)
    {dq : Nat} (hq : (q, dq) ∈ out) :
    ∃ da, (a, da) ∈ out ∧ ((a = q ∧ da = dq) ∨ da < dq) := by
  induction h with
  | refl _ => exact ⟨dq, hq, .inl ⟨rfl, rfl⟩⟩
  | @step c a' x hc ha hpar _ ih =>
    obtain ⟨da, hda, hcmp⟩ := ih hq
    have hapre : a' ∈ pre := hj.perm.mem_iff.mp (List.mem_map.mpr ⟨(a', da), hda, rfl⟩)
    have hcpre : c ∈ pre := hclosed a' hapre c hc hpar
    obtain ⟨ec, hec, hec1⟩ := List.mem_map.mp (hj.perm.mem_iff.mpr hcpre)
    have hdep := (hj.depth (a', da) hda).1 ec hec (by rw [hec1]; exact hpar.symm)
    refine ⟨ec.2, by rw [← hec1]; exact hec, .inr ?_⟩
    simp only at hdep
    rcases hcmp with ⟨_, h2⟩ | h2
    · omega
    · omega

/-- **one round keeps the invariant** -/
theorem insertTree_J {l pre rest : List MountType} {m : MountType} {out : List (MountType × Nat)}
    (hl : l = pre ++ m :: rest) (hnd : (l.map (·.id)).Nodup) (hns : ∀ x ∈ l, x.id ≠ x.parent)
    (hpf : l.Pairwise (fun x y => y.id ≠ x.parent))
    (hsorted : l.Pairwise (fun a b => bytesLt b.mountpoint a.mountpoint = false))
    (hj : J l pre out) : J l (pre ++ [m]) (insertTree out m) := by
  -- facts about the input
  have hmem_pre : ∀ x ∈ pre, x ∈ l := fun x hx => by rw [hl]; exact List.mem_append_left _ hx
  have hml : m ∈ l := by rw [hl]; simp
  have houtpre : ∀ e ∈ out, e.1 ∈ pre := fun e he => hj.perm.mem_iff.mp (List.mem_map.mpr ⟨e, he, rfl⟩)
  have hpreout : ∀ x ∈ pre, ∃ d, (x, d) ∈ out := by
    intro x hx
    obtain ⟨e, he, he1⟩ := List.mem_map.mp (hj.perm.mem_iff.mpr hx)
    exact ⟨e.2, by rw [← he1]; exact he⟩
  have hndout : (out.map (·.1.id)).Nodup := by
    have h1 : (out.map (·.1.id)) = (out.map (·.1)).map (·.id) := by rw [List.map_map]; rfl
    rw [h1]
    have h2 : ((out.map (·.1)).map (·.id)).Perm (pre.map (·.id)) := hj.perm.map _
    apply h2.nodup_iff.mpr
    rw [hl, List.map_append] at hnd
    exact (List.nodup_append.mp hnd).1
  have hpfsplit := hpf
  rw [hl, List.pairwise_append] at hpfsplit
  -- the parent of a processed entry, and of m, is processed
  have hclosed : ∀ x ∈ pre, ∀ c ∈ l, x.parent = c.id → c ∈ pre := by
    intro x hx c hc hpar
    rw [hl] at hc
    rcases List.mem_append.mp hc with h | h
    · exact h
    · exact absurd hpar.symm (hpfsplit.2.2 x hx c h)
  have hclosed_m : ∀ c ∈ l, m.parent = c.id → c ∈ pre := by
    intro c hc hpar
    rw [hl] at hc
    rcases List.mem_append.mp hc with h | h
    · exact h
    · rcases List.mem_cons.mp h with h | h
      · subst h; exact absurd hpar.symm (hns c hml)
      · exact absurd hpar.symm ((List.pairwise_cons.mp hpfsplit.2.1).1 c h)
  have hbefore : ∀ e ∈ out, m.id ≠ e.1.parent := fun e he => hpfsplit.2.2 e.1 (houtpre e he) m (by simp)
  -- chains into the processed part stay there
  have hchain_pre : ∀ {a x : MountType}, ChainV l a x → x ∈ pre → a ∈ pre := by
    intro a x h
    induction h with
    | refl _ => exact id
    | step hc ha hpar _ ih => intro hx; exact hclosed _ (ih hx) _ hc hpar
  -- nothing processed lies behind m in path order
  have hsplit_sorted := hsorted
  rw [hl, List.pairwise_append] at hsplit_sorted
  have hnotlt : ∀ x ∈ pre, bytesLt m.mountpoint x.mountpoint = false :=
    fun x hx => hsplit_sorted.2.2 x hx m (by simp)
  have hnocov_new : ∀ a ∈ pre, covers m a = false := by
    intro a ha
    cases hc : covers m a with
    | false => rfl
    | true => have := covers_lt hc; rw [hnotlt a ha] at this; cases this
  obtain ⟨A, B, lvl, heAB, hiAB⟩ := insertTree_split out m
  have hlvl := placeBelow_level out m hndout
  refine ⟨?_, ?_, ?_, ?_⟩
  · -- perm
    refine (insertTree_perm out m).trans ?_
    refine (List.Perm.cons m hj.perm).trans ?_
    exact (List.perm_append_singleton m pre).symm
  · -- parents first
    exact insertTree_PF out m hj.pf hndout (fun e he => hns e.1 (hmem_pre _ (houtpre e he))) hbefore
  · -- levels
    have hnew : ∀ e ∈ insertTree out m, e ∈ out ∨ e = (m, (placeBelow out m).1) := by
      intro e he
      rcases insertTree_cases out m with ⟨front, a, back, hee, _, _, hi⟩ |
          ⟨_, ⟨before, par, blk1, blk2, hee, _, hpar, _, _, hi⟩ | ⟨hnone, hi⟩⟩
      · rw [hi] at he
        rcases List.mem_append.mp he with h | h
        · exact .inl (by rw [hee]; exact List.mem_append_left _ h)
        · rcases List.mem_cons.mp h with h | h
          · exact .inr h
          · exact .inl (by rw [hee]; exact List.mem_append_right _ h)
      · rw [hi] at he
        have hparmem : par ∈ out := by rw [hee]; simp
        have hl1 : (placeBelow out m).1 = par.2 + 1 := hlvl.1 par hparmem hpar
        rcases List.mem_append.mp he with h | h
        · exact .inl (by rw [hee]; exact List.mem_append_left _ h)
        · rcases List.mem_cons.mp h with h | h
          · exact .inl (by rw [hee, h]; simp)
          · rcases List.mem_append.mp h with h | h
            · exact .inl (by rw [hee]; simp [h])
            · rcases List.mem_cons.mp h with h | h
              · exact .inr (by rw [h, hl1])
              · exact .inl (by rw [hee]; simp [h])
      · rw [hi] at he
        have hl0 : (placeBelow out m).1 = 0 := hlvl.2 hnone
        rcases List.mem_append.mp he with h | h
        · exact .inl h
        · exact .inr (by rw [hl0]; simpa using h)
    have hold : ∀ e ∈ out, e ∈ insertTree out m := by
      intro e he
      rw [hiAB]
      rw [heAB] at he
      rcases List.mem_append.mp he with h | h
      · exact List.mem_append_left _ h
      · exact List.mem_append_right _ (List.mem_cons_of_mem _ h)
    intro e he
    rcases hnew e he with heo | hem
    · -- an old entry: m is not its parent
      obtain ⟨h1, h2⟩ := hj.depth e heo
      refine ⟨fun p hp hpid => ?_, fun hno => h2 (fun p hp => hno p (hold p hp))⟩
      rcases hnew p hp with hpo | hpm
      · exact h1 p hpo hpid
      · exfalso; rw [hpm] at hpid; exact hbefore e heo hpid
    · rw [hem]
      refine ⟨fun p hp hpid => ?_, fun hno => hlvl.2 (fun p hp => hno p (hold p hp))⟩
      rcases hnew p hp with hpo | hpm
      · exact hlvl.1 p hpo hpid
      · exfalso; rw [hpm] at hpid; exact hns m hml hpid
  · -- covered first
    unfold CovFirst
    -- (β) m does not cover anything an old entry hangs below
    have hbeta : ∀ v ∈ out, ¬ UBV l m v.1 := by
      rintro v hv ⟨a, hca, hch⟩
      have := hnocov_new a (hchain_pre hch (houtpre v hv))
      rw [hca] at this; cases this
    -- what a violation (γ) would need
    have hgamma_self : ∀ u : MountType × Nat, covers u.1 m = false → ∀ a, covers u.1 a = true → ChainV l a m →
        ∃ q, ChainV l a q ∧ m.parent = q.id ∧ q ∈ pre := by
      intro u hum a hca hch
      rcases hch.last with h | ⟨q, hq, hp⟩
      · subst h; rw [hca] at hum; cases hum
      · exact ⟨q, hq, hp, hclosed_m q hq.mem_right hp⟩
    rcases insertTree_cases out m with ⟨front, a', back, hee, hfront, hca', hi⟩ |
        ⟨hnocov, ⟨before, par, blk1, blk2, hee, _, hpar, hblk1, hblk2, hi⟩ | ⟨hnone, hi⟩⟩
    · rw [hi]
      have hcov := hj.cov
      unfold CovFirst at hcov
      rw [hee] at hcov
      refine pairwise_insert hcov ?_ (fun v hv => hbeta v (by rw [hee]; exact List.mem_append_right _ hv))
      rintro u hu ⟨a, hca, hch⟩
      obtain ⟨q, hq, hp, hqpre⟩ := hgamma_self u (hfront u hu) a hca hch
      -- the covering mount a' hangs below q as well: u would cover something a' hangs below
      have ha'l : a'.1 ∈ l := hmem_pre _ (houtpre a' (by rw [hee]; simp))
      have hch' : ChainV l a a'.1 := hq.snoc ha'l (by rw [covers_parent hca', hp])
      exact (List.pairwise_append.mp hcov).2.2 u hu a' (by simp) ⟨a, hca, hch'⟩
    · rw [hi]
      have hsplit : before ++ par :: (blk1 ++ (m, par.2 + 1) :: blk2) =
          (before ++ par :: blk1) ++ (m, par.2 + 1) :: blk2 := by simp
      rw [hsplit]
      have hee' : out = (before ++ par :: blk1) ++ blk2 := by rw [hee]; simp
      have hcov := hj.cov
      unfold CovFirst at hcov
      have hcov0 := hcov
      rw [hee'] at hcov
      refine pairwise_insert hcov ?_ (fun v hv => hbeta v (by rw [hee']; exact List.mem_append_right _ hv))
      rintro u hu ⟨a, hca, hch⟩
      have huout : u ∈ out := by rw [hee']; exact List.mem_append_left _ hu
      obtain ⟨q, hq, hp, hqpre⟩ := hgamma_self u (hnocov u huout) a hca hch
      have hparmem : par ∈ out := by rw [hee]; simp
      -- par is the entry of q
      obtain ⟨dq, hdq⟩ := hpreout q hqpre
      have hparq : par = (q, dq) := entry_unique hndout hparmem hdq (by rw [hpar, hp])
      -- a is placed, on the level of u
      obtain ⟨da, hda, hcmp⟩ := chain_depth hj hndout hclosed hq hdq
      have hlev : u.2 = da := depth_siblings hj.depth huout hda (covers_parent hca)
      have hle : da ≤ dq := by rcases hcmp with ⟨_, h⟩ | h <;> omega
      rcases List.mem_append.mp hu with hub | hub
      · -- u before par: u covers something par hangs below
        have hcov1 := hcov0
        rw [hee] at hcov1
        exact (List.pairwise_append.mp hcov1).2.2 u hub par (by simp) ⟨a, hca, by rw [hparq]; exact hq⟩
      · rcases List.mem_cons.mp hub with hub | hub
        · -- u = par = q: a is on q's level and q hangs below a (or is a)
          rw [hub, hparq] at hlev hca
          simp only at hlev hca
          rcases hcmp with ⟨haq, _⟩ | hlt
          · rw [haq] at hca
            exact covers_ne_id hca rfl
          · omega
        · -- u in the run of deeper entries behind par
          have := hblk1 u hub
          rw [hparq] at this
          simp only at this
          omega
    · rw [hi]
      have : out ++ [(m, 0)] = out ++ (m, 0) :: [] := rfl
      rw [this]
      have hcov := hj.cov
      unfold CovFirst at hcov
      refine pairwise_insert (by simpa using hcov) ?_ (by intro v hv; cases hv)
      rintro u hu ⟨a, hca, hch⟩
      obtain ⟨q, hq, hp, hqpre⟩ := hgamma_self u (hnocov u hu) a hca hch
      obtain ⟨dq, hdq⟩ := hpreout q hqpre
      exact hnone (q, dq) hdq hp.symm

theorem foldl_insertTree_J (l : List MountType) (hnd : (l.map (·.id)).Nodup) (hns : ∀ x ∈ l, x.id ≠ x.parent)
    (hpf : l.Pairwise (fun x y => y.id ≠ x.parent))
    (hsorted : l.Pairwise (fun a b => bytesLt b.mountpoint a.mountpoint = false)) :
    ∀ (rest pre : List MountType) (out : List (MountType × Nat)), l = pre ++ rest → J l pre out →
      J l l (rest.foldl insertTree out) := by
  intro rest
  induction rest with
  | nil => intro pre out hl hj; rw [hl, List.append_nil]; rw [hl, List.append_nil] at hj; exact hj
  | cons m rest' ih =>
    intro pre out hl hj
    rw [List.foldl_cons]
    exact ih (pre ++ [m]) _ (by rw [hl]; simp) (insertTree_J hl hnd hns hpf hsorted hj)

/-- **the whole subtree of a covered mount is listed before the mount that covers it**: in the
    tree order of a path-sorted list with unique ids, in which nobody is its own parent and
    nothing is listed before the mount it hangs below, no entry `v` is listed after an entry `u`
    that covers `v` or an entry `v` hangs below -/
theorem inTreeOrder_subtree_first (l : List MountType) (hnd : (l.map (·.id)).Nodup)
    (hns : ∀ x ∈ l, x.id ≠ x.parent) (hpf : l.Pairwise (fun x y => y.id ≠ x.parent))
    (hsorted : l.Pairwise (fun a b => bytesLt b.mountpoint a.mountpoint = false)) :
    (inTreeOrder l).Pairwise (fun u v => ¬ UBV l u v) := by
  have h := foldl_insertTree_J l hnd hns hpf hsorted l [] [] rfl
    ⟨List.Perm.refl _, List.Pairwise.nil, fun e he => (by cases he), List.Pairwise.nil⟩
  unfold inTreeOrder
  rw [List.pairwise_map]
  exact h.cov

end Lc.TreeOrder
