/-
  `addLayer` as a whole, seen through `Fs.get` at every exit (normal return, error, injected
  fault, crash at any operation index): relative to the initial world every path other than
  the temporary file, the new `.bashrc` and paths strictly below the new layerconfig either
  holds what it held, or is a directory created where nothing was, or is the new layer's
  layerconfig holding the complete new text.  Helper lemmas for Props/C11 (crash_atomic_add).

  The invariant `AddInv` is a reflexive and transitive relation between worlds, so each
  primitive is specified relative to the state before it and lifted with `lift_rel`.
-/
import Lc.Lemmas.WriteLayerFile
import Lc.Lemmas.RemoveLayer
import Lc.Lemmas.FsMove
import Lc.Lemmas.LayerPaths
import Lc.Lemmas.RunM

set_option mvcgen.warning false

namespace Lc.CrashAdd
open Std.Do Lc Lc.Layers Lc.Layerfile Lc.Hoare Lc.Lemmas.WriteLF Lc.FsMove Lc.RemoveLayer

/-! ### between triples and the run function -/

/-- a triple from a statement about the run function (converse of `extractPost`) -/
theorem triple_of_run {α} (m : M α) (P : World → Prop) (Q : α → World → Prop) (E : Fault → World → Prop)
    (h : ∀ w, P w → match (m.run.run w).1 with
      | .ok a => Q a (m.run.run w).2
      | .error e => E e (m.run.run w).2) :
    ⦃fun w => ⌜P w⌝⦄ m ⦃post⟨fun a w => ⌜Q a w⌝, fun e w => ⌜E e w⌝⟩⦄ := by
  intro w hw
  have h2 := h w hw
  simp [wp]
  generalize (StateT.run (ExceptT.run m) w) = r at h2 ⊢
  obtain ⟨a, s⟩ := r
  cases a <;> exact h2

/-- a specification relative to the state before (`w = w1` for every `w1`) gives an invariant
    triple for every predicate closed under the relation -/
theorem lift_rel {α} (m : M α) (Q : World → α → World → Prop) (E : World → World → Prop)
    (hspec : ∀ w1, ⦃fun w => ⌜w = w1⌝⦄ m ⦃post⟨fun a w => ⌜Q w1 a w⌝, fun _ w => ⌜E w1 w⌝⟩⦄)
    (I : World → Prop) (I' : α → World → Prop) (I'' : World → Prop)
    (hq : ∀ w1 a w, I w1 → Q w1 a w → I' a w) (he : ∀ w1 w, I w1 → E w1 w → I'' w) :
    ⦃fun w => ⌜I w⌝⦄ m ⦃post⟨fun a w => ⌜I' a w⌝, fun _ w => ⌜I'' w⌝⟩⦄ := by
  apply triple_of_run
  intro w hw
  have h := extractBoth m w (Q w) (E w) (hspec w)
  split at h <;> rename_i heq <;> rw [heq]
  · exact hq w _ _ hw h
  · exact he w _ hw h

/-! ### the relation -/

/-- `C` the new layerconfig, `T` its temporary file, `B` the new `.bashrc`, `New` the
    admissible complete contents of `C` -/
def AddInv (C T B : Bytes) (New : Fs.Node → Prop) (w0 w : World) : Prop :=
  w.pretend = w0.pretend ∧
  ∀ p, Fs.under T p = false → p ≠ B → (Fs.under C p = false ∨ p = C) →
    Fs.get w.fs p = Fs.get w0.fs p ∨
    (Fs.get w0.fs p = none ∧ Fs.get w.fs p = some .dir) ∨
    (p = C ∧ ∃ n, New n ∧ Fs.get w.fs p = some n)

theorem addInv_refl (C T B New) (w : World) : AddInv C T B New w w :=
  ⟨rfl, fun _ _ _ _ => Or.inl rfl⟩

theorem addInv_of_fs_eq (C T B New) (w1 w : World) (hp : w.pretend = w1.pretend) (h : w.fs = w1.fs) :
    AddInv C T B New w1 w :=
  ⟨hp, fun _ _ _ _ => Or.inl (by rw [h])⟩

theorem addInv_trans (C T B New) (w0 w1 w2 : World) (h1 : AddInv C T B New w0 w1)
    (h2 : AddInv C T B New w1 w2) : AddInv C T B New w0 w2 := by
  refine ⟨h2.1.trans h1.1, ?_⟩
  intro p hT hB hC
  rcases h2.2 p hT hB hC with e | ⟨hn, hd⟩ | hnew
  · rcases h1.2 p hT hB hC with e1 | ⟨hn1, hd1⟩ | ⟨hc, n, hn, hg⟩
    · left; rw [e, e1]
    · right; left; exact ⟨hn1, by rw [e]; exact hd1⟩
    · right; right; exact ⟨hc, n, hn, by rw [e]; exact hg⟩
  · rcases h1.2 p hT hB hC with e1 | ⟨_, hd1⟩ | ⟨_, n, _, hg⟩
    · right; left; exact ⟨by rw [← e1]; exact hn, hd⟩
    · rw [hn] at hd1; cases hd1
    · rw [hn] at hg; cases hg
  · right; right; exact hnew

/-- a gated tree operation that only adds directories -/
theorem addInv_of_added (C T B New) (w1 w : World) (hp : w.pretend = w1.pretend)
    (h : ExportFs.Added [] w1.fs w.fs) : AddInv C T B New w1 w := by
  refine ⟨hp, fun p _ _ _ => ?_⟩
  rcases h p with e | ⟨hn, hd | ⟨e, he, _⟩⟩
  · left; exact e
  · right; left; exact ⟨hn, hd⟩
  · cases he

theorem fsMkdir_rel (C T B New) (p : Bytes) (w1 : World) :
    ⦃fun w => ⌜w = w1⌝⦄ fsMkdir p
    ⦃post⟨fun _ w => ⌜AddInv C T B New w1 w⌝, fun _ w => ⌜AddInv C T B New w1 w⌝⟩⦄ := by
  apply lift_rel (fsMkdir p) _ _ (fsStep_spec _ _) (fun w => w = w1)
  · rintro w _ w' rfl ⟨hp, h⟩
    rcases h with ⟨_, hfs⟩ | ⟨_, hok⟩
    · exact addInv_of_fs_eq _ _ _ _ _ _ hp hfs
    · exact addInv_of_added _ _ _ _ _ _ hp (ExportFs.added_mkdirAll [] _ _ p hok)
  · rintro w w' rfl ⟨hfs, hp⟩
    exact addInv_of_fs_eq _ _ _ _ _ _ hp hfs

theorem fsWriteTextFile_rel (C T B New) (content : Bytes) (w1 : World) :
    ⦃fun w => ⌜w = w1⌝⦄ fsWriteTextFile B content
    ⦃post⟨fun _ w => ⌜AddInv C T B New w1 w⌝, fun _ w => ⌜AddInv C T B New w1 w⌝⟩⦄ := by
  apply lift_rel (fsWriteTextFile B content) _ _ (fsStep_spec _ _) (fun w => w = w1)
  · rintro w _ w' rfl ⟨hp, h⟩
    rcases h with ⟨_, hfs⟩ | ⟨_, hok⟩
    · exact addInv_of_fs_eq _ _ _ _ _ _ hp hfs
    · exact ⟨hp, fun p _ hB _ => Or.inl (writeText_get_ne _ _ B content p hok hB)⟩
  · rintro w w' rfl ⟨hfs, hp⟩
    exact addInv_of_fs_eq _ _ _ _ _ _ hp hfs

theorem writeLayerFile_rel (l : Layer) (B : Bytes) (New : Fs.Node → Prop) (hn : New (newNode l)) (w1 : World) :
    ⦃fun w => ⌜w = w1⌝⦄ writeLayerFile l
    ⦃post⟨fun _ w => ⌜AddInv (cfgPath l) (tmpPath l) B New w1 w⌝,
          fun _ w => ⌜AddInv (cfgPath l) (tmpPath l) B New w1 w⌝⟩⦄ := by
  apply lift_rel (writeLayerFile l) _ _ (writeLayerFile_spec l) (fun w => w = w1)
  · rintro w _ w' rfl ⟨hp, h⟩
    rcases h with ⟨_, hfs⟩ | ⟨_, hwr⟩
    · exact addInv_of_fs_eq _ _ _ _ _ _ hp hfs
    · refine ⟨hp, fun p hT _ hC => ?_⟩
      rcases hC with hC | hC
      · left; exact hwr.2 p hC hT
      · right; right; exact ⟨hC, newNode l, hn, by rw [hC]; exact hwr.1⟩
  · rintro w w' rfl hfr
    refine ⟨hfr.2, fun p hT _ _ => Or.inl (hfr.1 p ?_)⟩
    exact ne_of_under_false _ _ hT

/-- lifting: every step that is `AddInv` relative to the state before it preserves
    `AddInv … w0` -/
theorem holds_of_rel {α} (C T B New) (m : M α) (w0 : World)
    (h : ∀ w1, ⦃fun w => ⌜w = w1⌝⦄ m
      ⦃post⟨fun _ w => ⌜AddInv C T B New w1 w⌝, fun _ w => ⌜AddInv C T B New w1 w⌝⟩⦄) :
    Holds (AddInv C T B New w0) m :=
  lift_rel m _ _ h _ _ _ (fun w1 _ w h1 h2 => addInv_trans _ _ _ _ w0 w1 w h1 h2)
    (fun w1 w h1 h2 => addInv_trans _ _ _ _ w0 w1 w h1 h2)

/-! ### what `add` writes -/

/-- `getDefaultLayerinfo` as a function of the tree -/
def defaultInfo (cfg : Config) (filename : Bytes) (fs : Fs.Tree) : Option LayerFile :=
  let f0 := if filename.length == 0 then pathJoin [cfg.basepath, skeletonFile] else filename
  let f1 := if !Fs.isFile fs f0 then
      let f := pathJoin [cfg.basepath, f0]
      if !Fs.isFile fs f && (fileExt f).length == 0 then f ++ b!".skel" else f
    else f0
  match Fs.readFile fs f1 with
  | none => none
  | some content =>
    let lf := readLayerFile content
    if lf.nmsgs > 0 then none else some lf

theorem getDefaultLayerinfo_spec (cfg : Config) (f : Bytes) (w0 : World) :
    ⦃fun w => ⌜w = w0⌝⦄ getDefaultLayerinfo cfg f
    ⦃post⟨fun lf w => ⌜w = w0 ∧ defaultInfo cfg f w0.fs = some lf⌝, fun _ w => ⌜w = w0⌝⟩⦄ := by
  mvcgen [getDefaultLayerinfo, getW, fail]
  all_goals subst_vars
  all_goals (try rfl)
  all_goals simp_all +zetaDelta [defaultInfo]

/-- the import and export lists `add` gives the new layer: read from the configuration file
    (or the skeleton) in the initial tree, else copied from the parent -/
def Plan (cfg : Config) (d : Defs) (base configFile : Bytes) (fs0 : Fs.Tree)
    (cm ce : List NeededMount) : Prop :=
  if configFile.length > 0 ∨ base.length = 0 then
    ∃ lf, defaultInfo cfg configFile fs0 = some lf ∧ cm = lf.mounts ∧ ce = lf.exports
  else ∃ b, findLayer d base = some b ∧ cm = b.cmounts ∧ ce = b.cexports

theorem plan_unique (cfg d base configFile fs0) (cm ce cm' ce' : List NeededMount)
    (h : Plan cfg d base configFile fs0 cm ce) (h' : Plan cfg d base configFile fs0 cm' ce') :
    cm = cm' ∧ ce = ce' := by
  unfold Plan at h h'
  by_cases hc : configFile.length > 0 ∨ base.length = 0
  · rw [if_pos hc] at h h'
    obtain ⟨lf, h1, h2, h3⟩ := h
    obtain ⟨lf', h1', h2', h3'⟩ := h'
    rw [h1] at h1'; cases h1'
    exact ⟨h2.trans h2'.symm, h3.trans h3'.symm⟩
  · rw [if_neg hc] at h h'
    obtain ⟨b, h1, h2, h3⟩ := h
    obtain ⟨b', h1', h2', h3'⟩ := h'
    rw [h1] at h1'; cases h1'
    exact ⟨h2.trans h2'.symm, h3.trans h3'.symm⟩

theorem plan_of_file (cfg d base configFile fs0) (lf : LayerFile)
    (hc : (decide (configFile.length > 0) || base.length == 0) = true)
    (h : defaultInfo cfg configFile fs0 = some lf) :
    Plan cfg d base configFile fs0 lf.mounts lf.exports := by
  have hc' : configFile.length > 0 ∨ base.length = 0 := by simpa using hc
  unfold Plan
  rw [if_pos hc']
  exact ⟨lf, h, rfl, rfl⟩

theorem plan_of_parent (cfg d base configFile fs0) (b : Layer)
    (hc : ¬ (decide (configFile.length > 0) || base.length == 0) = true)
    (h : findLayer d base = some b) :
    Plan cfg d base configFile fs0 b.cmounts b.cexports := by
  have hc' : ¬ (configFile.length > 0 ∨ base.length = 0) := by simpa using hc
  unfold Plan
  rw [if_neg hc']
  exact ⟨b, h, rfl, rfl⟩

/-- the layer `add` creates -/
abbrev newLayer (cfg : Config) (name base : Bytes) (cm ce : List NeededMount) : Layer :=
  { name := name, base := base, cmounts := cm, cexports := ce, layerPath := layerPath cfg name }

/-- its layerconfig, the temporary file and the `.bashrc` of a base layer -/
def addCfg (cfg : Config) (name : Bytes) : Bytes := pathJoin [layerPath cfg name, b!"layerconfig"]
def addTmp (cfg : Config) (name : Bytes) : Bytes := addCfg cfg name ++ tmpSuffix
def addBashrc (cfg : Config) (name : Bytes) : Bytes :=
  pathJoin [pathJoin [pathJoin [layerPath cfg name, cfg.buildRoot], b!"root"], b!".bashrc"]

/-- the complete new contents of the new layerconfig -/
def AddNew (cfg : Config) (d : Defs) (name base configFile : Bytes) (fs0 : Fs.Tree) (n : Fs.Node) : Prop :=
  ∃ cm ce, Plan cfg d base configFile fs0 cm ce ∧
    n = .file (render (toLayerFile (newLayer cfg name base cm ce)))

abbrev AddI (cfg : Config) (d : Defs) (name base configFile : Bytes) (w0 : World) : World → Prop :=
  AddInv (addCfg cfg name) (addTmp cfg name) (addBashrc cfg name)
    (AddNew cfg d name base configFile w0.fs) w0

/-- the whole command, every exit -/
theorem addLayer_spec (cfg : Config) (d : Defs) (name base configFile : Bytes) (w0 : World) :
    ⦃fun w => ⌜w = w0⌝⦄ addLayer cfg d name base configFile
    ⦃post⟨fun _ w => ⌜AddI cfg d name base configFile w0 w⌝,
          fun _ w => ⌜AddI cfg d name base configFile w0 w⌝⟩⦄ := by
  have hT := testName_holds (fun w => w = w0) d
  have hR := reorder_holds (AddI cfg d name base configFile w0)
  have hM : ∀ p, Holds (AddI cfg d name base configFile w0) (fsMkdir p) :=
    fun p => holds_of_rel _ _ _ _ _ w0 (fsMkdir_rel _ _ _ _ p)
  have hX : ∀ cm ce c, Holds (AddI cfg d name base configFile w0)
      (fsWriteTextFile (pathJoin [pathJoin [buildPath cfg (newLayer cfg name base cm ce), b!"root"], b!".bashrc"]) c) :=
    fun _ _ c => holds_of_rel _ _ _ _ _ w0 (fsWriteTextFile_rel _ _ _ _ c)
  have hW : ∀ cm ce, Plan cfg d base configFile w0.fs cm ce →
      Holds (AddI cfg d name base configFile w0) (writeLayerFile (newLayer cfg name base cm ce)) :=
    fun cm ce hpl => holds_of_rel _ _ _ _ _ w0
      (writeLayerFile_rel (newLayer cfg name base cm ce) _ _ ⟨cm, ce, hpl, rfl⟩)
  have hI : AddI cfg d name base configFile w0 w0 := addInv_refl _ _ _ _ _
  unfold Holds at *
  mvcgen [addLayer, hT, hR, hM, hX, hW, fail, getDefaultLayerinfo_spec]
  all_goals first
    | (subst_vars; exact hI)
    | (intro h; subst_vars; exact hI)
    | (rename_i h; obtain ⟨rfl, _⟩ := h; subst_vars; exact hI)
    | (subst_vars; exact plan_of_file _ _ _ _ _ _ (by assumption) (And.right (by assumption)))
    | (exact plan_of_parent _ _ _ _ _ _ (by assumption) (by assumption))

/-- the final world of every run -/
theorem addLayer_post (cfg : Config) (d : Defs) (name base configFile : Bytes) (w0 : World) :
    AddI cfg d name base configFile w0 ((addLayer cfg d name base configFile).run.run w0).2 := by
  have h := extractBoth _ w0 _ _ (addLayer_spec cfg d name base configFile w0)
  split at h <;> exact h

open Lc.RunM in
/-- a name that is empty, illegal or in use is refused before anything happens -/
theorem addLayer_rejected (cfg : Config) (d : Defs) (name base cf : Bytes) (w : World)
    (h : testName1 d name NAME_FREE = false) :
    (addLayer cfg d name base cf).run.run w = (.error (.err "name"), w) := by
  unfold addLayer testName fail
  simp only [List.all_cons, h, Bool.false_and, run_bind, run_throw, Bool.false_eq_true, if_false]

open Lc.LayerPaths Lc.ExportPath in
/-- the new layerconfig itself: old, a fresh directory, or the complete new text -/
theorem add_own_layerconfig (cfg : Config) (d : Defs) (name base configFile : Bytes) (w0 : World) :
    let w := ((addLayer cfg d name base configFile).run.run w0).2
    let C := addCfg cfg name
    Fs.get w.fs C = Fs.get w0.fs C ∨ (Fs.get w0.fs C = none ∧ Fs.get w.fs C = some .dir) ∨
    ∃ cm ce, Plan cfg d base configFile w0.fs cm ce ∧
      Fs.get w.fs C = some (.file (render (toLayerFile (newLayer cfg name base cm ce)))) := by
  intro w C
  have h := addLayer_post cfg d name base configFile w0
  have hB : C ≠ addBashrc cfg name :=
    bashrc_ne_layerconfig _ (newLayer cfg name base [] [])
  rcases h.2 C (under_tmp_cfg C) hB (Or.inr rfl) with h1 | h1 | ⟨_, n, ⟨cm, ce, hpl, hn⟩, hg⟩
  · exact Or.inl h1
  · exact Or.inr (Or.inl h1)
  · exact Or.inr (Or.inr ⟨cm, ce, hpl, by rw [hg, hn]⟩)

open Lc.LayerPaths Lc.ExportPath in
/-- the layerconfig of any other layer placed in the layer directory -/
theorem add_other_layerconfig (cfg : Config) (d : Defs) (name base configFile : Bytes) (w0 : World)
    (k : Layer) (hk : Placed cfg k) (hne : k.name ≠ name) :
    let w := ((addLayer cfg d name base configFile).run.run w0).2
    Fs.get w.fs (layerconfigPath k) = Fs.get w0.fs (layerconfigPath k) ∨
    (Fs.get w0.fs (layerconfigPath k) = none ∧ Fs.get w.fs (layerconfigPath k) = some .dir) := by
  intro w
  cases ht : testName1 d name NAME_FREE with
  | false =>
    left
    show Fs.get ((addLayer cfg d name base configFile).run.run w0).2.fs _ = _
    rw [addLayer_rejected cfg d name base configFile w0 ht]
  | true =>
    obtain ⟨hn1, hn2, _⟩ := (free_iff d name).mp ht
    have hcn : CleanName name := legal_clean name hn1 hn2
    have hck := placed_clean cfg k hk
    obtain ⟨D, hD⟩ := layer_paths cfg
    have hpk := (placed_cfg cfg D hD k hk).2
    have hC : addCfg cfg name = D ++ (name ++ 47 :: lcName) := (hD name hcn).2
    have h := addLayer_post cfg d name base configFile w0
    have hv := cfg_vs D k.name name hck hcn
    have hB : layerconfigPath k ≠ addBashrc cfg name := bashrc_ne_layerconfig _ k
    have hT : Fs.under (addTmp cfg name) (layerconfigPath k) = false := by
      unfold addTmp; rw [hC, hpk]; exact hv.1
    have hCc : Fs.under (addCfg cfg name) (layerconfigPath k) = false ∨ layerconfigPath k = addCfg cfg name := by
      rw [hC, hpk]; exact hv.2
    rcases h.2 _ hT hB hCc with h1 | h1 | ⟨he, _⟩
    · exact Or.inl h1
    · exact Or.inr h1
    · rw [hC, hpk] at he
      exact absurd (cfg_inj D _ _ hck hcn he) hne

end Lc.CrashAdd
