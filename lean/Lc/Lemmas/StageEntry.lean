/-
  Helper lemmas about `addSingleFile` / `headerOf` (Lc/Model/StageEntry.lean): what the
  three parts of `addSingleFile` do to each field, and small facts about the bit operators.
-/
import Lc.Model.StageEntry
import Lc.Spec.StageBridge

namespace Lc.Stage
open Lc.Spec.Stage

/-! ### bit operators -/

theorem and_fff (x : Nat) : x &&& 0xfff = x % 4096 := by
  have := Nat.and_two_pow_sub_one_eq_mod x 12
  simpa using this

theorem and_ff (x : Nat) : x &&& 0xff = x % 256 := by
  have := Nat.and_two_pow_sub_one_eq_mod x 8
  simpa using this

theorem or_disjoint (a k : Nat) (i : Nat) (h : a < 2 ^ i) : a ||| k * 2 ^ i = a + k * 2 ^ i := by
  rw [Nat.or_comm, ← Nat.shiftLeft_eq, ← Nat.shiftLeft_add_eq_or_of_lt h, Nat.add_comm]

/-- the permission bits of `(mode & andMask) | orMask` depend only on the permission bits of
    `mode` -/
theorem perm_mod (a b c : Nat) : ((a &&& b) ||| c) % 4096 = (((a % 4096) &&& b) ||| c) % 4096 := by
  rw [← and_fff, ← and_fff, ← and_fff]
  apply Nat.eq_of_testBit_eq
  intro i
  simp only [Nat.testBit_and, Nat.testBit_or]
  cases a.testBit i <;> cases b.testBit i <;> cases c.testBit i <;> cases (0xfff : Nat).testBit i <;> rfl

/-! ### finishKind leaves the common fields alone -/

theorem finishKind_common {st : Option Lstat} {nis : Bool} {info e : Entry}
    (h : finishKind st nis info = .ok (some e)) :
    e.name = info.name ∧ e.ltype = info.ltype ∧ e.uid = info.uid ∧ e.gid = info.gid ∧
    e.orMask = info.orMask ∧ e.unixTime = info.unixTime ∧ e.xattrs = info.xattrs ∧
    e.source = info.source := by
  simp only [finishKind] at h
  repeat' split at h
  all_goals first
    | (cases h; done)
    | (cases h; exact ⟨rfl, rfl, rfl, rfl, rfl, rfl, rfl, rfl⟩)

/-- the fields `headerOf` copies -/
theorem headerOf_common {e : Entry} {h : Header} (hh : headerOf e = .ok h) :
    h.name = 46 :: e.name ∧ h.uid = e.uid ∧ h.gid = e.gid ∧ h.mode = e.orMask ∧
    h.mtime = e.unixTime ∧ h.size = e.fsize ∧
    h.xattrs = e.xattrs.getD [] := by
  simp only [headerOf] at hh
  repeat' split at hh
  all_goals first
    | (cases hh; done)
    | (cases hh; exact ⟨rfl, rfl, rfl, rfl, rfl, rfl, rfl⟩)

/-! ### resolveLtype -/

/-- what a successful `resolveLtype` says: with `tbd` the type of the existing object, otherwise
    the line's type — checked against the object when `needLtypeCheck` and the object exists -/
theorem resolveLtype_spec {st : Option Lstat} {nis : Bool} {info : Entry} {lt : Nat}
    (h : resolveLtype st nis info = .ok (some lt)) :
    (info.ltype = ltNone ∧ ∃ s, st = some s ∧ actualOf s.mode = .ok lt) ∨
    (info.ltype ≠ ltNone ∧ lt = info.ltype ∧
      (needLtypeCheck nis info = true → ∀ s, st = some s → actualOf s.mode = .ok lt)) := by
  unfold resolveLtype at h
  cases st with
  | none =>
    simp only [Option.map_none] at h
    split at h
    · cases h
    · split at h
      · cases h
      · rename_i hne
        cases h
        exact Or.inr ⟨hne, rfl, fun _ s hs => by cases hs⟩
  | some s =>
    simp only [Option.map_some] at h
    cases ha : actualOf s.mode with
    | unknown => rw [ha] at h; cases h
    | deferred =>
      rw [ha] at h
      simp only at h
      split at h
      · cases h
      · rename_i hne
        split at h
        · cases h
        · rename_i hnc
          cases h
          exact Or.inr ⟨hne, rfl, fun hn => absurd hn hnc⟩
    | ok t =>
      rw [ha] at h
      simp only at h
      split at h
      · rename_i h0
        cases h
        exact Or.inl ⟨h0, s, rfl, ha⟩
      · rename_i hne
        split at h
        · split at h
          · cases h
          · rename_i hmis
            cases h
            refine Or.inr ⟨hne, rfl, ?_⟩
            intro _ s' hs'
            cases hs'
            rw [ha]
            have : info.ltype = t := by simpa using hmis
            rw [this]
        · rename_i hnc
          cases h
          exact Or.inr ⟨hne, rfl, fun hn => absurd hn hnc⟩

theorem resolveLtype_none {st : Option Lstat} {nis : Bool} {info : Entry}
    (h : resolveLtype st nis info = .ok none) : info.skipIfAbsent = true := by
  unfold resolveLtype at h
  repeat' split at h
  all_goals first
    | (cases h; done)
    | assumption

theorem finishKind_ne_none {st : Option Lstat} {nis : Bool} {info : Entry} :
    finishKind st nis info ≠ .ok none := by
  intro h
  simp only [finishKind] at h
  repeat' split at h
  all_goals cases h

/-- `addSingleFile` stores nothing only for an absent path with `absent=skip` -/
theorem addSingleFile_none {fs : Bytes → Option Lstat} {root : Bytes} {e0 : Entry}
    (h : addSingleFile fs root e0 = .ok none) : e0.skipIfAbsent = true := by
  unfold addSingleFile at h
  simp only at h
  split at h
  · cases h
  · rename_i hr; exact resolveLtype_none hr
  · exact absurd h finishKind_ne_none

/-- `actualOf` and `kindOfMode` read the same type bits -/
theorem actualOf_kind {mode lt : Nat} (h : actualOf mode = .ok lt) :
    (lt = ltSymlink ∧ mode &&& S_IFMT = S_IFLNK ∧ kindOfMode mode = "l") ∨
    (lt = ltFile ∧ mode &&& S_IFMT = S_IFREG ∧ kindOfMode mode = "f") ∨
    (lt = ltDir ∧ mode &&& S_IFMT = S_IFDIR ∧ kindOfMode mode = "d") ∨
    (lt = ltDevice ∧ mode &&& S_IFMT = S_IFCHR ∧ kindOfMode mode = "c") ∨
    (lt = ltDevice ∧ mode &&& S_IFMT = S_IFBLK ∧ kindOfMode mode = "b") := by
  unfold actualOf at h
  simp only at h
  unfold kindOfMode
  simp only
  generalize mode &&& S_IFMT = t at h ⊢
  split at h
  · cases h
  · split at h
    · rename_i ht; cases h; left; subst ht; decide
    · split at h
      · rename_i ht; cases h; right; left; subst ht; decide
      · split at h
        · rename_i ht
          cases h
          rcases ht with ht | ht
          · right; right; right; right; subst ht; decide
          · right; right; right; left; subst ht; decide
        · split at h
          · rename_i ht; cases h; right; right; left; subst ht; decide
          · split at h <;> cases h

end Lc.Stage
