/-
  `makedirs` (manage/layers.go Makedirs) recreates the missing directories: Hoare triple
  over the command monad (VCs by mvcgen), using the `Fs.mkdirAll` lemmas.  Helper for
  Props/C08.
-/
import Lc.Lemmas.Hoare
import Lc.Lemmas.FsMkdir

namespace Lc.StateProbe
open Std.Do Lc Lc.Layers Lc.Hoare

set_option mvcgen.warning false

/-- the directories `Makedirs` is responsible for: build root, and for a derived layer the
    overlay work and upper directories -/
def neededDirs (cfg : Config) (l : Layer) : List Bytes :=
  [buildPath cfg l] ++ (if l.base.length > 0 then [workPath cfg l, upperPath cfg l] else [])

theorem makedirs_triple (cfg : Config) (d : Defs) (name : Bytes) (l : Layer)
    (hl : findLayer d name = some l) (hs : l.state < S_complete) :
    ⦃fun w => ⌜w.pretend = false⌝⦄ makedirs cfg d name
    ⦃post⟨fun _ w => ⌜∀ q ∈ neededDirs cfg l, Fs.isDir w.fs q = true⌝, fun _ _ => ⌜True⌝⟩⦄ := by
  mvcgen [makedirs, testName, getL, errorIfError, fail, getW, setW, fsMkdir, fsStep, gate, record,
    liftRes]
  case inv1 =>
    exact post⟨fun (c, _) w => ⌜w.pretend = false ∧
      ∀ q ∈ neededDirs cfg l, Fs.isDir w.fs q = true ∨ q ∈ c.suffix⌝, fun _ _ => ⌜True⌝⟩
  all_goals try (simp_all; done)
  · -- one round of the loop: the new directory is there, the earlier ones still are
    rename_i s hinv _ _ _ _ _ _ _ _ fs' hmk
    obtain ⟨hp, hq⟩ := hinv
    refine ⟨hp, ?_⟩
    intro q hqn
    rcases hq q hqn with hdir | hmem
    · exact Or.inl (Fs.mkdirAll_keeps _ _ _ q hmk hdir)
    · rcases List.mem_cons.mp hmem with rfl | hsuf
      · exact Or.inl (Fs.mkdirAll_isDir _ _ _ hmk)
      · exact Or.inr hsuf
  · -- entry of the loop: what is not yet a directory is in the to-do list
    rename_i s hp _ p hp' _ _ _ _ _
    have hpl : p = l := by rw [hl] at hp'; exact (Option.some.inj hp').symm
    subst hpl
    refine ⟨hp, ?_⟩
    intro q hqn
    cases hd : Fs.isDir s.fs q with
    | true => exact Or.inl rfl
    | false =>
      refine Or.inr ?_
      show q ∈ List.filter (fun p => !Fs.isDir s.fs p) _
      rw [List.mem_filter]
      exact ⟨hqn, by simp [hd]⟩

end Lc.StateProbe
