/-
  The reader with bufio.Scanner's 64 KiB token limit (`readLayerFileScanner`) against the
  reader of the command model (`readLayerFile`): helper lemmas for Props/C11.
-/
import Lc.Model.Layerfile

namespace Lc.Lemmas.LayerfileScanner
open Lc Lc.Layerfile Lc.Mountinfo

theorem scanLines_eq_rawLines (text : Bytes) : scanLines text = (rawLines text).map dropCR := by
  unfold scanLines rawLines
  simp only
  generalize splitOn 10 text = parts
  rcases hr : parts.reverse with _ | ⟨a, r⟩
  · rfl
  · cases a <;> rfl

theorem takeWhile_all {α} (p : α → Bool) (l : List α) (h : ∀ a ∈ l, p a = true) : l.takeWhile p = l := by
  induction l with
  | nil => rfl
  | cons x xs ih =>
    simp only [List.takeWhile_cons, h x (by simp), if_true]
    rw [ih (fun a ha => h a (by simp [ha]))]

theorem takeWhile_short {α} (p : α → Bool) (l : List α) (h : ∃ a ∈ l, p a = false) :
    (l.takeWhile p).length < l.length := by
  induction l with
  | nil => obtain ⟨a, ha, _⟩ := h; cases ha
  | cons x xs ih =>
    simp only [List.takeWhile_cons]
    by_cases hx : p x = true
    · simp only [hx, if_true, List.length_cons]
      obtain ⟨a, ha, hpa⟩ := h
      have : a ∈ xs := by
        rcases List.mem_cons.mp ha with rfl | h'
        · rw [hx] at hpa; cases hpa
        · exact h'
      have := ih ⟨a, this, hpa⟩
      omega
    · simp [hx]

end Lc.Lemmas.LayerfileScanner
