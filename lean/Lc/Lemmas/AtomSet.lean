/-
  Helper lemmas for C05: byte-string order is a strict total order; the scan loop of
  AtomSet.Add computes "insert before the first smaller key".  Core Lean only.
-/
import Lc.Model.Resolve

namespace Lc
namespace AtomSetAux

theorem bytesLt_irrefl : ∀ a : Bytes, bytesLt a a = false
  | [] => rfl
  | x :: xs => by simp [bytesLt, bytesLt_irrefl xs]

theorem bytesLt_trans : ∀ a b c : Bytes, bytesLt a b = true → bytesLt b c = true → bytesLt a c = true
  | [], [], _, h, _ => by simp [bytesLt] at h
  | [], _ :: _, [], _, h => by simp [bytesLt] at h
  | [], _ :: _, _ :: _, _, _ => by simp [bytesLt]
  | _ :: _, [], _, h, _ => by simp [bytesLt] at h
  | _ :: _, _ :: _, [], _, h => by simp [bytesLt] at h
  | x :: xs, y :: ys, z :: zs, h1, h2 => by
    unfold bytesLt at h1 h2 ⊢
    by_cases hxy : x < y
    · by_cases hyz : y < z
      · have : x < z := Nat.lt_trans hxy hyz
        simp [this]
      · by_cases hzy : z < y
        · simp [hyz, hzy] at h2
        · have : y = z := by omega
          subst this; simp [hxy]
    · by_cases hyx : y < x
      · simp [hxy, hyx] at h1
      · have hxy' : x = y := by omega
        subst hxy'
        simp only [Nat.lt_irrefl, if_false] at h1
        by_cases hyz : x < z
        · simp [hyz]
        · by_cases hzy : z < x
          · simp [hyz, hzy] at h2
          · have : x = z := by omega
            subst this
            simp only [Nat.lt_irrefl, if_false] at h2 ⊢
            exact bytesLt_trans xs ys zs h1 h2

theorem bytesLt_total : ∀ a b : Bytes, bytesLt a b = false → bytesLt b a = false → a = b
  | [], [], _, _ => rfl
  | [], _ :: _, h, _ => by simp [bytesLt] at h
  | _ :: _, [], _, h => by simp [bytesLt] at h
  | x :: xs, y :: ys, h1, h2 => by
    unfold bytesLt at h1 h2
    by_cases hxy : x < y
    · simp [hxy] at h1
    · by_cases hyx : y < x
      · simp [hyx] at h2
      · have : x = y := by omega
        subst this
        simp only [Nat.lt_irrefl, if_false] at h1 h2
        rw [bytesLt_total xs ys h1 h2]

end AtomSetAux
open AtomSetAux

namespace Resolve

/-- index of the first entry whose key is smaller than `key` -/
def firstLt (key : Bytes) : List Pkg → Option Nat
  | [] => none
  | x :: xs => if bytesLt x.slot key then some 0 else (firstLt key xs).map (· + 1)

/-- insert before the first entry with a smaller key (what a descending insertion does) -/
def insDesc (e : Pkg) : List Pkg → List Pkg
  | [] => [e]
  | x :: xs => if bytesLt x.slot e.slot then e :: x :: xs else x :: insDesc e xs

theorem scanPos_some (key : Bytes) (l : List Pkg) (i j : Nat)
    (hnd : ∀ x ∈ l, (x.slot == key) = false) : scanPos key l i (some j) = some (some j) := by
  induction l generalizing i with
  | nil => rfl
  | cons x xs ih =>
    unfold scanPos
    simp only [hnd x (List.mem_cons_self ..), Bool.false_eq_true, if_false, Option.isNone_some,
      Bool.and_false]
    exact ih (i + 1) (fun y hy => hnd y (List.mem_cons_of_mem _ hy))

theorem scanPos_none (key : Bytes) (l : List Pkg) (i : Nat)
    (hnd : ∀ x ∈ l, (x.slot == key) = false) :
    scanPos key l i none = some ((firstLt key l).map (· + i)) := by
  induction l generalizing i with
  | nil => rfl
  | cons x xs ih =>
    have hnd' : ∀ y ∈ xs, (y.slot == key) = false := fun y hy => hnd y (List.mem_cons_of_mem _ hy)
    unfold scanPos firstLt
    simp only [hnd x (List.mem_cons_self ..), Bool.false_eq_true, if_false, Option.isNone_none,
      Bool.and_true]
    by_cases hlt : bytesLt x.slot key = true
    · simp only [hlt, if_true, Option.map_some, Nat.zero_add]
      exact scanPos_some key xs (i + 1) i hnd'
    · simp only [hlt, Bool.false_eq_true, if_false]
      rw [ih (i + 1) hnd']
      cases firstLt key xs with
      | none => rfl
      | some k => simp only [Option.map_some]; congr 2; omega

theorem scanPos_dup (key : Bytes) (l : List Pkg) (i : Nat) (pos : Option Nat)
    (hd : ∃ x ∈ l, (x.slot == key) = true) : scanPos key l i pos = none := by
  induction l generalizing i pos with
  | nil => obtain ⟨x, hx, _⟩ := hd; cases hx
  | cons y ys ih =>
    unfold scanPos
    by_cases hy : (y.slot == key) = true
    · simp [hy]
    · simp only [hy, Bool.false_eq_true, if_false]
      obtain ⟨x, hx, hxk⟩ := hd
      rcases List.mem_cons.mp hx with rfl | hx'
      · exact absurd hxk hy
      · exact ih _ _ ⟨x, hx', hxk⟩

theorem placeAt_firstLt (e : Pkg) (l : List Pkg) :
    placeAt l e (firstLt e.slot l) = insDesc e l := by
  induction l with
  | nil => rfl
  | cons x xs ih =>
    unfold firstLt insDesc
    by_cases hlt : bytesLt x.slot e.slot = true
    · simp [hlt, placeAt]
    · simp only [hlt, Bool.false_eq_true, if_false]
      rw [← ih]
      cases firstLt e.slot xs with
      | none => simp [placeAt]
      | some k => simp [placeAt]

/-- the loop of `AtomSet.Add` (after the fix) on a slice without the new key -/
theorem addSlice_eq_insDesc (l : List Pkg) (e : Pkg) (hnd : ∀ x ∈ l, (x.slot == e.slot) = false) :
    addSlice l e = insDesc e l := by
  unfold addSlice
  rw [scanPos_none e.slot l 0 hnd]
  simp only [Nat.add_zero]
  have : (firstLt e.slot l).map (fun x => x) = firstLt e.slot l := by cases firstLt e.slot l <;> rfl
  simp only [this]
  exact placeAt_firstLt e l

theorem addSlice_dup (l : List Pkg) (e : Pkg) (hd : ∃ x ∈ l, (x.slot == e.slot) = true) :
    addSlice l e = l := by
  unfold addSlice
  rw [scanPos_dup e.slot l 0 none hd]

theorem mem_insDesc (e : Pkg) (l : List Pkg) (y : Pkg) : y ∈ insDesc e l ↔ y = e ∨ y ∈ l := by
  induction l with
  | nil => simp [insDesc]
  | cons x xs ih =>
    unfold insDesc
    split
    · simp
    · simp only [List.mem_cons, ih]
      constructor
      · rintro (h | h | h)
        · exact Or.inr (Or.inl h)
        · exact Or.inl h
        · exact Or.inr (Or.inr h)
      · rintro (h | h | h)
        · exact Or.inr (Or.inl h)
        · exact Or.inl h
        · exact Or.inr (Or.inr h)

/-- strictly descending by slot key -/
def Desc (l : List Pkg) : Prop := l.Pairwise fun a b => bytesLt b.slot a.slot = true

theorem insDesc_desc (e : Pkg) (l : List Pkg) (hd : Desc l)
    (hnd : ∀ x ∈ l, (x.slot == e.slot) = false) : Desc (insDesc e l) := by
  induction l with
  | nil => simp [insDesc, Desc]
  | cons x xs ih =>
    have hd' : Desc xs := (List.pairwise_cons.mp hd).2
    have hx : ∀ y ∈ xs, bytesLt y.slot x.slot = true := (List.pairwise_cons.mp hd).1
    unfold insDesc
    by_cases hlt : bytesLt x.slot e.slot = true
    · simp only [hlt, if_true]
      refine List.pairwise_cons.mpr ⟨?_, hd⟩
      intro y hy
      rcases List.mem_cons.mp hy with rfl | hy'
      · exact hlt
      · exact bytesLt_trans _ _ _ (hx y hy') hlt
    · simp only [hlt, Bool.false_eq_true, if_false]
      refine List.pairwise_cons.mpr ⟨?_, ih hd' (fun y hy => hnd y (List.mem_cons_of_mem _ hy))⟩
      intro y hy
      rcases (mem_insDesc e xs y).mp hy with rfl | hy'
      · have hne : (x.slot == y.slot) = false := hnd x (List.mem_cons_self ..)
        cases hc : bytesLt y.slot x.slot with
        | true => rfl
        | false =>
          have := bytesLt_total x.slot y.slot (by simpa using hlt) hc
          simp [this] at hne
      · exact hx y hy'

end Resolve
end Lc
