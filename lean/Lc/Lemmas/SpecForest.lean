/-
  Correspondence between the model's table of layers (`Defs.layers`, as `FindLayers` builds
  it) and the forest the specification reads from the disk (`Spec.World.diskLayers`):
  `ForestCorr`, proved of `readLayerFiles`; from it the agreement of `$$base` on both sides
  (`root_agree`) and the parent's paths.  Helper lemmas for Props/C08 section 8.
-/
import Lc.Lemmas.StateSpec

namespace Lc.StateProbe
open Lc Lc.Layers Lc.Mountinfo Lc.Layerfile Lc.Spec.World

/-- every record of the model's table is the model's record (`Corr`) of the disk layer the
    specification finds under the same name; both tables have the same number of entries
    (the fuel of the two chain walks) -/
structure ForestCorr (i : Inst) (ls : List DLayer) (d : Defs) : Prop where
  len : d.layers.length = ls.length
  find : ∀ n l, findLayer d n = some l → ∃ dl, findD ls n = some dl ∧ Corr i dl l

theorem findD_name (ls : List DLayer) (n : Bytes) (dl : DLayer) (h : findD ls n = some dl) :
    dl.name = n := by
  unfold findD at h
  have := List.find?_some h
  simpa using this

/-- walking up to the root of the chain: the model's walk, when it ends, ends at the layer
    the specification's ancestor list ends with -/
theorem root_agree_aux (i : Inst) (ls : List DLayer) (d : Defs) (hf : ForestCorr i ls d) :
    ∀ (f : Nat) (l r : Layer) (dl : DLayer), Corr i dl l → findD ls dl.name = some dl →
      findLayerBase d f l = some r →
      ((ancestorsOf ls f dl.name).getLast?).getD dl.name = r.name ∧ r.layerPath = layerDir i r.name := by
  intro f
  induction f with
  | zero =>
    intro l r dl _ _ h
    simp [findLayerBase] at h
  | succ f ih =>
    intro l r dl hc hd h
    unfold findLayerBase at h
    unfold ancestorsOf
    rw [hd]
    simp only []
    by_cases hb : l.base.length > 0
    · simp only [hb, ↓reduceIte] at h
      have hne : dl.file.base.isEmpty = false := by
        rw [← hc.base]
        cases hx : l.base with
        | nil => rw [hx] at hb; simp at hb
        | cons a as => rfl
      simp only [hne, Bool.false_eq_true, ↓reduceIte]
      cases hp : findLayer d l.base with
      | none => rw [hp] at h; cases h
      | some p =>
        rw [hp] at h
        simp only [] at h
        obtain ⟨dlp, hdp, hcp⟩ := hf.find _ _ hp
        have hnm : dlp.name = dl.file.base := (findD_name ls _ dlp hdp).trans hc.base
        have hdp' : findD ls dlp.name = some dlp := by rw [hnm, ← hc.base]; exact hdp
        obtain ⟨h1, h2⟩ := ih p r dlp hcp hdp' h
        refine ⟨?_, h2⟩
        rw [List.getLast?_cons]
        simp only [Option.getD_some]
        rw [← hnm]
        exact h1
    · simp only [hb, ↓reduceIte, Option.some.injEq] at h
      subst h
      have he : dl.file.base.isEmpty = true := by
        rw [← hc.base]
        cases hx : l.base with
        | nil => rfl
        | cons a as => rw [hx] at hb; simp at hb
      simp only [he, ↓reduceIte, List.getLast?_nil, Option.getD_none]
      exact ⟨hc.name.symm, by rw [hc.layerPath, hc.name]⟩

/-- **`$$base` names the same directory on both sides**: under the forest correspondence,
    whenever the model's walk to the root of the chain ends (no cycle, no missing parent),
    the directory it finds is the one the classification resolves `$$base` to -/
theorem root_agree (i : Inst) (ls : List DLayer) (d : Defs) (hf : ForestCorr i ls d)
    (l : Layer) (dl : DLayer) (hc : Corr i dl l) (hd : findD ls dl.name = some dl)
    (hsome : (findLayerBase d (d.layers.length + 1) l).isSome = true) :
    (findLayerBase d (d.layers.length + 1) l).map (·.layerPath)
      = some (layerDir i (rootOf ls dl.name)) := by
  cases hr : findLayerBase d (d.layers.length + 1) l with
  | none => rw [hr] at hsome; cases hsome
  | some r =>
    obtain ⟨h1, h2⟩ := root_agree_aux i ls d hf _ l r dl hc hd hr
    unfold rootOf
    rw [← hf.len, h1]
    simp [h2]

/-- the parent's record is the parent's disk layer -/
theorem parent_path (i : Inst) (ls : List DLayer) (d : Defs) (hf : ForestCorr i ls d)
    (l bl : Layer) (dl : DLayer) (hc : Corr i dl l) (hbl : findLayer d l.base = some bl) :
    bl.layerPath = layerDir i dl.file.base := by
  obtain ⟨dlp, hdp, hcp⟩ := hf.find _ _ hbl
  rw [hcp.layerPath, findD_name ls _ dlp hdp, hc.base]

/-- a decidable sufficient condition: same length, and every record of the table is the
    record of the disk layer found under its name -/
def forestCorrB (i : Inst) (ls : List DLayer) (d : Defs) : Bool :=
  decide (d.layers.length = ls.length) &&
  d.layers.all fun l => match findD ls l.name with
    | some dl => decide (Corr i dl l)
    | none => false

theorem forestCorr_of_list (i : Inst) (ls : List DLayer) (d : Defs) (h : forestCorrB i ls d = true) :
    ForestCorr i ls d := by
  unfold forestCorrB at h
  simp only [Bool.and_eq_true, decide_eq_true_eq, List.all_eq_true] at h
  refine ⟨h.1, ?_⟩
  intro n l hl
  have hmem : l ∈ d.layers := List.mem_of_find?_eq_some hl
  have hname : l.name = n := by
    have := List.find?_some hl
    simpa using this
  have := h.2 l hmem
  rw [hname] at this
  cases hf : findD ls n with
  | none => rw [hf] at this; cases this
  | some dl =>
    rw [hf] at this
    exact ⟨dl, rfl, by simpa using this⟩

/-! ### `FindLayers` builds a corresponding table -/

theorem forestCorr_read (i : Inst) (names : List Bytes) (order : List Bytes) (m : Mounts) :
    let ls := names.filterMap fun n =>
      if !isLegalLayerName n then none else
      match Fs.readFile i.fs (pathJoin [layerDir i n, b!"layerconfig"]) with
      | some c => some (⟨n, readLayerFile c⟩ : DLayer)
      | none => none
    ForestCorr i ls { layers := readLayerFiles i.cfg i.fs names, order := order, mounts := m } := by
  intro ls
  constructor
  · show (readLayerFiles i.cfg i.fs names).length = ls.length
    unfold readLayerFiles
    induction names with
    | nil => rfl
    | cons n ns ih =>
      simp only [ls, List.filterMap_cons]
      by_cases hl : isLegalLayerName n = true
      · simp only [hl, Bool.not_true, Bool.false_eq_true, ↓reduceIte]
        have hp : pathJoin [layerPath i.cfg n, b!"layerconfig"] = pathJoin [layerDir i n, b!"layerconfig"] := rfl
        rw [hp]
        cases Fs.readFile i.fs (pathJoin [layerDir i n, b!"layerconfig"]) with
        | none => exact ih
        | some c => simp only [List.length_cons]; rw [ih]
      · simp only [hl, Bool.not_false, ↓reduceIte]
        exact ih
  · intro n l hl
    unfold findLayer at hl
    simp only [] at hl
    unfold findD
    unfold readLayerFiles at hl
    induction names with
    | nil => simp at hl
    | cons x xs ih =>
      simp only [ls, List.filterMap_cons] at hl ⊢
      by_cases hlg : isLegalLayerName x = true
      · simp only [hlg, Bool.not_true, Bool.false_eq_true, ↓reduceIte] at hl ⊢
        have hp : pathJoin [layerPath i.cfg x, b!"layerconfig"] = pathJoin [layerDir i x, b!"layerconfig"] := rfl
        rw [hp] at hl
        cases hr : Fs.readFile i.fs (pathJoin [layerDir i x, b!"layerconfig"]) with
        | none =>
          rw [hr] at hl
          exact ih hl
        | some c =>
          rw [hr] at hl
          simp only [List.find?_cons] at hl ⊢
          have hnm : (layerOfFile i.cfg x (readLayerFile c)).name = x := rfl
          rw [hnm] at hl
          by_cases hx : (x == n) = true
          · simp only [hx] at hl ⊢
            cases hl
            exact ⟨_, rfl, ⟨rfl, rfl, rfl, rfl, rfl⟩⟩
          · simp only [hx] at hl ⊢
            exact ih hl
      · simp only [hlg, Bool.not_false, ↓reduceIte] at hl ⊢
        exact ih hl

/-- the table `FindLayers` reads from the tree of an installation corresponds to the forest
    the specification reads from the same tree -/
theorem forestCorr_diskLayers (i : Inst) (order : List Bytes) (m : Mounts) :
    ForestCorr i (diskLayers i)
      { layers := readLayerFiles i.cfg i.fs (Fs.children i.fs i.cfg.layerdirs), order := order, mounts := m } :=
  forestCorr_read i (Fs.children i.fs i.cfg.layerdirs) order m

end Lc.StateProbe
