/-
  `mountCmd` = mount phase (name test, chain, makedirs of the chain, mountOne of the chain)
  followed by the link pass over the chain (fix d8f34a4).  Helper lemmas for Props/C16:
  * the mount phase returns the base chain and a `Defs` in which every layer has the name and
    directory it had (`SamePaths`); it only ever ADDS directories to the tree (`Grow`),
  * the link pass, layer by layer: only directories and links of the chain's export pairs are
    added, and after a normal non-pretend return every automatic export entry of every chain
    layer whose source existed when the pass began is a symbolic link.
-/
import Lc.Lemmas.MountTrace
import Lc.Lemmas.ExportLinks
import Lc.Lemmas.Probe
import Lc.Lemmas.StateProbeAll

namespace Lc.MountLinks
open Std.Do Lc Lc.Layers Lc.Hoare Lc.ExportFs Lc.ExportLinks Lc.MountTrace Lc.Trace

set_option mvcgen.warning false

/-! ### the two phases -/

/-- everything `mountCmd` does before the link pass; returns the chain and the `Defs` after mounting -/
def mountPhase (cfg : Config) (d : Defs) (name : Bytes) : M (List Layer × Defs) := do
  testName d [(name, NAME_NEED)]
  let l ← getL d name
  errorIfError l
  let chain ← ancestorsAndSelf d (d.layers.length + 1) name []
  let d ← mkChainDirs cfg chain d
  let d ← mountChain cfg chain d
  pure (chain, d)

theorem mountCmd_phases (cfg : Config) (d : Defs) (name : Bytes) :
    mountCmd cfg d name = (do
      let r ← mountPhase cfg d name
      linkChain cfg r.2 r.1
      pure r.2) := by
  rw [mountCmd_eq]
  simp only [mountPhase, bind_assoc, pure_bind]

/-! ### generic facts -/

/-- the trivial invariant holds of every program -/
theorem holds_true {α} (m : M α) : Holds (fun _ => True) m :=
  triple_of_run m _ _ _ (fun w _ => by
    generalize m.run.run w = r
    obtain ⟨x, w'⟩ := r
    cases x <;> trivial)

/-- functions that never write the world keep every invariant -/
theorem testName_holds (I : World → Prop) (d ts) : Holds I (testName d ts) := by
  unfold Holds testName
  split <;> mvcgen [fail]
theorem getL_holds (I : World → Prop) (d n) : Holds I (getL d n) := by
  unfold Holds getL
  split <;> mvcgen
theorem errorIfError_holds (I : World → Prop) (l) : Holds I (errorIfError l) := by
  unfold Holds errorIfError
  split <;> mvcgen [fail]
theorem fExists_holds (I : World → Prop) (p) : Holds I (fExists p) := by
  unfold Holds; mvcgen [fExists, getW]
theorem refreshMountInfo_holds (I : World → Prop) (cfg d) : Holds I (refreshMountInfo cfg d) := by
  have h1 : ∀ {α} (r : Res α), Holds I (liftRes r) := fun r => liftRes_holds I r
  unfold Holds at *
  mvcgen [refreshMountInfo, getW, h1]
theorem ancestorsAndSelf_holds (I : World → Prop) (d fuel n acc) : Holds I (ancestorsAndSelf d fuel n acc) := by
  induction fuel generalizing n acc with
  | zero => unfold Holds ancestorsAndSelf; mvcgen
  | succ k ih =>
    have h := getL_holds I
    unfold Holds at *
    unfold ancestorsAndSelf
    mvcgen [h, ih]

/-! ### the mount phase only adds directories -/

/-- same pretend switch; relative to the tree `fs0` only directories were added -/
def Grow (pr : Bool) (fs0 : Fs.Tree) (w : World) : Prop := w.pretend = pr ∧ Added [] fs0 w.fs

theorem fsMkdir_grow (pr fs0 p) : Holds (Grow pr fs0) (fsMkdir p) := by
  have h := fsMkdir_added [] fs0 pr [] p
  unfold Holds
  mvcgen [h]
  all_goals simp_all [Grow]

theorem fsMount_grow (pr fs0 s t f o) : Holds (Grow pr fs0) (fsMount s t f o) := by
  unfold Holds
  mvcgen [fsMount, gate, sysMount, record, getW, setW, fail]
  all_goals (try intros)
  all_goals simp_all (config := { zetaDelta := true }) [Grow]

macro "grow_fill" pr:term "," fs0:term : tactic =>
  `(tactic| all_goals (first
      | (exact post⟨fun _ w => ⌜Grow $pr $fs0 w⌝, fun _ w => ⌜Grow $pr $fs0 w⌝⟩)
      | skip))

theorem makedirs_grow (pr fs0 cfg d n) : Holds (Grow pr fs0) (makedirs cfg d n) := by
  have h1 := testName_holds (Grow pr fs0); have h2 := getL_holds (Grow pr fs0)
  have h3 := errorIfError_holds (Grow pr fs0); have h4 := fsMkdir_grow pr fs0
  have h5 : ∀ {α} (r : Res α), Holds (Grow pr fs0) (liftRes r) := fun r => liftRes_holds _ r
  unfold Holds at *
  mvcgen [makedirs, h1, h2, h3, h4, h5, getW]
  grow_fill pr, fs0
  all_goals (try intros) <;> simp_all

theorem mountOne_grow (pr fs0 cfg d n) : Holds (Grow pr fs0) (mountOne cfg d n) := by
  have h2 := getL_holds (Grow pr fs0); have h4 := fsMkdir_grow pr fs0
  have h5 : ∀ {α} (r : Res α), Holds (Grow pr fs0) (liftRes r) := fun r => liftRes_holds _ r
  have h6 := fsMount_grow pr fs0; have h7 := fExists_holds (Grow pr fs0)
  have h8 := refreshMountInfo_holds (Grow pr fs0)
  unfold Holds at *
  mvcgen [mountOne, h2, fail, h6, h5, h7, h4, h8, getW]
  grow_fill pr, fs0
  all_goals (try intros) <;> simp_all

theorem mountPhase_grow (pr fs0 cfg d name) : Holds (Grow pr fs0) (mountPhase cfg d name) := by
  have h1 := testName_holds (Grow pr fs0); have h2 := getL_holds (Grow pr fs0)
  have h3 := errorIfError_holds (Grow pr fs0); have h4 := ancestorsAndSelf_holds (Grow pr fs0)
  have h5 : ∀ chain d, Holds (Grow pr fs0) (mkChainDirs cfg chain d) :=
    fun chain d => foldlM_holds _ chain _ d (fun b x => makedirs_grow pr fs0 cfg b x.name)
  have h6 : ∀ chain d, Holds (Grow pr fs0) (mountChain cfg chain d) :=
    fun chain d => foldlM_holds _ chain _ d (fun b x => mountOne_grow pr fs0 cfg b x.name)
  unfold Holds at *
  mvcgen [mountPhase, h1, h2, h3, h4, h5, h6]

/-! ### names and directories of the layers survive the mount phase -/

/-- every layer of `d'` is, by name, directory and export directives, a layer of `d` -/
def SamePaths (d d' : Defs) : Prop :=
  ∀ n l', findLayer d' n = some l' → ∃ l, findLayer d n = some l ∧ l'.name = l.name ∧
    l'.layerPath = l.layerPath ∧ l'.cexports = l.cexports

theorem SamePaths.refl (d : Defs) : SamePaths d d := fun _ l' h => ⟨l', h, rfl, rfl, rfl⟩

theorem SamePaths.trans {a b c : Defs} (h1 : SamePaths a b) (h2 : SamePaths b c) : SamePaths a c := by
  intro n l' h
  obtain ⟨l, hl, e1, e2, e3⟩ := h2 n l' h
  obtain ⟨l0, hl0, f1, f2, f3⟩ := h1 n l hl
  exact ⟨l0, hl0, e1.trans f1, e2.trans f2, e3.trans f3⟩

theorem setLayer_samePaths (d : Defs) (n : Bytes) (l l' : Layer) (hl : findLayer d n = some l)
    (hn : l'.name = l.name) (hp : l'.layerPath = l.layerPath) (hx : l'.cexports = l.cexports) :
    SamePaths d (setLayer d l') := by
  have hln : l.name = n := Probe.findLayer_name hl
  intro m k hk
  by_cases hm : m = l'.name
  · subst hm
    have : findLayer (setLayer d l') l'.name = some l' :=
      Forest.find?_setLayer_self d l l' l'.name (by rw [hn, hln]; exact hl) rfl
    rw [this] at hk
    cases hk
    exact ⟨l, by rw [hn, hln]; exact hl, hn, hp, hx⟩
  · have : findLayer (setLayer d l') m = findLayer d m := Forest.find?_setLayer_other d l' m hm
    rw [this] at hk
    exact ⟨k, hk, rfl, rfl, rfl⟩

theorem overlain_samePaths (d : Defs) (m : Mountinfo.Mounts) (f : Layer → Bool) :
    SamePaths d { d with mounts := m, layers := d.layers.map fun l => { l with overlain := f l } } := by
  intro n k hk
  unfold findLayer at hk ⊢
  simp only at hk
  rw [List.find?_map] at hk
  have hc : ((fun x : Layer => x.name == n) ∘ fun (l : Layer) => { l with overlain := f l }) =
      fun x => x.name == n := by funext x; rfl
  rw [hc] at hk
  cases hf : d.layers.find? (fun x => x.name == n) with
  | none => rw [hf] at hk; cases hk
  | some l0 =>
    rw [hf] at hk
    cases hk
    exact ⟨l0, rfl, rfl, rfl, rfl⟩

/-- value specifications (any world) -/
abbrev Val {α} (m : M α) (Q : α → Prop) : Prop := HoldsOk (fun _ => True) (fun a _ => Q a) m

theorem getL_val (d n) : Val (getL d n) (fun l => findLayer d n = some l) := by
  unfold Val HoldsOk getL
  split <;> mvcgen
  all_goals simp_all

theorem liftRes_val {α} (r : Res α) : Val (liftRes r) (fun a => r = .ok a) := by
  unfold Val HoldsOk liftRes
  split <;> mvcgen

theorem refreshMountInfo_val (cfg d) : Val (refreshMountInfo cfg d) (fun d' => SamePaths d d') := by
  have h := @liftRes_val
  unfold Val HoldsOk at *
  mvcgen [refreshMountInfo, getW, h]
  all_goals (try intros)
  all_goals exact overlain_samePaths _ _ _

theorem findLayerstate_paths {cfg fs d l l'} (h : findLayerstate cfg fs d l = .ok l') :
    l'.name = l.name ∧ l'.layerPath = l.layerPath ∧ l'.cexports = l.cexports := by
  obtain ⟨s, rfl, _⟩ := StateProbe.findLayerstate_shape cfg fs d l l' h
  exact ⟨rfl, rfl, rfl⟩

theorem makedirs_val (cfg d n) : Val (makedirs cfg d n) (fun d' => SamePaths d d') := by
  have h1 := holds_true (testName d [(n, NAME_NEED)])
  have h2 := getL_val d n
  have h3 := fun l => holds_true (errorIfError l)
  have h4 := fun p => holds_true (fsMkdir p)
  have h5 := @liftRes_val
  unfold Val HoldsOk Holds at *
  mvcgen [makedirs, h1, h2, h3, h4, h5, getW]
  all_goals (first
      | (exact post⟨fun _ _ => ⌜True⌝, fun _ _ => ⌜True⌝⟩)
      | skip)
  all_goals (try intros)
  all_goals (try trivial)
  · have hr := ‹findLayerstate _ _ _ _ = Except.ok _›
    have hl := ‹findLayer d n = some _›
    obtain ⟨e1, e2, e3⟩ := findLayerstate_paths hr
    exact setLayer_samePaths d n _ _ hl e1 e2 e3
  · exact SamePaths.refl d

theorem mountOne'_val (cfg d n) : Val (mountOne' cfg d n) (fun d' => SamePaths d d') := by
  have h2 := fun d => getL_val d n
  have h3 := fun l => holds_true (mountOverlay cfg d l)
  have h4 := fun ex => holds_true (mountItems cfg d ex)
  have h5 := @liftRes_val
  have h6 := refreshMountInfo_val cfg d
  unfold Val HoldsOk Holds at *
  mvcgen [mountOne', h2, fail, h3, h4, h5, h6, getW]
  all_goals (try intros)
  all_goals (try trivial)
  have hr := ‹findLayerstate _ _ _ _ = Except.ok _›
  have hsp := ‹SamePaths d _›
  obtain ⟨e1, e2, e3⟩ := findLayerstate_paths hr
  exact hsp.trans (setLayer_samePaths _ n _ _ (by assumption) e1 e2 e3)

theorem val_iff {α} (m : M α) (Q : α → Prop) : Val m Q ↔ ∀ w a, (m.run.run w).1 = .ok a → Q a := by
  constructor
  · intro h w a hr
    exact extractOk _ _ m h w trivial a hr
  · intro h
    exact triple_of_run m _ _ _ (fun w _ => by
      have := h w
      generalize m.run.run w = r at this
      obtain ⟨x, w'⟩ := r
      cases x with
      | ok a => exact this a rfl
      | error e => trivial)

theorem foldlM_val {σ ι} (R : σ → σ → Prop) (hrefl : ∀ a, R a a) (htrans : ∀ a b c, R a b → R b c → R a c)
    (body : σ → ι → M σ) (h : ∀ b x, Val (body b x) (fun b' => R b b')) (xs : List ι) (init : σ) :
    Val (xs.foldlM body init) (fun b' => R init b') := by
  rw [val_iff]
  induction xs generalizing init with
  | nil =>
    intro w a hr
    have : (([] : List ι).foldlM body init).run.run w = (.ok init, w) := rfl
    rw [this] at hr
    cases hr
    exact hrefl init
  | cons x xs ih =>
    intro w a hr
    rw [run_foldlM_cons] at hr
    have hx := (val_iff _ _).mp (h init x) w
    generalize (body init x).run.run w = r at hx hr
    obtain ⟨y, w1⟩ := r
    cases y with
    | error e => cases hr
    | ok b => exact htrans _ _ _ (hx b rfl) (ih b w1 a hr)

theorem ancestorsAndSelf_val (d : Defs) (fuel : Nat) (n : Bytes) (acc : List Layer) :
    Val (ancestorsAndSelf d fuel n acc) (fun r => ∃ c, r = c ++ acc ∧ BaseChain d c n) := by
  induction fuel generalizing n acc with
  | zero => unfold Val HoldsOk ancestorsAndSelf; mvcgen
  | succ k ih =>
    have h2 := getL_val d n
    unfold Val HoldsOk at *
    unfold ancestorsAndSelf
    mvcgen [h2, ih]
    all_goals (try intros)
    case vc1 =>
      exact ⟨[], rfl, BaseChain.nil (by simpa using ‹(n.length == 0) = true›)⟩
    case vc2 =>
      obtain ⟨c, hc, hb⟩ := ‹∃ c, _ ∧ BaseChain d c _›
      have hl := ‹findLayer d n = some _›
      exact ⟨c ++ [_], by simp [hc], BaseChain.snoc hl (by simpa using ‹¬(n.length == 0) = true›) hb⟩

theorem mkChainDirs_val (cfg : Config) (chain : List Layer) (d : Defs) :
    Val (mkChainDirs cfg chain d) (fun d' => SamePaths d d') := by
  unfold mkChainDirs
  exact foldlM_val SamePaths SamePaths.refl (fun _ _ _ => SamePaths.trans)
    (fun (d : Defs) (a : Layer) => makedirs cfg d a.name)
    (fun b x => makedirs_val cfg b x.name) chain d

theorem mountChain_val (cfg : Config) (chain : List Layer) (d : Defs) :
    Val (mountChain cfg chain d) (fun d' => SamePaths d d') := by
  unfold mountChain
  exact foldlM_val SamePaths SamePaths.refl (fun _ _ _ => SamePaths.trans)
    (fun (d : Defs) (a : Layer) => mountOne cfg d a.name)
    (fun b x => by rw [mountOne_eq]; exact mountOne'_val cfg b x.name) chain d

theorem mountPhase_val (cfg d name) :
    Val (mountPhase cfg d name) (fun r => BaseChain d r.1 name ∧ SamePaths d r.2) := by
  rw [val_iff]
  intro w a hr
  unfold mountPhase at hr
  rw [run_bind] at hr
  generalize (testName d [(name, NAME_NEED)]).run.run w = r1 at hr
  obtain ⟨x1, w1⟩ := r1
  cases x1 with
  | error e => cases hr
  | ok u1 =>
  simp only at hr
  rw [run_bind] at hr
  generalize (getL d name).run.run w1 = r2 at hr
  obtain ⟨x2, w2⟩ := r2
  cases x2 with
  | error e => cases hr
  | ok l =>
  simp only at hr
  rw [run_bind] at hr
  generalize (errorIfError l).run.run w2 = r3 at hr
  obtain ⟨x3, w3⟩ := r3
  cases x3 with
  | error e => cases hr
  | ok u3 =>
  simp only at hr
  rw [run_bind] at hr
  have h4 := (val_iff _ _).mp (ancestorsAndSelf_val d (d.layers.length + 1) name []) w3
  generalize (ancestorsAndSelf d (d.layers.length + 1) name []).run.run w3 = r4 at hr h4
  obtain ⟨x4, w4⟩ := r4
  cases x4 with
  | error e => cases hr
  | ok chain =>
  simp only at hr
  rw [run_bind] at hr
  have h5 := (val_iff _ _).mp (mkChainDirs_val cfg chain d) w4
  generalize (mkChainDirs cfg chain d).run.run w4 = r5 at hr h5
  obtain ⟨x5, w5⟩ := r5
  cases x5 with
  | error e => cases hr
  | ok d1 =>
  simp only at hr
  rw [run_bind] at hr
  have h6 := (val_iff _ _).mp (mountChain_val cfg chain d1) w5
  generalize (mountChain cfg chain d1).run.run w5 = r6 at hr h6
  obtain ⟨x6, w6⟩ := r6
  cases x6 with
  | error e => cases hr
  | ok d2 =>
  simp only at hr
  have : (Except.ok (chain, d2) : Except Fault (List Layer × Defs)) = .ok a := hr
  cases this
  obtain ⟨c, hc1, hc2⟩ := h4 chain rfl
  rw [List.append_nil] at hc1
  subst hc1
  exact ⟨hc2, (h5 d1 rfl).trans (h6 d2 rfl)⟩

/-- every layer of a base chain is found under its own name -/
theorem BaseChain.mem_find {d : Defs} {c : List Layer} {n : Bytes} (h : BaseChain d c n) :
    ∀ a ∈ c, findLayer d a.name = some a := by
  induction h with
  | nil _ => intro a ha; cases ha
  | @snoc c l n hl _ _ ih =>
    intro a ha
    rcases List.mem_append.mp ha with ha | ha
    · exact ih a ha
    · have : a = l := by simpa using ha
      subst this
      rw [Probe.findLayer_name hl]
      exact hl

/-- the base chain of a name is unique -/
theorem BaseChain.unique {d : Defs} {c c' : List Layer} {n : Bytes} (h : BaseChain d c n)
    (h' : BaseChain d c' n) : c = c' := by
  induction h generalizing c' with
  | nil hn =>
    cases h' with
    | nil _ => rfl
    | snoc _ hne _ => exact absurd hn hne
  | snoc hl hne _ ih =>
    cases h' with
    | nil hn => exact absurd hn hne
    | snoc hl' _ hb' =>
      rw [hl] at hl'
      cases hl'
      rw [ih hb']

/-- the export pairs of a layer depend on its name, directory and export directives only -/
theorem exportPairs_congr (cfg : Config) (a k : Layer) (hn : k.name = a.name)
    (hp : k.layerPath = a.layerPath) (hx : k.cexports = a.cexports) :
    autoExportPaths cfg k = autoExportPaths cfg a ∧ exportPairs cfg k = exportPairs cfg a := by
  have h1 : autoExportPaths cfg k = autoExportPaths cfg a := by
    unfold autoExportPaths; rw [hn, hp]
  have h2 : expandConfigExports cfg k = expandConfigExports cfg a := by
    unfold expandConfigExports; rw [hn, hp, hx]
  refine ⟨h1, ?_⟩
  unfold exportPairs explicitPairs
  rw [h1, h2]

/-! ### the link pass -/

theorem linkChain_nil (cfg : Config) (d : Defs) : linkChain cfg d [] = (pure PUnit.unit : M PUnit) := rfl

theorem linkChain_cons (cfg : Config) (d : Defs) (a : Layer) (as : List Layer) :
    linkChain cfg d (a :: as) = (do
      let a' ← getL d a.name
      makeExportSymlinks cfg a'
      linkChain cfg d as) := by
  simp [linkChain]

/-- the (link, target) pairs the link pass over `chain` may create -/
def chainPairs (cfg : Config) (d : Defs) (chain : List Layer) : List (Bytes × Bytes) :=
  chain.flatMap fun a =>
    match findLayer d a.name with
    | some k => exportPairs cfg k
    | none => []

theorem mem_chainPairs {cfg : Config} {d : Defs} {chain : List Layer} {a k : Layer} (ha : a ∈ chain)
    (hk : findLayer d a.name = some k) : ∀ e ∈ exportPairs cfg k, e ∈ chainPairs cfg d chain := by
  intro e he
  unfold chainPairs
  exact List.mem_flatMap.mpr ⟨a, ha, by rw [hk]; exact he⟩

/-- **the link pass, run level**: on a normal return from a non-pretending world, only
    directories and links of the chain's export pairs were added, and for every chain layer
    (as `d` has it) every automatic export entry whose source existed when the pass began is a
    symbolic link -/
theorem linkChain_run (cfg : Config) (d : Defs) (chain : List Layer) : ∀ (w : World), w.pretend = false →
    ∀ u, ((linkChain cfg d chain).run.run w).1 = .ok u →
    ((linkChain cfg d chain).run.run w).2.pretend = false ∧
    Added (chainPairs cfg d chain) w.fs ((linkChain cfg d chain).run.run w).2.fs ∧
    ∀ a ∈ chain, ∃ k, findLayer d a.name = some k ∧
      ∀ e ∈ autoExportPaths cfg k, Fs.lexists w.fs e.2 = true →
        Fs.isSymlink ((linkChain cfg d chain).run.run w).2.fs e.1 = true := by
  induction chain with
  | nil =>
    intro w hp u _
    exact ⟨hp, Added.refl _ _, fun a ha => by cases ha⟩
  | cons a as ih =>
    intro w hp u hok
    rw [linkChain_cons, run_bind] at hok ⊢
    cases hk : findLayer d a.name with
    | none =>
      have hg : (getL d a.name).run.run w = (.error Fault.panic, w) := by
        unfold getL; rw [hk]; rfl
      rw [hg] at hok
      cases hok
    | some k =>
      have hg : (getL d a.name).run.run w = (.ok k, w) := by
        unfold getL; rw [hk]; rfl
      rw [hg] at hok ⊢
      simp only at hok ⊢
      rw [run_bind] at hok ⊢
      have h1 := extract2 _ _ _ _ (makeExportSymlinks_spec cfg k w.fs w.pretend) w ⟨rfl, Added.refl _ _⟩
      generalize (makeExportSymlinks cfg k).run.run w = r1 at h1 hok ⊢
      obtain ⟨x, w1⟩ := r1
      cases x with
      | error e => cases hok
      | ok u1 =>
        simp only at hok ⊢
        unfold Outcome at h1
        simp only at h1
        obtain ⟨hp1, hadd1, hlinks1⟩ := h1
        rw [hp] at hp1
        obtain ⟨hp2, hadd2, hlinks2⟩ := ih w1 hp1 u hok
        have hmono1 : Added (chainPairs cfg d (a :: as)) w.fs w1.fs :=
          hadd1.mono (mem_chainPairs (List.mem_cons_self) hk)
        have hmono2 : Added (chainPairs cfg d (a :: as)) w1.fs ((linkChain cfg d as).run.run w1).2.fs :=
          hadd2.mono (by
            intro e he
            unfold chainPairs at he ⊢
            rw [List.flatMap_cons]
            exact List.mem_append_right _ he)
        refine ⟨hp2, hmono1.trans hmono2, ?_⟩
        intro b hb
        rcases List.mem_cons.mp hb with hb | hb
        · subst hb
          refine ⟨k, hk, fun e he hsrc => ?_⟩
          exact hadd2.isSymlink e.1 (hlinks1 hp e he hsrc)
        · obtain ⟨k', hk', hl'⟩ := hlinks2 b hb
          exact ⟨k', hk', fun e he hsrc => hl' e he (hadd1.lexists e.2 hsrc)⟩

/-- **`mountCmd`, composed**: a normal return from a non-pretending world `w0` went through a
    mount phase that returned the base chain and the final `Defs` in a world `wm` (tree: `w0`'s
    plus directories), then through the link pass from `wm` -/
theorem mountCmd_links (cfg : Config) (d : Defs) (name : Bytes) (w0 : World) (hp : w0.pretend = false)
    (d' : Defs) (hok : ((mountCmd cfg d name).run.run w0).1 = .ok d') :
    ∃ chain wm, (mountPhase cfg d name).run.run w0 = (.ok (chain, d'), wm) ∧
      BaseChain d chain name ∧ SamePaths d d' ∧ Added [] w0.fs wm.fs ∧
      Added (chainPairs cfg d' chain) wm.fs ((mountCmd cfg d name).run.run w0).2.fs ∧
      ∀ a ∈ chain, ∃ k, findLayer d' a.name = some k ∧
        ∀ e ∈ autoExportPaths cfg k, Fs.lexists wm.fs e.2 = true →
          Fs.isSymlink ((mountCmd cfg d name).run.run w0).2.fs e.1 = true := by
  have hgrow := extract _ _ (mountPhase_grow false w0.fs cfg d name) w0 ⟨hp, Added.refl _ _⟩
  have hval := extractOk _ _ _ (mountPhase_val cfg d name) w0 trivial
  rw [mountCmd_phases, run_bind] at hok ⊢
  generalize (mountPhase cfg d name).run.run w0 = r at hgrow hval hok ⊢
  obtain ⟨x, wm⟩ := r
  cases x with
  | error e => cases hok
  | ok a =>
    obtain ⟨chain, dm⟩ := a
    simp only at hok ⊢ hgrow
    obtain ⟨hbc, hsp⟩ := hval (chain, dm) rfl
    simp only at hbc hsp
    rw [run_bind] at hok ⊢
    have hl := linkChain_run cfg dm chain wm hgrow.1
    generalize (linkChain cfg dm chain).run.run wm = r2 at hl hok ⊢
    obtain ⟨y, wf⟩ := r2
    cases y with
    | error e => cases hok
    | ok u =>
      have hd : dm = d' := by
        have : (Except.ok dm : Except Fault Defs) = .ok d' := hok
        cases this; rfl
      subst hd
      obtain ⟨_, hadd, hlinks⟩ := hl u rfl
      exact ⟨chain, wm, rfl, hbc, hsp, hgrow.2, hadd, hlinks⟩

end Lc.MountLinks
