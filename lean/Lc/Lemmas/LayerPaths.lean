/-
  Where the layer directories and their layerconfig files lie: for clean single-component
  names `n` (not empty, no '/', not "." or ".." — every legal layer name is one),
  `layerPath cfg n = D ++ n` and its layerconfig is `D ++ n ++ "/layerconfig"` with one
  prefix `D` depending on the configuration only.  Hence layer directories of different
  names are never nested, and no layerconfig lies at or below another layer's layerconfig
  or temporary file.  Helper lemmas for Props/C11 (crash_atomic_add, crash_atomic_rename).
-/
import Lc.Lemmas.ExportPath
import Lc.Lemmas.FsRename
import Lc.Lemmas.WriteLayerFile
import Lc.Lemmas.Runes

namespace Lc.LayerPaths
open Lc Lc.Layers Lc.Lemmas.Path Lc.ExportPath Lc.FsRename Lc.Lemmas.WriteLF

theorem lcName_clean : CleanName lcName := by
  refine ⟨⟨by decide, by decide, by decide⟩, by decide⟩

theorem pathJoin2_eq3 (x c : Bytes) : pathJoin [x, c] = pathJoin [[], x, c] := rfl

/-- `path.Join(x, c)` for a clean name `c` ends in `c` -/
theorem pathJoin2_suffix (x c : Bytes) (hc : CleanName c) : ∃ B, pathJoin [x, c] = B ++ c := by
  obtain ⟨B, hB⟩ := pathJoin3_prefix [] x
  exact ⟨B, by rw [pathJoin2_eq3]; exact hB c hc⟩

theorem getLast_of_suffix (B c : Bytes) (x : Nat) (h : c.getLast? = some x) : (B ++ c).getLast? = some x := by
  rw [List.getLast?_append, h]; rfl

/-- a layerconfig path ends in 'g' -/
theorem layerconfigPath_last (l : Layer) : (layerconfigPath l).getLast? = some 103 := by
  obtain ⟨B, hB⟩ := pathJoin2_suffix l.layerPath lcName lcName_clean
  unfold layerconfigPath
  have : (b!"layerconfig" : Bytes) = lcName := rfl
  rw [this, hB]
  exact getLast_of_suffix B lcName 103 (by decide)

def bashrcName : Bytes := b!".bashrc"

theorem bashrcName_clean : CleanName bashrcName := by
  refine ⟨⟨by decide, by decide, by decide⟩, by decide⟩

/-- `path.Join(x, ".bashrc")` is no layerconfig path -/
theorem bashrc_ne_layerconfig (x : Bytes) (l : Layer) : layerconfigPath l ≠ pathJoin [x, b!".bashrc"] := by
  intro h
  have h1 := layerconfigPath_last l
  obtain ⟨B, hB⟩ := pathJoin2_suffix x bashrcName bashrcName_clean
  have : (b!".bashrc" : Bytes) = bashrcName := rfl
  rw [h, this, hB, getLast_of_suffix B bashrcName 99 (by decide)] at h1
  cases h1

/-! ### the common prefix -/

theorem joinWith_one (n : Bytes) : joinWith SLASH [n] = n := rfl
theorem joinWith_two (n m : Bytes) : joinWith SLASH [n, m] = n ++ SLASH :: m := rfl

theorem clean_ne_nil (n : Bytes) (hn : CleanName n) : n ≠ [] := hn.1.1

theorem layer_paths (cfg : Config) : ∃ D : Bytes, ∀ n, CleanName n →
    layerPath cfg n = D ++ n ∧ pathJoin [layerPath cfg n, lcName] = D ++ (n ++ 47 :: lcName) := by
  cases hld : cfg.layerdirs with
  | nil =>
    refine ⟨[], fun n hn => ?_⟩
    obtain ⟨x, xs, rfl, _⟩ := clean_not_abs n hn
    have h1 : layerPath cfg (x :: xs) = x :: xs := by
      have := pathClean_clean [x :: xs] (by simp) (by simpa using hn)
      simpa [layerPath, hld, pathJoin, joinWith] using this
    refine ⟨by simpa using h1, ?_⟩
    rw [h1]
    have := pathClean_clean [x :: xs, lcName] (by simp) (by
      intro c hc
      rcases List.mem_cons.mp hc with rfl | hc
      · exact hn
      · have : c = lcName := by simpa using hc
        exact this ▸ lcName_clean)
    simpa [pathJoin, joinWith, SLASH] using this
  | cons z zs =>
    obtain ⟨D, hD⟩ := pathClean_prefix (z :: zs)
    refine ⟨D, fun n hn => ?_⟩
    obtain ⟨x, xs, rfl, _⟩ := clean_not_abs n hn
    have h1 : layerPath cfg (x :: xs) = D ++ (x :: xs) := by
      have := hD [x :: xs] (by simp) (by simpa using hn)
      simpa [layerPath, hld, pathJoin, joinWith] using this
    refine ⟨h1, ?_⟩
    have h2 := hD [x :: xs, lcName] (by simp) (by
      intro c hc
      rcases List.mem_cons.mp hc with rfl | hc
      · exact hn
      · have : c = lcName := by simpa using hc
        exact this ▸ lcName_clean)
    rw [joinWith_two] at h2
    -- the layerconfig path is the cleaning of an already clean path
    have hne : D ++ (x :: xs) ≠ [] := by simp
    have h3 : pathJoin [layerPath cfg (x :: xs), lcName]
        = pathClean ((D ++ (x :: xs)) ++ SLASH :: lcName) := by
      rw [h1]
      cases hd : D ++ (x :: xs) with
      | nil => exact absurd hd hne
      | cons y ys => simp [pathJoin, joinWith, lcName]
    rw [h3]
    have h4 : (D ++ (x :: xs)) ++ SLASH :: lcName = D ++ ((x :: xs) ++ SLASH :: lcName) := by simp
    rw [h4, ← h2, pathClean_idem]
    exact h2

/-! ### separation -/

theorem no_slash_tail_inj (a b X Y : Bytes) (ha : (47 : Nat) ∉ a) (hb : (47 : Nat) ∉ b)
    (hX : Tail X) (hY : Tail Y) (h : a ++ X = b ++ Y) : a = b := by
  rcases hX with rfl | ⟨r, rfl⟩ <;> rcases hY with rfl | ⟨s, rfl⟩
  · simpa using h
  · rw [List.append_nil] at h
    exact absurd (by rw [h]; simp) ha
  · rw [List.append_nil] at h
    exact absurd (by rw [← h]; simp) hb
  · exact append_sep_inj 47 a b r s ha hb h

theorem tail_append_slash (X t : Bytes) (hX : Tail X) : Tail (X ++ 47 :: t) := by
  rcases hX with rfl | ⟨r, rfl⟩
  · exact tail_slash t
  · exact tail_slash (r ++ 47 :: t)

/-- different clean names below a common prefix: nothing at or below the one is at or below
    the other (`X`, `Y` empty or starting with '/') -/
theorem sep_names (D n m X Y : Bytes) (hn : CleanName n) (hm : CleanName m) (hne : n ≠ m)
    (hX : Tail X) (hY : Tail Y) : Fs.under (D ++ (n ++ X)) (D ++ (m ++ Y)) = false := by
  have hsn : (47 : Nat) ∉ n := hn.1.2.2
  have hsm : (47 : Nat) ∉ m := hm.1.2.2
  apply under_false_of
  · intro h
    exact hne (no_slash_tail_inj m n Y X hsm hsn hY hX (List.append_cancel_left h)).symm
  · intro h
    obtain ⟨x, xs, rfl, hx⟩ := clean_not_abs n hn
    cases D with
    | nil =>
      simp only [List.nil_append, List.cons_append, List.cons.injEq] at h
      exact hx h.1
    | cons y ys =>
      have := congrArg List.length h
      simp at this
  · intro t h
    rw [List.append_assoc, List.append_assoc] at h
    have h' := List.append_cancel_left h
    have h'' : m ++ Y = n ++ (X ++ 47 :: t) := by simpa using h'
    exact hne (no_slash_tail_inj m n Y _ hsm hsn hY (tail_append_slash X t hX) h'').symm

theorem under_tmp_cfg (F : Bytes) : Fs.under (F ++ tmpSuffix) F = false := by
  apply under_false_of
  · intro h; have := congrArg List.length h; simp [tmpSuffix] at this
  · exact tmp_ne_root F
  · intro t h; have := congrArg List.length h; simp [tmpSuffix] at this

theorem tail_lc : Tail (47 :: lcName) := tail_slash _
theorem tail_tmp : Tail (47 :: lcName ++ tmpSuffix) := tail_slash _

/-! ### legal layer names are clean names -/

/-- an ASCII byte of a legal layer name is a letter, a digit, '_' or '-' -/
theorem legal_ascii (n : Bytes) (h : isLegalLayerName n = true) (c : Nat) (hc : c ∈ n) (h128 : c < 128) :
    isLetterOrDigit c = true ∨ c = 95 ∨ c = 45 := by
  obtain ⟨a, b, rfl⟩ := List.append_of_mem hc
  have hr : (c, [c]) ∈ Lc.Lemmas.Runes.rs (a ++ c :: b) := by
    rw [Lc.Lemmas.Runes.rs_split_ascii a c b h128]; simp
  unfold Lc.Lemmas.Runes.rs at hr
  obtain ⟨x, hx, hxe⟩ := List.mem_map.mp hr
  unfold isLegalLayerName at h
  have := List.all_eq_true.mp h x hx
  obtain ⟨off, r, bs⟩ := x
  simp only at hxe
  cases hxe
  simp only [Bool.or_eq_true, Bool.and_eq_true, beq_iff_eq] at this
  rcases this with (h1 | h1) | h1
  · exact Or.inl h1
  · exact Or.inr (Or.inl h1)
  · exact Or.inr (Or.inr h1.1)

set_option maxRecDepth 100000 in
theorem not_letter_slash : isLetterOrDigit 47 = false := by decide
set_option maxRecDepth 100000 in
theorem not_letter_dot : isLetterOrDigit 46 = false := by decide

/-- what `testName` checks (`isLegalLayerName`, not empty) makes a name a clean single path
    component -/
theorem legal_clean (n : Bytes) (hne : n ≠ []) (h : isLegalLayerName n = true) : CleanName n := by
  have h47 : (47 : Nat) ∉ n := by
    intro hc
    rcases legal_ascii n h 47 hc (by omega) with h1 | h1 | h1
    · rw [not_letter_slash] at h1; cases h1
    · cases h1
    · cases h1
  have h46 : (46 : Nat) ∉ n := by
    intro hc
    rcases legal_ascii n h 46 hc (by omega) with h1 | h1 | h1
    · rw [not_letter_dot] at h1; cases h1
    · cases h1
    · cases h1
  refine ⟨⟨hne, ?_, h47⟩, ?_⟩
  · intro e; rw [e] at h46; exact h46 (by simp [DOT])
  · intro e; rw [e] at h46; exact h46 (by simp [dotdot])

/-! ### layers as `findLayers` produces them -/

/-- what `readLayerFiles` establishes for every layer it returns (for a directory listing
    without an empty name): the layer lives in `<layerdirs>/<name>` and the name is legal -/
def Placed (cfg : Config) (k : Layer) : Prop :=
  k.layerPath = layerPath cfg k.name ∧ k.name ≠ [] ∧ isLegalLayerName k.name = true

theorem readLayerFiles_placed (cfg : Config) (fs : Fs.Tree) (names : List Bytes) (hne : [] ∉ names) :
    ∀ k ∈ readLayerFiles cfg fs names, Placed cfg k := by
  intro k hk
  unfold readLayerFiles at hk
  obtain ⟨n, hn, hs⟩ := List.mem_filterMap.mp hk
  by_cases hleg : isLegalLayerName n = true
  · simp only [hleg, Bool.not_true, Bool.false_eq_true, if_false] at hs
    split at hs
    · cases hs
      refine ⟨rfl, fun e => hne ?_, hleg⟩
      have e' : n = [] := e
      rw [← e']; exact hn
    · cases hs
  · simp [hleg] at hs

theorem placed_clean (cfg : Config) (k : Layer) (h : Placed cfg k) : CleanName k.name :=
  legal_clean k.name h.2.1 h.2.2

theorem placed_cfg (cfg : Config) (D : Bytes)
    (hD : ∀ n, CleanName n → layerPath cfg n = D ++ n ∧ pathJoin [layerPath cfg n, lcName] = D ++ (n ++ 47 :: lcName))
    (k : Layer) (h : Placed cfg k) :
    k.layerPath = D ++ k.name ∧ layerconfigPath k = D ++ (k.name ++ 47 :: lcName) := by
  have hc := placed_clean cfg k h
  refine ⟨h.1.trans (hD _ hc).1, ?_⟩
  unfold layerconfigPath
  rw [h.1]
  exact (hD _ hc).2

theorem free_iff (d : Defs) (n : Bytes) :
    testName1 d n NAME_FREE = true ↔ n ≠ [] ∧ isLegalLayerName n = true ∧ findLayer d n = none := by
  unfold testName1 NAME_FREE
  cases n with
  | nil => simp
  | cons x xs =>
    by_cases hl : isLegalLayerName (x :: xs) = true <;> simp [hl]

theorem findLayer_name (d : Defs) (n : Bytes) (l : Layer) (h : findLayer d n = some l) :
    l ∈ d.layers ∧ l.name = n := by
  unfold findLayer at h
  exact ⟨List.mem_of_find?_eq_some h, by simpa using List.find?_some h⟩

theorem findLayer_none (d : Defs) (n : Bytes) (h : findLayer d n = none) : ∀ k ∈ d.layers, k.name ≠ n := by
  unfold findLayer at h
  intro k hk
  have := List.find?_eq_none.mp h k hk
  simpa using this

/-- equal layerconfig paths below the common prefix: equal names -/
theorem cfg_inj (D a b : Bytes) (ha : CleanName a) (hb : CleanName b)
    (h : D ++ (a ++ 47 :: lcName) = D ++ (b ++ 47 :: lcName)) : a = b :=
  append_sep_inj 47 a b lcName lcName ha.1.2.2 hb.1.2.2 (List.append_cancel_left h)

theorem tmp_assoc (D n : Bytes) :
    D ++ (n ++ 47 :: lcName) ++ tmpSuffix = D ++ (n ++ (47 :: lcName ++ tmpSuffix)) := by
  simp [List.append_assoc]

/-- the layerconfig `D/n/layerconfig` against the layerconfig and temporary file of `D/m` -/
theorem cfg_vs (D n m : Bytes) (hn : CleanName n) (hm : CleanName m) :
    Fs.under (D ++ (m ++ 47 :: lcName) ++ tmpSuffix) (D ++ (n ++ 47 :: lcName)) = false ∧
    (Fs.under (D ++ (m ++ 47 :: lcName)) (D ++ (n ++ 47 :: lcName)) = false ∨
      D ++ (n ++ 47 :: lcName) = D ++ (m ++ 47 :: lcName)) := by
  by_cases e : m = n
  · subst e
    exact ⟨under_tmp_cfg _, Or.inr rfl⟩
  · rw [tmp_assoc]
    exact ⟨sep_names D m n _ _ hm hn e tail_tmp tail_lc, Or.inl (sep_names D m n _ _ hm hn e tail_lc tail_lc)⟩

end Lc.LayerPaths
