/-
  `sortBy` (insertion sort, Lc/Base/Sort.lean) returns a permutation of its input that is
  sorted for the non-strict order "not (b < a)", for any transitive `lt`.  Used by C03
  (`getMountAndSubmounts` sorts by mountpoint; stacked mounts repeat a mountpoint).
-/
import Lc.Base.Sort
import Lc.Lemmas.Prefix

namespace Lc
namespace SortByAux

theorem insertBy_perm {α} (lt : α → α → Bool) (x : α) (l : List α) : (insertBy lt x l).Perm (x :: l) := by
  induction l with
  | nil => exact List.Perm.refl _
  | cons y ys ih =>
    unfold insertBy
    split
    · exact List.Perm.refl _
    · exact (List.Perm.cons y ih).trans (List.Perm.swap x y ys)

theorem sortBy_perm {α} (lt : α → α → Bool) (l : List α) : (sortBy lt l).Perm l := by
  induction l with
  | nil => exact List.Perm.refl _
  | cons x xs ih =>
    unfold sortBy
    exact (insertBy_perm lt x _).trans (List.Perm.cons x ih)

theorem mem_sortBy {α} (lt : α → α → Bool) (l : List α) (x : α) : x ∈ sortBy lt l ↔ x ∈ l :=
  (sortBy_perm lt l).mem_iff

theorem insertBy_sorted {α} (lt : α → α → Bool)
    (hirr : ∀ a, lt a a = false)
    (htrans : ∀ a b c, lt a b = true → lt b c = true → lt a c = true) (x : α) (l : List α)
    (h : l.Pairwise (fun a b => lt b a = false)) :
    (insertBy lt x l).Pairwise (fun a b => lt b a = false) := by
  induction l with
  | nil => simp [insertBy]
  | cons y ys ih =>
    have hp := List.pairwise_cons.mp h
    unfold insertBy
    split
    · rename_i hxy
      refine List.pairwise_cons.mpr ⟨?_, h⟩
      intro z hz
      cases hzx : lt z x with
      | false => rfl
      | true =>
        exfalso
        have hzy := htrans z x y hzx hxy
        rcases List.mem_cons.mp hz with hz | hz
        · subst hz
          rw [hirr] at hzy; cases hzy
        · have := hp.1 z hz
          rw [hzy] at this; cases this
    · rename_i hxy
      refine List.pairwise_cons.mpr ⟨?_, ih hp.2⟩
      intro z hz
      rcases List.mem_cons.mp ((insertBy_perm lt x ys).mem_iff.mp hz) with hz | hz
      · subst hz; simpa using hxy
      · exact hp.1 z hz

/-- **`sortBy` sorts**: no element is `lt`-smaller than an earlier one -/
theorem sortBy_sorted {α} (lt : α → α → Bool) (hirr : ∀ a, lt a a = false)
    (htrans : ∀ a b c, lt a b = true → lt b c = true → lt a c = true) (l : List α) :
    (sortBy lt l).Pairwise (fun a b => lt b a = false) := by
  induction l with
  | nil => simp [sortBy]
  | cons x xs ih =>
    unfold sortBy
    exact insertBy_sorted lt hirr htrans x _ ih

end SortByAux
end Lc
