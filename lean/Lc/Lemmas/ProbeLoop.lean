/-
  The loop of `ProbeAllLayerstate` as a whole: every round leaves the world alone, keeps
  the forest skeleton (name, base, layer path of every record) and the mount view, does
  not touch the records of other names; a per-layer verdict established in the round that
  classifies a layer survives the remaining rounds.  Helper lemmas for Props/C08
  (`mounted_only_if_fully_mounted_all`, `never_mounted_when_half_mounted`).
-/
import Lc.Lemmas.StateProbeAll
import Lc.Lemmas.Forest
import Lc.Lemmas.RunM
import Lc.Lemmas.Probe

namespace Lc.StateProbe
open Lc Lc.Layers Lc.Mountinfo Lc.Layerfile Lc.RunM Lc.Forest

/-! ### the forest skeleton -/

/-- what the probe never changes in a layer record and what the expansion of the
    configuration depends on -/
def lkey (l : Layer) : Bytes × Bytes × Bytes := (l.name, l.base, l.layerPath)

/-- same skeleton: under every name both tables have a record with the same name, base and
    layer path, or neither has one -/
def SameKeys (d d' : Defs) : Prop :=
  d.layers.length = d'.layers.length ∧ ∀ n, (findLayer d n).map lkey = (findLayer d' n).map lkey

theorem SameKeys.refl (d : Defs) : SameKeys d d := ⟨rfl, fun _ => rfl⟩

theorem SameKeys.symm {d d' : Defs} (h : SameKeys d d') : SameKeys d' d :=
  ⟨h.1.symm, fun n => (h.2 n).symm⟩

theorem SameKeys.trans {a b c : Defs} (h1 : SameKeys a b) (h2 : SameKeys b c) : SameKeys a c :=
  ⟨h1.1.trans h2.1, fun n => (h1.2 n).trans (h2.2 n)⟩

theorem sameKeys_setLayer (d : Defs) (l l' : Layer) (hl : findLayer d l'.name = some l)
    (hk : lkey l' = lkey l) : SameKeys d (setLayer d l') := by
  refine ⟨by simp [setLayer], fun n => ?_⟩
  by_cases hn : n = l'.name
  · subst hn
    rw [hl, findLayer_setLayer d l l' hl]
    simp [hk]
  · unfold findLayer
    rw [find?_setLayer_other d l' n hn]

theorem sameKeys_find {d d' : Defs} (h : SameKeys d d') (n : Bytes) (l : Layer)
    (hl : findLayer d n = some l) : ∃ l', findLayer d' n = some l' ∧ lkey l' = lkey l := by
  have := h.2 n
  rw [hl] at this
  cases hf : findLayer d' n with
  | none => rw [hf] at this; simp at this
  | some l' =>
    rw [hf] at this
    simp only [Option.map_some, Option.some.injEq] at this
    exact ⟨l', rfl, this.symm⟩

theorem findLayerBase_sameKeys {d d' : Defs} (h : SameKeys d d') :
    ∀ (f : Nat) (l l' : Layer), l.base = l'.base → l.layerPath = l'.layerPath →
      (findLayerBase d f l).map (·.layerPath) = (findLayerBase d' f l').map (·.layerPath) := by
  intro f
  induction f with
  | zero => intro l l' _ _; rfl
  | succ f ih =>
    intro l l' hb hp
    unfold findLayerBase
    rw [← hb]
    split
    · cases hf : findLayer d l.base with
      | none =>
        have := h.2 l.base
        rw [hf] at this
        cases hf' : findLayer d' l.base with
        | none => rfl
        | some p' => rw [hf'] at this; simp at this
      | some p =>
        obtain ⟨p', hf', hk⟩ := sameKeys_find h _ _ hf
        rw [hf']
        simp only []
        have hk' : p'.base = p.base ∧ p'.layerPath = p.layerPath := by
          unfold lkey at hk
          simp only [Prod.mk.injEq] at hk
          exact ⟨hk.2.1, hk.2.2⟩
        exact ih p p' hk'.1.symm hk'.2.symm
    · simp [hp]

theorem expandConfigMounts_sameKeys (cfg : Config) {d d' : Defs} (h : SameKeys d d') (l : Layer) :
    expandConfigMounts cfg d l = expandConfigMounts cfg d' l := by
  unfold expandConfigMounts
  rw [h.1, findLayerBase_sameKeys h _ l l rfl rfl]

/-! ### one round, evaluated -/

theorem probeLayer_key (cfg : Config) (inuse : List (Bytes × List User)) (fs : Fs.Tree) (d : Defs)
    (name : Bytes) (l l' : Layer) (h : probeLayer cfg inuse fs d name l = .ok l') :
    l'.name = l.name ∧ l'.base = l.base ∧ l'.cmounts = l.cmounts ∧ l'.cexports = l.cexports ∧
      l'.layerPath = l.layerPath := by
  unfold probeLayer at h
  simp only [] at h
  have hsc := classifyUsers_sameCore cfg
    ({ l with mounts := getMountAndSubmounts d.mounts (buildPath cfg l) } : Layer) (usersOf inuse name)
  generalize classifyUsers cfg _ _ = lu at h hsc
  obtain ⟨h1, h2, h3, h4, h5, -, -, -⟩ := hsc
  split at h
  · cases h; exact ⟨h1, h2, h3, h4, h5⟩
  · split at h
    · cases h; exact ⟨h1, h2, h3, h4, h5⟩
    · obtain ⟨s, rfl, -, -⟩ := findLayerstate_shape cfg fs d _ _ h
      exact ⟨h1, h2, h3, h4, h5⟩

/-- the outcome of one round -/
theorem probeStep_run_eq (cfg : Config) (inuse : List (Bytes × List User)) (fs : Fs.Tree) (d : Defs)
    (name : Bytes) (w : World) :
    (probeStep cfg inuse fs d name).run.run w =
      match findLayer d name with
      | none => (.error .panic, w)
      | some l =>
        if l.state == S_error then (.ok (setLayer d (probeErr cfg inuse d name l)), w) else
        match probeLayer cfg inuse fs d name l with
        | .ok l' => (.ok (setLayer d l'), w)
        | .error e => (.error e, w) := by
  rw [probeStep_eq]
  cases findLayer d name with
  | none => rfl
  | some l =>
    simp only []
    split
    · rfl
    · rw [run_bind, run_liftRes]
      cases probeLayer cfg inuse fs d name l <;> rfl

/-! ### the whole loop -/

/-- Loop invariant, for any per-layer verdict `V` (relative to a table) that
    * holds of the record a round stores (`hstep`),
    * holds of the record a round stores for a layer in the error state (`herr`; since fix
      e3cb7aa that round records mounts and processes and keeps the state),
    * does not depend on anything but the skeleton and the mount view (`htrans`):
    after the loop the world is unchanged, skeleton and mount view are those of the start,
    records of names not in the list are untouched, and every listed name has a record
    with the verdict. -/
theorem probeLoop_inv (cfg : Config) (inuse : List (Bytes × List User)) (fs : Fs.Tree)
    (V : Defs → Layer → Prop)
    (hstep : ∀ d name l l', findLayer d name = some l → l.state ≠ S_error →
      probeLayer cfg inuse fs d name l = .ok l' → V d l')
    (herr : ∀ d name l, findLayer d name = some l → l.state = S_error →
      V d (probeErr cfg inuse d name l))
    (htrans : ∀ d d' l, SameKeys d d' → d.mounts = d'.mounts → V d l → V d' l) :
    ∀ (names : List Bytes) (d0 d : Defs) (w w' : World),
      (names.foldlM (probeStep cfg inuse fs) d0).run.run w = (.ok d, w') →
      w' = w ∧ SameKeys d0 d ∧ d.mounts = d0.mounts ∧
      (∀ n, n ∉ names → findLayer d n = findLayer d0 n) ∧
      ∀ n ∈ names, ∃ l, findLayer d n = some l ∧ V d l := by
  intro names
  induction names with
  | nil =>
    intro d0 d w w' h
    simp only [List.foldlM_nil] at h
    cases h
    exact ⟨rfl, SameKeys.refl _, rfl, fun _ _ => rfl, fun n hn => by cases hn⟩
  | cons x xs ih =>
    intro d0 d w w' h
    simp only [List.foldlM_cons] at h
    rw [run_bind, probeStep_run_eq] at h
    cases hf : findLayer d0 x with
    | none => rw [hf] at h; cases h
    | some l0 =>
      rw [hf] at h
      simp only [] at h
      -- the table after the round on `x`, and what is known about it
      have key : ∃ d1 l1, (xs.foldlM (probeStep cfg inuse fs) d1).run.run w = (.ok d, w') ∧
          SameKeys d0 d1 ∧ d1.mounts = d0.mounts ∧
          (∀ n, n ≠ x → findLayer d1 n = findLayer d0 n) ∧
          findLayer d1 x = some l1 ∧ V d0 l1 := by
        by_cases hs : (l0.state == S_error) = true
        · simp only [hs, ↓reduceIte] at h
          obtain ⟨k1, k2, -, -, k5, -, -, -⟩ := probeErr_key cfg inuse d0 x l0
          have k1' : (probeErr cfg inuse d0 x l0).name = l0.name := k1
          have k2' : (probeErr cfg inuse d0 x l0).base = l0.base := k2
          have k5' : (probeErr cfg inuse d0 x l0).layerPath = l0.layerPath := k5
          have hn0 : l0.name = x := findLayer_name d0 x l0 hf
          have hn1 : (probeErr cfg inuse d0 x l0).name = x := k1'.trans hn0
          have hf' : findLayer d0 (probeErr cfg inuse d0 x l0).name = some l0 := by rw [hn1]; exact hf
          refine ⟨setLayer d0 (probeErr cfg inuse d0 x l0), probeErr cfg inuse d0 x l0, h,
            sameKeys_setLayer d0 l0 _ hf' ?_, rfl, ?_, ?_, herr d0 x l0 hf (by simpa using hs)⟩
          · unfold lkey; rw [k1', k2', k5']
          · intro n hn
            unfold findLayer
            exact find?_setLayer_other d0 _ n (by rw [hn1]; exact hn)
          · have := findLayer_setLayer d0 l0 _ hf'
            rw [hn1] at this
            exact this
        · simp only [hs, Bool.false_eq_true, ↓reduceIte] at h
          cases hp : probeLayer cfg inuse fs d0 x l0 with
          | error e => rw [hp] at h; cases h
          | ok l1 =>
            rw [hp] at h
            simp only [] at h
            obtain ⟨k1, k2, -, -, k5⟩ := probeLayer_key cfg inuse fs d0 x l0 l1 hp
            have hn0 : l0.name = x := findLayer_name d0 x l0 hf
            have hn1 : l1.name = x := k1.trans hn0
            have hf' : findLayer d0 l1.name = some l0 := by rw [hn1]; exact hf
            refine ⟨setLayer d0 l1, l1, h, sameKeys_setLayer d0 l0 l1 hf' ?_, rfl, ?_, ?_, ?_⟩
            · unfold lkey; rw [k1, k2, k5]
            · intro n hn
              unfold findLayer
              exact find?_setLayer_other d0 l1 n (by rw [hn1]; exact hn)
            · have := findLayer_setLayer d0 l0 l1 hf'
              rw [hn1] at this
              exact this
            · exact hstep d0 x l0 l1 hf (by simpa using hs) hp
      obtain ⟨d1, l1, hrun, hk1, hm1, hoth, hfx, hv⟩ := key
      obtain ⟨hw, hk, hm, hout, hin⟩ := ih d1 d w w' hrun
      refine ⟨hw, hk1.trans hk, hm.trans hm1, ?_, ?_⟩
      · intro n hn
        have hnx : n ≠ x := fun e => hn (by simp [e])
        have hnxs : n ∉ xs := fun e => hn (by simp [e])
        rw [hout n hnxs, hoth n hnx]
      · intro n hn
        by_cases hnxs : n ∈ xs
        · exact hin n hnxs
        · have hnx : n = x := by
            rcases List.mem_cons.mp hn with e | e
            · exact e
            · exact absurd e hnxs
          subst hnx
          refine ⟨l1, (hout n hnxs).trans hfx, ?_⟩
          exact htrans d0 d l1 (hk1.trans hk) (hm.trans hm1).symm hv

/-- `probeAll` = refresh the mount view, then the loop -/
theorem probeAll_run (cfg : Config) (inuse : List (Bytes × List User)) (d0 d : Defs) (w w' : World)
    (h : (probeAll cfg inuse d0).run.run w = (.ok d, w')) :
    ∃ m, Kernel.probe w.kt = .ok m ∧
      (d0.order.foldlM (probeStep cfg inuse w.fs)
        { d0 with mounts := m,
                  layers := d0.layers.map fun l =>
                    { l with overlain := (overlayLowerdirs m).contains (buildPath cfg l) } }).run.run w
        = (.ok d, w') := by
  rw [probeAll_eq] at h
  cases hm : Kernel.probe w.kt with
  | error e =>
    exfalso
    unfold refreshMountInfo at h
    simp only [run_bind, run_getW, run_liftRes, hm] at h
    cases h
  | ok m =>
    refine ⟨m, rfl, ?_⟩
    rw [bind_ok _ _ _ _ _ (Lc.Probe.refresh_run cfg d0 w m hm), bind_ok _ _ w w w (run_getW w)] at h
    exact h

/-- the refreshed table has the skeleton of the one handed in -/
theorem sameKeys_refresh (d0 : Defs) (m : Mounts) (f : Layer → Bool) :
    SameKeys d0 { d0 with mounts := m, layers := d0.layers.map fun l => { l with overlain := f l } } := by
  refine ⟨by simp, fun n => ?_⟩
  unfold findLayer
  simp only []
  induction d0.layers with
  | nil => rfl
  | cons x xs ih =>
    simp only [List.map_cons, List.find?_cons]
    by_cases hx : (x.name == n) = true
    · simp [hx, lkey]
    · simp only [hx]
      exact ih

/-- the probe keeps the forest skeleton -/
theorem probeAll_sameKeys (cfg : Config) (inuse : List (Bytes × List User)) (d0 d : Defs) (w w' : World)
    (h : (probeAll cfg inuse d0).run.run w = (.ok d, w')) : SameKeys d0 d := by
  obtain ⟨m, -, hloop⟩ := probeAll_run cfg inuse d0 d w w' h
  obtain ⟨-, h2, -, -, -⟩ := probeLoop_inv cfg inuse w.fs (fun _ _ => True)
    (fun _ _ _ _ _ _ _ => trivial) (fun _ _ _ _ _ => trivial) (fun _ _ _ _ _ _ => trivial)
    d0.order _ d w w' hloop
  exact (sameKeys_refresh d0 m _).trans h2

/-- what a successful `FindLayers` returns: the world untouched, the table read from the
    tree, the order list a permutation of the names -/
theorem findLayers_run (cfg : Config) (w w' : World) (d0 : Defs)
    (h : (findLayers cfg).run.run w = (.ok d0, w')) :
    w' = w ∧ d0.layers = readLayerFiles cfg w.fs (Fs.children w.fs cfg.layerdirs) ∧
      d0.order.Perm (d0.layers.map (·.name)) ∧ checkInheritance d0.layers = true ∧
      normalizeOrder d0.layers = .ok d0.order ∧ d0.mounts = {} := by
  unfold findLayers at h
  rw [run_bind, run_getW] at h
  simp only [] at h
  by_cases h1 : (!Fs.isDir w.fs cfg.layerdirs) = true
  · simp only [h1, ↓reduceIte] at h
    rw [run_bind, run_fail] at h
    cases h
  · simp only [h1, Bool.false_eq_true, ↓reduceIte] at h
    by_cases h2 : (!checkInheritance (readLayerFiles cfg w.fs (Fs.children w.fs cfg.layerdirs))) = true
    · simp only [h2, ↓reduceIte] at h
      rw [run_bind, run_fail] at h
      cases h
    · simp only [h2, Bool.false_eq_true, ↓reduceIte] at h
      unfold reorder at h
      cases hn : normalizeOrder (readLayerFiles cfg w.fs (Fs.children w.fs cfg.layerdirs)) with
      | error e => rw [hn] at h; cases h
      | ok o =>
        rw [hn] at h
        simp only [] at h
        cases h
        exact ⟨rfl, rfl, order_perm _ _ hn, by simpa using h2, hn, rfl⟩

/-- `getLayers` = `FindLayers`, then the probe; every name that has a record afterwards is
    in the order list the probe walked -/
theorem getLayers_run (cfg : Config) (inuse : List (Bytes × List User)) (w w' : World) (d : Defs)
    (h : (getLayers cfg inuse).run.run w = (.ok d, w')) :
    ∃ d0, (findLayers cfg).run.run w = (.ok d0, w) ∧ (probeAll cfg inuse d0).run.run w = (.ok d, w') ∧
      ∀ name l, findLayer d name = some l → name ∈ d0.order := by
  unfold getLayers at h
  rw [run_bind] at h
  cases hf : (findLayers cfg).run.run w with
  | mk r w1 =>
    rw [hf] at h
    cases r with
    | error e => cases h
    | ok d0 =>
      simp only [] at h
      obtain ⟨hw, -, hperm, -, -, -⟩ := findLayers_run cfg w w1 d0 hf
      subst hw
      refine ⟨d0, rfl, h, ?_⟩
      intro name l hl
      have hk := probeAll_sameKeys cfg inuse d0 d w1 w' h
      obtain ⟨l0, hl0, -⟩ := sameKeys_find hk.symm name l hl
      have hmem : l0 ∈ d0.layers := List.mem_of_find?_eq_some hl0
      have hname : l0.name = name := findLayer_name d0 name l0 hl0
      apply hperm.mem_iff.mpr
      exact List.mem_map.mpr ⟨l0, hmem, hname⟩

end Lc.StateProbe
