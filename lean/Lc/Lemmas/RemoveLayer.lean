/-
  Relational Hoare specifications for `removeLayerExportLinks` and `removeLayer`
  (Lc/Model/Layers.lean), VCs by `mvcgen`.  Helper lemmas for Props/C09.

  `Same ex w0 w`: world `w` differs from the reference world `w0` at most at or below the
  paths `ex` (the automatic export links) and has the same pretend switch.
-/
import Lc.Lemmas.Hoare
import Lc.Lemmas.FsRename
namespace Lc.RemoveLayer
open Std.Do Lc Lc.Layers Lc.Hoare Lc.FsRename
set_option mvcgen.warning false

def Same (ex : List Bytes) (w0 w : World) : Prop :=
  w.pretend = w0.pretend ∧ ∀ p, (∀ m ∈ ex, Fs.under m p = false) → Fs.get w.fs p = Fs.get w0.fs p

theorem same_refl (ex : List Bytes) (w : World) : Same ex w w := ⟨rfl, fun _ _ => rfl⟩

theorem fsRemove_same (ex : List Bytes) (w0 : World) (m : Bytes) (hm : m ∈ ex) :
    Holds (Same ex w0) (fsRemove m) := by
  unfold Holds
  mvcgen [fsRemove, fsStep, gate, getW, setW, fail, record]
  have hs : Same ex w0 _ := ‹Same ex w0 _›
  refine ⟨hs.1, ?_⟩
  intro p hp
  show Fs.get (Fs.removeAll _ m) p = _
  rw [get_removeAll _ _ _ (hp m hm)]
  exact hs.2 p hp

def exPaths (cfg : Config) (l : Layer) : List Bytes := (autoExportPaths cfg l).map (·.1)

theorem removeLayerExportLinks_same (w0 : World) (cfg : Config) (l : Layer) :
    Holds (Same (exPaths cfg l) w0) (removeLayerExportLinks cfg l) := by
  unfold Holds
  have h := fsRemove_same (exPaths cfg l) w0
  unfold Holds at h
  mvcgen [removeLayerExportLinks, fExists, fIsSymlink, getW, fail, h]
  case inv1 => exact post⟨fun _ w => ⌜Same (exPaths cfg l) w0 w⌝, fun _ w => ⌜Same (exPaths cfg l) w0 w⌝⟩
  case vc3.hm => rename_i h3 _ _ _ _ _ _; simp [exPaths, h3]
  all_goals (try intros) <;> simp_all

theorem testName_holds (I : World → Prop) (d t) : Holds I (testName d t) := by
  unfold Holds testName
  split <;> mvcgen [fail]

theorem reorder_holds (I : World → Prop) (d) : Holds I (reorder d) := by
  unfold Holds reorder
  split <;> mvcgen

theorem errorIfError_holds (I : World → Prop) (l) : Holds I (errorIfError l) := by
  unfold Holds errorIfError
  split <;> mvcgen [fail]

theorem errorIfBusy_holds (I : World → Prop) (l a) : Holds I (errorIfBusy l a) := by
  unfold Holds errorIfBusy
  split <;> mvcgen [fail]

def Deleted (lp : Bytes) (w : World) : Prop :=
  (∀ p, Fs.under lp p = true → Fs.get w.fs p = none) ∧ Op.remove lp ∈ w.trace

theorem fsRemove_deleted (ex : List Bytes) (w0 : World) (lp : Bytes) (hp : w0.pretend = false) :
    HoldsOk (Same ex w0) (fun _ w => Deleted lp w) (fsRemove lp) := by
  unfold HoldsOk
  mvcgen [fsRemove, fsStep, gate, getW, setW, fail, record]
  · have hs : Same ex w0 _ := ‹Same ex w0 _›
    have := hs.1
    simp_all
  · refine ⟨?_, ?_⟩
    · intro p hu
      show Fs.get (Fs.removeAll _ lp) p = none
      exact get_removeAll_under _ _ _ hu
    · show Op.remove lp ∈ _ ++ [Op.remove lp]
      simp

def Moved (ex : List Bytes) (lp new : Bytes) (w0 w : World) : Prop :=
  ∀ rest, Tail rest → (∀ m ∈ ex, Fs.under m (lp ++ rest) = false) →
    Fs.get w.fs (new ++ rest) = Fs.get w0.fs (lp ++ rest)

theorem fsRename_moved (ex : List Bytes) (w0 : World) (lp s : Bytes) (c : Nat) (hc : c ≠ 47)
    (hp : w0.pretend = false) :
    HoldsOk (Same ex w0) (fun _ w => lp ≠ [47] ∧ Moved ex lp (lp ++ c :: s) w0 w ∧ Op.rename lp (lp ++ c :: s) ∈ w.trace)
      (fsRename lp (lp ++ c :: s)) := by
  unfold HoldsOk
  mvcgen [fsRename, fsStep, gate, getW, setW, fail, record]
  · have hs : Same ex w0 _ := ‹Same ex w0 _›
    have := hs.1
    simp_all
  · have hs : Same ex w0 _ := ‹Same ex w0 _›
    have hr := ‹Fs.rename _ lp (lp ++ c :: s) = Except.ok _›
    obtain ⟨_, _, hinv⟩ := rename_ok _ _ _ _ hr
    have hlp : lp ≠ [47] := by
      intro e
      apply hinv
      subst e
      simp [Fs.under, hasPrefix]
    refine ⟨hlp, ?_, by show _ ∈ _ ++ [_]; simp⟩
    intro rest ht hex
    have hm := rename_moves _ _ _ _ hr hlp
      (fun e _ hu => under_sibling_disjoint lp s e.1 c hc hlp hu) rest ht
    exact hm.trans (hs.2 _ hex)


/-- a pure fact about the reference world: every entry at or below the layer directory (and
    not at/below an automatic export link) is a directory or one of the layer's own files -/
def OwnOnly (cfg : Config) (l : Layer) (w0 : World) : Prop :=
  ∀ p node, (∀ m ∈ exPaths cfg l, Fs.under m p = false) → Fs.under l.layerPath p = true →
    Fs.get w0.fs p = some node → node = .dir ∨ p ∈ ownFiles cfg l

theorem get_some_mem (fs : Fs.Tree) (p : Bytes) (node : Fs.Node) (h : Fs.get fs p = some node) :
    (p, node) ∈ fs := by
  unfold Fs.get at h
  split at h
  · rename_i e he
    have hm := List.mem_of_find?_eq_some he
    have hp := List.find?_some he
    simp only [beq_iff_eq] at hp
    cases h
    rw [← hp]
    exact hm
  · cases h

theorem ownOnly_of_same (cfg : Config) (l : Layer) (w0 w : World)
    (hs : Same (exPaths cfg l) w0 w) (ho : onlyOwnFiles cfg l w.fs = true) : OwnOnly cfg l w0 := by
  intro p node hex hu hget
  rw [← hs.2 p hex] at hget
  have hm := get_some_mem _ _ _ hget
  unfold onlyOwnFiles at ho
  have := (List.all_eq_true.1 ho) _ hm
  simp only [hu, Bool.not_true, Bool.false_or, Bool.or_eq_true,
    List.contains_eq_mem, decide_eq_true_eq] at this
  rcases this with h | h
  · left; cases node <;> simp_all
  · right; exact h

/-- `remove` without `-files`, any probed state: after a normal return either the directory
    was renamed to `<dir>~removed` (everything moved), or it was deleted outright — and then
    the probed state was "not yet populated" and the directory held directories and the
    layer's own files only -/
theorem removeLayer_outcome (cfg : Config) (d : Defs) (name : Bytes) (l : Layer) (w0 : World)
    (hl : findLayer d name = some l) (hp : w0.pretend = false) :
    HoldsOk (Same (exPaths cfg l) w0)
      (fun _ w => (l.layerPath ≠ [47] ∧ Moved (exPaths cfg l) l.layerPath (l.layerPath ++ removedSuffix) w0 w
        ∧ Op.rename l.layerPath (l.layerPath ++ removedSuffix) ∈ w.trace)
        ∨ (Deleted l.layerPath w ∧ l.state = S_complete ∧ OwnOnly cfg l w0))
      (removeLayer cfg d name false) := by
  have hT := testName_holds (Same (exPaths cfg l) w0) d
  have hE := errorIfError_holds (Same (exPaths cfg l) w0)
  have hB := errorIfBusy_holds (Same (exPaths cfg l) w0)
  have hX := removeLayerExportLinks_same w0 cfg l
  have hR : HoldsOk (Same (exPaths cfg l) w0)
      (fun _ w => l.layerPath ≠ [47] ∧ Moved (exPaths cfg l) l.layerPath (l.layerPath ++ removedSuffix) w0 w
        ∧ Op.rename l.layerPath (l.layerPath ++ removedSuffix) ∈ w.trace)
      (fsRename l.layerPath (l.layerPath ++ removedSuffix)) :=
    fsRename_moved (exPaths cfg l) w0 l.layerPath b!"removed" 126 (by decide) hp
  have hD := fsRemove_deleted (exPaths cfg l) w0 l.layerPath hp
  have hO := reorder_holds (fun w => (l.layerPath ≠ [47] ∧ Moved (exPaths cfg l) l.layerPath (l.layerPath ++ removedSuffix) w0 w
        ∧ Op.rename l.layerPath (l.layerPath ++ removedSuffix) ∈ w.trace)
        ∨ (Deleted l.layerPath w ∧ l.state = S_complete ∧ OwnOnly cfg l w0))
  have hg : getL d name = pure l := by simp [getL, hl]
  unfold HoldsOk at *
  unfold Holds at *
  unfold removeLayer
  simp only [hg]
  mvcgen [hT, hE, hB, hX, hR, hD, hO, fail, fExists, getW, holdsOnlyOwnFiles]
  all_goals first
    | (intro h; exact h)
    | (have ho := ‹onlyOwnFiles cfg l _ = true›
       exact Or.inr ⟨‹Deleted _ _›, by simpa using ‹(l.state == S_complete) = true›,
         ownOnly_of_same _ _ _ _ (by assumption) ho⟩)
    | (intro a b c; exact Or.inl ⟨a, b, c⟩)
    | (exact Or.inl ‹_›)
    | trace_state

theorem removeLayer_deleted (cfg : Config) (d : Defs) (name : Bytes) (l : Layer) (w0 : World)
    (hl : findLayer d name = some l) (hp : w0.pretend = false) :
    HoldsOk (Same (exPaths cfg l) w0) (fun _ w => Deleted l.layerPath w) (removeLayer cfg d name true) := by
  have hT := testName_holds (Same (exPaths cfg l) w0) d
  have hE := errorIfError_holds (Same (exPaths cfg l) w0)
  have hB := errorIfBusy_holds (Same (exPaths cfg l) w0)
  have hX := removeLayerExportLinks_same w0 cfg l
  have hR := fsRemove_deleted (exPaths cfg l) w0 l.layerPath hp
  have hO := reorder_holds (fun w => Deleted l.layerPath w)
  have hg : getL d name = pure l := by simp [getL, hl]
  unfold HoldsOk at *
  unfold Holds at *
  unfold removeLayer
  simp only [hg]
  mvcgen [hT, hE, hB, hX, hR, hO, fail, fExists, getW]
  all_goals first
    | (intro h; exact h)
    | (rename_i hc _ _ _; exact absurd rfl hc)
    | trace_state

/-- the run fails, and the world differs from the start only below the export paths -/
theorem removeLayer_blocked (cfg : Config) (d : Defs) (name : Bytes) (l : Layer) (w0 : World)
    (hl : findLayer d name = some l) (hst : l.state = S_complete → ¬ OwnOnly cfg l w0)
    (hre : Fs.lexists w0.fs (l.layerPath ++ removedSuffix) = true)
    (hexp : ∀ m ∈ exPaths cfg l, Fs.under m (l.layerPath ++ removedSuffix) = false) :
    ⦃fun w => ⌜Same (exPaths cfg l) w0 w⌝⦄ removeLayer cfg d name false
    ⦃post⟨fun _ _ => ⌜False⌝, fun _ w => ⌜Same (exPaths cfg l) w0 w⌝⟩⦄ := by
  have hT := testName_holds (Same (exPaths cfg l) w0) d
  have hE := errorIfError_holds (Same (exPaths cfg l) w0)
  have hB := errorIfBusy_holds (Same (exPaths cfg l) w0)
  have hX := removeLayerExportLinks_same w0 cfg l
  have hg : getL d name = pure l := by simp [getL, hl]
  unfold Holds at *
  unfold removeLayer
  simp only [hg]
  mvcgen [hT, hE, hB, hX, fail, fExists, getW, holdsOnlyOwnFiles]
  all_goals first
    | (have ho := ‹onlyOwnFiles cfg l _ = true›
       exact absurd (ownOnly_of_same _ _ _ _ (by assumption) ho)
         (hst (by simpa using ‹(l.state == S_complete) = true›)))
    | (rename_i s hs _ hc
       exfalso; apply hc
       have := hs.2 _ hexp
       unfold Fs.lexists at hre ⊢
       rw [this]; exact hre)

theorem same_mono (ex ex' : List Bytes) (w0 w : World) (hsub : ∀ m ∈ ex, m ∈ ex')
    (h : Same ex w0 w) : Same ex' w0 w :=
  ⟨h.1, fun p hp => h.2 p (fun m hm => hp m (hsub m hm))⟩

/-- `remove` without `-files` when `<dir>~removed` exists, any probed state, any exit: the
    world differs from the start only at/below the layer directory itself and the export
    paths — in particular not at/below `<dir>~removed` -/
theorem removeLayer_rm_kept (cfg : Config) (d : Defs) (name : Bytes) (l : Layer) (w0 : World)
    (hl : findLayer d name = some l)
    (hre : Fs.lexists w0.fs (l.layerPath ++ removedSuffix) = true)
    (hexp : ∀ m ∈ exPaths cfg l, Fs.under m (l.layerPath ++ removedSuffix) = false) :
    ⦃fun w => ⌜Same (exPaths cfg l) w0 w⌝⦄ removeLayer cfg d name false
    ⦃post⟨fun _ w => ⌜Same (l.layerPath :: exPaths cfg l) w0 w⌝,
          fun _ w => ⌜Same (l.layerPath :: exPaths cfg l) w0 w⌝⟩⦄ := by
  have hT := testName_holds (Same (exPaths cfg l) w0) d
  have hE := errorIfError_holds (Same (exPaths cfg l) w0)
  have hB := errorIfBusy_holds (Same (exPaths cfg l) w0)
  have hX := removeLayerExportLinks_same w0 cfg l
  have hD := fsRemove_same (l.layerPath :: exPaths cfg l) w0 l.layerPath (by simp)
  have hO := reorder_holds (Same (l.layerPath :: exPaths cfg l) w0)
  have hg : getL d name = pure l := by simp [getL, hl]
  have hmono : ∀ w, Same (exPaths cfg l) w0 w → Same (l.layerPath :: exPaths cfg l) w0 w :=
    fun w h => same_mono _ _ _ _ (fun m hm => by simp [hm]) h
  unfold Holds at *
  unfold removeLayer
  simp only [hg]
  mvcgen [hT, hE, hB, hX, hD, hO, fail, fExists, getW, holdsOnlyOwnFiles]
  all_goals first
    | (apply hmono; assumption)
    | (intro h; exact h)
    | (intro h; exact hmono _ h)
    | (rename_i s hs _ hc
       exfalso; apply hc
       have := hs.2 _ hexp
       unfold Fs.lexists at hre ⊢
       rw [this]; exact hre)
    | trace_state

/-- from a triple with arbitrary normal / exceptional postconditions to the run function -/
theorem extractPost {α} (P : World → Prop) (Q : α → World → Prop) (E : Fault → World → Prop)
    (m : M α) (h : ⦃fun w => ⌜P w⌝⦄ m ⦃post⟨fun a w => ⌜Q a w⌝, fun e w => ⌜E e w⌝⟩⦄)
    (w : World) (hw : P w) :
    match (m.run.run w).1 with
    | .ok a => Q a (m.run.run w).2
    | .error e => E e (m.run.run w).2 := by
  have h2 := h w hw
  simp [wp] at h2
  generalize (StateT.run (ExceptT.run m) w) = r at h2 ⊢
  obtain ⟨a, s⟩ := r
  cases a <;> exact h2

end Lc.RemoveLayer
