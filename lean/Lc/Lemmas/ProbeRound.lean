/-
  One round of `ProbeAllLayerstate` against the documented classification: the process
  flags (`classifyUsers` vs `Spec.World.mountBusy`), the `Overlain` flag through a view of
  the mount table, non-emptiness of layer paths.  Helper lemmas for Props/C08 section 8
  (`probe_round_eq_spec`).
-/
import Lc.Lemmas.MountsView
import Lc.Lemmas.SpecForest
import Lc.Lemmas.StateProbeAll
import Lc.Lemmas.Busy

namespace Lc.StateProbe
open Lc Lc.Layers Lc.Mountinfo Lc.Layerfile Lc.Spec.World

/-! ### "same directory or below": the code's test and the manual's -/

theorem prefix_boundary (pre path : Bytes) :
    (hasPrefix path pre && (path.length == pre.length || path[pre.length]? == some 47))
      = (path == pre || hasPrefix path (pre ++ [47])) := by
  induction pre generalizing path with
  | nil =>
    cases path with
    | nil => rfl
    | cons a as =>
      simp only [hasPrefix, List.length_cons, List.length_nil, List.getElem?_cons_zero, Bool.true_and,
        List.nil_append, Bool.and_true]
      have h1 : (as.length + 1 == 0) = false := by simp
      have h2 : (a :: as == ([] : Bytes)) = false := by rfl
      rw [h1, h2]
      simp
  | cons p ps ih =>
    cases path with
    | nil => rfl
    | cons a as =>
      simp only [hasPrefix, List.length_cons, List.getElem?_cons_succ, List.cons_append]
      have hl : (as.length + 1 == ps.length + 1) = (as.length == ps.length) := by
        by_cases h : as.length = ps.length <;> simp [h]
      have he : (a :: as == p :: ps) = (a == p && as == ps) := rfl
      rw [hl, he, Bool.and_assoc, ih as, Bool.and_or_distrib_left]

/-- for a directory name that is not empty-ended with '/', the code's
    `SameDirectoryOrDescendant` is the manual's "the directory or below it" -/
theorem sameDirOrDesc_eq (path pre : Bytes) (hl : pre.getLast? ≠ some 47) :
    sameDirOrDesc path pre = inDirOrBelow path pre := by
  unfold sameDirOrDesc inDirOrBelow
  have : (pre.getLast? == some 47) = false := by simpa using hl
  rw [this, Bool.false_or]
  exact prefix_boundary pre path

/-- the `mountBusy` flag the probe computes from the process list is the documented one -/
theorem mountBusy_classify (i : Inst) (users : List (Bytes × List User)) (n : Bytes) (l : Layer)
    (h0 : l.mountBusy = false)
    (hb : i.cfg.buildRoot.getLast? ≠ some 47) (hw : i.cfg.workdir.getLast? ≠ some 47)
    (hu : i.cfg.upperdir.getLast? ≠ some 47) :
    (classifyUsers i.cfg l (usersOf users n)).mountBusy = mountBusy i users n := by
  rw [(Lc.Busy.classifyUsers_spec i.cfg (usersOf users n) l).2.1, h0, Bool.false_or]
  unfold mountBusy
  have : usersOf users n = Spec.World.usersOf users n := rfl
  rw [this]
  congr 1
  funext u
  simp only [List.any_cons, List.any_nil, Bool.or_false]
  rw [sameDirOrDesc_eq _ _ hb, sameDirOrDesc_eq _ _ hw, sameDirOrDesc_eq _ _ hu, Bool.or_assoc]

/-! ### layer paths are not empty -/

theorem pathJoin_ne_nil_of_head (a : Bytes) (rest : List Bytes) (ha : a ≠ []) : pathJoin (a :: rest) ≠ [] := by
  unfold pathJoin
  cases a with
  | nil => exact absurd rfl ha
  | cons x xs =>
    simp only [List.dropWhile_cons, List.isEmpty_cons, Bool.false_eq_true, ↓reduceIte]
    exact Lc.Lemmas.Path.pathClean_ne_nil _

theorem layerDir_ne_nil (i : Inst) (n : Bytes) (h : i.cfg.layerdirs ≠ []) : layerDir i n ≠ [] :=
  pathJoin_ne_nil_of_head _ _ h

/-! ### all import bridges of a layer, from forest correspondence and view -/

theorem importBridges_of_view (i : Inst) (ls : List DLayer) (d : Defs)
    (hforest : ForestCorr i ls d) (hview : MountsView i.mnts d.mounts)
    (dl : DLayer) (l : Layer) (hc : Corr i dl l) (hdl : findD ls dl.name = some dl)
    (hrootsome : (findLayerBase d (d.layers.length + 1) l).isSome = true)
    (hld : i.cfg.layerdirs ≠ [])
    (hsrc : ∀ m ∈ dl.file.mounts, m.source ≠ [])
    (hin : ∀ imports, expandConfigMounts i.cfg d l = .ok imports → ∀ e ∈ imports,
      inAnyLayerDirectory i.cfg (e.source.length + 1) e.source = underLayers i e.source)
    (hsa : ∀ imports, expandConfigMounts i.cfg d l = .ok imports → ∀ e ∈ imports, SourceAgree i e) :
    ∀ imports, expandConfigMounts i.cfg d l = .ok imports →
      ∀ e ∈ imports, ImportBridge i d.mounts e := by
  intro imports himp e he
  have hroot := root_agree i ls d hforest l dl hc hdl hrootsome
  refine importBridge_of_view i d.mounts hview e ?_ (hin imports himp e he) (hsa imports himp e he)
  refine expanded_source_abs i.cfg d l imports himp ?_ ?_ ?_ e he
  · rw [hc.cmounts]; exact hsrc
  · rw [hc.layerPath]; exact layerDir_ne_nil i _ hld
  · intro p hp
    rw [hroot] at hp
    cases hp
    exact layerDir_ne_nil i _ hld

/-- the busy flags of the record the round classifies are the documented ones -/
theorem busy_of_view (i : Inst) (users : List (Bytes × List User)) (dl : DLayer) (l0 l : Layer)
    (hview : MountsView i.mnts m)
    (hbp : buildPath i.cfg l0 = buildDir i dl.name)
    (hmb : l.mountBusy = mountBusy i users dl.name)
    (hov : l.overlain = (overlayLowerdirs m).contains (buildPath i.cfg l0)) :
    (l.mountBusy || l.overlain) = (mountBusy i users dl.name || overlain i dl.name) := by
  rw [hmb, hov, overlain_of_view i.mnts m hview, hbp]
  rfl

end Lc.StateProbe
