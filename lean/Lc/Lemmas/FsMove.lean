/-
  The file-system model seen through `Fs.get` across the operations the rewriting commands
  `add` and `rename` perform besides WriteLayerfile: a directory move (`Fs.rename` described
  completely by `getMoved`), `WriteTextFile` (only its own path changes).  Pure lemmas, helper
  for Lemmas/CrashAdd, Lemmas/CrashRename and Props/C11.  Core Lean only.
-/
import Lc.Lemmas.FsRename
import Lc.Lemmas.ExportFs

namespace Lc.FsMove
open Lc Lc.Fs Lc.FsRename

/-! ### two directories containing the same path are nested -/

theorem append_eq_tail_cases (a b ra rb : Bytes) (hra : Tail ra) (hrb : Tail rb)
    (h : a ++ ra = b ++ rb) : (∃ r, Tail r ∧ b = a ++ r) ∨ (∃ r, Tail r ∧ a = b ++ r) := by
  rcases List.append_eq_append_iff.mp h with ⟨c, hb, hr⟩ | ⟨c, ha, hr⟩
  · -- b = a ++ c, ra = c ++ rb
    left
    refine ⟨c, ?_, hb⟩
    rcases hra with e | ⟨r, e⟩
    · rw [e] at hr
      have : c = [] := (List.append_eq_nil_iff.mp hr.symm).1
      rw [this]; exact tail_nil
    · cases c with
      | nil => exact tail_nil
      | cons x xs =>
        rw [e] at hr
        simp only [List.cons_append, List.cons.injEq] at hr
        rw [← hr.1]; exact tail_slash xs
  · right
    refine ⟨c, ?_, ha⟩
    rcases hrb with e | ⟨r, e⟩
    · rw [e] at hr
      have : c = [] := (List.append_eq_nil_iff.mp hr.symm).1
      rw [this]; exact tail_nil
    · cases c with
      | nil => exact tail_nil
      | cons x xs =>
        rw [e] at hr
        simp only [List.cons_append, List.cons.injEq] at hr
        rw [← hr.1]; exact tail_slash xs

/-- `a/…` = `b/…` makes one of `a`, `b` lie at or below the other -/
theorem nested_of_common (a b ra rb : Bytes) (hra : Tail ra) (hrb : Tail rb)
    (h : a ++ ra = b ++ rb) : under a b = true ∨ under b a = true := by
  rcases append_eq_tail_cases a b ra rb hra hrb h with ⟨r, hr, e⟩ | ⟨r, hr, e⟩
  · left; rw [e]; exact under_append a r hr
  · right; rw [e]; exact under_append b r hr

theorem under_comparable (a b e : Bytes) (ha : a ≠ [47]) (hb : b ≠ [47])
    (h1 : under a e = true) (h2 : under b e = true) : under a b = true ∨ under b a = true := by
  obtain ⟨ra, hra, ea⟩ := (under_iff a e ha).1 h1
  obtain ⟨rb, hrb, eb⟩ := (under_iff b e hb).1 h2
  exact nested_of_common a b ra rb hra hrb (ea.symm.trans eb)

theorem under_trans (a b c : Bytes) (ha : a ≠ [47]) (hb : b ≠ [47])
    (h1 : under a b = true) (h2 : under b c = true) : under a c = true := by
  obtain ⟨r1, hr1, e1⟩ := (under_iff a b ha).1 h1
  obtain ⟨r2, hr2, e2⟩ := (under_iff b c hb).1 h2
  rw [e2, e1, List.append_assoc]
  apply under_append
  rcases hr1 with e | ⟨r, e⟩
  · rw [e]; exact hr2
  · rw [e]; exact tail_slash _

theorem ne_of_under_false (a p : Bytes) (h : under a p = false) : p ≠ a := by
  intro e; rw [e, under_self] at h; cases h

/-! ### `Fs.rename` of a directory, completely -/

/-- what is found at `p` after `old` was moved to `new`, in terms of the tree before -/
def getMoved (fs0 : Tree) (old new p : Bytes) : Option Node :=
  if under new p then Fs.get fs0 (old ++ p.drop new.length)
  else if under old p then none else Fs.get fs0 p

/-- nothing is left at or below `old` -/
theorem rename_vacates (fs fs' : Tree) (old new : Bytes) (h : rename fs old new = .ok fs')
    (hold : old ≠ [47]) (hsep : under new old = false) (p : Bytes) (hp : under old p = true) :
    Fs.get fs' p = none := by
  obtain ⟨_, hfs, hinv⟩ := rename_ok fs fs' old new h
  have hne : old ≠ new := fun e => by rw [e, under_self] at hsep; cases hsep
  have hon : under old new = false := by
    cases hu : under old new with
    | false => rfl
    | true => exact absurd ⟨hu, hne⟩ hinv
  obtain ⟨rest, hrest, hpe⟩ := (under_iff old p hold).1 hp
  rw [hfs, ExportFs.get_eq_none_iff]
  intro e' he'
  obtain ⟨e, _, rfl⟩ := List.mem_map.mp he'
  -- a key `new ++ r` (r a tail) is never `old ++ rest`
  have hkey : ∀ r, Tail r → new ++ r ≠ p := by
    intro r hr heq
    rw [hpe] at heq
    rcases nested_of_common new old r rest hr hrest heq with hx | hx
    · rw [hx] at hsep; cases hsep
    · rw [hx] at hon; cases hon
  by_cases h1 : e.1 = old
  · simp only [mv, h1, beq_self_eq_true, if_true]
    have := hkey [] tail_nil
    simpa using this
  · have h1' : (e.1 == old) = false := by simpa using h1
    by_cases h2 : under old e.1 = true
    · obtain ⟨r', hr', he⟩ := (under_iff old e.1 hold).1 h2
      simp only [mv, h1', h2, Bool.false_eq_true, if_false, if_true]
      rw [he, List.drop_left]
      exact hkey r' hr'
    · simp only [mv, h1', h2, Bool.false_eq_true, if_false]
      intro heq
      rw [heq] at h2
      exact h2 hp

/-- `Fs.rename old new` where `old` does not lie at or below `new`: every lookup afterwards -/
theorem rename_get (fs fs' : Tree) (old new : Bytes) (h : rename fs old new = .ok fs')
    (hold : old ≠ [47]) (hnew : new ≠ [47]) (hsep : under new old = false) (p : Bytes) :
    Fs.get fs' p = getMoved fs old new p := by
  obtain ⟨_, _, hinv⟩ := rename_ok fs fs' old new h
  have hne : old ≠ new := fun e => by rw [e, under_self] at hsep; cases hsep
  have hon : under old new = false := by
    cases hu : under old new with
    | false => rfl
    | true => exact absurd ⟨hu, hne⟩ hinv
  unfold getMoved
  by_cases hn : under new p = true
  · simp only [hn, if_true]
    obtain ⟨rest, hrest, hpe⟩ := (under_iff new p hnew).1 hn
    rw [hpe, List.drop_left]
    apply rename_moves fs fs' old new h hold _ rest hrest
    intro e _ hu
    cases ho : under old e.1 with
    | false => rfl
    | true =>
      rcases under_comparable new old e.1 hnew hold hu ho with hx | hx
      · rw [hx] at hsep; cases hsep
      · rw [hx] at hon; cases hon
  · have hn' : under new p = false := by simpa using hn
    simp only [hn', Bool.false_eq_true, if_false]
    by_cases ho : under old p = true
    · simp only [ho, if_true]
      exact rename_vacates fs fs' old new h hold hsep p ho
    · have ho' : under old p = false := by simpa using ho
      simp only [ho', Bool.false_eq_true, if_false]
      exact rename_keeps fs fs' old new h hold p ho' hn'

/-! ### WriteTextFile: open without truncation, then overwrite -/

theorem openWrite_get_ne (fs fs' : Tree) (f p : Bytes) (t : Bool) (h : openWrite fs f t = .ok fs')
    (hne : p ≠ f) : Fs.get fs' p = Fs.get fs p := by
  unfold openWrite at h
  split at h
  · cases h
  · injection h with h; subst h
    split <;> simp [ExportFs.get_set, hne]
  · cases h
  · split at h
    · cases h
    · split at h
      · cases h
      · injection h with h; subst h
        simp [ExportFs.get_set, hne]

theorem overwriteFile_get_ne (fs : Tree) (f p data : Bytes) (hne : p ≠ f) :
    Fs.get (overwriteFile fs f data) p = Fs.get fs p := by
  unfold overwriteFile
  split
  · simp [ExportFs.get_set, hne]
  · rfl

/-- the function `fsWriteTextFile` applies to the tree -/
def writeText (p content : Bytes) (fs : Tree) : Except String Tree := do
  let fs1 ← openWrite fs p false
  pure (overwriteFile fs1 p content)

theorem writeText_get_ne (fs fs' : Tree) (f content p : Bytes) (h : writeText f content fs = .ok fs')
    (hne : p ≠ f) : Fs.get fs' p = Fs.get fs p := by
  unfold writeText at h
  cases ho : openWrite fs f false with
  | error e => rw [ho] at h; cases h
  | ok fs1 =>
    rw [ho] at h
    simp only [bind, Except.bind, pure, Except.pure, Except.ok.injEq] at h
    subst h
    rw [overwriteFile_get_ne _ _ _ _ hne]
    exact openWrite_get_ne fs fs1 f p false ho hne

end Lc.FsMove
