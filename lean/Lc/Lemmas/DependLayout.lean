/-
  Helper lemmas for C14: whitespace layouts of token lists and what the tokenizer
  returns on them.
-/
import Lc.Model.Depend

namespace Lc.Lemmas.DependLayout
open Lc Lc.AtomParse Lc.Depend

/-- all bytes are whitespace in the code's sense (`c <= ' '`) -/
def IsWs (w : Bytes) : Prop := ∀ b ∈ w, b ≤ 32

/-- a token: non-empty, no whitespace byte -/
def IsTok (t : Bytes) : Prop := t ≠ [] ∧ ∀ b ∈ t, 32 < b

/-- `Lay toks s`: the byte string `s` is the token list `toks` laid out with arbitrary
    whitespace: any whitespace before each token, every token followed by whitespace or the
    end of input, any whitespace at the end. -/
inductive Lay : List Bytes → Bytes → Prop
  | nil {w : Bytes} : IsWs w → Lay [] w
  | cons {w tok : Bytes} {ts : List Bytes} {r : Bytes} :
      IsWs w → Lay ts r → peek r ≤ 32 → Lay (tok :: ts) (w ++ tok ++ r)

theorem lay_cons_inv {tok : Bytes} {ts : List Bytes} {s : Bytes} (h : Lay (tok :: ts) s) :
    ∃ w r, s = w ++ tok ++ r ∧ IsWs w ∧ Lay ts r ∧ peek r ≤ 32 := by
  cases h with
  | cons hw hl hr => exact ⟨_, _, rfl, hw, hl, hr⟩

theorem dropWhile_ws {w x : Bytes} (hw : IsWs w) (hx : 32 < peek x) :
    (w ++ x).dropWhile (fun c => decide (c ≤ 32)) = x := by
  induction w with
  | nil =>
    cases x with
    | nil => simp [peek] at hx
    | cons c cs =>
      simp [peek] at hx
      have hn : ¬ c ≤ 32 := by omega
      simp [List.dropWhile, hn]
  | cons c cs ih =>
    have hc : c ≤ 32 := hw c (by simp)
    simp [List.dropWhile, hc]
    exact ih (fun b hb => hw b (by simp [hb]))

theorem takeWhile_tok {tok r : Bytes} (ht : ∀ b ∈ tok, 32 < b) (hr : peek r ≤ 32) :
    (tok ++ r).takeWhile (fun c => decide (c > 32)) = tok := by
  induction tok with
  | nil =>
    cases r with
    | nil => rfl
    | cons c cs =>
      simp [peek] at hr
      have hn : ¬ 32 < c := by omega
      simp [List.takeWhile, hn]
  | cons c cs ih =>
    have hc : 32 < c := ht c (by simp)
    simp [List.takeWhile, hc]
    exact ih (fun b hb => ht b (by simp [hb]))

theorem peek_tok {tok r : Bytes} (ht : IsTok tok) : 32 < peek (tok ++ r) := by
  obtain ⟨hne, hall⟩ := ht
  cases tok with
  | nil => exact absurd rfl hne
  | cons c cs => simp [peek]; exact hall c (by simp)

/-- what `getToken` returns on a laid-out token -/
theorem getToken_lay {w tok r : Bytes} (hw : IsWs w) (ht : IsTok tok) (hr : peek r ≤ 32) :
    getToken (w ++ tok ++ r) =
      match classify tok with
      | .error e => .error e
      | .ok (ty, flag, adv) => .ok (ty, flag, (tok ++ r).drop adv) := by
  unfold getToken
  have h1 : (w ++ tok ++ r).dropWhile (fun c => decide (c ≤ 32)) = tok ++ r := by
    rw [List.append_assoc]; exact dropWhile_ws hw (peek_tok ht)
  simp only [h1]
  have h2 : (tok ++ r).isEmpty = false := by
    obtain ⟨hne, _⟩ := ht
    cases tok with
    | nil => exact absurd rfl hne
    | cons c cs => rfl
  simp only [h2]
  rw [takeWhile_tok ht.2 hr]
  rfl

/-- whitespace only: end of input -/
theorem getToken_ws {w : Bytes} (hw : IsWs w) : getToken w = .ok (.eof, [], []) := by
  unfold getToken
  have : w.dropWhile (fun c => decide (c ≤ 32)) = [] := by
    induction w with
    | nil => rfl
    | cons c cs ih =>
      have hc : c ≤ 32 := hw c (by simp)
      simp [List.dropWhile, hc]
      exact ih (fun b hb => hw b (by simp [hb]))
  simp [this]

end Lc.Lemmas.DependLayout
