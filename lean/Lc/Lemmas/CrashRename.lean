/-
  `renameLayer` as a whole, seen through `Fs.get` at every exit (normal return, error,
  injected fault, crash at any operation index).  Two phases:

  * before the directory move only the automatic export links may have been removed
    (`Same (exPaths cfg l) w0 w`, Lemmas/RemoveLayer);
  * from the move on (`MovedInv`): every admissible path holds what `getMoved` says — the
    initial tree seen through the move `old ↦ new` — or it is the layerconfig of one of the
    rewritten layers (a child with its base updated, the renamed layer at its new place) and
    holds that layer's complete new text.

  Helper lemmas for Props/C11 (crash_atomic_rename).
-/
import Lc.Lemmas.CrashAdd
import Lc.Lemmas.PretendKeeps
import Lc.Lemmas.ExportsApart

set_option mvcgen.warning false

namespace Lc.CrashRename
open Std.Do Lc Lc.Layers Lc.Layerfile Lc.Hoare Lc.Lemmas.WriteLF Lc.FsMove Lc.RemoveLayer Lc.CrashAdd

/-- the renamed layer as it is written out -/
abbrev renamed (cfg : Config) (l : Layer) (newname : Bytes) : Layer :=
  { l with name := newname, layerPath := layerPath cfg newname }

/-- the layers `renameLayer` writes out: the children of `oldname` with the new base name,
    and the renamed layer itself -/
def Rewritten (cfg : Config) (d : Defs) (oldname newname : Bytes) (l : Layer) (k' : Layer) : Prop :=
  (∃ k, k ∈ d.layers ∧ k.base = oldname ∧ k' = { k with base := newname }) ∨ k' = renamed cfg l newname

/-- the paths the statement speaks about: not at or below an automatic export link (before
    and after the move), not at or below a temporary file, not strictly below a rewritten
    layerconfig -/
def Excl (ex : List Bytes) (Rw : Layer → Prop) (old new p : Bytes) : Prop :=
  (∀ m ∈ ex, Fs.under m p = false) ∧
  (Fs.under new p = true → ∀ m ∈ ex, Fs.under m (old ++ p.drop new.length) = false) ∧
  ∀ k, Rw k → Fs.under (tmpPath k) p = false ∧ (Fs.under (cfgPath k) p = false ∨ p = cfgPath k)

def MovedInv (ex : List Bytes) (Rw : Layer → Prop) (old new : Bytes) (w0 w : World) : Prop :=
  ∀ p, Excl ex Rw old new p →
    Fs.get w.fs p = getMoved w0.fs old new p ∨
    ∃ k, Rw k ∧ p = cfgPath k ∧ Fs.get w.fs p = some (newNode k)

theorem movedInv_of_get_eq (ex Rw old new) (w0 w1 w : World) (h1 : MovedInv ex Rw old new w0 w1)
    (h : ∀ p, Excl ex Rw old new p → Fs.get w.fs p = Fs.get w1.fs p) : MovedInv ex Rw old new w0 w := by
  intro p hp
  rw [h p hp]
  exact h1 p hp

/-- the directory move, started in a world that differs from the initial one only at the
    export links -/
theorem fsRename_moved (ex : List Bytes) (Rw : Layer → Prop) (old new : Bytes) (w0 : World)
    (hp : w0.pretend = false) (hold : old ≠ [47]) (hnew : new ≠ [47]) (hsep : Fs.under new old = false) :
    ⦃fun w => ⌜Same ex w0 w⌝⦄ fsRename old new
    ⦃post⟨fun _ w => ⌜MovedInv ex Rw old new w0 w⌝, fun _ w => ⌜Same ex w0 w⌝⟩⦄ := by
  apply lift_rel (fsRename old new) _ _ (fsStep_spec _ _) (Same ex w0)
  · rintro w1 _ w hs ⟨_, h⟩
    rcases h with ⟨ht, _⟩ | ⟨_, hok⟩
    · rw [hs.1, hp] at ht; cases ht
    · intro p hex
      left
      rw [rename_get _ _ old new hok hold hnew hsep p]
      unfold getMoved
      by_cases hn : Fs.under new p = true
      · simp only [hn, if_true]
        exact hs.2 _ (hex.2.1 hn)
      · simp only [hn, Bool.false_eq_true, if_false]
        by_cases ho : Fs.under old p = true
        · simp [ho]
        · simp only [ho, Bool.false_eq_true, if_false]
          exact hs.2 _ hex.1
  · rintro w1 w hs ⟨hfs, hpr⟩
    exact ⟨hpr.trans hs.1, fun p hex => by rw [hfs]; exact hs.2 p hex⟩

/-- one rewrite after the move -/
theorem writeLayerFile_moved (ex : List Bytes) (Rw : Layer → Prop) (old new : Bytes) (w0 : World)
    (k : Layer) (hk : Rw k) : Holds (MovedInv ex Rw old new w0) (writeLayerFile k) := by
  apply lift_rel (writeLayerFile k) _ _ (writeLayerFile_spec k) (MovedInv ex Rw old new w0)
  · rintro w1 _ w h1 ⟨_, h⟩
    rcases h with ⟨_, hfs⟩ | ⟨_, hwr⟩
    · exact movedInv_of_get_eq _ _ _ _ _ _ _ h1 (fun p _ => by rw [hfs])
    · intro p hex
      obtain ⟨hT, hC⟩ := hex.2.2 k hk
      rcases hC with hC | hC
      · rw [hwr.2 p hC hT]; exact h1 p hex
      · right; exact ⟨k, hk, hC, by rw [hC]; exact hwr.1⟩
  · rintro w1 w h1 hfr
    apply movedInv_of_get_eq _ _ _ _ _ _ _ h1
    intro p hex
    exact hfr.1 p (ne_of_under_false _ _ (hex.2.2 k hk).1)

/-- the children in the order `renameLayer` visits them are children -/
theorem kids_mem (d : Defs) (oldname : Bytes) (childOrder : List Bytes) (k : Layer)
    (h : k ∈ (childOrder.filterMap fun n => (d.layers.filter (·.base == oldname)).find? (·.name == n))
            ++ (d.layers.filter (·.base == oldname)).filter (fun k => !childOrder.contains k.name)) :
    k ∈ d.layers ∧ k.base = oldname := by
  have hf : ∀ k, k ∈ d.layers.filter (·.base == oldname) → k ∈ d.layers ∧ k.base = oldname := by
    intro k hk
    have := List.mem_filter.mp hk
    exact ⟨this.1, by simpa using this.2⟩
  rcases List.mem_append.mp h with h | h
  · obtain ⟨n, _, hn⟩ := List.mem_filterMap.mp h
    exact hf k (List.mem_of_find?_eq_some hn)
  · exact hf k (List.mem_filter.mp h).1

/-- what holds at every exit of `renameLayer` -/
def RenPost (cfg : Config) (d : Defs) (oldname newname : Bytes) (l : Layer) (w0 w : World) : Prop :=
  Same (exPaths cfg l) w0 w ∨
  MovedInv (exPaths cfg l) (Rewritten cfg d oldname newname l) l.layerPath (layerPath cfg newname) w0 w

theorem renameLayer_spec (cfg : Config) (d : Defs) (oldname newname : Bytes) (childOrder : List Bytes)
    (l : Layer) (w0 : World) (hl : findLayer d oldname = some l) (hp : w0.pretend = false)
    (hold : l.layerPath ≠ [47]) (hnew : layerPath cfg newname ≠ [47])
    (hsep : Fs.under (layerPath cfg newname) l.layerPath = false) :
    ⦃fun w => ⌜Same (exPaths cfg l) w0 w⌝⦄ renameLayer cfg d oldname newname childOrder
    ⦃post⟨fun _ w => ⌜RenPost cfg d oldname newname l w0 w⌝,
          fun _ w => ⌜RenPost cfg d oldname newname l w0 w⌝⟩⦄ := by
  have hT := testName_holds (Same (exPaths cfg l) w0) d
  have hE := errorIfError_holds (Same (exPaths cfg l) w0)
  have hB := errorIfBusy_holds (Same (exPaths cfg l) w0)
  have hX := removeLayerExportLinks_same w0 cfg l
  have hMv := fsRename_moved (exPaths cfg l) (Rewritten cfg d oldname newname l) l.layerPath
    (layerPath cfg newname) w0 hp hold hnew hsep
  have hW := writeLayerFile_moved (exPaths cfg l) (Rewritten cfg d oldname newname l) l.layerPath
    (layerPath cfg newname) w0
  have hO := reorder_holds (MovedInv (exPaths cfg l) (Rewritten cfg d oldname newname l) l.layerPath
    (layerPath cfg newname) w0)
  have hg : getL d oldname = pure l := by simp [getL, hl]
  unfold Holds at *
  unfold renameLayer
  simp only [hg]
  mvcgen [hT, hE, hB, hX, hMv, hW, hO, fail]
  case inv1 =>
    exact post⟨fun _ w => ⌜MovedInv (exPaths cfg l) (Rewritten cfg d oldname newname l) l.layerPath
        (layerPath cfg newname) w0 w⌝,
      fun _ w => ⌜MovedInv (exPaths cfg l) (Rewritten cfg d oldname newname l) l.layerPath
        (layerPath cfg newname) w0 w⌝⟩
  all_goals first
    | (exact Or.inl ‹Same _ _ _›)
    | (exact Or.inr ‹MovedInv _ _ _ _ _ _›)
    | (intro h; exact Or.inl h)
    | (intro h; exact Or.inr h)
    | (intro s h; exact h)
    | (exact ‹MovedInv _ _ _ _ _ _›)
    | (exact Or.inr rfl)
    | (rename_i pref cur suff hsplit b s hinv
       have hm := kids_mem d oldname childOrder cur (by rw [hsplit]; simp)
       exact Or.inl ⟨cur, hm.1, hm.2, rfl⟩)
    | (simp; exact ⟨fun e s h => Or.inr h, trivial⟩)

/-! ### every run, layers placed as `findLayers` places them -/

open Lc.LayerPaths Lc.ExportPath Lc.FsRename

open Lc.RunM in
/-- a new name that is empty, illegal or in use is refused before anything happens -/
theorem renameLayer_rejected (cfg : Config) (d : Defs) (old new : Bytes) (co : List Bytes) (w : World)
    (h : testName1 d new NAME_FREE = false) :
    (renameLayer cfg d old new co).run.run w = (.error (.err "name"), w) := by
  unfold renameLayer testName fail
  simp only [List.all_cons, h, Bool.false_and, Bool.and_false, run_bind, run_throw, Bool.false_eq_true,
    if_false]

theorem prefix_name_ne_root (D n : Bytes) (hn : CleanName n) : D ++ n ≠ [47] := by
  obtain ⟨x, xs, rfl, hx⟩ := clean_not_abs n hn
  cases D with
  | nil => intro h; simp only [List.nil_append, List.cons.injEq] at h; exact hx h.1
  | cons y ys => intro h; have := congrArg List.length h; simp at this

theorem sep_dir (D n m X : Bytes) (hn : CleanName n) (hm : CleanName m) (hne : n ≠ m) (hX : Tail X) :
    Fs.under (D ++ n) (D ++ (m ++ X)) = false := by
  simpa using sep_names D n m [] X hn hm hne tail_nil hX

/-- the final world of every run (pretending or not, refused or not) -/
theorem renameLayer_post (cfg : Config) (d : Defs) (oldname newname : Bytes) (childOrder : List Bytes)
    (l : Layer) (w0 : World) (hl : findLayer d oldname = some l) (hpl : Placed cfg l) :
    RenPost cfg d oldname newname l w0 ((renameLayer cfg d oldname newname childOrder).run.run w0).2 := by
  cases hp : w0.pretend with
  | true =>
    have := Hoare.extract (Pretend.PInv w0) _ (Pretend.renameLayer_keeps w0 cfg d oldname newname childOrder)
      w0 ⟨rfl, rfl, rfl, rfl, hp⟩
    left
    exact ⟨this.2.2.2.2.trans hp.symm, fun p _ => by rw [this.1]⟩
  | false =>
    cases ht : testName1 d newname NAME_FREE with
    | false =>
      left
      rw [renameLayer_rejected cfg d oldname newname childOrder w0 ht]
      exact same_refl _ _
    | true =>
      obtain ⟨hn1, hn2, hn3⟩ := (free_iff d newname).mp ht
      have hcn : CleanName newname := legal_clean newname hn1 hn2
      obtain ⟨hlm, hln⟩ := findLayer_name d oldname l hl
      have hco : CleanName l.name := placed_clean cfg l hpl
      have hne : newname ≠ l.name := fun e => findLayer_none d newname hn3 l hlm e.symm
      obtain ⟨D, hD⟩ := layer_paths cfg
      have hO := (placed_cfg cfg D hD l hpl).1
      have hN := (hD newname hcn).1
      have hold : l.layerPath ≠ [47] := by rw [hO]; exact prefix_name_ne_root D _ hco
      have hnew : layerPath cfg newname ≠ [47] := by rw [hN]; exact prefix_name_ne_root D _ hcn
      have hsep : Fs.under (layerPath cfg newname) l.layerPath = false := by
        rw [hO, hN]
        simpa using sep_dir D newname l.name [] hcn hco hne tail_nil
      have h := extractPost _ _ _ _
        (renameLayer_spec cfg d oldname newname childOrder l w0 hl hp hold hnew hsep) w0 (same_refl _ w0)
      split at h <;> exact h

/-- what is found after the move at the new place of a path below the old directory -/
theorem getMoved_new (fs : Fs.Tree) (old new rest : Bytes) (hr : Tail rest) :
    getMoved fs old new (new ++ rest) = Fs.get fs (old ++ rest) := by
  unfold getMoved
  rw [under_append new rest hr, List.drop_left]
  rfl

theorem getMoved_other (fs : Fs.Tree) (old new p : Bytes) (h1 : Fs.under new p = false)
    (h2 : Fs.under old p = false) : getMoved fs old new p = Fs.get fs p := by
  unfold getMoved
  simp [h1, h2]

/-- Every layerconfig, layer by layer.  `d` is a table as `findLayers` builds it: every layer
    placed (`Placed`), names unique. -/
theorem rename_layers (cfg : Config) (d : Defs) (oldname newname : Bytes) (childOrder : List Bytes)
    (l : Layer) (w0 : World) (hl : findLayer d oldname = some l) (hd : ∀ k ∈ d.layers, Placed cfg k)
    (hu : ∀ a ∈ d.layers, ∀ b ∈ d.layers, a.name = b.name → a = b) :
    let w := ((renameLayer cfg d oldname newname childOrder).run.run w0).2
    let l' := renamed cfg l newname
    (∀ p, (∀ m ∈ exPaths cfg l, Fs.under m p = false) → Fs.get w.fs p = Fs.get w0.fs p) ∨
    (((∀ m ∈ exPaths cfg l, Fs.under m (layerconfigPath l) = false) →
      (∀ m ∈ exPaths cfg l, Fs.under m (layerconfigPath l') = false) →
        Fs.get w.fs (layerconfigPath l') = Fs.get w0.fs (layerconfigPath l) ∨
        Fs.get w.fs (layerconfigPath l') = some (newNode l')) ∧
     ∀ k ∈ d.layers, k.name ≠ oldname → (∀ m ∈ exPaths cfg l, Fs.under m (layerconfigPath k) = false) →
      (k.base = oldname →
        Fs.get w.fs (layerconfigPath k) = Fs.get w0.fs (layerconfigPath k) ∨
        Fs.get w.fs (layerconfigPath k) = some (newNode { k with base := newname })) ∧
      (k.base ≠ oldname → Fs.get w.fs (layerconfigPath k) = Fs.get w0.fs (layerconfigPath k))) := by
  intro w l'
  obtain ⟨hlm, hln⟩ := findLayer_name d oldname l hl
  have hpl := hd l hlm
  cases ht : testName1 d newname NAME_FREE with
  | false =>
    left
    intro p _
    show Fs.get ((renameLayer cfg d oldname newname childOrder).run.run w0).2.fs p = _
    rw [renameLayer_rejected cfg d oldname newname childOrder w0 ht]
  | true =>
  rcases renameLayer_post cfg d oldname newname childOrder l w0 hl hpl with hs | hm
  · exact Or.inl hs.2
  right
  obtain ⟨hn1, hn2, hn3⟩ := (free_iff d newname).mp ht
  have hcn : CleanName newname := legal_clean newname hn1 hn2
  have hnone := findLayer_none d newname hn3
  have hco : CleanName oldname := hln ▸ placed_clean cfg l hpl
  have hne : oldname ≠ newname := fun e => hnone l hlm (hln.trans e)
  obtain ⟨D, hD⟩ := layer_paths cfg
  have hO : l.layerPath = D ++ oldname := hln ▸ (placed_cfg cfg D hD l hpl).1
  have hN : layerPath cfg newname = D ++ newname := (hD newname hcn).1
  have hcl : layerconfigPath l = D ++ (oldname ++ 47 :: lcName) := hln ▸ (placed_cfg cfg D hD l hpl).2
  have hcl' : layerconfigPath l' = D ++ (newname ++ 47 :: lcName) := (hD newname hcn).2
  -- the rewritten layers against a layerconfig `D/n/layerconfig`
  have hRw : ∀ n, CleanName n → ∀ k'', Rewritten cfg d oldname newname l k'' →
      Fs.under (tmpPath k'') (D ++ (n ++ 47 :: lcName)) = false ∧
      (Fs.under (cfgPath k'') (D ++ (n ++ 47 :: lcName)) = false ∨ D ++ (n ++ 47 :: lcName) = cfgPath k'') := by
    intro n hn k'' hk''
    rcases hk'' with ⟨k2, hk2, _, rfl⟩ | rfl
    · show Fs.under (layerconfigPath k2 ++ tmpSuffix) _ = false ∧
        (Fs.under (layerconfigPath k2) _ = false ∨ _ = layerconfigPath k2)
      rw [(placed_cfg cfg D hD k2 (hd k2 hk2)).2]
      exact cfg_vs D n k2.name hn (placed_clean cfg k2 (hd k2 hk2))
    · show Fs.under (layerconfigPath l' ++ tmpSuffix) _ = false ∧
        (Fs.under (layerconfigPath l') _ = false ∨ _ = layerconfigPath l')
      rw [hcl']
      exact cfg_vs D n newname hn hcn
  -- which rewritten layer owns the layerconfig `D/n/layerconfig`
  have hAt : ∀ n, CleanName n → ∀ k'', Rewritten cfg d oldname newname l k'' →
      D ++ (n ++ 47 :: lcName) = cfgPath k'' →
      (∃ k2 ∈ d.layers, k2.base = oldname ∧ k2.name = n ∧ k'' = { k2 with base := newname }) ∨
      (n = newname ∧ k'' = l') := by
    intro n hn k'' hk'' he
    rcases hk'' with ⟨k2, hk2, hb2, rfl⟩ | rfl
    · left
      have he' : D ++ (n ++ 47 :: lcName) = layerconfigPath k2 := he
      rw [(placed_cfg cfg D hD k2 (hd k2 hk2)).2] at he'
      exact ⟨k2, hk2, hb2, (cfg_inj D _ _ hn (placed_clean cfg k2 (hd k2 hk2)) he').symm, rfl⟩
    · right
      have he' : D ++ (n ++ 47 :: lcName) = layerconfigPath l' := he
      rw [hcl'] at he'
      exact ⟨cfg_inj D _ _ hn hcn he', rfl⟩
  have hsplit : ∀ n, D ++ (n ++ 47 :: lcName) = (D ++ n) ++ 47 :: lcName := by
    intro n; simp
  refine ⟨?_, ?_⟩
  · -- the renamed layer
    intro hex1 hex2
    have hexcl : Excl (exPaths cfg l) (Rewritten cfg d oldname newname l) l.layerPath
        (layerPath cfg newname) (layerconfigPath l') := by
      refine ⟨hex2, ?_, ?_⟩
      · intro _
        rw [hcl', hsplit, hN, List.drop_left, hO, ← hsplit, ← hcl]
        exact hex1
      · rw [hcl']; exact hRw newname hcn
    rcases hm _ hexcl with h1 | ⟨k'', hk'', he, hg⟩
    · left
      rw [h1, hcl', hsplit, hN, getMoved_new _ _ _ _ tail_lc, hO, ← hsplit, ← hcl]
    · right
      rw [hcl'] at he
      rcases hAt newname hcn k'' hk'' he with ⟨k2, hk2, _, hn2', _⟩ | ⟨_, rfl⟩
      · exact absurd hn2' (hnone k2 hk2)
      · exact hg
  · -- every other layer
    intro k hk hkn hex
    have hpk := hd k hk
    have hck := placed_clean cfg k hpk
    have hkc := (placed_cfg cfg D hD k hpk).2
    have hkn' : k.name ≠ newname := hnone k hk
    have hun : Fs.under (layerPath cfg newname) (layerconfigPath k) = false := by
      rw [hN, hkc]; exact sep_dir D newname k.name _ hcn hck (fun e => hkn' e.symm) tail_lc
    have huo : Fs.under l.layerPath (layerconfigPath k) = false := by
      rw [hO, hkc]; exact sep_dir D oldname k.name _ hco hck (fun e => hkn e.symm) tail_lc
    have hexcl : Excl (exPaths cfg l) (Rewritten cfg d oldname newname l) l.layerPath
        (layerPath cfg newname) (layerconfigPath k) := by
      refine ⟨hex, ?_, ?_⟩
      · intro h; rw [hun] at h; cases h
      · rw [hkc]; exact hRw k.name hck
    have hgm := getMoved_other w0.fs l.layerPath (layerPath cfg newname) _ hun huo
    rcases hm _ hexcl with h1 | ⟨k'', hk'', he, hg⟩
    · rw [hgm] at h1
      exact ⟨fun _ => Or.inl h1, fun _ => h1⟩
    · rw [hkc] at he
      rcases hAt k.name hck k'' hk'' he with ⟨k2, hk2, hb2, hn2', rfl⟩ | ⟨e, _⟩
      · have : k2 = k := hu k2 hk2 k hk hn2'
        subst this
        exact ⟨fun _ => Or.inr hg, fun hb => absurd hb2 hb⟩
      · exact absurd e hkn'

/-! ### the export-link clauses of `Excl`, from the configuration (`ExportsApart`) -/

open Lc.ExportsApart

/-- `Excl` without its export-link clauses, for paths in the layer directories -/
def ExclIn (cfg : Config) (Rw : Layer → Prop) (p : Bytes) : Prop :=
  InLayerDirs cfg p ∧
  ∀ k, Rw k → Fs.under (tmpPath k) p = false ∧ (Fs.under (cfgPath k) p = false ∨ p = cfgPath k)

theorem excl_of_apart (cfg : Config) (hA : ExportsApart cfg) (l : Layer) (hl : Placed cfg l)
    (Rw : Layer → Prop) (new p : Bytes) (hnew : new ≠ [47]) (h : ExclIn cfg Rw p) :
    Excl (exPaths cfg l) Rw l.layerPath new p := by
  refine ⟨exportsApart_exPaths cfg hA l hl p h.1, ?_, h.2⟩
  intro hu
  obtain ⟨rest, hr, e⟩ := (under_iff new p hnew).1 hu
  rw [e, List.drop_left]
  exact exportsApart_exPaths cfg hA l hl _
    (inLayerDirs_of_under cfg l hl _ (under_append l.layerPath rest hr))

/-- `renameLayer_post` with the export-link clauses discharged -/
theorem renameLayer_post_apart (cfg : Config) (d : Defs) (oldname newname : Bytes) (childOrder : List Bytes)
    (l : Layer) (w0 : World) (hl : findLayer d oldname = some l) (hpl : Placed cfg l)
    (hA : ExportsApart cfg) :
    let w := ((renameLayer cfg d oldname newname childOrder).run.run w0).2
    (∀ p, InLayerDirs cfg p → Fs.get w.fs p = Fs.get w0.fs p) ∨
    (∀ p, ExclIn cfg (Rewritten cfg d oldname newname l) p →
      Fs.get w.fs p = getMoved w0.fs l.layerPath (layerPath cfg newname) p ∨
      ∃ k, Rewritten cfg d oldname newname l k ∧ p = cfgPath k ∧ Fs.get w.fs p = some (newNode k)) := by
  intro w
  cases ht : testName1 d newname NAME_FREE with
  | false =>
    left
    intro p _
    show Fs.get ((renameLayer cfg d oldname newname childOrder).run.run w0).2.fs p = _
    rw [renameLayer_rejected cfg d oldname newname childOrder w0 ht]
  | true =>
    obtain ⟨hn1, hn2, _⟩ := (free_iff d newname).mp ht
    have hnew : layerPath cfg newname ≠ [47] :=
      placed_ne_root cfg _ (placed_renamed cfg l newname hn1 hn2)
    rcases renameLayer_post cfg d oldname newname childOrder l w0 hl hpl with h | h
    · exact Or.inl (fun p hin => h.2 p (exportsApart_exPaths cfg hA l hpl p hin))
    · exact Or.inr (fun p hex => h p (excl_of_apart cfg hA l hpl _ _ p hnew hex))

/-- `rename_layers` with the export-link premises discharged -/
theorem rename_layers_apart (cfg : Config) (d : Defs) (oldname newname : Bytes) (childOrder : List Bytes)
    (l : Layer) (w0 : World) (hl : findLayer d oldname = some l) (hd : ∀ k ∈ d.layers, Placed cfg k)
    (hu : ∀ a ∈ d.layers, ∀ b ∈ d.layers, a.name = b.name → a = b) (hA : ExportsApart cfg) :
    let w := ((renameLayer cfg d oldname newname childOrder).run.run w0).2
    let l' := renamed cfg l newname
    (∀ p, InLayerDirs cfg p → Fs.get w.fs p = Fs.get w0.fs p) ∨
    ((Fs.get w.fs (layerconfigPath l') = Fs.get w0.fs (layerconfigPath l) ∨
      Fs.get w.fs (layerconfigPath l') = some (newNode l')) ∧
     ∀ k ∈ d.layers, k.name ≠ oldname →
      (k.base = oldname →
        Fs.get w.fs (layerconfigPath k) = Fs.get w0.fs (layerconfigPath k) ∨
        Fs.get w.fs (layerconfigPath k) = some (newNode { k with base := newname })) ∧
      (k.base ≠ oldname → Fs.get w.fs (layerconfigPath k) = Fs.get w0.fs (layerconfigPath k))) := by
  intro w l'
  obtain ⟨hlm, _⟩ := findLayer_name d oldname l hl
  have hpl := hd l hlm
  cases ht : testName1 d newname NAME_FREE with
  | false =>
    left
    intro p _
    show Fs.get ((renameLayer cfg d oldname newname childOrder).run.run w0).2.fs p = _
    rw [renameLayer_rejected cfg d oldname newname childOrder w0 ht]
  | true =>
    obtain ⟨hn1, hn2, _⟩ := (free_iff d newname).mp ht
    have hpl' : Placed cfg l' := placed_renamed cfg l newname hn1 hn2
    have hex : ∀ k, Placed cfg k → ∀ m ∈ exPaths cfg l, Fs.under m (layerconfigPath k) = false :=
      fun k hk => exportsApart_exPaths cfg hA l hpl _ (inLayerDirs_layerconfig cfg k hk)
    rcases rename_layers cfg d oldname newname childOrder l w0 hl hd hu with h | ⟨h1, h2⟩
    · exact Or.inl (fun p hin => h p (exportsApart_exPaths cfg hA l hpl p hin))
    · exact Or.inr ⟨h1 (hex l hpl) (hex l' hpl'), fun k hk hkn => h2 k hk hkn (hex k (hd k hk))⟩

end Lc.CrashRename
