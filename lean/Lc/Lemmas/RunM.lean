/-
  Evaluation lemmas for `(m : M α).run.run w` (M = ExceptT Fault (StateM World)): enough
  to compute, by `simp only`, the outcome of a command that fails before any mutation
  (guards of remove / rename / rebase / add / umount).  Helper lemmas for Props/C02, C04.
-/
import Lc.Model.Layers

namespace Lc.RunM
open Lc Lc.Layers

theorem run_pure {α} (a : α) (w : World) : (pure a : M α).run.run w = (.ok a, w) := rfl

theorem run_throw {α} (e : Fault) (w : World) : (throw e : M α).run.run w = (.error e, w) := rfl

theorem run_fail {α} (c : String) (w : World) : (fail c : M α).run.run w = (.error (.err c), w) := rfl

theorem run_getW (w : World) : getW.run.run w = (.ok w, w) := rfl

theorem run_bind {α β} (x : M α) (f : α → M β) (w : World) :
    (x >>= f).run.run w = match x.run.run w with
      | (.ok a, w') => (f a).run.run w'
      | (.error e, w') => (.error e, w') := by
  simp only [ExceptT.run_bind, StateT.run_bind]
  generalize StateT.run (ExceptT.run x) w = r
  obtain ⟨a, w'⟩ := r
  cases a <;> rfl

theorem run_ite {α} (c : Prop) [Decidable c] (x y : M α) (w : World) :
    (if c then x else y).run.run w = if c then x.run.run w else y.run.run w := by
  split <;> rfl

theorem run_liftRes {α} (r : Res α) (w : World) :
    (liftRes r).run.run w = (r, w) := by
  unfold liftRes
  cases r <;> rfl

/-- sequencing after a step that ends normally -/
theorem bind_ok {α β} (x : M α) (f : α → M β) (w w' : World) (a : α)
    (h : x.run.run w = (.ok a, w')) : (x >>= f).run.run w = (f a).run.run w' := by
  rw [run_bind, h]

/-- sequencing after a step that fails -/
theorem bind_err {α β} (x : M α) (f : α → M β) (w w' : World) (e : Fault)
    (h : x.run.run w = (.error e, w')) : (x >>= f).run.run w = (.error e, w') := by
  rw [run_bind, h]

end Lc.RunM
