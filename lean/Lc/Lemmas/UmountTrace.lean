/-
  The trace of `unmountLayer` / `unmountCmd` (helper lemmas for Props/C03).
  The pretend switch `p` is carried along: with `p = true` nothing is issued, with
  `p = false` the unmount calls are exactly those of `l.mounts` in reverse order.
-/
import Lc.Lemmas.Trace
import Lc.Lemmas.SortBy

namespace Lc.UmountTrace
open Std.Do Lc Lc.Layers Lc.Hoare Lc.Mountinfo Lc.Trace

set_option mvcgen.warning false

/-- the target of an unmount call -/
def opTarget : Op → Option Bytes
  | .umount t _ => some t
  | _ => none

/-- `s` consists of unmount calls only, with exactly the targets `tgts`, in this order -/
def UmountsOf (tgts : List Bytes) (s : List Op) : Prop := s.map opTarget = tgts.map some

theorem UmountsOf.nil : UmountsOf [] [] := rfl

theorem UmountsOf.snoc {tgts : List Bytes} {s : List Op} (h : UmountsOf tgts s) (t : Bytes) (fl : Nat) :
    UmountsOf (tgts ++ [t]) (s ++ [Op.umount t fl]) := by
  unfold UmountsOf at *
  simp [h, opTarget]

theorem UmountsOf.only {tgts : List Bytes} {s : List Op} (h : UmountsOf tgts s) :
    ∀ op ∈ s, ∃ t fl, op = Op.umount t fl ∧ t ∈ tgts := by
  induction s generalizing tgts with
  | nil => intro op hop; cases hop
  | cons x xs ih =>
    cases tgts with
    | nil => simp [UmountsOf] at h
    | cons t ts =>
      simp only [UmountsOf, List.map_cons, List.cons.injEq] at h
      intro op hop
      rcases List.mem_cons.mp hop with hop | hop
      · subst hop
        cases op with
        | umount t' fl => simp [opTarget] at h; exact ⟨t', fl, rfl, by simp [h.1]⟩
        | _ => simp [opTarget] at h
      · obtain ⟨t', fl, ho, ht⟩ := ih (tgts := ts) h.2 op hop
        exact ⟨t', fl, ho, List.mem_cons_of_mem _ ht⟩

/-! ### primitives with the pretend switch -/

theorem gate_p (p : Bool) (t : List Op) :
    ⦃fun w => ⌜w.trace = t ∧ w.pretend = p⌝⦄ gate
    ⦃post⟨fun r w => ⌜r = !p ∧ w.trace = t ∧ w.pretend = p⌝, fun _ w => ⌜w.trace = t ∧ w.pretend = p⌝⟩⦄ := by
  mvcgen [gate, getW, setW, fail]
  all_goals simp_all

theorem fsUnmount_p (tgt : Bytes) (p : Bool) (t : List Op) :
    ⦃fun w => ⌜w.trace = t ∧ w.pretend = p⌝⦄ fsUnmount tgt
    ⦃post⟨fun _ w => ⌜((p = true ∧ w.trace = t) ∨ (p = false ∧ ∃ fl, w.trace = t ++ [Op.umount tgt fl]))
                      ∧ w.pretend = p⌝,
          fun _ w => ⌜(w.trace = t ∨ (p = false ∧ ∃ fl, w.trace = t ++ [Op.umount tgt fl])) ∧ w.pretend = p⌝⟩⦄ := by
  mvcgen [fsUnmount, gate_p, record, getW, setW, fail]
  all_goals (try intros)
  all_goals simp_all (config := { zetaDelta := true })

theorem getL_p (d : Defs) (n : Bytes) (p : Bool) (t : List Op) :
    ⦃fun w => ⌜w.trace = t ∧ w.pretend = p⌝⦄ getL d n
    ⦃post⟨fun l w => ⌜(w.trace = t ∧ findLayer d n = some l) ∧ w.pretend = p⌝,
          fun _ w => ⌜w.trace = t ∧ w.pretend = p⌝⟩⦄ := by
  unfold getL
  split <;> mvcgen
  all_goals simp_all

theorem liftRes_p {α} (r : Res α) (p : Bool) (t : List Op) :
    ⦃fun w => ⌜w.trace = t ∧ w.pretend = p⌝⦄ liftRes r
    ⦃post⟨fun _ w => ⌜w.trace = t ∧ w.pretend = p⌝, fun _ w => ⌜w.trace = t ∧ w.pretend = p⌝⟩⦄ := by
  unfold liftRes
  split <;> mvcgen

theorem refreshMountInfo_p (cfg : Config) (d : Defs) (p : Bool) (t : List Op) :
    ⦃fun w => ⌜w.trace = t ∧ w.pretend = p⌝⦄ refreshMountInfo cfg d
    ⦃post⟨fun _ w => ⌜w.trace = t ∧ w.pretend = p⌝, fun _ w => ⌜w.trace = t ∧ w.pretend = p⌝⟩⦄ := by
  mvcgen [refreshMountInfo, getW, liftRes_p]
  all_goals simp_all

/-! ### `unmountLayer` in blocks -/

def unmountMounts (ms : List MountType) : M PUnit :=
  forIn ms PUnit.unit fun m _ => do
    fsUnmount m.mountpoint
    pure (ForInStep.yield PUnit.unit)

theorem unmountLayer_eq (cfg : Config) (d : Defs) (name : Bytes) :
    unmountLayer cfg d name = (do
      let l ← getL d name
      if isBusy l false then return (.busy, d)
      if l.mounts.length == 0 then return (.notMounted, d)
      unmountMounts l.mounts.reverse
      let d ← refreshMountInfo cfg d
      let l ← getL d name
      let l' ← liftRes (findLayerstate cfg (← getW).fs d l)
      pure (.ok, setLayer d l')) := rfl

/-- the mountpoints `unmountLayer` goes through, in issue order -/
def issueOrder (l : Layer) : List Bytes := l.mounts.reverse.map (·.mountpoint)

theorem unmountMounts_p (ms : List MountType) (p : Bool) (t : List Op) :
    ⦃fun w => ⌜w.trace = t ∧ w.pretend = p⌝⦄ unmountMounts ms
    ⦃post⟨fun _ w => ⌜(∃ s, w.trace = t ++ s ∧
              ((p = true ∧ s = []) ∨ (p = false ∧ UmountsOf (ms.map (·.mountpoint)) s))) ∧ w.pretend = p⌝,
          fun _ w => ⌜(∃ s, w.trace = t ++ s ∧
              ((p = true ∧ s = []) ∨ (p = false ∧ ∃ pre rest, ms.map (·.mountpoint) = pre ++ rest ∧ UmountsOf pre s)))
              ∧ w.pretend = p⌝⟩⦄ := by
  mvcgen [unmountMounts, fsUnmount_p]
  case inv1 =>
    exact post⟨fun (xs, _) w => ⌜(∃ s, w.trace = t ++ s ∧
              ((p = true ∧ s = []) ∨ (p = false ∧ UmountsOf (xs.prefix.map (·.mountpoint)) s))) ∧ w.pretend = p⌝,
          fun _ w => ⌜(∃ s, w.trace = t ++ s ∧
              ((p = true ∧ s = []) ∨ (p = false ∧ ∃ pre rest, ms.map (·.mountpoint) = pre ++ rest ∧ UmountsOf pre s)))
              ∧ w.pretend = p⌝⟩
  all_goals (try intros)
  case vc1 =>
    dsimp only
    refine ⟨⟨[], by simp_all, ?_⟩, by simp_all⟩
    cases p
    · exact .inr ⟨rfl, UmountsOf.nil⟩
    · exact .inl ⟨rfl, rfl⟩
  case vc2 => rename_i h; exact h
  case vc3 => simp
  case vc4 =>
    rename_i hinv _ _ hstep
    dsimp only at hinv ⊢
    obtain ⟨⟨s, e, hs⟩, hp⟩ := hinv
    obtain ⟨hstep, hp'⟩ := hstep
    refine ⟨?_, by simp_all⟩
    rcases hstep with ⟨h1, h2⟩ | ⟨h1, fl, h2⟩
    · rcases hs with ⟨_, hs⟩ | ⟨hpf, _⟩
      · exact ⟨s, by simp_all, .inl ⟨by simp_all, hs⟩⟩
      · simp_all
    · rcases hs with ⟨hpt, _⟩ | ⟨hpf, hs⟩
      · simp_all
      · exact ⟨s ++ [.umount _ fl], by rw [h2, e, List.append_assoc], .inr ⟨hpf, by simpa using hs.snoc _ fl⟩⟩
  case vc5 =>
    rename_i pref cur suff hms _ _ hinv _ _ hstep hp'
    dsimp only at hinv ⊢
    obtain ⟨⟨s, e, hs⟩, hp⟩ := hinv
    refine ⟨?_, by simp_all⟩
    rcases hs with ⟨hpt, hs⟩ | ⟨hpf, hs⟩
    · refine ⟨s, ?_, .inl ⟨hpt, hs⟩⟩
      rcases hstep with h | ⟨h1, _⟩
      · simp_all
      · simp_all
    · rcases hstep with h | ⟨h1, fl, h2⟩
      · exact ⟨s, by simp_all, .inr ⟨hpf, _, _, by rw [hms, List.map_append], hs⟩⟩
      · refine ⟨s ++ [.umount _ fl], by rw [h2, e, List.append_assoc],
          .inr ⟨hpf, _, suff.map (·.mountpoint), ?_, hs.snoc _ fl⟩⟩
        rw [hms]; simp

/-- normal exit of `unmountLayer d n` under pretend switch `p`: status, returned `Defs`, trace -/
def UnmountN (d : Defs) (n : Bytes) (p : Bool) (st : UStatus) (d' : Defs) (s : List Op) : Prop :=
  ∃ l, findLayer d n = some l ∧
    ((st = .busy ∧ isBusy l false = true ∧ s = [] ∧ d' = d) ∨
     (st = .notMounted ∧ isBusy l false = false ∧ l.mounts.length = 0 ∧ s = [] ∧ d' = d) ∨
     (st = .ok ∧ isBusy l false = false ∧ l.mounts.length ≠ 0 ∧
        ((p = true ∧ s = []) ∨ (p = false ∧ UmountsOf (issueOrder l) s))))

/-- error exit: nothing, or an initial part of the issue order of an idle layer -/
def UnmountE (d : Defs) (n : Bytes) (p : Bool) (s : List Op) : Prop :=
  s = [] ∨ ∃ l, findLayer d n = some l ∧ isBusy l false = false ∧ p = false ∧
    ∃ pre rest, issueOrder l = pre ++ rest ∧ UmountsOf pre s

theorem UnmountN.okI {d : Defs} {n : Bytes} {p : Bool} {l : Layer} {s : List Op}
    (hl : findLayer d n = some l) (hb : ¬ isBusy l false = true) (hm : ¬ (l.mounts.length == 0) = true)
    (hs : (p = true ∧ s = []) ∨ (p = false ∧ UmountsOf (l.mounts.reverse.map (·.mountpoint)) s)) (d' : Defs) :
    UnmountN d n p .ok d' s :=
  ⟨l, hl, .inr (.inr ⟨rfl, by simpa using hb, by simpa using hm, hs⟩)⟩

theorem UnmountE.ofFull {d : Defs} {n : Bytes} {p : Bool} {l : Layer} {s : List Op}
    (hl : findLayer d n = some l) (hb : ¬ isBusy l false = true)
    (hs : (p = true ∧ s = []) ∨ (p = false ∧ UmountsOf (l.mounts.reverse.map (·.mountpoint)) s)) :
    UnmountE d n p s := by
  rcases hs with ⟨_, hs⟩ | ⟨hp, hs⟩
  · exact .inl hs
  · exact .inr ⟨l, hl, by simpa using hb, hp, _, [], by simp [issueOrder], hs⟩

theorem UnmountE.ofPart {d : Defs} {n : Bytes} {p : Bool} {l : Layer} {s : List Op}
    (hl : findLayer d n = some l) (hb : ¬ isBusy l false = true)
    (hs : (p = true ∧ s = []) ∨ (p = false ∧ ∃ pre rest,
      l.mounts.reverse.map (·.mountpoint) = pre ++ rest ∧ UmountsOf pre s)) :
    UnmountE d n p s := by
  rcases hs with ⟨_, hs⟩ | ⟨hp, pre, rest, he, hs⟩
  · exact .inl hs
  · exact .inr ⟨l, hl, by simpa using hb, hp, pre, rest, he, hs⟩

theorem unmountLayer_p (cfg : Config) (d : Defs) (n : Bytes) (p : Bool) (t : List Op) :
    ⦃fun w => ⌜w.trace = t ∧ w.pretend = p⌝⦄ unmountLayer cfg d n
    ⦃post⟨fun r w => ⌜(∃ s, w.trace = t ++ s ∧ UnmountN d n p r.1 r.2 s) ∧ w.pretend = p⌝,
          fun _ w => ⌜(∃ s, w.trace = t ++ s ∧ UnmountE d n p s) ∧ w.pretend = p⌝⟩⦄ := by
  rw [unmountLayer_eq]
  mvcgen [getL_p, unmountMounts_p, refreshMountInfo_p, liftRes_p, getW]
  all_goals (try intros)
  case vc1 =>
    have hl := (‹(_ ∧ findLayer d n = some _) ∧ _›).1.2
    exact ⟨⟨[], by simp_all, _, hl, .inl ⟨rfl, ‹_›, rfl, rfl⟩⟩, by simp_all⟩
  case vc2 =>
    have hl := (‹(_ ∧ findLayer d n = some _) ∧ _›).1.2
    refine ⟨⟨[], by simp_all, _, hl, .inr (.inl ⟨rfl, ?_, ?_, rfl, rfl⟩)⟩, by simp_all⟩
    · simpa using ‹¬isBusy _ false = true›
    · exact beq_iff_eq.mp ‹(_ == 0) = true›
  case vc8 => exact ⟨⟨[], by simp_all, .inl rfl⟩, by simp_all⟩
  case vc7 =>
    obtain ⟨s, e, hs⟩ := ‹∃ s, _ ∧ (_ ∨ _ ∧ ∃ pre rest, _)›
    have hl := (‹(_ ∧ findLayer d n = some _) ∧ _›).1.2
    have hpp : _ = p := (‹_ ∧ _ = p›).2
    refine ⟨⟨s, by simp_all, UnmountE.ofPart hl ‹_› ?_⟩, by simp_all⟩
    simp_all
  all_goals
    obtain ⟨⟨s, e, hs⟩, hp⟩ := ‹(∃ s, _ ∧ (_ ∨ _ ∧ UmountsOf _ s)) ∧ _›
    have hl := (‹(_ ∧ findLayer d n = some _) ∧ _›).1.2
    have hpp : _ = p := (‹_ ∧ _ = p›).2
    refine ⟨⟨s, by simp_all, ?_⟩, by simp_all⟩
    first
      | exact UnmountN.okI hl ‹_› ‹_› (by simp_all) _
      | exact UnmountE.ofFull hl ‹_› (by simp_all)

/-- run-level form -/
theorem unmountLayer_run (cfg : Config) (d : Defs) (n : Bytes) (w : World) :
    ∃ s, Emitted (unmountLayer cfg d n) w s ∧
      ((unmountLayer cfg d n).run.run w).2.pretend = w.pretend ∧
      (∀ r, ((unmountLayer cfg d n).run.run w).1 = .ok r → UnmountN d n w.pretend r.1 r.2 s) ∧
      (∀ e, ((unmountLayer cfg d n).run.run w).1 = .error e → UnmountE d n w.pretend s) := by
  have h := run_of_triple _ _ _ _ (unmountLayer_p cfg d n w.pretend w.trace) w ⟨rfl, rfl⟩
  unfold Emitted
  generalize (unmountLayer cfg d n).run.run w = r at h ⊢
  obtain ⟨x, w'⟩ := r
  cases x with
  | ok a =>
    obtain ⟨⟨s, e, hs⟩, hp⟩ := h
    exact ⟨s, e, hp, fun r hr => (by cases hr; exact hs), fun _ hr => (by cases hr)⟩
  | error e =>
    obtain ⟨⟨s, e, hs⟩, hp⟩ := h
    exact ⟨s, e, hp, fun _ hr => (by cases hr), fun _ _ => hs⟩

/-! ### `umount -all` -/

/-- the body of the `-all` loop -/
def allBody (cfg : Config) : Defs × Bool → Bytes → M (Defs × Bool) := fun acc n => do
  let (st, d) ← unmountLayer cfg acc.1 n
  pure (d, acc.2 || st == .busy)

theorem unmountCmd_all_eq (cfg : Config) (d : Defs) :
    unmountCmd cfg d [] true = (do
      let (d, busy) ← d.order.reverse.foldlM (allBody cfg) (d, false)
      if busy then fail "busylayers"
      pure d) := rfl

/-- one step of the `-all` loop under pretend switch `p`: layer `n` was handled with `acc.1`,
    issued `s`, and the busy flag was updated -/
def AllSeg (p : Bool) : Defs × Bool → Bytes → List Op → Defs × Bool → Prop :=
  fun acc n s acc' => ∃ st, UnmountN acc.1 n p st acc'.1 s ∧ acc'.2 = (acc.2 || st == .busy)

def AllSegE (p : Bool) : Defs × Bool → Bytes → List Op → Prop :=
  fun acc n s => UnmountE acc.1 n p s

theorem allBody_step (cfg : Config) (p : Bool) (acc : Defs × Bool) (n : Bytes) (w : World) (hw : w.pretend = p) :
    ∃ s, ((allBody cfg acc n).run.run w).2.trace = w.trace ++ s ∧
      ((allBody cfg acc n).run.run w).2.pretend = p ∧
      (∀ b', ((allBody cfg acc n).run.run w).1 = .ok b' → AllSeg p acc n s b') ∧
      (∀ e, ((allBody cfg acc n).run.run w).1 = .error e → AllSegE p acc n s) := by
  obtain ⟨s, he, hp, hN, hE⟩ := unmountLayer_run cfg acc.1 n w
  unfold Emitted at he
  have hb : (allBody cfg acc n).run.run w =
      match (unmountLayer cfg acc.1 n).run.run w with
      | (.ok r, w') => (.ok (r.2, acc.2 || r.1 == .busy), w')
      | (.error e, w') => (.error e, w') := by
    unfold allBody
    rw [run_bind]
    generalize (unmountLayer cfg acc.1 n).run.run w = r
    obtain ⟨x, w'⟩ := r
    cases x with
    | ok a => obtain ⟨st, d'⟩ := a; rfl
    | error e => rfl
  rw [hb]
  generalize (unmountLayer cfg acc.1 n).run.run w = r at he hp hN hE
  obtain ⟨x, w'⟩ := r
  subst hw
  cases x with
  | ok a =>
    refine ⟨s, he, hp, ?_, fun _ h => (by cases h)⟩
    intro b' hb'
    cases hb'
    exact ⟨a.1, hN a rfl, rfl⟩
  | error e =>
    exact ⟨s, he, hp, fun _ h => (by cases h), fun _ _ => hE e rfl⟩

/-- the `-all` loop: one segment per layer of `order`, in this order -/
theorem allLoop_run (cfg : Config) (order : List Bytes) (acc : Defs × Bool) (w : World) :
    ∃ s, ((order.foldlM (allBody cfg) acc).run.run w).2.trace = w.trace ++ s ∧
      (∀ b', ((order.foldlM (allBody cfg) acc).run.run w).1 = .ok b' →
        FoldOk (AllSeg w.pretend) acc order s b') ∧
      (∀ e, ((order.foldlM (allBody cfg) acc).run.run w).1 = .error e →
        FoldErr (AllSeg w.pretend) (AllSegE w.pretend) acc order s) := by
  obtain ⟨s, h1, _, h2, h3⟩ := foldlM_segments (fun w' => w'.pretend = w.pretend) (AllSeg w.pretend)
    (AllSegE w.pretend) (allBody cfg) (fun b x w' hw' => allBody_step cfg w.pretend b x w' hw') order acc w rfl
  exact ⟨s, h1, h2, h3⟩

/-- **`umount -all`, run level**: the trace is the concatenation of the per-layer segments
    over `d.order.reverse`; the command succeeds iff the loop finished and the busy flag is
    down, fails with "busylayers" iff the loop finished with the flag up, and otherwise
    fails with the error of the unmount that failed -/
theorem unmountCmd_all_run (cfg : Config) (d : Defs) (w : World) :
    ∃ s, Emitted (unmountCmd cfg d [] true) w s ∧
      (∀ d', ((unmountCmd cfg d [] true).run.run w).1 = .ok d' →
        FoldOk (AllSeg w.pretend) (d, false) d.order.reverse s (d', false)) ∧
      (∀ e, ((unmountCmd cfg d [] true).run.run w).1 = .error e →
        (e = .err "busylayers" ∧ ∃ d', FoldOk (AllSeg w.pretend) (d, false) d.order.reverse s (d', true)) ∨
        FoldErr (AllSeg w.pretend) (AllSegE w.pretend) (d, false) d.order.reverse s) := by
  obtain ⟨s, he, hN, hE⟩ := allLoop_run cfg d.order.reverse (d, false) w
  rw [unmountCmd_all_eq]
  unfold Emitted
  rw [run_bind]
  generalize (d.order.reverse.foldlM (allBody cfg) (d, false)).run.run w = r at he hN hE
  obtain ⟨x, w'⟩ := r
  cases x with
  | error e =>
    refine ⟨s, he, fun _ h => (by cases h), ?_⟩
    intro e' he'
    exact .inr (hE e rfl)
  | ok a =>
    obtain ⟨d', busy⟩ := a
    have hf := hN (d', busy) rfl
    cases busy with
    | true =>
      refine ⟨s, he, fun _ h => (by cases h), ?_⟩
      intro e he'
      have : e = Fault.err "busylayers" := by
        change (Except.error (Fault.err "busylayers") : Except Fault Defs) = Except.error e at he'
        cases he'; rfl
      exact .inl ⟨this, d', hf⟩
    | false =>
      refine ⟨s, he, ?_, fun _ h => (by cases h)⟩
      intro d'' hd
      cases hd
      exact hf

end Lc.UmountTrace
