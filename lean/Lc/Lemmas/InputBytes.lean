/-
  The layer records `FindLayers` reads from a tree of byte strings are byte strings: the
  representation invariant `IsB` (every element < 256; the model's `Bytes` is `List Nat`)
  pushed through `bufio.ScanLines`, `strings.TrimSpace`, `strings.Fields`, `path.Clean`,
  `path.Base`, the layerconfig reader and the directory listing.  With it the hypothesis
  `DefsOK` of the mount lemmas follows from a condition on the inputs alone (`InputsOK`).
  Helper lemmas for Props/C01 (`mount_idempotent`).
-/
import Lc.Lemmas.MountTwice
import Lc.Lemmas.Runes
import Lc.Lemmas.LayerfileRW

namespace Lc.InputBytes
open Lc Lc.Layers Lc.Mountinfo Lc.Kernel Lc.KernelProbe Lc.Spec Lc.Layerfile
open Lc.FsGrow Lc.MountArgs Lc.LayerCore Lc.Lemmas.Runes Lc.Lemmas.LayerfileRW Lc.MountTrace

/-! ### runes, fields, trimming, lines -/

theorem isB_of_mem_flat {l : List Rune} {x : Rune} (hx : x ∈ l) (h : IsB (flat l)) : IsB x.2 := by
  intro b hb
  apply h b
  unfold flat
  rw [List.mem_flatMap]
  exact ⟨x, hx, hb⟩

theorem isB_rs {s : Bytes} (h : IsB s) : ∀ x ∈ rs s, IsB x.2 := by
  intro x hx
  exact isB_of_mem_flat hx (by rw [flat_rs]; exact h)

theorem isB_fieldsAux : ∀ (l : List Rune) (cur : Bytes), IsB cur → (∀ x ∈ l, IsB x.2) →
    ∀ f ∈ fieldsAux cur l, IsB f := by
  intro l
  induction l with
  | nil =>
    intro cur hc _ f hf
    unfold fieldsAux at hf
    split at hf
    · cases hf
    · simp only [List.mem_singleton] at hf; subst hf; exact hc
  | cons x xs ih =>
    intro cur hc hl f hf
    have hxs : ∀ y ∈ xs, IsB y.2 := fun y hy => hl y (by simp [hy])
    unfold fieldsAux at hf
    split at hf
    · split at hf
      · exact ih [] isB_nil hxs f hf
      · rcases List.mem_cons.mp hf with rfl | hf
        · exact hc
        · exact ih [] isB_nil hxs f hf
    · exact ih _ (isB_append.mpr ⟨hc, hl x (by simp)⟩) hxs f hf

theorem isB_fields {s : Bytes} (h : IsB s) : ∀ f ∈ fields s, IsB f := by
  rw [fields_eq]
  exact isB_fieldsAux _ _ isB_nil (isB_rs h)

theorem isB_trimSpace {s : Bytes} (h : IsB s) : IsB (trimSpace s) := by
  unfold trimSpace
  intro b hb
  simp only [List.mem_flatMap] at hb
  obtain ⟨x, hx, hbx⟩ := hb
  have hx1 : x ∈ runes s := by
    have h1 := List.mem_reverse.mp hx
    have h2 := List.dropWhile_subset _ h1
    have h3 := List.mem_reverse.mp h2
    exact List.dropWhile_subset _ h3
  have : x.2 ∈ rs s := by
    unfold rs
    exact List.mem_map.mpr ⟨x, hx1, rfl⟩
  exact isB_rs h x.2 this b hbx

theorem isB_dropCR {l : Bytes} (h : IsB l) : IsB (dropCR l) := by
  unfold dropCR
  split
  · rename_i r hr
    intro b hb
    apply h b
    have : b ∈ l.reverse := by rw [hr]; simp [List.mem_reverse.mp hb]
    exact List.mem_reverse.mp this
  · exact h

theorem isB_scanLines {text : Bytes} (h : IsB text) : ∀ l ∈ scanLines text, IsB l := by
  intro l hl
  unfold scanLines at hl
  simp only [List.mem_map] at hl
  obtain ⟨p, hp, rfl⟩ := hl
  apply isB_dropCR
  have hparts := isB_splitOn 10 text h
  split at hp
  · rename_i r hr
    apply hparts
    have : p ∈ (splitOn 10 text).reverse := by rw [hr]; simp [List.mem_reverse.mp hp]
    exact List.mem_reverse.mp this
  · exact hparts p hp

/-! ### the layerconfig reader -/

/-- the import entries of a layer description are byte strings -/
def MountsB (l : LayerFile) : Prop := ∀ m ∈ l.mounts, IsB m.mount ∧ IsB m.source

theorem readStep_mountsB (l : LayerFile) (line : Bytes) (hl : IsB line) (h : MountsB l) :
    MountsB (readStep l line) := by
  have hf := isB_fields (isB_trimSpace hl)
  unfold readStep
  simp only
  split
  · exact h
  · split
    · exact h
    · rename_i kw args hfe
      rw [hfe] at hf
      split
      · split
        · exact h
        · split
          · exact h
          · exact h
      · split
        · split
          · rename_i t s m rest
            intro x hx
            rcases List.mem_append.mp hx with e | e
            · exact h x e
            · simp only [List.mem_singleton] at e
              subst e
              exact ⟨MountArgs.isB_pathClean _ (hf m (by simp)), MountArgs.isB_pathClean _ (hf s (by simp))⟩
          · exact h
        · split
          · split
            · exact h
            · exact h
          · exact h

theorem readLayerFile_mountsB {content : Bytes} (h : IsB content) : MountsB (readLayerFile content) := by
  unfold readLayerFile readLines
  have hl := isB_scanLines h
  generalize scanLines content = lines at hl
  have : ∀ (l : LayerFile), MountsB l → MountsB (lines.foldl readStep l) := by
    induction lines with
    | nil => intro l h; exact h
    | cons x xs ih =>
      intro l h
      exact ih (fun y hy => hl y (by simp [hy])) _ (readStep_mountsB l x (hl x (by simp)) h)
  exact this _ (fun m hm => by cases hm)

theorem tokenOK_of_tok {f : Bytes} (h : Tok f) : TokenOK f := by
  refine ⟨h.1, ?_, tok_no_lf f h, tok_no_cr f h⟩
  intro hc
  have := tok_no_ascii_space f h 32 hc (by omega)
  exact absurd this (by decide)

/-! ### the tree -/

/-- every path and every file content of the tree is a byte string -/
def TreeB (fs : Fs.Tree) : Prop := ∀ e ∈ fs, IsB e.1 ∧ ∀ c, e.2 = .file c → IsB c

theorem isB_reverse {s : Bytes} (h : IsB s) : IsB s.reverse := fun b hb => h b (List.mem_reverse.mp hb)

theorem isB_lastSlashSplit {s : Bytes} (h : IsB s) : IsB (lastSlashSplit s).2 := by
  unfold lastSlashSplit
  simp only []
  apply isB_reverse
  intro b hb
  exact isB_reverse h b (List.takeWhile_subset _ hb)

theorem isB_pathBase {s : Bytes} (h : IsB s) : IsB (pathBase s) := by
  unfold pathBase
  split
  · simp [IsB, DOT]
  · simp only []
    split
    · simp [IsB, SLASH]
    · apply isB_lastSlashSplit
      apply isB_reverse
      intro b hb
      exact isB_reverse h b (List.dropWhile_subset _ hb)

theorem isB_children {fs : Fs.Tree} (h : TreeB fs) (d : Bytes) : ∀ n ∈ Fs.children fs d, IsB n := by
  intro n hn
  unfold Fs.children at hn
  rw [List.mem_map] at hn
  obtain ⟨e, he, rfl⟩ := hn
  exact isB_pathBase (h e (List.mem_filter.mp he).1).1

theorem get_mem {fs : Fs.Tree} {p : Bytes} {x : Fs.Node} (h : Fs.get fs p = some x) : ∃ e ∈ fs, e.2 = x := by
  unfold Fs.get at h
  split at h
  · rename_i e he
    cases h
    exact ⟨e, List.mem_of_find?_eq_some he, rfl⟩
  · cases h

theorem statAux_mem {fs : Fs.Tree} : ∀ (k : Nat) (p : Bytes) (x : Fs.Node),
    Fs.statAux k fs p = some x → ∃ e ∈ fs, e.2 = x := by
  intro k
  induction k with
  | zero => intro p x h; simp [Fs.statAux] at h
  | succ k ih =>
    intro p x h
    unfold Fs.statAux at h
    cases hg : Fs.get fs p with
    | none => rw [hg] at h; cases h
    | some y =>
      rw [hg] at h
      cases y with
      | symlink t => exact ih _ _ h
      | dir => cases h; exact get_mem hg
      | file c => cases h; exact get_mem hg

theorem isB_readFile {fs : Fs.Tree} (h : TreeB fs) {p c : Bytes} (hr : Fs.readFile fs p = some c) : IsB c := by
  unfold Fs.readFile Fs.stat at hr
  cases hs : Fs.statAux 8 fs p with
  | none => rw [hs] at hr; cases hr
  | some x =>
    rw [hs] at hr
    cases x with
    | file c' =>
      cases hr
      obtain ⟨e, he, hx⟩ := statAux_mem 8 p _ hs
      exact (h e he).2 c hx
    | dir => cases hr
    | symlink t => cases hr

/-- a checker for `TreeB` (for concrete trees) -/
def treeBb (fs : Fs.Tree) : Bool :=
  fs.all fun e => e.1.all (· < 256) && (match e.2 with | .file c => c.all (· < 256) | _ => true)

theorem treeB_of_check {fs : Fs.Tree} (h : treeBb fs = true) : TreeB fs := by
  intro e he
  unfold treeBb at h
  rw [List.all_eq_true] at h
  have := h e he
  rw [Bool.and_eq_true] at this
  refine ⟨fun b hb => by simpa using (List.all_eq_true.mp this.1) b hb, ?_⟩
  intro c hc
  rw [hc] at this
  exact fun b hb => by simpa using (List.all_eq_true.mp this.2) b hb

/-! ### from the inputs to `DefsOK` -/

/-- the mount data of the overlay of the layer in directory entry `n` over the one in `bn` -/
def ovDataOf (cfg : Config) (bn n : Bytes) : Bytes :=
  ovData cfg { name := bn, layerPath := layerPath cfg bn } { name := n, layerPath := layerPath cfg n }

/-- Conditions on the inputs of a run: the paths of the configuration, the paths and file
    contents of the tree are byte strings (a representation invariant: Go strings are byte
    strings, the model's `Bytes` is `List Nat`), and no layer's overlay workdir — as read back
    from the mount data — ends in a carriage return (C12's finding `mountinfo-cr-at-line-end`:
    the kernel does not escape CR and the line reader strips it at a line end). -/
structure InputsOK (cfg : Config) (w : World) : Prop where
  layerdirs : IsB cfg.layerdirs
  buildRoot : IsB cfg.buildRoot
  workdir : IsB cfg.workdir
  upperdir : IsB cfg.upperdir
  tree : TreeB w.fs
  workCR : ∀ n ∈ Fs.children w.fs cfg.layerdirs, ∀ bn ∈ Fs.children w.fs cfg.layerdirs,
    (parseOverlayOpts (ovDataOf cfg bn n)).work.getLast? ≠ some 13

theorem ovData_layerPath {cfg : Config} {l bl l' bl' : Layer} (h1 : l'.layerPath = l.layerPath)
    (h2 : bl'.layerPath = bl.layerPath) : ovData cfg bl' l' = ovData cfg bl l := by
  unfold ovData buildPath upperPath workPath
  rw [h1, h2]

/-- what `FindLayers` finds under a name: the record of that directory entry -/
theorem findLayers_found {cfg : Config} {w w' : World} {d : Defs}
    (h : (findLayers cfg).run.run w = (.ok d, w')) {n : Bytes} {l : Layer} (hl : findLayer d n = some l) :
    n ∈ Fs.children w.fs cfg.layerdirs ∧ layerOfEntry cfg w.fs n = some l := by
  obtain ⟨_, hlay, _⟩ := findLayers_layers h
  have e : ∀ ls, d.layers = ls → findLayer d n = findLayer ({ layers := ls, order := d.order, mounts := d.mounts } : Defs) n := by
    intro ls hh; unfold findLayer; rw [hh]
  rw [e _ hlay, findLayer_readLayerFiles] at hl
  split at hl
  · rename_i hmem; exact ⟨hmem, hl⟩
  · cases hl

theorem layerOfEntry_fields {cfg : Config} {fs : Fs.Tree} {n : Bytes} {l : Layer}
    (h : layerOfEntry cfg fs n = some l) :
    ∃ c, Fs.readFile fs (pathJoin [layerPath cfg n, b!"layerconfig"]) = some c ∧
      l.name = n ∧ l.layerPath = layerPath cfg n ∧ l.cmounts = (readLayerFile c).mounts := by
  unfold layerOfEntry at h
  split at h
  · cases h
  · split at h
    · rename_i c hc
      cases h
      exact ⟨c, hc, rfl, rfl, rfl⟩
    · cases h

/-- **the layer records `getLayers` returns are well-formed** when the inputs are -/
theorem getLayers_defsOK {cfg : Config} {inuse : List (Bytes × List User)} {w : World} {d : Defs}
    (hin : InputsOK cfg w) (h : (getLayers cfg inuse).run.run w = (.ok d, w)) : DefsOK cfg d := by
  obtain ⟨_, _, d0, hfind, hle⟩ := MountTwice.getLayers_run h
  have key : ∀ l, Found d l → ∃ n ∈ Fs.children w.fs cfg.layerdirs, ∃ c,
      Fs.readFile w.fs (pathJoin [layerPath cfg n, b!"layerconfig"]) = some c ∧
      l.layerPath = layerPath cfg n ∧ l.cmounts = (readLayerFile c).mounts := by
    intro l hf
    obtain ⟨l0, hf0, hc⟩ := (hle.symm.sub).found hf
    obtain ⟨n, hn⟩ := hf0
    obtain ⟨hmem, hent⟩ := findLayers_found hfind hn
    obtain ⟨c, hc1, _, hc3, hc4⟩ := layerOfEntry_fields hent
    rw [core_eq_iff] at hc
    exact ⟨n, hmem, c, hc1, by rw [← hc.2.2.2, hc3], by rw [← hc.2.2.1, hc4]⟩
  refine ⟨hin.buildRoot, hin.workdir, hin.upperdir, ?_, ?_⟩
  · intro l hf
    obtain ⟨n, hmem, c, hc1, hp, hm⟩ := key l hf
    constructor
    · rw [hp]
      unfold layerPath
      apply MountArgs.isB_pathJoin
      intro q hq
      simp only [List.mem_cons, List.not_mem_nil, or_false] at hq
      rcases hq with hq | hq
      · rw [hq]; exact hin.layerdirs
      · rw [hq]; exact isB_children hin.tree _ n hmem
    · intro m hmm
      rw [hm] at hmm
      have hb := readLayerFile_mountsB (isB_readFile hin.tree hc1) m hmm
      have ht := (readLayerFile_wf c).2.1 m hmm
      exact ⟨hb.1, hb.2, tokenOK_of_tok ht.1⟩
  · intro l bl hf hbf
    obtain ⟨n, hmem, _, _, hp, _⟩ := key l hf
    obtain ⟨bn, hbmem, _, _, hbp, _⟩ := key bl hbf
    have := hin.workCR n hmem bn hbmem
    unfold ovDataOf at this
    rw [← ovData_layerPath (l' := l) (bl' := bl) hp hbp] at this
    exact this

/-! ### a plain sufficient condition for `InputsOK.workCR` -/

theorem splitOn_snoc_part (sep : Nat) : ∀ (x y : Bytes), sep ∉ y →
    ∃ p ps, splitOn sep (x ++ sep :: y) = (p :: ps) ++ [y] := by
  intro x
  induction x with
  | nil => intro y hy; exact ⟨[], [], by simp [splitOn, splitOn_noSep sep y hy]⟩
  | cons c cs ih =>
    intro y hy
    obtain ⟨p, ps, hpre⟩ := ih y hy
    simp only [List.cons_append, splitOn]
    split
    · exact ⟨[], p :: ps, by rw [hpre]⟩
    · rw [hpre]
      exact ⟨c :: p, ps, by simp⟩

theorem unescape_plain : ∀ (s : Bytes), 92 ∉ s → unescape s = s := by
  intro s
  induction s with
  | nil => intro _; simp [unescape]
  | cons x xs ih =>
    intro h
    have hx : x ≠ 92 := fun e => h (by simp [e])
    rw [Props.C12.unescape_cons_ne x xs hx, ih (fun e => h (by simp [e]))]

/-- whatever precedes it, a final `,workdir=W` with no comma in `W` sets the parsed workdir to
    `unescape W` -/
theorem parse_work (x W : Bytes) (hW : 44 ∉ W) :
    (parseOverlayOpts (x ++ b!",workdir=" ++ W)).work = unescape W := by
  have h1 : x ++ b!",workdir=" ++ W = x ++ 44 :: (b!"workdir=" ++ W) := by simp
  have h2 : 44 ∉ b!"workdir=" ++ W := by
    intro h
    rcases List.mem_append.mp h with h | h
    · revert h; decide
    · exact hW h
  obtain ⟨p, ps, hpre⟩ := splitOn_snoc_part 44 x _ h2
  unfold parseOverlayOpts
  rw [h1, hpre, List.foldl_append]
  simp only [List.foldl_cons, List.foldl_nil]
  unfold ovlStep
  have h3 : splitN2 61 (b!"workdir=" ++ W) = [b!"workdir", W] :=
    splitN2_append_sep 61 b!"workdir" W (by decide)
  rw [h3]
  simp

/-- `InputsOK.workCR` holds when no layer's work path contains a comma or a backslash or ends in
    a carriage return -/
theorem workCR_of_plain {cfg : Config} {w : World}
    (h : ∀ n ∈ Fs.children w.fs cfg.layerdirs,
      44 ∉ pathJoin [layerPath cfg n, cfg.workdir] ∧ 92 ∉ pathJoin [layerPath cfg n, cfg.workdir] ∧
      (pathJoin [layerPath cfg n, cfg.workdir]).getLast? ≠ some 13) :
    ∀ n ∈ Fs.children w.fs cfg.layerdirs, ∀ bn ∈ Fs.children w.fs cfg.layerdirs,
      (parseOverlayOpts (ovDataOf cfg bn n)).work.getLast? ≠ some 13 := by
  intro n hn bn _
  obtain ⟨h1, h2, h3⟩ := h n hn
  have e : ovDataOf cfg bn n =
      (b!"lowerdir=" ++ buildPath cfg { name := bn, layerPath := layerPath cfg bn } ++ b!",upperdir=" ++
        upperPath cfg { name := n, layerPath := layerPath cfg n }) ++ b!",workdir=" ++
        pathJoin [layerPath cfg n, cfg.workdir] := rfl
  rw [e, parse_work _ _ h1, unescape_plain _ h2]
  exact h3

end Lc.InputBytes
