/-
  `DiskForest cfg fs`: the tree is well-formed, the layers directory is a real directory, no
  layerconfig of a legal name is a symbolic link, and the table `findLayers` reads passes the
  cycle check — "the installation can be listed and is a forest".  The table read depends
  only on what is found at the layerconfig paths of legal names (`cfgBase`), so a tree that
  agrees with a forest there (up to new directories) is a forest (`diskForest_of_keep`), and
  a tree whose layerconfig bases are those of a well-formed table is one (`diskForest_of_table`).
  Helper lemmas for Props/C02.
-/
import Lc.Lemmas.DiskView
import Lc.Lemmas.LayerfileRW

namespace Lc.DiskForest
open Lc Lc.Layers Lc.Fs Lc.Lemmas.Path Lc.ExportPath Lc.InLayers Lc.TreeWF Lc.TreeKeeps Lc.ForestInv
  Lc.ForestCmd Lc.Lemmas.WriteLF Lc.Layerfile Lc.DiskView

/-- a legal, non-empty layer name -/
def LegalNE (a : Bytes) : Prop := a ≠ [] ∧ isLegalLayerName a = true

theorem LegalNE.clean {a : Bytes} (h : LegalNE a) : CleanName a := LayerPaths.legal_clean a h.1 h.2

/-- the part of the invariant that is not the cycle check -/
structure DiskOK (cfg : Config) (fs : Tree) : Prop where
  tree : TreeWF fs
  dir : Fs.get fs cfg.layerdirs = some .dir
  nolink : ∀ a, LegalNE a → ∀ t, Fs.get fs (cfgOf cfg a) ≠ some (.symlink t)

/-- **the installation can be listed and is a forest** -/
structure DiskForest (cfg : Config) (fs : Tree) : Prop where
  ok : DiskOK cfg fs
  check : checkInheritance (diskLayers cfg fs) = true

/-- the base line of the layerconfig found at the layerconfig path of `a` -/
def cfgBase (cfg : Config) (fs : Tree) (a : Bytes) : Option Bytes :=
  match Fs.get fs (cfgOf cfg a) with
  | some (.file c) => some (readLayerFile c).base
  | _ => none

theorem readFile_of_get_file (fs : Tree) (p c : Bytes) (h : Fs.get fs p = some (.file c)) :
    Fs.readFile fs p = some c := by
  unfold Fs.readFile Fs.stat Fs.statAux
  rw [h]

theorem readFile_nolink (fs : Tree) (p c : Bytes) (hn : ∀ t, Fs.get fs p ≠ some (.symlink t))
    (h : Fs.readFile fs p = some c) : Fs.get fs p = some (.file c) := by
  unfold Fs.readFile Fs.stat Fs.statAux at h
  cases hg : Fs.get fs p with
  | none => rw [hg] at h; simp at h
  | some x =>
    cases x with
    | symlink t => exact absurd hg (hn t)
    | dir => rw [hg] at h; simp at h
    | file c' => rw [hg] at h; simp at h; rw [h]

theorem isDir_of_get_dir (fs : Tree) (p : Bytes) (h : Fs.get fs p = some .dir) : Fs.isDir fs p = true := by
  rw [isDir_iff]
  unfold Fs.stat Fs.statAux
  rw [h]

/-- the parent of a layerconfig path is the layer directory -/
theorem pathDir_cfgOf {cfg : Config} {ds : List Bytes} (h : LD cfg ds) (a : Bytes) (ha : CleanName a) :
    pathDir (cfgOf cfg a) = layerPath cfg a := by
  rw [cfgOf_eq h a ha, layerPath_eq h a ha]
  exact pathDir_snoc' (ds ++ [a]) lcName (snoc_clean h.clean ha) LayerPaths.lcName_clean

theorem cfgOf_ne_root {cfg : Config} {ds : List Bytes} (h : LD cfg ds) (a : Bytes) (ha : CleanName a) :
    cfgOf cfg a ≠ [47] := by
  rw [cfgOf_eq h a ha]
  exact absPath_ne_root _ (snoc_clean (snoc_clean h.clean ha) LayerPaths.lcName_clean) (by simp)

/-- **the pairs on disk, path by path**: `(a, b)` is read iff `a` is a legal name and the
    file at its layerconfig path has base line `b` -/
theorem mem_diskView_iff' {cfg : Config} {ds : List Bytes} (h : LD cfg ds) {fs : Tree} (hok : DiskOK cfg fs)
    (a b : Bytes) :
    (a, b) ∈ (diskLayers cfg fs).map nb ↔ LegalNE a ∧ cfgBase cfg fs a = some b := by
  rw [mem_diskView_iff h hok.tree]
  constructor
  · rintro ⟨hne, hleg, _, c, hc, hb⟩
    refine ⟨⟨hne, hleg⟩, ?_⟩
    unfold cfgBase
    rw [readFile_nolink fs _ c (hok.nolink a ⟨hne, hleg⟩) hc]
    simp only [hb]
  · rintro ⟨hl, hb⟩
    unfold cfgBase at hb
    split at hb
    · rename_i c hg
      injection hb with hb
      refine ⟨hl.1, hl.2, ?_, c, readFile_of_get_file fs _ c hg, hb⟩
      -- the layerconfig is present, so is its directory
      have hk : cfgOf cfg a ∈ keys fs := (present_iff fs _).mp (by rw [hg]; rfl)
      have := key_parent hok.tree _ hk (cfgOf_ne_root h a hl.clean)
      rwa [pathDir_cfgOf h a hl.clean] at this
    · cases hb

/-- unchanged, or a directory where nothing was -/
def Keep (fs fs' : Tree) (p : Bytes) : Prop :=
  Fs.get fs' p = Fs.get fs p ∨ (Fs.get fs p = none ∧ Fs.get fs' p = some .dir)

theorem Keep.refl (fs : Tree) (p : Bytes) : Keep fs fs p := Or.inl rfl

theorem cfgBase_keep {cfg : Config} {fs fs' : Tree} {a : Bytes} (h : Keep fs fs' (cfgOf cfg a)) :
    cfgBase cfg fs' a = cfgBase cfg fs a := by
  unfold cfgBase
  rcases h with e | ⟨e1, e2⟩
  · rw [e]
  · rw [e1, e2]

/-- a well-formed tree that agrees with `fs` on the layers directory and on the layerconfig
    paths of legal names -/
theorem diskOK_of_keep {cfg : Config} {fs fs' : Tree} (hok : DiskOK cfg fs) (hT : TreeWF fs')
    (hd : Keep fs fs' cfg.layerdirs) (hc : ∀ a, LegalNE a → Keep fs fs' (cfgOf cfg a)) : DiskOK cfg fs' := by
  refine ⟨hT, ?_, ?_⟩
  · rcases hd with e | ⟨e1, _⟩
    · rw [e]; exact hok.dir
    · rw [hok.dir] at e1; cases e1
  · intro a ha t
    rcases hc a ha with e | ⟨_, e2⟩
    · rw [e]; exact hok.nolink a ha t
    · rw [e2]; intro hh; cases hh

/-- **a tree whose layerconfig bases are the (name, base) pairs of a table that passes the
    cycle check and has unique names is a forest** -/
theorem diskForest_of_table {cfg : Config} {ds : List Bytes} (h : LD cfg ds) {fs : Tree} (hok : DiskOK cfg fs)
    (L : List Layer) (hL : checkInheritance L = true)
    (hv : ∀ a b, (a, b) ∈ L.map nb ↔ (LegalNE a ∧ cfgBase cfg fs a = some b)) : DiskForest cfg fs :=
  ⟨hok, check_of_same_view (diskLayers_nodup hok.tree)
    (fun a b => (hv a b).trans (mem_diskView_iff' h hok a b).symm) hL⟩

/-- … in particular a tree that agrees with a forest on the relevant paths -/
theorem diskForest_of_keep {cfg : Config} {ds : List Bytes} (h : LD cfg ds) {fs fs' : Tree}
    (hf : DiskForest cfg fs) (hT : TreeWF fs') (hd : Keep fs fs' cfg.layerdirs)
    (hc : ∀ a, LegalNE a → Keep fs fs' (cfgOf cfg a)) : DiskForest cfg fs' := by
  have hok' := diskOK_of_keep hf.ok hT hd hc
  refine diskForest_of_table h hok' (diskLayers cfg fs) hf.check ?_
  intro a b
  rw [mem_diskView_iff' h hf.ok]
  constructor
  · rintro ⟨ha, hb⟩; exact ⟨ha, by rw [cfgBase_keep (hc a ha)]; exact hb⟩
  · rintro ⟨ha, hb⟩; exact ⟨ha, by rw [← cfgBase_keep (hc a ha)]; exact hb⟩

end Lc.DiskForest
