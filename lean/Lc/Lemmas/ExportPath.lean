/-
  `path.Join` of a directory prefix and clean single-component names: distinct names give
  distinct paths, neither under the other.  Helper lemmas for Props/C16.
-/
import Lc.Lemmas.Path
import Lc.Model.Fs

namespace Lc.ExportPath
open Lc Lc.Lemmas.Path

/-- a clean single path component: not empty, not "." or "..", no '/' -/
def CleanName (n : Bytes) : Prop := Good n ∧ n ≠ dotdot

theorem splitOn_append_sep_gen (sep : Nat) (X rest : Bytes) :
    splitOn sep (X ++ sep :: rest) = splitOn sep X ++ splitOn sep rest := by
  induction X with
  | nil => simp [splitOn]
  | cons c cs ih =>
    by_cases hc : c = sep
    · simp [splitOn, hc, ih]
    · simp only [List.cons_append, splitOn, hc, if_false, ih]
      cases hs : splitOn sep cs with
      | nil => exact absurd hs (splitOn_ne_nil sep cs)
      | cons h t => simp

theorem pathComps_append_sep (X J : Bytes) :
    pathComps (X ++ SLASH :: J) = pathComps X ++ pathComps J := by
  unfold pathComps
  rw [splitOn_append_sep_gen, List.filter_append]

theorem isAbs_append_sep (X J : Bytes) : isAbs (X ++ SLASH :: J) = isAbs (X ++ [SLASH]) := by
  cases X with
  | nil => rfl
  | cons x xs => simp only [List.cons_append, isAbs_cons]

theorem joinWith_cons_cons (sep : Nat) (x y : Bytes) (rest : List Bytes) :
    joinWith sep (x :: y :: rest) = x ++ sep :: joinWith sep (y :: rest) := rfl

theorem joinWith_append (sep : Nat) (xs ys : List Bytes) (hy : ys ≠ []) :
    joinWith sep (xs ++ ys) = if xs = [] then joinWith sep ys else joinWith sep xs ++ sep :: joinWith sep ys := by
  induction xs with
  | nil => simp
  | cons x rest ih =>
    cases rest with
    | nil =>
      cases ys with
      | nil => exact absurd rfl hy
      | cons y ys' => simp [joinWith]
    | cons z rest' =>
      have : (x :: z :: rest') ++ ys = x :: z :: (rest' ++ ys) := rfl
      rw [this, joinWith_cons_cons, joinWith_cons_cons]
      have ih' : joinWith sep (z :: (rest' ++ ys)) =
          joinWith sep (z :: rest') ++ sep :: joinWith sep ys := by
        have := ih
        simp only [List.cons_append, reduceCtorEq, if_false] at this
        exact this
      rw [ih']
      simp

theorem clean_no_dotdot (cs : List Bytes) (h : ∀ c ∈ cs, CleanName c) : dotdot ∉ cs :=
  fun hm => (h _ hm).2 rfl

theorem joinWith_clean_ne_nil (cs : List Bytes) (hne : cs ≠ []) (h : ∀ c ∈ cs, CleanName c) :
    joinWith SLASH cs ≠ [] := by
  cases cs with
  | nil => exact absurd rfl hne
  | cons c rest =>
    have hc := (h c (by simp)).1.1
    cases c with
    | nil => exact absurd rfl hc
    | cons x xs =>
      obtain ⟨t, ht⟩ := joinWith_head x xs rest
      rw [ht]; simp

theorem assemble_out (r : Bool) (body : Bytes) (hb : body ≠ []) :
    (let out := if r then SLASH :: body else body
     if out.isEmpty then [DOT] else out) = (if r then [SLASH] else []) ++ body := by
  cases r
  · cases body with
    | nil => exact absurd rfl hb
    | cons x xs => simp
  · simp

/-- cleaning `X/c1/…/ck` with clean components keeps `c1/…/ck` as the tail; the head
    depends on `X` only -/
theorem pathClean_prefix (X : Bytes) : ∃ B : Bytes, ∀ cs : List Bytes, cs ≠ [] →
    (∀ c ∈ cs, CleanName c) → pathClean (X ++ SLASH :: joinWith SLASH cs) = B ++ joinWith SLASH cs := by
  let r := isAbs (X ++ [SLASH])
  let st := (pathComps X).foldl (cleanStep r) []
  refine ⟨(if r then [SLASH] else []) ++ (if st.reverse = [] then [] else joinWith SLASH st.reverse ++ [SLASH]), ?_⟩
  intro cs hne hcs
  have hgood : ∀ c ∈ cs, Good c := fun c hc => (hcs c hc).1
  rw [pathClean_eq_assemble, isAbs_append_sep, pathComps_append_sep, pathComps_join cs hne hgood,
    List.foldl_append, foldl_push r cs (clean_no_dotdot cs hcs)]
  show assemble r (cs.reverse ++ st) = _
  unfold assemble
  have hbody : joinWith SLASH (cs.reverse ++ st).reverse =
      (if st.reverse = [] then [] else joinWith SLASH st.reverse ++ [SLASH]) ++ joinWith SLASH cs := by
    rw [List.reverse_append, List.reverse_reverse, joinWith_append SLASH st.reverse cs hne]
    split <;> simp
  rw [hbody]
  have hne2 : (if st.reverse = [] then [] else joinWith SLASH st.reverse ++ [SLASH]) ++ joinWith SLASH cs ≠ [] := by
    intro h
    exact joinWith_clean_ne_nil cs hne hcs (List.append_eq_nil_iff.mp h).2
  rw [assemble_out r _ hne2, List.append_assoc]

theorem clean_not_abs (c : Bytes) (h : CleanName c) : ∃ x xs, c = x :: xs ∧ x ≠ 47 := by
  obtain ⟨⟨h1, _, h3⟩, _⟩ := h
  cases c with
  | nil => exact absurd rfl h1
  | cons x xs => exact ⟨x, xs, rfl, fun e => h3 (by simp [e, SLASH])⟩

/-- cleaning `c1/…/ck` with clean components changes nothing -/
theorem pathClean_clean (cs : List Bytes) (hne : cs ≠ []) (hcs : ∀ c ∈ cs, CleanName c) :
    pathClean (joinWith SLASH cs) = joinWith SLASH cs := by
  have hgood : ∀ c ∈ cs, Good c := fun c hc => (hcs c hc).1
  have habs : isAbs (joinWith SLASH cs) = false := by
    cases cs with
    | nil => exact absurd rfl hne
    | cons c rest =>
      obtain ⟨x, xs, rfl, hx⟩ := clean_not_abs c (hcs c (by simp))
      obtain ⟨t, ht⟩ := joinWith_head x xs rest
      rw [ht, isAbs_cons]; simp [hx]
  rw [pathClean_eq_assemble, habs, pathComps_join cs hne hgood,
    foldl_push false cs (clean_no_dotdot cs hcs)]
  unfold assemble
  simp only [List.append_nil, List.reverse_reverse, Bool.false_eq_true, if_false]
  have := joinWith_clean_ne_nil cs hne hcs
  cases hj : joinWith SLASH cs with
  | nil => exact absurd hj this
  | cons x xs => simp

/-- `path.Join(a, b, n)` for a clean name `n` ends in `n`; what precedes depends on `a`, `b` only -/
theorem pathJoin3_prefix (a b : Bytes) : ∃ B : Bytes, ∀ n, CleanName n → pathJoin [a, b, n] = B ++ n := by
  cases a with
  | nil =>
    cases b with
    | nil =>
      refine ⟨[], fun n hn => ?_⟩
      obtain ⟨x, xs, rfl, _⟩ := clean_not_abs n hn
      have := pathClean_clean [x :: xs] (by simp) (by simpa using hn)
      simpa [pathJoin, joinWith] using this
    | cons y ys =>
      obtain ⟨B, hB⟩ := pathClean_prefix (y :: ys)
      refine ⟨B, fun n hn => ?_⟩
      obtain ⟨x, xs, rfl, _⟩ := clean_not_abs n hn
      have := hB [x :: xs] (by simp) (by simpa using hn)
      simpa [pathJoin, joinWith] using this
  | cons z zs =>
    obtain ⟨B, hB⟩ := pathClean_prefix ((z :: zs) ++ SLASH :: b)
    refine ⟨B, fun n hn => ?_⟩
    obtain ⟨x, xs, rfl, _⟩ := clean_not_abs n hn
    have := hB [x :: xs] (by simp) (by simpa using hn)
    simpa [pathJoin, joinWith] using this

/-- `path.Join(e, b, n)` for clean `b`, `n` ends in `b/n`; what precedes depends on `e` only -/
theorem pathJoin3_prefix2 (e : Bytes) : ∃ B : Bytes, ∀ b n, CleanName b → CleanName n →
    pathJoin [e, b, n] = B ++ (b ++ SLASH :: n) := by
  cases e with
  | nil =>
    refine ⟨[], fun b n hb hn => ?_⟩
    obtain ⟨y, ys, rfl, _⟩ := clean_not_abs b hb
    have := pathClean_clean [y :: ys, n] (by simp) (by
      intro c hc
      rcases List.mem_cons.mp hc with rfl | hc
      · exact hb
      · have : c = n := by simpa using hc
        exact this ▸ hn)
    simpa [pathJoin, joinWith] using this
  | cons z zs =>
    obtain ⟨B, hB⟩ := pathClean_prefix (z :: zs)
    refine ⟨B, fun b n hb hn => ?_⟩
    have := hB [b, n] (by simp) (by
      intro c hc
      rcases List.mem_cons.mp hc with rfl | hc
      · exact hb
      · have : c = n := by simpa using hc
        exact this ▸ hn)
    simpa [pathJoin, joinWith] using this

/-! ### not under each other -/

theorem hasPrefix_iff (q p : Bytes) : hasPrefix q p = true ↔ ∃ t, q = p ++ t := by
  induction p generalizing q with
  | nil => simp [hasPrefix]
  | cons x xs ih =>
    cases q with
    | nil => simp [hasPrefix]
    | cons y ys =>
      simp only [hasPrefix, Bool.and_eq_true, beq_iff_eq, ih, List.cons_append, List.cons.injEq]
      constructor
      · rintro ⟨rfl, t, rfl⟩; exact ⟨t, rfl, rfl⟩
      · rintro ⟨t, rfl, rfl⟩; exact ⟨rfl, t, rfl⟩

theorem under_false_of (p q : Bytes) (h1 : q ≠ p) (h2 : p ≠ [47]) (h3 : ∀ t, q ≠ p ++ [47] ++ t) :
    Fs.under p q = false := by
  unfold Fs.under
  have hq : (q == p) = false := by simpa using h1
  have hp : (p == [47]) = false := by simpa using h2
  have hpre : hasPrefix q (p ++ [47]) = false := by
    cases hh : hasPrefix q (p ++ [47]) with
    | false => rfl
    | true =>
      obtain ⟨t, ht⟩ := (hasPrefix_iff _ _).mp hh
      exact absurd ht (h3 t)
  simp [hq, hp, hpre]

theorem append_sep_inj (s : Nat) : ∀ (a b x y : Bytes), s ∉ a → s ∉ b → a ++ s :: x = b ++ s :: y → a = b
  | [], [], _, _, _, _, _ => rfl
  | [], c :: cs, _, _, _, hb, h => by
    simp only [List.nil_append, List.cons_append, List.cons.injEq] at h
    exact absurd (by simp [h.1]) hb
  | c :: cs, [], _, _, ha, _, h => by
    simp only [List.nil_append, List.cons_append, List.cons.injEq] at h
    exact absurd (by simp [h.1]) ha
  | c :: cs, d :: ds, x, y, ha, hb, h => by
    simp only [List.cons_append, List.cons.injEq] at h
    have := append_sep_inj s cs ds x y (fun hm => ha (by simp [hm])) (fun hm => hb (by simp [hm])) h.2
    rw [h.1, this]

/-- same directory, different clean names: not at/under each other -/
theorem not_under_of_ne_name (a b n n' : Bytes) (hn : CleanName n) (hn' : CleanName n') (hne : n' ≠ n) :
    Fs.under (pathJoin [a, b, n]) (pathJoin [a, b, n']) = false := by
  obtain ⟨B, hB⟩ := pathJoin3_prefix a b
  rw [hB n hn, hB n' hn']
  obtain ⟨x, xs, rfl, hx⟩ := clean_not_abs n hn
  have hs' : (47 : Nat) ∉ n' := hn'.1.2.2
  apply under_false_of
  · intro h; exact hne (List.append_cancel_left h)
  · intro h
    cases B with
    | nil => simp at h; exact hx h.1
    | cons y ys =>
      have := congrArg List.length h
      simp at this
  · intro t h
    rw [List.append_assoc, List.append_assoc] at h
    have := List.append_cancel_left h
    exact hs' (by rw [this]; simp)

/-- different clean sub-directories of the same directory: not at/under each other -/
theorem not_under_of_ne_dir (e b1 b2 n n' : Bytes) (h1 : CleanName b1) (h2 : CleanName b2)
    (hn : CleanName n) (hn' : CleanName n') (hne : b1 ≠ b2) :
    Fs.under (pathJoin [e, b1, n]) (pathJoin [e, b2, n']) = false := by
  obtain ⟨B, hB⟩ := pathJoin3_prefix2 e
  rw [hB b1 n h1 hn, hB b2 n' h2 hn']
  have hs1 : (47 : Nat) ∉ b1 := h1.1.2.2
  have hs2 : (47 : Nat) ∉ b2 := h2.1.2.2
  apply under_false_of
  · intro h
    exact hne (append_sep_inj 47 b1 b2 n n' hs1 hs2 (List.append_cancel_left h).symm)
  · intro h
    obtain ⟨y, ys, rfl, _⟩ := clean_not_abs b1 h1
    have := congrArg List.length h
    simp at this
    omega
  · intro t h
    rw [List.append_assoc, List.append_assoc] at h
    have h' := List.append_cancel_left h
    have : b2 ++ 47 :: n' = b1 ++ 47 :: (n ++ [47] ++ t) := by simpa [SLASH] using h'
    exact hne (append_sep_inj 47 b1 b2 _ _ hs1 hs2 this.symm)

end Lc.ExportPath
