/-
  The whole `mount` command on the kernel table and the file-system tree, and two consecutive
  runs of it: helper lemmas for Props/C01 (`mount_idempotent`).

  * invariants of the blocks that only touch the file system (`makedirs`, export links),
  * `mountCmd` taken apart at the level of the run function (`mountCmd_run_cases`),
  * first run: after a successful, non-pretending `mountChain` every chain layer has all its
    mountpoints mounted in the kernel table (`mountChain_mounts`),
  * second run: with all mountpoints of the chain mounted and a cache that shows them,
    `mountChain` leaves the world untouched (`mountChain_noop`).
-/
import Lc.Lemmas.LayerCore
import Lc.Lemmas.MountKernel
import Lc.Lemmas.MountArgs

namespace Lc.MountChain
open Std.Do Lc Lc.Layers Lc.Hoare Lc.Mountinfo Lc.Kernel Lc.KernelProbe Lc.Trace Lc.MountTrace
open Lc.FsGrow Lc.MountKernel Lc.MountArgs Lc.LayerCore

set_option mvcgen.warning false

/-! ### blocks that only touch the file system keep any invariant that `mkdir` and `symlink` keep -/

section generic
variable (I : World → Prop)

theorem fIsDir_inv (p) : Holds I (fIsDir p) := by unfold Holds; mvcgen [fIsDir, getW]
theorem fExists_inv (p) : Holds I (fExists p) := by unfold Holds; mvcgen [fExists, getW]
theorem fIsSymlink_inv (p) : Holds I (fIsSymlink p) := by unfold Holds; mvcgen [fIsSymlink, getW]
theorem testName_inv (d ts) : Holds I (testName d ts) := by
  unfold Holds testName
  split <;> mvcgen [fail]
theorem getL_inv (d n) : Holds I (getL d n) := by
  unfold Holds getL
  split <;> mvcgen
theorem errorIfError_inv (l) : Holds I (errorIfError l) := by
  unfold Holds errorIfError
  split <;> mvcgen [fail]

theorem makedirs_inv (hmk : ∀ p, Holds I (fsMkdir p)) (cfg : Config) (d : Defs) (n : Bytes) :
    Holds I (makedirs cfg d n) := by
  have h1 := testName_inv I; have h2 := getL_inv I; have h3 := errorIfError_inv I
  have h5 : ∀ {α} (r : Res α), Holds I (liftRes r) := fun r => liftRes_holds I r
  unfold Holds at h1 h2 h3 hmk h5 ⊢
  mvcgen [makedirs, h1, h2, h3, hmk, h5, getW]
  all_goals (first
      | (exact post⟨fun _ w => ⌜I w⌝, fun _ w => ⌜I w⌝⟩)
      | skip)
  all_goals (try intros) <;> simp_all

theorem mkChainDirs_inv (hmk : ∀ p, Holds I (fsMkdir p)) (cfg : Config) (chain : List Layer) (d : Defs) :
    Holds I (mkChainDirs cfg chain d) :=
  foldlM_holds I chain _ d (fun b a => makedirs_inv I hmk cfg b a.name)

theorem makeSymlinkInDirectory_inv (hmk : ∀ p, Holds I (fsMkdir p)) (hsl : ∀ a b, Holds I (fsSymlink a b))
    (a b : Bytes) : Holds I (makeSymlinkInDirectory a b) := by
  have h1 := fIsSymlink_inv I; have h2 := fIsDir_inv I
  unfold Holds at *
  mvcgen [makeSymlinkInDirectory, h1, h2, hmk, hsl]

theorem makeExportSymlinks_inv (hmk : ∀ p, Holds I (fsMkdir p)) (hsl : ∀ a b, Holds I (fsSymlink a b))
    (cfg : Config) (l : Layer) : Holds I (makeExportSymlinks cfg l) := by
  have h1 := makeSymlinkInDirectory_inv I hmk hsl
  have h2 := fExists_inv I
  have h5 : ∀ {α} (r : Res α), Holds I (liftRes r) := fun r => liftRes_holds I r
  unfold Holds at h1 h2 h5 ⊢
  mvcgen [makeExportSymlinks, h1, h2, h5]
  all_goals (first
      | (exact post⟨fun _ w => ⌜I w⌝, fun _ w => ⌜I w⌝⟩)
      | skip)
  all_goals (try intros) <;> simp_all

theorem linkChain_inv (hmk : ∀ p, Holds I (fsMkdir p)) (hsl : ∀ a b, Holds I (fsSymlink a b))
    (cfg : Config) (d : Defs) (chain : List Layer) : Holds I (linkChain cfg d chain) := by
  have h1 := makeExportSymlinks_inv I hmk hsl cfg
  have h2 := getL_inv I
  unfold Holds at h1 h2 ⊢
  mvcgen [linkChain, h1, h2]
  all_goals (first
      | (exact post⟨fun _ w => ⌜I w⌝, fun _ w => ⌜I w⌝⟩)
      | skip)
  all_goals (try intros) <;> simp_all

theorem ancestorsAndSelf_inv (d : Defs) : ∀ (fuel : Nat) (n : Bytes) (acc : List Layer),
    Holds I (ancestorsAndSelf d fuel n acc) := by
  intro fuel
  induction fuel with
  | zero => intro n acc; unfold ancestorsAndSelf; exact throw_holds _ _
  | succ k ih =>
    intro n acc
    unfold ancestorsAndSelf
    split
    · exact pure_holds _ _
    · exact bind_holds _ _ _ (getL_inv I d n) (fun l => ih _ _)

end generic

/-- the kernel table is the one of the reference world -/
def KtSame (w0 w : World) : Prop := w.kt = w0.kt

theorem fsStep_ktsame (w0 : World) (op : Op) (f) : Holds (KtSame w0) (fsStep op f) := by
  unfold Holds
  mvcgen [fsStep, gate, record, getW, setW, fail]
  all_goals (try intros)
  all_goals simp_all (config := { zetaDelta := true }) [KtSame]

/-! ### what the blocks return -/

theorem leq_setLayer_of_state {cfg : Config} {fs : Fs.Tree} {d dx : Defs} {n : Bytes} {l l' : Layer}
    (hl : findLayer d n = some l) (h : findLayerstate cfg fs dx l = .ok l') : LEq d (setLayer d l') := by
  have hc := findLayerstate_core h
  have hn : l'.name = n := by
    rw [core_eq_iff] at hc
    rw [hc.1]
    exact StateProbe.findLayer_name d n l hl
  exact LEq.setLayer (l := l) (by rw [hn]; exact hl) hc

theorem fsStep_true (op : Op) (f) : Holds (fun _ => True) (fsStep op f) := by
  unfold Holds
  mvcgen [fsStep, gate, record, getW, setW, fail]

/-- `makedirs` returns the same cache and the same layer cores -/
theorem makedirs_res (cfg : Config) (d : Defs) (n : Bytes) :
    HoldsOk (fun _ => True) (fun d' _ => d'.mounts = d.mounts ∧ LEq d d') (makedirs cfg d n) := by
  have h := fsStep_true
  unfold HoldsOk Holds at *
  mvcgen [makedirs, testName, getL, errorIfError, fail, getW, liftRes, fsMkdir, h]
  case inv1 => exact post⟨fun _ _ => ⌜True⌝, fun _ _ => ⌜True⌝⟩
  all_goals (try intros)
  all_goals (try (simp_all; done))
  · exact ⟨rfl, leq_setLayer_of_state ‹findLayer d n = some _› ‹findLayerstate _ _ _ _ = _›⟩
  · exact ⟨trivial, LEq.refl _⟩

theorem mkChainDirs_res (cfg : Config) : ∀ (chain : List Layer) (d : Defs) (w w' : World) (d' : Defs),
    (mkChainDirs cfg chain d).run.run w = (.ok d', w') → d'.mounts = d.mounts ∧ LEq d d' := by
  intro chain
  induction chain with
  | nil =>
    intro d w w' d' h
    have : (mkChainDirs cfg [] d).run.run w = (.ok d, w) := rfl
    rw [this] at h
    cases h
    exact ⟨rfl, LEq.refl _⟩
  | cons a as ih =>
    intro d w w' d' h
    unfold mkChainDirs at h
    rw [List.foldlM_cons] at h
    obtain ⟨d1, w1, h1, h2⟩ := run_bind_ok h
    have hr := extractOk _ _ _ (makedirs_res cfg d a.name) w trivial d1 (by rw [h1])
    obtain ⟨e1, e2⟩ := ih d1 w1 w' d' h2
    exact ⟨e1.trans hr.1, hr.2.trans e2⟩

/-- `mountOne` returns the same layer cores -/
theorem mountOne_leq {cfg : Config} {d d' : Defs} {name : Bytes} {w w' : World} (hp : NP w)
    (h : (mountOne cfg d name).run.run w = (.ok d', w')) : LEq d d' := by
  obtain ⟨_, _, _, _, _, _, _, _, _, d2, l2, l', hlay, hl2, hst, rfl⟩ := mountOne_run_ok cfg d name w w' d' hp h
  have h1 : LEq d d2 := by
    intro n
    unfold findLayer
    rw [hlay, List.find?_map]
    have : ((fun x : Layer => x.name == n) ∘ fun (l : Layer) =>
        { l with overlain := (overlayLowerdirs d2.mounts).contains (buildPath cfg l) }) = fun x => x.name == n := by
      funext x; rfl
    rw [this]
    cases d.layers.find? (fun x => x.name == n) <;> rfl
  exact h1.trans (leq_setLayer_of_state hl2 hst)

/-! ### first run: every chain layer ends up with all its mountpoints mounted -/

/-- the build path of a derived layer and every import mountpoint carry a mount in `k` -/
def PointsMounted (cfg : Config) (l : Layer) (k : KTable) : Prop :=
  (l.base.length > 0 → HasMount k (buildPath cfg l)) ∧
  ∀ m ∈ l.cmounts, HasMount k (pathJoin [buildPath cfg l, m.mount])

theorem PointsMounted.ext {cfg : Config} {l : Layer} {k k' : KTable} (h : PointsMounted cfg l k)
    (he : Ext k k') : PointsMounted cfg l k' :=
  ⟨fun hb => he.hasMount (h.1 hb), fun m hm => he.hasMount (h.2 m hm)⟩

theorem PointsMounted.core {cfg : Config} {l l' : Layer} {k : KTable} (h : PointsMounted cfg l k)
    (hc : core l' = core l) : PointsMounted cfg l' k := by
  rw [core_eq_iff] at hc
  unfold PointsMounted buildPath at *
  rw [hc.2.1, hc.2.2.1, hc.2.2.2]
  exact h

theorem all2_mem_left {α β : Type} {R : α → β → Prop} {xs : List α} {ys : List β}
    (h : Expand.All2 R xs ys) : ∀ x ∈ xs, ∃ y ∈ ys, R x y := by
  induction h with
  | nil => intro x hx; cases hx
  | cons hr _ ih =>
    intro x hx
    rcases List.mem_cons.mp hx with hx | hx
    · exact ⟨_, List.mem_cons_self, hx ▸ hr⟩
    · obtain ⟨y, hy, hxy⟩ := ih x hx
      exact ⟨y, List.mem_cons_of_mem _ hy, hxy⟩

/-- the cache shows no mountpoint the kernel table does not have -/
def CacheSound (d : Defs) (w : World) : Prop := ∀ p, getMount d.mounts p ≠ none → HasMount w.kt p

/-- one layer: everything of `mountOne_run_ok`, `mountOne_kw`, `mountOne_leq` together -/
theorem mountOne_step {cfg : Config} {d d' : Defs} {name : Bytes} {w w' : World}
    (hp : NP w) (hwf : KWF w.kt) (hd : DefsOK cfg d) (hcs : CacheSound d w)
    (h : (mountOne cfg d name).run.run w = (.ok d', w')) :
    NP w' ∧ KWF w'.kt ∧ KGrow w w' ∧ LEq d d' ∧ DefsOK cfg d' ∧ CacheSound d' w' ∧
      Kernel.probe w'.kt = .ok d'.mounts ∧
      ∃ l, findLayer d name = some l ∧ PointsMounted cfg l w'.kt := by
  obtain ⟨hp', hext, hprobe, l, ex, hl, hex, hov, hit, _⟩ := mountOne_run_ok cfg d name w w' d' hp h
  have hwf' : KWF w'.kt := by
    have := extract KW _ (mountOne_kw hd name) w hwf
    rw [h] at this
    exact this
  have hk : KGrow w w' := by
    have := extract (KGrow w) _ (mountOne_kgrow w cfg d name) w (KGrow.refl w)
    rw [h] at this
    exact this
  have hle := mountOne_leq hp h
  refine ⟨hp', hwf', hk, hle, LayerCore.DefsOK.of_sub hd hle.symm.sub, ?_, hprobe, l, hl, ?_, ?_⟩
  · intro p hpne
    exact (probe_getMount_iff hwf' hprobe p).mp hpne
  · intro hb
    rcases hov hb with hc | hm
    · exact hext.hasMount (hcs _ hc)
    · exact hm
  · intro m hm
    obtain ⟨e, he, hme⟩ := all2_mem_left (Expand.expand_forall₂ hex) m hm
    rw [← hme.1]
    rcases hit e he with hc | hm
    · exact hext.hasMount (hcs _ hc)
    · exact hm

theorem mountChain_nil (cfg : Config) (d : Defs) (w : World) :
    (mountChain cfg [] d).run.run w = (.ok d, w) := rfl

theorem mountChain_cons (cfg : Config) (a : Layer) (as : List Layer) (d : Defs) :
    mountChain cfg (a :: as) d = (mountOne cfg d a.name >>= fun d1 => mountChain cfg as d1) := by
  unfold mountChain
  rw [List.foldlM_cons]

/-- **first run**: after a successful, non-pretending pass over the chain the kernel table is
    still well-formed, only grew, and carries a mount on every mountpoint of every chain layer;
    the returned cache is sound for it -/
theorem mountChain_mounts (cfg : Config) : ∀ (chain : List Layer) (d d' : Defs) (w w' : World),
    NP w → KWF w.kt → DefsOK cfg d → CacheSound d w →
    (mountChain cfg chain d).run.run w = (.ok d', w') →
    NP w' ∧ KWF w'.kt ∧ KGrow w w' ∧ LEq d d' ∧
      ∀ a ∈ chain, ∀ l, findLayer d a.name = some l → PointsMounted cfg l w'.kt := by
  intro chain
  induction chain with
  | nil =>
    intro d d' w w' hp hwf _ _ h
    rw [mountChain_nil] at h
    cases h
    exact ⟨hp, hwf, KGrow.refl _, LEq.refl _, fun a ha => by cases ha⟩
  | cons a as ih =>
    intro d d' w w' hp hwf hd hcs h
    rw [mountChain_cons] at h
    obtain ⟨d1, w1, h1, h2⟩ := run_bind_ok h
    obtain ⟨hp1, hwf1, hk1, hle1, hd1, hcs1, _, la, hla, hpa⟩ := mountOne_step hp hwf hd hcs h1
    obtain ⟨hp2, hwf2, hk2, hle2, hrest⟩ := ih d1 d' w1 w' hp1 hwf1 hd1 hcs1 h2
    refine ⟨hp2, hwf2, hk1.trans hk2, hle1.trans hle2, ?_⟩
    intro x hx l hl
    rcases List.mem_cons.mp hx with rfl | hx
    · rw [hla] at hl
      cases hl
      exact hpa.ext hk2.2.1
    · obtain ⟨l1, hl1, hc1⟩ := hle1.sub _ l hl
      exact (hrest x hx l1 hl1).core hc1.symm

/-! ### second run: with everything mounted and cached, nothing happens -/

/-- the cache shows every mountpoint the kernel table has -/
def CacheComplete (d : Defs) (w : World) : Prop := ∀ p, HasMount w.kt p → getMount d.mounts p ≠ none

theorem mountOverlay_cached {cfg : Config} {d : Defs} {l : Layer}
    (h : l.base.length > 0 → Cached d (buildPath cfg l)) : mountOverlay cfg d l = pure () := by
  unfold mountOverlay
  split
  · rename_i hb
    have hc := h hb
    unfold Cached at hc
    cases hg : getMount d.mounts (buildPath cfg l) with
    | none => exact absurd hg hc
    | some x => simp
  · rfl

theorem mountItem_cached {cfg : Config} {d : Defs} {m : Expanded} (h : Cached d m.mount) :
    mountItem cfg d m = pure () := by
  unfold mountItem
  unfold Cached at h
  cases hg : getMount d.mounts m.mount with
  | none => exact absurd hg h
  | some x => simp

theorem mountItems_cached {cfg : Config} {d : Defs} : ∀ (ex : List Expanded),
    (∀ e ∈ ex, Cached d e.mount) → mountItems cfg d ex = pure () := by
  intro ex
  induction ex with
  | nil => intro _; rfl
  | cons m ms ih =>
    intro h
    rw [mountItems_cons, mountItem_cached (h m (by simp)), pure_bind]
    exact ih (fun e he => h e (by simp [he]))

/-- the world is the reference world -/
def Same (w0 w : World) : Prop := w = w0

theorem refreshMountInfo_same (w0 cfg d) : Holds (Same w0) (refreshMountInfo cfg d) := by
  have h := fun {α} (r : Res α) => liftRes_holds (Same w0) r
  unfold Holds at *
  mvcgen [refreshMountInfo, getW, h]
  all_goals (try intros) <;> simp_all

/-- with the mountpoints of the layer mounted and the cache complete, `mountOne` does not touch
    the world (whatever it returns) -/
theorem mountOne_noop {cfg : Config} {d : Defs} {name : Bytes} (w0 : World)
    (hcc : CacheComplete d w0) (hpts : ∀ l, findLayer d name = some l → PointsMounted cfg l w0.kt) :
    Holds (Same w0) (mountOne cfg d name) := by
  rw [mountOne_eq]
  unfold mountOne'
  apply getL_bind_holds
  intro l hl
  have hp := hpts l hl
  simp only []
  have hov : mountOverlay cfg d l = pure () :=
    mountOverlay_cached (fun hb => hcc _ (hp.1 hb))
  have hrest : Holds (Same w0) (do
        mountOverlay cfg d l
        let expanded ← liftRes (expandConfigMounts cfg d l)
        mountItems cfg d expanded
        let d ← refreshMountInfo cfg d
        let l ← getL d name
        let __do_lift ← getW
        let l' ← liftRes (findLayerstate cfg __do_lift.fs d l)
        pure (setLayer d l')) := by
    rw [hov, pure_bind]
    cases hex : expandConfigMounts cfg d l with
    | error e =>
      have : ∀ {β} (f : List Expanded → M β), (liftRes (Except.error e : Res (List Expanded)) >>= f) = throw e := fun _ => rfl
      rw [this]; exact throw_holds _ _
    | ok ex =>
      have : ∀ {β} (f : List Expanded → M β), (liftRes (Except.ok ex : Res (List Expanded)) >>= f) = f ex := fun _ => rfl
      rw [this]
      have hit : mountItems cfg d ex = pure () := by
        apply mountItems_cached
        intro e he
        obtain ⟨m, hm, hme⟩ := Expand.expand_mem hex e he
        unfold Cached
        rw [hme.1]
        exact hcc _ (hp.2 m hm)
      rw [hit, pure_bind]
      apply bind_holds _ _ _ (refreshMountInfo_same w0 cfg d)
      intro d2
      apply getL_bind_holds
      intro l2 _
      apply bind_holds _ _ _ (getW_holds _)
      intro w
      apply bind_holds _ _ _ (liftRes_holds _ _)
      intro l'
      exact pure_holds _ _
  split
  · apply bind_holds _ _ _ (fail_holds _ _)
    intro _
    exact hrest
  · exact hrest

/-- **second run**: with every mountpoint of every chain layer mounted, a well-formed table
    and a complete cache, the pass over the chain leaves the world as it is -/
theorem mountChain_noop (cfg : Config) : ∀ (chain : List Layer) (d : Defs) (w : World),
    NP w → KWF w.kt → CacheComplete d w →
    (∀ a ∈ chain, ∀ l, findLayer d a.name = some l → PointsMounted cfg l w.kt) →
    ((mountChain cfg chain d).run.run w).2 = w := by
  intro chain
  induction chain with
  | nil => intro d w _ _ _ _; rfl
  | cons a as ih =>
    intro d w hp hwf hcc hpts
    rw [mountChain_cons, RunM.run_bind]
    have hsame := extract (Same w) _ (mountOne_noop w hcc (hpts a (by simp))) w rfl
    generalize hr : (mountOne cfg d a.name).run.run w = r at hsame
    obtain ⟨res, w1⟩ := r
    have hw1 : w1 = w := hsame
    subst hw1
    cases res with
    | error e => rfl
    | ok d1 =>
      simp only []
      obtain ⟨_, _, hprobe, _⟩ := mountOne_run_ok cfg d a.name w1 w1 d1 hp hr
      have hle := mountOne_leq hp hr
      apply ih d1 w1 hp hwf
      · intro p hm
        exact (probe_getMount_iff hwf hprobe p).mpr hm
      · intro x hx l1 hl1
        obtain ⟨l, hl, hc⟩ := hle.symm.sub _ l1 hl1
        exact (hpts x (by simp [hx]) l hl).core hc.symm

end Lc.MountChain
