/-
  From the view to the kernel table: the list `getMountAndSubmounts view bp` of a view that
  agrees with a kernel table `t` (ids, parent ids, mountpoints of the region at/below `bp`), read
  from its end, is an unmount order for which `TreeUmount.kumountSeq_tree` applies.
  * `sortBy_stable`: the stable sort keeps the table order of entries it need not exchange;
  * `Rep`, `forall2_of_map_eq`, `perm_map_transfer`: entries of the view and of the table
    correspond one to one;
  * `goodList`: the list is parents-first and covered-subtrees-first (both branches of
    `getMountAndSubmounts`);
  * `issueOrder_tree_never_refused`: the glue.
-/
import Lc.Lemmas.TreeOrderSub
import Lc.Lemmas.TreeUmount
import Lc.Lemmas.KernelProbe

namespace Lc.TreeGlue
open Lc Lc.Layers Lc.Mountinfo Lc.Kernel Lc.KernelResolve Lc.KernelUmount Lc.TreeOrder Lc.TreeUmount
open Lc.SortByAux

/-! ### the stable sort -/

theorem insertBy_rel {α} (lt : α → α → Bool) (Q : α → α → Prop)
    (hneg : ∀ a b c, lt a b = true → lt c b = false → lt a c = true) (x : α) :
    ∀ (s : List α), s.Pairwise (fun a b => lt b a = false) →
      s.Pairwise (fun a b => Q a b ∨ lt a b = true) → (∀ y ∈ s, Q y x) →
      (insertBy lt x s).Pairwise (fun a b => Q a b ∨ lt a b = true) := by
  intro s
  induction s with
  | nil => intro _ _ _; simp [insertBy]
  | cons y ys ih =>
    intro hs hg hq
    have hs' := List.pairwise_cons.mp hs
    have hg' := List.pairwise_cons.mp hg
    unfold insertBy
    split
    · rename_i hxy
      refine List.pairwise_cons.mpr ⟨?_, hg⟩
      intro z hz
      right
      rcases List.mem_cons.mp hz with hz | hz
      · rw [hz]; exact hxy
      · exact hneg x y z hxy (hs'.1 z hz)
    · refine List.pairwise_cons.mpr ⟨?_, ih hs'.2 hg'.2 (fun z hz => hq z (by simp [hz]))⟩
      intro w hw
      rcases List.mem_cons.mp ((insertBy_perm lt x ys).mem_iff.mp hw) with hw | hw
      · rw [hw]; exact .inl (hq y (by simp))
      · exact hg'.1 w hw

/-- **`sortBy lt l.reverse` is a stable sort**: two entries come out in their order in `l`
    unless the first is `lt`-smaller than the second -/
theorem sortBy_stable {α} (lt : α → α → Bool) (Q : α → α → Prop) (hirr : ∀ a, lt a a = false)
    (htrans : ∀ a b c, lt a b = true → lt b c = true → lt a c = true)
    (hneg : ∀ a b c, lt a b = true → lt c b = false → lt a c = true) :
    ∀ (r : List α), r.reverse.Pairwise Q → (sortBy lt r).Pairwise (fun a b => Q a b ∨ lt a b = true) := by
  intro r
  induction r with
  | nil => intro _; simp [sortBy]
  | cons x r' ih =>
    intro h
    rw [List.reverse_cons, List.pairwise_append] at h
    unfold sortBy
    apply insertBy_rel lt Q hneg x _ (sortBy_sorted lt hirr htrans r') (ih h.1)
    intro y hy
    exact h.2.2 y (List.mem_reverse.mpr ((mem_sortBy lt r' y).mp hy)) x (by simp)

/-! ### entries of the view and of the table -/

/-- the view entry `x` shows the kernel entry `k` -/
def Rep (x : MountType) (k : KMnt) : Prop :=
  x.id = natBytes k.id ∧ x.parent = natBytes k.parent ∧ x.mountpoint = k.mp

/-- elementwise related lists -/
inductive F2 {α β : Type} (R : α → β → Prop) : List α → List β → Prop
  | nil : F2 R [] []
  | cons {a : α} {b : β} {l1 : List α} {l2 : List β} : R a b → F2 R l1 l2 → F2 R (a :: l1) (b :: l2)

theorem forall2_of_map_eq : ∀ (V : List MountType) (T : List KMnt),
    V.map (fun x => (x.id, x.parent, x.mountpoint)) = T.map (fun m => (natBytes m.id, natBytes m.parent, m.mp)) →
    F2 Rep V T := by
  intro V
  induction V with
  | nil =>
    intro T h
    cases T with
    | nil => exact .nil
    | cons _ _ => simp at h
  | cons x xs ih =>
    intro T h
    cases T with
    | nil => simp at h
    | cons k ks =>
      simp only [List.map_cons, List.cons.injEq, Prod.mk.injEq] at h
      exact .cons ⟨h.1.1, h.1.2.1, h.1.2.2⟩ (ih ks h.2)

theorem forall2_mem_left {α β : Type} {R : α → β → Prop} {l1 : List α} {l2 : List β} (h : F2 R l1 l2) :
    ∀ a ∈ l1, ∃ b ∈ l2, R a b := by
  induction h with
  | nil => intro a ha; cases ha
  | cons hr _ ih =>
    intro a ha
    rcases List.mem_cons.mp ha with ha | ha
    · subst ha; exact ⟨_, by simp, hr⟩
    · obtain ⟨b, hb, hab⟩ := ih a ha
      exact ⟨b, List.mem_cons_of_mem _ hb, hab⟩

theorem forall2_mem_right {α β : Type} {R : α → β → Prop} {l1 : List α} {l2 : List β} (h : F2 R l1 l2) :
    ∀ b ∈ l2, ∃ a ∈ l1, R a b := by
  induction h with
  | nil => intro b hb; cases hb
  | cons hr _ ih =>
    intro b hb
    rcases List.mem_cons.mp hb with hb | hb
    · subst hb; exact ⟨_, by simp, hr⟩
    · obtain ⟨a, ha, hab⟩ := ih b hb
      exact ⟨a, List.mem_cons_of_mem _ ha, hab⟩

theorem forall2_pairwise {α β : Type} {R : α → β → Prop} {P : α → α → Prop} {Q : β → β → Prop}
    {l1 : List α} {l2 : List β} (h : F2 R l1 l2)
    (himp : ∀ a b c d, a ∈ l1 → b ∈ l1 → R a c → R b d → P a b → Q c d) (hp : l1.Pairwise P) : l2.Pairwise Q := by
  induction h with
  | nil => exact .nil
  | @cons a c l1' l2' hr hrest ih =>
    have hp' := List.pairwise_cons.mp hp
    refine List.pairwise_cons.mpr ⟨?_, ih (fun a' b' c' d' ha' hb' => himp a' b' c' d'
      (List.mem_cons_of_mem _ ha') (List.mem_cons_of_mem _ hb')) hp'.2⟩
    intro d hd
    obtain ⟨b, hb, hbd⟩ := forall2_mem_right hrest d hd
    exact himp a b c d (by simp) (List.mem_cons_of_mem _ hb) hr hbd (hp'.1 b hb)

/-- a permutation on one side is matched by a permutation on the other -/
theorem forall2_perm {α β : Type} {R : α → β → Prop} {l1 l1' : List α} (hp : l1.Perm l1') :
    ∀ {l2 : List β}, F2 R l1 l2 → ∃ l2', l2'.Perm l2 ∧ F2 R l1' l2' := by
  induction hp with
  | nil => intro l2 h; cases h; exact ⟨[], .refl _, .nil⟩
  | cons x _ ih =>
    intro l2 h
    cases h with
    | cons hr hrest =>
      obtain ⟨m', hm', hf'⟩ := ih hrest
      exact ⟨_ :: m', .cons _ hm', .cons hr hf'⟩
  | swap x y l =>
    intro l2 h
    cases h with
    | cons hr1 h1 =>
      cases h1 with
      | cons hr2 h2 => exact ⟨_, .swap _ _ _, .cons hr2 (.cons hr1 h2)⟩
  | trans _ _ ih1 ih2 =>
    intro l2 h
    obtain ⟨m1, hm1, hf1⟩ := ih1 h
    obtain ⟨m2, hm2, hf2⟩ := ih2 hf1
    exact ⟨m2, hm2.trans hm1, hf2⟩

/-! ### what the table gives the view -/

theorem under_not_lt {a b : Bytes} (h : pathUnder a b = true) : bytesLt b a = false := by
  rw [pathUnder_iff] at h
  rcases h with h | ⟨t, h⟩
  · rw [h]; exact bytesLt_irrefl _
  · unfold sl at h
    split at h
    · rename_i h47
      have ha : a = [47] := by simpa using h47
      by_cases ht : t = []
      · subst ht; rw [h, ha]; exact bytesLt_irrefl _
      · rw [h, ha]; exact bytesLt_asymm (prefix_lt [47] t ht)
    · rw [h, List.append_assoc]; exact bytesLt_asymm (prefix_lt a _ (by simp))

theorem forall2_flip {α β : Type} {R : α → β → Prop} {l1 : List α} {l2 : List β} (h : F2 R l1 l2) :
    F2 (fun b a => R a b) l2 l1 := by
  induction h with
  | nil => exact .nil
  | cons hr _ ih => exact .cons hr ih

theorem forall2_with_mem {α β : Type} {R : α → β → Prop} {l1 : List α} {l2 : List β} (h : F2 R l1 l2)
    (T : List β) (hT : ∀ b ∈ l2, b ∈ T) : F2 (fun a b => R a b ∧ b ∈ T) l1 l2 := by
  induction h with
  | nil => exact .nil
  | cons hr _ ih => exact .cons ⟨hr, hT _ (by simp)⟩ (ih (fun b hb => hT b (List.mem_cons_of_mem _ hb)))

theorem forall2_map_eq {l1 : List MountType} {l2 : List KMnt} (h : F2 Rep l1 l2) :
    l1.map (·.mountpoint) = l2.map (·.mp) := by
  induction h with
  | nil => rfl
  | cons hr _ ih => simp only [List.map_cons, hr.2.2, ih]

theorem pairwise_of_forall_mem {α} {R : α → α → Prop} : ∀ {l : List α}, (∀ a ∈ l, ∀ b ∈ l, R a b) → l.Pairwise R := by
  intro l
  induction l with
  | nil => intro _; exact .nil
  | cons x xs ih =>
    intro h
    exact List.pairwise_cons.mpr ⟨fun y hy => h x (by simp) y (by simp [hy]),
      ih (fun a ha b hb => h a (by simp [ha]) b (by simp [hb]))⟩

theorem natBytes_ne_nil (n : Nat) : natBytes n ≠ [] := by
  rw [KernelProbe.natBytes_eq]; exact KernelProbe.digitBytes_ne_nil n

/-- the region test of the view and of the table -/
theorem regionOf_eq (V : Mounts) (bp : Bytes) :
    TreeOrder.regionOf V bp = V.list.filter (fun x => atOrBelow bp x.mountpoint) := rfl

/-- a mount of the region is not mounted on "/" -/
theorem region_ne_root {bp q : Bytes} (hbp : bp ≠ [47]) (hbp2 : bp ≠ []) (h : atOrBelow bp q = true) : q ≠ [47] := by
  intro hq
  subst hq
  unfold atOrBelow at h
  rcases Bool.or_eq_true_iff.mp h with h | h
  · exact hbp (beq_iff_eq.mp h).symm
  · obtain ⟨t, ht⟩ := (ExportFs.hasPrefix_iff _ _).mp h
    have := congrArg List.length ht
    simp at this
    exact hbp2 (List.eq_nil_of_length_eq_zero (by omega))

/-! ### the list is parents-first and covered-subtrees-first -/

section glue
variable (t : KTable) (V : Mounts) (bp : Bytes)

/-- what the table's tree discipline gives the view's region entries -/
theorem view_facts (ht : Tree t.mnts)
    (hv : F2 Rep (TreeOrder.regionOf V bp) (t.mnts.filter (fun m => atOrBelow bp m.mp))) :
    ((TreeOrder.regionOf V bp).map (·.id)).Nodup ∧
    (∀ x ∈ TreeOrder.regionOf V bp, x.id ≠ x.parent) ∧
    (TreeOrder.regionOf V bp).Pairwise (fun x y => y.id ≠ x.parent) ∧
    (∀ x ∈ TreeOrder.regionOf V bp, ∀ y ∈ TreeOrder.regionOf V bp, x.parent = y.id →
      pathUnder y.mountpoint x.mountpoint = true) := by
  have hsub : (t.mnts.filter (fun m => atOrBelow bp m.mp)).Sublist t.mnts := List.filter_sublist
  have htr := KWF.sublist hsub ht
  have hflip := forall2_flip hv
  refine ⟨?_, ?_, ?_, ?_⟩
  · rw [List.Nodup, List.pairwise_map]
    have hn := htr.ids
    rw [List.Nodup, List.pairwise_map] at hn
    refine forall2_pairwise hflip ?_ hn
    intro a b c d _ _ hac hbd hab he
    apply hab
    apply KernelProbe.natBytes_injective
    rw [← hac.1, ← hbd.1, he]
  · intro x hx
    obtain ⟨k, hk, hr⟩ := forall2_mem_left hv x hx
    intro he
    apply htr.noSelf k hk
    apply KernelProbe.natBytes_injective
    rw [← hr.1, ← hr.2.1, he]
  · refine forall2_pairwise hflip ?_ htr.parentFirst
    intro a b c d _ _ hac hbd hab he
    apply hab
    apply KernelProbe.natBytes_injective
    rw [← hac.2.1, ← hbd.1, he]
  · intro x hx y hy hpar
    obtain ⟨kx, hkx, hrx⟩ := forall2_mem_left hv x hx
    obtain ⟨ky, hky, hry⟩ := forall2_mem_left hv y hy
    have : kx.parent = ky.id := by
      apply KernelProbe.natBytes_injective
      rw [← hrx.2.1, ← hry.1, hpar]
    rw [hrx.2.2, hry.2.2]
    exact htr.under kx hkx ky hky this

theorem mem_sortedRegion (x : MountType) : x ∈ TreeOrder.sortedRegion V bp ↔ x ∈ TreeOrder.regionOf V bp := by
  unfold TreeOrder.sortedRegion
  rw [mem_sortBy, List.mem_reverse]

theorem bytesLt_neg (a b c : Bytes) (h1 : bytesLt a b = true) (h2 : bytesLt c b = false) : bytesLt a c = true := by
  rcases bytesLt_total c b with h | h | h
  · rw [h] at h2; cases h2
  · rw [h]; exact h1
  · exact bytesLt_trans h1 h

/-- the path-sorted list of the view's region -/
theorem sorted_facts (ht : Tree t.mnts)
    (hv : F2 Rep (TreeOrder.regionOf V bp) (t.mnts.filter (fun m => atOrBelow bp m.mp))) :
    ((TreeOrder.sortedRegion V bp).map (·.id)).Nodup ∧
    (∀ x ∈ TreeOrder.sortedRegion V bp, x.id ≠ x.parent) ∧
    (TreeOrder.sortedRegion V bp).Pairwise (fun x y => y.id ≠ x.parent) ∧
    (TreeOrder.sortedRegion V bp).Pairwise (fun a b => bytesLt b.mountpoint a.mountpoint = false) := by
  obtain ⟨v1, v2, v3, v4⟩ := view_facts t V bp ht hv
  have hperm : (TreeOrder.sortedRegion V bp).Perm (TreeOrder.regionOf V bp) :=
    (sortBy_perm _ _).trans (List.reverse_perm _)
  refine ⟨(hperm.map _).nodup_iff.mpr v1, fun x hx => v2 x ((mem_sortedRegion V bp x).mp hx), ?_, ?_⟩
  · have hst := sortBy_stable (fun a b : MountType => bytesLt a.mountpoint b.mountpoint)
      (fun x y => y.id ≠ x.parent) (fun a => bytesLt_irrefl _) (fun a b c h1 h2 => bytesLt_trans h1 h2)
      (fun a b c h1 h2 => bytesLt_neg _ _ _ h1 h2) (TreeOrder.regionOf V bp).reverse
      (by rw [List.reverse_reverse]; exact v3)
    refine List.Pairwise.imp_of_mem ?_ hst
    intro x y hx hy hor
    rcases hor with h | h
    · exact h
    · intro he
      have hu := v4 x ((mem_sortedRegion V bp x).mp hx) y ((mem_sortedRegion V bp y).mp hy) he.symm
      rw [under_not_lt hu] at h
      cases h
  · exact sortBy_sorted (fun a b : MountType => bytesLt a.mountpoint b.mountpoint)
      (fun a => bytesLt_irrefl _) (fun a b c h1 h2 => bytesLt_trans h1 h2) _

/-- **both branches of `getMountAndSubmounts`**: nothing is listed before the mount it hangs
    below, and nothing is listed after a mount that covers it or a mount it hangs below -/
theorem goodList (ht : Tree t.mnts)
    (hv : F2 Rep (TreeOrder.regionOf V bp) (t.mnts.filter (fun m => atOrBelow bp m.mp))) :
    (getMountAndSubmounts V bp).Pairwise (fun x y => y.id ≠ x.parent) ∧
    (getMountAndSubmounts V bp).Pairwise (fun x y => ¬ UBV (TreeOrder.sortedRegion V bp) x y) := by
  obtain ⟨s1, s2, s3, s4⟩ := sorted_facts t V bp ht hv
  rw [TreeOrder.getMountAndSubmounts_eq]
  cases hc : hasCoveredMount (TreeOrder.sortedRegion V bp) with
  | true =>
    simp only [if_true]
    exact ⟨TreeOrder.inTreeOrder_parent_first _ s1 s2 s3, TreeOrder.inTreeOrder_subtree_first _ s1 s2 s3 s4⟩
  | false =>
    simp only [Bool.false_eq_true, if_false]
    refine ⟨s3, pairwise_of_forall_mem ?_⟩
    rintro x hx y _ ⟨a, hca, hch⟩
    have : hasCoveredMount (TreeOrder.sortedRegion V bp) = true := by
      unfold hasCoveredMount
      exact List.any_eq_true.mpr ⟨x, hx, List.any_eq_true.mpr ⟨a, hch.mem_left, hca⟩⟩
    rw [hc] at this; cases this

/-- a chain of the table, inside the region, is a chain of the view -/
theorem chain_transfer (ht : Tree t.mnts) (hbp : bp ≠ [47])
    (hv : F2 Rep (TreeOrder.regionOf V bp) (t.mnts.filter (fun m => atOrBelow bp m.mp)))
    {a y : KMnt} (h : Chain t.mnts a y) :
    atOrBelow bp a.mp = true → ∀ y' ∈ TreeOrder.sortedRegion V bp, Rep y' y →
      ∃ a' ∈ TreeOrder.sortedRegion V bp, Rep a' a ∧ ChainV (TreeOrder.sortedRegion V bp) a' y' := by
  induction h with
  | refl _ => intro _ y' hy' hr; exact ⟨y', hy', hr, .refl hy'⟩
  | @step c a1 y hc ha1 hpar _ ih =>
    intro hcr y' hy' hr
    have ha1r : atOrBelow bp a1.mp = true := by
      rw [atOrBelow_eq_pathUnder hbp] at hcr ⊢
      exact pathUnder_trans hcr (ht.under a1 ha1 c hc hpar)
    obtain ⟨a1', ha1', hra1, hch⟩ := ih ha1r y' hy' hr
    obtain ⟨c', hc', hrc⟩ := forall2_mem_right hv c (List.mem_filter.mpr ⟨hc, hcr⟩)
    have hc'S := (mem_sortedRegion V bp c').mpr hc'
    exact ⟨c', hc'S, hrc, .step hc'S ha1' (by rw [hra1.2.1, hrc.1, hpar]) hch⟩

/-- **the glue**: the list of a view that agrees with a strict-tree table whose region is closed,
    read from its end, is never refused by the kernel model -/
theorem issueOrder_tree_never_refused (ht : TreeS t.mnts) (hcl : ClosedRegion t.mnts bp)
    (hbp : bp ≠ [47]) (hbp2 : bp ≠ [])
    (hv : (V.list.filter (fun x => atOrBelow bp x.mountpoint)).map (fun x => (x.id, x.parent, x.mountpoint)) =
      (t.mnts.filter (fun m => atOrBelow bp m.mp)).map (fun m => (natBytes m.id, natBytes m.parent, m.mp))) :
    (kumountSeq t ((getMountAndSubmounts V bp).reverse.map (·.mountpoint))).2.2 = none := by
  have hv2 : F2 Rep (TreeOrder.regionOf V bp) (t.mnts.filter (fun m => atOrBelow bp m.mp)) :=
    forall2_of_map_eq _ _ hv
  obtain ⟨g1, g2⟩ := goodList t V bp ht.toTree hv2
  -- the kernel entries in the order of the list
  obtain ⟨E, hEperm, hLE⟩ := forall2_perm (TreeOrder.getMountAndSubmounts_perm_region V bp).symm hv2
  have hLE' := forall2_with_mem hLE (t.mnts.filter (fun m => atOrBelow bp m.mp)) (fun b hb => hEperm.mem_iff.mp hb)
  have hLS : ∀ x ∈ getMountAndSubmounts V bp, x ∈ TreeOrder.sortedRegion V bp := by
    intro x hx
    exact (mem_sortedRegion V bp x).mpr ((TreeOrder.getMountAndSubmounts_perm_region V bp).mem_iff.mp hx)
  have hmap : (getMountAndSubmounts V bp).reverse.map (·.mountpoint) = E.reverse.map (·.mp) := by
    rw [List.map_reverse, List.map_reverse, forall2_map_eq hLE]
  rw [hmap]
  apply kumountSeq_tree t.mnts bp hbp E.reverse t ht (fun m hm => hm) hcl
    ((List.reverse_perm E).trans hEperm)
  · -- O1
    rw [List.pairwise_reverse]
    refine forall2_pairwise hLE' ?_ g1
    intro a b c d _ _ hac hbd hab he
    apply hab
    rw [hac.1.2.1, hbd.1.1, he]
  · -- O2
    rw [List.pairwise_reverse]
    refine forall2_pairwise hLE' ?_ g2
    rintro x' y' x y hx' hy' ⟨hrx, hxT⟩ ⟨hry, _⟩ hnub ⟨a, ⟨hne, hpar, hu⟩, hch⟩
    apply hnub
    obtain ⟨hxm, hxr⟩ := List.mem_filter.mp hxT
    have ham := hch.mem_left
    have har : atOrBelow bp a.mp = true := by
      rw [atOrBelow_eq_pathUnder hbp] at hxr ⊢
      exact pathUnder_trans hxr hu
    obtain ⟨a', ha', hra, hchv⟩ := chain_transfer t V bp ht.toTree hbp hv2 hch har y' (hLS y' hy') hry
    refine ⟨a', ?_, hchv⟩
    -- x' covers a'
    have hidne : x.id ≠ a.id := fun e => hne (eq_of_id_eq ht.ids hxm ham e)
    have hmpne : x.mp ≠ a.mp := ht.noTwins x hxm a ham hne hpar
    have hxroot : x.mp ≠ [47] := region_ne_root hbp hbp2 hxr
    have hpre : hasPrefix a.mp (x.mp ++ [47]) = true := by
      rw [pathUnder_iff] at hu
      rcases hu with h | ⟨tl, h⟩
      · exact absurd h.symm hmpne
      · unfold sl at h
        have : (x.mp == [47]) = false := by simpa using hxroot
        rw [this] at h
        exact (ExportFs.hasPrefix_iff _ _).mpr ⟨tl, h⟩
    unfold covers
    rw [hrx.1, hrx.2.1, hrx.2.2, hra.1, hra.2.1, hra.2.2, hpar]
    have h1 : decide ((natBytes x.id).length > 0) = true := by
      have := List.length_pos_iff.mpr (natBytes_ne_nil x.id); simpa using this
    have h2 : decide ((natBytes a.parent).length > 0) = true := by
      have := List.length_pos_iff.mpr (natBytes_ne_nil a.parent); simpa using this
    have h3 : (natBytes x.id != natBytes a.id) = true := by
      simp only [bne_iff_ne, ne_eq]
      exact fun e => hidne (KernelProbe.natBytes_injective e)
    simp [h1, h2, h3, hpre]

end glue

end Lc.TreeGlue
