/-
  `Fs.mkdirAll` (os.MkdirAll over the tree model): after success the path is a directory,
  and directories that were there before are still there.  Helper lemmas for Props/C08.
-/
import Lc.Model.Fs

namespace Lc.Fs
open Lc

theorem isDir_iff (fs : Tree) (p : Bytes) : isDir fs p = true ↔ stat fs p = some .dir := by
  unfold isDir
  cases stat fs p with
  | none => simp
  | some n => cases n <;> simp <;> rfl

theorem get_none_any (fs : Tree) (d : Bytes) (h : get fs d = none) : fs.any (·.1 == d) = false := by
  unfold get at h
  split at h
  · cases h
  · rename_i hf
    simpa using hf

theorem set_new (fs : Tree) (d : Bytes) (n : Node) (h : get fs d = none) :
    set fs d n = fs ++ [(d, n)] := by
  unfold set
  rw [get_none_any fs d h]
  rfl

theorem get_append_some (fs : Tree) (d q : Bytes) (n x : Node) (h : get fs q = some x) :
    get (fs ++ [(d, n)]) q = some x := by
  unfold get at h ⊢
  rw [List.find?_append]
  split at h
  · rename_i e he
    rw [he]
    exact h
  · cases h

theorem get_append_self (fs : Tree) (d : Bytes) (n : Node) (h : get fs d = none) :
    get (fs ++ [(d, n)]) d = some n := by
  unfold get at h ⊢
  rw [List.find?_append]
  split at h
  · cases h
  · rename_i hf
    rw [hf]
    simp

/-- a new entry does not disturb a `stat` that ended in a directory -/
theorem statAux_append (k : Nat) (fs : Tree) (d q : Bytes) (n : Node)
    (h : statAux k fs q = some .dir) : statAux k (fs ++ [(d, n)]) q = some .dir := by
  induction k generalizing q with
  | zero => simp [statAux] at h
  | succ k ih =>
    unfold statAux at h ⊢
    cases hg : get fs q with
    | none => rw [hg] at h; cases h
    | some x =>
      rw [get_append_some fs d q n x hg]
      rw [hg] at h
      cases x with
      | symlink t => exact ih _ h
      | dir => exact h
      | file c => exact h

/-- one round of `mkdirAll` -/
def mkStep (acc : Tree) (d : Bytes) : Except String Tree :=
  match stat acc d with
  | none => if (get acc d).isSome then .error "ENOENT" else .ok (set acc d .dir)
  | some .dir => .ok acc
  | some _ => .error "ENOTDIR"

theorem mkdirAll_eq (fs : Tree) (p : Bytes) : mkdirAll fs p = (ancestors p ++ [p]).foldlM mkStep fs := rfl

theorem mkStep_keeps (acc acc' : Tree) (d q : Bytes) (h : mkStep acc d = .ok acc')
    (hq : isDir acc q = true) : isDir acc' q = true := by
  unfold mkStep at h
  split at h
  · split at h
    · cases h
    · rename_i hg
      cases h
      have hg' : get acc d = none := by simpa using hg
      rw [set_new acc d .dir hg']
      rw [isDir_iff] at hq ⊢
      exact statAux_append 8 acc d q .dir hq
  · cases h; exact hq
  · cases h

theorem mkStep_makes (acc acc' : Tree) (d : Bytes) (h : mkStep acc d = .ok acc') :
    isDir acc' d = true := by
  unfold mkStep at h
  split at h
  · split at h
    · cases h
    · rename_i hg
      cases h
      have hg' : get acc d = none := by simpa using hg
      rw [set_new acc d .dir hg', isDir_iff]
      unfold stat statAux
      rw [get_append_self acc d .dir hg']
  · rename_i hs
    cases h
    rw [isDir_iff]
    exact hs
  · cases h

theorem foldlM_mkStep_keeps (ds : List Bytes) (acc acc' : Tree) (q : Bytes)
    (h : ds.foldlM mkStep acc = .ok acc') (hq : isDir acc q = true) : isDir acc' q = true := by
  induction ds generalizing acc with
  | nil =>
    simp only [List.foldlM_nil, pure, Except.pure, Except.ok.injEq] at h
    subst h; exact hq
  | cons d ds ih =>
    simp only [List.foldlM_cons, bind, Except.bind] at h
    split at h
    · cases h
    · rename_i a ha
      exact ih a h (mkStep_keeps acc a d q ha hq)

/-- directories survive a successful `mkdirAll` -/
theorem mkdirAll_keeps (fs fs' : Tree) (p q : Bytes) (h : mkdirAll fs p = .ok fs')
    (hq : isDir fs q = true) : isDir fs' q = true := by
  rw [mkdirAll_eq] at h
  exact foldlM_mkStep_keeps _ fs fs' q h hq

/-- after a successful `mkdirAll fs p`, `p` is a directory -/
theorem mkdirAll_isDir (fs fs' : Tree) (p : Bytes) (h : mkdirAll fs p = .ok fs') :
    isDir fs' p = true := by
  rw [mkdirAll_eq, List.foldlM_append] at h
  simp only [bind, Except.bind] at h
  split at h
  · cases h
  · rename_i a ha
    simp only [List.foldlM_cons, List.foldlM_nil, bind, Except.bind] at h
    split at h
    · cases h
    · rename_i b hb
      simp only [pure, Except.pure, Except.ok.injEq] at h
      subst h
      exact mkStep_makes a b p hb

end Lc.Fs
