/-
  The forest ON DISK: what `findLayers` makes of a well-formed tree, described path by path.
  With a clean absolute layers directory `/d1/…/dk` the layer `n` lives at `/d1/…/dk/n` and
  its layerconfig at `/d1/…/dk/n/layerconfig`; `n` is listed iff the first path is present;
  the (name, base) pairs of the table `findLayers` returns are exactly the pairs
  "listed legal name, base line of its readable layerconfig".  The cycle check depends only
  on the SET of (name, base) pairs when names are unique (`check_of_same_view`), so it can be
  carried from the table a command returns to the table the next invocation reads.
  Helper lemmas for Props/C02.
-/
import Lc.Lemmas.TreeKeeps

namespace Lc.DiskView
open Lc Lc.Layers Lc.Fs Lc.Lemmas.Path Lc.ExportPath Lc.InLayers Lc.TreeWF Lc.TreeKeeps Lc.ForestInv
  Lc.ForestCmd Lc.Lemmas.WriteLF Lc.Layerfile

/-! ### paths below the layers directory -/

theorem pathClean_absPath_join (ds cs : List Bytes) (hds : ∀ c ∈ ds, CleanName c)
    (hcs : ∀ c ∈ cs, CleanName c) (hne : cs ≠ []) :
    pathClean (absPath ds ++ SLASH :: joinWith SLASH cs) = absPath (ds ++ cs) := by
  have hall : ∀ c ∈ ds ++ cs, CleanName c := by
    intro c hc
    rcases List.mem_append.mp hc with h | h
    · exact hds c h
    · exact hcs c h
  have habs : isAbs (absPath ds ++ [SLASH]) = true := rfl
  rw [pathClean_eq_assemble, isAbs_append_sep, habs, pathComps_append_sep, pathComps_absPath ds hds,
    pathComps_join cs hne (fun c hc => (hcs c hc).1), foldl_push true _ (clean_no_dotdot _ hall)]
  unfold assemble absPath
  simp

/-- `path.Join` of a clean absolute path and clean names -/
theorem pathJoin_absPath (ds cs : List Bytes) (hds : ∀ c ∈ ds, CleanName c)
    (hcs : ∀ c ∈ cs, CleanName c) (hne : cs ≠ []) :
    pathJoin (absPath ds :: cs) = absPath (ds ++ cs) := by
  cases cs with
  | nil => exact absurd rfl hne
  | cons c rest =>
    have h1 : pathJoin (absPath ds :: c :: rest) = pathClean (absPath ds ++ SLASH :: joinWith SLASH (c :: rest)) := by
      unfold pathJoin absPath
      simp [joinWith]
    rw [h1]
    exact pathClean_absPath_join ds (c :: rest) hds hcs hne

/-- the components of the layers directory -/
structure LD (cfg : Config) (ds : List Bytes) : Prop where
  clean : ∀ c ∈ ds, CleanName c
  eq : cfg.layerdirs = absPath ds

theorem ld_of_clean (cfg : Config) (h : CleanAbs cfg.layerdirs) : ∃ ds, LD cfg ds := by
  obtain ⟨ds, hds, e⟩ := cleanAbs_comps _ h
  exact ⟨ds, hds, e⟩

/-- the layerconfig path of the layer directory named `n` -/
def cfgOf (cfg : Config) (n : Bytes) : Bytes := pathJoin [layerPath cfg n, b!"layerconfig"]

theorem layerPath_eq {cfg : Config} {ds : List Bytes} (h : LD cfg ds) (n : Bytes) (hn : CleanName n) :
    layerPath cfg n = absPath (ds ++ [n]) := by
  unfold layerPath
  rw [h.eq]
  exact pathJoin_absPath ds [n] h.clean (by simpa using hn) (by simp)

theorem snoc_clean {ds : List Bytes} (hds : ∀ c ∈ ds, CleanName c) {n : Bytes} (hn : CleanName n) :
    ∀ c ∈ ds ++ [n], CleanName c := by
  intro c hc
  rcases List.mem_append.mp hc with h | h
  · exact hds c h
  · simp at h; rw [h]; exact hn

theorem cfgOf_eq {cfg : Config} {ds : List Bytes} (h : LD cfg ds) (n : Bytes) (hn : CleanName n) :
    cfgOf cfg n = absPath (ds ++ [n] ++ [lcName]) := by
  unfold cfgOf
  rw [layerPath_eq h n hn]
  exact pathJoin_absPath (ds ++ [n]) [lcName] (snoc_clean h.clean hn)
    (by simpa using LayerPaths.lcName_clean) (by simp)

/-! ### the listing of the layers directory -/

/-- **what is listed**: the names `n` whose directory path is present -/
theorem mem_children_iff {cfg : Config} {ds : List Bytes} (h : LD cfg ds) {fs : Tree} (hT : TreeWF fs)
    (n : Bytes) :
    n ∈ Fs.children fs cfg.layerdirs ↔ CleanName n ∧ absPath (ds ++ [n]) ∈ keys fs := by
  unfold Fs.children
  constructor
  · intro hm
    obtain ⟨e, he, rfl⟩ := List.mem_map.mp hm
    obtain ⟨hem, hp⟩ := List.mem_filter.mp he
    simp only [Bool.and_eq_true, bne_iff_ne, ne_eq, beq_iff_eq] at hp
    have hroot : e.1 ≠ [47] := by
      intro e1
      rw [e1, pathDir_root] at hp
      exact hp.1.1 hp.2
    obtain ⟨pre, c, hpre, hc, hk, hd⟩ := parent_shape e.1 (hT.2.1 e hem) hroot
    have hpd : pre = ds := absPath_inj pre ds hpre h.clean (by rw [← hd, hp.2, h.eq])
    rw [hk, pathBase_snoc pre c hc]
    refine ⟨hc, ?_⟩
    rw [← hpd, ← hk]
    exact List.mem_map.mpr ⟨e, hem, rfl⟩
  · rintro ⟨hn, hk⟩
    obtain ⟨e, he, e1⟩ := List.mem_map.mp hk
    refine List.mem_map.mpr ⟨e, List.mem_filter.mpr ⟨he, ?_⟩, by rw [e1, pathBase_snoc ds n hn]⟩
    have hall := snoc_clean h.clean hn
    simp only [Bool.and_eq_true, bne_iff_ne, ne_eq, beq_iff_eq]
    refine ⟨⟨?_, ?_⟩, ?_⟩
    · rw [e1, h.eq]
      intro e2
      have := absPath_inj _ _ hall h.clean e2
      simp at this
    · rw [e1, h.eq]
      exact (under_absPath ds _ h.clean hall).mpr (List.prefix_append _ _)
    · rw [e1, h.eq]
      exact pathDir_snoc' ds n h.clean hn

/-! ### the table read from the disk -/

/-- what `findLayers` reads -/
def diskLayers (cfg : Config) (fs : Tree) : List Layer :=
  readLayerFiles cfg fs (Fs.children fs cfg.layerdirs)

theorem mem_readLayerFiles_iff (cfg : Config) (fs : Tree) (names : List Bytes) (l : Layer) :
    l ∈ readLayerFiles cfg fs names ↔
      ∃ n ∈ names, isLegalLayerName n = true ∧ ∃ c, Fs.readFile fs (cfgOf cfg n) = some c ∧
        l = layerOfFile cfg n (readLayerFile c) := by
  unfold readLayerFiles
  rw [List.mem_filterMap]
  constructor
  · rintro ⟨n, hn, hf⟩
    split at hf
    · cases hf
    · rename_i hleg
      dsimp only at hf
      split at hf
      · rename_i c hc
        injection hf with hf
        exact ⟨n, hn, by simpa using hleg, c, hc, hf.symm⟩
      · cases hf
  · rintro ⟨n, hn, hleg, c, hc, rfl⟩
    refine ⟨n, hn, ?_⟩
    have : (!isLegalLayerName n) = false := by simp [hleg]
    simp only [this, Bool.false_eq_true, if_false]
    show (match Fs.readFile fs (cfgOf cfg n) with | some content => _ | none => none) = _
    rw [hc]

/-- **the (name, base) pairs on disk**: `n` is a listed legal name and its layerconfig is
    readable with base line `b` -/
theorem mem_diskView_iff {cfg : Config} {ds : List Bytes} (h : LD cfg ds) {fs : Tree} (hT : TreeWF fs)
    (a b : Bytes) :
    (a, b) ∈ (diskLayers cfg fs).map nb ↔
      a ≠ [] ∧ isLegalLayerName a = true ∧ layerPath cfg a ∈ keys fs ∧
        ∃ c, Fs.readFile fs (cfgOf cfg a) = some c ∧ (readLayerFile c).base = b := by
  unfold diskLayers
  constructor
  · intro hm
    obtain ⟨l, hl, e⟩ := List.mem_map.mp hm
    obtain ⟨n, hn, hleg, c, hc, rfl⟩ := (mem_readLayerFiles_iff cfg fs _ l).mp hl
    obtain ⟨hcn, hk⟩ := (mem_children_iff h hT n).mp hn
    have e1 : n = a := congrArg Prod.fst e
    have e2 : (readLayerFile c).base = b := congrArg Prod.snd e
    subst e1
    exact ⟨hcn.1.1, hleg, by rw [layerPath_eq h n hcn]; exact hk, c, hc, e2⟩
  · rintro ⟨hne, hleg, hk, c, hc, hb⟩
    have hcn := LayerPaths.legal_clean a hne hleg
    refine List.mem_map.mpr ⟨layerOfFile cfg a (readLayerFile c), ?_, by unfold nb layerOfFile; simp [hb]⟩
    exact (mem_readLayerFiles_iff cfg fs _ _).mpr
      ⟨a, (mem_children_iff h hT a).mpr ⟨hcn, by rw [← layerPath_eq h a hcn]; exact hk⟩, hleg, c, hc, rfl⟩

theorem diskLayers_nodup {cfg : Config} {fs : Tree} (hT : TreeWF fs) :
    ((diskLayers cfg fs).map (·.name)).Nodup :=
  List.Nodup.sublist (readLayerFiles_names cfg fs _) (TreeWF.children_nodup hT _)

/-! ### the cycle check sees only the set of (name, base) pairs -/

theorem find?_of_mem {L : List Layer} (hnd : (L.map (·.name)).Nodup) {p : Layer} (hp : p ∈ L) :
    L.find? (·.name == p.name) = some p := by
  cases hf : L.find? (·.name == p.name) with
  | none =>
    rw [List.find?_eq_none] at hf
    exact absurd (by simp) (hf p hp)
  | some q =>
    have := nodup_name_inj hnd (List.mem_of_find?_eq_some hf) hp (find_name hf)
    rw [this]

theorem chain_same_view {L L' : List Layer} (hnd' : (L'.map (·.name)).Nodup)
    (hsub : ∀ a b, (a, b) ∈ L.map nb → (a, b) ∈ L'.map nb) {x : Bytes} {c : List Bytes}
    (h : Chain L x c) : Chain L' x c := by
  induction h with
  | root => exact Chain.root
  | up b p c hb hf _ ih =>
    have hm : (b, p.base) ∈ L.map nb :=
      List.mem_map.mpr ⟨p, List.mem_of_find?_eq_some hf, by unfold nb; rw [find_name hf]⟩
    obtain ⟨p', hp', e⟩ := List.mem_map.mp (hsub _ _ hm)
    have e1 : p'.name = b := congrArg Prod.fst e
    have e2 : p'.base = p.base := congrArg Prod.snd e
    refine Chain.up b p' c hb ?_ (e2 ▸ ih)
    rw [← e1]; exact find?_of_mem hnd' hp'

/-- **check_of_same_view**: two tables with unique names and the same set of (name, base)
    pairs pass or fail the cycle check together -/
theorem check_of_same_view {L L' : List Layer} (hnd' : (L'.map (·.name)).Nodup)
    (hv : ∀ a b, (a, b) ∈ L.map nb ↔ (a, b) ∈ L'.map nb) (h : checkInheritance L = true) :
    checkInheritance L' = true := by
  rw [checkInheritance_iff] at h ⊢
  intro l' hl'
  have hm : (l'.name, l'.base) ∈ L'.map nb := List.mem_map.mpr ⟨l', hl', rfl⟩
  obtain ⟨l, hl, e⟩ := List.mem_map.mp ((hv _ _).mpr hm)
  have e1 : l.name = l'.name := congrArg Prod.fst e
  have e2 : l.base = l'.base := congrArg Prod.snd e
  obtain ⟨c, hc, hn, hd⟩ := h l hl
  exact ⟨c, e2 ▸ chain_same_view hnd' (fun a b => (hv a b).mp) hc, hn, e1 ▸ hd⟩

end Lc.DiskView
