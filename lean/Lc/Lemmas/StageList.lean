/-
  Helper lemmas about the member-map model (Lc/Model/StageList.lean): the map operations
  on names, and the invariant `MapOK` (names pairwise different, no entry is a hard link
  before `Finalize`, only regular files carry an inode identity) carried through every
  pipeline step.
-/
import Lc.Model.StageList
import Lc.Lemmas.Prefix

namespace Lc.Stage

theorem has_iff (m : EMap) (n : Bytes) : m.has n = true ↔ n ∈ m.names := by
  simp [EMap.has, EMap.names]

theorem has_false_iff (m : EMap) (n : Bytes) : m.has n = false ↔ n ∉ m.names := by
  rw [← has_iff]; cases m.has n <;> simp

theorem has_cons (x : Entry) (xs : EMap) (n : Bytes) :
    EMap.has (x :: xs) n = ((x.name == n) || EMap.has xs n) := rfl

theorem names_cons (x : Entry) (xs : EMap) : EMap.names (x :: xs) = x.name :: EMap.names xs := rfl

theorem insert_cons (x : Entry) (xs : EMap) (e : Entry) :
    EMap.insert (x :: xs) e = if x.name == e.name then e :: xs else x :: EMap.insert xs e := rfl

theorem names_insert_of_has (m : EMap) (e : Entry) (h : m.has e.name = true) :
    (m.insert e).names = m.names := by
  induction m with
  | nil => cases h
  | cons x xs ih =>
    rw [insert_cons]
    by_cases hx : (x.name == e.name) = true
    · rw [if_pos hx, names_cons, names_cons]
      have : x.name = e.name := by simpa using hx
      rw [this]
    · rw [if_neg hx, names_cons, names_cons]
      rw [has_cons] at h
      have hx' : (x.name == e.name) = false := by simpa using hx
      rw [hx', Bool.false_or] at h
      rw [ih h]

theorem names_insert_of_not (m : EMap) (e : Entry) (h : m.has e.name = false) :
    (m.insert e).names = m.names ++ [e.name] := by
  induction m with
  | nil => rfl
  | cons x xs ih =>
    rw [has_cons] at h
    have h1 : (x.name == e.name) = false := by
      cases hb : (x.name == e.name) with
      | false => rfl
      | true => rw [hb] at h; cases h
    rw [h1, Bool.false_or] at h
    rw [insert_cons, h1]
    simp only [Bool.false_eq_true, if_false]
    rw [names_cons, names_cons, ih h]
    rfl

theorem names_insert (m : EMap) (e : Entry) :
    (m.insert e).names = if m.has e.name then m.names else m.names ++ [e.name] := by
  cases h : m.has e.name with
  | true => rw [names_insert_of_has m e h]; rfl
  | false => rw [names_insert_of_not m e h]; rfl

theorem mem_insert {m : EMap} {e x : Entry} (h : x ∈ m.insert e) : x = e ∨ x ∈ m := by
  induction m with
  | nil => simp [EMap.insert] at h; exact Or.inl h
  | cons y ys ih =>
    simp only [EMap.insert] at h
    split at h
    · rcases List.mem_cons.mp h with h | h
      · exact Or.inl h
      · exact Or.inr (List.mem_cons_of_mem _ h)
    · rcases List.mem_cons.mp h with h | h
      · exact Or.inr (by rw [h]; exact List.mem_cons_self)
      · rcases ih h with h | h
        · exact Or.inl h
        · exact Or.inr (List.mem_cons_of_mem _ h)

theorem mem_names_insert (m : EMap) (e : Entry) (n : Bytes) :
    n ∈ (m.insert e).names ↔ n = e.name ∨ n ∈ m.names := by
  rw [names_insert]
  by_cases h : m.has e.name = true
  · rw [if_pos h]
    constructor
    · intro hn; exact Or.inr hn
    · rintro (hn | hn)
      · rw [hn]; exact (has_iff _ _).mp h
      · exact hn
  · rw [if_neg h]
    simp [or_comm]

theorem insert_nodup (m : EMap) (e : Entry) (h : m.names.Nodup) : (m.insert e).names.Nodup := by
  rw [names_insert]
  by_cases hh : m.has e.name = true
  · rw [if_pos hh]; exact h
  · rw [if_neg hh]
    have : e.name ∉ m.names := by
      intro hm; exact hh ((has_iff _ _).mpr hm)
    apply List.nodup_append.mpr
    refine ⟨h, by simp, ?_⟩
    intro a ha b hb
    simp at hb
    rw [hb]
    intro e'; rw [e'] at ha; exact this ha

theorem names_filter_sublist (m : EMap) (p : Entry → Bool) :
    List.Sublist (EMap.names (m.filter p)) m.names := by
  unfold EMap.names
  exact List.Sublist.map _ List.filter_sublist

theorem names_erase (m : EMap) (n : Bytes) : n ∉ (m.erase n).names := by
  unfold EMap.erase EMap.names
  simp

theorem mem_names_erase (m : EMap) (n x : Bytes) :
    x ∈ (m.erase n).names ↔ x ∈ m.names ∧ x ≠ n := by
  unfold EMap.erase EMap.names
  simp only [List.mem_map, List.mem_filter]
  constructor
  · rintro ⟨e, ⟨he, hne⟩, rfl⟩
    exact ⟨⟨e, he, rfl⟩, by simpa using hne⟩
  · rintro ⟨⟨e, he, rfl⟩, hne⟩
    exact ⟨e, ⟨he, by simpa using hne⟩, rfl⟩

/-! ### the invariant -/

def EntryOK (e : Entry) : Prop :=
  e.ltype ≠ ltHardlink ∧ (e.devino.isSome = true → e.ltype = ltFile)

def MapOK (m : EMap) : Prop := m.names.Nodup ∧ ∀ e ∈ m, EntryOK e

theorem MapOK.nil : MapOK [] := ⟨List.nodup_nil, by intro e h; cases h⟩

theorem MapOK.filter {m : EMap} (h : MapOK m) (p : Entry → Bool) : MapOK (m.filter p) :=
  ⟨List.Nodup.sublist (names_filter_sublist m p) h.1,
   fun e he => h.2 e (List.mem_filter.mp he).1⟩

theorem MapOK.insert {m : EMap} (h : MapOK m) {e : Entry} (he : EntryOK e) : MapOK (m.insert e) :=
  ⟨insert_nodup m e h.1, fun x hx => by
    rcases mem_insert hx with hx | hx
    · rw [hx]; exact he
    · exact h.2 x hx⟩

theorem finishKind_ok {st : Option Lstat} {nis : Bool} {info e : Entry}
    (hd : info.devino = none) (h : finishKind st nis info = .ok (some e)) :
    e.name = info.name ∧ EntryOK e := by
  unfold finishKind at h
  split at h
  · rename_i hl
    cases h
    exact ⟨rfl, by rw [hl]; decide, by rw [hd]; simp⟩
  · split at h
    · rename_i hl
      split at h
      · cases h
      · cases h
        exact ⟨rfl, by show info.ltype ≠ _; rw [hl]; decide, fun _ => hl⟩
    · split at h
      · rename_i hl
        split at h
        · split at h
          · cases h
          · split at h
            · cases h
              exact ⟨rfl, by show info.ltype ≠ _; rw [hl]; decide, by show info.devino.isSome = true → _; rw [hd]; simp⟩
            · cases h
        · cases h
          exact ⟨rfl, by rw [hl]; decide, by rw [hd]; simp⟩
      · split at h
        · rename_i hl
          split at h
          · split at h
            · cases h
            · simp only at h
              split at h
              · cases h
                exact ⟨rfl, by show info.ltype ≠ _; rw [hl]; decide, by show info.devino.isSome = true → _; rw [hd]; simp⟩
              · split at h
                · cases h
                  exact ⟨rfl, by show info.ltype ≠ _; rw [hl]; decide, by show info.devino.isSome = true → _; rw [hd]; simp⟩
                · cases h
          · cases h
            exact ⟨rfl, by rw [hl]; decide, by rw [hd]; simp⟩
        · cases h

theorem addSingleFile_ok {fs : Bytes → Option Lstat} {root : Bytes} {e0 e : Entry}
    (h : addSingleFile fs root e0 = .ok (some e)) : e.name = e0.name ∧ EntryOK e := by
  unfold addSingleFile at h
  simp only at h
  split at h
  · cases h
  · cases h
  · have := finishKind_ok rfl h
    exact ⟨this.1, this.2⟩

/-- what `addEntry` does to the set of names -/
theorem addEntry_names {env : Env} {m m' : EMap} {e0 : Entry} (h : addEntry env m e0 = .ok m') :
    (∀ n, n ∈ m.names → n ∈ m'.names) ∧ (∀ n, n ∈ m'.names → n = e0.name ∨ n ∈ m.names) := by
  unfold addEntry at h
  split at h
  · cases h
  · cases h; exact ⟨fun _ h => h, fun _ h => Or.inr h⟩
  · rename_i e' hs
    cases h
    have hn := (addSingleFile_ok hs).1
    constructor
    · intro n hn'; exact (mem_names_insert _ _ _).mpr (Or.inr hn')
    · intro n hn'
      rcases (mem_names_insert _ _ _).mp hn' with h | h
      · left; rw [h, hn]
      · right; exact h

theorem addEntry_ok {env : Env} {m m' : EMap} {e0 : Entry} (h : addEntry env m e0 = .ok m')
    (hm : MapOK m) : MapOK m' := by
  unfold addEntry at h
  split at h
  · cases h
  · cases h; exact hm
  · rename_i e' hs
    cases h
    exact hm.insert (addSingleFile_ok hs).2

/-! ### the invariant through the pipeline steps -/

theorem erase_ok {m : EMap} (h : MapOK m) (n : Bytes) : MapOK (m.erase n) := h.filter _

theorem removeGlob_ok (ns : List Bytes) : ∀ {m : EMap}, MapOK m → MapOK (removeGlob m ns) := by
  unfold removeGlob
  induction ns with
  | nil => intro m h; exact h
  | cons n ns ih =>
    intro m h
    simp only [List.foldl_cons]
    apply ih
    split
    · exact erase_ok h n
    · exact h

theorem recoverAll_ok {env : Env} (cs : List Cand) : ∀ {m m' : EMap},
    recoverAll env m cs = .ok m' → MapOK m → MapOK m' := by
  induction cs with
  | nil => intro m m' h hm; cases h; exact hm
  | cons c cs ih =>
    intro m m' h hm
    simp only [recoverAll] at h
    split at h
    · cases h
    · rename_i m1 h1
      apply ih h
      unfold recoverOne at h1
      split at h1
      · cases h1; exact hm
      · split at h1
        · cases h1
        · split at h1
          · exact addEntry_ok h1 hm
          · cases h1; exact hm

theorem addChain_ok {env : Env} : ∀ (fuel : Nat) {m m' : EMap} {dir : Bytes},
    addChain env fuel m dir = .ok m' → MapOK m → MapOK m' := by
  intro fuel
  induction fuel with
  | zero => intro m m' dir h hm; cases h; exact hm
  | succ f ih =>
    intro m m' dir h hm
    simp only [addChain] at h
    split at h
    · cases h
    · rename_i m1 h1
      have hm1 : MapOK m1 := by
        split at h1
        · cases h1; exact hm
        · exact addEntry_ok h1 hm
      split at h
      · cases h; exact hm1
      · split at h
        · cases h; exact hm1
        · exact ih h hm1

theorem addChains_ok {env : Env} (ds : List Bytes) : ∀ {m m' : EMap},
    addChains env m ds = .ok m' → MapOK m → MapOK m' := by
  induction ds with
  | nil => intro m m' h hm; cases h; exact hm
  | cons d ds ih =>
    intro m m' h hm
    simp only [addChains] at h
    split at h
    · cases h
    · rename_i m1 h1
      exact ih h (addChain_ok _ h1 hm)

theorem except_map_ok {α β : Type} {f : α → β} {r : Res α} {b : β}
    (h : Except.map f r = .ok b) : ∃ a, r = .ok a ∧ f a = b := by
  cases r with
  | error e => cases h
  | ok a => exact ⟨a, rfl, by cases h; rfl⟩

theorem runStep_ok {env : Env} {s s' : St} {x : Step} (h : runStep env s x = .ok s')
    (hm : MapOK s.map) : MapOK s'.map := by
  cases x with
  | add e =>
    obtain ⟨m, h1, h2⟩ := except_map_ok h
    rw [← h2]; exact addEntry_ok h1 hm
  | del n =>
    obtain ⟨m, h1, h2⟩ := except_map_ok h
    rw [← h2]
    unfold removeFile at h1
    split at h1
    · cases h1; exact erase_ok hm n
    · cases h1
  | delGlob ns => cases h; exact removeGlob_ok ns hm
  | unstaged ns => cases h; exact hm
  | recover cs =>
    obtain ⟨m, h1, h2⟩ := except_map_ok h
    rw [← h2]; exact recoverAll_ok cs h1 hm
  | clone src name dminor =>
    simp only [runStep] at h
    split at h
    · cases h
    · obtain ⟨m, h1, h2⟩ := except_map_ok h
      rw [← h2]; exact addEntry_ok h1 hm
  | exclude => cases h; exact hm.filter _
  | closure =>
    obtain ⟨m, h1, h2⟩ := except_map_ok h
    rw [← h2]; exact addChains_ok _ h1 hm
  | fail => cases h

theorem runSteps_ok {env : Env} (xs : List Step) : ∀ {s s' : St},
    runSteps env s xs = .ok s' → MapOK s.map → MapOK s'.map := by
  induction xs with
  | nil => intro s s' h hm; cases h; exact hm
  | cons x xs ih =>
    intro s s' h hm
    simp only [runSteps] at h
    split at h
    · cases h
    · rename_i s1 h1
      exact ih h (runStep_ok h1 hm)

/-! ### Finalize: sorting -/

theorem names_insertSorted_mem (e : Entry) (l : List Entry) (n : Bytes) :
    n ∈ EMap.names (insertSorted e l) ↔ n = e.name ∨ n ∈ EMap.names l := by
  induction l with
  | nil => simp [insertSorted, EMap.names]
  | cons x xs ih =>
    unfold insertSorted
    split
    · simp [EMap.names]
    · rw [names_cons, names_cons, List.mem_cons, List.mem_cons, ih]
      constructor
      · rintro (h | h | h)
        · exact Or.inr (Or.inl h)
        · exact Or.inl h
        · exact Or.inr (Or.inr h)
      · rintro (h | h | h)
        · exact Or.inr (Or.inl h)
        · exact Or.inl h
        · exact Or.inr (Or.inr h)

theorem mem_insertSorted (e : Entry) (l : List Entry) (x : Entry) :
    x ∈ insertSorted e l ↔ x = e ∨ x ∈ l := by
  induction l with
  | nil => simp [insertSorted]
  | cons y ys ih =>
    unfold insertSorted
    split
    · simp
    · rw [List.mem_cons, List.mem_cons, ih]
      constructor
      · rintro (h | h | h)
        · exact Or.inr (Or.inl h)
        · exact Or.inl h
        · exact Or.inr (Or.inr h)
      · rintro (h | h | h)
        · exact Or.inr (Or.inl h)
        · exact Or.inl h
        · exact Or.inr (Or.inr h)

theorem insertSorted_sorted (e : Entry) (l : List Entry)
    (hs : StrictSorted (EMap.names l)) (hn : e.name ∉ EMap.names l) :
    StrictSorted (EMap.names (insertSorted e l)) := by
  induction l with
  | nil => simp [insertSorted, EMap.names, StrictSorted]
  | cons x xs ih =>
    unfold StrictSorted at hs ih ⊢
    rw [names_cons] at hs hn
    have hp := List.pairwise_cons.mp hs
    unfold insertSorted
    split
    · rename_i hlt
      rw [names_cons, names_cons]
      refine List.pairwise_cons.mpr ⟨?_, hs⟩
      intro y hy
      rcases List.mem_cons.mp hy with hy | hy
      · rw [hy]; exact hlt
      · exact bytesLt_trans hlt (hp.1 y hy)
    · rename_i hlt
      rw [names_cons]
      refine List.pairwise_cons.mpr ⟨?_, ih hp.2 (fun h => hn (List.mem_cons_of_mem _ h))⟩
      intro y hy
      rcases (names_insertSorted_mem e xs y).mp hy with hy | hy
      · rw [hy]
        rcases bytesLt_total e.name x.name with h | h | h
        · exact absurd h hlt
        · exact absurd (by rw [h]; exact List.mem_cons_self) hn
        · exact h
      · exact hp.1 y hy

theorem sortByName_cons (x : Entry) (xs : List Entry) :
    sortByName (x :: xs) = insertSorted x (sortByName xs) := rfl

theorem names_sortByName_mem (m : List Entry) (n : Bytes) :
    n ∈ EMap.names (sortByName m) ↔ n ∈ EMap.names m := by
  induction m with
  | nil => simp [sortByName]
  | cons x xs ih =>
    rw [sortByName_cons, names_insertSorted_mem, ih, names_cons, List.mem_cons]

theorem mem_sortByName (m : List Entry) (x : Entry) : x ∈ sortByName m ↔ x ∈ m := by
  induction m with
  | nil => simp [sortByName]
  | cons y ys ih => rw [sortByName_cons, mem_insertSorted, ih, List.mem_cons]

theorem sortByName_sorted (m : List Entry) (h : (EMap.names m).Nodup) :
    StrictSorted (EMap.names (sortByName m)) := by
  induction m with
  | nil => simp [sortByName, EMap.names, StrictSorted]
  | cons x xs ih =>
    rw [names_cons] at h
    have hc := List.nodup_cons.mp h
    rw [sortByName_cons]
    apply insertSorted_sorted _ _ (ih hc.2)
    intro hm
    exact hc.1 ((names_sortByName_mem xs x.name).mp hm)

/-! ### Finalize: fixHardlinks -/

theorem names_fixHardlinks (l : List Entry) : ∀ seen, EMap.names (fixHardlinks seen l) = EMap.names l := by
  induction l with
  | nil => intro seen; rfl
  | cons e es ih =>
    intro seen
    unfold fixHardlinks
    split
    · rw [names_cons, names_cons, ih]
    · split
      · rw [names_cons, names_cons, ih]
      · rw [names_cons, names_cons, ih]

/-- every hard link in `out` names an entry that precedes it (in `earlier` or in `out`), of the
    same inode, that is a regular file -/
def LinksOK : List Entry → List Entry → Prop
  | _, [] => True
  | earlier, x :: rest =>
    (x.ltype = ltHardlink →
      ∃ y ∈ earlier, y.name = x.target ∧ y.devino = x.devino ∧ y.ltype = ltFile) ∧
    LinksOK (earlier ++ [x]) rest

def SeenOK (seen : List ((Nat × Nat) × Bytes)) (earlier : List Entry) : Prop :=
  ∀ id nm, lookupIno id seen = some nm →
    ∃ y ∈ earlier, y.name = nm ∧ y.devino = some id ∧ y.ltype = ltFile

theorem SeenOK.mono {seen earlier} (h : SeenOK seen earlier) (x : Entry) :
    SeenOK seen (earlier ++ [x]) := by
  intro id nm hl
  obtain ⟨y, hy, h1⟩ := h id nm hl
  exact ⟨y, List.mem_append_left _ hy, h1⟩

theorem fixHardlinks_links (l : List Entry) : ∀ (seen : List ((Nat × Nat) × Bytes)) (earlier : List Entry),
    (∀ e ∈ l, EntryOK e) → SeenOK seen earlier → LinksOK earlier (fixHardlinks seen l) := by
  induction l with
  | nil => intro seen earlier _ _; trivial
  | cons e es ih =>
    intro seen earlier hin hseen
    have he : EntryOK e := hin e List.mem_cons_self
    have hes : ∀ x ∈ es, EntryOK x := fun x hx => hin x (List.mem_cons_of_mem _ hx)
    unfold fixHardlinks
    split
    · -- no inode identity: unchanged
      exact ⟨fun hl => absurd hl he.1, ih seen _ hes (hseen.mono e)⟩
    · rename_i id hid
      split
      · rename_i targ hlk
        refine ⟨fun _ => ?_, ih seen _ hes (hseen.mono _)⟩
        obtain ⟨y, hy, h1, h2, h3⟩ := hseen id targ hlk
        exact ⟨y, hy, h1, by rw [h2]; exact hid.symm, h3⟩
      · rename_i hlk
        refine ⟨fun hl => absurd hl he.1, ih _ _ hes ?_⟩
        intro id' nm hl
        unfold lookupIno at hl
        split at hl
        · rename_i heq
          cases hl
          refine ⟨e, by simp, rfl, by rw [hid, heq], he.2 (by rw [hid]; rfl)⟩
        · obtain ⟨y, hy, h1⟩ := hseen id' nm hl
          exact ⟨y, List.mem_append_left _ hy, h1⟩

end Lc.Stage
