/-
  Rune-level facts about Go's UTF-8 decoding as modelled in Lc/Base/Utf8.lean:
  decoding is local (an ASCII byte, or any byte that is not a continuation byte, starts a
  new rune whatever precedes it), `strings.Fields` yields space-free non-empty tokens
  that stay single tokens when re-joined with blanks, `strings.TrimSpace` leaves such a
  join alone.  Helper lemmas for Props/C11 (read_write_read).
-/
import Lc.Base.Utf8

namespace Lc.Lemmas.Runes
open Lc

abbrev Rune := Nat × Bytes

/-- runes without their byte offsets -/
def rs (s : Bytes) : List Rune := (runes s).map (·.2)

/-- effective width of the first rune (Go never advances by 0) -/
def width (s : Bytes) : Nat := if (decodeRune s).2 = 0 then 1 else (decodeRune s).2

/-! ### decodeRune: case analysis -/

/-- the first byte (if any) is not a UTF-8 continuation byte -/
def NCH (t : Bytes) : Prop := ∀ c, t.head? = some c → isCont c = false

theorem ncont (c : Nat) (h : isCont c = false) : ¬ (128 ≤ c ∧ c ≤ 191) := by
  simp [isCont] at h; omega

macro "dr_fin" : tactic => `(tactic|
  all_goals first
    | (with_reducible rfl)
    | (simp only [Bool.and_eq_true, decide_eq_true_eq, Bool.false_eq_true, and_false, false_and, Bool.and_false, Bool.false_and] at * <;> omega))

theorem decodeRune_append (b0 : Nat) (a t : Bytes) (h : NCH t) :
    decodeRune (b0 :: a ++ t) = decodeRune (b0 :: a) := by
  rcases a with _ | ⟨b1, _ | ⟨b2, _ | ⟨b3, tl⟩⟩⟩
  · rcases t with _ | ⟨c1, _ | ⟨c2, _ | ⟨c3, tl⟩⟩⟩
    · rfl
    all_goals
      have hc : isCont c1 = false := h c1 rfl
      have hc' := ncont c1 hc
      simp only [decodeRune, List.cons_append, List.nil_append, hc]
      repeat' split
      dr_fin
  · rcases t with _ | ⟨c1, _ | ⟨c2, tl⟩⟩
    · rfl
    all_goals
      have hc : isCont c1 = false := h c1 rfl
      have hc' := ncont c1 hc
      simp only [decodeRune, List.cons_append, List.nil_append, hc]
      repeat' split
      dr_fin
  · rcases t with _ | ⟨c1, tl⟩
    · rfl
    all_goals
      have hc : isCont c1 = false := h c1 rfl
      have hc' := ncont c1 hc
      simp only [decodeRune, List.cons_append, List.nil_append, hc]
      repeat' split
      dr_fin
  · simp only [decodeRune, List.cons_append]

theorem decodeRune_width (b0 : Nat) (rest : Bytes) :
    1 ≤ (decodeRune (b0 :: rest)).2 ∧ (decodeRune (b0 :: rest)).2 ≤ (b0 :: rest).length := by
  rcases rest with _ | ⟨b1, _ | ⟨b2, _ | ⟨b3, tl⟩⟩⟩ <;>
  · simp only [decodeRune]
    repeat' split
    all_goals simp

theorem width_cons (b0 : Nat) (rest : Bytes) :
    width (b0 :: rest) = (decodeRune (b0 :: rest)).2 ∧ 1 ≤ width (b0 :: rest) ∧
      width (b0 :: rest) ≤ (b0 :: rest).length := by
  have h := decodeRune_width b0 rest
  unfold width
  have : (decodeRune (b0 :: rest)).2 ≠ 0 := by omega
  rw [if_neg this]
  exact ⟨rfl, h⟩

theorem runesAux_nil (fuel off : Nat) : runesAux fuel off [] = [] := by
  cases fuel <;> rfl

theorem runesAux_cons (fuel off b0 : Nat) (rest : Bytes) :
    runesAux (fuel + 1) off (b0 :: rest) =
      (off, (decodeRune (b0 :: rest)).1, (b0 :: rest).take (width (b0 :: rest))) ::
        runesAux fuel (off + width (b0 :: rest)) ((b0 :: rest).drop (width (b0 :: rest))) := by
  rfl

theorem runesAux_indep (fuel : Nat) : ∀ (fuel' off off' : Nat) (s : Bytes), s.length ≤ fuel → s.length ≤ fuel' →
    (runesAux fuel off s).map (·.2) = (runesAux fuel' off' s).map (·.2) := by
  induction fuel with
  | zero =>
    intro fuel' off off' s h _
    have : s = [] := by cases s <;> simp_all
    subst this; simp [runesAux_nil]
  | succ k ih =>
    intro fuel' off off' s h h'
    cases s with
    | nil => simp [runesAux_nil]
    | cons b0 rest =>
      cases fuel' with
      | zero => simp at h'
      | succ k' =>
        obtain ⟨_, hw1, hw2⟩ := width_cons b0 rest
        rw [runesAux_cons, runesAux_cons]
        simp only [List.map_cons]
        congr 1
        apply ih
        · simp only [List.length_drop, List.length_cons] at *; omega
        · simp only [List.length_drop, List.length_cons] at *; omega

theorem rs_nil : rs [] = [] := rfl

theorem rs_cons (b0 : Nat) (rest : Bytes) :
    rs (b0 :: rest) = ((decodeRune (b0 :: rest)).1, (b0 :: rest).take (width (b0 :: rest))) ::
      rs ((b0 :: rest).drop (width (b0 :: rest))) := by
  obtain ⟨_, hw1, hw2⟩ := width_cons b0 rest
  unfold rs runes
  simp only [List.length_cons]
  rw [runesAux_cons]
  simp only [List.map_cons]
  congr 1
  apply runesAux_indep
  · simp only [List.length_drop, List.length_cons] at *; omega
  · simp

/-! ### the rune list: concatenation, suffixes -/

def flat (l : List Rune) : Bytes := l.flatMap (·.2)

theorem flat_nil : flat [] = [] := rfl
theorem flat_cons (x : Rune) (l : List Rune) : flat (x :: l) = x.2 ++ flat l := by
  simp [flat]
theorem flat_append (a b : List Rune) : flat (a ++ b) = flat a ++ flat b := by
  simp [flat]

theorem flat_rs_aux (n : Nat) : ∀ s : Bytes, s.length ≤ n → flat (rs s) = s := by
  induction n with
  | zero => intro s h; have : s = [] := by cases s <;> simp_all
            subst this; rfl
  | succ k ih =>
    intro s h
    cases s with
    | nil => rfl
    | cons b0 rest =>
      obtain ⟨_, hw1, hw2⟩ := width_cons b0 rest
      rw [rs_cons, flat_cons, ih]
      · exact List.take_append_drop _ _
      · simp only [List.length_drop, List.length_cons] at *; omega

/-- the raw bytes of the runes concatenate to the string -/
theorem flat_rs (s : Bytes) : flat (rs s) = s := flat_rs_aux s.length s (Nat.le_refl _)

theorem rs_ne_nil (s : Bytes) (h : s ≠ []) : rs s ≠ [] := by
  cases s with
  | nil => exact absurd rfl h
  | cons b0 rest => rw [rs_cons]; simp

theorem width_append (b0 : Nat) (a t : Bytes) (h : NCH t) :
    width (b0 :: a ++ t) = width (b0 :: a) := by
  unfold width; rw [decodeRune_append b0 a t h]

theorem rs_append_aux (n : Nat) : ∀ (a t : Bytes), a.length ≤ n → NCH t → rs (a ++ t) = rs a ++ rs t := by
  induction n with
  | zero => intro a t h _; have : a = [] := by cases a <;> simp_all
            subst this; simp [rs_nil]
  | succ k ih =>
    intro a t h ht
    cases a with
    | nil => simp [rs_nil]
    | cons b0 rest =>
      obtain ⟨_, hw1, hw2⟩ := width_cons b0 rest
      have e : (b0 :: rest) ++ t = b0 :: rest ++ t := rfl
      rw [rs_cons b0 rest]
      show rs (b0 :: (rest ++ t)) = _
      rw [rs_cons b0 (rest ++ t)]
      have hw : width (b0 :: (rest ++ t)) = width (b0 :: rest) := width_append b0 rest t ht
      have hd : decodeRune (b0 :: (rest ++ t)) = decodeRune (b0 :: rest) := decodeRune_append b0 rest t ht
      rw [hw, hd]
      have e1 : (b0 :: (rest ++ t)).take (width (b0 :: rest)) = (b0 :: rest).take (width (b0 :: rest)) := by
        show ((b0 :: rest) ++ t).take _ = _
        exact List.take_append_of_le_length hw2
      have e2 : (b0 :: (rest ++ t)).drop (width (b0 :: rest)) = (b0 :: rest).drop (width (b0 :: rest)) ++ t := by
        show ((b0 :: rest) ++ t).drop _ = _
        exact List.drop_append_of_le_length hw2
      rw [e1, e2, ih _ t (by simp only [List.length_drop, List.length_cons] at *; omega) ht]
      rfl

/-- decoding is local: a string whose first byte is not a continuation byte is decoded
    the same way whatever precedes it -/
theorem rs_append (a t : Bytes) (ht : NCH t) : rs (a ++ t) = rs a ++ rs t :=
  rs_append_aux a.length a t (Nat.le_refl _) ht

theorem decodeRune_ascii (c : Nat) (rest : Bytes) (h : c < 128) : decodeRune (c :: rest) = (c, 1) := by
  simp [decodeRune, h]

theorem rs_ascii_cons (c : Nat) (rest : Bytes) (h : c < 128) : rs (c :: rest) = (c, [c]) :: rs rest := by
  rw [rs_cons]
  have : width (c :: rest) = 1 := by unfold width; rw [decodeRune_ascii c rest h]; rfl
  rw [this, decodeRune_ascii c rest h]
  rfl

theorem nch_ascii (c : Nat) (rest : Bytes) (h : c < 128) : NCH (c :: rest) := by
  intro d hd
  simp at hd
  subst hd
  simp [isCont]; omega

/-- an ASCII byte is always a rune of its own -/
theorem rs_split_ascii (a : Bytes) (c : Nat) (b : Bytes) (h : c < 128) :
    rs (a ++ c :: b) = rs a ++ (c, [c]) :: rs b := by
  rw [rs_append a _ (nch_ascii c b h), rs_ascii_cons c b h]

theorem rs_suffix (l1 : List Rune) : ∀ (l2 : List Rune) (s : Bytes), rs s = l1 ++ l2 → rs (flat l2) = l2 := by
  induction l1 with
  | nil =>
    intro l2 s h
    simp only [List.nil_append] at h
    rw [← h, flat_rs]
  | cons x l1 ih =>
    intro l2 s h
    cases s with
    | nil => simp [rs_nil] at h
    | cons b0 rest =>
      rw [rs_cons] at h
      simp only [List.cons_append, List.cons.injEq] at h
      exact ih l2 _ h.2

theorem decodeRune_cont (b0 : Nat) (rest : Bytes) (h : isCont b0 = true) :
    (decodeRune (b0 :: rest)).1 = runeError := by
  simp only [isCont, Bool.and_eq_true, decide_eq_true_eq] at h
  have h1 : ¬ b0 < 128 := by omega
  have h2 : ¬ (194 ≤ b0 ∧ b0 ≤ 223) := by omega
  have h3 : ¬ (224 ≤ b0 ∧ b0 ≤ 239) := by omega
  have h4 : ¬ (240 ≤ b0 ∧ b0 ≤ 244) := by omega
  simp [decodeRune, h1, h2, h3, h4]

/-- the bytes of a rune list that starts with a white-space rune do not start with a
    continuation byte -/
theorem nch_of_space (x : Rune) (l : List Rune) (s : Bytes) (h : rs s = x :: l)
    (hx : isSpaceRune x.1 = true) : NCH s := by
  cases s with
  | nil => simp [rs_nil] at h
  | cons b0 rest =>
    intro c hc
    simp at hc
    subst hc
    rw [rs_cons] at h
    simp only [List.cons.injEq] at h
    cases hcont : isCont b0 with
    | false => rfl
    | true =>
      have := decodeRune_cont b0 rest hcont
      rw [← h.1] at hx
      simp only [this] at hx
      exact absurd hx (by decide)

/-- a run of runes that is followed by a white-space rune or by the end of the string
    decodes to itself when taken out of its context -/
theorem rs_mid (s : Bytes) (pre mid post : List Rune) (h : rs s = pre ++ mid ++ post)
    (hp : post = [] ∨ ∃ x post', post = x :: post' ∧ isSpaceRune x.1 = true) :
    rs (flat mid) = mid := by
  have hpm : rs (flat pre ++ flat mid) = pre ++ mid := by
    rcases hp with hp | ⟨x, post', hp, hx⟩
    · subst hp
      simp only [List.append_nil] at h
      rw [← flat_append, ← h, flat_rs, h]
    · have hpost : rs (flat post) = post := rs_suffix (pre ++ mid) post s h
      have hn : NCH (flat post) := nch_of_space x post' (flat post) (by rw [hpost, hp]) hx
      have hs : s = (flat pre ++ flat mid) ++ flat post := by
        rw [← flat_append, ← flat_append, ← h, flat_rs]
      have h2 := rs_append (flat pre ++ flat mid) (flat post) hn
      rw [← hs, h, hpost] at h2
      exact (List.append_cancel_right h2).symm
  exact rs_suffix pre mid _ hpm

/-! ### strings.Fields -/

/-- a non-empty string none of whose runes is white space -/
def Tok (f : Bytes) : Prop := f ≠ [] ∧ ∀ x ∈ rs f, isSpaceRune x.1 = false

def fieldsAux : Bytes → List Rune → List Bytes
  | cur, [] => if cur.isEmpty then [] else [cur]
  | cur, x :: xs =>
    if isSpaceRune x.1 then (if cur.isEmpty then fieldsAux [] xs else cur :: fieldsAux [] xs)
    else fieldsAux (cur ++ x.2) xs

def fstep (acc : List Bytes × Bytes) (x : Nat × Nat × Bytes) : List Bytes × Bytes :=
  if isSpaceRune x.2.1 then
    (if acc.2.isEmpty then acc.1 else acc.1 ++ [acc.2], [])
  else (acc.1, acc.2 ++ x.2.2)

def ffinish (r : List Bytes × Bytes) : List Bytes := if r.2.isEmpty then r.1 else r.1 ++ [r.2]

theorem fields_def (s : Bytes) : fields s = ffinish ((runes s).foldl fstep ([], [])) := rfl

theorem fold_fieldsAux (l : List (Nat × Nat × Bytes)) : ∀ (acc : List Bytes) (cur : Bytes),
    ffinish (l.foldl fstep (acc, cur)) = acc ++ fieldsAux cur (l.map (·.2)) := by
  induction l with
  | nil => intro acc cur; simp only [List.foldl_nil, ffinish, List.map_nil, fieldsAux]; split <;> simp_all
  | cons x xs ih =>
    intro acc cur
    simp only [List.foldl_cons, List.map_cons, fieldsAux, fstep]
    by_cases hs : isSpaceRune x.2.1 = true
    · simp only [hs, if_true]
      by_cases hc : cur.isEmpty = true
      · simp only [hc, if_true]; exact ih acc []
      · simp only [hc]
        rw [ih]; simp
    · simp only [hs]
      exact ih acc _

theorem fields_eq (s : Bytes) : fields s = fieldsAux [] (rs s) := by
  rw [fields_def, fold_fieldsAux]; rfl

theorem fieldsAux_tok (s : Bytes) (l : List Rune) : ∀ (cur : Bytes) (pre curR : List Rune),
    rs s = pre ++ curR ++ l → cur = flat curR → (∀ x ∈ curR, isSpaceRune x.1 = false) →
    ∀ f ∈ fieldsAux cur l, Tok f := by
  induction l with
  | nil =>
    intro cur pre curR h hc hns f hf
    simp only [fieldsAux] at hf
    split at hf
    · simp at hf
    · rename_i hne
      simp only [List.mem_singleton] at hf
      subst hf
      refine ⟨by intro e; simp [e] at hne, ?_⟩
      rw [hc, rs_mid s pre curR [] h (Or.inl rfl)]
      exact hns
  | cons x xs ih =>
    intro cur pre curR h hc hns f hf
    simp only [fieldsAux] at hf
    by_cases hs : isSpaceRune x.1 = true
    · simp only [hs, if_true] at hf
      have hrest : ∀ f ∈ fieldsAux [] xs, Tok f :=
        ih [] (pre ++ curR ++ [x]) [] (by simp [h]) rfl (by simp)
      split at hf
      · exact hrest f hf
      · rename_i hne
        rcases List.mem_cons.mp hf with e | e
        · subst e
          refine ⟨by intro e; simp [e] at hne, ?_⟩
          rw [hc, rs_mid s pre curR (x :: xs) h (Or.inr ⟨x, xs, rfl, hs⟩)]
          exact hns
        · exact hrest f e
    · simp only [hs] at hf
      have hs' : isSpaceRune x.1 = false := by simpa using hs
      exact ih (cur ++ x.2) pre (curR ++ [x]) (by simp [h]) (by simp [hc, flat_append, flat_cons, flat_nil])
        (by intro y hy; rcases List.mem_append.mp hy with e | e
            · exact hns y e
            · simp at e; subst e; exact hs') f hf

/-- every field of `strings.Fields` is a non-empty white-space-free token -/
theorem fields_tok (s : Bytes) : ∀ f ∈ fields s, Tok f := by
  rw [fields_eq]
  exact fieldsAux_tok s (rs s) [] [] [] (by simp) rfl (by simp)

theorem fieldsAux_nonspace (R : List Rune) (hR : ∀ x ∈ R, isSpaceRune x.1 = false) :
    ∀ (cur : Bytes) (l : List Rune), fieldsAux cur (R ++ l) = fieldsAux (cur ++ flat R) l := by
  induction R with
  | nil => intro cur l; simp [flat_nil]
  | cons x xs ih =>
    intro cur l
    have hx : isSpaceRune x.1 = false := hR x (by simp)
    simp only [List.cons_append, fieldsAux, hx, Bool.false_eq_true, if_false]
    rw [ih (fun y hy => hR y (by simp [hy])), flat_cons, List.append_assoc]

theorem space32 : isSpaceRune 32 = true := by decide

/-- tokens re-joined with single blanks split into the same tokens -/
theorem fields_join (fs : List Bytes) (h : ∀ f ∈ fs, Tok f) : fields (joinWith 32 fs) = fs := by
  rw [fields_eq]
  induction fs with
  | nil => rfl
  | cons f rest ih =>
    obtain ⟨hne, hns⟩ := h f (by simp)
    cases rest with
    | nil =>
      simp only [joinWith]
      have := fieldsAux_nonspace (rs f) hns [] []
      simp only [List.append_nil, List.nil_append, flat_rs] at this
      rw [this]
      simp only [fieldsAux]
      cases f with
      | nil => exact absurd rfl hne
      | cons a b => simp
    | cons g rest' =>
      simp only [joinWith]
      rw [rs_split_ascii f 32 _ (by omega), fieldsAux_nonspace (rs f) hns]
      simp only [List.nil_append, flat_rs, fieldsAux, space32, if_true]
      cases f with
      | nil => exact absurd rfl hne
      | cons a b =>
        simp only [List.isEmpty_cons]
        rw [ih (fun x hx => h x (by simp [hx]))]
        simp

/-! ### strings.TrimSpace -/

/-- first and last rune are not white space -/
def Ends (R : List Rune) : Prop :=
  (∃ x R', R = x :: R' ∧ isSpaceRune x.1 = false) ∧ (∃ R' y, R = R' ++ [y] ∧ isSpaceRune y.1 = false)

theorem trim_id (l : List (Nat × Nat × Bytes)) (h : Ends (l.map (·.2))) :
    ((l.dropWhile (fun x => isSpaceRune x.2.1)).reverse.dropWhile (fun x => isSpaceRune x.2.1)).reverse = l := by
  obtain ⟨⟨x, R', h1, hx⟩, ⟨R'', y, h2, hy⟩⟩ := h
  obtain ⟨x0, l', rfl, hx0, _⟩ := List.map_eq_cons_iff.mp h1
  have hd : (x0 :: l').dropWhile (fun x => isSpaceRune x.2.1) = x0 :: l' := by
    rw [List.dropWhile_cons_of_neg]; simp [hx0, hx]
  rw [hd]
  obtain ⟨l1, l2, hl, h3, h4⟩ := List.map_eq_append_iff.mp h2
  obtain ⟨y0, l3, rfl, hy0, hl3⟩ := List.map_eq_cons_iff.mp h4
  have : l3 = [] := by simpa using hl3
  subst this
  rw [hl]
  simp only [List.reverse_append, List.reverse_cons, List.reverse_nil, List.nil_append, List.singleton_append]
  rw [List.dropWhile_cons_of_neg (by simp [hy0, hy])]
  simp

theorem trimSpace_ends (s : Bytes) (h : Ends (rs s)) : trimSpace s = s := by
  unfold trimSpace
  simp only
  rw [trim_id (runes s) h]
  have : (runes s).flatMap (·.2.2) = flat (rs s) := by
    unfold flat rs; rw [List.flatMap_map]
  rw [this, flat_rs]

theorem ends_tok (f : Bytes) (h : Tok f) : Ends (rs f) := by
  obtain ⟨hne, hns⟩ := h
  have hr := rs_ne_nil f hne
  constructor
  · cases hrs : rs f with
    | nil => exact absurd hrs hr
    | cons x R' => exact ⟨x, R', rfl, hns x (by simp [hrs])⟩
  · refine ⟨(rs f).dropLast, (rs f).getLast hr, (List.dropLast_concat_getLast hr).symm, ?_⟩
    exact hns _ (List.getLast_mem hr)

theorem ends_join (fs : List Bytes) (hne : fs ≠ []) (h : ∀ f ∈ fs, Tok f) : Ends (rs (joinWith 32 fs)) := by
  induction fs with
  | nil => exact absurd rfl hne
  | cons f rest ih =>
    cases rest with
    | nil => simp only [joinWith]; exact ends_tok f (h f (by simp))
    | cons g rest' =>
      simp only [joinWith]
      rw [rs_split_ascii f 32 _ (by omega)]
      obtain ⟨⟨x, R', h1, hx⟩, _⟩ := ends_tok f (h f (by simp))
      obtain ⟨_, ⟨R'', y, h2, hy⟩⟩ := ih (by simp) (fun x hx => h x (by simp [hx]))
      constructor
      · exact ⟨x, R' ++ (32, [32]) :: rs (joinWith 32 (g :: rest')), by rw [h1]; rfl, hx⟩
      · exact ⟨rs f ++ (32, [32]) :: R'', y, by rw [h2]; simp, hy⟩

/-- tokens joined with single blanks have nothing to trim -/
theorem trimSpace_join (fs : List Bytes) (hne : fs ≠ []) (h : ∀ f ∈ fs, Tok f) :
    trimSpace (joinWith 32 fs) = joinWith 32 fs := trimSpace_ends _ (ends_join fs hne h)

theorem trimSpace_nil : trimSpace [] = [] := rfl

/-! ### tokens: ASCII white space, splitting and joining at an ASCII byte -/

theorem tok_no_ascii_space (f : Bytes) (h : Tok f) (c : Nat) (hc : c ∈ f) (h128 : c < 128) :
    isSpaceRune c = false := by
  obtain ⟨a, b, rfl⟩ := List.append_of_mem hc
  exact h.2 (c, [c]) (by rw [rs_split_ascii a c b h128]; simp)

theorem tok_no_lf (f : Bytes) (h : Tok f) : 10 ∉ f := by
  intro hc
  have := tok_no_ascii_space f h 10 hc (by omega)
  exact absurd this (by decide)

theorem tok_no_cr (f : Bytes) (h : Tok f) : 13 ∉ f := by
  intro hc
  have := tok_no_ascii_space f h 13 hc (by omega)
  exact absurd this (by decide)

/-- no rune is white space -/
def NS (s : Bytes) : Prop := ∀ x ∈ rs s, isSpaceRune x.1 = false

theorem ns_split (a : Bytes) (c : Nat) (b : Bytes) (h : c < 128) :
    NS (a ++ c :: b) ↔ NS a ∧ isSpaceRune c = false ∧ NS b := by
  unfold NS
  rw [rs_split_ascii a c b h]
  constructor
  · intro hh
    exact ⟨fun x hx => hh x (by simp [hx]), hh (c, [c]) (by simp), fun x hx => hh x (by simp [hx])⟩
  · intro ⟨h1, h2, h3⟩ x hx
    rcases List.mem_append.mp hx with e | e
    · exact h1 x e
    · rcases List.mem_cons.mp e with e | e
      · subst e; exact h2
      · exact h3 x e

theorem ns_nil : NS [] := by intro x hx; simp [rs_nil] at hx

theorem ns_joinWith (c : Nat) (h : c < 128) (hc : isSpaceRune c = false) (cs : List Bytes) :
    NS (joinWith c cs) ↔ ∀ p ∈ cs, NS p := by
  induction cs with
  | nil => simp [joinWith, ns_nil]
  | cons x rest ih =>
    cases rest with
    | nil => simp [joinWith]
    | cons y rest' =>
      simp only [joinWith]
      rw [ns_split x c _ h, ih]
      simp [hc]

end Lc.Lemmas.Runes
