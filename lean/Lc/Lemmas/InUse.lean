/- Helper facts about byte lists for Props/C19. -/
import Lc.Model.InUse

namespace Lc.InUseLemmas
open Lc Lc.InUse


theorem hasPrefix_append (p x : Bytes) : hasPrefix (p ++ x) p = true := by
  induction p with
  | nil => cases x <;> simp [hasPrefix]
  | cons a p ih => simp [hasPrefix, ih]

theorem hasPrefix_elim : ∀ (s p : Bytes), hasPrefix s p = true → ∃ x, s = p ++ x := by
  intro s p
  induction p generalizing s with
  | nil => intro _; exact ⟨s, by simp⟩
  | cons a p ih =>
    intro h
    cases s with
    | nil => simp [hasPrefix] at h
    | cons b s =>
      simp [hasPrefix] at h
      obtain ⟨x, hx⟩ := ih s h.2
      exact ⟨x, by simp [h.1, hx]⟩

theorem indexByte_append (c : Nat) (n t : Bytes) (h : c ∉ n) :
    indexByte c (n ++ c :: t) = some n.length := by
  induction n with
  | nil => simp [indexByte]
  | cons a n ih =>
    have ha : a ≠ c := by intro e; apply h; simp [e]
    have hn : c ∉ n := by intro e; apply h; simp [e]
    simp [indexByte, ha, ih hn]

theorem indexByte_none (c : Nat) (n : Bytes) (h : c ∉ n) : indexByte c n = none := by
  induction n with
  | nil => simp [indexByte]
  | cons a n ih =>
    have ha : a ≠ c := by intro e; apply h; simp [e]
    have hn : c ∉ n := by intro e; apply h; simp [e]
    simp [indexByte, ha, ih hn]

theorem indexByte_some (c : Nat) : ∀ (s : Bytes) (k : Nat), indexByte c s = some k →
    c ∉ s.take k ∧ s = s.take k ++ c :: s.drop (k + 1) := by
  intro s
  induction s with
  | nil => intro k h; simp [indexByte] at h
  | cons a s ih =>
    intro k h
    by_cases ha : a = c
    · simp [indexByte, ha] at h
      subst h
      simp [ha]
    · simp only [indexByte, ha, if_false] at h
      cases hk : indexByte c s with
      | none => simp [hk] at h
      | some j =>
        simp [hk] at h
        subst h
        obtain ⟨h1, h2⟩ := ih j hk
        refine ⟨?_, ?_⟩
        · simp only [List.take_succ_cons, List.mem_cons, not_or]
          exact ⟨fun e => ha e.symm, h1⟩
        · simp only [List.take_succ_cons, List.drop_succ_cons, List.cons_append]
          rw [← h2]


end Lc.InUseLemmas
