/-
  Insertion sort (`sortBy`, Lc/Base/Sort.lean) returns a permutation of its input in
  which no later element is smaller than an earlier one, for any asymmetric transitive
  `lt`.  Helper lemmas for Props/C02 (normalizeOrder) and C04 (getMountAndSubmounts).
-/
import Lc.Base.Sort

namespace Lc
theorem insertBy_perm {α} (lt : α → α → Bool) (x : α) (l : List α) : (insertBy lt x l).Perm (x :: l) := by
  induction l with
  | nil => exact List.Perm.refl _
  | cons y ys ih =>
    unfold insertBy
    split
    · exact List.Perm.refl _
    · exact (List.Perm.cons y ih).trans (List.Perm.swap x y ys)

theorem sortBy_perm {α} (lt : α → α → Bool) (l : List α) : (sortBy lt l).Perm l := by
  induction l with
  | nil => exact List.Perm.refl _
  | cons x xs ih =>
    unfold sortBy
    exact (insertBy_perm lt x _).trans (List.Perm.cons x ih)

theorem mem_sortBy {α} (lt : α → α → Bool) (l : List α) (a : α) : a ∈ sortBy lt l ↔ a ∈ l :=
  (sortBy_perm lt l).mem_iff

/-- insertion sort yields a list in which no later element is smaller than an earlier one -/
theorem insertBy_sorted {α} (lt : α → α → Bool)
    (asymm : ∀ a b, lt a b = true → lt b a = false)
    (trans : ∀ a b c, lt a b = true → lt b c = true → lt a c = true)
    (x : α) (l : List α) (hs : l.Pairwise (fun a b => lt b a = false)) :
    (insertBy lt x l).Pairwise (fun a b => lt b a = false) := by
  induction l with
  | nil => simp [insertBy]
  | cons y ys ih =>
    have hp := List.pairwise_cons.mp hs
    unfold insertBy
    split
    · rename_i hxy
      refine List.pairwise_cons.mpr ⟨?_, hs⟩
      intro z hz
      rcases List.mem_cons.mp hz with rfl | hz
      · exact asymm _ _ hxy
      · cases hzx : lt z x with
        | false => rfl
        | true =>
          have := trans _ _ _ hzx hxy
          rw [hp.1 z hz] at this; cases this
    · rename_i hxy
      refine List.pairwise_cons.mpr ⟨?_, ih hp.2⟩
      intro z hz
      rcases List.mem_cons.mp ((insertBy_perm lt x ys).mem_iff.mp hz) with rfl | hz
      · simpa using hxy
      · exact hp.1 z hz

theorem sortBy_sorted {α} (lt : α → α → Bool)
    (asymm : ∀ a b, lt a b = true → lt b a = false)
    (trans : ∀ a b c, lt a b = true → lt b c = true → lt a c = true)
    (l : List α) : (sortBy lt l).Pairwise (fun a b => lt b a = false) := by
  induction l with
  | nil => simp [sortBy]
  | cons x xs ih => unfold sortBy; exact insertBy_sorted lt asymm trans x _ ih

/-- in such a list a strictly smaller element stands before a strictly larger one -/
theorem sorted_lt_before {α} (lt : α → α → Bool) (irrefl : ∀ a, lt a a = false)
    {l : List α} (hs : l.Pairwise (fun a b => lt b a = false)) {a b : α}
    (ha : a ∈ l) (hb : b ∈ l) (hlt : lt a b = true) : ∃ l1 l2, l = l1 ++ a :: l2 ∧ b ∈ l2 := by
  induction l with
  | nil => cases ha
  | cons x xs ih =>
    have hp := List.pairwise_cons.mp hs
    rcases List.mem_cons.mp ha with ha | ha
    · rcases List.mem_cons.mp hb with hb | hb
      · exfalso; rw [ha, hb, irrefl] at hlt; cases hlt
      · exact ⟨[], xs, by rw [ha]; rfl, hb⟩
    · rcases List.mem_cons.mp hb with hb | hb
      · exfalso
        have h1 := hp.1 a ha
        rw [hb] at hlt
        rw [h1] at hlt; cases hlt
      · obtain ⟨l1, l2, e, hb2⟩ := ih hp.2 ha hb
        exact ⟨x :: l1, l2, by rw [e]; rfl, hb2⟩
end Lc
