/-
  `GetMountAndSubmounts` after fix e546b99 (Model: `Mountinfo.covers`, `hasCoveredMount`,
  `inTreeOrder`; `Layers.getMountAndSubmounts`): the path-sorted list of the mounts at/below a
  path, re-ordered along the mount tree exactly when a listed mount covers a listed sibling.
  * `inTreeOrder_perm`, `getMountAndSubmounts_perm`, `mem_getMountAndSubmounts`: in every case a
    permutation of the mounts at/below the path;
  * `getMountAndSubmounts_noCovered`: when nothing is covered it is the path-sorted list;
  * `inTreeOrder_parent_first`: no mount is listed before the mount it hangs below;
  * `inTreeOrder_covered_first`: a covered mount is listed before the mount that covers it.
-/
import Lc.Model.Layers
import Lc.Lemmas.SortBy

namespace Lc.TreeOrder
open Lc Lc.Layers Lc.Mountinfo Lc.SortByAux

/-- the mounts at or below `path` as the table lists them -/
def regionOf (m : Mounts) (path : Bytes) : List MountType :=
  m.list.filter fun x => x.mountpoint == path || hasPrefix x.mountpoint (path ++ [47])

/-- … sorted by mountpoint -/
def sortedRegion (m : Mounts) (path : Bytes) : List MountType :=
  sortBy (fun a b => bytesLt a.mountpoint b.mountpoint) (regionOf m path).reverse

theorem getMountAndSubmounts_eq (m : Mounts) (path : Bytes) :
    getMountAndSubmounts m path =
      if hasCoveredMount (sortedRegion m path) then inTreeOrder (sortedRegion m path) else sortedRegion m path := rfl

/-! ### one insertion -/

theorem mem_takeWhile_imp {α} {p : α → Bool} : ∀ {l : List α} {x : α}, x ∈ l.takeWhile p → p x = true := by
  intro l
  induction l with
  | nil => intro x h; cases h
  | cons y ys ih =>
    intro x h
    rw [List.takeWhile_cons] at h
    split at h
    · rename_i hy
      rcases List.mem_cons.mp h with h | h
      · rw [h]; exact hy
      · exact ih h
    · cases h

theorem dropWhile_head_not {α} {p : α → Bool} {l : List α} {y : α} {ys : List α}
    (h : l.dropWhile p = y :: ys) : p y = false := by
  have := List.head?_dropWhile_not p l
  rw [h] at this
  exact this

theorem dropWhile_nil_all {α} {p : α → Bool} : ∀ {l : List α}, l.dropWhile p = [] → ∀ x ∈ l, p x = true := by
  intro l
  induction l with
  | nil => intro _ x hx; cases hx
  | cons y ys ih =>
    intro h x hx
    rw [List.dropWhile_cons] at h
    split at h
    · rename_i hy
      rcases List.mem_cons.mp hx with hx | hx
      · rw [hx]; exact hy
      · exact ih h x hx
    · cases h

/-- what one round does: `m` is put between two parts of the list placed so far — in front
    of the first placed mount that covers it; otherwise behind the first placed mount with
    its parent id and the run of deeper entries that follows it; otherwise at the end -/
theorem insertTree_cases (out : List (MountType × Nat)) (m : MountType) :
    (∃ front a back, out = front ++ a :: back ∧ (∀ x ∈ front, covers x.1 m = false) ∧
        covers a.1 m = true ∧
        insertTree out m = front ++ (m, (placeBelow out m).1) :: a :: back) ∨
    ((∀ x ∈ out, covers x.1 m = false) ∧
      ((∃ before par blk1 blk2, out = before ++ par :: (blk1 ++ blk2) ∧
          (∀ x ∈ before, x.1.id ≠ m.parent) ∧ par.1.id = m.parent ∧
          (∀ q ∈ blk1, q.2 > par.2) ∧ (∀ q r, blk2 = q :: r → ¬ q.2 > par.2) ∧
          insertTree out m = before ++ par :: (blk1 ++ (m, par.2 + 1) :: blk2)) ∨
       ((∀ x ∈ out, x.1.id ≠ m.parent) ∧ insertTree out m = out ++ [(m, 0)]))) := by
  unfold insertTree
  cases hc : out.dropWhile (fun (a : MountType × Nat) => !(covers a.1 m)) with
  | cons a back =>
    left
    refine ⟨_, a, back, ?_, ?_, ?_, rfl⟩
    · rw [← hc, List.takeWhile_append_dropWhile]
    · intro x hx
      have := mem_takeWhile_imp hx
      simpa using this
    · have := dropWhile_head_not hc
      simpa using this
  | nil =>
    right
    refine ⟨fun x hx => by simpa using dropWhile_nil_all hc x hx, ?_⟩
    simp only
    unfold placeBelow
    cases hp : out.dropWhile (fun (p : MountType × Nat) => !(p.1.id == m.parent)) with
    | cons par after =>
      left
      simp only
      refine ⟨out.takeWhile (fun (p : MountType × Nat) => !(p.1.id == m.parent)), par,
        after.takeWhile (fun (q : MountType × Nat) => decide (q.2 > par.2)),
        after.dropWhile (fun (q : MountType × Nat) => decide (q.2 > par.2)), ?_, ?_, ?_, ?_, ?_, ?_⟩
      · rw [List.takeWhile_append_dropWhile, ← hp, List.takeWhile_append_dropWhile]
      · intro x hx
        have := mem_takeWhile_imp hx
        simpa using this
      · have := dropWhile_head_not hp
        simpa using this
      · intro q hq
        have := mem_takeWhile_imp hq
        simpa using this
      · intro q r hqr
        have := dropWhile_head_not hqr
        simpa using this
      · simp [List.append_assoc]
    | nil =>
      right
      refine ⟨fun x hx => by simpa using dropWhile_nil_all hp x hx, ?_⟩
      simp

/-- one round puts `m` somewhere into the list, which is otherwise as it was -/
theorem insertTree_split (out : List (MountType × Nat)) (m : MountType) :
    ∃ A B lvl, out = A ++ B ∧ insertTree out m = A ++ (m, lvl) :: B := by
  rcases insertTree_cases out m with ⟨front, a, back, he, _, _, hi⟩ |
      ⟨_, ⟨before, par, blk1, blk2, he, _, _, _, _, hi⟩ | ⟨_, hi⟩⟩
  · exact ⟨front, a :: back, _, he, hi⟩
  · exact ⟨before ++ par :: blk1, blk2, par.2 + 1, by rw [he]; simp, by rw [hi]; simp⟩
  · exact ⟨out, [], _, by simp, hi⟩

theorem insertTree_perm (out : List (MountType × Nat)) (m : MountType) :
    ((insertTree out m).map (·.1)).Perm (m :: out.map (·.1)) := by
  obtain ⟨A, B, lvl, he, hi⟩ := insertTree_split out m
  rw [hi, he]
  simp only [List.map_append, List.map_cons]
  exact List.perm_middle

theorem insertTree_sublist (out : List (MountType × Nat)) (m : MountType) :
    (out.map (·.1)).Sublist ((insertTree out m).map (·.1)) := by
  obtain ⟨A, B, lvl, he, hi⟩ := insertTree_split out m
  rw [hi, he]
  simp only [List.map_append, List.map_cons]
  exact List.Sublist.append (List.Sublist.refl _) (List.sublist_cons_self _ _)

theorem foldl_insertTree_perm (l : List MountType) : ∀ (out : List (MountType × Nat)),
    ((l.foldl insertTree out).map (·.1)).Perm (out.map (·.1) ++ l) := by
  induction l with
  | nil => intro out; simp
  | cons x xs ih =>
    intro out
    rw [List.foldl_cons]
    refine (ih _).trans ?_
    refine ((insertTree_perm out x).append_right xs).trans ?_
    simp only [List.cons_append]
    exact List.perm_middle.symm

/-- the tree order is a permutation -/
theorem inTreeOrder_perm (l : List MountType) : (inTreeOrder l).Perm l := by
  have := foldl_insertTree_perm l []
  simpa [inTreeOrder] using this

/-- **in every case a permutation of the path-sorted list** -/
theorem getMountAndSubmounts_perm_sorted (m : Mounts) (path : Bytes) :
    (getMountAndSubmounts m path).Perm (sortedRegion m path) := by
  rw [getMountAndSubmounts_eq]
  split
  · exact inTreeOrder_perm _
  · exact List.Perm.refl _

theorem getMountAndSubmounts_perm_region (m : Mounts) (path : Bytes) :
    (getMountAndSubmounts m path).Perm (regionOf m path) :=
  ((getMountAndSubmounts_perm_sorted m path).trans (sortBy_perm _ _)).trans (List.reverse_perm _)

theorem mem_getMountAndSubmounts (m : Mounts) (path : Bytes) (x : MountType) :
    x ∈ getMountAndSubmounts m path ↔
      x ∈ m.list ∧ (x.mountpoint = path ∨ hasPrefix x.mountpoint (path ++ [47]) = true) := by
  rw [(getMountAndSubmounts_perm_region m path).mem_iff]
  unfold regionOf
  simp [List.mem_filter]

/-! ### the tree order: parents first, covered mounts before the covering one -/

theorem pairwise_insert {α} {R : α → α → Prop} {A B : List α} {m : α} (h : (A ++ B).Pairwise R)
    (hA : ∀ x ∈ A, R x m) (hB : ∀ y ∈ B, R m y) : (A ++ m :: B).Pairwise R := by
  rw [List.pairwise_append] at h ⊢
  refine ⟨h.1, List.pairwise_cons.mpr ⟨hB, h.2.1⟩, ?_⟩
  intro x hx y hy
  rcases List.mem_cons.mp hy with hy | hy
  · rw [hy]; exact hA x hx
  · exact h.2.2 x hx y hy

/-- nothing listed after an entry is the mount it hangs below -/
def PF (out : List (MountType × Nat)) : Prop := out.Pairwise (fun x y => y.1.id ≠ x.1.parent)

theorem insertTree_PF (out : List (MountType × Nat)) (m : MountType) (hinv : PF out)
    (hnd : (out.map (·.1.id)).Nodup) (hns : ∀ x ∈ out, x.1.id ≠ x.1.parent)
    (hbefore : ∀ x ∈ out, m.id ≠ x.1.parent) : PF (insertTree out m) := by
  unfold PF at *
  rcases insertTree_cases out m with ⟨front, a, back, he, _, hca, hi⟩ |
      ⟨_, ⟨before, par, blk1, blk2, he, _, hpar, _, _, hi⟩ | ⟨hnone, hi⟩⟩
  · rw [hi]
    rw [he] at hinv hns hbefore
    apply pairwise_insert hinv (fun x hx => hbefore x (by simp [hx]))
    -- the covering mount hangs below the same mount; that mount is listed before it
    have hpar : a.1.parent = m.parent := by
      unfold covers at hca
      simp only [Bool.and_eq_true, beq_iff_eq] at hca
      exact hca.1.2
    intro y hy
    rcases List.mem_cons.mp hy with hy | hy
    · rw [hy, ← hpar]; exact hns a (by simp)
    · have := (List.pairwise_cons.mp (List.pairwise_append.mp hinv).2.1).1 y hy
      rw [← hpar]; exact this
  · rw [hi]
    have hsplit : before ++ par :: (blk1 ++ (m, par.2 + 1) :: blk2) =
        (before ++ par :: blk1) ++ (m, par.2 + 1) :: blk2 := by simp
    rw [hsplit]
    have he' : out = (before ++ par :: blk1) ++ blk2 := by rw [he]; simp
    rw [he'] at hinv hbefore
    apply pairwise_insert hinv (fun x hx => hbefore x (List.mem_append_left _ hx))
    intro y hy heq
    -- two entries with the id of the parent
    rw [he] at hnd
    simp only [List.map_append, List.map_cons] at hnd
    have h1 := (List.nodup_append.mp hnd).2.1
    have h2 := (List.nodup_cons.mp h1).1
    apply h2
    rw [hpar, ← heq]
    exact List.mem_append_right _ (List.mem_map.mpr ⟨y, hy, rfl⟩)
  · rw [hi]
    have : out ++ [(m, 0)] = out ++ (m, 0) :: [] := rfl
    rw [this]
    exact pairwise_insert (by simpa using hinv) hbefore (by intro y hy; cases hy)

theorem foldl_insertTree_PF (l : List MountType) : ∀ (out : List (MountType × Nat)), PF out →
    ((out.map (·.1.id)) ++ l.map (·.id)).Nodup → (∀ x ∈ out, x.1.id ≠ x.1.parent) →
    (∀ x ∈ l, x.id ≠ x.parent) → (∀ x ∈ out, ∀ y ∈ l, y.id ≠ x.1.parent) →
    l.Pairwise (fun x y => y.id ≠ x.parent) → PF (l.foldl insertTree out) := by
  induction l with
  | nil => intro out h _ _ _ _ _; exact h
  | cons m rest ih =>
    intro out hinv hnd hns hnsl hcross hl
    rw [List.foldl_cons]
    have hnd0 : (out.map (·.1.id)).Nodup := (List.nodup_append.mp hnd).1
    have hstep := insertTree_PF out m hinv hnd0 hns (fun x hx => hcross x hx m (by simp))
    obtain ⟨A, B, lvl, he, hi⟩ := insertTree_split out m
    have hmem : ∀ x ∈ insertTree out m, x ∈ out ∨ x.1 = m := by
      intro x hx
      rw [hi] at hx
      rcases List.mem_append.mp hx with hx | hx
      · exact .inl (by rw [he]; exact List.mem_append_left _ hx)
      · rcases List.mem_cons.mp hx with hx | hx
        · exact .inr (by rw [hx])
        · exact .inl (by rw [he]; exact List.mem_append_right _ hx)
    apply ih _ hstep
    · -- ids: a permutation of the ids before
      have hp : ((insertTree out m).map (·.1.id) ++ rest.map (·.id)).Perm
          (out.map (·.1.id) ++ (m :: rest).map (·.id)) := by
        rw [hi, he]
        simp only [List.map_append, List.map_cons, List.append_assoc]
        refine List.Perm.append_left _ ?_
        simp only [List.cons_append]
        exact (List.perm_middle (a := m.id) (l₁ := B.map (·.1.id)) (l₂ := rest.map (·.id))).symm
      exact hp.nodup_iff.mpr hnd
    · intro x hx
      rcases hmem x hx with h | h
      · exact hns x h
      · rw [h]; exact hnsl m (by simp)
    · exact fun x hx => hnsl x (by simp [hx])
    · intro x hx y hy
      rcases hmem x hx with h | h
      · exact hcross x h y (by simp [hy])
      · rw [h]; exact (List.pairwise_cons.mp hl).1 y hy
    · exact (List.pairwise_cons.mp hl).2

/-- **every mount precedes the mounts hanging below it**: if in the (path-sorted) list nothing
    is listed before the mount it hangs below, ids are unique and nobody is its own parent,
    the same holds of the tree order -/
theorem inTreeOrder_parent_first (l : List MountType) (hnd : (l.map (·.id)).Nodup)
    (hns : ∀ x ∈ l, x.id ≠ x.parent) (hl : l.Pairwise (fun x y => y.id ≠ x.parent)) :
    (inTreeOrder l).Pairwise (fun x y => y.id ≠ x.parent) := by
  have h := foldl_insertTree_PF l [] List.Pairwise.nil (by simpa using hnd) (by simp) hns (by simp) hl
  unfold inTreeOrder
  rw [List.pairwise_map]
  exact h

theorem foldl_insertTree_sublist (l : List MountType) : ∀ (out : List (MountType × Nat)),
    (out.map (·.1)).Sublist ((l.foldl insertTree out).map (·.1)) := by
  induction l with
  | nil => intro out; exact List.Sublist.refl _
  | cons m rest ih =>
    intro out
    rw [List.foldl_cons]
    exact (insertTree_sublist out m).trans (ih _)

/-- **a covered mount is listed before the mount that covers it** (so it is unmounted after it) -/
theorem inTreeOrder_covered_first (pre rest : List MountType) (a b : MountType) (ha : a ∈ pre)
    (hc : covers a b = true) : [b, a].Sublist (inTreeOrder (pre ++ b :: rest)) := by
  unfold inTreeOrder
  rw [List.foldl_append, List.foldl_cons]
  refine List.Sublist.trans ?_ (foldl_insertTree_sublist rest _)
  have hmem : a ∈ (pre.foldl insertTree []).map (·.1) := by
    have := (foldl_insertTree_perm pre []).mem_iff (a := a)
    simpa using this.mpr (by simpa using ha)
  obtain ⟨xa, hxa, hxa1⟩ := List.mem_map.mp hmem
  rcases insertTree_cases (pre.foldl insertTree []) b with ⟨front, a', back, he, hfront, _, hi⟩ | ⟨hnone, _⟩
  · rw [hi]
    rw [he] at hxa
    have hxa' : xa ∈ a' :: back := by
      rcases List.mem_append.mp hxa with h | h
      · have := hfront xa h
        rw [hxa1, hc] at this; cases this
      · exact h
    simp only [List.map_append, List.map_cons]
    apply List.Sublist.trans _ (List.sublist_append_right _ _)
    apply List.Sublist.cons₂
    have : [a].Sublist ((a' :: back).map (·.1)) := by
      apply List.singleton_sublist.mpr
      exact List.mem_map.mpr ⟨xa, hxa', hxa1⟩
    simpa using this
  · have := hnone xa hxa
    rw [hxa1, hc] at this; cases this

/-- no listed mount covers a listed sibling -/
def NoCovered (m : Mounts) (path : Bytes) : Prop :=
  ∀ a ∈ regionOf m path, ∀ b ∈ regionOf m path, covers a b = false

theorem hasCoveredMount_false {l : List MountType} (h : ∀ a ∈ l, ∀ b ∈ l, covers a b = false) :
    hasCoveredMount l = false := by
  unfold hasCoveredMount
  apply List.any_eq_false.mpr
  intro a ha
  simp only [Bool.not_eq_true]
  apply List.any_eq_false.mpr
  intro b hb
  simp [h a ha b hb]

/-- **when nothing is covered the list is the path-sorted one, as before the fix** -/
theorem getMountAndSubmounts_noCovered (m : Mounts) (path : Bytes) (h : NoCovered m path) :
    getMountAndSubmounts m path = sortedRegion m path := by
  rw [getMountAndSubmounts_eq]
  have : hasCoveredMount (sortedRegion m path) = false := by
    apply hasCoveredMount_false
    intro a ha b hb
    unfold sortedRegion at ha hb
    exact h a (List.mem_reverse.mp ((mem_sortBy _ _ a).mp ha)) b (List.mem_reverse.mp ((mem_sortBy _ _ b).mp hb))
  rw [this]
  rfl

/-- tables whose entries carry no ids (hand-made `Mounts` values) are never re-ordered -/
theorem noCovered_of_no_ids (m : Mounts) (path : Bytes) (h : ∀ x ∈ m.list, x.id = []) : NoCovered m path := by
  intro a ha b _
  unfold covers
  have : a.id = [] := h a (List.mem_filter.mp ha).1
  simp [this]

end Lc.TreeOrder
