/-
  Clean member names through the member-set pipeline (helper lemmas for Props/C06, C17).

  `CleanAbs n` (`Lc.TreeWF.CleanAbs`: `path.Clean n = n` and `n` starts with '/') is what
  `parseLine` guarantees for the name of an add-files line since the fix "add-files names are
  cleaned when a line is read" (`pathClean_cleanAbs`).  For such names the loop step of
  `AddMissingStageDirs` (`parentOf`: cut at the last slash) and `path.Dir` agree and yield a
  clean name again (`pathDir_of_clean`); the invariant `NamesClean` (every member name is
  clean and absolute) is kept by every pipeline step whose own names are clean
  (`runStep_clean`, `runSteps_clean`), in particular by `AddMissingStageDirs`
  (`addMissing_clean`).  Core Lean only.
-/
import Lc.Lemmas.StageClosure
import Lc.Lemmas.TreeWF

namespace Lc.Stage
open Lc Lc.Lemmas.Path Lc.ExportPath Lc.InLayers
open Lc.TreeWF (CleanAbs cleanAbs_absPath parent_shape absPath_snoc_eq pfx pathDir_root)

/-! ### `path.Clean` yields clean names -/

/-- **what the parser's `path.Clean` buys**: the cleaned form of an absolute name is clean
    and absolute -/
theorem pathClean_cleanAbs (s : Bytes) (h : isAbs s = true) : CleanAbs (pathClean s) :=
  ⟨pathClean_idem s, isAbs_pathClean_of_isAbs s h⟩

theorem cleanAbs_root : CleanAbs [SLASH] := by decide

theorem cleanAbs_ne_nil {n : Bytes} (h : CleanAbs n) : n ≠ [] := by
  intro e; rw [e] at h; exact absurd h.2 (by decide)

/-- a clean absolute name starts with a slash -/
theorem cleanAbs_head {n : Bytes} (h : CleanAbs n) : ∃ r, n = SLASH :: r := by
  have h2 := h.2
  unfold isAbs at h2
  split at h2
  · exact ⟨_, rfl⟩
  · cases h2

/-! ### the last slash of `X/c` -/

theorem indexByte_append_of_not_mem (c : Nat) (a b : Bytes) (h : c ∉ a) :
    indexByte c (a ++ c :: b) = some a.length := by
  induction a with
  | nil => simp [indexByte]
  | cons x xs ih =>
    have hx : x ≠ c := fun e => h (by simp [e])
    have hxs : c ∉ xs := fun e => h (by simp [e])
    simp [indexByte, hx, ih hxs]

theorem lastSlash_snoc (X c : Bytes) (hc : SLASH ∉ c) :
    lastSlash (X ++ SLASH :: c) = some X.length := by
  unfold lastSlash
  have hr : (X ++ SLASH :: c).reverse = c.reverse ++ SLASH :: X.reverse := by simp
  simp only [hr]
  rw [indexByte_append_of_not_mem SLASH c.reverse X.reverse (by simpa using hc)]
  simp only [List.length_append, List.length_cons, List.length_reverse]
  congr 1
  omega

/-- the loop step of `AddMissingStageDirs` on `X/c`: `X`, unless `X` is empty -/
theorem parentOf_snoc (X c : Bytes) (hc : SLASH ∉ c) :
    parentOf (X ++ SLASH :: c) = if X = [] then none else some X := by
  unfold parentOf
  rw [lastSlash_snoc X c hc]
  cases X with
  | nil => simp
  | cons x xs =>
    have : ¬ ((x :: xs).length < 1) := by simp
    simp only [this, if_false]
    simp

theorem parentOf_root : parentOf [SLASH] = none := by decide

/-! ### `path.Dir` and the loop step agree on clean names -/

/-- a clean absolute name other than `/` is `X/c` with `c` a single clean element; `X` is
    empty for a name directly below the root and the clean path of the elements before
    otherwise; `path.Dir` gives the path of the elements before -/
theorem cleanAbs_split {n : Bytes} (hn : CleanAbs n) (hne : n ≠ [SLASH]) :
    ∃ pre c, (∀ x ∈ pre, CleanName x) ∧ CleanName c ∧ n = pfx pre ++ SLASH :: c ∧
      pathDir n = absPath pre := by
  obtain ⟨pre, c, hpre, hc, hk, hd⟩ := parent_shape n hn hne
  exact ⟨pre, c, hpre, hc, by rw [hk, absPath_snoc_eq], hd⟩

/-- **`pathDir_of_clean`**: for a clean absolute name the loop step `parentOf` (cut at the last
    slash, `none` at the top level) yields `path.Dir` of the name, and that is clean and
    absolute again.  (`n ≠ "/"` need not be assumed: `parentOf "/" = none`.) -/
theorem pathDir_of_clean {n p : Bytes} (hn : CleanAbs n) (hp : parentOf n = some p) :
    pathDir n = p ∧ CleanAbs p := by
  by_cases hne : n = [SLASH]
  · rw [hne, parentOf_root] at hp; cases hp
  · obtain ⟨pre, c, hpre, hc, hk, hd⟩ := cleanAbs_split hn hne
    rw [hk, parentOf_snoc _ _ hc.1.2.2] at hp
    unfold pfx at hp
    by_cases hpe : pre = []
    · simp [hpe] at hp
    · have hX : absPath pre ≠ [] := by unfold absPath; simp
      simp only [hpe, if_false, hX] at hp
      cases hp
      exact ⟨hd, cleanAbs_absPath pre hpre⟩

/-- `path.Dir` of a clean absolute name is clean and absolute -/
theorem pathDir_cleanAbs {n : Bytes} (hn : CleanAbs n) : CleanAbs (pathDir n) := by
  by_cases hne : n = [SLASH]
  · rw [hne]
    have : pathDir [SLASH] = [SLASH] := pathDir_root
    rw [this]; exact cleanAbs_root
  · obtain ⟨pre, c, hpre, _, _, hd⟩ := cleanAbs_split hn hne
    rw [hd]; exact cleanAbs_absPath pre hpre

/-- a clean name without loop step lies directly below the root (or is the root) -/
theorem pathDir_of_clean_top {n : Bytes} (hn : CleanAbs n) (hp : parentOf n = none) :
    pathDir n = [SLASH] := by
  by_cases hne : n = [SLASH]
  · rw [hne]; exact pathDir_root
  · obtain ⟨pre, c, hpre, hc, hk, hd⟩ := cleanAbs_split hn hne
    rw [hk, parentOf_snoc _ _ hc.1.2.2] at hp
    unfold pfx at hp
    by_cases hpe : pre = []
    · rw [hd, hpe]; rfl
    · have hX : absPath pre ≠ [] := by unfold absPath; simp
      simp [hpe, hX] at hp

/-- every ancestor of a clean name is clean -/
theorem Anc.clean {d n : Bytes} (h : Anc d n) : CleanAbs n → CleanAbs d := by
  induction h with
  | step hp => intro hn; exact (pathDir_of_clean hn hp).2
  | trans hp _ ih => intro hn; exact ih (pathDir_of_clean hn hp).2

theorem not_anc_root (d : Bytes) : ¬ Anc d [SLASH] := by
  intro h
  cases h with
  | step hp => rw [parentOf_root] at hp; cases hp
  | trans hp _ => rw [parentOf_root] at hp; cases hp

/-- `path.Dir` of a clean name: the root, or the name's first ancestor -/
theorem pathDir_clean_cases {n : Bytes} (hn : CleanAbs n) :
    pathDir n = [SLASH] ∨ parentOf n = some (pathDir n) := by
  cases hp : parentOf n with
  | none => exact Or.inl (pathDir_of_clean_top hn hp)
  | some p => right; rw [(pathDir_of_clean hn hp).1]

/-! ### the invariant: all member names are clean and absolute -/

def NamesClean (m : EMap) : Prop := ∀ n ∈ m.names, CleanAbs n

instance (m : EMap) : Decidable (NamesClean m) := by unfold NamesClean; infer_instance

theorem NamesClean.nil : NamesClean [] := by intro n h; cases h

/-- the names a step brings in are clean and absolute: the entry of an add, the new name of a
    cloned device node, the candidates of the symlink recovery.  Deletions, the exclusion and
    `AddMissingStageDirs` bring in no names of their own. -/
def StepClean : Step → Prop
  | .add e => CleanAbs e.name
  | .del _ => True
  | .delGlob _ => True
  | .unstaged _ => True
  | .recover cs => ∀ c ∈ cs, CleanAbs c.name
  | .clone _ name _ => CleanAbs name
  | .exclude => True
  | .closure => True
  | .fail => True

instance (s : Step) : Decidable (StepClean s) := by
  cases s <;> unfold StepClean <;> infer_instance

theorem NamesClean.sub {m m' : EMap} (h : NamesClean m) (hs : ∀ n, n ∈ m'.names → n ∈ m.names) :
    NamesClean m' := fun n hn => h n (hs n hn)

theorem addEntry_clean {env : Env} {m m' : EMap} {e0 : Entry} (h : addEntry env m e0 = .ok m')
    (hm : NamesClean m) (he : CleanAbs e0.name) : NamesClean m' := by
  intro n hn
  rcases (addEntry_names h).2 n hn with e | hmem
  · rw [e]; exact he
  · exact hm n hmem

theorem removeGlob_names_sub (ns : List Bytes) : ∀ (m : EMap) (n : Bytes),
    n ∈ (removeGlob m ns).names → n ∈ m.names := by
  unfold removeGlob
  induction ns with
  | nil => intro m n h; exact h
  | cons x xs ih =>
    intro m n h
    simp only [List.foldl_cons] at h
    have := ih _ n h
    split at this
    · exact ((mem_names_erase m x n).mp this).1
    · exact this

theorem filter_names_sub (m : EMap) (p : Entry → Bool) (n : Bytes)
    (h : n ∈ EMap.names (m.filter p)) : n ∈ m.names :=
  (names_filter_sublist m p).subset h

theorem recoverAll_clean {env : Env} (cs : List Cand) : ∀ {m m' : EMap},
    recoverAll env m cs = .ok m' → NamesClean m → (∀ c ∈ cs, CleanAbs c.name) → NamesClean m' := by
  induction cs with
  | nil => intro m m' h hm _; cases h; exact hm
  | cons c cs ih =>
    intro m m' h hm hc
    simp only [recoverAll] at h
    split at h
    · cases h
    · rename_i m1 h1
      refine ih h ?_ (fun x hx => hc x (List.mem_cons_of_mem _ hx))
      unfold recoverOne at h1
      split at h1
      · cases h1; exact hm
      · split at h1
        · cases h1
        · split at h1
          · exact addEntry_clean h1 hm (hc c List.mem_cons_self)
          · cases h1; exact hm

/-- `AddMissingStageDirs` keeps the names clean: what it adds are `path.Dir`s of members and
    their ancestors -/
theorem addMissing_clean {env : Env} {m m' : EMap} (h : addMissingStageDirs env m = .ok m')
    (hm : NamesClean m) : NamesClean m' := by
  unfold addMissingStageDirs at h
  simp only at h
  obtain ⟨_, _, b3⟩ := addChains_spec _ h
  intro n hn
  rcases b3 n hn with h0 | ⟨d, hd, hnd⟩
  · exact hm n h0
  · have hdm := (List.mem_filter.mp hd).1
    obtain ⟨e, he, hed⟩ := List.mem_map.mp hdm
    have hdc : CleanAbs d := by
      rw [← hed]; exact pathDir_cleanAbs (hm e.name (List.mem_map.mpr ⟨e, he, rfl⟩))
    rcases hnd with e1 | ha
    · rw [e1]; exact hdc
    · exact ha.clean hdc

/-- **every pipeline step keeps the member names clean** when the names it brings in are -/
theorem runStep_clean {env : Env} {s s' : St} {x : Step} (h : runStep env s x = .ok s')
    (hm : NamesClean s.map) (hx : StepClean x) : NamesClean s'.map := by
  cases x with
  | add e =>
    obtain ⟨m, h1, h2⟩ := except_map_ok h
    rw [← h2]; exact addEntry_clean h1 hm hx
  | del n =>
    obtain ⟨m, h1, h2⟩ := except_map_ok h
    rw [← h2]
    unfold removeFile at h1
    split at h1
    · cases h1; exact hm.sub (fun x hx => ((mem_names_erase _ _ _).mp hx).1)
    · cases h1
  | delGlob ns => cases h; exact hm.sub (removeGlob_names_sub ns s.map)
  | unstaged ns => cases h; exact hm
  | recover cs =>
    obtain ⟨m, h1, h2⟩ := except_map_ok h
    rw [← h2]; exact recoverAll_clean cs h1 hm hx
  | clone src name dminor =>
    simp only [runStep] at h
    split at h
    · cases h
    · obtain ⟨m, h1, h2⟩ := except_map_ok h
      rw [← h2]; exact addEntry_clean h1 hm hx
  | exclude => cases h; exact hm.sub (filter_names_sub s.map _)
  | closure =>
    obtain ⟨m, h1, h2⟩ := except_map_ok h
    rw [← h2]; exact addMissing_clean h1 hm
  | fail => cases h

theorem runSteps_clean {env : Env} (xs : List Step) : ∀ {s s' : St},
    runSteps env s xs = .ok s' → NamesClean s.map → (∀ x ∈ xs, StepClean x) → NamesClean s'.map := by
  induction xs with
  | nil => intro s s' h hm _; cases h; exact hm
  | cons x xs ih =>
    intro s s' h hm hx
    simp only [runSteps] at h
    split at h
    · cases h
    · rename_i s1 h1
      exact ih h (runStep_clean h1 hm (hx x List.mem_cons_self))
        (fun y hy => hx y (List.mem_cons_of_mem _ hy))

/-- a run over `xs ++ ys` is a run over `xs` followed by one over `ys` -/
theorem runSteps_append {env : Env} (xs ys : List Step) : ∀ {s s' : St},
    runSteps env s (xs ++ ys) = .ok s' →
    ∃ s1, runSteps env s xs = .ok s1 ∧ runSteps env s1 ys = .ok s' := by
  induction xs with
  | nil => intro s s' h; exact ⟨s, rfl, h⟩
  | cons x xs ih =>
    intro s s' h
    simp only [List.cons_append, runSteps] at h ⊢
    split at h
    · cases h
    · rename_i s1 h1
      exact ih h

/-! ### order of a mapped list -/

theorem Before.map {l : List Bytes} {a b : Bytes} (f : Bytes → Bytes) (h : Before l a b) :
    Before (l.map f) (f a) (f b) := by
  obtain ⟨l1, l2, e, hb⟩ := h
  exact ⟨l1.map f, l2.map f, by rw [e]; simp, List.mem_map.mpr ⟨b, hb, rfl⟩⟩

end Lc.Stage
