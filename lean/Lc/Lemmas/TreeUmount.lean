/-
  Unmounting along the mount tree is never refused (kernel-model side of Props/C03's
  `umount_tree_order_no_call_refused`).  No `NoHidden` here: the table may have covered mounts.
  * `TreeS`: the tree discipline plus what the kernel model's `addMount` also guarantees — no
    two entries below one mount on the same mountpoint, roots not nested (`addMount_TreeS`);
  * `Chain U c x`: `x` is `c` or hangs (over entries of `U`) below `c`;
  * `Blocks k a`: `k` and `a` hang below the same mount and `k`'s mountpoint is `a`'s or a
    path-prefix of it — a lookup coming from their parent enters `k`, not `a`;
  * `mountedAt_unblocked`: in a `TreeS` table the lookup of `x.mp` ends on `x` when `x` has no
    child and no entry blocks `x` or one of the entries `x` hangs below;
  * `ClosedRegion t bp`: whatever blocks an entry on the way to or inside the region at/below
    `bp` lies in that region itself (nothing from outside covers the region);
  * `kumountSeq_tree`: unmounting the entries of a closed region in an order in which (O1) no
    entry comes after the entry it hangs below, (O2) no entry comes after an entry that blocks
    it or one of the entries it hangs below, is never refused.
-/
import Lc.Lemmas.KernelUmount

namespace Lc.TreeUmount
open Lc Lc.Kernel Lc.KernelResolve Lc.KernelUmount

/-! ### strict tree discipline -/

structure TreeS (mnts : List KMnt) : Prop extends Tree mnts where
  noTwins : ∀ a ∈ mnts, ∀ b ∈ mnts, a ≠ b → a.parent = b.parent → a.mp ≠ b.mp
  rootsApart : ∀ a ∈ mnts, ∀ b ∈ mnts, a ≠ b → isRootIn mnts a = true → isRootIn mnts b = true →
    pathUnder a.mp b.mp = false

/-- `x` is `c`, or hangs below `c` over entries of `U` -/
inductive Chain (U : List KMnt) : KMnt → KMnt → Prop
  | refl {x : KMnt} : x ∈ U → Chain U x x
  | step {c a x : KMnt} : c ∈ U → a ∈ U → a.parent = c.id → Chain U a x → Chain U c x

theorem Chain.mem_left {U : List KMnt} {c x : KMnt} (h : Chain U c x) : c ∈ U := by
  cases h with
  | refl hx => exact hx
  | step hc _ _ _ => exact hc

theorem Chain.mem_right {U : List KMnt} {c x : KMnt} (h : Chain U c x) : x ∈ U := by
  induction h with
  | refl hx => exact hx
  | step _ _ _ _ ih => exact ih

theorem Chain.snoc {U : List KMnt} {c q x : KMnt} (h : Chain U c q) (hx : x ∈ U) (hp : x.parent = q.id) :
    Chain U c x := by
  induction h with
  | refl hq => exact .step hq hx hp (.refl hx)
  | step hc ha hpar _ ih => exact .step hc ha hpar (ih hp)

theorem Chain.mono {U U' : List KMnt} (hs : ∀ m ∈ U, m ∈ U') {c x : KMnt} (h : Chain U c x) : Chain U' c x := by
  induction h with
  | refl hx => exact .refl (hs _ hx)
  | step hc ha hpar _ ih => exact .step (hs _ hc) (hs _ ha) hpar ih

/-- along a chain the mountpoints nest -/
theorem Chain.under {U : List KMnt} (ht : Tree U) {c x : KMnt} (h : Chain U c x) : pathUnder c.mp x.mp = true := by
  induction h with
  | refl _ => exact pathUnder_refl _
  | step hc ha hpar _ ih => exact pathUnder_trans (ht.under _ ha _ hc hpar) ih

/-- every entry hangs below a root -/
theorem exists_root {U : List KMnt} (ht : Tree U) : ∀ x ∈ U, ∃ r ∈ U, isRootIn U r = true ∧ Chain U r x := by
  have key : ∀ (rev suf : List KMnt), U = rev.reverse ++ suf →
      ∀ x ∈ rev, ∃ r ∈ U, isRootIn U r = true ∧ Chain U r x := by
    intro rev
    induction rev with
    | nil => intro _ _ x hx; cases hx
    | cons y rev' ih =>
      intro suf he x hx
      have he' : U = rev'.reverse ++ (y :: suf) := by rw [he]; simp
      rcases List.mem_cons.mp hx with hxy | hx'
      · subst hxy
        have hxU : x ∈ U := by rw [he']; simp
        cases hr : isRootIn U x with
        | true => exact ⟨x, hxU, hr, .refl hxU⟩
        | false =>
          obtain ⟨q, hq, hqid, hqne⟩ := isRootIn_false hr
          -- the parent is listed before x
          have hqrev : q ∈ rev' := by
            rw [he'] at hq
            rcases List.mem_append.mp hq with hq | hq
            · exact List.mem_reverse.mp hq
            · rcases List.mem_cons.mp hq with hq | hq
              · subst hq; exact absurd rfl hqne
              · exfalso
                have hpf := ht.parentFirst
                rw [he', List.pairwise_append] at hpf
                exact (List.pairwise_cons.mp hpf.2.1).1 q hq hqid.symm
          obtain ⟨r, hr1, hr2, hr3⟩ := ih (x :: suf) he' q hqrev
          exact ⟨r, hr1, hr2, hr3.snoc hxU hqid.symm⟩
      · exact ih (y :: suf) he' x hx'
  intro x hx
  exact key U.reverse [] (by simp) x (List.mem_reverse.mpr hx)

/-! ### what blocks a mount, and the step of the lookup -/

/-- a lookup coming from their common parent enters `k`, not `a` -/
def Blocks (k a : KMnt) : Prop := k ≠ a ∧ k.parent = a.parent ∧ pathUnder k.mp a.mp = true

theorem getLast?_of_all_eq {α} {l : List α} {a : α} (hne : l ≠ []) (h : ∀ x ∈ l, x = a) : l.getLast? = some a := by
  cases hl : l.getLast? with
  | none => exact absurd (List.getLast?_eq_none_iff.mp hl) hne
  | some b => rw [h b (List.mem_of_getLast? hl)]

/-- the fold that picks the shortest mountpoint: `a` is in the list and everything else in it
    is strictly longer -/
theorem shortest_fold (a : KMnt) : ∀ (l : List KMnt) (best : Option KMnt),
    (∀ k ∈ l, k = a ∨ a.mp.length < k.mp.length) →
    (a ∈ l ∨ best = some a) → (∀ b, best = some b → b = a ∨ a.mp.length < b.mp.length) →
    l.foldl (fun best k =>
      match best with
      | none => some k
      | some b => if k.mp.length ≤ b.mp.length then some k else some b) best = some a := by
  intro l
  induction l with
  | nil =>
    intro best _ hmem _
    rcases hmem with h | h
    · cases h
    · exact h
  | cons x xs ih =>
    intro best hall hmem hbest
    rw [List.foldl_cons]
    have hx := hall x (by simp)
    apply ih _ (fun k hk => hall k (by simp [hk]))
    · -- `a` is still to come, or is the best so far
      rcases hmem with h | h
      · rcases List.mem_cons.mp h with h | h
        · right
          subst h
          cases best with
          | none => rfl
          | some b =>
            simp only
            rcases hbest b rfl with hb | hb
            · subst hb; simp
            · have : a.mp.length ≤ b.mp.length := by omega
              simp [this]
        · exact .inl h
      · right
        subst h
        simp only
        rcases hx with hx | hx
        · subst hx; simp
        · have : ¬ x.mp.length ≤ a.mp.length := by omega
          simp [this]
    · intro b hb
      cases best with
      | none =>
        simp only at hb
        cases hb
        exact hx
      | some b0 =>
        simp only at hb
        split at hb
        · cases hb; exact hx
        · cases hb; exact hbest _ rfl

/-- **the step goes to the child on the chain** when no entry blocks that child -/
theorem stepFrom_chain {mnts : List KMnt} (ht : Tree mnts) {c a : KMnt} {p : Bytes} (hc : c ∈ mnts)
    (ha : a ∈ mnts) (hpar : a.parent = c.id) (hap : pathUnder a.mp p = true)
    (hnb : ∀ k ∈ mnts, ¬ Blocks k a) : stepFrom mnts c p = some a := by
  have hne : a.id ≠ c.id := by rw [← hpar]; exact fun e => ht.noSelf a ha e.symm
  have hua : pathUnder c.mp a.mp = true := ht.under a ha c hc hpar
  unfold stepFrom
  simp only
  have hakid : a ∈ mnts.filter (fun k => k.parent == c.id && k.id != c.id) :=
    List.mem_filter.mpr ⟨ha, by simp [hpar, hne]⟩
  -- any other child of c with a mountpoint at or above a's blocks a
  have hother : ∀ k ∈ mnts.filter (fun k => k.parent == c.id && k.id != c.id),
      pathUnder k.mp a.mp = true → k = a := by
    intro k hk hu
    have hk' := List.mem_filter.mp hk
    simp only [Bool.and_eq_true, beq_iff_eq, bne_iff_ne, ne_eq] at hk'
    apply Classical.byContradiction
    intro hka
    exact hnb k hk'.1 ⟨hka, by rw [hk'.2.1, hpar], hu⟩
  by_cases hmp : a.mp = c.mp
  · -- stacked on c's root: the only stacked child
    have hlast : ((mnts.filter (fun k => k.parent == c.id && k.id != c.id)).filter (·.mp == c.mp)).getLast? = some a := by
      apply getLast?_of_all_eq
      · exact List.ne_nil_of_mem (List.mem_filter.mpr ⟨hakid, by simp [hmp]⟩)
      · intro k hk
        have hk' := List.mem_filter.mp hk
        have hkmp : k.mp = c.mp := by simpa using hk'.2
        exact hother k hk'.1 (by rw [hkmp, ← hmp]; exact pathUnder_refl _)
    rw [hlast]
  · have hnone : ((mnts.filter (fun k => k.parent == c.id && k.id != c.id)).filter (·.mp == c.mp)).getLast? = none := by
      apply List.getLast?_eq_none_iff.mpr
      apply List.filter_eq_nil_iff.mpr
      intro k hk hkmp
      have hkmp' : k.mp = c.mp := by simpa using hkmp
      have := hother k hk (by rw [hkmp']; exact hua)
      rw [this] at hkmp'
      exact hmp hkmp'
    rw [hnone]
    simp only
    apply shortest_fold a _ none
    · intro k hk
      have hk' := List.mem_filter.mp hk
      simp only [Bool.and_eq_true] at hk'
      by_cases hka : k = a
      · exact .inl hka
      · right
        -- both contain p: nested; k at/above a is excluded, so k is strictly below a
        rcases pathUnder_comparable hk'.2.2 hap with h | h
        · exact absurd (hother k hk'.1 h) hka
        · have hle := pathUnder_length h
          rcases Nat.lt_or_ge a.mp.length k.mp.length with hlt | hge
          · exact hlt
          · exfalso
            have : a.mp = k.mp := pathUnder_eq_of_length h hge
            exact hka (hother k hk'.1 (by rw [this]; exact pathUnder_refl _))
    · exact .inl (List.mem_filter.mpr ⟨hakid, by simp [hua, hap]⟩)
    · intro b hb; cases hb

/-- a childless mount: the lookup stops -/
theorem stepFrom_leaf {mnts : List KMnt} {x : KMnt} {p : Bytes}
    (hleaf : ∀ c ∈ mnts, c.parent ≠ x.id) : stepFrom mnts x p = none := by
  cases hs : stepFrom mnts x p with
  | none => rfl
  | some k =>
    obtain ⟨hk, hpar, _, _⟩ := stepFrom_spec hs
    exact absurd hpar (hleaf k hk)

/-- the walk follows the chain down to `x` -/
theorem walk_chain {mnts : List KMnt} (ht : Tree mnts) {x : KMnt}
    (hleaf : ∀ c ∈ mnts, c.parent ≠ x.id)
    (hnb : ∀ a, Chain mnts a x → ∀ k ∈ mnts, ¬ Blocks k a) :
    ∀ (fuel : Nat) (c : KMnt) (pre suf : List KMnt), mnts = pre ++ c :: suf → suf.length ≤ fuel →
      Chain mnts c x → walk mnts x.mp fuel c = x := by
  intro fuel
  induction fuel with
  | zero =>
    intro c pre suf he hlen hch
    cases hch with
    | refl _ => rfl
    | step hc ha hpar hrest =>
      -- a child is listed after its parent: impossible with nothing after c
      rename_i a
      exfalso
      have hsuf : suf = [] := List.eq_nil_of_length_eq_zero (by omega)
      subst hsuf
      rw [he] at ha
      rcases List.mem_append.mp ha with h | h
      · have hpf := ht.parentFirst
        rw [he, List.pairwise_append] at hpf
        exact hpf.2.2 a h c (by simp) hpar
      · have : a = c := by simpa using h
        subst this
        exact ht.noSelf a hc hpar
  | succ f ih =>
    intro c pre suf he hlen hch
    unfold walk
    cases hch with
    | refl _ => rw [stepFrom_leaf hleaf]
    | step hc ha hpar hrest =>
      rename_i a
      have hstep := stepFrom_chain ht hc ha hpar (hrest.under ht) (hnb a hrest)
      rw [hstep]
      simp only
      -- a is listed after c
      have hasuf : a ∈ suf := by
        rw [he] at ha
        rcases List.mem_append.mp ha with h | h
        · exfalso
          have hpf := ht.parentFirst
          rw [he, List.pairwise_append] at hpf
          exact hpf.2.2 a h c (by simp) hpar
        · rcases List.mem_cons.mp h with h | h
          · subst h; exact absurd hpar (ht.noSelf a hc)
          · exact h
      obtain ⟨s1, s2, hs⟩ := List.append_of_mem hasuf
      apply ih a (pre ++ c :: s1) s2 (by rw [he, hs]; simp) ?_ hrest
      rw [hs] at hlen
      simp at hlen
      omega

/-- the only root that contains `p` -/
theorem fcFold_unique (p : Bytes) (r : KMnt) : ∀ (l : List KMnt) (best : Option KMnt),
    (∀ y ∈ l, pathUnder y.mp p = true → y = r) → (best = none ∨ best = some r) →
    (r ∈ l ∧ pathUnder r.mp p = true ∨ best = some r) → fcFold p best l = some r := by
  intro l
  induction l with
  | nil =>
    intro best _ _ h
    rcases h with ⟨h, _⟩ | h
    · cases h
    · exact h
  | cons y ys ih =>
    intro best hall hb hmem
    unfold fcFold
    rw [List.foldl_cons]
    by_cases hy : pathUnder y.mp p = true
    · have hyr : y = r := hall y (by simp) hy
      subst hyr
      simp only [hy, if_true]
      apply ih _ (fun z hz => hall z (by simp [hz]))
      · right
        rcases hb with hb | hb
        · rw [hb]
        · rw [hb]; simp
      · right
        rcases hb with hb | hb
        · rw [hb]
        · rw [hb]; simp
    · simp only [hy, Bool.false_eq_true, if_false]
      apply ih _ (fun z hz => hall z (by simp [hz])) hb
      rcases hmem with ⟨h1, h2⟩ | h
      · rcases List.mem_cons.mp h1 with h1 | h1
        · subst h1; exact absurd h2 hy
        · exact .inl ⟨h1, h2⟩
      · exact .inr h

/-- **the lookup of an unblocked leaf ends on it**: strict tree, `x` has no child, and no entry
    blocks `x` or an entry `x` hangs below -/
theorem mountedAt_unblocked {mnts : List KMnt} (ht : TreeS mnts) {x : KMnt} (hx : x ∈ mnts)
    (hleaf : ∀ c ∈ mnts, c.parent ≠ x.id)
    (hnb : ∀ a, Chain mnts a x → ∀ k ∈ mnts, ¬ Blocks k a) : mountedAt mnts x.mp = some x := by
  obtain ⟨r, hr, hroot, hch⟩ := exists_root ht.toTree x hx
  have hrp : pathUnder r.mp x.mp = true := hch.under ht.toTree
  have hstart : startOf mnts x.mp = some r := by
    unfold startOf
    rw [findContaining_eq]
    apply fcFold_unique x.mp r _ none _ (.inl rfl) (.inl ⟨List.mem_filter.mpr ⟨hr, hroot⟩, hrp⟩)
    intro y hy hyp
    obtain ⟨hym, hyroot⟩ := List.mem_filter.mp hy
    apply Classical.byContradiction
    intro hne
    rcases pathUnder_comparable hyp hrp with h | h
    · rw [ht.rootsApart y hym r hr hne hyroot hroot] at h; cases h
    · rw [ht.rootsApart r hr y hym (fun e => hne e.symm) hroot hyroot] at h; cases h
  obtain ⟨pre, suf, he⟩ := List.append_of_mem hr
  have hwalk := walk_chain ht.toTree hleaf hnb mnts.length r pre suf he (by rw [he]; simp; omega) hch
  unfold mountedAt resolve
  rw [hstart]
  simp only [hwalk, beq_self_eq_true, if_true]

/-! ### removing a leaf, the closed region -/

theorem TreeS.remove_leaf {a b : List KMnt} {m : KMnt} (h : TreeS (a ++ m :: b))
    (hleaf : ∀ c ∈ a ++ m :: b, c.parent ≠ m.id) : TreeS (a ++ b) := by
  have hs : (a ++ b).Sublist (a ++ m :: b) :=
    List.Sublist.append (List.Sublist.refl a) (List.sublist_cons_self m b)
  have hroot : ∀ z ∈ a ++ b, isRootIn (a ++ b) z = true → isRootIn (a ++ m :: b) z = true := by
    intro z hz hr
    cases hr2 : isRootIn (a ++ m :: b) z with
    | true => rfl
    | false =>
      exfalso
      obtain ⟨q, hq, hqid, hqne⟩ := isRootIn_false hr2
      have hqm : q = m ∨ q ∈ a ++ b := by
        rcases List.mem_append.mp hq with hq | hq
        · exact .inr (List.mem_append_left _ hq)
        · rcases List.mem_cons.mp hq with hq | hq
          · exact .inl hq
          · exact .inr (List.mem_append_right _ hq)
      rcases hqm with hqm | hqm
      · subst hqm
        exact hleaf z (hs.subset hz) hqid.symm
      · exact hqne (isRootIn_true hr q hqm hqid)
  exact { toTree := KWF.sublist hs h.toTree
          noTwins := fun x hx y hy => h.noTwins x (hs.subset hx) y (hs.subset hy)
          rootsApart := fun x hx y hy hne hrx hry =>
            h.rootsApart x (hs.subset hx) y (hs.subset hy) hne (hroot x hx hrx) (hroot y hy hry) }

/-- **the region at/below `bp` is closed**: an entry that blocks an entry of the region, or an
    entry on the way to it (mountpoint above `bp`), lies in the region itself — nothing mounted
    outside the region covers it -/
def ClosedRegion (mnts : List KMnt) (bp : Bytes) : Prop :=
  ∀ k ∈ mnts, ∀ a ∈ mnts, k ≠ a → k.parent = a.parent → pathUnder k.mp a.mp = true →
    (atOrBelow bp a.mp = true ∨ pathUnder a.mp bp = true) → atOrBelow bp k.mp = true

instance (mnts : List KMnt) (bp : Bytes) : Decidable (ClosedRegion mnts bp) := by
  unfold ClosedRegion; exact inferInstance

theorem ClosedRegion.sublist {l l' : List KMnt} {bp : Bytes} (hs : l'.Sublist l) (h : ClosedRegion l bp) :
    ClosedRegion l' bp :=
  fun k hk a ha => h k (hs.subset hk) a (hs.subset ha)

theorem atOrBelow_eq_pathUnder {bp : Bytes} (hbp : bp ≠ [47]) (q : Bytes) : atOrBelow bp q = pathUnder bp q := by
  unfold atOrBelow pathUnder
  have : (bp == [47]) = false := by simpa using hbp
  rw [this]
  rfl

/-- `v` blocks `u` or an entry `u` hangs below -/
def UB (U : List KMnt) (v u : KMnt) : Prop := ∃ a, Blocks v a ∧ Chain U a u

/-- **unmounting a closed region along the mount tree is never refused**: the entries `F` of
    the region at/below `bp`, in an order in which (O1) no entry is unmounted before an entry
    hanging below it, (O2) no entry is unmounted before an entry that blocks it or an entry it
    hangs below; every `kumount` succeeds under path resolution -/
theorem kumountSeq_tree (U : List KMnt) (bp : Bytes) (hbp : bp ≠ [47]) : ∀ (F : List KMnt) (t : KTable),
    TreeS t.mnts → (∀ m ∈ t.mnts, m ∈ U) → ClosedRegion t.mnts bp →
    F.Perm (t.mnts.filter (fun m => atOrBelow bp m.mp)) →
    F.Pairwise (fun u v => u.id ≠ v.parent) →
    F.Pairwise (fun u v => ¬ UB U v u) →
    (kumountSeq t (F.map (·.mp))).2.2 = none := by
  intro F
  induction F with
  | nil => intro t _ _ _ _ _ _; rfl
  | cons x F' ih =>
    intro t ht hU hcl hperm ho1 ho2
    have hxreg : x ∈ t.mnts.filter (fun m => atOrBelow bp m.mp) := hperm.mem_iff.mp (by simp)
    obtain ⟨hx, hxr⟩ := List.mem_filter.mp hxreg
    have hxr' : pathUnder bp x.mp = true := by rw [← atOrBelow_eq_pathUnder hbp]; exact hxr
    have hinF : ∀ k ∈ t.mnts, atOrBelow bp k.mp = true → k = x ∨ k ∈ F' := by
      intro k hk hkr
      have : k ∈ x :: F' := hperm.mem_iff.mpr (List.mem_filter.mpr ⟨hk, hkr⟩)
      exact List.mem_cons.mp this
    -- x has no child left
    have hleaf : ∀ c ∈ t.mnts, c.parent ≠ x.id := by
      intro c hc hpar
      have hcu : pathUnder x.mp c.mp = true := ht.under c hc x hx hpar
      have hcr : atOrBelow bp c.mp = true := by
        rw [atOrBelow_eq_pathUnder hbp]; exact pathUnder_trans hxr' hcu
      rcases hinF c hc hcr with h | h
      · subst h; exact ht.noSelf c hc hpar
      · exact (List.pairwise_cons.mp ho1).1 c h hpar.symm
    -- nothing left blocks x or an entry it hangs below
    have hnb : ∀ a, Chain t.mnts a x → ∀ k ∈ t.mnts, ¬ Blocks k a := by
      intro a hch k hk hbl
      obtain ⟨hne, hpar, hu⟩ := hbl
      have ha := hch.mem_left
      have hax : pathUnder a.mp x.mp = true := hch.under ht.toTree
      by_cases hkr : atOrBelow bp k.mp = true
      · rcases hinF k hk hkr with h | h
        · -- x itself at/above an entry it hangs below: same mountpoint, a twin
          subst h
          have : k.mp = a.mp := pathUnder_antisymm hu hax
          exact ht.noTwins k hk a ha hne hpar this
        · exact (List.pairwise_cons.mp ho2).1 k h ⟨a, ⟨hne, hpar, hu⟩, hch.mono hU⟩
      · apply hkr
        apply hcl k hk a ha hne hpar hu
        rcases pathUnder_comparable hax hxr' with h | h
        · exact .inr h
        · exact .inl (by rw [atOrBelow_eq_pathUnder hbp]; exact h)
    have hm := mountedAt_unblocked ht hx hleaf hnb
    -- the call succeeds and takes x out
    obtain ⟨a, b, he⟩ := List.append_of_mem hx
    have hany : t.mnts.any (fun c => c.parent == x.id) = false := by
      apply List.any_eq_false.mpr
      intro c hc hpar
      exact hleaf c hc (by simpa using hpar)
    have hk : kumount t x.mp = .ok { t with mnts := a ++ b } := by
      unfold kumount
      rw [hm]
      simp only [hany, Bool.false_eq_true, if_false]
      congr 2
      rw [he]
      exact filter_id_ne (by rw [← he]; exact ht.ids)
    show (kumountSeq t (x.mp :: F'.map (·.mp))).2.2 = none
    unfold kumountSeq
    rw [hk]
    show (kumountSeq { t with mnts := a ++ b } (F'.map (·.mp))).2.2 = none
    have hs : (a ++ b).Sublist t.mnts := by
      rw [he]; exact List.Sublist.append (List.Sublist.refl a) (List.sublist_cons_self x b)
    apply ih { t with mnts := a ++ b }
    · show TreeS (a ++ b)
      rw [he] at ht hleaf
      exact ht.remove_leaf hleaf
    · intro m hm'; exact hU m (hs.subset hm')
    · exact hcl.sublist hs
    · show F'.Perm ((a ++ b).filter (fun m => atOrBelow bp m.mp))
      have h0 : (x :: F').Perm (x :: (a ++ b).filter (fun m => atOrBelow bp m.mp)) := by
        refine hperm.trans ?_
        rw [he]
        simp only [List.filter_append, List.filter_cons, hxr, if_true]
        exact List.perm_middle
      exact List.Perm.cons_inv h0
    · exact (List.pairwise_cons.mp ho1).2
    · exact (List.pairwise_cons.mp ho2).2

/-! ### `TreeS` is what the kernel model keeps: `addMount` on a path inside some root mount (every
    absolute path, when the table has a mount on "/"), and every successful `kumount` -/

theorem isRootIn_snoc_old {T : List KMnt} {e x : KMnt} (hx : x.parent ≠ e.id) :
    isRootIn (T ++ [e]) x = isRootIn T x := by
  unfold isRootIn
  rw [List.any_append]
  have : ([e].any fun y => y.id == x.parent && y.id != x.id) = false := by
    simp only [List.any_cons, List.any_nil, Bool.or_false, Bool.and_eq_false_imp, beq_iff_eq]
    intro h; exact absurd h.symm hx
  rw [this, Bool.or_false]

/-- `addMount` keeps the strict tree discipline: the new entry hangs below the mount the lookup of
    its path ends in, and `Terminal` says nothing below that mount is on the way to the path —
    in particular nothing below it sits on the very same mountpoint (no twins) -/
theorem addMount_treeS (t : KTable) (m : KMnt) (h : KTWF t) (hs : TreeS t.mnts)
    (hroot : ∃ r ∈ t.mnts, isRootIn t.mnts r = true ∧ pathUnder r.mp m.mp = true) :
    TreeS (addMount t m).mnts := by
  have hk := addMount_KTWF t m h
  rw [addMount_eq] at hk ⊢
  generalize hedef : ({ m with id := t.nextId, parent := parentId t m.mp } : KMnt) = e at hk ⊢
  have heid : e.id = t.nextId := by rw [← hedef]
  have hemp : e.mp = m.mp := by rw [← hedef]
  have hepar : e.parent = parentId t m.mp := by rw [← hedef]
  obtain ⟨p, hres⟩ : ∃ p, resolve t.mnts m.mp = some p := by
    cases hr : resolve t.mnts m.mp with
    | some p => exact ⟨p, rfl⟩
    | none =>
      obtain ⟨r, hr1, hr2, hr3⟩ := hroot
      have := resolve_none hr r hr1 hr2
      rw [hr3] at this; cases this
  have hpm : p ∈ t.mnts := resolve_mem hres
  have hepar' : e.parent = p.id := by rw [hepar]; unfold parentId; rw [hres]
  have hne : ∀ a ∈ t.mnts, a ≠ e := by
    intro a ha hae
    have := (h.idLt a ha).2
    rw [hae, heid] at this; exact Nat.lt_irrefl _ this
  have holdpar : ∀ x ∈ t.mnts, x.parent ≠ e.id := by
    intro x hx hxe
    have := h.parLt x hx
    rw [hxe, heid] at this; exact Nat.lt_irrefl _ this
  have henotroot : isRootIn (t.mnts ++ [e]) e = false := by
    unfold isRootIn
    have : ((t.mnts ++ [e]).any fun x => x.id == e.parent && x.id != e.id) = true := by
      apply List.any_eq_true.mpr
      refine ⟨p, List.mem_append_left _ hpm, ?_⟩
      simp only [Bool.and_eq_true, beq_iff_eq, bne_iff_ne, ne_eq]
      refine ⟨hepar'.symm, ?_⟩
      rw [heid]
      exact Nat.ne_of_lt (h.idLt p hpm).2
    rw [this]; rfl
  have hterm := resolve_terminal hs.toTree hres
  have htw : ∀ a ∈ t.mnts, a.parent = e.parent → a.mp ≠ e.mp := by
    intro a ha hpar hmp
    rw [hepar'] at hpar
    have hid : a.id ≠ p.id := fun hh => hs.noSelf a ha (hpar.trans hh.symm)
    have := hterm a ha hpar hid
    rw [hmp, hemp, pathUnder_refl] at this; cases this
  refine { toTree := hk.wf, noTwins := ?_, rootsApart := ?_ }
  · intro a ha b hb hab hpar
    show a.mp ≠ b.mp
    rcases List.mem_append.mp ha with ha1 | ha1 <;> rcases List.mem_append.mp hb with hb1 | hb1
    · exact hs.noTwins a ha1 b hb1 hab hpar
    · rw [List.mem_singleton.mp hb1] at hpar ⊢
      exact htw a ha1 hpar
    · rw [List.mem_singleton.mp ha1] at hpar ⊢
      exact fun hh => htw b hb1 hpar.symm hh.symm
    · rw [List.mem_singleton.mp ha1, List.mem_singleton.mp hb1] at hab
      exact absurd rfl hab
  · intro a ha b hb hab hra hrb
    show pathUnder a.mp b.mp = false
    rcases List.mem_append.mp ha with ha1 | ha1
    · rcases List.mem_append.mp hb with hb1 | hb1
      · rw [isRootIn_snoc_old (holdpar a ha1)] at hra
        rw [isRootIn_snoc_old (holdpar b hb1)] at hrb
        exact hs.rootsApart a ha1 b hb1 hab hra hrb
      · rw [List.mem_singleton.mp hb1, henotroot] at hrb; cases hrb
    · rw [List.mem_singleton.mp ha1, henotroot] at hra; cases hra

/-- a successful `kumount` keeps the strict tree discipline -/
theorem kumount_treeS {t t' : KTable} {p : Bytes} (hs : TreeS t.mnts) (hk : kumount t p = .ok t') :
    TreeS t'.mnts := by
  obtain ⟨a, m, b, he, _, _, hleaf, ht'⟩ := kumount_ok hk
  rw [ht']
  show TreeS (t.mnts.filter (·.id != m.id))
  have hids := hs.ids
  rw [he] at hids hleaf hs ⊢
  rw [filter_id_ne hids]
  exact hs.remove_leaf hleaf

end Lc.TreeUmount
