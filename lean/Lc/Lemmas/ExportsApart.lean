/-
  `ExportsApart cfg`: a decidable condition on the configuration (exportdirs, exportBinPkg,
  exportGenerated, layerdirs) under which no automatic export link
  `<exportdirs>/<exportBinPkg|exportGenerated>/<name>` of a legal layer name lies at, above or
  below a layer directory `<layerdirs>/<name'>` or `<layerdirs>/<name'>~removed`.

  With `L` = what precedes the name in a link path and `D` = what precedes the name in a layer
  directory (both computed by `path.Join` with a probe name, so `..`, empty components, `//`,
  relative and absolute values are all covered), the condition is
    * `L ≠ D` (else the link of `n` IS the layer directory `n`);
    * if `D = L ++ c` (links live above the layer directories): the first component of `c` is not
      a legal layer name (else the link of the layer so named is an ancestor of EVERY layer);
    * if `L = D ++ c` (links live inside `<layerdirs>`): the first component of `c` is neither a
      legal layer name nor one followed by `~removed` (else the links live inside that layer).
  This is the exact boundary for the statement `exportsApart_hexp` over all legal names; the
  examples in Props/C09 show the per-path side condition failing in each excluded case.

  Helper lemmas for Props/C09, C11, C16.  Core Lean only.
-/
import Lc.Lemmas.LayerPaths
import Lc.Lemmas.FsMove
import Lc.Lemmas.RemoveLayer
import Lc.Lemmas.ExportLinks
import Lc.Lemmas.RunM

namespace Lc.ExportsApart
open Lc Lc.Layers Lc.Lemmas.Path Lc.ExportPath Lc.FsRename Lc.LayerPaths Lc.FsMove Lc.Lemmas.WriteLF

/-! ### the prefixes -/

/-- a clean probe name ("x") -/
def probe : Bytes := [120]

theorem probe_clean : CleanName probe := by
  refine ⟨⟨by decide, by decide, by decide⟩, by decide⟩

/-- what precedes the layer name in the automatic export links below `<exportdirs>/<sub>` -/
def linkPrefix (cfg : Config) (sub : Bytes) : Bytes := (pathJoin [cfg.exportdirs, sub, probe]).dropLast

/-- what precedes the layer name in a layer directory -/
def layerPrefix (cfg : Config) : Bytes := (layerPath cfg probe).dropLast

/-- empty, or ending in a slash -/
def Shape (B : Bytes) : Prop := B = [] ∨ ∃ B', B = B' ++ [47]

/-- `pathClean_prefix` (Lemmas/ExportPath) with the shape of the head -/
theorem pathClean_prefix_shape (X : Bytes) : ∃ B : Bytes, Shape B ∧ ∀ cs : List Bytes, cs ≠ [] →
    (∀ c ∈ cs, CleanName c) → pathClean (X ++ SLASH :: joinWith SLASH cs) = B ++ joinWith SLASH cs := by
  let r := isAbs (X ++ [SLASH])
  let st := (pathComps X).foldl (cleanStep r) []
  refine ⟨(if r then [SLASH] else []) ++ (if st.reverse = [] then [] else joinWith SLASH st.reverse ++ [SLASH]),
    ?_, ?_⟩
  · by_cases hs : st.reverse = []
    · simp only [hs, if_true, List.append_nil]
      cases r
      · left; rfl
      · right; exact ⟨[], rfl⟩
    · right
      simp only [hs, if_false]
      exact ⟨(if r then [SLASH] else []) ++ joinWith SLASH st.reverse, by simp [SLASH]⟩
  · intro cs hne hcs
    have hgood : ∀ c ∈ cs, Good c := fun c hc => (hcs c hc).1
    rw [pathClean_eq_assemble, isAbs_append_sep, pathComps_append_sep, pathComps_join cs hne hgood,
      List.foldl_append, foldl_push r cs (clean_no_dotdot cs hcs)]
    show assemble r (cs.reverse ++ st) = _
    unfold assemble
    have hbody : joinWith SLASH (cs.reverse ++ st).reverse =
        (if st.reverse = [] then [] else joinWith SLASH st.reverse ++ [SLASH]) ++ joinWith SLASH cs := by
      rw [List.reverse_append, List.reverse_reverse, joinWith_append SLASH st.reverse cs hne]
      split <;> simp
    rw [hbody]
    have hne2 : (if st.reverse = [] then [] else joinWith SLASH st.reverse ++ [SLASH]) ++ joinWith SLASH cs ≠ [] := by
      intro h
      exact joinWith_clean_ne_nil cs hne hcs (List.append_eq_nil_iff.mp h).2
    rw [assemble_out r _ hne2, List.append_assoc]

theorem single_clean (n : Bytes) (hn : CleanName n) : ∀ c ∈ [n], CleanName c := by
  intro c hc
  have : c = n := by simpa using hc
  exact this ▸ hn

/-- `path.Join(a, b, n)` = head ++ `n` with a head that is empty or ends in '/' -/
theorem pathJoin3_prefix_shape (a b : Bytes) : ∃ B : Bytes, Shape B ∧
    ∀ n, CleanName n → pathJoin [a, b, n] = B ++ n := by
  cases a with
  | nil =>
    cases b with
    | nil =>
      refine ⟨[], Or.inl rfl, fun n hn => ?_⟩
      obtain ⟨x, xs, rfl, _⟩ := clean_not_abs n hn
      have := pathClean_clean [x :: xs] (by simp) (single_clean _ hn)
      simpa [pathJoin, joinWith] using this
    | cons y ys =>
      obtain ⟨B, hs, hB⟩ := pathClean_prefix_shape (y :: ys)
      refine ⟨B, hs, fun n hn => ?_⟩
      obtain ⟨x, xs, rfl, _⟩ := clean_not_abs n hn
      have := hB [x :: xs] (by simp) (single_clean _ hn)
      simpa [pathJoin, joinWith] using this
  | cons z zs =>
    obtain ⟨B, hs, hB⟩ := pathClean_prefix_shape ((z :: zs) ++ SLASH :: b)
    refine ⟨B, hs, fun n hn => ?_⟩
    obtain ⟨x, xs, rfl, _⟩ := clean_not_abs n hn
    have := hB [x :: xs] (by simp) (single_clean _ hn)
    simpa [pathJoin, joinWith] using this

theorem dropLast_probe (B : Bytes) : (B ++ probe).dropLast = B := by
  unfold probe
  exact List.dropLast_concat

/-- the link prefix: shape, and every link path of a clean name -/
theorem linkPrefix_spec (cfg : Config) (sub : Bytes) :
    Shape (linkPrefix cfg sub) ∧
    ∀ n, CleanName n → pathJoin [cfg.exportdirs, sub, n] = linkPrefix cfg sub ++ n := by
  obtain ⟨B, hs, hB⟩ := pathJoin3_prefix_shape cfg.exportdirs sub
  have : linkPrefix cfg sub = B := by
    unfold linkPrefix
    rw [hB probe probe_clean, dropLast_probe]
  rw [this]
  exact ⟨hs, hB⟩

/-- the layer prefix: shape, every layer directory and layerconfig of a clean name -/
theorem layerPrefix_spec (cfg : Config) :
    Shape (layerPrefix cfg) ∧
    ∀ n, CleanName n → layerPath cfg n = layerPrefix cfg ++ n ∧
      pathJoin [layerPath cfg n, lcName] = layerPrefix cfg ++ (n ++ 47 :: lcName) := by
  obtain ⟨D, hD⟩ := layer_paths cfg
  obtain ⟨B, hs, hB⟩ := pathJoin3_prefix_shape [] cfg.layerdirs
  have h1 : layerPrefix cfg = D := by
    unfold layerPrefix
    rw [(hD probe probe_clean).1, dropLast_probe]
  have h2 : D = B := by
    have e1 := (hD probe probe_clean).1
    have e2 : layerPath cfg probe = B ++ probe := hB probe probe_clean
    rw [e1] at e2
    exact List.append_cancel_right e2
  rw [h1]
  exact ⟨h2 ▸ hs, hD⟩

/-! ### the condition -/

/-- a legal, non-empty layer name -/
def legalNE (a : Bytes) : Bool := !a.isEmpty && isLegalLayerName a

/-- a legal non-empty name, possibly followed by `~removed` -/
def layerDirName (a : Bytes) : Bool :=
  legalNE a ||
    (decide (removedSuffix.length ≤ a.length) && a.drop (a.length - removedSuffix.length) == removedSuffix
      && legalNE (a.take (a.length - removedSuffix.length)))

/-- the first path component of `c` -/
def firstComp (c : Bytes) : Bytes := c.takeWhile (· != 47)

def apart (L D : Bytes) : Bool :=
  if L == D then false
  else if hasPrefix D L then !legalNE (firstComp (D.drop L.length))
  else if hasPrefix L D then !layerDirName (firstComp (L.drop D.length))
  else true

/-- no automatic export link of a legal name lies at, above or below a layer directory or a
    `~removed` directory of a legal name (see the file header for the three clauses) -/
def ExportsApart (cfg : Config) : Prop :=
  apart (linkPrefix cfg cfg.exportBinPkg) (layerPrefix cfg) = true ∧
  apart (linkPrefix cfg cfg.exportGenerated) (layerPrefix cfg) = true

instance (cfg : Config) : Decidable (ExportsApart cfg) := by
  unfold ExportsApart; infer_instance

/-! ### facts about names -/

theorem legalNE_iff (a : Bytes) : legalNE a = true ↔ a ≠ [] ∧ isLegalLayerName a = true := by
  unfold legalNE
  cases a <;> simp

theorem legalNE_clean (a : Bytes) (h : legalNE a = true) : CleanName a :=
  legal_clean a ((legalNE_iff a).mp h).1 ((legalNE_iff a).mp h).2

theorem layerDirName_of_legal (a : Bytes) (h : legalNE a = true) : layerDirName a = true := by
  unfold layerDirName; simp [h]

theorem layerDirName_removed (a : Bytes) (h : legalNE a = true) :
    layerDirName (a ++ removedSuffix) = true := by
  unfold layerDirName
  have h1 : (a ++ removedSuffix).length - removedSuffix.length = a.length := by simp
  rw [h1, List.drop_left, List.take_left]
  simp [h]

theorem removedSuffix_noslash : (47 : Nat) ∉ removedSuffix := by decide

theorem layerDirName_noslash (a : Bytes) (h : layerDirName a = true) : (47 : Nat) ∉ a ∧ a ≠ [] := by
  unfold layerDirName at h
  rcases (Bool.or_eq_true _ _).mp h with h | h
  · have hc := legalNE_clean a h
    exact ⟨hc.1.2.2, hc.1.1⟩
  · simp only [Bool.and_eq_true, decide_eq_true_eq, beq_iff_eq] at h
    obtain ⟨⟨hlen, hdrop⟩, hleg⟩ := h
    have hc := legalNE_clean _ hleg
    have hsplit : a = a.take (a.length - removedSuffix.length) ++ removedSuffix := by
      conv => lhs; rw [← List.take_append_drop (a.length - removedSuffix.length) a]
      rw [hdrop]
    constructor
    · intro hm
      rw [hsplit] at hm
      rcases List.mem_append.mp hm with h1 | h1
      · exact hc.1.2.2 h1
      · exact removedSuffix_noslash h1
    · intro e
      rw [e] at hlen
      simp [removedSuffix] at hlen

/-- a non-empty suffix of a string of shape `…/` contains a slash: split at the first one -/
theorem firstComp_split (c : Bytes) (h : (47 : Nat) ∈ c) :
    ∃ rest, c = firstComp c ++ 47 :: rest ∧ (47 : Nat) ∉ firstComp c := by
  unfold firstComp
  induction c with
  | nil => cases h
  | cons x xs ih =>
    by_cases hx : x = 47
    · subst hx
      exact ⟨xs, by simp [List.takeWhile], by simp [List.takeWhile]⟩
    · have hm : (47 : Nat) ∈ xs := by
        rcases List.mem_cons.mp h with e | e
        · exact absurd e.symm hx
        · exact e
      obtain ⟨rest, h1, h2⟩ := ih hm
      have hb : (x != 47) = true := by simpa using hx
      refine ⟨rest, ?_, ?_⟩
      · rw [List.takeWhile_cons, hb]
        simp only [if_true, List.cons_append]
        rw [← h1]
      · rw [List.takeWhile_cons, hb]
        simp only [if_true]
        intro hm2
        rcases List.mem_cons.mp hm2 with e | e
        · exact hx e.symm
        · exact h2 e

theorem suffix_has_slash (B D c : Bytes) (hB : Shape B) (h : B = D ++ c) (hc : c ≠ []) : (47 : Nat) ∈ c := by
  rcases hB with e | ⟨B', e⟩
  · rw [e] at h
    have := (List.append_eq_nil_iff.mp h.symm).2
    exact absurd this hc
  · rw [e] at h
    have hl := congrArg List.getLast? h
    rw [List.getLast?_append, List.getLast?_append] at hl
    cases hcl : c.getLast? with
    | none =>
      have : c = [] := List.getLast?_eq_none_iff.mp hcl
      exact absurd this hc
    | some x =>
      rw [hcl] at hl
      simp at hl
      subst hl
      exact List.mem_of_getLast? hcl

theorem hasPrefix_self_append (p r : Bytes) : hasPrefix (p ++ r) p = true :=
  (Lc.Lemmas.FsWrite.hasPrefix_iff _ _).mpr ⟨r, rfl⟩

theorem hasPrefix_longer_false (p r : Bytes) (hr : r ≠ []) : hasPrefix p (p ++ r) = false := by
  cases h : hasPrefix p (p ++ r) with
  | false => rfl
  | true =>
    obtain ⟨t, ht⟩ := (Lc.Lemmas.FsWrite.hasPrefix_iff _ _).mp h
    have hlen := congrArg List.length ht
    cases r with
    | nil => exact absurd rfl hr
    | cons x xs => simp at hlen

/-! ### the core: the two kinds of path never share a component boundary -/

/-- `D/N/…` is never `L/n/…` when `L`, `D` are apart (`n` a legal name, `N` a legal name or one
    followed by `~removed`, `T`, `T'` empty or starting with '/') -/
theorem apart_core (L D : Bytes) (hL : Shape L) (hD : Shape D) (h : apart L D = true)
    (n N T T' : Bytes) (hn : legalNE n = true) (hN : layerDirName N = true) (hT : Tail T) (hT' : Tail T') :
    D ++ (N ++ T') ≠ L ++ (n ++ T) := by
  intro he
  have hnc := legalNE_clean n hn
  have hns : (47 : Nat) ∉ n := hnc.1.2.2
  obtain ⟨hNs, _⟩ := layerDirName_noslash N hN
  have hne : (L == D) = false := by
    cases hb : L == D with
    | false => rfl
    | true => unfold apart at h; simp [hb] at h
  have hne' : L ≠ D := by simpa using hne
  rcases List.append_eq_append_iff.mp he with ⟨c, hLc, hr⟩ | ⟨c, hDc, hr⟩
  · -- L = D ++ c, N ++ T' = c ++ (n ++ T)
    have hc : c ≠ [] := fun e => hne' (by rw [hLc, e, List.append_nil])
    have hp1 : hasPrefix D L = false := by rw [hLc]; exact hasPrefix_longer_false D c hc
    have hp2 : hasPrefix L D = true := by rw [hLc]; exact hasPrefix_self_append D c
    have hd : L.drop D.length = c := by rw [hLc, List.drop_left]
    unfold apart at h
    simp only [hne, hp1, hp2, Bool.false_eq_true, if_false, if_true, hd] at h
    obtain ⟨rest, hsplit, hfs⟩ := firstComp_split c (suffix_has_slash L D c hL hLc hc)
    rw [hsplit, List.append_assoc] at hr
    have hr' : N ++ T' = firstComp c ++ 47 :: (rest ++ (n ++ T)) := by simpa using hr
    have := no_slash_tail_inj N (firstComp c) T' _ hNs hfs hT' (tail_slash _) hr'
    rw [← this, hN] at h
    cases h
  · -- D = L ++ c, n ++ T = c ++ (N ++ T')
    have hc : c ≠ [] := fun e => hne' (by rw [hDc, e, List.append_nil])
    have hp1 : hasPrefix D L = true := by rw [hDc]; exact hasPrefix_self_append L c
    have hd : D.drop L.length = c := by rw [hDc, List.drop_left]
    unfold apart at h
    simp only [hne, hp1, Bool.false_eq_true, if_false, if_true, hd] at h
    obtain ⟨rest, hsplit, hfs⟩ := firstComp_split c (suffix_has_slash D L c hD hDc hc)
    rw [hsplit, List.append_assoc] at hr
    have hr' : n ++ T = firstComp c ++ 47 :: (rest ++ (N ++ T')) := by simpa using hr
    have := no_slash_tail_inj n (firstComp c) T _ hns hfs hT (tail_slash _) hr'
    rw [← this, hn] at h
    cases h

theorem name_ne_root (D N : Bytes) (hs : (47 : Nat) ∉ N) (hne : N ≠ []) : D ++ N ≠ [47] := by
  cases N with
  | nil => exact absurd rfl hne
  | cons x xs =>
    have hx : x ≠ 47 := fun e => hs (by simp [e])
    cases D with
    | nil => intro h; simp only [List.nil_append, List.cons.injEq] at h; exact hx h.1
    | cons y ys => intro h; have := congrArg List.length h; simp at this

/-- the link `L/n` is not at or above `D/N/…` -/
theorem apart_link_above (L D : Bytes) (hL : Shape L) (hD : Shape D) (h : apart L D = true)
    (n N T' : Bytes) (hn : legalNE n = true) (hN : layerDirName N = true) (hT' : Tail T') :
    Fs.under (L ++ n) (D ++ (N ++ T')) = false := by
  cases hu : Fs.under (L ++ n) (D ++ (N ++ T')) with
  | false => rfl
  | true =>
    have hnc := legalNE_clean n hn
    obtain ⟨T, hT, e⟩ := (under_iff _ _ (name_ne_root L n hnc.1.2.2 hnc.1.1)).1 hu
    rw [List.append_assoc] at e
    exact absurd e (apart_core L D hL hD h n N T T' hn hN hT hT')

/-- the link `L/n` is not at or below `D/N` -/
theorem apart_link_below (L D : Bytes) (hL : Shape L) (hD : Shape D) (h : apart L D = true)
    (n N : Bytes) (hn : legalNE n = true) (hN : layerDirName N = true) :
    Fs.under (D ++ N) (L ++ n) = false := by
  cases hu : Fs.under (D ++ N) (L ++ n) with
  | false => rfl
  | true =>
    obtain ⟨hNs, hNe⟩ := layerDirName_noslash N hN
    obtain ⟨T', hT', e⟩ := (under_iff _ _ (name_ne_root D N hNs hNe)).1 hu
    rw [List.append_assoc] at e
    have := apart_core L D hL hD h n N [] T' hn hN tail_nil hT'
    rw [List.append_nil] at this
    exact absurd e.symm this

/-! ### in the words of the command model -/

/-- `p` lies at or below a layer directory `<layerdirs>/<n>` or `<layerdirs>/<n>~removed` of
    a legal non-empty name -/
def InLayerDirs (cfg : Config) (p : Bytes) : Prop :=
  ∃ n, n ≠ [] ∧ isLegalLayerName n = true ∧
    (Fs.under (layerPath cfg n) p = true ∨ Fs.under (layerPath cfg n ++ removedSuffix) p = true)

theorem mem_auto (cfg : Config) (l : Layer) (m : Bytes) (h : m ∈ RemoveLayer.exPaths cfg l) :
    m = pathJoin [cfg.exportdirs, cfg.exportBinPkg, l.name] ∨
    m = pathJoin [cfg.exportdirs, cfg.exportGenerated, l.name] := by
  simpa [RemoveLayer.exPaths, autoExportPaths] using h

theorem exPaths_eq_autoMounts (cfg : Config) (l : Layer) :
    RemoveLayer.exPaths cfg l = ExportLinks.autoMounts cfg l := rfl

/-- every automatic export link of a placed layer, as prefix ++ name with an apart prefix -/
theorem link_form (cfg : Config) (hA : ExportsApart cfg) (l : Layer) (hl : Placed cfg l) (m : Bytes)
    (hm : m ∈ RemoveLayer.exPaths cfg l) :
    ∃ L, Shape L ∧ apart L (layerPrefix cfg) = true ∧ m = L ++ l.name := by
  have hc := placed_clean cfg l hl
  rcases mem_auto cfg l m hm with e | e
  · exact ⟨_, (linkPrefix_spec cfg _).1, hA.1, e.trans ((linkPrefix_spec cfg _).2 _ hc)⟩
  · exact ⟨_, (linkPrefix_spec cfg _).1, hA.2, e.trans ((linkPrefix_spec cfg _).2 _ hc)⟩

theorem placed_legalNE (cfg : Config) (l : Layer) (hl : Placed cfg l) : legalNE l.name = true :=
  (legalNE_iff _).mpr ⟨hl.2.1, hl.2.2⟩

/-- **the side condition of C09 / C11, from the configuration**: no automatic export link of a
    placed layer lies at or above a path in a layer directory or a `~removed` directory -/
theorem exportsApart_exPaths (cfg : Config) (hA : ExportsApart cfg) (l : Layer) (hl : Placed cfg l)
    (p : Bytes) (hp : InLayerDirs cfg p) : ∀ m ∈ RemoveLayer.exPaths cfg l, Fs.under m p = false := by
  intro m hm
  obtain ⟨L, hL, hap, rfl⟩ := link_form cfg hA l hl m hm
  obtain ⟨hD, hDn⟩ := layerPrefix_spec cfg
  obtain ⟨n, hn1, hn2, hu⟩ := hp
  have hln : legalNE n = true := (legalNE_iff n).mpr ⟨hn1, hn2⟩
  have hcn := legalNE_clean n hln
  have hlp := (hDn n hcn).1
  rcases hu with hu | hu
  · rw [hlp] at hu
    obtain ⟨T, hT, e⟩ := (under_iff _ _ (name_ne_root _ n hcn.1.2.2 hcn.1.1)).1 hu
    rw [e, List.append_assoc]
    exact apart_link_above L _ hL hD hap l.name n T (placed_legalNE cfg l hl)
      (layerDirName_of_legal n hln) hT
  · rw [hlp, List.append_assoc] at hu
    have hN := layerDirName_removed n hln
    obtain ⟨hNs, hNe⟩ := layerDirName_noslash _ hN
    obtain ⟨T, hT, e⟩ := (under_iff _ _ (name_ne_root _ _ hNs hNe)).1 hu
    rw [e, List.append_assoc]
    exact apart_link_above L _ hL hD hap l.name _ T (placed_legalNE cfg l hl) hN hT

/-- the same over `autoExportPaths` (the form of the C09 hypotheses `hexp`, `hpe`) -/
theorem exportsApart_hexp (cfg : Config) (hA : ExportsApart cfg) (l : Layer) (hl : Placed cfg l)
    (p : Bytes) (hp : InLayerDirs cfg p) : ∀ m ∈ autoExportPaths cfg l, Fs.under m.1 p = false :=
  fun m hm => exportsApart_exPaths cfg hA l hl p hp m.1 (List.mem_map.mpr ⟨m, hm, rfl⟩)

/-- the other direction: no link lies at or below a layer directory or `~removed` directory -/
theorem exportsApart_below (cfg : Config) (hA : ExportsApart cfg) (l : Layer) (hl : Placed cfg l)
    (n : Bytes) (hn1 : n ≠ []) (hn2 : isLegalLayerName n = true) :
    ∀ m ∈ RemoveLayer.exPaths cfg l,
      Fs.under (layerPath cfg n) m = false ∧ Fs.under (layerPath cfg n ++ removedSuffix) m = false := by
  intro m hm
  obtain ⟨L, hL, hap, rfl⟩ := link_form cfg hA l hl m hm
  obtain ⟨hD, hDn⟩ := layerPrefix_spec cfg
  have hln : legalNE n = true := (legalNE_iff n).mpr ⟨hn1, hn2⟩
  have hcn := legalNE_clean n hln
  rw [(hDn n hcn).1]
  refine ⟨apart_link_below L _ hL hD hap l.name n (placed_legalNE cfg l hl) (layerDirName_of_legal n hln), ?_⟩
  rw [List.append_assoc]
  exact apart_link_below L _ hL hD hap l.name _ (placed_legalNE cfg l hl) (layerDirName_removed n hln)

/-! ### ways of being in the layer directories -/

theorem inLayerDirs_of_under (cfg : Config) (l : Layer) (hl : Placed cfg l) (p : Bytes)
    (hu : Fs.under l.layerPath p = true) : InLayerDirs cfg p :=
  ⟨l.name, hl.2.1, hl.2.2, Or.inl (hl.1 ▸ hu)⟩

theorem inLayerDirs_of_removed (cfg : Config) (l : Layer) (hl : Placed cfg l) (p : Bytes)
    (hu : Fs.under (l.layerPath ++ removedSuffix) p = true) : InLayerDirs cfg p :=
  ⟨l.name, hl.2.1, hl.2.2, Or.inr (hl.1 ▸ hu)⟩

theorem placed_ne_root (cfg : Config) (l : Layer) (hl : Placed cfg l) : l.layerPath ≠ [47] := by
  obtain ⟨_, hDn⟩ := layerPrefix_spec cfg
  have hc := placed_clean cfg l hl
  rw [hl.1, (hDn _ hc).1]
  exact name_ne_root _ _ hc.1.2.2 hc.1.1

theorem inLayerDirs_layerconfig (cfg : Config) (k : Layer) (hk : Placed cfg k) :
    InLayerDirs cfg (layerconfigPath k) := by
  apply inLayerDirs_of_under cfg k hk
  obtain ⟨_, hDn⟩ := layerPrefix_spec cfg
  have hc := placed_clean cfg k hk
  have h1 := (hDn _ hc).1
  have h2 : layerconfigPath k = layerPrefix cfg ++ (k.name ++ 47 :: lcName) := by
    unfold layerconfigPath; rw [hk.1]; exact (hDn _ hc).2
  rw [h2, hk.1, h1, ← List.append_assoc]
  exact under_append _ _ (tail_slash _)

/-! ### the layout hypotheses of C16 (`no_old_name_after_remove` / `_rename`) -/

/-- a layer as `renameLayer` writes it out under a legal new name is placed -/
theorem placed_renamed (cfg : Config) (l : Layer) (newname : Bytes) (h1 : newname ≠ [])
    (h2 : isLegalLayerName newname = true) :
    Placed cfg { l with name := newname, layerPath := layerPath cfg newname } :=
  ⟨rfl, h1, h2⟩

/-- the export links of a placed layer are clear of the layerconfig (and its temporary file)
    of every placed layer -/
theorem clearOfConfig_of_apart (cfg : Config) (hA : ExportsApart cfg) (l : Layer) (hl : Placed cfg l)
    (k : Layer) (hk : Placed cfg k) : ExportLinks.ClearOfConfig (ExportLinks.autoMounts cfg l) k := by
  intro m hm
  have hb := (exportsApart_below cfg hA l hl k.name hk.2.1 hk.2.2 m hm).1
  rw [← hk.1] at hb
  obtain ⟨_, hDn⟩ := layerPrefix_spec cfg
  have hc := placed_clean cfg k hk
  have hkp : k.layerPath ≠ [47] := placed_ne_root cfg k hk
  have h2 : layerconfigPath k = k.layerPath ++ 47 :: lcName := by
    have e : layerconfigPath k = layerPrefix cfg ++ (k.name ++ 47 :: lcName) := by
      unfold layerconfigPath; rw [hk.1]; exact (hDn _ hc).2
    rw [e, hk.1, (hDn _ hc).1, List.append_assoc]
  constructor
  · intro e
    have : Fs.under k.layerPath m = true := by
      rw [e, h2, List.append_assoc]
      exact under_append _ _ (tail_slash _)
    rw [hb] at this; cases this
  · cases hu : Fs.under (layerconfigPath k) m with
    | false => rfl
    | true =>
      have h3 : Fs.under k.layerPath (layerconfigPath k) = true := by
        rw [h2]; exact under_append _ _ (tail_slash _)
      have := under_trans _ _ _ hkp (layerconfigPath_ne_root k) h3 hu
      rw [hb] at this; cases this

open Lc.RunM in
/-- a `renameLayer` that returns normally was given a legal, non-empty, unused new name -/
theorem rename_ok_newname (cfg : Config) (d : Defs) (old new : Bytes) (co : List Bytes) (w : World)
    (d' : Defs) (hok : ((renameLayer cfg d old new co).run.run w).1 = .ok d') :
    new ≠ [] ∧ isLegalLayerName new = true ∧ findLayer d new = none := by
  cases ht : testName1 d new NAME_FREE with
  | true => exact (free_iff d new).mp ht
  | false =>
    have : (renameLayer cfg d old new co).run.run w = (.error (.err "name"), w) := by
      unfold renameLayer testName fail
      simp only [List.all_cons, ht, Bool.false_and, Bool.and_false, run_bind, run_throw, Bool.false_eq_true,
        if_false]
    rw [this] at hok
    cases hok

end Lc.ExportsApart
