/-
  Lemmas about the `path` models of Lc/Base/Path.lean used by C18.
-/
import Lc.Base.Path

namespace Lc.Lemmas.Path
open Lc

theorem dotIfEmpty_ne_nil (out : Bytes) : (if out.isEmpty then [DOT] else out) ≠ [] := by
  cases out <;> simp

theorem pathClean_ne_nil (s : Bytes) : pathClean s ≠ [] := by
  unfold pathClean
  exact dotIfEmpty_ne_nil _

theorem pathDir_ne_nil (s : Bytes) : pathDir s ≠ [] := pathClean_ne_nil _

/-- an absolute path stays absolute under `path.Clean` -/
theorem isAbs_pathClean_of_isAbs (s : Bytes) (h : isAbs s = true) : isAbs (pathClean s) = true := by
  unfold pathClean
  simp only [h, if_true]
  simp [isAbs, SLASH]

theorem isAbs_cons (x : Nat) (xs : Bytes) : isAbs (x :: xs) = decide (x = 47) := by
  by_cases h : x = 47
  · subst h; rfl
  · unfold isAbs
    split
    · rename_i heq; injection heq with h1 _; exact absurd h1 h
    · simp [h]

theorem isAbs_append (a b : Bytes) (h : isAbs a = true) : isAbs (a ++ b) = true := by
  cases a with
  | nil => simp [isAbs] at h
  | cons x xs =>
    rw [isAbs_cons] at h
    rw [List.cons_append, isAbs_cons]
    exact h

/-! ### idempotence of `path.Clean` -/

/-- a path component as `path.Clean` keeps it -/
def Good (c : Bytes) : Prop := c ≠ [] ∧ c ≠ [DOT] ∧ SLASH ∉ c

theorem good_dotdot : Good dotdot := by
  refine ⟨by decide, by decide, by decide⟩

theorem splitOn_no_sep (sep : Nat) (s : Bytes) : ∀ p ∈ splitOn sep s, sep ∉ p := by
  induction s with
  | nil => intro p hp; simp [splitOn] at hp; subst hp; simp
  | cons c cs ih =>
    intro p hp
    unfold splitOn at hp
    by_cases hc : c = sep
    · simp only [hc, if_true] at hp
      rcases List.mem_cons.mp hp with e | e
      · subst e; simp
      · exact ih p e
    · simp only [hc, if_false] at hp
      cases hs : splitOn sep cs with
      | nil => exact absurd hs (splitOn_ne_nil sep cs)
      | cons h t =>
        rw [hs] at hp ih
        simp only [] at hp
        rcases List.mem_cons.mp hp with e | e
        · subst e
          intro hm
          rcases List.mem_cons.mp hm with e2 | e2
          · exact hc e2.symm
          · exact ih h (by simp) e2
        · exact ih p (by simp [e])

theorem pathComps_good (s : Bytes) : ∀ c ∈ pathComps s, Good c := by
  intro c hc
  unfold pathComps at hc
  have h := List.mem_filter.mp hc
  have hns := splitOn_no_sep SLASH s c h.1
  have h2 := h.2
  simp only [Bool.and_eq_true, Bool.not_eq_true', bne_iff_ne, ne_eq] at h2
  refine ⟨?_, h2.2, hns⟩
  intro e; subst e; simp at h2

theorem cleanStep_good (r : Bool) (stack : List Bytes) (c : Bytes) (hs : ∀ x ∈ stack, Good x)
    (hc : Good c) : ∀ x ∈ cleanStep r stack c, Good x := by
  unfold cleanStep
  by_cases h : c = dotdot
  · simp only [h, if_true]
    cases stack with
    | nil => cases r <;> simp [good_dotdot]
    | cons top rest =>
      simp only []
      by_cases ht : top = dotdot
      · simp only [ht, if_true]
        intro x hx
        rcases List.mem_cons.mp hx with e | e
        · exact e ▸ good_dotdot
        · exact hs x (by rw [ht]; exact e)
      · simp only [ht, if_false]
        intro x hx; exact hs x (by simp [hx])
  · simp only [h, if_false]
    intro x hx
    rcases List.mem_cons.mp hx with e | e
    · exact e ▸ hc
    · exact hs x e

theorem foldl_good (r : Bool) (l : List Bytes) : ∀ (stack : List Bytes), (∀ x ∈ stack, Good x) →
    (∀ c ∈ l, Good c) → ∀ x ∈ l.foldl (cleanStep r) stack, Good x := by
  induction l with
  | nil => intro stack hs _; exact hs
  | cons c cs ih =>
    intro stack hs hl
    simp only [List.foldl_cons]
    exact ih _ (cleanStep_good r stack c hs (hl c (by simp))) (fun x hx => hl x (by simp [hx]))

/-- shape of the component stack (top first) -/
def Inv (r : Bool) (stack : List Bytes) : Prop :=
  if r then dotdot ∉ stack
  else ∃ (ns : List Bytes) (n : Nat), stack = ns ++ List.replicate n dotdot ∧ dotdot ∉ ns

theorem cleanStep_inv (r : Bool) (stack : List Bytes) (c : Bytes) (h : Inv r stack) :
    Inv r (cleanStep r stack c) := by
  unfold cleanStep
  cases r with
  | true =>
    simp only [Inv, if_true] at h ⊢
    by_cases hc : c = dotdot
    · simp only [hc, if_true]
      cases stack with
      | nil => simp
      | cons top rest =>
        have ht : top ≠ dotdot := fun e => h (by simp [e])
        simp only [ht, if_false]
        intro hm; exact h (by simp [hm])
    · simp only [hc, if_false]
      intro hm
      rcases List.mem_cons.mp hm with e | e
      · exact hc e.symm
      · exact h e
  | false =>
    simp only [Inv, Bool.false_eq_true, if_false] at h ⊢
    obtain ⟨ns, n, hst, hns⟩ := h
    by_cases hc : c = dotdot
    · simp only [hc, if_true]
      cases ns with
      | nil =>
        simp only [List.nil_append] at hst
        subst hst
        refine ⟨[], n + 1, ?_, by simp⟩
        cases n with
        | zero => simp [List.replicate]
        | succ m => simp [List.replicate]
      | cons top ns' =>
        subst hst
        have ht : top ≠ dotdot := fun e => hns (by simp [e])
        simp only [List.cons_append, ht, if_false]
        exact ⟨ns', n, rfl, fun hm => hns (by simp [hm])⟩
    · simp only [hc, if_false]
      refine ⟨c :: ns, n, by simp [hst], ?_⟩
      intro hm
      rcases List.mem_cons.mp hm with e | e
      · exact hc e.symm
      · exact hns e

theorem foldl_inv (r : Bool) (l : List Bytes) : ∀ stack, Inv r stack → Inv r (l.foldl (cleanStep r) stack) := by
  induction l with
  | nil => intro s h; exact h
  | cons c cs ih => intro s h; exact ih _ (cleanStep_inv r s c h)

theorem inv_nil (r : Bool) : Inv r [] := by
  cases r
  · simp only [Inv, Bool.false_eq_true, if_false]; exact ⟨[], 0, rfl, by simp⟩
  · simp [Inv]

/-- pushing components none of which is `..` -/
theorem foldl_push (r : Bool) (l : List Bytes) (hl : dotdot ∉ l) :
    ∀ acc, l.foldl (cleanStep r) acc = l.reverse ++ acc := by
  induction l with
  | nil => intro acc; rfl
  | cons c cs ih =>
    intro acc
    have hc : c ≠ dotdot := fun e => hl (by simp [e])
    have hcs : dotdot ∉ cs := fun e => hl (by simp [e])
    simp only [List.foldl_cons, cleanStep, hc, if_false]
    rw [ih hcs]
    simp

theorem foldl_dotdots (n : Nat) : ∀ m, (List.replicate n dotdot).foldl (cleanStep false) (List.replicate m dotdot)
    = List.replicate (n + m) dotdot := by
  induction n with
  | zero => intro m; simp
  | succ k ih =>
    intro m
    simp only [List.replicate_succ, List.foldl_cons]
    have : cleanStep false (List.replicate m dotdot) dotdot = List.replicate (m + 1) dotdot := by
      cases m with
      | zero => simp [cleanStep]
      | succ j => simp [cleanStep, List.replicate_succ]
    rw [this, ih (m + 1)]
    congr 1; omega

/-- re-cleaning the components of a cleaned path gives the same stack -/
theorem refold (r : Bool) (stack : List Bytes) (h : Inv r stack) :
    stack.reverse.foldl (cleanStep r) [] = stack := by
  cases r with
  | true =>
    simp only [Inv, if_true] at h
    rw [foldl_push true _ (by simpa using h)]
    simp
  | false =>
    simp only [Inv, Bool.false_eq_true, if_false] at h
    obtain ⟨ns, n, rfl, hns⟩ := h
    simp only [List.reverse_append, List.reverse_replicate, List.foldl_append]
    have := foldl_dotdots n 0
    simp only [List.replicate_zero, Nat.add_zero] at this
    rw [this, foldl_push false _ (by simpa using hns)]
    simp


theorem pathComps_join (cs : List Bytes) (hne : cs ≠ []) (hg : ∀ c ∈ cs, Good c) :
    pathComps (joinWith SLASH cs) = cs := by
  unfold pathComps
  rw [splitOn_joinWith SLASH cs hne (fun p hp => (hg p hp).2.2)]
  apply List.filter_eq_self.mpr
  intro c hc
  obtain ⟨h1, h2, _⟩ := hg c hc
  cases c with
  | nil => exact absurd rfl h1
  | cons x xs => simp [h2]

theorem pathComps_rooted (cs : List Bytes) (hne : cs ≠ []) (hg : ∀ c ∈ cs, Good c) :
    pathComps (SLASH :: joinWith SLASH cs) = cs := by
  have h := pathComps_join cs hne hg
  unfold pathComps at h ⊢
  have : splitOn SLASH (SLASH :: joinWith SLASH cs) = [] :: splitOn SLASH (joinWith SLASH cs) := by
    simp [splitOn]
  rw [this]
  simpa [List.filter] using h

theorem joinWith_head (x : Nat) (xs : Bytes) (rest : List Bytes) :
    ∃ t, joinWith SLASH ((x :: xs) :: rest) = x :: t := by
  cases rest with
  | nil => exact ⟨xs, rfl⟩
  | cons y ys => exact ⟨xs ++ SLASH :: joinWith SLASH (y :: ys), rfl⟩

def assemble (r : Bool) (stack : List Bytes) : Bytes :=
  let body := joinWith SLASH stack.reverse
  let out := if r then SLASH :: body else body
  if out.isEmpty then [DOT] else out

theorem pathClean_eq_assemble (s : Bytes) :
    pathClean s = assemble (isAbs s) ((pathComps s).foldl (cleanStep (isAbs s)) []) := rfl

theorem assemble_spec (r : Bool) (stack : List Bytes) (hinv : Inv r stack)
    (hg : ∀ c ∈ stack, Good c) :
    isAbs (assemble r stack) = r ∧
      (pathComps (assemble r stack)).foldl (cleanStep r) [] = stack := by
  cases hcs : stack.reverse with
  | nil =>
    have hst : stack = [] := by simpa using hcs
    subst hst
    cases r <;> exact ⟨by decide, by decide⟩
  | cons c rest =>
    have hg' : ∀ x ∈ c :: rest, Good x := by
      intro x hx; rw [← hcs] at hx; exact hg x (by simpa using hx)
    have hre := refold r stack hinv
    rw [hcs] at hre
    obtain ⟨hc1, _, hc3⟩ := hg' c (by simp)
    cases c with
    | nil => exact absurd rfl hc1
    | cons x xs =>
      obtain ⟨t, ht⟩ := joinWith_head x xs rest
      have hx : x ≠ 47 := fun e => hc3 (by simp [e, SLASH])
      cases r with
      | true =>
        have ha : assemble true stack = SLASH :: joinWith SLASH ((x :: xs) :: rest) := by
          simp [assemble, hcs]
        rw [ha, pathComps_rooted _ (by simp) hg']
        exact ⟨rfl, hre⟩
      | false =>
        have ha : assemble false stack = joinWith SLASH ((x :: xs) :: rest) := by
          simp [assemble, hcs, ht]
        rw [ha, pathComps_join _ (by simp) hg']
        refine ⟨?_, hre⟩
        rw [ht, isAbs_cons]
        simp [hx]

/-- `path.Clean` is idempotent -/
theorem pathClean_idem (s : Bytes) : pathClean (pathClean s) = pathClean s := by
  have hinv := foldl_inv (isAbs s) (pathComps s) [] (inv_nil _)
  have hg := foldl_good (isAbs s) (pathComps s) [] (by simp) (pathComps_good s)
  obtain ⟨h1, h2⟩ := assemble_spec _ _ hinv hg
  rw [pathClean_eq_assemble s] at *
  generalize List.foldl (cleanStep (isAbs s)) [] (pathComps s) = stack at *
  rw [pathClean_eq_assemble (assemble (isAbs s) stack), h1, h2]

end Lc.Lemmas.Path
