/-
  Helper lemmas for C12 (the mount table is read back exactly): byte-level facts about
  the kernel rendering (`Lc.Spec.KernelRender`) and list-level facts about the parser
  model (`Lc.Model.Mountinfo`).  Property theorems are in `Lc/Props/C12.lean`.
-/
import Lc.Model.Mountinfo
import Lc.Spec.KernelRender

namespace Lc.Lemmas.Mountinfo
open Lc Lc.Mountinfo Lc.Spec

/-! ### bytes of escaped text -/

/-- every byte of escaped text is an unescaped original byte, the backslash or an octal digit -/
theorem mem_mangleWith {E : Nat → Bool} {s : Bytes} {c : Nat} (hs : IsB s)
    (h : c ∈ mangleWith E s) : (c ∈ s ∧ E c = false) ∨ c = 92 ∨ (48 ≤ c ∧ c ≤ 55) := by
  unfold mangleWith at h
  rw [List.mem_flatMap] at h
  obtain ⟨b, hb, hc⟩ := h
  have hb256 := hs b hb
  by_cases hE : E b = true
  · simp [hE, esc3] at hc
    omega
  · simp [hE] at hc
    subst hc
    left
    exact ⟨hb, by simpa using hE⟩

theorem not_mem_mangleWith_of_esc {E : Nat → Bool} {s : Bytes} {c : Nat} (hs : IsB s)
    (hE : E c = true) (h92 : c ≠ 92) (hd : ¬(48 ≤ c ∧ c ≤ 55)) : c ∉ mangleWith E s := by
  intro h
  rcases mem_mangleWith hs h with ⟨_, h'⟩ | h' | h'
  · rw [hE] at h'; cases h'
  · exact h92 h'
  · exact hd h'

theorem not_mem_mangleWith_of_not_mem {E : Nat → Bool} {s : Bytes} {c : Nat} (hs : IsB s)
    (hc : c ∉ s) (h92 : c ≠ 92) (hd : ¬(48 ≤ c ∧ c ≤ 55)) : c ∉ mangleWith E s := by
  intro h
  rcases mem_mangleWith hs h with ⟨h', _⟩ | h' | h'
  · exact hc h'
  · exact h92 h'
  · exact hd h'

theorem mangleWith_append (E : Nat → Bool) (a b : Bytes) :
    mangleWith E (a ++ b) = mangleWith E a ++ mangleWith E b := by
  simp [mangleWith]

/-! ### joinWith -/

theorem mem_joinWith {sep c : Nat} {l : List Bytes} (h : c ∈ joinWith sep l) :
    c = sep ∨ ∃ p ∈ l, c ∈ p := by
  induction l with
  | nil => simp [joinWith] at h
  | cons x rest ih =>
    cases rest with
    | nil => right; exact ⟨x, by simp, by simpa [joinWith] using h⟩
    | cons y r =>
      simp only [joinWith, List.mem_append, List.mem_cons] at h
      rcases h with h | h | h
      · right; exact ⟨x, by simp, h⟩
      · left; exact h
      · rcases ih h with h' | ⟨p, hp, hc⟩
        · left; exact h'
        · right; exact ⟨p, by simp [hp], hc⟩

theorem joinWith_append_last (sep : Nat) (xs : List Bytes) (y : Bytes) (hne : xs ≠ []) :
    joinWith sep (xs ++ [y]) = joinWith sep xs ++ sep :: y := by
  induction xs with
  | nil => exact absurd rfl hne
  | cons x rest ih =>
    cases rest with
    | nil => simp [joinWith]
    | cons z r =>
      have := ih (by simp)
      simp only [List.cons_append, joinWith] at this ⊢
      rw [this]
      simp

theorem splitN2_noSep (sep : Nat) (s : Bytes) (h : sep ∉ s) : splitN2 sep s = [s] := by
  induction s with
  | nil => rfl
  | cons c cs ih =>
    have hc : c ≠ sep := by intro e; apply h; simp [e]
    have hcs : sep ∉ cs := by intro e; apply h; simp [e]
    simp [splitN2, hc, ih hcs]

/-! ### last byte / carriage return -/

/-- the string is non-empty and its last byte is not a carriage return -/
def LastNotCR (s : Bytes) : Prop := ∃ a x, s = a ++ [x] ∧ x ≠ 13

theorem LastNotCR.append_left {s : Bytes} (a : Bytes) (h : LastNotCR s) : LastNotCR (a ++ s) := by
  obtain ⟨b, x, rfl, hx⟩ := h
  exact ⟨a ++ b, x, by simp, hx⟩

theorem lastNotCR_of_not_mem {s : Bytes} (hne : s ≠ []) (h : 13 ∉ s) : LastNotCR s := by
  refine ⟨s.dropLast, s.getLast hne, (List.dropLast_concat_getLast hne).symm, ?_⟩
  intro e
  exact h (e ▸ List.getLast_mem hne)

theorem dropCR_of_lastNotCR {s : Bytes} (h : LastNotCR s) : dropCR s = s := by
  obtain ⟨a, x, rfl, hx⟩ := h
  unfold dropCR
  simp only [List.reverse_append, List.reverse_cons, List.reverse_nil, List.nil_append,
    List.cons_append]
  split
  · rename_i r heq
    simp only [List.cons.injEq] at heq
    exact absurd heq.1 hx
  · rfl

/-! ### findDash and indexing into a field list -/

theorem findDash_append (opt : List Bytes) (rest : List Bytes) (k : Nat)
    (h : ∀ o ∈ opt, o ≠ [45]) : findDash (opt ++ [45] :: rest) k = some (k + opt.length) := by
  induction opt generalizing k with
  | nil => simp [findDash]
  | cons o os ih =>
    have ho : o ≠ [45] := h o (by simp)
    simp only [List.cons_append, findDash, ho, if_false]
    rw [ih (k + 1) (fun x hx => h x (by simp [hx]))]
    simp; omega

/-! ### bytes of the rendered fields -/

theorem not_mem_renderSOpt {o : SOpt} {c : Nat} (hk : c ∉ o.key) (h61 : c ≠ 61)
    (hv : ∀ v, o.val = some v → IsB v) (hE : optEsc c = true) (h92 : c ≠ 92)
    (hd : ¬(48 ≤ c ∧ c ≤ 55)) : c ∉ renderSOpt o := by
  unfold renderSOpt
  cases hval : o.val with
  | none => simpa using hk
  | some v =>
    simp only [List.mem_append, List.mem_cons, not_or]
    exact ⟨hk, h61, not_mem_mangleWith_of_esc (hv v hval) hE h92 hd⟩

theorem not_mem_renderSuper {l : List SOpt} {c : Nat} (h44 : c ≠ 44) (h61 : c ≠ 61)
    (hk : ∀ o ∈ l, c ∉ o.key) (hv : ∀ o ∈ l, ∀ v, o.val = some v → IsB v)
    (hE : optEsc c = true) (h92 : c ≠ 92) (hd : ¬(48 ≤ c ∧ c ≤ 55)) : c ∉ renderSuper l := by
  intro h
  rcases mem_joinWith h with h | ⟨p, hp, hc⟩
  · exact h44 h
  · rw [List.mem_map] at hp
    obtain ⟨o, ho, rfl⟩ := hp
    exact not_mem_renderSOpt (hk o ho) h61 (hv o ho) hE h92 hd hc

/-- no field of a rendered line contains a blank or a newline -/
theorem lineFields_clean {m : KMount} (wf : m.WF) :
    ∀ f ∈ lineFields m, 32 ∉ f ∧ 10 ∉ f := by
  intro f hf
  simp only [lineFields, List.cons_append, List.nil_append, List.mem_cons, List.mem_append,
    List.not_mem_nil, or_false] at hf
  have hp32 : pathEsc 32 = true := by decide
  have hp10 : pathEsc 10 = true := by decide
  have hs32 : srcEsc 32 = true := by decide
  have hs10 : srcEsc 10 = true := by decide
  rcases hf with rfl | rfl | rfl | rfl | rfl | rfl | hf | rfl | rfl | rfl | rfl
  · exact ⟨wf.id.2.1, wf.id.2.2.1⟩
  · exact ⟨wf.parent.2.1, wf.parent.2.2.1⟩
  · exact ⟨wf.dev.2.1, wf.dev.2.2.1⟩
  · exact ⟨not_mem_mangleWith_of_esc wf.root hp32 (by decide) (by decide),
           not_mem_mangleWith_of_esc wf.root hp10 (by decide) (by decide)⟩
  · exact ⟨not_mem_mangleWith_of_esc wf.mp hp32 (by decide) (by decide),
           not_mem_mangleWith_of_esc wf.mp hp10 (by decide) (by decide)⟩
  · exact ⟨wf.opts.2.1, wf.opts.2.2.1⟩
  · have := (wf.optional f hf).1
    exact ⟨this.2.1, this.2.2.1⟩
  · decide
  · exact ⟨wf.fstype.2.1, wf.fstype.2.2.1⟩
  · exact ⟨not_mem_mangleWith_of_esc wf.source hs32 (by decide) (by decide),
           not_mem_mangleWith_of_esc wf.source hs10 (by decide) (by decide)⟩
  · constructor
    · exact not_mem_renderSuper (by decide) (by decide) (fun o ho => (wf.super o ho).1.1.2.1)
        (fun o ho => (wf.super o ho).2) (by decide) (by decide) (by decide)
    · exact not_mem_renderSuper (by decide) (by decide) (fun o ho => (wf.super o ho).1.1.2.2.1)
        (fun o ho => (wf.super o ho).2) (by decide) (by decide) (by decide)

theorem lineFields_ne_nil (m : KMount) : lineFields m ≠ [] := by simp [lineFields]

/-- `strings.Split(line, " ")` gives back exactly the fields the kernel wrote -/
theorem splitOn_renderLine {m : KMount} (wf : m.WF) :
    splitOn 32 (renderLine m) = lineFields m :=
  splitOn_joinWith 32 _ (lineFields_ne_nil m) (fun f hf => (lineFields_clean wf f hf).1)

theorem renderLine_no_nl {m : KMount} (wf : m.WF) : 10 ∉ renderLine m := by
  intro h
  rcases mem_joinWith h with h | ⟨f, hf, hc⟩
  · cases h
  · exact (lineFields_clean wf f hf).2 hc

theorem lastNotCR_renderSOpt {o : SOpt} (hk : TokenOK o.key)
    (hv : ∀ v, o.val = some v → v.getLast? ≠ some 13) : LastNotCR (renderSOpt o) := by
  unfold renderSOpt
  cases hval : o.val with
  | none => exact lastNotCR_of_not_mem hk.1 hk.2.2.2
  | some v =>
    have hv' := hv v hval
    show LastNotCR (o.key ++ 61 :: mangleWith optEsc v)
    rcases List.eq_nil_or_concat v with rfl | ⟨v', x, rfl⟩
    · exact ⟨o.key, 61, by simp [mangleWith], by decide⟩
    · have hx : x ≠ 13 := by
        intro e; apply hv'; simp [e]
      rw [List.concat_eq_append, mangleWith_append]
      by_cases hE : optEsc x = true
      · refine ⟨o.key ++ 61 :: (mangleWith optEsc v' ++ [92, 48 + x / 64, 48 + (x / 8) % 8]),
          48 + x % 8, ?_, by omega⟩
        simp [mangleWith, hE, esc3]
      · refine ⟨o.key ++ 61 :: mangleWith optEsc v', x, ?_, hx⟩
        simp [mangleWith, hE]

theorem lastNotCR_renderSuper {l : List SOpt} (hne : l ≠ [])
    (hk : ∀ o ∈ l, TokenOK o.key)
    (hlast : ∀ o, l.getLast? = some o → ∀ v, o.val = some v → v.getLast? ≠ some 13) :
    LastNotCR (renderSuper l) := by
  rcases List.eq_nil_or_concat l with rfl | ⟨l', o, rfl⟩
  · exact absurd rfl hne
  · rw [List.concat_eq_append] at hk hlast ⊢
    have ho : LastNotCR (renderSOpt o) :=
      lastNotCR_renderSOpt (hk o (by simp)) (hlast o (by simp))
    unfold renderSuper
    rw [List.map_append, List.map_cons, List.map_nil]
    by_cases hl' : l' = []
    · subst hl'; simpa [joinWith] using ho
    · rw [joinWith_append_last 44 _ _ (by simpa using hl')]
      have := ho.append_left (joinWith 44 (List.map renderSOpt l') ++ [44])
      simpa using this

theorem renderLine_lastNotCR {m : KMount} (wf : m.WF) : LastNotCR (renderLine m) := by
  have hs : LastNotCR (renderSuper m.super) :=
    lastNotCR_renderSuper wf.superNe (fun o ho => (wf.super o ho).1.1) wf.superLast
  have e : lineFields m =
      ([m.id, m.parent, m.dev, mangleWith pathEsc m.root, mangleWith pathEsc m.mp, m.opts]
        ++ m.optional ++ [[45], m.fstype, mangleWith srcEsc m.source]) ++ [renderSuper m.super] := by
    simp [lineFields]
  unfold renderLine
  rw [e, joinWith_append_last 32 _ _ (by simp)]
  have := hs.append_left (joinWith 32 ([m.id, m.parent, m.dev, mangleWith pathEsc m.root,
    mangleWith pathEsc m.mp, m.opts] ++ m.optional ++ [[45], m.fstype,
    mangleWith srcEsc m.source]) ++ [32])
  simpa using this

/-! ### the line scanner on rendered text -/

theorem render_cons (m : KMount) (t : List KMount) :
    render (m :: t) = renderLine m ++ 10 :: render t := by
  simp [render]

theorem splitOn_render {t : List KMount} (wf : ∀ m ∈ t, m.WF) :
    splitOn 10 (render t) = t.map renderLine ++ [[]] := by
  induction t with
  | nil => simp [render, splitOn]
  | cons m t ih =>
    rw [render_cons, splitOn_append_sep 10 _ _ (renderLine_no_nl (wf m (by simp))),
      ih (fun x hx => wf x (by simp [hx]))]
    simp

/-- `bufio.ScanLines` over the rendered table yields exactly the rendered lines -/
theorem scanLines_render {t : List KMount} (wf : ∀ m ∈ t, m.WF) :
    scanLines (render t) = t.map renderLine := by
  unfold scanLines
  rw [splitOn_render wf]
  simp only [List.reverse_append, List.reverse_cons, List.reverse_nil, List.nil_append,
    List.cons_append, List.reverse_reverse]
  rw [List.map_map]
  apply List.map_congr_left
  intro m hm
  exact dropCR_of_lastNotCR (renderLine_lastNotCR (wf m hm))

/-! ### shadow bookkeeping, lookup -/

theorem shadowIds_append_one (pre : List KMount) (m : KMount) :
    shadowIds (pre ++ [m]) = shadowStep (shadowIds pre) m := by
  simp [shadowIds, List.foldl_append]

theorem find?_reverse_last {α : Type} (p : α → Bool) (A B : List α) (x : α)
    (hx : p x = true) (hB : ∀ b ∈ B, p b = false) :
    (A ++ x :: B).reverse.find? p = some x := by
  rw [List.reverse_append, List.reverse_cons, List.append_assoc, List.find?_append]
  have : List.find? p B.reverse = none := by
    rw [List.find?_eq_none]
    intro b hb
    simp [hB b (by simpa using hb)]
  rw [this]
  simp [hx]

/-! ### the line parser on a line of known shape -/

/-- what `probeLine` appends for a line with the given (already split) fields -/
def lineResult (st : PState) (mountID parentID stDev root mp opts fstype src : Bytes)
    (o : OvlOpts) : PState :=
  { m := { list := st.m.list ++ [⟨o.lower, unescape mp, o.upper, o.work, fstype, opts,
             !shadowingFsTypes.contains fstype && st.shadow.contains parentID, stDev,
             unescape root, mountID, parentID⟩],
           devices := addDevice st.m.devices stDev (unescape src) (unescape root) (unescape mp) },
    shadow := if shadowingFsTypes.contains fstype || st.shadow.contains parentID
              then mountID :: st.shadow else st.shadow }

/-- `probeLine` on any line whose blank-separated fields are six leading fields, any
    number of optional fields other than "-", the "-" separator and three more fields. -/
theorem probeLine_of_segs (st : PState) (line : Bytes)
    (mountID parentID stDev root mp opts fstype src so : Bytes) (optional : List Bytes)
    (hsegs : splitOn 32 line =
      [mountID, parentID, stDev, root, mp, opts] ++ optional ++ [[45], fstype, src, so])
    (hopt : ∀ o ∈ optional, o ≠ [45]) :
    probeLine st line = .ok (lineResult st mountID parentID stDev root mp opts fstype src
      (if fstype = b!"overlay" then parseOverlayOpts so else {})) := by
  have hdrop : List.drop 6 ([mountID, parentID, stDev, root, mp, opts] ++ optional ++
      [[45], fstype, src, so]) = optional ++ [45] :: [fstype, src, so] := by simp
  have hget : ∀ k, ([mountID, parentID, stDev, root, mp, opts] ++ optional ++
      [[45], fstype, src, so])[6 + optional.length + k]? = [[45], fstype, src, so][k]? := by
    intro k
    rw [List.getElem?_append_right (by simp; omega)]
    congr 1
    simp; omega
  unfold probeLine
  simp only [hsegs]
  rw [if_neg (by simp)]
  simp only [hdrop, findDash_append optional _ 6 hopt]
  rw [hget 1, hget 2, hget 3]
  by_cases hov : fstype = b!"overlay"
  · simp [hov, lineResult]
  · simp [hov, lineResult]

/-! ### the device table -/

theorem find?_map_of_pred {α : Type} (p : α → Bool) (f : α → α) (l : List α)
    (h : ∀ x, p (f x) = p x) : (l.map f).find? p = (l.find? p).map f := by
  rw [List.find?_map]
  have : p ∘ f = p := funext h
  rw [this]

/-- looking a device number up after `addDevice` -/
theorem find?_addDevice (devs : List Device) (sd name root mp d : Bytes) :
    (addDevice devs sd name root mp).find? (·.stDev == d) =
      if sd = d then
        some (match devs.find? (·.stDev == d) with
          | some dv => if root = [47] then { dv with roots := dv.roots ++ [mp] }
                       else { dv with subroots := dv.subroots ++ [(root, mp)] }
          | none => ⟨sd, name, if root = [47] then [mp] else [], if root = [47] then [] else [(root, mp)]⟩)
      else devs.find? (·.stDev == d) := by
  have hA : (if devs.any (·.stDev == sd) then devs else devs ++ [⟨sd, name, [], []⟩]).find?
        (·.stDev == d) =
      if sd = d then
        some (match devs.find? (·.stDev == d) with
          | some dv => dv
          | none => ⟨sd, name, [], []⟩)
      else devs.find? (·.stDev == d) := by
    by_cases hsd : sd = d
    · subst hsd
      rw [if_pos rfl]
      cases hf : devs.find? (·.stDev == sd) with
      | some dv =>
        have : devs.any (·.stDev == sd) = true :=
          List.any_eq_true.mpr ⟨dv, List.mem_of_find?_eq_some hf,
            List.find?_some (p := fun x : Device => x.stDev == sd) hf⟩
        simp [this, hf]
      | none =>
        have : devs.any (·.stDev == sd) = false := by
          rw [List.any_eq_false]; exact List.find?_eq_none.mp hf
        simp [this, hf, List.find?_append]
    · rw [if_neg hsd]
      by_cases hany : devs.any (·.stDev == sd) = true
      · simp [hany]
      · simp only [hany]
        rw [if_neg (by simp), List.find?_append]
        simp [hsd]
  unfold addDevice
  simp only
  by_cases hr : root = [47]
  · rw [if_pos hr]
    rw [find?_map_of_pred (fun x : Device => x.stDev == d) _ _ (by intro x; split <;> rfl), hA]
    by_cases hsd : sd = d
    · subst hsd
      simp only [if_true, Option.map_some, hr]
      cases hf : devs.find? (·.stDev == sd) with
      | some dv =>
        have h1 : dv.stDev = sd := by
          simpa using List.find?_some (p := fun x : Device => x.stDev == sd) hf
        simp [h1]
      | none => simp
    · simp only [if_neg hsd]
      cases hf : devs.find? (·.stDev == d) with
      | none => rfl
      | some dv =>
        have h1 : dv.stDev = d := by
          simpa using List.find?_some (p := fun x : Device => x.stDev == d) hf
        have : ¬ dv.stDev = sd := by rw [h1]; exact fun e => hsd e.symm
        simp [this]
  · rw [if_neg hr]
    rw [find?_map_of_pred (fun x : Device => x.stDev == d) _ _ (by intro x; split <;> rfl), hA]
    by_cases hsd : sd = d
    · subst hsd
      simp only [if_true, Option.map_some, hr, if_false]
      cases hf : devs.find? (·.stDev == sd) with
      | some dv =>
        have h1 : dv.stDev = sd := by
          simpa using List.find?_some (p := fun x : Device => x.stDev == sd) hf
        simp [h1]
      | none => simp
    · simp only [if_neg hsd]
      cases hf : devs.find? (·.stDev == d) with
      | none => rfl
      | some dv =>
        have h1 : dv.stDev = d := by
          simpa using List.find?_some (p := fun x : Device => x.stDev == d) hf
        have : ¬ dv.stDev = sd := by rw [h1]; exact fun e => hsd e.symm
        simp [this]

/-- the device entry a reader must have for device number `d` after table `t` -/
def devLookup (t : List KMount) (d : Bytes) : Option Device :=
  (t.find? (·.dev == d)).map fun f =>
    ⟨f.dev, f.source, (t.filter (fun x => x.dev == d && x.root == [47])).map (·.mp),
     (t.filter (fun x => x.dev == d && x.root != [47])).map (fun x => (x.root, x.mp))⟩

theorem foldl_addDevice_snoc (t : List KMount) (m : KMount) (d0 : List Device) :
    (t ++ [m]).foldl (fun d m => addDevice d m.dev m.source m.root m.mp) d0 =
      addDevice (t.foldl (fun d m => addDevice d m.dev m.source m.root m.mp) d0)
        m.dev m.source m.root m.mp := by
  simp [List.foldl_append]

theorem find?_devices (t : List KMount) (d : Bytes) :
    (t.foldl (fun d m => addDevice d m.dev m.source m.root m.mp) []).find? (·.stDev == d) =
      devLookup t d := by
  induction hn : t.length generalizing t with
  | zero =>
    have : t = [] := List.length_eq_zero_iff.mp hn
    subst this; rfl
  | succ n ih =>
    rcases List.eq_nil_or_concat t with rfl | ⟨t', m, rfl⟩
    · simp at hn
    · rw [List.concat_eq_append] at hn ⊢
      have ih' := ih t' (by simpa using hn)
      rw [foldl_addDevice_snoc, find?_addDevice, ih']
      unfold devLookup
      by_cases hmd : m.dev = d
      · subst hmd
        rw [if_pos rfl]
        cases hf : t'.find? (·.dev == m.dev) with
        | some f =>
          by_cases hr : m.root = [47]
          · simp [hf, List.find?_append, List.filter_append, hr]
          · simp [hf, List.find?_append, List.filter_append, hr]
        | none =>
          have hnil : t'.filter (fun x => x.dev == m.dev && x.root == [47]) = [] := by
            rw [List.filter_eq_nil_iff]
            intro a ha
            have := List.find?_eq_none.mp hf a ha
            simp at this ⊢
            intro e; exact absurd e this
          have hnil2 : t'.filter (fun x => x.dev == m.dev && x.root != [47]) = [] := by
            rw [List.filter_eq_nil_iff]
            intro a ha
            have := List.find?_eq_none.mp hf a ha
            simp at this ⊢
            intro e; exact absurd e this
          by_cases hr : m.root = [47]
          · simp [hf, List.find?_append, List.filter_append, hr, hnil, hnil2]
          · simp [hf, List.find?_append, List.filter_append, hr, hnil, hnil2]
      · rw [if_neg hmd]
        simp [List.find?_append, List.filter_append, hmd]

/-! ### the shadow set and the mount tree -/

/-- `x` is of a shadowing type or has a proper ancestor of a shadowing type -/
def Sh (t : List KMount) (x : KMount) : Prop :=
  isShadowingType x.fstype = true ∨ ∃ a, Ancestor t a x ∧ isShadowingType a.fstype = true

theorem Sh.child {t : List KMount} {x m : KMount} (hx : Sh t x) (hp : IsParent t x m) :
    ∃ a, Ancestor t a m ∧ isShadowingType a.fstype = true := by
  rcases hx with h | ⟨a, ha, hs⟩
  · exact ⟨x, .parent hp, h⟩
  · exact ⟨a, .step ha hp, hs⟩

/-- a shadowing ancestor of `m` comes through a shadowed-or-shadowing parent -/
theorem parent_of_ancestor {t : List KMount} {a m : KMount} (h : Ancestor t a m)
    (hs : isShadowingType a.fstype = true) : ∃ b, IsParent t b m ∧ Sh t b := by
  cases h with
  | parent hp => exact ⟨a, hp, Or.inl hs⟩
  | step hab hp => exact ⟨_, hp, Or.inr ⟨a, hab, hs⟩⟩

/-- The shadow set after any prefix of a table (distinct ids, parents listed first) is
    the set of ids of the prefix's mounts that are shadowing or have a shadowing ancestor. -/
theorem mem_shadowIds (t : List KMount) (hid : DistinctIds t) (hpf : ParentsFirst t)
    (pre : List KMount) : ∀ rest, t = pre ++ rest →
      ∀ id, id ∈ shadowIds pre ↔ ∃ x ∈ pre, x.id = id ∧ Sh t x := by
  induction hn : pre.length generalizing pre with
  | zero =>
    have : pre = [] := List.length_eq_zero_iff.mp hn
    subst this
    intro rest _ id
    simp [shadowIds]
  | succ n ih =>
    rcases List.eq_nil_or_concat pre with rfl | ⟨p, m, rfl⟩
    · simp at hn
    · rw [List.concat_eq_append] at hn ⊢
      intro rest ht id
      have ht' : t = p ++ m :: rest := by rw [ht]; simp
      have ihp := ih p (by simpa using hn) (m :: rest) ht'
      -- facts about `m`: its parent, if listed, is in `p`; ids in `p` differ from `m.id`
      have hpar : ∀ b, IsParent t b m → b ∈ p := by
        intro b ⟨hb, hbid, hne⟩
        rw [ht'] at hb
        rcases List.mem_append.mp hb with h | h
        · exact h
        · rcases List.mem_cons.mp h with h | h
          · subst h; exact absurd rfl hne
          · exact absurd hbid (hpf p m rest ht' b h)
      have hidp : ∀ x ∈ p, x.id ≠ m.id := by
        intro x hx
        have := hid
        unfold DistinctIds at this
        rw [ht', List.pairwise_append] at this
        exact this.2.2 x hx m (by simp)
      have hmt : m ∈ t := by rw [ht']; simp
      have hsub : ∀ x ∈ p, x ∈ t := by intro x hx; rw [ht']; simp [hx]
      rw [shadowIds_append_one]
      unfold shadowStep
      have hcont : (shadowIds p).contains m.parent = true ↔ ∃ b, IsParent t b m ∧ Sh t b := by
        rw [List.contains_iff_mem, ihp]
        constructor
        · rintro ⟨x, hx, hxid, hsx⟩
          exact ⟨x, ⟨hsub x hx, hxid, hidp x hx⟩, hsx⟩
        · rintro ⟨b, hb, hsb⟩
          exact ⟨b, hpar b hb, hb.2.1, hsb⟩
      have hShm : Sh t m ↔
          (isShadowingType m.fstype || (shadowIds p).contains m.parent) = true := by
        rw [Bool.or_eq_true, hcont]
        constructor
        · rintro (h | ⟨a, ha, hs⟩)
          · exact Or.inl h
          · exact Or.inr (parent_of_ancestor ha hs)
        · rintro (h | ⟨b, hb, hsb⟩)
          · exact Or.inl h
          · exact Or.inr (hsb.child hb)
      by_cases hc : (isShadowingType m.fstype || (shadowIds p).contains m.parent) = true
      · rw [if_pos hc, List.mem_cons, ihp]
        constructor
        · rintro (h | ⟨x, hx, hxid, hsx⟩)
          · exact ⟨m, by simp, h.symm, hShm.mpr hc⟩
          · exact ⟨x, by simp [hx], hxid, hsx⟩
        · rintro ⟨x, hx, hxid, hsx⟩
          rcases List.mem_append.mp hx with h | h
          · exact Or.inr ⟨x, h, hxid, hsx⟩
          · simp at h; subst h; exact Or.inl hxid.symm
      · rw [if_neg hc, ihp]
        constructor
        · rintro ⟨x, hx, hxid, hsx⟩
          exact ⟨x, by simp [hx], hxid, hsx⟩
        · rintro ⟨x, hx, hxid, hsx⟩
          rcases List.mem_append.mp hx with h | h
          · exact ⟨x, h, hxid, hsx⟩
          · simp at h; subst h; exact absurd (hShm.mp hsx) hc

end Lc.Lemmas.Mountinfo
