/-
  Consequences of the trace grammar of `mountOne` (Lc/Lemmas/MountTrace.lean), by list
  reasoning only: which operations can occur (`OpAllowed`), the overlay call comes first
  (`shape`), the propagation call follows its mount (`SlaveAdj`).  Helper lemmas for Props/C01.
-/
import Lc.Lemmas.MountTrace

namespace Lc.MountTrace
open Lc Lc.Layers Lc.Mountinfo Lc.Trace

theorem mem_fsMountOps {op : Op} {src tgt fs o : Bytes} :
    op ∈ fsMountOps src tgt fs o ↔
      op = mountOp src tgt fs o ∨ (needsSlave src = true ∧ op = propOp tgt o) := by
  unfold fsMountOps
  by_cases h : needsSlave src = true <;> simp [h]

/-- `op` belongs to the expanded import `e`: creation of its missing source directory, its
    mount call, or the propagation call after it — the latter two only when the cache shows
    nothing mounted on its mountpoint -/
def IsItemOp (d : Defs) (e : Expanded) (op : Op) : Prop :=
  op = .mkdir e.source ∨
  (getMount d.mounts e.mount = none ∧
    (op = mountOp e.source e.mount e.fstype [] ∨ (needsSlave e.source = true ∧ op = propOp e.mount [])))

/-- `op` is the overlay mount of `l`, issued only when the cache shows nothing on the build path -/
def IsOverlayOp (cfg : Config) (d : Defs) (l : Layer) (op : Op) : Prop :=
  l.base.length > 0 ∧ getMount d.mounts (buildPath cfg l) = none ∧
    ∃ bl, findLayer d l.base = some bl ∧ op = overlayOp cfg bl l

def OpAllowed (cfg : Config) (d : Defs) (l : Layer) (op : Op) : Prop :=
  IsOverlayOp cfg d l op ∨
  ∃ ex e, expandConfigMounts cfg d l = .ok ex ∧ e ∈ ex ∧ IsItemOp d e op

theorem ItemSeg.ops {d : Defs} {m : Expanded} {s : List Op} (h : ItemSeg d m s) :
    ∀ op ∈ s, IsItemOp d m op := by
  obtain ⟨mk, mt, rfl, hmk, hmt⟩ := h
  intro op hop
  rcases List.mem_append.mp hop with hop | hop
  · rcases hmk with hmk | hmk
    · rw [hmk] at hop; cases hop
    · rw [hmk] at hop; simp at hop; exact .inl hop
  · rcases hmt with hmt | ⟨hg, hmt⟩
    · rw [hmt] at hop; cases hop
    · rw [hmt] at hop
      exact .inr ⟨hg, mem_fsMountOps.mp hop⟩

theorem ItemSegs.ops {d : Defs} {ms : List Expanded} {s : List Op} (h : ItemSegs d ms s) :
    ∀ op ∈ s, ∃ e ∈ ms, IsItemOp d e op := by
  induction h with
  | nil => intro op hop; cases hop
  | snoc hprev hseg ih =>
    intro op hop
    rcases List.mem_append.mp hop with hop | hop
    · obtain ⟨e, he, hi⟩ := ih op hop
      exact ⟨e, List.mem_append.mpr (.inl he), hi⟩
    · exact ⟨_, List.mem_append.mpr (.inr (List.mem_singleton.mpr rfl)), hseg.ops op hop⟩

/-- overlay call first (if at all), then only operations of the configured imports -/
theorem MountOneTrace.shape {cfg : Config} {d : Defs} {l : Layer} {s : List Op}
    (h : MountOneTrace cfg d l s) :
    ∃ it, (s = it ∨ ∃ bl, IsOverlayOp cfg d l (overlayOp cfg bl l) ∧ findLayer d l.base = some bl ∧
              s = overlayOp cfg bl l :: it) ∧
      ∀ op ∈ it, ∃ ex e, expandConfigMounts cfg d l = .ok ex ∧ e ∈ ex ∧ IsItemOp d e op := by
  obtain ⟨ov, it, rfl, hov, hit⟩ := h
  refine ⟨it, ?_, ?_⟩
  · rcases hov with hov | ⟨hb, hg, bl, hbl, hov⟩
    · left; rw [hov]; rfl
    · right; exact ⟨bl, ⟨hb, hg, bl, hbl, rfl⟩, hbl, by rw [hov]; rfl⟩
  · intro op hop
    rcases hit with hit | ⟨ex, hex, hit⟩
    · rw [hit] at hop; cases hop
    · obtain ⟨e, he, hi⟩ := hit.ops op hop
      exact ⟨ex, e, hex, he, hi⟩

theorem MountOneTrace.ops {cfg : Config} {d : Defs} {l : Layer} {s : List Op}
    (h : MountOneTrace cfg d l s) : ∀ op ∈ s, OpAllowed cfg d l op := by
  obtain ⟨it, hs, hit⟩ := h.shape
  intro op hop
  rcases hs with hs | ⟨bl, hov, _, hs⟩
  · rw [hs] at hop; exact .inr (hit op hop)
  · rw [hs] at hop
    rcases List.mem_cons.mp hop with hop | hop
    · rw [hop]; exact .inl hov
    · exact .inr (hit op hop)

/-- every operation of any exit of `mountOne` -/
theorem MountOneE.ops {cfg : Config} {d : Defs} {name : Bytes} {s : List Op}
    (h : MountOneE cfg d name s) :
    ∀ op ∈ s, ∃ l, findLayer d name = some l ∧ OpAllowed cfg d l op := by
  intro op hop
  rcases h with h | ⟨s', l, hl, ht⟩
  · rw [h] at hop; cases hop
  · exact ⟨l, hl, ht.ops op (List.mem_append.mpr (.inl hop))⟩

/-- the shape survives cutting the trace short -/
theorem MountOneE.shape {cfg : Config} {d : Defs} {name : Bytes} {s : List Op}
    (h : MountOneE cfg d name s) :
    s = [] ∨ ∃ l, findLayer d name = some l ∧
      ∃ it, (s = it ∨ ∃ bl, IsOverlayOp cfg d l (overlayOp cfg bl l) ∧ findLayer d l.base = some bl ∧
                s = overlayOp cfg bl l :: it) ∧
        ∀ op ∈ it, ∃ ex e, expandConfigMounts cfg d l = .ok ex ∧ e ∈ ex ∧ IsItemOp d e op := by
  rcases h with h | ⟨s', l, hl, ht⟩
  · exact .inl h
  · obtain ⟨it, hs, hit⟩ := ht.shape
    rcases hs with hs | ⟨bl, hov, hbl, hs⟩
    · refine .inr ⟨l, hl, s, .inl rfl, ?_⟩
      intro op hop
      exact hit op (by rw [← hs]; exact List.mem_append.mpr (.inl hop))
    · cases s with
      | nil => exact .inl rfl
      | cons x s2 =>
        simp only [List.cons_append, List.cons.injEq] at hs
        refine .inr ⟨l, hl, s2, .inr ⟨bl, hov, hbl, by rw [hs.1]⟩, ?_⟩
        intro op hop
        exact hit op (by rw [← hs.2]; exact List.mem_append.mpr (.inl hop))

/-! ### the propagation call follows its mount -/

/-- every mount whose source is /dev, /sys or /run is immediately followed by the
    propagation call on the same target; `strict = false` tolerates such a mount as the very
    last operation (the run was cut short right after it) -/
def SlaveAdj (strict : Bool) : List Op → Prop
  | [] => True
  | op :: rest =>
    (∀ src tgt fs fl data, op = .mount src tgt fs fl data → needsSlave src = true →
      match rest with
      | [] => strict = false
      | nxt :: _ => nxt = propOp tgt data) ∧ SlaveAdj strict rest

theorem SlaveAdj.append {a b : List Op} (ha : SlaveAdj true a) (hb : SlaveAdj true b) :
    SlaveAdj true (a ++ b) := by
  induction a with
  | nil => exact hb
  | cons op rest ih =>
    obtain ⟨h1, h2⟩ := ha
    refine ⟨?_, ih h2⟩
    intro src tgt fs fl data hop hn
    have := h1 src tgt fs fl data hop hn
    cases rest with
    | nil => simp at this
    | cons nxt r => exact this

theorem SlaveAdj.weaken {s s' : List Op} (h : SlaveAdj true (s ++ s')) : SlaveAdj false s := by
  induction s with
  | nil => trivial
  | cons op rest ih =>
    obtain ⟨h1, h2⟩ := h
    refine ⟨?_, ih h2⟩
    intro src tgt fs fl data hop hn
    have := h1 src tgt fs fl data hop hn
    cases rest with
    | nil => rfl
    | cons nxt r => exact this

theorem SlaveAdj.of_true {s : List Op} (h : SlaveAdj true s) : SlaveAdj false s := by
  have : SlaveAdj true (s ++ []) := by simpa using h
  exact this.weaken

theorem needsSlave_nil : needsSlave [] = false := by decide

theorem SlaveAdj.fsMountOps (src tgt fs o : Bytes) : SlaveAdj true (fsMountOps src tgt fs o) := by
  unfold Trace.fsMountOps
  by_cases h : needsSlave src = true
  · simp only [h, if_true]
    refine ⟨?_, ?_, trivial⟩
    · intro src' tgt' fs' fl' data' hop _
      simp only [mountOp, Op.mount.injEq] at hop
      obtain ⟨_, rfl, _, _, rfl⟩ := hop
      rfl
    · intro src' tgt' fs' fl' data' hop hn
      simp only [propOp, Op.mount.injEq] at hop
      rw [← hop.1, needsSlave_nil] at hn
      cases hn
  · simp only [h]
    refine ⟨?_, trivial⟩
    intro src' tgt' fs' fl' data' hop hn
    simp only [mountOp, Op.mount.injEq] at hop
    rw [← hop.1] at hn
    exact absurd hn h

theorem ItemSeg.slave {d : Defs} {m : Expanded} {s : List Op} (h : ItemSeg d m s) : SlaveAdj true s := by
  obtain ⟨mk, mt, rfl, hmk, hmt⟩ := h
  apply SlaveAdj.append
  · rcases hmk with hmk | hmk <;> rw [hmk]
    · trivial
    · exact ⟨fun _ _ _ _ _ h => (by cases h), trivial⟩
  · rcases hmt with hmt | ⟨_, hmt⟩ <;> rw [hmt]
    · trivial
    · exact SlaveAdj.fsMountOps _ _ _ _

theorem ItemSegs.slave {d : Defs} {ms : List Expanded} {s : List Op} (h : ItemSegs d ms s) :
    SlaveAdj true s := by
  induction h with
  | nil => trivial
  | snoc _ hseg ih => exact ih.append hseg.slave

theorem MountOneTrace.slave {cfg : Config} {d : Defs} {l : Layer} {s : List Op}
    (h : MountOneTrace cfg d l s) : SlaveAdj true s := by
  obtain ⟨ov, it, rfl, hov, hit⟩ := h
  apply SlaveAdj.append
  · rcases hov with hov | ⟨_, _, bl, _, hov⟩ <;> rw [hov]
    · trivial
    · have := SlaveAdj.fsMountOps b!"overlay" (buildPath cfg l) b!"overlay" (ovData cfg bl l)
      rw [fsMountOps_overlay] at this
      exact this
  · rcases hit with hit | ⟨ex, _, hit⟩
    · rw [hit]; trivial
    · exact hit.slave

theorem MountOneE.slave {cfg : Config} {d : Defs} {name : Bytes} {s : List Op}
    (h : MountOneE cfg d name s) : SlaveAdj false s := by
  rcases h with h | ⟨s', l, _, ht⟩
  · rw [h]; trivial
  · exact ht.slave.weaken

end Lc.MountTrace
