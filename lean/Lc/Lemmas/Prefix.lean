/-
  Byte-lexicographic order (`bytesLt`, Go's `<` on strings) is a strict total order, a
  proper prefix sorts strictly before its extensions (`prefix_lt`), and therefore in a
  strictly sorted list a path occurs before everything it is a proper prefix of
  (`parent_before_child`).  Reused by C02, C03, C06.  Core Lean only.
-/
import Lc.Base.Bytes

namespace Lc

theorem bytesLt_irrefl (a : Bytes) : bytesLt a a = false := by
  induction a with
  | nil => rfl
  | cons x xs ih => simp [bytesLt, ih]

theorem bytesLt_nil_right (a : Bytes) : bytesLt a [] = false := by
  cases a <;> rfl

theorem bytesLt_cons (a b : Nat) (as bs : Bytes) :
    bytesLt (a :: as) (b :: bs) = true ↔ a < b ∨ (a = b ∧ bytesLt as bs = true) := by
  show (if a < b then true else if b < a then false else bytesLt as bs) = true ↔ _
  by_cases h1 : a < b
  · simp [h1]
  · by_cases h2 : b < a
    · have : a ≠ b := by omega
      simp [h1, h2, this]
    · have : a = b := by omega
      simp [h1, h2, this]

theorem bytesLt_trans : ∀ {a b c : Bytes},
    bytesLt a b = true → bytesLt b c = true → bytesLt a c = true := by
  intro a
  induction a with
  | nil =>
    intro b c h1 h2
    cases c with
    | nil => rw [bytesLt_nil_right] at h2; cases h2
    | cons z zs => rfl
  | cons x xs ih =>
    intro b c h1 h2
    cases b with
    | nil => simp [bytesLt] at h1
    | cons y ys =>
      cases c with
      | nil => rw [bytesLt_nil_right] at h2; cases h2
      | cons z zs =>
        rw [bytesLt_cons] at h1 h2 ⊢
        rcases h1 with h1 | ⟨e1, h1⟩
        · rcases h2 with h2 | ⟨e2, _⟩
          · left; omega
          · left; omega
        · rcases h2 with h2 | ⟨e2, h2⟩
          · left; omega
          · right; exact ⟨by omega, ih h1 h2⟩

theorem bytesLt_asymm {a b : Bytes} (h : bytesLt a b = true) : bytesLt b a = false := by
  cases hba : bytesLt b a with
  | false => rfl
  | true =>
    have := bytesLt_trans h hba
    rw [bytesLt_irrefl] at this
    cases this

/-- trichotomy -/
theorem bytesLt_total : ∀ (a b : Bytes), bytesLt a b = true ∨ a = b ∨ bytesLt b a = true := by
  intro a
  induction a with
  | nil =>
    intro b
    cases b with
    | nil => right; left; rfl
    | cons y ys => left; rfl
  | cons x xs ih =>
    intro b
    cases b with
    | nil => right; right; rfl
    | cons y ys =>
      rw [bytesLt_cons, bytesLt_cons]
      rcases Nat.lt_trichotomy x y with h | h | h
      · left; left; exact h
      · rcases ih ys with h2 | h2 | h2
        · left; right; exact ⟨h, h2⟩
        · right; left; rw [h, h2]
        · right; right; right; exact ⟨h.symm, h2⟩
      · right; right; left; exact h

theorem bytesLt_ne {a b : Bytes} (h : bytesLt a b = true) : a ≠ b := by
  intro e
  rw [e, bytesLt_irrefl] at h
  cases h

/-- **A proper prefix sorts strictly before its extension**, for all byte strings. -/
theorem prefix_lt (p s : Bytes) (h : s ≠ []) : bytesLt p (p ++ s) = true := by
  induction p with
  | nil =>
    cases s with
    | nil => exact absurd rfl h
    | cons c cs => rfl
  | cons a p ih =>
    show bytesLt (a :: p) (a :: (p ++ s)) = true
    rw [bytesLt_cons]
    right
    exact ⟨rfl, ih⟩

/-- everything that extends `d ++ [c]` sorts after `d` and, when `c < c'`, before everything
    that extends `d ++ [c']`: the members below a directory `d` (`c = '/'`) form one block
    except for siblings `d ++ c' ++ …` with `c' < '/'`, which sort between `d` and `d/…`. -/
theorem extension_lt_of_lt (d : Bytes) (c c' : Nat) (r r' : Bytes) (h : c < c') :
    bytesLt (d ++ c :: r) (d ++ c' :: r') = true := by
  induction d with
  | nil =>
    show bytesLt (c :: r) (c' :: r') = true
    rw [bytesLt_cons]; left; exact h
  | cons a d ih =>
    show bytesLt (a :: (d ++ c :: r)) (a :: (d ++ c' :: r')) = true
    rw [bytesLt_cons]; right; exact ⟨rfl, ih⟩

/-- `a` occurs in `l` strictly before an occurrence of `b` -/
def Before (l : List Bytes) (a b : Bytes) : Prop :=
  ∃ l1 l2, l = l1 ++ a :: l2 ∧ b ∈ l2

/-- strictly sorted by byte order -/
def StrictSorted (l : List Bytes) : Prop := l.Pairwise (fun a b => bytesLt a b = true)

theorem sorted_before {l : List Bytes} (hs : StrictSorted l) {a b : Bytes}
    (ha : a ∈ l) (hb : b ∈ l) (hlt : bytesLt a b = true) : Before l a b := by
  induction l with
  | nil => cases ha
  | cons x xs ih =>
    have hp := List.pairwise_cons.mp hs
    rcases List.mem_cons.mp ha with ha | ha
    · rcases List.mem_cons.mp hb with hb | hb
      · exfalso; rw [ha, hb, bytesLt_irrefl] at hlt; cases hlt
      · exact ⟨[], xs, by rw [ha]; rfl, hb⟩
    · rcases List.mem_cons.mp hb with hb | hb
      · exfalso
        have h1 : bytesLt x a = true := hp.1 a ha
        rw [hb] at hlt
        have := bytesLt_asymm h1
        rw [this] at hlt; cases hlt
      · obtain ⟨l1, l2, e, hb2⟩ := ih hp.2 ha hb
        exact ⟨x :: l1, l2, by rw [e]; rfl, hb2⟩

/-- **In a strictly sorted list a path precedes everything it is a proper prefix of.** -/
theorem parent_before_child {l : List Bytes} (hs : StrictSorted l) {d s : Bytes}
    (hd : d ∈ l) (hn : d ++ s ∈ l) (hne : s ≠ []) : Before l d (d ++ s) :=
  sorted_before hs hd hn (prefix_lt d s hne)

theorem StrictSorted.nodup {l : List Bytes} (hs : StrictSorted l) : l.Nodup := by
  unfold StrictSorted at hs
  exact hs.imp (fun h => bytesLt_ne h)

example : bytesLt b!"/usr/lib" b!"/usr/lib/x" = true := prefix_lt b!"/usr/lib" b!"/x" (by simp)
example : Before [b!"/", b!"/usr", b!"/usr-x", b!"/usr/bin"] b!"/usr" b!"/usr/bin" :=
  parent_before_child (s := b!"/bin") (by unfold StrictSorted; decide) (by decide) (by decide) (by simp)

end Lc
