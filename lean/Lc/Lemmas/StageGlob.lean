/-
  Helper lemmas for Props/C17Glob: `path.Join` of two clean absolute paths on components,
  what `List.drop` leaves of it, membership in the sorted set.  Core Lean only.
-/
import Lc.Model.StageGlob
import Lc.Lemmas.StageClosed
import Lc.Lemmas.DiskView
import Lc.Lemmas.Config

namespace Lc.StageGlob
open Lc Lc.StageLine Lc.Lemmas.Path Lc.ExportPath Lc.InLayers
open Lc.TreeWF (CleanAbs cleanAbs_absPath cleanAbs_comps under_absPath absPath_ne_root)

/-! ### `path.Join(a, b)` for clean absolute `a`, `b` -/

theorem mem_append_clean {ds cs : List Bytes} (hds : ∀ c ∈ ds, CleanName c)
    (hcs : ∀ c ∈ cs, CleanName c) : ∀ c ∈ ds ++ cs, CleanName c := by
  intro c hc
  rcases List.mem_append.mp hc with h | h
  · exact hds c h
  · exact hcs c h

/-- `path.Clean("/a/b" + "/" + "/c/d")`: the doubled slash goes -/
theorem pathClean_abs_abs (ds cs : List Bytes) (hds : ∀ c ∈ ds, CleanName c)
    (hcs : ∀ c ∈ cs, CleanName c) :
    pathClean (absPath ds ++ SLASH :: absPath cs) = absPath (ds ++ cs) := by
  have hall := mem_append_clean hds hcs
  have habs : isAbs (absPath ds ++ [SLASH]) = true := rfl
  rw [pathClean_eq_assemble, isAbs_append_sep, habs, pathComps_append_sep, pathComps_absPath ds hds,
    pathComps_absPath cs hcs, foldl_push true _ (clean_no_dotdot _ hall)]
  unfold assemble absPath
  simp

theorem absPath_ne_nil (cs : List Bytes) : absPath cs ≠ [] := by unfold absPath; simp

theorem pathJoin_abs_abs (ds cs : List Bytes) (hds : ∀ c ∈ ds, CleanName c)
    (hcs : ∀ c ∈ cs, CleanName c) :
    pathJoin [absPath ds, absPath cs] = absPath (ds ++ cs) := by
  rw [Lc.Lemmas.Config.pathJoin_two _ _ (absPath_ne_nil ds)]
  exact pathClean_abs_abs ds cs hds hcs

/-- below a root other than "/" the joined path is the plain concatenation -/
theorem absPath_append_abs (ds cs : List Bytes) (hd : ds ≠ []) (hc : cs ≠ []) :
    absPath (ds ++ cs) = absPath ds ++ absPath cs := by
  rw [absPath_append ds cs hd hc]; rfl

/-- `path.Join(prefix, rel)` for a relative clean tail -/
theorem pathJoin_abs_rel (ds cs : List Bytes) (hds : ∀ c ∈ ds, CleanName c)
    (hcs : ∀ c ∈ cs, CleanName c) (hne : cs ≠ []) :
    pathJoin [absPath ds, joinWith SLASH cs] = absPath (ds ++ cs) := by
  rw [Lc.Lemmas.Config.pathJoin_two _ _ (absPath_ne_nil ds)]
  exact Lc.DiskView.pathClean_absPath_join ds cs hds hcs hne

theorem absPath_eq_root_iff (cs : List Bytes) (h : ∀ c ∈ cs, CleanName c) :
    absPath cs = [SLASH] ↔ cs = [] := by
  constructor
  · intro e
    by_cases hc : cs = []
    · exact hc
    · exact absurd e (absPath_ne_root cs h hc)
  · intro e; rw [e]; rfl

/-! ### the sorted set -/

theorem mem_insertSorted (x y : Bytes) (l : List Bytes) : y ∈ insertSorted x l ↔ y = x ∨ y ∈ l := by
  induction l with
  | nil => simp [insertSorted]
  | cons z zs ih =>
    unfold insertSorted
    by_cases h1 : (x == z) = true
    · have : x = z := by simpa using h1
      simp [this]
    · by_cases h2 : bytesLt x z = true
      · simp [h1, h2]
      · simp only [h1, h2, if_false, Bool.false_eq_true, List.mem_cons, ih]
        constructor
        · rintro (h | h | h)
          · exact Or.inr (Or.inl h)
          · exact Or.inl h
          · exact Or.inr (Or.inr h)
        · rintro (h | h | h)
          · exact Or.inr (Or.inl h)
          · exact Or.inl h
          · exact Or.inr (Or.inr h)

theorem mem_foldl_insert (l : List Bytes) : ∀ (s : List Bytes) (y : Bytes),
    y ∈ l.foldl (fun s m => insertSorted m s) s ↔ y ∈ l ∨ y ∈ s := by
  induction l with
  | nil => intro s y; simp
  | cons x xs ih =>
    intro s y
    simp only [List.foldl_cons, ih, mem_insertSorted, List.mem_cons]
    constructor
    · rintro (h | h | h)
      · exact Or.inl (Or.inr h)
      · exact Or.inl (Or.inl h)
      · exact Or.inr h
    · rintro ((h | h) | h)
      · exact Or.inr (Or.inl h)
      · exact Or.inl h
      · exact Or.inr (Or.inr h)

theorem mem_toSet (l : List Bytes) (y : Bytes) : y ∈ toSet l ↔ y ∈ l := by
  unfold toSet; rw [mem_foldl_insert]; simp

/-- every path the glob yields is a path of the tree -/
theorem globHost_sub (t : HostTree) (pattern : Bytes) (r : Bool) (m : Bytes)
    (h : m ∈ globHost t pattern r) : m ∈ t.paths := by
  unfold globHost at h
  rw [mem_toSet] at h
  cases r with
  | false =>
    simp only [Bool.false_eq_true, if_false, globTop, List.mem_filter] at h
    exact h.1
  | true =>
    simp only [if_true, expandSubdirs, globTop, List.mem_flatMap, List.mem_filter, List.mem_cons] at h
    obtain ⟨a, ⟨ha, _⟩, hm⟩ := h
    rcases hm with hm | hm
    · rw [hm]; exact ha
    · split at hm
      · exact (List.mem_filter.mp hm).1
      · cases hm

/-! ### a clean path strictly below a clean directory -/

/-- `m` strictly below `d` (both clean and absolute): `m = path.Join(d, n)` for a clean absolute
    `n` other than "/", on components -/
theorem below_comps {d m : Bytes} (hd : CleanAbs d) (hm : CleanAbs m) (hb : strictlyBelow d m = true) :
    ∃ ds ts, (∀ c ∈ ds, CleanName c) ∧ (∀ c ∈ ts, CleanName c) ∧ ts ≠ [] ∧
      d = absPath ds ∧ m = absPath (ds ++ ts) := by
  obtain ⟨ds, hds, ed⟩ := cleanAbs_comps d hd
  obtain ⟨cs, hcs, em⟩ := cleanAbs_comps m hm
  unfold strictlyBelow at hb
  simp only [Bool.and_eq_true, bne_iff_ne, ne_eq] at hb
  obtain ⟨hne, hu⟩ := hb
  rw [ed, em, under_absPath ds cs hds hcs] at hu
  obtain ⟨ts, ets⟩ := hu
  have hts : ∀ c ∈ ts, CleanName c := fun c hc => hcs c (by rw [← ets]; simp [hc])
  refine ⟨ds, ts, hds, hts, ?_, ed, by rw [em, ets]⟩
  intro e
  apply hne
  rw [em, ed, ← ets, e]; simp

end Lc.StageGlob
