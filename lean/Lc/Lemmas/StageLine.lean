/-
  Helper lemmas for C17 (mod= masks): bit algebra of and/or masks, the model's symbolic
  loop on clauses of the supported forms; the name `parseLine` stores (`parseLineFields_name`:
  options never touch it, the name check stores the cleaned second field or nothing).
  Not property theorems.
-/
import Lc.Model.StageLine
import Lc.Spec.Chmod

namespace Lc.Lemmas.StageLine
open Lc Lc.StageLine Lc.Spec

theorem digitsVal_octVal (s : Bytes) (acc : Nat) : digitsVal 8 s acc = Chmod.octVal s acc := by
  induction s generalizing acc with
  | nil => rfl
  | cons c cs ih => simp [digitsVal, Chmod.octVal, ih]

theorem isOct_eq : isOctDigit = Chmod.isOct := rfl

/-! symbolic half -/

def isRwxst (c : Nat) : Bool := c == 114 || c == 119 || c == 120 || c == 115 || c == 116

/-- a clause of the form the parser supports: at most one who letter, one of + -, letters from rwxst -/
structure SClause where
  who : Option Nat
  minus : Bool
  perms : Bytes

def SClause.wf (c : SClause) : Bool :=
  (match c.who with | none => true | some w => Chmod.isWho w) && c.perms.all isRwxst
def SClause.whoL (c : SClause) : Bytes := match c.who with | none => [] | some w => [w]
def SClause.render (c : SClause) : Bytes := c.whoL ++ (if c.minus then 45 else 43) :: c.perms
def SClause.ast (c : SClause) : Chmod.Clause :=
  ⟨c.whoL, [⟨if c.minus then .remove else .add, c.perms⟩]⟩

def bitsOf (c : Nat) : Nat := (settingMask? c).getD 0
def vfold (ps : Bytes) (acc : Nat) : Nat := ps.foldl (fun acc c => acc ||| bitsOf c) acc

theorem vfold_acc (ps : Bytes) (acc : Nat) : vfold ps acc = acc ||| vfold ps 0 := by
  induction ps generalizing acc with
  | nil => simp [vfold]
  | cons c cs ih =>
    simp only [vfold, List.foldl_cons] at ih ⊢
    rw [ih (acc ||| bitsOf c), ih (0 ||| bitsOf c)]
    simp [Nat.or_assoc]

/-- bit lemma for two successive removals -/
theorem clear_twice (x b F g : Nat) (hg : g < 4096) :
    x &&& (4095 ^^^ (b &&& g)) &&& (4095 ^^^ (F &&& g)) = x &&& (4095 ^^^ ((b ||| F) &&& g)) := by
  apply Nat.eq_of_testBit_eq
  intro i
  have hP : Nat.testBit 4095 i = decide (i < 12) := by
    have := @Nat.testBit_two_pow_sub_one 12 i
    simpa using this
  simp only [Nat.testBit_and, Nat.testBit_xor, Nat.testBit_or, hP]
  by_cases hi : i < 12
  · simp only [hi, decide_true]
    cases x.testBit i <;> cases b.testBit i <;> cases F.testBit i <;> cases g.testBit i <;> rfl
  · have hgi : g.testBit i = false := by
      apply Nat.testBit_lt_two_pow
      calc g < 2 ^ 12 := hg
        _ ≤ 2 ^ i := Nat.pow_le_pow_right (by omega) (by omega)
    simp [hi, hgi]

def permsMasks (minus : Bool) (g : Nat) : Bytes → Nat × Nat → Nat × Nat
  | [], ao => ao
  | c :: cs, (a, o) =>
    let sm := bitsOf c &&& g
    permsMasks minus g cs (if minus then (a &&& (4095 ^^^ sm), o &&& (4095 ^^^ sm)) else (a, o ||| sm))

theorem permsMasks_add (g : Nat) (ps : Bytes) (a o : Nat) :
    permsMasks false g ps (a, o) = (a, o ||| (vfold ps 0 &&& g)) := by
  induction ps generalizing o with
  | nil => simp [permsMasks, vfold]
  | cons c cs ih =>
    simp only [permsMasks, Bool.false_eq_true, if_false]
    rw [ih]
    have : vfold (c :: cs) 0 = bitsOf c ||| vfold cs 0 := by
      simp only [vfold, List.foldl_cons]
      have := vfold_acc cs (0 ||| bitsOf c)
      simp only [vfold] at this
      rw [this]; simp
    rw [this, Nat.and_or_distrib_right, Nat.or_assoc]

theorem and_4095 (a : Nat) (h : a < 4096) : a &&& 4095 = a := by
  have := @Nat.and_two_pow_sub_one_eq_mod a 12
  simp at this
  rw [this]; omega

theorem permsMasks_remove (g : Nat) (hg : g < 4096) (ps : Bytes) (a o : Nat) (ha : a < 4096) (ho : o < 4096) :
    permsMasks true g ps (a, o) =
      (a &&& (4095 ^^^ (vfold ps 0 &&& g)), o &&& (4095 ^^^ (vfold ps 0 &&& g))) := by
  induction ps generalizing a o with
  | nil => simp [permsMasks, vfold, and_4095 a ha, and_4095 o ho]
  | cons c cs ih =>
    simp only [permsMasks, if_true]
    rw [ih _ _ (Nat.lt_of_le_of_lt Nat.and_le_left ha) (Nat.lt_of_le_of_lt Nat.and_le_left ho)]
    have : vfold (c :: cs) 0 = bitsOf c ||| vfold cs 0 := by
      simp only [vfold, List.foldl_cons]
      have := vfold_acc cs (0 ||| bitsOf c)
      simp only [vfold] at this
      rw [this]; simp
    rw [this, clear_twice a _ _ g hg, clear_twice o _ _ g hg]

theorem rwxst_cases (c : Nat) (h : isRwxst c = true) : c = 114 ∨ c = 119 ∨ c = 120 ∨ c = 115 ∨ c = 116 := by
  simp [isRwxst] at h; omega

theorem perms_loop (minus : Bool) (g : Nat) (hg0 : g ≠ 0) (ps rest : Bytes)
    (hps : ps.all isRwxst = true) (a o sm : Nat) :
    ∃ sm', modLoop (ps ++ rest) ⟨a, o, g, sm, if minus then 2 else 1⟩ =
      modLoop rest ⟨(permsMasks minus g ps (a, o)).1, (permsMasks minus g ps (a, o)).2, g, sm',
                    if minus then 2 else 1⟩ := by
  induction ps generalizing a o sm with
  | nil => exact ⟨sm, by simp [permsMasks]⟩
  | cons c cs ih =>
    simp only [List.all_cons, Bool.and_eq_true] at hps
    have hc := rwxst_cases c hps.1
    have hg0' : (g == 0) = false := by simpa using hg0
    cases minus with
    | false =>
      obtain ⟨sm', h⟩ := ih hps.2 a (o ||| (bitsOf c &&& g)) (bitsOf c &&& g)
      refine ⟨sm', ?_⟩
      have e : permsMasks false g (c :: cs) (a, o) = permsMasks false g cs (a, o ||| (bitsOf c &&& g)) := by
        simp [permsMasks]
      rw [e, ← h]
      rcases hc with rfl | rfl | rfl | rfl | rfl <;>
        simp [modLoop, modStep, groupMask?, settingMask?, hg0', bitsOf]
    | true =>
      obtain ⟨sm', h⟩ := ih hps.2 (a &&& (4095 ^^^ (bitsOf c &&& g))) (o &&& (4095 ^^^ (bitsOf c &&& g))) (bitsOf c &&& g)
      refine ⟨sm', ?_⟩
      have e : permsMasks true g (c :: cs) (a, o) = permsMasks true g cs
          (a &&& (4095 ^^^ (bitsOf c &&& g)), o &&& (4095 ^^^ (bitsOf c &&& g))) := by
        simp [permsMasks]
      rw [e, ← h]
      rcases hc with rfl | rfl | rfl | rfl | rfl <;>
        simp [modLoop, modStep, groupMask?, settingMask?, hg0', bitsOf, permBits]

theorem comma_step (rest : Bytes) (a o g sm aor : Nat) :
    modLoop (44 :: rest) ⟨a, o, g, sm, aor⟩ = modLoop rest ⟨a, o, 0, 0, 0⟩ := by
  simp [modLoop, modStep, groupMask?, settingMask?]

theorem who_cases (w : Nat) (h : Chmod.isWho w = true) : w = 117 ∨ w = 103 ∨ w = 111 ∨ w = 97 := by
  simp [Chmod.isWho] at h; omega

theorem whoMask_facts (c : SClause) (h : c.wf = true) :
    Chmod.whoMask c.whoL ≠ 0 ∧ Chmod.whoMask c.whoL < 4096 := by
  unfold SClause.wf at h
  unfold SClause.whoL
  cases hw : c.who with
  | none => simp [Chmod.whoMask]
  | some w =>
    rw [hw] at h
    simp only [Bool.and_eq_true] at h
    rcases who_cases w h.1 with rfl | rfl | rfl | rfl <;> simp [Chmod.whoMask, Chmod.whoMask1]

/-- the model on one rendered clause, from a reset state -/
theorem clause_loop (c : SClause) (h : c.wf = true) (rest : Bytes) (a o : Nat) :
    ∃ sm' aor, modLoop (c.render ++ rest) ⟨a, o, 0, 0, 0⟩ =
      modLoop rest ⟨(permsMasks c.minus (Chmod.whoMask c.whoL) c.perms (a, o)).1,
                    (permsMasks c.minus (Chmod.whoMask c.whoL) c.perms (a, o)).2,
                    Chmod.whoMask c.whoL, sm', aor⟩ := by
  have hf := whoMask_facts c h
  have hps : c.perms.all isRwxst = true := by
    unfold SClause.wf at h; simp only [Bool.and_eq_true] at h; exact h.2
  obtain ⟨sm', hl⟩ := perms_loop c.minus (Chmod.whoMask c.whoL) hf.1 c.perms rest hps a o 0
  refine ⟨sm', if c.minus then 2 else 1, ?_⟩
  rw [← hl]
  unfold SClause.render SClause.whoL
  unfold SClause.wf at h
  cases hw : c.who with
  | none =>
    cases c.minus <;>
      simp [modLoop, modStep, groupMask?, settingMask?, Chmod.whoMask, permBits]
  | some w =>
    rw [hw] at h
    simp only [Bool.and_eq_true] at h
    rcases who_cases w h.1 with rfl | rfl | rfl | rfl <;> cases c.minus <;>
      simp [modLoop, modStep, groupMask?, settingMask?, Chmod.whoMask, Chmod.whoMask1, permBits]

theorem foldl_bits (isDir : Bool) (m : Nat) (ps : Bytes) (h : ps.all isRwxst = true) (acc : Nat) :
    ps.foldl (fun acc c => acc ||| Chmod.permBits1 isDir m c) acc = vfold ps acc := by
  induction ps generalizing acc with
  | nil => rfl
  | cons c cs ih =>
    simp only [List.all_cons, Bool.and_eq_true] at h
    simp only [List.foldl_cons, vfold]
    have : Chmod.permBits1 isDir m c = bitsOf c := by
      rcases rwxst_cases c h.1 with rfl | rfl | rfl | rfl | rfl <;> simp [Chmod.permBits1, bitsOf, settingMask?]
    rw [this]
    exact ih h.2 _

theorem permValue_rwxst (isDir : Bool) (m : Nat) (ps : Bytes) (h : ps.all isRwxst = true) :
    Chmod.permValue isDir m ps = vfold ps 0 := by
  unfold Chmod.permValue
  split
  · simp [isRwxst] at h
  · simp [isRwxst] at h
  · simp [isRwxst] at h
  · exact foldl_bits isDir m ps h 0

theorem clause_sem (c : SClause) (h : c.wf = true) (a o : Nat) (ha : a < 4096) (ho : o < 4096)
    (isDir : Bool) (m : Nat) :
    Chmod.applyMasks (permsMasks c.minus (Chmod.whoMask c.whoL) c.perms (a, o)).1
        (permsMasks c.minus (Chmod.whoMask c.whoL) c.perms (a, o)).2 m
      = Chmod.applyClause isDir (Chmod.applyMasks a o m) c.ast ∧
    (permsMasks c.minus (Chmod.whoMask c.whoL) c.perms (a, o)).1 < 4096 ∧
    (permsMasks c.minus (Chmod.whoMask c.whoL) c.perms (a, o)).2 < 4096 := by
  have hf := whoMask_facts c h
  have hps : c.perms.all isRwxst = true := by
    unfold SClause.wf at h; simp only [Bool.and_eq_true] at h; exact h.2
  simp only [Chmod.applyClause, SClause.ast, List.foldl_cons, List.foldl_nil, Chmod.applyAction,
    permValue_rwxst isDir _ c.perms hps]
  cases hmn : c.minus with
  | false =>
    rw [permsMasks_add]
    simp only [Chmod.applyMasks, Bool.false_eq_true, if_false]
    refine ⟨by rw [Nat.or_assoc], ha, ?_⟩
    have : vfold c.perms 0 &&& Chmod.whoMask c.whoL < 2 ^ 12 :=
      Nat.lt_of_le_of_lt Nat.and_le_right hf.2
    exact Nat.or_lt_two_pow (n := 12) ho this
  | true =>
    rw [permsMasks_remove _ hf.2 _ _ _ ha ho]
    simp only [Chmod.applyMasks, if_true]
    refine ⟨?_, Nat.lt_of_le_of_lt Nat.and_le_left ha, Nat.lt_of_le_of_lt Nat.and_le_left ho⟩
    rw [Nat.and_or_distrib_right, Nat.and_assoc]

def renderMode (cs : List SClause) : Bytes := joinWith 44 (cs.map SClause.render)

theorem clauses_loop (cs : List SClause) (hne : cs ≠ []) (hwf : ∀ c ∈ cs, c.wf = true)
    (a o : Nat) (ha : a < 4096) (ho : o < 4096) :
    ∃ st, modLoop (renderMode cs) ⟨a, o, 0, 0, 0⟩ = some st ∧
      ∀ isDir m, Chmod.applyMasks st.andM st.orM m =
        (cs.map SClause.ast).foldl (Chmod.applyClause isDir) (Chmod.applyMasks a o m) := by
  induction cs generalizing a o with
  | nil => exact absurd rfl hne
  | cons c rest ih =>
    have hc := hwf c (by simp)
    cases rest with
    | nil =>
      obtain ⟨sm', aor, hl⟩ := clause_loop c hc [] a o
      simp only [List.append_nil] at hl
      refine ⟨_, by simp only [renderMode, List.map, joinWith]; rw [hl]; rfl, ?_⟩
      intro isDir m
      simpa using (clause_sem c hc a o ha ho isDir m).1
    | cons d rest' =>
      obtain ⟨sm', aor, hl⟩ := clause_loop c hc (44 :: renderMode (d :: rest')) a o
      have hs := fun isDir m => clause_sem c hc a o ha ho isDir m
      obtain ⟨st, hst, hsem⟩ := ih (by simp) (fun x hx => hwf x (by simp [hx])) _ _
        (hs false 0).2.1 (hs false 0).2.2
      refine ⟨st, ?_, ?_⟩
      · have : renderMode (c :: d :: rest') = c.render ++ 44 :: renderMode (d :: rest') := by
          simp [renderMode, joinWith]
        rw [this, hl, comma_step, hst]
      · intro isDir m
        rw [hsem isDir m, (hs isDir m).1]
        simp

theorem render_not_octal (cs : List SClause) (hne : cs ≠ []) : (renderMode cs).all isOctDigit = false := by
  cases cs with
  | nil => exact absurd rfl hne
  | cons c rest =>
    have hmem : (if c.minus then 45 else 43) ∈ renderMode (c :: rest) := by
      cases rest with
      | nil => simp [renderMode, joinWith, SClause.render]
      | cons d r => simp [renderMode, joinWith, SClause.render]
    rw [List.all_eq_false]
    refine ⟨_, hmem, ?_⟩
    cases c.minus <;> simp [isOctDigit]

/-! ### the name `parseLine` stores -/

theorem processOption_name (e : Entry) (lt k v : Bytes) : (processOption e lt k v).1.name = e.name := by
  unfold processOption
  repeat' split
  all_goals rfl

theorem optionsLoop_name (lt : Bytes) : ∀ (l : List Bytes) (e : Entry) (errs : List String),
    (optionsLoop lt l e errs).1.name = e.name := by
  intro l
  induction l with
  | nil => intro e errs; rfl
  | cons s rest ih =>
    intro e errs
    unfold optionsLoop
    split
    · exact ih _ _
    · exact ih _ _
    · simp only
      rw [ih]; exact processOption_name _ _ _ _

theorem optionsLoop_errs (lt : Bytes) : ∀ (l : List Bytes) (e : Entry) (errs : List String),
    ∃ extra, (optionsLoop lt l e errs).2 = errs ++ extra := by
  intro l
  induction l with
  | nil => intro e errs; exact ⟨[], by simp [optionsLoop]⟩
  | cons s rest ih =>
    intro e errs
    unfold optionsLoop
    split
    · obtain ⟨x, hx⟩ := ih e (errs ++ ["bad-option"]); exact ⟨"bad-option" :: x, by rw [hx]; simp⟩
    · obtain ⟨x, hx⟩ := ih e (errs ++ ["bad-option"]); exact ⟨"bad-option" :: x, by rw [hx]; simp⟩
    · simp only
      split
      · rename_i c _
        obtain ⟨x, hx⟩ := ih (processOption e lt (s.take _) (s.drop _)).1 (errs ++ [c])
        exact ⟨c :: x, by rw [hx]; simp⟩
      · exact ih _ _

/-- the name check of `parseLine` on its own (the second `let` of `parseLineFields`) -/
def nameStage (name : Bytes) (e0 : Entry) (errs0 : List String) : Entry × List String :=
  if name.length < 2 then (e0, errs0 ++ ["no-name"])
  else if name.head? != some 47 then (e0, errs0 ++ ["not-absolute"])
  else if (pathClean name).length < 2 then (e0, errs0 ++ ["no-name"])
  else match parseSource (pathClean name) with
    | .ok w => ({ e0 with name := pathClean name, hasWildcard := w }, errs0)
    | .error (.err c) => (e0, errs0 ++ [c])
    | .error .panic => (e0, errs0 ++ ["panic"])

/-- `parseLineFields` is: type word, then `nameStage`, then the options loop -/
theorem parseLineFields_stages (fields : List Bytes) : ∃ (adding : Bool) (lt : Nat) (errs0 : List String),
    parseLineFields fields =
      ⟨adding,
       (optionsLoop (fields.getD 0 []) (fields.drop 2)
          (nameStage (fields.getD 1 []) { ltype := lt } errs0).1
          (nameStage (fields.getD 1 []) { ltype := lt } errs0).2).1,
       (optionsLoop (fields.getD 0 []) (fields.drop 2)
          (nameStage (fields.getD 1 []) { ltype := lt } errs0).1
          (nameStage (fields.getD 1 []) { ltype := lt } errs0).2).2⟩ := by
  unfold parseLineFields
  extract_lets ltype name
  split
  rename_i adding lt errs0 _
  exact ⟨adding, lt, errs0, rfl⟩

theorem nameStage_name (name : Bytes) (e0 : Entry) (errs0 : List String) (h0 : e0.name = []) :
    ((nameStage name e0 errs0).1.name = [] ∧ ∃ x, (nameStage name e0 errs0).2 = errs0 ++ [x]) ∨
    (isAbs name = true ∧ 2 ≤ (pathClean name).length ∧
      (nameStage name e0 errs0).1.name = pathClean name ∧ (nameStage name e0 errs0).2 = errs0) := by
  unfold nameStage
  split
  · left; exact ⟨h0, _, rfl⟩
  · split
    · left; exact ⟨h0, _, rfl⟩
    · rename_i hlen habs
      split
      · left; exact ⟨h0, _, rfl⟩
      · split
        · right
          refine ⟨?_, by omega, rfl, rfl⟩
          cases name with
          | nil => simp at hlen
          | cons x xs =>
            simp at habs
            rw [habs]; rfl
        · left; exact ⟨h0, _, rfl⟩
        · left; exact ⟨h0, _, rfl⟩

/-- the name `parseLine` stores: empty (then an error was logged), or the cleaned second
    field, which is absolute and at least two bytes long -/
theorem parseLineFields_name (fields : List Bytes) :
    ((parseLineFields fields).entry.name = [] ∧ (parseLineFields fields).errors ≠ []) ∨
    (isAbs (fields.getD 1 []) = true ∧ 2 ≤ (pathClean (fields.getD 1 [])).length ∧
      (parseLineFields fields).entry.name = pathClean (fields.getD 1 [])) := by
  obtain ⟨adding, lt, errs0, h⟩ := parseLineFields_stages fields
  rw [h]
  simp only [optionsLoop_name]
  rcases nameStage_name (fields.getD 1 []) { ltype := lt } errs0 rfl with ⟨h1, x, hx⟩ | ⟨h1, h2, h3, _⟩
  · left
    refine ⟨h1, ?_⟩
    obtain ⟨extra, he⟩ := optionsLoop_errs (fields.getD 0 []) (fields.drop 2)
      (nameStage (fields.getD 1 []) { ltype := lt } errs0).1 (nameStage (fields.getD 1 []) { ltype := lt } errs0).2
    rw [he, hx]
    simp
  · right; exact ⟨h1, h2, h3⟩

end Lc.Lemmas.StageLine
