/-
  Pure lemmas about `Kernel.kumount` on the kernel mount-table model (helper lemmas for the
  end-state theorems of Props/C03):
  * `kumount_ok`        what a successful unmount does: the entry the lookup of the target ends
                        on (`Kernel.mountedAt`), which no entry has as its parent, is taken out;
                        with unique ids nothing else,
  * `kumountSeq`        a sequence of unmount calls that stops at the first failure,
  * `kumountSeq_spec`   the table reached is the initial one minus one entry per target done,
  * `kumountSeq_cleared` targets = the mountpoints of a region, all done ⇒ the region is empty
                        and everything outside it is as before, in the same order,
  * `KWF`               = `KernelResolve.Tree`, the tree discipline of a table (ids, parents), an
                        invariant of the kernel model (`KTWF_empty`, `kmount_KTWF`, `kumount_KTWF`),
  * `NoHidden`          (Lemmas/KernelResolve) nothing is covered; kept by `kumount`
                        (`kumount_noHidden`) and by a mount on a target below which nothing is
                        mounted (`addMount_noHidden`, `kmount_noHidden`),
  * `kumountSeq_succeeds` under `NoHidden`, targets = the mountpoints of the region at/below a
                        path, leaf-first ⇒ no call fails (no EBUSY, no EINVAL).
-/
import Lc.Model.Kernel
import Lc.Lemmas.ExportFs
import Lc.Lemmas.KernelResolve

namespace Lc.KernelUmount
open Lc Lc.Kernel Lc.KernelResolve

/-! ### the region "at or below a path" as package manage sees it -/

/-- the filter of `getMountAndSubmounts`: `q` is `bp` or starts with `bp ++ "/"` -/
def atOrBelow (bp q : Bytes) : Bool := q == bp || hasPrefix q (bp ++ [47])

/-- `later` is a proper extension of `earlier` as a byte string -/
def Ext (earlier later : Bytes) : Prop := ∃ s, s ≠ [] ∧ later = earlier ++ s

/-- a path strictly below a path of the region is in the region and properly extends it
    (`bp = "/"` is the one degenerate case: there the region test looks for `"//"`) -/
theorem below_region (bp p q : Bytes) (hbp : bp ≠ [47]) (hp : atOrBelow bp p = true)
    (hu : pathUnder p q = true) (hne : q ≠ p) : atOrBelow bp q = true ∧ Ext p q := by
  unfold pathUnder at hu
  have hq : (q == p) = false := by simpa using hne
  rw [hq, Bool.false_or] at hu
  by_cases hroot : p = [47]
  · subst hroot
    simp only [beq_self_eq_true, if_true] at hu
    obtain ⟨s, rfl⟩ := (ExportFs.hasPrefix_iff _ _).mp hu
    have hs : s ≠ [] := by
      intro h; subst h; exact hne rfl
    refine ⟨?_, s, hs, rfl⟩
    unfold atOrBelow at hp ⊢
    rcases Bool.or_eq_true_iff.mp hp with h | h
    · exact absurd (beq_iff_eq.mp h).symm hbp
    · obtain ⟨t, ht⟩ := (ExportFs.hasPrefix_iff _ _).mp h
      have hb : bp = [] := by
        cases bp with
        | nil => rfl
        | cons b bs =>
          have := congrArg List.length ht
          simp at this
      subst hb
      simp [hasPrefix]
  · have hr : (p == [47]) = false := by simpa using hroot
    simp only [hr, Bool.false_eq_true, if_false] at hu
    obtain ⟨s, rfl⟩ := (ExportFs.hasPrefix_iff _ _).mp hu
    refine ⟨?_, 47 :: s, by simp, by simp⟩
    unfold atOrBelow at hp ⊢
    rcases Bool.or_eq_true_iff.mp hp with h | h
    · have := beq_iff_eq.mp h
      subst this
      exact Bool.or_eq_true_iff.mpr (.inr ((ExportFs.hasPrefix_iff _ _).mpr ⟨s, rfl⟩))
    · obtain ⟨t, rfl⟩ := (ExportFs.hasPrefix_iff _ _).mp h
      exact Bool.or_eq_true_iff.mpr (.inr ((ExportFs.hasPrefix_iff _ _).mpr ⟨t ++ 47 :: s, by simp⟩))

/-! ### `topmostAt` and `kumount` -/

theorem topmostAt_some {mnts : List KMnt} {p : Bytes} {m : KMnt} (h : topmostAt mnts p = some m) :
    ∃ a b, mnts = a ++ m :: b ∧ m.mp = p ∧ ∀ x ∈ b, x.mp ≠ p := by
  unfold topmostAt at h
  obtain ⟨hm, as, bs, he, hall⟩ := List.find?_eq_some_iff_append.mp h
  refine ⟨bs.reverse, as.reverse, ?_, by simpa using hm, ?_⟩
  · have := congrArg List.reverse he
    simpa using this
  · intro x hx
    have := hall x (List.mem_reverse.mp hx)
    simpa using this

theorem topmostAt_none {mnts : List KMnt} {p : Bytes} (h : topmostAt mnts p = none) :
    ∀ x ∈ mnts, x.mp ≠ p := by
  unfold topmostAt at h
  intro x hx
  have := List.find?_eq_none.mp h x (List.mem_reverse.mpr hx)
  simpa using this

theorem topmostAt_isSome {mnts : List KMnt} {p : Bytes} (h : ∃ x ∈ mnts, x.mp = p) :
    ∃ m, topmostAt mnts p = some m := by
  cases ht : topmostAt mnts p with
  | some m => exact ⟨m, rfl⟩
  | none =>
    obtain ⟨x, hx, hp⟩ := h
    exact absurd hp (topmostAt_none ht x hx)

/-- taking out the entry with a given id, ids being unique, removes exactly that entry -/
theorem filter_id_ne {a b : List KMnt} {m : KMnt} (hn : ((a ++ m :: b).map (·.id)).Nodup) :
    (a ++ m :: b).filter (·.id != m.id) = a ++ b := by
  rw [List.map_append, List.map_cons] at hn
  have hn' := List.nodup_append.mp hn
  obtain ⟨_, h2, h3⟩ := hn'
  have h2' := List.nodup_cons.mp h2
  have ha : ∀ x ∈ a, (x.id != m.id) = true := by
    intro x hx
    have := h3 x.id (List.mem_map.mpr ⟨x, hx, rfl⟩) m.id (by simp)
    simpa using this
  have hb : ∀ x ∈ b, (x.id != m.id) = true := by
    intro x hx
    have : m.id ≠ x.id := fun e => h2'.1 (e ▸ List.mem_map.mpr ⟨x, hx, rfl⟩)
    simpa using fun e => this e.symm
  rw [List.filter_append, List.filter_cons]
  simp only [bne_self_eq_false, Bool.false_eq_true, if_false]
  rw [List.filter_eq_self.mpr ha, List.filter_eq_self.mpr hb]

/-- a successful `kumount`: the entry the lookup of the target ends on, no entry having it as
    parent; the new table is the old one without the entries of that id, counters untouched -/
theorem kumount_ok {t t' : KTable} {p : Bytes} (h : kumount t p = .ok t') :
    ∃ a m b, t.mnts = a ++ m :: b ∧ m.mp = p ∧ mountedAt t.mnts p = some m ∧
      (∀ c ∈ t.mnts, c.parent ≠ m.id) ∧
      t' = { t with mnts := t.mnts.filter (·.id != m.id) } := by
  unfold kumount at h
  split at h
  · cases h
  · rename_i m hm
    obtain ⟨_, hmem, hp⟩ := mountedAt_spec hm
    obtain ⟨a, b, he⟩ := List.append_of_mem hmem
    split at h
    · cases h
    · rename_i hany
      injection h with h
      refine ⟨a, m, b, he, hp, hm, ?_, h.symm⟩
      intro c hc hpar
      apply hany
      exact List.any_eq_true.mpr ⟨c, hc, by simpa using hpar⟩

/-- … with unique ids exactly that one entry goes -/
theorem kumount_ok_nodup {t t' : KTable} {p : Bytes} (h : kumount t p = .ok t')
    (hn : (t.mnts.map (·.id)).Nodup) :
    ∃ a m b, t.mnts = a ++ m :: b ∧ m.mp = p ∧ mountedAt t.mnts p = some m ∧
      t' = { t with mnts := a ++ b } := by
  obtain ⟨a, m, b, he, hp, hb, _, ht⟩ := kumount_ok h
  refine ⟨a, m, b, he, hp, hb, ?_⟩
  rw [ht]
  congr 1
  rw [he] at hn ⊢
  exact filter_id_ne hn

/-- why an unmount fails: no lookup ends on a mount at that path (EINVAL: nothing is mounted
    there, or what is mounted there is hidden), or the mount found there is the parent of
    another mount (EBUSY) -/
theorem kumount_error {t : KTable} {p : Bytes} {e : KErr} (h : kumount t p = .error e) :
    (e = .einval ∧ mountedAt t.mnts p = none) ∨
    (e = .ebusy ∧ ∃ m, mountedAt t.mnts p = some m ∧ ∃ c ∈ t.mnts, c.parent = m.id) := by
  unfold kumount at h
  split at h
  · rename_i hn
    injection h with h
    exact .inl ⟨h.symm, hn⟩
  · rename_i m hm
    split at h
    · rename_i hany
      injection h with h
      obtain ⟨c, hc, hp⟩ := List.any_eq_true.mp hany
      exact .inr ⟨h.symm, m, hm, c, hc, by simpa using hp⟩
    · cases h

/-- on a table without hidden mounts EINVAL means that nothing is mounted there -/
theorem mountedAt_none_noHidden {mnts : List KMnt} (h : NoHidden mnts) {p : Bytes}
    (hn : mountedAt mnts p = none) : ∀ x ∈ mnts, x.mp ≠ p := by
  rw [mountedAt_eq_topmostAt h] at hn
  exact topmostAt_none hn

/-! ### a sequence of unmount calls -/

/-- unmount the targets in order, stopping at the first failure:
    (targets done, table reached, the error that stopped it) -/
def kumountSeq (t : KTable) : List Bytes → List Bytes × KTable × Option KErr
  | [] => ([], t, none)
  | p :: ps =>
    match kumount t p with
    | .ok t' => let r := kumountSeq t' ps; (p :: r.1, r.2.1, r.2.2)
    | .error e => ([], t, some e)

/-- the targets done are an initial part of the list; all of it iff nothing failed, and
    otherwise the next target is the one the kernel refused in the table reached -/
theorem kumountSeq_prefix (t : KTable) (ts : List Bytes) :
    ∃ rest, ts = (kumountSeq t ts).1 ++ rest ∧
      ((kumountSeq t ts).2.2 = none → rest = []) ∧
      (∀ e, (kumountSeq t ts).2.2 = some e →
        ∃ p rest', rest = p :: rest' ∧ kumount (kumountSeq t ts).2.1 p = .error e) := by
  induction ts generalizing t with
  | nil => exact ⟨[], rfl, fun _ => rfl, fun e h => by simp [kumountSeq] at h⟩
  | cons p ps ih =>
    unfold kumountSeq
    cases hk : kumount t p with
    | error e =>
      refine ⟨p :: ps, rfl, fun h => by simp at h, ?_⟩
      intro e' he'
      simp only [Option.some.injEq] at he'
      subst he'
      exact ⟨p, ps, rfl, hk⟩
    | ok t' =>
      obtain ⟨rest, h1, h2, h3⟩ := ih t'
      exact ⟨rest, by simp only [List.cons_append]; rw [← h1], h2, h3⟩

/-- **what a sequence of unmounts leaves** (ids unique): the table reached is a sublist of
    the initial one — same order, nothing changed, nothing added —, its mountpoints together
    with the targets done are exactly the initial mountpoints (one entry went per target), and
    every entry outside a region that contains the targets done is still there -/
theorem kumountSeq_spec (t : KTable) (ts : List Bytes) (hn : (t.mnts.map (·.id)).Nodup) :
    (kumountSeq t ts).2.1.mnts.Sublist t.mnts ∧
    (t.mnts.map (·.mp)).Perm ((kumountSeq t ts).1 ++ (kumountSeq t ts).2.1.mnts.map (·.mp)) ∧
    (kumountSeq t ts).2.1.nextId = t.nextId ∧ (kumountSeq t ts).2.1.nextMinor = t.nextMinor ∧
    (∀ R : Bytes → Bool, (∀ p ∈ (kumountSeq t ts).1, R p = true) →
      (kumountSeq t ts).2.1.mnts.filter (fun m => !R m.mp) = t.mnts.filter (fun m => !R m.mp)) := by
  induction ts generalizing t with
  | nil => exact ⟨List.Sublist.refl _, by simp [kumountSeq], rfl, rfl, fun _ _ => rfl⟩
  | cons p ps ih =>
    unfold kumountSeq
    cases hk : kumount t p with
    | error e => exact ⟨List.Sublist.refl _, by simp, rfl, rfl, fun _ _ => rfl⟩
    | ok t' =>
      obtain ⟨a, m, b, he, hp, _, ht'⟩ := kumount_ok_nodup hk hn
      have hsub : t'.mnts.Sublist t.mnts := by
        rw [ht', he]
        exact List.Sublist.append (List.Sublist.refl a) (List.sublist_cons_self m b)
      have hn' : (t'.mnts.map (·.id)).Nodup := List.Nodup.sublist (hsub.map _) hn
      obtain ⟨i1, i2, i3, i4, i5⟩ := ih t' hn'
      refine ⟨i1.trans hsub, ?_, by rw [i3, ht'], by rw [i4, ht'], ?_⟩
      · have h0 : (t.mnts.map (·.mp)).Perm (p :: t'.mnts.map (·.mp)) := by
          rw [ht', he]
          simp only [List.map_append, List.map_cons, hp]
          exact List.perm_middle
        refine h0.trans ?_
        simp only [List.cons_append]
        exact List.Perm.cons p i2
      · intro R hR
        have hRp : R p = true := hR p (by simp)
        rw [i5 R (fun q hq => hR q (by simp [hq])), ht', he]
        simp only [List.filter_append, List.filter_cons, hp, hRp, Bool.not_true, Bool.false_eq_true,
          if_false]

/-- **the region is cleared**: when the targets are exactly the mountpoints of the entries
    of a region (as a multiset: stacked mounts count separately) and every call succeeded,
    the table reached is the initial one without the entries of the region — nothing of the
    region is left, everything else is there, unchanged and in the same order -/
theorem kumountSeq_cleared (t : KTable) (ts : List Bytes) (R : Bytes → Bool)
    (hn : (t.mnts.map (·.id)).Nodup)
    (hperm : ts.Perm ((t.mnts.filter (fun m => R m.mp)).map (·.mp)))
    (hok : (kumountSeq t ts).2.2 = none) :
    (kumountSeq t ts).2.1.mnts = t.mnts.filter (fun m => !R m.mp) := by
  obtain ⟨rest, hpre, hnone, _⟩ := kumountSeq_prefix t ts
  have hrest := hnone hok
  subst hrest
  rw [List.append_nil] at hpre
  obtain ⟨_, hp2, _, _, hfil⟩ := kumountSeq_spec t ts hn
  rw [← hpre] at hp2 hfil
  have hR : ∀ p ∈ ts, R p = true := by
    intro p hp
    have := hperm.mem_iff.mp hp
    obtain ⟨m, hm, rfl⟩ := List.mem_map.mp this
    simpa using (List.mem_filter.mp hm).2
  generalize (kumountSeq t ts).2.1.mnts = T at hp2 hfil ⊢
  -- count the entries of the region on both sides
  have hlen : ((t.mnts.map (·.mp)).filter R).length = ((ts ++ T.map (·.mp)).filter R).length :=
    (hp2.filter R).length_eq
  have h1 : (t.mnts.map (·.mp)).filter R = (t.mnts.filter (fun m => R m.mp)).map (·.mp) := by
    rw [List.filter_map]; rfl
  have h2 : ts.filter R = ts := List.filter_eq_self.mpr hR
  rw [h1, List.filter_append, h2, List.length_append, ← hperm.length_eq] at hlen
  have h3 : (T.map (·.mp)).filter R = [] := List.eq_nil_of_length_eq_zero (by omega)
  have h4 : T.filter (fun m => !R m.mp) = T := by
    apply List.filter_eq_self.mpr
    intro m hm
    have : m.mp ∉ (T.map (·.mp)).filter R := by rw [h3]; simp
    simp only [List.mem_filter, List.mem_map, not_and] at this
    have := this ⟨m, hm, rfl⟩
    simpa using this
  rw [← h4, hfil R hR]

/-! ### structural well-formedness of a table -/

/-- the tree discipline (`KernelResolve.Tree`): ids are unique; no entry is its own parent; an
    entry's parent is not listed after it; an entry lies at or below the mountpoint of its parent -/
abbrev KWF (mnts : List KMnt) : Prop := Tree mnts

theorem KWF.sublist {l l' : List KMnt} (hs : l'.Sublist l) (h : KWF l) : KWF l' where
  ids := List.Nodup.sublist (hs.map _) h.ids
  noSelf := fun c hc => h.noSelf c (hs.subset hc)
  under := fun c hc m hm => h.under c (hs.subset hc) m (hs.subset hm)
  parentFirst := List.Pairwise.sublist hs h.parentFirst

theorem kumount_sublist {t t' : KTable} {p : Bytes} (h : kumount t p = .ok t') :
    t'.mnts.Sublist t.mnts := by
  obtain ⟨_, _, _, _, _, _, _, ht⟩ := kumount_ok h
  rw [ht]
  exact List.filter_sublist

/-- taking a childless entry out of a table without hidden mounts leaves none hidden -/
theorem NoHidden.remove_leaf {a b : List KMnt} {m : KMnt} (h : NoHidden (a ++ m :: b))
    (hleaf : ∀ c ∈ a ++ m :: b, c.parent ≠ m.id) : NoHidden (a ++ b) := by
  have hs : (a ++ b).Sublist (a ++ m :: b) :=
    List.Sublist.append (List.Sublist.refl a) (List.sublist_cons_self m b)
  refine { toTree := KWF.sublist hs h.toTree, sib := ?_ }
  intro x hx y hy hne hsib
  have hx' := hs.subset hx
  have hy' := hs.subset hy
  apply h.sib x hx' y hy' hne
  -- a root of the smaller table is a root of the larger one: nothing hangs below `m`
  have hroot : ∀ z ∈ a ++ b, isRootIn (a ++ b) z = true → isRootIn (a ++ m :: b) z = true := by
    intro z hz hr
    cases hr2 : isRootIn (a ++ m :: b) z with
    | true => rfl
    | false =>
      exfalso
      obtain ⟨q, hq, hqid, hqne⟩ := isRootIn_false hr2
      have hqm : q = m ∨ q ∈ a ++ b := by
        rcases List.mem_append.mp hq with hq | hq
        · exact .inr (List.mem_append_left _ hq)
        · rcases List.mem_cons.mp hq with hq | hq
          · exact .inl hq
          · exact .inr (List.mem_append_right _ hq)
      rcases hqm with hqm | hqm
      · subst hqm
        exact hleaf z (hs.subset hz) hqid.symm
      · exact hqne (isRootIn_true hr q hqm hqid)
  rcases hsib with hsib | ⟨h1, h2⟩
  · exact .inl hsib
  · exact .inr ⟨hroot x hx h1, hroot y hy h2⟩

/-- **`kumount` keeps a table free of hidden mounts** -/
theorem kumount_noHidden {t t' : KTable} {p : Bytes} (h : NoHidden t.mnts) (hk : kumount t p = .ok t') :
    NoHidden t'.mnts := by
  obtain ⟨a, m, b, he, _, _, hleaf, ht⟩ := kumount_ok hk
  rw [ht]
  show NoHidden (t.mnts.filter (·.id != m.id))
  rw [he] at hleaf h ⊢
  rw [filter_id_ne h.ids]
  exact NoHidden.remove_leaf h hleaf

/-- in a table without hidden mounts, unmounting a mountpoint below which nothing else is
    mounted succeeds -/
theorem kumount_leaf_ok (t : KTable) (p : Bytes) (hnh : NoHidden t.mnts) (hex : ∃ x ∈ t.mnts, x.mp = p)
    (hleaf : ∀ c ∈ t.mnts, pathUnder p c.mp = true → c.mp = p) : ∃ t', kumount t p = .ok t' := by
  obtain ⟨m, hm⟩ := topmostAt_isSome hex
  obtain ⟨a, b, he, hp, hb⟩ := topmostAt_some hm
  unfold kumount
  rw [mountedAt_eq_topmostAt hnh, hm]
  have hmmem : m ∈ t.mnts := by rw [he]; simp
  have : t.mnts.any (fun c => c.parent == m.id) = false := by
    apply List.any_eq_false.mpr
    intro c hc hpar
    have hpar : c.parent = m.id := by simpa using hpar
    have hu := hnh.under c hc m hmmem hpar
    rw [hp] at hu
    have hcp := hleaf c hc hu
    -- c is stacked on m's mountpoint: it is m itself, or before m, or after m
    rw [he] at hc
    rcases List.mem_append.mp hc with hca | hcb
    · -- listed before its parent: excluded by `parentFirst`
      have hord := hnh.parentFirst
      rw [he, List.pairwise_append] at hord
      exact hord.2.2 c hca m (by simp) hpar
    · rcases List.mem_cons.mp hcb with hcm | hcb
      · subst hcm; exact hnh.noSelf c hmmem hpar
      · exact hb c hcb hcp
  simp [this]

/-- **no unmount of a leaf-first cover of a region fails**: no mount of the table hidden, the targets
    are exactly the mountpoints of the entries at or below `bp` (as a multiset), and no target
    properly extends an earlier one ⇒ every call succeeds -/
theorem kumountSeq_succeeds (bp : Bytes) (hbp : bp ≠ [47]) (ts : List Bytes) :
    ∀ (t : KTable), NoHidden t.mnts →
      ts.Perm ((t.mnts.filter (fun m => atOrBelow bp m.mp)).map (·.mp)) →
      ts.Pairwise (fun earlier later => ¬ Ext earlier later) →
      (kumountSeq t ts).2.2 = none := by
  induction ts with
  | nil => intro t _ _ _; rfl
  | cons p ps ih =>
    intro t hwf hperm hpw
    have hpmem : p ∈ (t.mnts.filter (fun m => atOrBelow bp m.mp)).map (·.mp) :=
      hperm.mem_iff.mp (by simp)
    obtain ⟨x, hx, hxp⟩ := List.mem_map.mp hpmem
    have hxmem := (List.mem_filter.mp hx).1
    have hRp : atOrBelow bp p = true := by rw [← hxp]; exact (List.mem_filter.mp hx).2
    have hleaf : ∀ c ∈ t.mnts, pathUnder p c.mp = true → c.mp = p := by
      intro c hc hu
      by_cases hcp : c.mp = p
      · exact hcp
      · exfalso
        obtain ⟨hRc, hext⟩ := below_region bp p c.mp hbp hRp hu hcp
        have hcm : c.mp ∈ p :: ps :=
          hperm.mem_iff.mpr (List.mem_map.mpr ⟨c, List.mem_filter.mpr ⟨hc, hRc⟩, rfl⟩)
        rcases List.mem_cons.mp hcm with h | h
        · exact hcp h
        · exact (List.pairwise_cons.mp hpw).1 c.mp h hext
    obtain ⟨t', ht'⟩ := kumount_leaf_ok t p hwf ⟨x, hxmem, hxp⟩ hleaf
    unfold kumountSeq
    rw [ht']
    show (kumountSeq t' ps).2.2 = none
    obtain ⟨a, m, b, he, hp, _, ht2⟩ := kumount_ok_nodup ht' hwf.ids
    apply ih t' (kumount_noHidden hwf ht') ?_ (List.pairwise_cons.mp hpw).2
    have h0 : (p :: ps).Perm (p :: (t'.mnts.filter (fun m => atOrBelow bp m.mp)).map (·.mp)) := by
      refine hperm.trans ?_
      rw [ht2, he]
      simp only [List.filter_append, List.filter_cons, hp, hRp, if_true, List.map_append, List.map_cons]
      exact List.perm_middle
    exact List.Perm.cons_inv h0

/-! ### `KWF` is an invariant of the kernel model -/

/-- well-formed table with its counters: ids and parent ids are below `nextId`, ids positive -/
structure KTWF (t : KTable) : Prop where
  wf : KWF t.mnts
  idLt : ∀ m ∈ t.mnts, 0 < m.id ∧ m.id < t.nextId
  parLt : ∀ m ∈ t.mnts, m.parent < t.nextId
  nextPos : 0 < t.nextId

theorem KTWF_empty : KTWF {} where
  wf := ⟨by simp, by simp, by simp, by simp⟩
  idLt := by simp
  parLt := by simp
  nextPos := by decide

/-- appending an entry with the next id whose parent is 0 or an entry containing it -/
theorem KTWF_snoc (t : KTable) (e : KMnt) (h : KTWF t) (hid : e.id = t.nextId)
    (hpar : e.parent = 0 ∨ ∃ p ∈ t.mnts, p.id = e.parent ∧ pathUnder p.mp e.mp = true) :
    KTWF { t with mnts := t.mnts ++ [e], nextId := t.nextId + 1 } := by
  have hpidLt : e.parent < t.nextId := by
    rcases hpar with h0 | ⟨p, hp, hpid, _⟩
    · rw [h0]; exact h.nextPos
    · rw [← hpid]; exact (h.idLt p hp).2
  refine ⟨⟨?_, ?_, ?_, ?_⟩, ?_, ?_, ?_⟩
  · simp only [List.map_append, List.map_cons, List.map_nil]
    rw [List.nodup_append]
    refine ⟨h.wf.ids, by simp, ?_⟩
    intro a ha b hb
    obtain ⟨x, hx, rfl⟩ := List.mem_map.mp ha
    have hb : b = e.id := by simpa using hb
    have := (h.idLt x hx).2
    omega
  · show (t.mnts ++ [e]).Pairwise _
    rw [List.pairwise_append]
    refine ⟨h.wf.parentFirst, by simp, ?_⟩
    intro a ha b hb
    have : b = e := by simpa using hb
    subst this
    intro hc
    have := h.parLt a ha
    omega
  · intro c hc
    rcases List.mem_append.mp hc with hc | hc
    · exact h.wf.noSelf c hc
    · have : c = e := by simpa using hc
      subst this
      omega
  · intro c hc0 x hx0 hcx
    rcases List.mem_append.mp hc0 with hc | hc
    · rcases List.mem_append.mp hx0 with hx | hx
      · exact h.wf.under c hc x hx hcx
      · have hxe : x = e := by simpa using hx
        have := h.parLt c hc
        rw [hxe] at hcx
        omega
    · have hce : c = e := by simpa using hc
      subst hce
      rcases List.mem_append.mp hx0 with hx | hx
      · rcases hpar with h0 | ⟨p, hp, hpid, hu⟩
        · have := (h.idLt x hx).1
          omega
        · have hxp : x = p := eq_of_id_eq h.wf.ids hx hp (by rw [hpid]; exact hcx.symm)
          subst hxp
          exact hu
      · have : x = c := by simpa using hx
        subst this
        omega
  · intro x hx
    rcases List.mem_append.mp hx with hx | hx
    · have := h.idLt x hx
      show 0 < x.id ∧ x.id < t.nextId + 1
      omega
    · have : x = e := by simpa using hx
      subst this
      have := h.nextPos
      show 0 < x.id ∧ x.id < t.nextId + 1
      omega
  · intro x hx
    rcases List.mem_append.mp hx with hx | hx
    · have := h.parLt x hx
      show x.parent < t.nextId + 1
      omega
    · have : x = e := by simpa using hx
      subst this
      show x.parent < t.nextId + 1
      omega
  · show 0 < t.nextId + 1
    omega

/-- the parent `addMount` assigns -/
def parentId (t : KTable) (mp : Bytes) : Nat :=
  match resolve t.mnts mp with
  | some p => p.id
  | none => 0

theorem addMount_eq (t : KTable) (m : KMnt) :
    addMount t m = { t with mnts := t.mnts ++ [{ m with id := t.nextId, parent := parentId t m.mp }],
                            nextId := t.nextId + 1 } := rfl

theorem addMount_KTWF (t : KTable) (m : KMnt) (h : KTWF t) : KTWF (addMount t m) := by
  rw [addMount_eq]
  apply KTWF_snoc t _ h rfl
  show parentId t m.mp = 0 ∨ ∃ p ∈ t.mnts, p.id = parentId t m.mp ∧ pathUnder p.mp m.mp = true
  unfold parentId
  cases hf : resolve t.mnts m.mp with
  | none => exact .inl rfl
  | some p =>
    obtain ⟨h1, h2⟩ := resolve_spec hf
    exact .inr ⟨p, h1, rfl, h2⟩

theorem KTWF_minor (t : KTable) (n : Nat) (h : KTWF t) : KTWF { t with nextMinor := n } :=
  ⟨h.wf, h.idLt, h.parLt, h.nextPos⟩

/-- every successful `kmount` keeps the table well-formed -/
theorem kmount_KTWF (t t' : KTable) (src tgt fstype : Bytes) (flags : Nat) (data : Bytes)
    (h : KTWF t) (hk : kmount t src tgt fstype flags data = .ok t') : KTWF t' := by
  unfold kmount at hk
  have hfold : ∀ (subs : List KMnt) (f : KMnt → KMnt) (acc : KTable), KTWF acc →
      KTWF (subs.foldl (fun acc c => addMount acc (f c)) acc) := by
    intro subs f
    induction subs with
    | nil => intro acc ha; exact ha
    | cons c cs ih => intro acc ha; exact ih _ (addMount_KTWF acc (f c) ha)
  split at hk
  · split at hk
    · cases hk
    · cases hk; exact h
  · split at hk
    · split at hk
      · cases hk
      · split at hk
        · cases hk
          exact hfold _ _ _ (addMount_KTWF _ _ h)
        · cases hk
          exact addMount_KTWF _ _ h
    · split at hk
      · cases hk
        exact addMount_KTWF _ _ (KTWF_minor t _ h)
      · split at hk
        · split at hk
          · cases hk; exact addMount_KTWF _ _ h
          · cases hk; exact addMount_KTWF _ _ (KTWF_minor t _ h)
        · cases hk
          exact addMount_KTWF _ _ (KTWF_minor t _ h)

/-- every successful `kumount` keeps the table well-formed -/
theorem kumount_KTWF (t t' : KTable) (p : Bytes) (h : KTWF t) (hk : kumount t p = .ok t') : KTWF t' := by
  have hs := kumount_sublist hk
  obtain ⟨_, _, _, _, _, _, _, ht⟩ := kumount_ok hk
  refine ⟨h.wf.sublist hs, fun m hm => ?_, fun m hm => ?_, ?_⟩
  · have := h.idLt m (hs.subset hm); rw [ht]; exact this
  · have := h.parLt m (hs.subset hm); rw [ht]; exact this
  · rw [ht]; exact h.nextPos

/-! ### mounting where nothing is mounted below keeps the table free of hidden mounts -/

/-- nothing is mounted strictly below `q` (a mount exactly at `q` is allowed: the new mount is
    then stacked on it) -/
def NoneBelow (mnts : List KMnt) (q : Bytes) : Prop := ∀ x ∈ mnts, pathUnder q x.mp = true → x.mp = q

theorem isRootIn_snoc (t : KTable) (h : KTWF t) (e : KMnt) (hid : e.id = t.nextId) (x : KMnt) (hx : x ∈ t.mnts) :
    isRootIn (t.mnts ++ [e]) x = isRootIn t.mnts x := by
  unfold isRootIn
  rw [List.any_append]
  have : ([e].any fun y => y.id == x.parent && y.id != x.id) = false := by
    have := h.parLt x hx
    simp only [List.any_cons, List.any_nil, Bool.or_false, Bool.and_eq_false_imp, beq_iff_eq]
    intro he
    omega
  rw [this, Bool.or_false]

/-- **`addMount` on a target below which nothing is mounted hides nothing** -/
theorem addMount_noHidden (t : KTable) (m : KMnt) (h : KTWF t) (hnh : NoHidden t.mnts)
    (hnb : NoneBelow t.mnts m.mp) : NoHidden (addMount t m).mnts := by
  have hk := addMount_KTWF t m h
  rw [addMount_eq] at hk ⊢
  refine { toTree := hk.wf, sib := ?_ }
  show ∀ a ∈ t.mnts ++ [_], ∀ b ∈ t.mnts ++ [_], _
  generalize hedef : ({ m with id := t.nextId, parent := parentId t m.mp } : KMnt) = e
  have heid : e.id = t.nextId := by rw [← hedef]
  have hemp : e.mp = m.mp := by rw [← hedef]
  have hepar : e.parent = parentId t m.mp := by rw [← hedef]
  -- the new entry and an old sibling of it: not nested
  have hnew : ∀ y ∈ t.mnts, Siblings (t.mnts ++ [e]) e y →
      pathUnder e.mp y.mp = false ∧ pathUnder y.mp e.mp = false := by
    intro y hy hsib
    -- it suffices to refute "y contains the target"
    have hcontra : pathUnder y.mp m.mp = true → False := by
      intro hyq
      cases hres : resolve t.mnts m.mp with
      | some c0 =>
        have hpid : e.parent = c0.id := by rw [hepar]; unfold parentId; rw [hres]
        have hc0 := resolve_mem hres
        -- e is not a root; so y hangs below c0 and contains the target: c0 was not the end
        have hroot : isRootIn (t.mnts ++ [e]) e = false := by
          unfold isRootIn
          have : ((t.mnts ++ [e]).any fun x => x.id == e.parent && x.id != e.id) = true := by
            apply List.any_eq_true.mpr
            refine ⟨c0, List.mem_append_left _ hc0, ?_⟩
            have := (h.idLt c0 hc0).2
            simp only [Bool.and_eq_true, beq_iff_eq, bne_iff_ne, ne_eq]
            exact ⟨hpid.symm, by omega⟩
          rw [this]; rfl
        rcases hsib with hs | ⟨h1, _⟩
        · have hyp : y.parent = c0.id := by rw [← hs, hpid]
          have hne : y.id ≠ c0.id := by rw [← hyp]; exact fun e' => hnh.noSelf y hy e'.symm
          have := resolve_terminal hnh.toTree hres y hy hyp hne
          rw [this] at hyq; cases hyq
        · rw [hroot] at h1; cases h1
      | none =>
        have hpid : e.parent = 0 := by rw [hepar]; unfold parentId; rw [hres]
        -- y is a root of the old table
        have hyroot : isRootIn t.mnts y = true := by
          rcases hsib with hs | ⟨_, h2⟩
          · cases hr : isRootIn t.mnts y with
            | true => rfl
            | false =>
              exfalso
              obtain ⟨q, hq, hqid, _⟩ := isRootIn_false hr
              have := (h.idLt q hq).1
              rw [hqid, ← hs, hpid] at this
              omega
          · rw [isRootIn_snoc t h e heid y hy] at h2; exact h2
        have := resolve_none hres y hy hyroot
        rw [this] at hyq; cases hyq
    constructor
    · cases hc : pathUnder e.mp y.mp with
      | false => rfl
      | true =>
        exfalso
        rw [hemp] at hc
        have := hnb y hy hc
        exact hcontra (by rw [this]; exact pathUnder_refl _)
    · cases hc : pathUnder y.mp e.mp with
      | false => rfl
      | true => exfalso; rw [hemp] at hc; exact hcontra hc
  intro a ha b hb hne hsib
  rcases List.mem_append.mp ha with ha1 | ha1 <;> rcases List.mem_append.mp hb with hb1 | hb1
  · -- both old
    apply hnh.sib a ha1 b hb1 hne
    rcases hsib with hs | ⟨h1, h2⟩
    · exact .inl hs
    · rw [isRootIn_snoc t h e heid a ha1] at h1
      rw [isRootIn_snoc t h e heid b hb1] at h2
      exact .inr ⟨h1, h2⟩
  · have hbe : b = e := by simpa using hb1
    rw [hbe] at hsib ⊢
    have hsib' : Siblings (t.mnts ++ [e]) e a := by
      rcases hsib with hs | ⟨h1, h2⟩
      · exact .inl hs.symm
      · exact .inr ⟨h2, h1⟩
    exact (hnew a ha1 hsib').2
  · have hae : a = e := by simpa using ha1
    rw [hae] at hsib ⊢
    exact (hnew b hb1 hsib).1
  · have h1 : a = e := by simpa using ha1
    have h2 : b = e := by simpa using hb1
    exact absurd (h1.trans h2.symm) hne

theorem NoneBelow_minor (t : KTable) (n : Nat) (q : Bytes) (h : NoneBelow t.mnts q) :
    NoneBelow ({ t with nextMinor := n } : KTable).mnts q := h

/-- **a mount call that is not a recursive bind, on a target below which nothing is mounted,
    leaves no mount hidden** (layercake's own calls have such targets when the configured imports
    list a mountpoint before the mountpoints below it) -/
theorem kmount_noHidden (t t' : KTable) (src tgt fstype : Bytes) (flags : Nat) (data : Bytes)
    (h : KTWF t) (hnh : NoHidden t.mnts) (hnb : NoneBelow t.mnts tgt)
    (hrec : (hasFlag flags MS_BIND && hasFlag flags MS_REC) = false ∨
      (hasFlag flags MS_REMOUNT || (flags / 131072) % 16 != 0) = true)
    (hk : kmount t src tgt fstype flags data = .ok t') : NoHidden t'.mnts := by
  unfold kmount at hk
  split at hk
  · split at hk
    · cases hk
    · cases hk; exact hnh
  · rename_i hstruct
    split at hk
    · rename_i hbind
      split at hk
      · cases hk
      · split at hk
        · rename_i hr
          rcases hrec with hrec | hrec
          · rw [hbind, hr] at hrec; cases hrec
          · exact absurd hrec hstruct
        · cases hk
          exact addMount_noHidden _ _ h hnh hnb
    · split at hk
      · cases hk
        exact addMount_noHidden _ _ (KTWF_minor t _ h) hnh hnb
      · split at hk
        · split at hk
          · cases hk; exact addMount_noHidden _ _ h hnh hnb
          · cases hk; exact addMount_noHidden _ _ (KTWF_minor t _ h) hnh hnb
        · cases hk
          exact addMount_noHidden _ _ (KTWF_minor t _ h) hnh hnb

/-! ### recursive bind -/

/-- mountpoints are clean paths: "/" or not ending in a slash -/
def CleanMps (mnts : List KMnt) : Prop := ∀ x ∈ mnts, x.mp = [47] ∨ x.mp.getLast? ≠ some 47

theorem sl_of_long {p : Bytes} (h : 2 ≤ p.length) : sl p = p ++ [47] := by
  unfold sl
  have : (p == [47]) = false := by
    cases hp : p == [47] with
    | false => rfl
    | true => have := beq_iff_eq.mp hp; rw [this] at h; simp at h
  rw [this]; rfl

/-- where the copy of a mount strictly below the bind source goes: `src/r ↦ tgt/r` -/
theorem copy_mp {src tgt x : Bytes} (hsrc : src ≠ []) (hu : pathUnder src x = true) (hne : x ≠ src)
    (hcl : x = [47] ∨ x.getLast? ≠ some 47) :
    ∃ r, r ≠ [] ∧ x = sl src ++ r ∧ joinRoot tgt (relTail src x) = sl tgt ++ r := by
  rw [pathUnder_iff] at hu
  rcases hu with hu | ⟨r, hr⟩
  · exact absurd hu hne
  · have hrne : r ≠ [] := by
      intro e
      subst e
      rw [List.append_nil] at hr
      unfold sl at hr
      split at hr
      · rename_i h47
        exact hne (by rw [hr]; exact (beq_iff_eq.mp h47).symm)
      · rcases hcl with hcl | hcl
        · rw [hcl] at hr
          exact hsrc (List.self_eq_append_left.mp hr)
        · rw [hr] at hcl
          simp at hcl
    refine ⟨r, hrne, hr, ?_⟩
    have htail : relTail src x = 47 :: r := by
      unfold relTail
      by_cases h47 : src = [47]
      · subst h47
        have hs : sl [47] = [47] := rfl
        rw [hs] at hr
        have hx : (x == [47]) = false := by
          cases hxx : x == [47] with
          | false => rfl
          | true => exact absurd (beq_iff_eq.mp hxx) hne
        simp only [beq_self_eq_true, if_true, hx, Bool.false_eq_true, if_false]
        rw [hr]; rfl
      · have h47' : (src == [47]) = false := by simpa using h47
        simp only [h47', Bool.false_eq_true, if_false]
        have hs : sl src = src ++ [47] := by unfold sl; rw [h47']; rfl
        rw [hr, hs, List.append_assoc, List.drop_left]
        rfl
    rw [htail]
    unfold joinRoot sl
    by_cases ht : tgt = [47]
    · subst ht; simp
    · have ht' : (tgt == [47]) = false := by simpa using ht
      simp [ht']

/-- nesting of two copies reflects nesting of the originals -/
theorem copy_reflect {A B r1 r2 : Bytes} (hA : A ≠ []) (hB : B ≠ []) (h1 : r1 ≠ []) (_h2 : r2 ≠ [])
    (h : pathUnder (A ++ r1) (A ++ r2) = true) : pathUnder (B ++ r1) (B ++ r2) = true := by
  have lenA : 2 ≤ (A ++ r1).length := by
    have := List.length_pos_iff.mpr hA
    have := List.length_pos_iff.mpr h1
    simp; omega
  have lenB : 2 ≤ (B ++ r1).length := by
    have := List.length_pos_iff.mpr hB
    have := List.length_pos_iff.mpr h1
    simp; omega
  rw [pathUnder_iff, sl_of_long lenA] at h
  rw [pathUnder_iff, sl_of_long lenB]
  rcases h with h | ⟨t, h⟩
  · left
    rw [List.append_cancel_left h]
  · right
    refine ⟨t, ?_⟩
    have : r2 = r1 ++ [47] ++ t := by
      apply List.append_cancel_left (as := A)
      rw [h]; simp [List.append_assoc]
    rw [this]; simp [List.append_assoc]

theorem sl_ne_nil' (p : Bytes) : sl p ≠ [] := sl_ne_nil p

/-- **a recursive bind on a target below which nothing is mounted hides nothing**: the copies of
    the mounts below the source are attached in table order, each on a place below which
    nothing is mounted yet (a copy made earlier never lies below a later one) -/
theorem rbind_noHidden (t : KTable) (root : KMnt) (src tgt : Bytes) (P : KMnt → Bool)
    (h : KTWF t) (hnh : NoHidden t.mnts) (hnb : NoneBelow t.mnts tgt) (hcl : CleanMps t.mnts)
    (hsrc : src ≠ []) (hroot : root.mp = tgt)
    (hP : ∀ c, P c = true → pathUnder src c.mp = true ∧ c.mp ≠ src) :
    NoHidden ((t.mnts.filter P).foldl (fun acc c =>
      addMount acc { c with mp := joinRoot tgt (relTail src c.mp) }) (addMount t root)).mnts := by
  -- state of the fold after the entries `pre` of the table
  let J := fun (x : Bytes) => joinRoot tgt (relTail src x)
  have key : ∀ (post pre : List KMnt) (acc : KTable), t.mnts = pre ++ post →
      KTWF acc → NoHidden acc.mnts →
      (∀ x ∈ acc.mnts, (∃ y ∈ t.mnts, x.mp = y.mp) ∨ x.mp = tgt ∨ ∃ d ∈ pre, P d = true ∧ x.mp = J d.mp) →
      NoHidden ((post.filter P).foldl (fun acc c =>
        addMount acc { c with mp := joinRoot tgt (relTail src c.mp) }) acc).mnts := by
    intro post
    induction post with
    | nil => intro pre acc _ _ hn _; exact hn
    | cons c post' ih =>
      intro pre acc he hk hn hsrcs
      by_cases hPc : P c = true
      · rw [List.filter_cons, if_pos hPc, List.foldl_cons]
        have hcm : c ∈ t.mnts := by rw [he]; simp
        obtain ⟨hcu, hcne⟩ := hP c hPc
        obtain ⟨rc, hrc, hxc, hJc⟩ := copy_mp (tgt := tgt) hsrc hcu hcne (hcl c hcm)
        -- nothing is mounted strictly below the place of the copy
        have hnbc : NoneBelow acc.mnts (J c.mp) := by
          intro x hx hux
          have hJt : pathUnder tgt (J c.mp) = true := by
            show pathUnder tgt (joinRoot tgt (relTail src c.mp)) = true
            rw [hJc]; exact (pathUnder_iff _ _).mpr (.inr ⟨rc, rfl⟩)
          have fromTgt : x.mp = tgt → x.mp = J c.mp := by
            intro hxt
            rw [hxt] at hux ⊢
            exact pathUnder_antisymm hJt hux
          rcases hsrcs x hx with ⟨y, hy, hxy⟩ | hxt | ⟨d, hd, hPd, hxd⟩
          · apply fromTgt
            rw [hxy]
            exact hnb y hy (by rw [← hxy]; exact pathUnder_trans hJt hux)
          · exact fromTgt hxt
          · -- an earlier copy: the original lies at/below c and is listed before it
            have hdm : d ∈ t.mnts := by rw [he]; simp [hd]
            obtain ⟨hdu, hdne⟩ := hP d hPd
            obtain ⟨rd, hrd, hxd', hJd⟩ := copy_mp (tgt := tgt) hsrc hdu hdne (hcl d hdm)
            have hux' : pathUnder (sl tgt ++ rc) (sl tgt ++ rd) = true := by
              have : pathUnder (J c.mp) (J d.mp) = true := by rw [← hxd]; exact hux
              show pathUnder (sl tgt ++ rc) (sl tgt ++ rd) = true
              rw [← hJc, ← hJd]; exact this
            have hcd : pathUnder c.mp d.mp = true := by
              rw [hxc, hxd']
              exact copy_reflect (sl_ne_nil tgt) (sl_ne_nil src) hrc hrd hux'
            obtain ⟨a, b', hsplit⟩ := List.append_of_mem hd
            have he2 : t.mnts = a ++ d :: (b' ++ c :: post') := by rw [he, hsplit]; simp
            have := earlier_below_eq hnh he2 (by simp) hcd
            rw [hxd]
            show joinRoot tgt (relTail src d.mp) = joinRoot tgt (relTail src c.mp)
            rw [this]
        have hk' := addMount_KTWF acc { c with mp := J c.mp } hk
        have hn' := addMount_noHidden acc { c with mp := J c.mp } hk hn hnbc
        apply ih (pre ++ [c]) _ (by rw [he]; simp) hk' hn'
        intro x hx
        rw [addMount_eq] at hx
        rcases List.mem_append.mp hx with hx | hx
        · rcases hsrcs x hx with h1 | h1 | ⟨d, hd, hPd, hxd⟩
          · exact .inl h1
          · exact .inr (.inl h1)
          · exact .inr (.inr ⟨d, List.mem_append_left _ hd, hPd, hxd⟩)
        · have hxe : x.mp = J c.mp := by
            rw [List.mem_singleton.mp hx]
          exact .inr (.inr ⟨c, by simp, hPc, hxe⟩)
      · rw [List.filter_cons, if_neg hPc]
        apply ih (pre ++ [c]) acc (by rw [he]; simp) hk hn
        intro x hx
        rcases hsrcs x hx with h1 | h1 | ⟨d, hd, hPd, hxd⟩
        · exact .inl h1
        · exact .inr (.inl h1)
        · exact .inr (.inr ⟨d, List.mem_append_left _ hd, hPd, hxd⟩)
  apply key t.mnts [] (addMount t root) rfl (addMount_KTWF t root h)
    (addMount_noHidden t root h hnh (by rw [hroot]; exact hnb))
  intro x hx
  rw [addMount_eq] at hx
  rcases List.mem_append.mp hx with hx | hx
  · exact .inl ⟨x, hx, rfl⟩
  · exact .inr (.inl (by rw [List.mem_singleton.mp hx]; exact hroot))

/-- **every successful `kmount` on a target below which nothing is mounted leaves no mount
    hidden** (recursive binds included; clean mountpoints, a non-empty source path) -/
theorem kmount_noHidden_all (t t' : KTable) (src tgt fstype : Bytes) (flags : Nat) (data : Bytes)
    (h : KTWF t) (hnh : NoHidden t.mnts) (hnb : NoneBelow t.mnts tgt) (hcl : CleanMps t.mnts)
    (hsrc : src ≠ []) (hk : kmount t src tgt fstype flags data = .ok t') : NoHidden t'.mnts := by
  by_cases hrec : (hasFlag flags MS_BIND && hasFlag flags MS_REC) = false ∨
      (hasFlag flags MS_REMOUNT || (flags / 131072) % 16 != 0) = true
  · exact kmount_noHidden t t' src tgt fstype flags data h hnh hnb hrec hk
  · unfold kmount at hk
    have hns : (hasFlag flags MS_REMOUNT || (flags / 131072) % 16 != 0) = false := by
      cases hh : (hasFlag flags MS_REMOUNT || (flags / 131072) % 16 != 0) with
      | false => rfl
      | true => exact absurd (.inr hh) hrec
    have hbr : hasFlag flags MS_BIND = true ∧ hasFlag flags MS_REC = true := by
      cases hb : hasFlag flags MS_BIND <;> cases hr : hasFlag flags MS_REC <;> simp [hb, hr] at hrec ⊢
    rw [hns] at hk
    simp only [Bool.false_eq_true, if_false, hbr.1, hbr.2, if_true] at hk
    split at hk
    · cases hk
    · rename_i m hm
      cases hk
      unfold bindOne
      exact rbind_noHidden t _ src tgt _ h hnh hnb hcl hsrc rfl (fun c hc => by
        simp only [Bool.and_eq_true, bne_iff_ne, ne_eq] at hc
        exact ⟨hc.1.2, hc.2⟩)

/-- a remount or propagation change returns the table as it is -/
theorem kmount_nonstructural_eq {t t' : KTable} {src tgt fstype : Bytes} {flags : Nat} {data : Bytes}
    (hs : (hasFlag flags MS_REMOUNT || (flags / 131072) % 16 != 0) = true)
    (h : kmount t src tgt fstype flags data = .ok t') : t' = t := by
  unfold kmount at h
  rw [hs] at h
  simp only [if_true] at h
  split at h
  · cases h
  · cases h; rfl

/-! ### no behaviour change on tables without hidden mounts -/

/-- the flat model of umount(2): the last entry with that mountpoint -/
def kumountFlat (t : KTable) (tgt : Bytes) : Except KErr KTable :=
  match topmostAt t.mnts tgt with
  | none => .error .einval
  | some m =>
    if t.mnts.any (·.parent == m.id) then .error .ebusy
    else .ok { t with mnts := t.mnts.filter (·.id != m.id) }

/-- the flat choice of a parent: the longest mountpoint containing the path, last among equals -/
def addMountFlat (t : KTable) (m : KMnt) : KTable :=
  let parent := match findContaining t.mnts m.mp with
    | some p => p.id
    | none => 0
  { t with mnts := t.mnts ++ [{ m with id := t.nextId, parent := parent }], nextId := t.nextId + 1 }

/-- **on a table without hidden mounts `kumount` is the flat model** -/
theorem kumount_eq_flat {t : KTable} (h : NoHidden t.mnts) (p : Bytes) : kumount t p = kumountFlat t p := by
  unfold kumount kumountFlat
  rw [mountedAt_eq_topmostAt h]
  rfl

/-- **… and so is the parent `addMount` assigns**, and the source mount of a bind -/
theorem addMount_eq_flat {t : KTable} (h : NoHidden t.mnts) (m : KMnt) : addMount t m = addMountFlat t m := by
  unfold addMount addMountFlat
  rw [resolve_eq_findContaining h]
  rfl

end Lc.KernelUmount
