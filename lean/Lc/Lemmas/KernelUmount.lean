/-
  Pure lemmas about `Kernel.kumount` on the kernel mount-table model (helper lemmas for the
  end-state theorems of Props/C03):
  * `kumount_ok`        what a successful unmount does: the topmost entry at the target, which
                        no entry has as its parent, is taken out; with unique ids nothing else,
  * `kumountSeq`        a sequence of unmount calls that stops at the first failure,
  * `kumountSeq_spec`   the table reached is the initial one minus one entry per target done,
  * `kumountSeq_cleared` targets = the mountpoints of a region, all done ⇒ the region is empty
                        and everything outside it is as before, in the same order,
  * `KWF`               structural well-formedness of a table (ids, parents), an invariant of
                        the kernel model (`KTWF_empty`, `kmount_KTWF`, `kumount_KTWF`),
  * `kumountSeq_succeeds` under `KWF`, targets = the mountpoints of the region at/below a
                        path, leaf-first ⇒ no call fails (no EBUSY, no EINVAL).
-/
import Lc.Model.Kernel
import Lc.Lemmas.ExportFs

namespace Lc.KernelUmount
open Lc Lc.Kernel

/-! ### the region "at or below a path" as package manage sees it -/

/-- the filter of `getMountAndSubmounts`: `q` is `bp` or starts with `bp ++ "/"` -/
def atOrBelow (bp q : Bytes) : Bool := q == bp || hasPrefix q (bp ++ [47])

/-- `later` is a proper extension of `earlier` as a byte string -/
def Ext (earlier later : Bytes) : Prop := ∃ s, s ≠ [] ∧ later = earlier ++ s

/-- a path strictly below a path of the region is in the region and properly extends it
    (`bp = "/"` is the one degenerate case: there the region test looks for `"//"`) -/
theorem below_region (bp p q : Bytes) (hbp : bp ≠ [47]) (hp : atOrBelow bp p = true)
    (hu : pathUnder p q = true) (hne : q ≠ p) : atOrBelow bp q = true ∧ Ext p q := by
  unfold pathUnder at hu
  have hq : (q == p) = false := by simpa using hne
  rw [hq, Bool.false_or] at hu
  by_cases hroot : p = [47]
  · subst hroot
    simp only [beq_self_eq_true, if_true] at hu
    obtain ⟨s, rfl⟩ := (ExportFs.hasPrefix_iff _ _).mp hu
    have hs : s ≠ [] := by
      intro h; subst h; exact hne rfl
    refine ⟨?_, s, hs, rfl⟩
    unfold atOrBelow at hp ⊢
    rcases Bool.or_eq_true_iff.mp hp with h | h
    · exact absurd (beq_iff_eq.mp h).symm hbp
    · obtain ⟨t, ht⟩ := (ExportFs.hasPrefix_iff _ _).mp h
      have hb : bp = [] := by
        cases bp with
        | nil => rfl
        | cons b bs =>
          have := congrArg List.length ht
          simp at this
      subst hb
      simp [hasPrefix]
  · have hr : (p == [47]) = false := by simpa using hroot
    simp only [hr, Bool.false_eq_true, if_false] at hu
    obtain ⟨s, rfl⟩ := (ExportFs.hasPrefix_iff _ _).mp hu
    refine ⟨?_, 47 :: s, by simp, by simp⟩
    unfold atOrBelow at hp ⊢
    rcases Bool.or_eq_true_iff.mp hp with h | h
    · have := beq_iff_eq.mp h
      subst this
      exact Bool.or_eq_true_iff.mpr (.inr ((ExportFs.hasPrefix_iff _ _).mpr ⟨s, rfl⟩))
    · obtain ⟨t, rfl⟩ := (ExportFs.hasPrefix_iff _ _).mp h
      exact Bool.or_eq_true_iff.mpr (.inr ((ExportFs.hasPrefix_iff _ _).mpr ⟨t ++ 47 :: s, by simp⟩))

/-! ### `topmostAt` and `kumount` -/

theorem topmostAt_some {mnts : List KMnt} {p : Bytes} {m : KMnt} (h : topmostAt mnts p = some m) :
    ∃ a b, mnts = a ++ m :: b ∧ m.mp = p ∧ ∀ x ∈ b, x.mp ≠ p := by
  unfold topmostAt at h
  obtain ⟨hm, as, bs, he, hall⟩ := List.find?_eq_some_iff_append.mp h
  refine ⟨bs.reverse, as.reverse, ?_, by simpa using hm, ?_⟩
  · have := congrArg List.reverse he
    simpa using this
  · intro x hx
    have := hall x (List.mem_reverse.mp hx)
    simpa using this

theorem topmostAt_none {mnts : List KMnt} {p : Bytes} (h : topmostAt mnts p = none) :
    ∀ x ∈ mnts, x.mp ≠ p := by
  unfold topmostAt at h
  intro x hx
  have := List.find?_eq_none.mp h x (List.mem_reverse.mpr hx)
  simpa using this

theorem topmostAt_isSome {mnts : List KMnt} {p : Bytes} (h : ∃ x ∈ mnts, x.mp = p) :
    ∃ m, topmostAt mnts p = some m := by
  cases ht : topmostAt mnts p with
  | some m => exact ⟨m, rfl⟩
  | none =>
    obtain ⟨x, hx, hp⟩ := h
    exact absurd hp (topmostAt_none ht x hx)

/-- taking out the entry with a given id, ids being unique, removes exactly that entry -/
theorem filter_id_ne {a b : List KMnt} {m : KMnt} (hn : ((a ++ m :: b).map (·.id)).Nodup) :
    (a ++ m :: b).filter (·.id != m.id) = a ++ b := by
  rw [List.map_append, List.map_cons] at hn
  have hn' := List.nodup_append.mp hn
  obtain ⟨_, h2, h3⟩ := hn'
  have h2' := List.nodup_cons.mp h2
  have ha : ∀ x ∈ a, (x.id != m.id) = true := by
    intro x hx
    have := h3 x.id (List.mem_map.mpr ⟨x, hx, rfl⟩) m.id (by simp)
    simpa using this
  have hb : ∀ x ∈ b, (x.id != m.id) = true := by
    intro x hx
    have : m.id ≠ x.id := fun e => h2'.1 (e ▸ List.mem_map.mpr ⟨x, hx, rfl⟩)
    simpa using fun e => this e.symm
  rw [List.filter_append, List.filter_cons]
  simp only [bne_self_eq_false, Bool.false_eq_true, if_false]
  rw [List.filter_eq_self.mpr ha, List.filter_eq_self.mpr hb]

/-- a successful `kumount`: the last entry at the target, no entry having it as parent; the
    new table is the old one without the entries of that id, counters untouched -/
theorem kumount_ok {t t' : KTable} {p : Bytes} (h : kumount t p = .ok t') :
    ∃ a m b, t.mnts = a ++ m :: b ∧ m.mp = p ∧ (∀ x ∈ b, x.mp ≠ p) ∧
      (∀ c ∈ t.mnts, c.parent ≠ m.id) ∧
      t' = { t with mnts := t.mnts.filter (·.id != m.id) } := by
  unfold kumount at h
  split at h
  · cases h
  · rename_i m hm
    obtain ⟨a, b, he, hp, hb⟩ := topmostAt_some hm
    split at h
    · cases h
    · rename_i hany
      injection h with h
      refine ⟨a, m, b, he, hp, hb, ?_, h.symm⟩
      intro c hc hpar
      apply hany
      exact List.any_eq_true.mpr ⟨c, hc, by simpa using hpar⟩

/-- … with unique ids exactly that one entry goes -/
theorem kumount_ok_nodup {t t' : KTable} {p : Bytes} (h : kumount t p = .ok t')
    (hn : (t.mnts.map (·.id)).Nodup) :
    ∃ a m b, t.mnts = a ++ m :: b ∧ m.mp = p ∧ (∀ x ∈ b, x.mp ≠ p) ∧
      t' = { t with mnts := a ++ b } := by
  obtain ⟨a, m, b, he, hp, hb, _, ht⟩ := kumount_ok h
  refine ⟨a, m, b, he, hp, hb, ?_⟩
  rw [ht]
  congr 1
  rw [he] at hn ⊢
  exact filter_id_ne hn

/-- why an unmount fails: nothing is mounted there (EINVAL), or the topmost mount there is
    the parent of another mount (EBUSY) -/
theorem kumount_error {t : KTable} {p : Bytes} {e : KErr} (h : kumount t p = .error e) :
    (e = .einval ∧ ∀ x ∈ t.mnts, x.mp ≠ p) ∨
    (e = .ebusy ∧ ∃ m, topmostAt t.mnts p = some m ∧ ∃ c ∈ t.mnts, c.parent = m.id) := by
  unfold kumount at h
  split at h
  · rename_i hn
    injection h with h
    exact .inl ⟨h.symm, topmostAt_none hn⟩
  · rename_i m hm
    split at h
    · rename_i hany
      injection h with h
      obtain ⟨c, hc, hp⟩ := List.any_eq_true.mp hany
      exact .inr ⟨h.symm, m, hm, c, hc, by simpa using hp⟩
    · cases h

/-! ### a sequence of unmount calls -/

/-- unmount the targets in order, stopping at the first failure:
    (targets done, table reached, the error that stopped it) -/
def kumountSeq (t : KTable) : List Bytes → List Bytes × KTable × Option KErr
  | [] => ([], t, none)
  | p :: ps =>
    match kumount t p with
    | .ok t' => let r := kumountSeq t' ps; (p :: r.1, r.2.1, r.2.2)
    | .error e => ([], t, some e)

/-- the targets done are an initial part of the list; all of it iff nothing failed, and
    otherwise the next target is the one the kernel refused in the table reached -/
theorem kumountSeq_prefix (t : KTable) (ts : List Bytes) :
    ∃ rest, ts = (kumountSeq t ts).1 ++ rest ∧
      ((kumountSeq t ts).2.2 = none → rest = []) ∧
      (∀ e, (kumountSeq t ts).2.2 = some e →
        ∃ p rest', rest = p :: rest' ∧ kumount (kumountSeq t ts).2.1 p = .error e) := by
  induction ts generalizing t with
  | nil => exact ⟨[], rfl, fun _ => rfl, fun e h => by simp [kumountSeq] at h⟩
  | cons p ps ih =>
    unfold kumountSeq
    cases hk : kumount t p with
    | error e =>
      refine ⟨p :: ps, rfl, fun h => by simp at h, ?_⟩
      intro e' he'
      simp only [Option.some.injEq] at he'
      subst he'
      exact ⟨p, ps, rfl, hk⟩
    | ok t' =>
      obtain ⟨rest, h1, h2, h3⟩ := ih t'
      exact ⟨rest, by simp only [List.cons_append]; rw [← h1], h2, h3⟩

/-- **what a sequence of unmounts leaves** (ids unique): the table reached is a sublist of
    the initial one — same order, nothing changed, nothing added —, its mountpoints together
    with the targets done are exactly the initial mountpoints (one entry went per target), and
    every entry outside a region that contains the targets done is still there -/
theorem kumountSeq_spec (t : KTable) (ts : List Bytes) (hn : (t.mnts.map (·.id)).Nodup) :
    (kumountSeq t ts).2.1.mnts.Sublist t.mnts ∧
    (t.mnts.map (·.mp)).Perm ((kumountSeq t ts).1 ++ (kumountSeq t ts).2.1.mnts.map (·.mp)) ∧
    (kumountSeq t ts).2.1.nextId = t.nextId ∧ (kumountSeq t ts).2.1.nextMinor = t.nextMinor ∧
    (∀ R : Bytes → Bool, (∀ p ∈ (kumountSeq t ts).1, R p = true) →
      (kumountSeq t ts).2.1.mnts.filter (fun m => !R m.mp) = t.mnts.filter (fun m => !R m.mp)) := by
  induction ts generalizing t with
  | nil => exact ⟨List.Sublist.refl _, by simp [kumountSeq], rfl, rfl, fun _ _ => rfl⟩
  | cons p ps ih =>
    unfold kumountSeq
    cases hk : kumount t p with
    | error e => exact ⟨List.Sublist.refl _, by simp, rfl, rfl, fun _ _ => rfl⟩
    | ok t' =>
      obtain ⟨a, m, b, he, hp, _, ht'⟩ := kumount_ok_nodup hk hn
      have hsub : t'.mnts.Sublist t.mnts := by
        rw [ht', he]
        exact List.Sublist.append (List.Sublist.refl a) (List.sublist_cons_self m b)
      have hn' : (t'.mnts.map (·.id)).Nodup := List.Nodup.sublist (hsub.map _) hn
      obtain ⟨i1, i2, i3, i4, i5⟩ := ih t' hn'
      refine ⟨i1.trans hsub, ?_, by rw [i3, ht'], by rw [i4, ht'], ?_⟩
      · have h0 : (t.mnts.map (·.mp)).Perm (p :: t'.mnts.map (·.mp)) := by
          rw [ht', he]
          simp only [List.map_append, List.map_cons, hp]
          exact List.perm_middle
        refine h0.trans ?_
        simp only [List.cons_append]
        exact List.Perm.cons p i2
      · intro R hR
        have hRp : R p = true := hR p (by simp)
        rw [i5 R (fun q hq => hR q (by simp [hq])), ht', he]
        simp only [List.filter_append, List.filter_cons, hp, hRp, Bool.not_true, Bool.false_eq_true,
          if_false]

/-- **the region is cleared**: when the targets are exactly the mountpoints of the entries
    of a region (as a multiset: stacked mounts count separately) and every call succeeded,
    the table reached is the initial one without the entries of the region — nothing of the
    region is left, everything else is there, unchanged and in the same order -/
theorem kumountSeq_cleared (t : KTable) (ts : List Bytes) (R : Bytes → Bool)
    (hn : (t.mnts.map (·.id)).Nodup)
    (hperm : ts.Perm ((t.mnts.filter (fun m => R m.mp)).map (·.mp)))
    (hok : (kumountSeq t ts).2.2 = none) :
    (kumountSeq t ts).2.1.mnts = t.mnts.filter (fun m => !R m.mp) := by
  obtain ⟨rest, hpre, hnone, _⟩ := kumountSeq_prefix t ts
  have hrest := hnone hok
  subst hrest
  rw [List.append_nil] at hpre
  obtain ⟨_, hp2, _, _, hfil⟩ := kumountSeq_spec t ts hn
  rw [← hpre] at hp2 hfil
  have hR : ∀ p ∈ ts, R p = true := by
    intro p hp
    have := hperm.mem_iff.mp hp
    obtain ⟨m, hm, rfl⟩ := List.mem_map.mp this
    simpa using (List.mem_filter.mp hm).2
  generalize (kumountSeq t ts).2.1.mnts = T at hp2 hfil ⊢
  -- count the entries of the region on both sides
  have hlen : ((t.mnts.map (·.mp)).filter R).length = ((ts ++ T.map (·.mp)).filter R).length :=
    (hp2.filter R).length_eq
  have h1 : (t.mnts.map (·.mp)).filter R = (t.mnts.filter (fun m => R m.mp)).map (·.mp) := by
    rw [List.filter_map]; rfl
  have h2 : ts.filter R = ts := List.filter_eq_self.mpr hR
  rw [h1, List.filter_append, h2, List.length_append, ← hperm.length_eq] at hlen
  have h3 : (T.map (·.mp)).filter R = [] := List.eq_nil_of_length_eq_zero (by omega)
  have h4 : T.filter (fun m => !R m.mp) = T := by
    apply List.filter_eq_self.mpr
    intro m hm
    have : m.mp ∉ (T.map (·.mp)).filter R := by rw [h3]; simp
    simp only [List.mem_filter, List.mem_map, not_and] at this
    have := this ⟨m, hm, rfl⟩
    simpa using this
  rw [← h4, hfil R hR]

/-! ### structural well-formedness of a table -/

/-- ids are unique; no entry is its own parent; an entry lies at or below (path-component
    wise) the mountpoint of its parent; an entry stacked on the mountpoint of its parent comes
    later in the table than the parent -/
structure KWF (mnts : List KMnt) : Prop where
  ids : (mnts.map (·.id)).Nodup
  noSelf : ∀ c ∈ mnts, c.parent ≠ c.id
  under : ∀ c ∈ mnts, ∀ m ∈ mnts, c.parent = m.id → pathUnder m.mp c.mp = true
  order : mnts.Pairwise (fun a b => ¬ (a.parent = b.id ∧ a.mp = b.mp))

theorem KWF.sublist {l l' : List KMnt} (hs : l'.Sublist l) (h : KWF l) : KWF l' where
  ids := List.Nodup.sublist (hs.map _) h.ids
  noSelf := fun c hc => h.noSelf c (hs.subset hc)
  under := fun c hc m hm => h.under c (hs.subset hc) m (hs.subset hm)
  order := List.Pairwise.sublist hs h.order

theorem kumount_sublist {t t' : KTable} {p : Bytes} (h : kumount t p = .ok t') :
    t'.mnts.Sublist t.mnts := by
  obtain ⟨_, _, _, _, _, _, _, ht⟩ := kumount_ok h
  rw [ht]
  exact List.filter_sublist

/-- in a well-formed table, unmounting the topmost entry of a mountpoint below which nothing
    else is mounted succeeds -/
theorem kumount_leaf_ok (t : KTable) (p : Bytes) (hwf : KWF t.mnts) (hex : ∃ x ∈ t.mnts, x.mp = p)
    (hleaf : ∀ c ∈ t.mnts, pathUnder p c.mp = true → c.mp = p) : ∃ t', kumount t p = .ok t' := by
  obtain ⟨m, hm⟩ := topmostAt_isSome hex
  obtain ⟨a, b, he, hp, hb⟩ := topmostAt_some hm
  unfold kumount
  rw [hm]
  have hmmem : m ∈ t.mnts := by rw [he]; simp
  have : t.mnts.any (fun c => c.parent == m.id) = false := by
    apply List.any_eq_false.mpr
    intro c hc hpar
    have hpar : c.parent = m.id := by simpa using hpar
    have hu := hwf.under c hc m hmmem hpar
    rw [hp] at hu
    have hcp := hleaf c hc hu
    -- c is stacked on m's mountpoint: it is m itself, or before m, or after m
    rw [he] at hc
    rcases List.mem_append.mp hc with hca | hcb
    · -- earlier than its parent on the same mountpoint: excluded by `order`
      have hord := hwf.order
      rw [he, List.pairwise_append] at hord
      exact hord.2.2 c hca m (by simp) ⟨hpar, by rw [hcp, hp]⟩
    · rcases List.mem_cons.mp hcb with hcm | hcb
      · subst hcm; exact hwf.noSelf c hmmem hpar
      · exact hb c hcb hcp
  simp [this]

/-- **no unmount of a leaf-first cover of a region fails**: table well-formed, the targets
    are exactly the mountpoints of the entries at or below `bp` (as a multiset), and no target
    properly extends an earlier one ⇒ every call succeeds -/
theorem kumountSeq_succeeds (bp : Bytes) (hbp : bp ≠ [47]) (ts : List Bytes) :
    ∀ (t : KTable), KWF t.mnts →
      ts.Perm ((t.mnts.filter (fun m => atOrBelow bp m.mp)).map (·.mp)) →
      ts.Pairwise (fun earlier later => ¬ Ext earlier later) →
      (kumountSeq t ts).2.2 = none := by
  induction ts with
  | nil => intro t _ _ _; rfl
  | cons p ps ih =>
    intro t hwf hperm hpw
    have hpmem : p ∈ (t.mnts.filter (fun m => atOrBelow bp m.mp)).map (·.mp) :=
      hperm.mem_iff.mp (by simp)
    obtain ⟨x, hx, hxp⟩ := List.mem_map.mp hpmem
    have hxmem := (List.mem_filter.mp hx).1
    have hRp : atOrBelow bp p = true := by rw [← hxp]; exact (List.mem_filter.mp hx).2
    have hleaf : ∀ c ∈ t.mnts, pathUnder p c.mp = true → c.mp = p := by
      intro c hc hu
      by_cases hcp : c.mp = p
      · exact hcp
      · exfalso
        obtain ⟨hRc, hext⟩ := below_region bp p c.mp hbp hRp hu hcp
        have hcm : c.mp ∈ p :: ps :=
          hperm.mem_iff.mpr (List.mem_map.mpr ⟨c, List.mem_filter.mpr ⟨hc, hRc⟩, rfl⟩)
        rcases List.mem_cons.mp hcm with h | h
        · exact hcp h
        · exact (List.pairwise_cons.mp hpw).1 c.mp h hext
    obtain ⟨t', ht'⟩ := kumount_leaf_ok t p hwf ⟨x, hxmem, hxp⟩ hleaf
    unfold kumountSeq
    rw [ht']
    show (kumountSeq t' ps).2.2 = none
    obtain ⟨a, m, b, he, hp, _, ht2⟩ := kumount_ok_nodup ht' hwf.ids
    apply ih t' (hwf.sublist (kumount_sublist ht')) ?_ (List.pairwise_cons.mp hpw).2
    have h0 : (p :: ps).Perm (p :: (t'.mnts.filter (fun m => atOrBelow bp m.mp)).map (·.mp)) := by
      refine hperm.trans ?_
      rw [ht2, he]
      simp only [List.filter_append, List.filter_cons, hp, hRp, if_true, List.map_append, List.map_cons]
      exact List.perm_middle
    exact List.Perm.cons_inv h0

/-! ### `KWF` is an invariant of the kernel model -/

/-- well-formed table with its counters: ids and parent ids are below `nextId`, ids positive -/
structure KTWF (t : KTable) : Prop where
  wf : KWF t.mnts
  idLt : ∀ m ∈ t.mnts, 0 < m.id ∧ m.id < t.nextId
  parLt : ∀ m ∈ t.mnts, m.parent < t.nextId
  nextPos : 0 < t.nextId

theorem KTWF_empty : KTWF {} where
  wf := ⟨by simp, by simp, by simp, by simp⟩
  idLt := by simp
  parLt := by simp
  nextPos := by decide

theorem findContaining_spec (mnts : List KMnt) (path : Bytes) (p : KMnt)
    (h : findContaining mnts path = some p) : p ∈ mnts ∧ pathUnder p.mp path = true := by
  unfold findContaining at h
  have key : ∀ (l : List KMnt) (init : Option KMnt),
      (∀ q, init = some q → q ∈ mnts ∧ pathUnder q.mp path = true) → (∀ x ∈ l, x ∈ mnts) →
      ∀ q, l.foldl (fun best m =>
        if pathUnder m.mp path then
          match best with
          | none => some m
          | some b => if b.mp.length ≤ m.mp.length then some m else some b
        else best) init = some q → q ∈ mnts ∧ pathUnder q.mp path = true := by
    intro l
    induction l with
    | nil => intro init hi _ q hq; exact hi q hq
    | cons x xs ih =>
      intro init hi hsub q hq
      rw [List.foldl_cons] at hq
      refine ih _ ?_ (fun y hy => hsub y (List.mem_cons_of_mem _ hy)) q hq
      intro q' hq'
      by_cases hu : pathUnder x.mp path = true
      · simp only [hu, if_true] at hq'
        cases init with
        | none => cases hq'; exact ⟨hsub x (by simp), hu⟩
        | some b =>
          simp only at hq'
          split at hq'
          · cases hq'; exact ⟨hsub x (by simp), hu⟩
          · cases hq'; exact hi _ rfl
      · simp only [hu, Bool.false_eq_true, if_false] at hq'
        exact hi q' hq'
  exact key mnts none (fun q hq => by cases hq) (fun x hx => hx) p h

theorem eq_of_id_eq {l : List KMnt} (hn : (l.map (·.id)).Nodup) {x y : KMnt} (hx : x ∈ l) (hy : y ∈ l)
    (h : x.id = y.id) : x = y := by
  induction l with
  | nil => cases hx
  | cons z zs ih =>
    rw [List.map_cons, List.nodup_cons] at hn
    rcases List.mem_cons.mp hx with hx1 | hx1 <;> rcases List.mem_cons.mp hy with hy1 | hy1
    · rw [hx1, hy1]
    · subst hx1
      exact absurd (show x.id ∈ zs.map (·.id) from List.mem_map.mpr ⟨y, hy1, h.symm⟩) hn.1
    · subst hy1
      exact absurd (show y.id ∈ zs.map (·.id) from List.mem_map.mpr ⟨x, hx1, h⟩) hn.1
    · exact ih hn.2 hx1 hy1

/-- appending an entry with the next id whose parent is 0 or an entry containing it -/
theorem KTWF_snoc (t : KTable) (e : KMnt) (h : KTWF t) (hid : e.id = t.nextId)
    (hpar : e.parent = 0 ∨ ∃ p ∈ t.mnts, p.id = e.parent ∧ pathUnder p.mp e.mp = true) :
    KTWF { t with mnts := t.mnts ++ [e], nextId := t.nextId + 1 } := by
  have hpidLt : e.parent < t.nextId := by
    rcases hpar with h0 | ⟨p, hp, hpid, _⟩
    · rw [h0]; exact h.nextPos
    · rw [← hpid]; exact (h.idLt p hp).2
  refine ⟨⟨?_, ?_, ?_, ?_⟩, ?_, ?_, ?_⟩
  · simp only [List.map_append, List.map_cons, List.map_nil]
    rw [List.nodup_append]
    refine ⟨h.wf.ids, by simp, ?_⟩
    intro a ha b hb
    obtain ⟨x, hx, rfl⟩ := List.mem_map.mp ha
    have hb : b = e.id := by simpa using hb
    have := (h.idLt x hx).2
    omega
  · intro c hc
    rcases List.mem_append.mp hc with hc | hc
    · exact h.wf.noSelf c hc
    · have : c = e := by simpa using hc
      subst this
      omega
  · intro c hc0 x hx0 hcx
    rcases List.mem_append.mp hc0 with hc | hc
    · rcases List.mem_append.mp hx0 with hx | hx
      · exact h.wf.under c hc x hx hcx
      · have hxe : x = e := by simpa using hx
        have := h.parLt c hc
        rw [hxe] at hcx
        omega
    · have hce : c = e := by simpa using hc
      subst hce
      rcases List.mem_append.mp hx0 with hx | hx
      · rcases hpar with h0 | ⟨p, hp, hpid, hu⟩
        · have := (h.idLt x hx).1
          omega
        · have hxp : x = p := eq_of_id_eq h.wf.ids hx hp (by rw [hpid]; exact hcx.symm)
          subst hxp
          exact hu
      · have : x = c := by simpa using hx
        subst this
        omega
  · show (t.mnts ++ [e]).Pairwise _
    rw [List.pairwise_append]
    refine ⟨h.wf.order, by simp, ?_⟩
    intro a ha b hb
    have : b = e := by simpa using hb
    subst this
    intro hc
    have := h.parLt a ha
    omega
  · intro x hx
    rcases List.mem_append.mp hx with hx | hx
    · have := h.idLt x hx
      show 0 < x.id ∧ x.id < t.nextId + 1
      omega
    · have : x = e := by simpa using hx
      subst this
      have := h.nextPos
      show 0 < x.id ∧ x.id < t.nextId + 1
      omega
  · intro x hx
    rcases List.mem_append.mp hx with hx | hx
    · have := h.parLt x hx
      show x.parent < t.nextId + 1
      omega
    · have : x = e := by simpa using hx
      subst this
      show x.parent < t.nextId + 1
      omega
  · show 0 < t.nextId + 1
    omega

/-- the parent `addMount` assigns -/
def parentId (t : KTable) (mp : Bytes) : Nat :=
  match findContaining t.mnts mp with
  | some p => p.id
  | none => 0

theorem addMount_eq (t : KTable) (m : KMnt) :
    addMount t m = { t with mnts := t.mnts ++ [{ m with id := t.nextId, parent := parentId t m.mp }],
                            nextId := t.nextId + 1 } := rfl

theorem addMount_KTWF (t : KTable) (m : KMnt) (h : KTWF t) : KTWF (addMount t m) := by
  rw [addMount_eq]
  apply KTWF_snoc t _ h rfl
  show parentId t m.mp = 0 ∨ ∃ p ∈ t.mnts, p.id = parentId t m.mp ∧ pathUnder p.mp m.mp = true
  unfold parentId
  cases hf : findContaining t.mnts m.mp with
  | none => exact .inl rfl
  | some p =>
    obtain ⟨h1, h2⟩ := findContaining_spec _ _ _ hf
    exact .inr ⟨p, h1, rfl, h2⟩

theorem KTWF_minor (t : KTable) (n : Nat) (h : KTWF t) : KTWF { t with nextMinor := n } :=
  ⟨h.wf, h.idLt, h.parLt, h.nextPos⟩

/-- every successful `kmount` keeps the table well-formed -/
theorem kmount_KTWF (t t' : KTable) (src tgt fstype : Bytes) (flags : Nat) (data : Bytes)
    (h : KTWF t) (hk : kmount t src tgt fstype flags data = .ok t') : KTWF t' := by
  unfold kmount at hk
  have hfold : ∀ (subs : List KMnt) (f : KMnt → KMnt) (acc : KTable), KTWF acc →
      KTWF (subs.foldl (fun acc c => addMount acc (f c)) acc) := by
    intro subs f
    induction subs with
    | nil => intro acc ha; exact ha
    | cons c cs ih => intro acc ha; exact ih _ (addMount_KTWF acc (f c) ha)
  split at hk
  · split at hk
    · cases hk
    · cases hk; exact h
  · split at hk
    · split at hk
      · cases hk
      · split at hk
        · cases hk
          exact hfold _ _ _ (addMount_KTWF _ _ h)
        · cases hk
          exact addMount_KTWF _ _ h
    · split at hk
      · cases hk
        exact addMount_KTWF _ _ (KTWF_minor t _ h)
      · split at hk
        · split at hk
          · cases hk; exact addMount_KTWF _ _ h
          · cases hk; exact addMount_KTWF _ _ (KTWF_minor t _ h)
        · cases hk
          exact addMount_KTWF _ _ (KTWF_minor t _ h)

/-- every successful `kumount` keeps the table well-formed -/
theorem kumount_KTWF (t t' : KTable) (p : Bytes) (h : KTWF t) (hk : kumount t p = .ok t') : KTWF t' := by
  have hs := kumount_sublist hk
  obtain ⟨_, _, _, _, _, _, _, ht⟩ := kumount_ok hk
  refine ⟨h.wf.sublist hs, fun m hm => ?_, fun m hm => ?_, ?_⟩
  · have := h.idLt m (hs.subset hm); rw [ht]; exact this
  · have := h.parLt m (hs.subset hm); rw [ht]; exact this
  · rw [ht]; exact h.nextPos

end Lc.KernelUmount
