/-
  If the injected fault (the k-th mutating operation failing, `faultAt = some k`) has not fired when a
  function of the command model starts and the function returns normally, it has still
  not fired: a normal return means the k-th operation was never reached.  Helper lemmas
  for Props/C10.
-/
import Lc.Lemmas.Hoare

namespace Lc.FaultOk
open Std.Do Lc Lc.Layers Lc.Hoare

set_option mvcgen.warning false

/-- the fault is armed at operation `k` and fewer than `k` fault points were passed -/
def NotFired (w0 w : World) : Prop := w.faultAt = w0.faultAt ∧ w.nops < w0.faultAt.getD 0

theorem step_lt (fa : Option Nat) (n : Nat) (h : n < fa.getD 0) (hne : ¬ fa = some (n + 1)) :
    n + 1 < fa.getD 0 := by
  cases fa <;> simp_all
  omega

macro "nf_done" : tactic => `(tactic| ((try intros); (try simp_all (config := { zetaDelta := true }) [NotFired]); (try omega); (try (apply step_lt <;> simp_all (config := { zetaDelta := true }) [NotFired]))))

abbrev Ok {α} (w0 : World) (m : M α) : Prop :=
  ⦃fun w => ⌜NotFired w0 w⌝⦄ m ⦃post⟨fun _ w => ⌜NotFired w0 w⌝, fun _ _ => ⌜True⌝⟩⦄

macro "ok_fill" w0:term : tactic =>
  `(tactic| all_goals (first
      | (exact post⟨fun _ w => ⌜NotFired $w0 w⌝, fun _ _ => ⌜True⌝⟩)
      | skip))

theorem liftRes_ok (w0 : World) {α} (r : Res α) : Ok w0 (liftRes r) := by
  unfold Ok liftRes; split <;> mvcgen

theorem gate_ok (w0 : World) : Ok w0 gate := by
  unfold Ok
  mvcgen [gate, getW, setW, fail]
  all_goals nf_done

theorem record_ok (w0 : World) (op) : Ok w0 (record op) := by
  unfold Ok record
  mvcgen
  all_goals nf_done

theorem fsStep_ok (w0 : World) (op : Op) (f) : Ok w0 (fsStep op f) := by
  unfold Ok
  mvcgen [fsStep, gate_ok, record_ok, getW, setW, fail]
  all_goals nf_done

theorem fsMkdir_ok (w0 : World) (p) : Ok w0 (fsMkdir p) := fsStep_ok w0 _ _
theorem fsRename_ok (w0 : World) (a b) : Ok w0 (fsRename a b) := fsStep_ok w0 _ _
theorem fsRemove_ok (w0 : World) (p) : Ok w0 (fsRemove p) := fsStep_ok w0 _ _
theorem fsSymlink_ok (w0 : World) (a b) : Ok w0 (fsSymlink a b) := fsStep_ok w0 _ _
theorem fsWriteTextFile_ok (w0 : World) (a b) : Ok w0 (fsWriteTextFile a b) := fsStep_ok w0 _ _

theorem sysMount_ok (w0 : World) (s t f fl o) : Ok w0 (sysMount s t f fl o) := by
  unfold Ok
  mvcgen [sysMount, record_ok, getW, setW, fail]
  all_goals nf_done

theorem fsMount_ok (w0 : World) (s t f o) : Ok w0 (fsMount s t f o) := by
  unfold Ok
  mvcgen [fsMount, gate_ok, sysMount_ok]
  all_goals nf_done

theorem fsUnmount_ok (w0 : World) (t) : Ok w0 (fsUnmount t) := by
  unfold Ok
  mvcgen [fsUnmount, gate_ok, record_ok, getW, setW, fail]
  all_goals nf_done

theorem fIsDir_ok (w0 : World) (p) : Ok w0 (fIsDir p) := by
  unfold Ok; mvcgen [fIsDir, getW]
theorem fIsFile_ok (w0 : World) (p) : Ok w0 (fIsFile p) := by
  unfold Ok; mvcgen [fIsFile, getW]
theorem fExists_ok (w0 : World) (p) : Ok w0 (fExists p) := by
  unfold Ok; mvcgen [fExists, getW]
theorem fIsSymlink_ok (w0 : World) (p) : Ok w0 (fIsSymlink p) := by
  unfold Ok; mvcgen [fIsSymlink, getW]
theorem holdsOnlyOwnFiles_ok (w0 : World) (cfg l) : Ok w0 (holdsOnlyOwnFiles cfg l) := by
  unfold Ok; mvcgen [holdsOnlyOwnFiles, getW]

theorem testName_ok (w0 : World) (d t) : Ok w0 (testName d t) := by
  unfold Ok testName
  split <;> mvcgen [fail]

theorem reorder_ok (w0 : World) (d) : Ok w0 (reorder d) := by
  unfold Ok reorder
  split <;> mvcgen

theorem findLayers_ok (w0 : World) (cfg) : Ok w0 (findLayers cfg) := by
  unfold Ok
  mvcgen [findLayers, getW, fail, reorder_ok]

theorem refreshMountInfo_ok (w0 : World) (cfg d) : Ok w0 (refreshMountInfo cfg d) := by
  unfold Ok
  mvcgen [refreshMountInfo, getW, liftRes_ok]
  all_goals nf_done

theorem getL_ok (w0 : World) (d n) : Ok w0 (getL d n) := by
  unfold Ok getL
  split <;> mvcgen

theorem errorIfError_ok (w0 : World) (l) : Ok w0 (errorIfError l) := by
  unfold Ok errorIfError
  split <;> mvcgen [fail]

theorem errorIfBusy_ok (w0 : World) (l a) : Ok w0 (errorIfBusy l a) := by
  unfold Ok errorIfBusy
  split <;> mvcgen [fail]

theorem probeAll_ok (w0 : World) (cfg inuse d) : Ok w0 (probeAll cfg inuse d) := by
  unfold Ok
  mvcgen [probeAll, refreshMountInfo_ok, getW, liftRes_ok]
  ok_fill w0
  all_goals nf_done

theorem getLayers_ok (w0 : World) (cfg inuse) : Ok w0 (getLayers cfg inuse) := by
  unfold Ok
  mvcgen [getLayers, findLayers_ok, probeAll_ok]
  all_goals nf_done

theorem cursorWrite_spec (w0 : World) (p chunk : Bytes) (failed : Bool) :
    ⦃fun w => ⌜failed = false → NotFired w0 w⌝⦄ cursorWrite p chunk failed
    ⦃post⟨fun r w => ⌜r = false → NotFired w0 w⌝, fun _ _ => ⌜True⌝⟩⦄ := by
  mvcgen [cursorWrite, getW, setW, fail, record]
  all_goals nf_done

theorem cursorOpen_ok (w0 : World) (p) : Ok w0 (cursorOpen p) := by
  unfold Ok
  mvcgen [cursorOpen, getW, setW, fail, record]
  all_goals nf_done

theorem writeLayerFile_ok (w0 : World) (l) : Ok w0 (writeLayerFile l) := by
  unfold Ok
  have hcw := cursorWrite_spec w0
  have hco := cursorOpen_ok w0
  have hre := fsRename_ok w0
  unfold Ok at hco hre
  mvcgen [writeLayerFile, getW, fail, hco, hcw, hre]
  case inv1 => exact post⟨fun (_, failed) w => ⌜failed = false → NotFired w0 w⌝, fun _ _ => ⌜True⌝⟩
  all_goals nf_done

theorem getDefaultLayerinfo_ok (w0 : World) (cfg f) : Ok w0 (getDefaultLayerinfo cfg f) := by
  unfold Ok
  mvcgen [getDefaultLayerinfo, getW, fail]
  all_goals nf_done

theorem addLayer_ok (w0 : World) (cfg d n b f) : Ok w0 (addLayer cfg d n b f) := by
  unfold Ok
  mvcgen [addLayer, testName_ok, fail, getDefaultLayerinfo_ok, fsMkdir_ok,
          writeLayerFile_ok, fsWriteTextFile_ok, reorder_ok]
  all_goals nf_done

theorem removeLayerExportLinks_ok (w0 : World) (cfg l) : Ok w0 (removeLayerExportLinks cfg l) := by
  unfold Ok
  mvcgen [removeLayerExportLinks, fExists_ok, fIsSymlink_ok, fail, fsRemove_ok]
  ok_fill w0
  all_goals nf_done

theorem removeLayer_ok (w0 : World) (cfg d n f) : Ok w0 (removeLayer cfg d n f) := by
  unfold Ok
  mvcgen [removeLayer, testName_ok, getL_ok, errorIfError_ok, errorIfBusy_ok, fail,
          removeLayerExportLinks_ok, fsRemove_ok, fExists_ok, fsRename_ok, reorder_ok,
          holdsOnlyOwnFiles_ok]
  all_goals nf_done

theorem renameLayer_ok (w0 : World) (cfg d o n co) : Ok w0 (renameLayer cfg d o n co) := by
  unfold Ok
  mvcgen [renameLayer, testName_ok, getL_ok, errorIfError_ok, errorIfBusy_ok, fail,
          removeLayerExportLinks_ok, fsRename_ok, writeLayerFile_ok, reorder_ok]
  ok_fill w0
  all_goals nf_done

theorem rebaseLayer_ok (w0 : World) (cfg d n b) : Ok w0 (rebaseLayer cfg d n b) := by
  unfold Ok
  mvcgen [rebaseLayer, testName_ok, getL_ok, errorIfError_ok, errorIfBusy_ok, fail,
          writeLayerFile_ok, reorder_ok]
  all_goals nf_done

theorem makedirs_ok (w0 : World) (cfg d n) : Ok w0 (makedirs cfg d n) := by
  unfold Ok
  mvcgen [makedirs, testName_ok, getL_ok, errorIfError_ok, getW, fsMkdir_ok, liftRes_ok]
  ok_fill w0
  all_goals nf_done

theorem ancestorsAndSelf_ok (w0 : World) (d fuel n acc) : Ok w0 (ancestorsAndSelf d fuel n acc) := by
  induction fuel generalizing n acc with
  | zero => unfold Ok ancestorsAndSelf; mvcgen
  | succ k ih =>
    unfold Ok at *
    unfold ancestorsAndSelf
    mvcgen [getL_ok, ih]
    all_goals nf_done

theorem makeSymlinkInDirectory_ok (w0 : World) (a b) : Ok w0 (makeSymlinkInDirectory a b) := by
  unfold Ok
  mvcgen [makeSymlinkInDirectory, fIsSymlink_ok, fIsDir_ok, fsMkdir_ok, fsSymlink_ok]
  all_goals nf_done

theorem makeExportSymlinks_ok (w0 : World) (cfg l) : Ok w0 (makeExportSymlinks cfg l) := by
  unfold Ok
  mvcgen [makeExportSymlinks, liftRes_ok, makeSymlinkInDirectory_ok, fExists_ok]
  ok_fill w0
  all_goals nf_done

theorem mountOne_ok (w0 : World) (cfg d n) : Ok w0 (mountOne cfg d n) := by
  unfold Ok
  mvcgen [mountOne, getL_ok, fail, fsMount_ok, liftRes_ok, fExists_ok, fsMkdir_ok,
          refreshMountInfo_ok, getW]
  ok_fill w0
  all_goals nf_done

theorem mountCmd_ok (w0 : World) (cfg d n) : Ok w0 (mountCmd cfg d n) := by
  unfold Ok
  mvcgen [mountCmd, testName_ok, getL_ok, errorIfError_ok, ancestorsAndSelf_ok,
          makedirs_ok, mountOne_ok, makeExportSymlinks_ok]
  ok_fill w0
  all_goals nf_done

theorem unmountLayer_ok (w0 : World) (cfg d n) : Ok w0 (unmountLayer cfg d n) := by
  unfold Ok
  mvcgen [unmountLayer, getL_ok, fsUnmount_ok, refreshMountInfo_ok, liftRes_ok, getW]
  ok_fill w0
  all_goals nf_done

theorem unmountCmd_ok (w0 : World) (cfg d n a) : Ok w0 (unmountCmd cfg d n a) := by
  unfold Ok
  mvcgen [unmountCmd, fail, testName_ok, unmountLayer_ok]
  ok_fill w0
  all_goals nf_done

theorem shake_ok (w0 : World) (cfg d) : Ok w0 (shake cfg d) := by
  unfold Ok
  mvcgen [shake, getL_ok, fsMount_ok]
  ok_fill w0
  all_goals nf_done

theorem chrootMount_ok (w0 : World) (cfg d n) : Ok w0 (chrootMount cfg d n) := by
  unfold Ok
  mvcgen [chrootMount, testName_ok, getL_ok, mountCmd_ok, fIsDir_ok, fail]
  all_goals nf_done

theorem initBase_ok (w0 : World) (cfg) : Ok w0 (initBase cfg) := by
  unfold Ok
  mvcgen [initBase, getW, fail, fsMkdir_ok, fsWriteTextFile_ok]
  ok_fill w0
  all_goals nf_done

theorem runCmd_ok (w0 : World) (cfg inuse c) : Ok w0 (runCmd cfg inuse c) := by
  unfold Ok
  cases c <;>
  · mvcgen [runCmd, initBase_ok, getLayers_ok, addLayer_ok, removeLayer_ok, renameLayer_ok,
            rebaseLayer_ok, makedirs_ok, mountCmd_ok, unmountCmd_ok, shake_ok,
            chrootMount_ok]
    all_goals nf_done

/-! ### the propagation call of `fs.Mount` as a fault point of its own -/

/-- flags `fs.Mount` passes with the first call -/
def mountFlagsOf (fstype : Bytes) : Nat :=
  if fstype == b!"bind" then Kernel.MS_BIND
  else if fstype == b!"rbind" then Kernel.MS_BIND + Kernel.MS_REC
  else if fstype == b!"remount" then Kernel.MS_REMOUNT else 0

theorem fsMount_propagation_fault_triple (w0 : World) (src tgt fstype opts : Bytes) (kt' : Kernel.KTable)
    (hs : (src == b!"/dev" || src == b!"/sys" || src == b!"/run") = true)
    (hp : w0.pretend = false) (hc : w0.crashAt = none) (hf : w0.faultAt = some (w0.nops + 2))
    (hk : Kernel.kmount w0.kt src tgt fstype (mountFlagsOf fstype) opts = .ok kt') :
    ⦃fun w => ⌜w = w0⌝⦄ fsMount src tgt fstype opts
    ⦃post⟨fun _ _ => ⌜False⌝, fun e w => ⌜e = .err "fault" ∧ w.kt = kt' ∧
        w.trace = w0.trace ++ [.mount src tgt fstype (mountFlagsOf fstype) opts] ∧ w.fs = w0.fs⌝⟩⦄ := by
  mvcgen [fsMount, gate, sysMount, record, getW, setW, fail]
  all_goals (try subst_vars)
  all_goals (try (simp_all (config := { zetaDelta := true }) [mountFlagsOf]))
  all_goals (try omega)

/-- how many fault points one `fs.Mount` passes: two for an rbind of /dev, /sys, /run (the
    mount and the propagation change), one otherwise; on an error exit at least one and at
    most two -/
theorem fsMount_fault_points (w0 : World) (src tgt fstype opts : Bytes)
    (hp : w0.pretend = false) (hc : w0.crashAt = none) (hf : w0.faultAt = none) :
    ⦃fun w => ⌜w = w0⌝⦄ fsMount src tgt fstype opts
    ⦃post⟨fun _ w => ⌜w.nops = w0.nops +
              (if src == b!"/dev" || src == b!"/sys" || src == b!"/run" then 2 else 1)⌝,
          fun _ w => ⌜w0.nops < w.nops ∧ w.nops ≤ w0.nops + 2⌝⟩⦄ := by
  mvcgen [fsMount, gate, sysMount, record, getW, setW, fail]
  all_goals (try subst_vars)
  all_goals (try (simp_all (config := { zetaDelta := true })))
  all_goals (try omega)

end Lc.FaultOk
