/-
  Every function of the command model preserves (fs, kernel table, pretend flag) when
  started with `pretend = true`.  Helper lemmas for Props/C15.
-/
import Lc.Lemmas.Hoare

namespace Lc.Pretend
open Std.Do Lc Lc.Layers Lc.Hoare

set_option mvcgen.warning false

/-- relative to a reference world: same file system, same mount table, still pretending -/
def PInv (w0 w : World) : Prop :=
  w.fs = w0.fs ∧ w.kt = w0.kt ∧ w.trace = w0.trace ∧ w.nops = w0.nops ∧ w.pretend = true

macro "pinv_done" : tactic => `(tactic| (try intros) <;> simp_all [PInv])

abbrev Keeps {α} (w0 : World) (m : M α) : Prop := Holds (PInv w0) m

theorem liftRes_keeps {α} (w0) (r : Res α) : Keeps w0 (liftRes r) := liftRes_holds _ r
theorem forM_keeps {α} (w0) (xs : List α) (body : α → M Unit) (h : ∀ x, Keeps w0 (body x)) :
    Keeps w0 (xs.forM body) := forM_holds _ xs body h
theorem foldlM_keeps {α β} (w0) (xs : List α) (body : β → α → M β) (init : β)
    (h : ∀ b x, Keeps w0 (body b x)) : Keeps w0 (xs.foldlM body init) := foldlM_holds _ xs body init h

theorem gate_spec (w0 : World) :
    ⦃fun w => ⌜PInv w0 w⌝⦄ gate ⦃post⟨fun r w => ⌜r = false ∧ PInv w0 w⌝, fun _ w => ⌜PInv w0 w⌝⟩⦄ := by
  mvcgen [gate, getW, setW, fail]
  all_goals simp_all [PInv]

theorem fsStep_keeps (w0 : World) (op : Op) (f) : Keeps w0 (fsStep op f) := by
  unfold Keeps Holds
  mvcgen [fsStep, gate_spec]
  all_goals simp_all [PInv]

theorem fsMkdir_keeps (w0 p) : Keeps w0 (fsMkdir p) := fsStep_keeps w0 _ _
theorem fsRename_keeps (w0 a b) : Keeps w0 (fsRename a b) := fsStep_keeps w0 _ _
theorem fsRemove_keeps (w0 p) : Keeps w0 (fsRemove p) := fsStep_keeps w0 _ _
theorem fsSymlink_keeps (w0 a b) : Keeps w0 (fsSymlink a b) := fsStep_keeps w0 _ _
theorem fsWriteTextFile_keeps (w0 a b) : Keeps w0 (fsWriteTextFile a b) := fsStep_keeps w0 _ _

theorem fsMount_keeps (w0 s t f o) : Keeps w0 (fsMount s t f o) := by
  unfold Keeps Holds
  mvcgen [fsMount, gate_spec]
  all_goals simp_all [PInv]

theorem fsUnmount_keeps (w0 t) : Keeps w0 (fsUnmount t) := by
  unfold Keeps Holds
  mvcgen [fsUnmount, gate_spec]
  all_goals simp_all [PInv]

theorem fIsDir_keeps (w0 p) : Keeps w0 (fIsDir p) := by
  unfold Keeps Holds; mvcgen [fIsDir, getW]
theorem fIsFile_keeps (w0 p) : Keeps w0 (fIsFile p) := by
  unfold Keeps Holds; mvcgen [fIsFile, getW]
theorem fExists_keeps (w0 p) : Keeps w0 (fExists p) := by
  unfold Keeps Holds; mvcgen [fExists, getW]
theorem fIsSymlink_keeps (w0 p) : Keeps w0 (fIsSymlink p) := by
  unfold Keeps Holds; mvcgen [fIsSymlink, getW]
theorem holdsOnlyOwnFiles_keeps (w0 cfg l) : Keeps w0 (holdsOnlyOwnFiles cfg l) := by
  unfold Keeps Holds; mvcgen [holdsOnlyOwnFiles, getW]

theorem testName_keeps (w0 d t) : Keeps w0 (testName d t) := by
  unfold Keeps Holds testName
  split <;> mvcgen [fail]

theorem reorder_keeps (w0 d) : Keeps w0 (reorder d) := by
  unfold Keeps Holds reorder
  split <;> mvcgen

theorem findLayers_keeps (w0 cfg) : Keeps w0 (findLayers cfg) := by
  unfold Keeps Holds
  mvcgen [findLayers, getW, fail, reorder_keeps]

theorem refreshMountInfo_keeps (w0 cfg d) : Keeps w0 (refreshMountInfo cfg d) := by
  unfold Keeps Holds
  mvcgen [refreshMountInfo, getW, liftRes_keeps]
  all_goals pinv_done

theorem getL_keeps (w0 d n) : Keeps w0 (getL d n) := by
  unfold Keeps Holds getL
  split <;> mvcgen

theorem errorIfError_keeps (w0 l) : Keeps w0 (errorIfError l) := by
  unfold Keeps Holds errorIfError
  split <;> mvcgen [fail]

theorem errorIfBusy_keeps (w0 l a) : Keeps w0 (errorIfBusy l a) := by
  unfold Keeps Holds errorIfBusy
  split <;> mvcgen [fail]

theorem probeAll_keeps (w0 cfg inuse d) : Keeps w0 (probeAll cfg inuse d) := by
  unfold Keeps Holds
  mvcgen [probeAll, refreshMountInfo_keeps, getW, liftRes_keeps]
  case inv1 => exact post⟨fun _ w => ⌜PInv w0 w⌝, fun _ w => ⌜PInv w0 w⌝⟩
  all_goals pinv_done

macro "keeps_fill" w0:term : tactic =>
  `(tactic| all_goals (first
      | (exact post⟨fun _ w => ⌜PInv $w0 w⌝, fun _ w => ⌜PInv $w0 w⌝⟩)
      | skip))

macro "keeps_inv" w0:term : tactic =>
  `(tactic| exact post⟨fun _ w => ⌜PInv $w0 w⌝, fun _ w => ⌜PInv $w0 w⌝⟩)

theorem getLayers_keeps (w0 cfg inuse) : Keeps w0 (getLayers cfg inuse) := by
  unfold Keeps Holds
  mvcgen [getLayers, findLayers_keeps, probeAll_keeps]
  all_goals pinv_done

theorem writeLayerFile_keeps (w0 l) : Keeps w0 (writeLayerFile l) := by
  unfold Keeps Holds
  mvcgen [writeLayerFile, getW, setW, fail, fsRename_keeps, cursorOpen]
  all_goals pinv_done

theorem getDefaultLayerinfo_keeps (w0 cfg f) : Keeps w0 (getDefaultLayerinfo cfg f) := by
  unfold Keeps Holds
  mvcgen [getDefaultLayerinfo, getW, fail]
  all_goals pinv_done

theorem addLayer_keeps (w0 cfg d n b f) : Keeps w0 (addLayer cfg d n b f) := by
  unfold Keeps Holds
  mvcgen [addLayer, testName_keeps, fail, getDefaultLayerinfo_keeps, fsMkdir_keeps,
          writeLayerFile_keeps, fsWriteTextFile_keeps, reorder_keeps]
  all_goals pinv_done

theorem removeLayerExportLinks_keeps (w0 cfg l) : Keeps w0 (removeLayerExportLinks cfg l) := by
  unfold Keeps Holds
  mvcgen [removeLayerExportLinks, fExists_keeps, fIsSymlink_keeps, fail, fsRemove_keeps]
  keeps_fill w0
  all_goals pinv_done

theorem removeLayer_keeps (w0 cfg d n f) : Keeps w0 (removeLayer cfg d n f) := by
  unfold Keeps Holds
  mvcgen [removeLayer, testName_keeps, getL_keeps, errorIfError_keeps, errorIfBusy_keeps, fail,
          removeLayerExportLinks_keeps, fsRemove_keeps, fExists_keeps, fsRename_keeps, reorder_keeps,
          holdsOnlyOwnFiles_keeps]
  all_goals pinv_done

theorem renameLayer_keeps (w0 cfg d o n co) : Keeps w0 (renameLayer cfg d o n co) := by
  unfold Keeps Holds
  mvcgen [renameLayer, testName_keeps, getL_keeps, errorIfError_keeps, errorIfBusy_keeps, fail,
          removeLayerExportLinks_keeps, fsRename_keeps, writeLayerFile_keeps, reorder_keeps]
  keeps_fill w0
  all_goals pinv_done

theorem rebaseLayer_keeps (w0 cfg d n b) : Keeps w0 (rebaseLayer cfg d n b) := by
  unfold Keeps Holds
  mvcgen [rebaseLayer, testName_keeps, getL_keeps, errorIfError_keeps, errorIfBusy_keeps, fail,
          writeLayerFile_keeps, reorder_keeps]
  all_goals pinv_done

theorem makedirs_keeps (w0 cfg d n) : Keeps w0 (makedirs cfg d n) := by
  unfold Keeps Holds
  mvcgen [makedirs, testName_keeps, getL_keeps, errorIfError_keeps, getW, fsMkdir_keeps, liftRes_keeps]
  keeps_fill w0
  all_goals pinv_done

theorem ancestorsAndSelf_keeps (w0 d fuel n acc) : Keeps w0 (ancestorsAndSelf d fuel n acc) := by
  induction fuel generalizing n acc with
  | zero => unfold Keeps Holds ancestorsAndSelf; mvcgen
  | succ k ih =>
    unfold Keeps Holds at *
    unfold ancestorsAndSelf
    mvcgen [getL_keeps, ih]
    all_goals pinv_done

theorem makeSymlinkInDirectory_keeps (w0 a b) : Keeps w0 (makeSymlinkInDirectory a b) := by
  unfold Keeps Holds
  mvcgen [makeSymlinkInDirectory, fIsSymlink_keeps, fIsDir_keeps, fsMkdir_keeps, fsSymlink_keeps]
  all_goals pinv_done

theorem makeExportSymlinks_keeps (w0 cfg l) : Keeps w0 (makeExportSymlinks cfg l) := by
  unfold Keeps Holds
  mvcgen [makeExportSymlinks, liftRes_keeps, makeSymlinkInDirectory_keeps, fExists_keeps]
  keeps_fill w0
  all_goals pinv_done

theorem mountOne_keeps (w0 cfg d n) : Keeps w0 (mountOne cfg d n) := by
  unfold Keeps Holds
  mvcgen [mountOne, getL_keeps, fail, fsMount_keeps, liftRes_keeps, fExists_keeps, fsMkdir_keeps,
          refreshMountInfo_keeps, getW]
  keeps_fill w0
  all_goals pinv_done

theorem mountCmd_keeps (w0 cfg d n) : Keeps w0 (mountCmd cfg d n) := by
  unfold Keeps Holds
  mvcgen [mountCmd, testName_keeps, getL_keeps, errorIfError_keeps, ancestorsAndSelf_keeps,
          makedirs_keeps, mountOne_keeps, makeExportSymlinks_keeps]
  keeps_fill w0
  all_goals pinv_done

theorem unmountLayer_keeps (w0 cfg d n) : Keeps w0 (unmountLayer cfg d n) := by
  unfold Keeps Holds
  mvcgen [unmountLayer, getL_keeps, fsUnmount_keeps, refreshMountInfo_keeps, liftRes_keeps, getW]
  keeps_fill w0
  all_goals pinv_done

theorem unmountCmd_keeps (w0 cfg d n a) : Keeps w0 (unmountCmd cfg d n a) := by
  unfold Keeps Holds
  mvcgen [unmountCmd, fail, testName_keeps, unmountLayer_keeps]
  keeps_fill w0
  all_goals pinv_done

theorem shake_keeps (w0 cfg d) : Keeps w0 (shake cfg d) := by
  unfold Keeps Holds
  mvcgen [shake, getL_keeps, fsMount_keeps]
  keeps_fill w0
  all_goals pinv_done

theorem chrootMount_keeps (w0 cfg d n) : Keeps w0 (chrootMount cfg d n) := by
  unfold Keeps Holds
  mvcgen [chrootMount, testName_keeps, getL_keeps, mountCmd_keeps, fIsDir_keeps, fail]
  all_goals pinv_done

theorem initBase_keeps (w0 cfg) : Keeps w0 (initBase cfg) := by
  unfold Keeps Holds
  mvcgen [initBase, getW, fail, fsMkdir_keeps, fsWriteTextFile_keeps]
  keeps_fill w0
  all_goals pinv_done

theorem runCmd_keeps (w0 cfg inuse c) : Keeps w0 (runCmd cfg inuse c) := by
  unfold Keeps Holds
  cases c <;>
  · mvcgen [runCmd, initBase_keeps, getLayers_keeps, addLayer_keeps, removeLayer_keeps, renameLayer_keeps,
            rebaseLayer_keeps, makedirs_keeps, mountCmd_keeps, unmountCmd_keeps, shake_keeps,
            chrootMount_keeps]
    all_goals pinv_done

end Lc.Pretend
