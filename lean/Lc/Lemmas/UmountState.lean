/-
  The END STATE of `unmountLayer` / `unmountCmd` in the kernel model (helper lemmas for
  Props/C03): in a world without pretend switch and without injected fault or crash the
  unmount loop is the pure sequence `KernelUmount.kumountSeq` on the kernel table, the rest
  of `unmountLayer` (re-probing) does not touch the world.
-/
import Lc.Lemmas.UmountTrace
import Lc.Lemmas.KernelUmount

namespace Lc.UmountState
open Std.Do Lc Lc.Layers Lc.Hoare Lc.Mountinfo Lc.Trace Lc.UmountTrace Lc.Kernel Lc.KernelUmount

set_option mvcgen.warning false

/-- no pretend switch, no injected fault, no injected crash -/
def Plain (w : World) : Prop := w.pretend = false ∧ w.faultAt = none ∧ w.crashAt = none

/-- one `fs.Unmount` in a plain world: the kernel's answer decides; file system untouched -/
theorem fsUnmount_plain (tgt : Bytes) (w0 : World) :
    ⦃fun w => ⌜w = w0 ∧ Plain w0⌝⦄ fsUnmount tgt
    ⦃post⟨fun _ w => ⌜Plain w ∧ w.fs = w0.fs ∧ kumount w0.kt tgt = .ok w.kt⌝,
          fun e w => ⌜Plain w ∧ w.fs = w0.fs ∧ w.kt = w0.kt ∧
            ∃ ke, kumount w0.kt tgt = .error ke ∧ e = .err ("sys:" ++ ke.str)⌝⟩⦄ := by
  mvcgen [fsUnmount, gate, getW, setW, record, fail]
  all_goals (try intros)
  all_goals simp_all (config := { zetaDelta := true }) [Plain]

theorem fsUnmount_run (tgt : Bytes) (w : World) (hw : Plain w) :
    match (fsUnmount tgt).run.run w with
    | (.ok _, w') => Plain w' ∧ w'.fs = w.fs ∧ kumount w.kt tgt = .ok w'.kt
    | (.error e, w') => Plain w' ∧ w'.fs = w.fs ∧ w'.kt = w.kt ∧
        ∃ ke, kumount w.kt tgt = .error ke ∧ e = .err ("sys:" ++ ke.str) := by
  have h := run_of_triple _ _ _ _ (fsUnmount_plain tgt w) w ⟨rfl, hw⟩
  generalize (fsUnmount tgt).run.run w = r at h ⊢
  obtain ⟨x, w'⟩ := r
  cases x <;> exact h

theorem unmountMounts_nil : unmountMounts [] = (pure PUnit.unit : M PUnit) := rfl

theorem unmountMounts_cons (m : MountType) (ms : List MountType) :
    unmountMounts (m :: ms) = (fsUnmount m.mountpoint >>= fun _ => unmountMounts ms) := by
  simp [unmountMounts]

/-- what the unmount loop did, in terms of the pure sequence on the kernel table -/
structure LoopResult (ms : List MountType) (w : World) (r : Except Fault PUnit × World) : Prop where
  plain : Plain r.2
  fs : r.2.fs = w.fs
  kt : r.2.kt = (kumountSeq w.kt (ms.map (·.mountpoint))).2.1
  ok : (kumountSeq w.kt (ms.map (·.mountpoint))).2.2 = none → r.1 = .ok PUnit.unit
  err : ∀ e, (kumountSeq w.kt (ms.map (·.mountpoint))).2.2 = some e → r.1 = .error (.err ("sys:" ++ e.str))

/-- **the unmount loop in a plain world is `kumountSeq`** -/
theorem unmountMounts_run (ms : List MountType) : ∀ (w : World), Plain w →
    LoopResult ms w ((unmountMounts ms).run.run w) := by
  induction ms with
  | nil =>
    intro w hw
    exact ⟨hw, rfl, rfl, fun _ => rfl, fun e h => by simp [kumountSeq] at h⟩
  | cons m ms ih =>
    intro w hw
    rw [unmountMounts_cons, run_bind]
    have h1 := fsUnmount_run m.mountpoint w hw
    generalize (fsUnmount m.mountpoint).run.run w = r1 at h1
    obtain ⟨x, w1⟩ := r1
    cases x with
    | error e =>
      obtain ⟨hp, hfs, hkt, ke, hke, he⟩ := h1
      have hseq : kumountSeq w.kt ((m :: ms).map (·.mountpoint)) = ([], w.kt, some ke) := by
        simp [kumountSeq, hke]
      refine ⟨hp, hfs, ?_, ?_, ?_⟩
      · rw [hseq]; exact hkt
      · rw [hseq]; intro h; cases h
      · rw [hseq]; intro e' h'
        simp only [Option.some.injEq] at h'
        subst h'; subst he; rfl
    | ok u =>
      obtain ⟨hp, hfs, hkt⟩ := h1
      have hseq : kumountSeq w.kt ((m :: ms).map (·.mountpoint)) =
          (m.mountpoint :: (kumountSeq w1.kt (ms.map (·.mountpoint))).1,
           (kumountSeq w1.kt (ms.map (·.mountpoint))).2.1,
           (kumountSeq w1.kt (ms.map (·.mountpoint))).2.2) := by
        simp [kumountSeq, hkt]
      have h2 := ih w1 hp
      refine ⟨h2.plain, h2.fs.trans hfs, ?_, ?_, ?_⟩
      · rw [hseq]; exact h2.kt
      · rw [hseq]; exact h2.ok
      · rw [hseq]; exact h2.err

/-! ### the rest of `unmountLayer` -/

/-- what `unmountLayer` does after the loop: re-probe and re-classify -/
def unmountTail (cfg : Config) (d : Defs) (name : Bytes) : M (UStatus × Defs) := do
  let d ← refreshMountInfo cfg d
  let l ← getL d name
  let l' ← liftRes (findLayerstate cfg (← getW).fs d l)
  pure (.ok, setLayer d l')

theorem unmountTail_holds (I : World → Prop) (cfg : Config) (d : Defs) (name : Bytes) :
    Holds I (unmountTail cfg d name) := by
  have h1 : ∀ {α} (r : Res α), Holds I (liftRes r) := fun r => liftRes_holds I r
  have h2 : ∀ d n, Holds I (getL d n) := by
    intro d n
    unfold Holds getL
    split <;> mvcgen
  unfold Holds at *
  mvcgen [unmountTail, refreshMountInfo, getW, h1, h2]

/-- the re-probe never changes the world -/
theorem unmountTail_world (cfg : Config) (d : Defs) (name : Bytes) (w : World) :
    ((unmountTail cfg d name).run.run w).2 = w :=
  extract (fun w' => w' = w) _ (unmountTail_holds _ cfg d name) w rfl

/-- the re-probe's status is always `ok` -/
theorem unmountTail_status (cfg : Config) (d : Defs) (name : Bytes) (w : World) (st : UStatus) (d' : Defs)
    (h : ((unmountTail cfg d name).run.run w).1 = .ok (st, d')) : st = .ok := by
  have hq : HoldsOk (fun _ => True) (fun (r : UStatus × Defs) _ => r.1 = .ok) (unmountTail cfg d name) := by
    unfold HoldsOk
    mvcgen [unmountTail, refreshMountInfo, getW, liftRes, getL]
    all_goals (try split) <;> mvcgen
  exact extractOk _ _ _ hq w trivial (st, d') h

/-- `unmountLayer` for a known layer: the three ways it can go -/
theorem unmountLayer_run_cases (cfg : Config) (d : Defs) (name : Bytes) (w : World) (l : Layer)
    (hl : findLayer d name = some l) :
    (isBusy l false = true ∧ (unmountLayer cfg d name).run.run w = (.ok (.busy, d), w)) ∨
    (isBusy l false = false ∧ l.mounts.length = 0 ∧
      (unmountLayer cfg d name).run.run w = (.ok (.notMounted, d), w)) ∨
    (isBusy l false = false ∧ l.mounts.length ≠ 0 ∧
      (∀ u w1, (unmountMounts l.mounts.reverse).run.run w = (.ok u, w1) →
        (unmountLayer cfg d name).run.run w = (unmountTail cfg d name).run.run w1) ∧
      (∀ e w1, (unmountMounts l.mounts.reverse).run.run w = (.error e, w1) →
        (unmountLayer cfg d name).run.run w = (.error e, w1))) := by
  rw [unmountLayer_eq]
  have hg : (getL d name).run.run w = (.ok l, w) := by
    unfold getL; rw [hl]; rfl
  rw [run_bind, hg]
  simp only
  by_cases hb : isBusy l false = true
  · left
    refine ⟨hb, ?_⟩
    simp only [hb, if_true]
    rfl
  · have hb' : isBusy l false = false := by simpa using hb
    right
    by_cases hm : l.mounts.length = 0
    · left
      refine ⟨hb', hm, ?_⟩
      simp only [hb', Bool.false_eq_true, if_false, hm, beq_self_eq_true, if_true]
      rfl
    · right
      have hm' : (l.mounts.length == 0) = false := by simpa using hm
      refine ⟨hb', hm, ?_⟩
      simp only [hb', Bool.false_eq_true, if_false, hm']
      rw [run_bind]
      refine ⟨?_, ?_⟩
      · intro u w1 h
        rw [h]
        rfl
      · intro e w1 h
        rw [h]

/-- **end state of `unmountLayer`, plain world, idle layer with mounts**: the kernel table is
    what `kumountSeq` over the issue order leaves, the file system is untouched; the status is
    `ok` on a normal return; a failing unmount call is reported as that error -/
theorem unmountLayer_plain (cfg : Config) (d : Defs) (name : Bytes) (w : World) (l : Layer)
    (hl : findLayer d name = some l) (hw : Plain w) (hb : isBusy l false = false)
    (hm : l.mounts.length ≠ 0) :
    ((unmountLayer cfg d name).run.run w).2.kt = (kumountSeq w.kt (issueOrder l)).2.1 ∧
    ((unmountLayer cfg d name).run.run w).2.fs = w.fs ∧ Plain ((unmountLayer cfg d name).run.run w).2 ∧
    (∀ st d', ((unmountLayer cfg d name).run.run w).1 = .ok (st, d') →
      st = .ok ∧ (kumountSeq w.kt (issueOrder l)).2.2 = none) ∧
    (∀ e, (kumountSeq w.kt (issueOrder l)).2.2 = some e →
      ((unmountLayer cfg d name).run.run w).1 = .error (.err ("sys:" ++ e.str))) := by
  rcases unmountLayer_run_cases cfg d name w l hl with ⟨hb2, _⟩ | ⟨_, hm2, _⟩ | ⟨_, _, hrun⟩
  · rw [hb] at hb2; cases hb2
  · exact absurd hm2 hm
  · have hloop := unmountMounts_run l.mounts.reverse w hw
    obtain ⟨hp, hfs, hkt, hok, herr⟩ := hloop
    change _ = (kumountSeq w.kt (issueOrder l)).2.1 at hkt
    change (kumountSeq w.kt (issueOrder l)).2.2 = none → _ at hok
    change ∀ e, (kumountSeq w.kt (issueOrder l)).2.2 = some e → _ at herr
    obtain ⟨hrunOk, hrunErr⟩ := hrun
    generalize hr1 : (unmountMounts l.mounts.reverse).run.run w = r1 at hp hfs hkt hok herr hrunOk hrunErr
    obtain ⟨x, w1⟩ := r1
    simp only at hp hfs hkt hok herr
    cases x with
    | ok u =>
      rw [hrunOk u w1 rfl, unmountTail_world]
      refine ⟨hkt, hfs, hp, ?_, ?_⟩
      · intro st d' hr
        refine ⟨unmountTail_status cfg d name w1 st d' hr, ?_⟩
        cases hk : (kumountSeq w.kt (issueOrder l)).2.2 with
        | none => rfl
        | some e => have := herr e hk; cases this
      · intro e he
        have := herr e he
        cases this
    | error e =>
      rw [hrunErr e w1 rfl]
      refine ⟨hkt, hfs, hp, ?_, ?_⟩
      · intro st d' hr; cases hr
      · intro e' he'
        have h := herr e' he'
        injection h with h
        rw [h]

/-! ### `unmountCmd` for one layer -/

/-! ### `unmountCmd` for one layer -/

theorem unmountCmd_one_eq (cfg : Config) (d : Defs) (c : Nat) (cs : Bytes) :
    unmountCmd cfg d (c :: cs) false = (do
      testName d [(c :: cs, NAME_NEED)]
      let r ← unmountLayer cfg d (c :: cs)
      match r.1 with
      | .ok => pure r.2
      | .busy => fail "busy"
      | .notMounted => fail "notmounted") := by
  unfold unmountCmd
  simp
  rfl

/-- `umount <name>` (a name given, no `-all`): either nothing happened at all (the name test
    failed), or the world is the one `unmountLayer` left, a normal return is a normal return of
    `unmountLayer` with status `ok`, and an error of `unmountLayer` is the command's error -/
theorem unmountCmd_one (cfg : Config) (d : Defs) (name : Bytes) (w : World) (hn : name ≠ []) :
    (((unmountCmd cfg d name false).run.run w).2 = w ∧
      ∃ e, ((unmountCmd cfg d name false).run.run w).1 = .error e) ∨
    (((unmountCmd cfg d name false).run.run w).2 = ((unmountLayer cfg d name).run.run w).2 ∧
      (∀ d', ((unmountCmd cfg d name false).run.run w).1 = .ok d' →
        ((unmountLayer cfg d name).run.run w).1 = .ok (.ok, d')) ∧
      (∀ e, ((unmountLayer cfg d name).run.run w).1 = .error e →
        ((unmountCmd cfg d name false).run.run w).1 = .error e) ∧
      (∀ st d', ((unmountLayer cfg d name).run.run w).1 = .ok (st, d') → st ≠ .ok →
        ∃ e, ((unmountCmd cfg d name false).run.run w).1 = .error e)) := by
  cases name with
  | nil => exact absurd rfl hn
  | cons c cs =>
    rw [unmountCmd_one_eq, run_bind]
    by_cases ht : ([(c :: cs, NAME_NEED)].all fun t => testName1 d t.1 t.2) = true
    · right
      have hp : (testName d [(c :: cs, NAME_NEED)]).run.run w = (.ok (), w) := by
        unfold testName; rw [if_pos ht]; rfl
      rw [hp]
      simp only
      rw [run_bind]
      generalize (unmountLayer cfg d (c :: cs)).run.run w = r
      obtain ⟨x, w'⟩ := r
      cases x with
      | error e =>
        refine ⟨rfl, fun d' h => (by cases h), fun e' h => ?_, fun st d' h => (by cases h)⟩
        cases h; rfl
      | ok a =>
        obtain ⟨st, d1⟩ := a
        cases st with
        | ok =>
          refine ⟨rfl, fun d' h => ?_, fun e' h => (by cases h), fun st d' h hne => ?_⟩
          · cases h; rfl
          · cases h; exact absurd rfl hne
        | busy =>
          exact ⟨rfl, fun d' h => (by cases h), fun e' h => (by cases h), fun st d' h hne => ⟨_, rfl⟩⟩
        | notMounted =>
          exact ⟨rfl, fun d' h => (by cases h), fun e' h => (by cases h), fun st d' h hne => ⟨_, rfl⟩⟩
    · left
      have hp : (testName d [(c :: cs, NAME_NEED)]).run.run w = (.error (.err "name"), w) := by
        unfold testName; rw [if_neg ht]; rfl
      rw [hp]
      exact ⟨rfl, _, rfl⟩

/-! ### no mount hidden: kept by everything `umount` does, and by a mount on a free target -/

theorem fsUnmount_noHidden (tgt : Bytes) :
    Holds (fun w => KernelResolve.NoHidden w.kt.mnts) (fsUnmount tgt) := by
  unfold Holds
  mvcgen [fsUnmount, gate, getW, setW, record, fail]
  all_goals (try intros)
  all_goals (first
    | (simp_all (config := { zetaDelta := true }); done)
    | skip)
  all_goals
    rename_i hk
    exact kumount_noHidden (by simp_all (config := { zetaDelta := true })) hk

theorem getL_holds' (I : World → Prop) (d : Defs) (n : Bytes) : Holds I (getL d n) := by
  unfold Holds getL
  split <;> mvcgen

theorem unmountMounts_noHidden (ms : List MountType) :
    Holds (fun w => KernelResolve.NoHidden w.kt.mnts) (unmountMounts ms) := by
  induction ms with
  | nil => rw [unmountMounts_nil]; exact pure_holds _ _
  | cons m ms ih =>
    rw [unmountMounts_cons]
    have h1 := fsUnmount_noHidden m.mountpoint
    unfold Holds at *
    mvcgen [h1, ih]

theorem unmountLayer_eq2 (cfg : Config) (d : Defs) (name : Bytes) :
    unmountLayer cfg d name = (do
      let l ← getL d name
      if isBusy l false then return (.busy, d)
      if l.mounts.length == 0 then return (.notMounted, d)
      unmountMounts l.mounts.reverse
      unmountTail cfg d name) := rfl

/-- **`umount` never hides a mount**: on every exit of `unmountLayer` (normal, refused call,
    injected fault) a kernel table without hidden mounts is still one -/
theorem unmountLayer_noHidden (cfg : Config) (d : Defs) (name : Bytes) :
    Holds (fun w => KernelResolve.NoHidden w.kt.mnts) (unmountLayer cfg d name) := by
  rw [unmountLayer_eq2]
  have h1 := getL_holds' (fun w => KernelResolve.NoHidden w.kt.mnts) d name
  have h2 := unmountMounts_noHidden
  have h3 := unmountTail_holds (fun w => KernelResolve.NoHidden w.kt.mnts) cfg d name
  unfold Holds at *
  mvcgen [h1, h2, h3]

/-- **a mount(2) issued on a target below which nothing is mounted hides nothing** (and a
    remount / propagation change never does): `sysMount` keeps "well-formed table without hidden
    mounts" on both exits.  Layercake's own calls have such targets when the configured imports
    name a mountpoint before the mountpoints below it and nothing foreign was mounted below
    the build root in between (C01 `mountOne_targets_unmounted`: it never targets a mountpoint
    its cached table shows). -/
theorem sysMount_noHidden (src tgt fstype : Bytes) (flags : Nat) (data : Bytes) :
    ⦃fun w => ⌜KTWF w.kt ∧ KernelResolve.NoHidden w.kt.mnts ∧
        ((hasFlag flags MS_REMOUNT || (flags / 131072) % 16 != 0) = true ∨
          (NoneBelow w.kt.mnts tgt ∧ CleanMps w.kt.mnts ∧ src ≠ []))⌝⦄
    sysMount src tgt fstype flags data
    ⦃post⟨fun _ w => ⌜KTWF w.kt ∧ KernelResolve.NoHidden w.kt.mnts⌝,
          fun _ w => ⌜KTWF w.kt ∧ KernelResolve.NoHidden w.kt.mnts⌝⟩⦄ := by
  mvcgen [sysMount, record, getW, setW, fail]
  all_goals (try intros)
  case vc1 =>
    rename_i s hpre _ kt' hk
    obtain ⟨h1, h2, h3⟩ := hpre
    change kmount s.kt src tgt fstype flags data = .ok kt' at hk
    rcases h3 with h3 | ⟨h3, h4, h5⟩
    · rw [kmount_nonstructural_eq h3 hk]; exact ⟨h1, h2⟩
    · exact ⟨kmount_KTWF _ _ _ _ _ _ _ h1 hk, kmount_noHidden_all _ _ _ _ _ _ _ h1 h2 h3 h4 h5 hk⟩
  case vc2 =>
    rename_i s hpre _ _ _
    exact ⟨hpre.1, hpre.2.1⟩

end Lc.UmountState
