/-
  Frame lemmas of the file-system model for the operations WriteLayerfile performs
  (open/truncate, append, rename of the temporary file).  Helper lemmas for Props/C11.
-/
import Lc.Model.Fs

namespace Lc.Lemmas.FsWrite
open Lc

theorem get_nil (p : Bytes) : Fs.get [] p = none := rfl

theorem get_cons (e : Bytes × Fs.Node) (fs : Fs.Tree) (p : Bytes) :
    Fs.get (e :: fs) p = if e.1 = p then some e.2 else Fs.get fs p := by
  unfold Fs.get
  simp only [List.find?_cons]
  by_cases h : e.1 = p
  · simp [h]
  · have : (e.1 == p) = false := by simpa using h
    simp [this, h]

theorem get_none_iff (fs : Fs.Tree) (p : Bytes) : Fs.get fs p = none ↔ ∀ e ∈ fs, e.1 ≠ p := by
  induction fs with
  | nil => simp [get_nil]
  | cons e rest ih =>
    rw [get_cons]
    by_cases h : e.1 = p
    · simp [h]
    · simp [h, ih]

theorem any_eq_false_of_get_none (fs : Fs.Tree) (p : Bytes) (h : Fs.get fs p = none) :
    fs.any (·.1 == p) = false := by
  rw [List.any_eq_false]
  intro e he
  have := (get_none_iff fs p).mp h e he
  simpa using this

theorem get_map_set_ne (fs : Fs.Tree) (p q : Bytes) (n : Fs.Node) (h : p ≠ q) :
    Fs.get (fs.map (fun e => if e.1 == q then (q, n) else e)) p = Fs.get fs p := by
  induction fs with
  | nil => rfl
  | cons e rest ih =>
    simp only [List.map_cons, get_cons, ih]
    by_cases he : e.1 = q
    · have hq : ¬ q = p := fun x => h x.symm
      have hp : ¬ e.1 = p := by rw [he]; exact hq
      simp [he, hq]
    · have : (e.1 == q) = false := by simpa using he
      simp [this]

theorem get_append_single_ne (fs : Fs.Tree) (p q : Bytes) (n : Fs.Node) (h : p ≠ q) :
    Fs.get (fs ++ [(q, n)]) p = Fs.get fs p := by
  induction fs with
  | nil => simp [get_cons, get_nil]; exact fun x => h x.symm
  | cons e rest ih => simp only [List.cons_append, get_cons, ih]

theorem get_set_ne (fs : Fs.Tree) (p q : Bytes) (n : Fs.Node) (h : p ≠ q) : Fs.get (Fs.set fs q n) p = Fs.get fs p := by
  unfold Fs.set
  split
  · exact get_map_set_ne fs p q n h
  · exact get_append_single_ne fs p q n h

theorem get_map_set_eq (fs : Fs.Tree) (q : Bytes) (n : Fs.Node) (h : fs.any (·.1 == q) = true) :
    Fs.get (fs.map (fun e => if e.1 == q then (q, n) else e)) q = some n := by
  induction fs with
  | nil => simp at h
  | cons e rest ih =>
    simp only [List.map_cons, get_cons]
    by_cases he : e.1 = q
    · simp [he]
    · have hb : (e.1 == q) = false := by simpa using he
      simp only [hb, Bool.false_eq_true, if_false, he]
      apply ih
      simpa [hb] using h

theorem get_append_single_eq (fs : Fs.Tree) (q : Bytes) (n : Fs.Node) (h : fs.any (·.1 == q) = false) :
    Fs.get (fs ++ [(q, n)]) q = some n := by
  induction fs with
  | nil => simp [get_cons]
  | cons e rest ih =>
    simp only [List.any_cons, Bool.or_eq_false_iff] at h
    have he : ¬ e.1 = q := by simpa using h.1
    simp only [List.cons_append, get_cons, he, if_false]
    exact ih h.2

theorem get_set_eq (fs : Fs.Tree) (q : Bytes) (n : Fs.Node) : Fs.get (Fs.set fs q n) q = some n := by
  unfold Fs.set
  split
  · rename_i h; exact get_map_set_eq fs q n h
  · rename_i h; exact get_append_single_eq fs q n ((Bool.not_eq_true _).mp h)

theorem get_appendFile_ne (fs : Fs.Tree) (p q chunk : Bytes) (h : p ≠ q) :
    Fs.get (Fs.appendFile fs q chunk) p = Fs.get fs p := by
  unfold Fs.appendFile
  split
  · exact get_set_ne _ _ _ _ h
  · rfl

theorem get_appendFile_eq (fs : Fs.Tree) (q c chunk : Bytes) (h : Fs.get fs q = some (.file c)) :
    Fs.get (Fs.appendFile fs q chunk) q = some (.file (c ++ chunk)) := by
  unfold Fs.appendFile
  rw [h]
  exact get_set_eq _ _ _

/-- open(O_CREATE|O_TRUNC): the path is an empty file afterwards, nothing else changed -/
theorem openWrite_trunc (fs fs' : Fs.Tree) (p : Bytes) (h : Fs.openWrite fs p true = .ok fs') :
    Fs.get fs' p = some (.file []) ∧ ∀ q, q ≠ p → Fs.get fs' q = Fs.get fs q := by
  unfold Fs.openWrite at h
  split at h
  · cases h
  · simp only [if_true] at h
    cases h
    exact ⟨get_set_eq _ _ _, fun q hq => get_set_ne _ _ _ _ hq⟩
  · cases h
  · split at h
    · cases h
    · split at h
      · cases h
      · cases h
        exact ⟨get_set_eq _ _ _, fun q hq => get_set_ne _ _ _ _ hq⟩

/-! ### Fs.rename -/

theorem under_self (p : Bytes) : Fs.under p p = true := by simp [Fs.under]

theorem hasPrefix_iff (q p : Bytes) : hasPrefix q p = true ↔ ∃ r, q = p ++ r := by
  induction p generalizing q with
  | nil => simp [hasPrefix]
  | cons a as ih =>
    cases q with
    | nil => simp [hasPrefix]
    | cons b bs =>
      simp only [hasPrefix, Bool.and_eq_true, beq_iff_eq, ih, List.cons_append, List.cons.injEq]
      constructor
      · rintro ⟨rfl, r, rfl⟩; exact ⟨r, rfl, rfl⟩
      · rintro ⟨r, rfl, rfl⟩; exact ⟨rfl, r, rfl⟩

/-- below (not at) a path other than "/": the path, a slash, the rest -/
theorem under_cases (p q : Bytes) (hp : p ≠ [47]) (h : Fs.under p q = true) : q = p ∨ ∃ r, q = p ++ 47 :: r := by
  unfold Fs.under at h
  have hp' : (p == [47]) = false := by simpa using hp
  simp only [hp', Bool.false_eq_true, if_false, Bool.or_eq_true, beq_iff_eq] at h
  rcases h with h | h
  · left; exact h
  · right
    obtain ⟨r, hr⟩ := (hasPrefix_iff _ _).mp h
    exact ⟨r, by rw [hr]; simp⟩

theorem under_append (p r : Bytes) : Fs.under p (p ++ 47 :: r) = true := by
  unfold Fs.under
  by_cases hp : p = [47]
  · subst hp; simp [hasPrefix]
  · have hp' : (p == [47]) = false := by simpa using hp
    simp only [hp', Bool.false_eq_true, if_false, Bool.or_eq_true]
    right
    exact (hasPrefix_iff _ _).mpr ⟨r, by simp⟩

theorem find?_filter_keep {α} (l : List α) (p q : α → Bool) (h : ∀ e, p e = true → q e = true) :
    (l.filter q).find? p = l.find? p := by
  rw [List.find?_filter]
  congr 1
  funext e
  cases hp : p e with
  | false => simp
  | true => simp [h e hp]

theorem get_removeAll_keep (fs : Fs.Tree) (m p : Bytes) (h : Fs.under m p = false) :
    Fs.get (Fs.removeAll fs m) p = Fs.get fs p := by
  unfold Fs.get Fs.removeAll
  rw [find?_filter_keep]
  intro e he
  have : e.1 = p := by simpa using he
  simp [this, h]

theorem mem_removeAll (fs : Fs.Tree) (m : Bytes) (e : Bytes × Fs.Node) (h : e ∈ Fs.removeAll fs m) :
    Fs.under m e.1 = false := by
  unfold Fs.removeAll at h
  have := (List.mem_filter.mp h).2
  simpa using this

/-- the map `Fs.rename` applies to the entries -/
def renMap (old new : Bytes) (e : Bytes × Fs.Node) : Bytes × Fs.Node :=
  if e.1 == old then (new, e.2)
  else if Fs.under old e.1 then (new ++ e.1.drop old.length, e.2) else e

theorem find?_congr_mem {α} (l : List α) (p q : α → Bool) (h : ∀ e ∈ l, p e = q e) :
    l.find? p = l.find? q := by
  induction l with
  | nil => rfl
  | cons e rest ih =>
    simp only [List.find?_cons, h e (by simp), ih (fun x hx => h x (by simp [hx]))]

theorem ite_err_ok {ε α} (c : Prop) [Decidable c] (e : ε) (x y : α)
    (h : (if c then Except.error e else Except.ok x) = Except.ok y) : x = y := by
  split at h
  · cases h
  · cases h; rfl

theorem rename_ok (fs fs' : Fs.Tree) (old new : Bytes) (h : Fs.rename fs old new = .ok fs') :
    fs' = ((if old == new then fs else Fs.removeAll fs new).map (renMap old new)) := by
  unfold Fs.rename at h
  split at h
  · cases h
  · split at h
    · cases h
    · split at h
      · cases h
      · dsimp only at h
        exact (ite_err_ok _ _ _ _ h).symm

/-- after a successful rename of `old` to `new` (`old` is not `new` and not below it)
    the node that was at `old` is at `new` -/
theorem rename_get_target (fs fs' : Fs.Tree) (old new : Bytes) (n : Fs.Node) (h : Fs.rename fs old new = .ok fs')
    (hold : old ≠ [47]) (hne : Fs.under new old = false) (hn : Fs.get fs old = some n) :
    Fs.get fs' new = some n := by
  have hne' : (old == new) = false := by
    cases hb : old == new with
    | false => rfl
    | true =>
      have : old = new := by simpa using hb
      rw [this, under_self] at hne; cases hne
  rw [rename_ok fs fs' old new h, hne']
  simp only [Bool.false_eq_true, if_false]
  unfold Fs.get
  rw [List.find?_map]
  have hcongr : (Fs.removeAll fs new).find? ((fun x => x.1 == new) ∘ renMap old new)
      = (Fs.removeAll fs new).find? (fun e => e.1 == old) := by
    apply find?_congr_mem
    intro e he
    have hu := mem_removeAll fs new e he
    simp only [Function.comp, renMap]
    by_cases h1 : e.1 = old
    · simp [h1]
    · have h1' : (e.1 == old) = false := by simpa using h1
      simp only [h1', Bool.false_eq_true, if_false]
      by_cases h2 : Fs.under old e.1 = true
      · simp only [h2, if_true]
        rcases under_cases old e.1 hold h2 with e1 | ⟨r, hr⟩
        · exact absurd e1 h1
        · rw [hr]; simp
      · simp only [h2]
        have : ¬ e.1 = new := by
          intro e2; rw [e2, under_self] at hu; cases hu
        simpa using this
  rw [hcongr]
  have hkeep : (Fs.removeAll fs new).find? (fun e => e.1 == old) = fs.find? (fun e => e.1 == old) := by
    unfold Fs.removeAll
    apply find?_filter_keep
    intro e he
    have : e.1 = old := by simpa using he
    simp [this, hne]
  rw [hkeep]
  unfold Fs.get at hn
  cases hf : fs.find? (fun e => e.1 == old) with
  | none => rw [hf] at hn; cases hn
  | some e =>
    rw [hf] at hn
    have he : e.1 = old := by
      have := List.find?_some hf
      simpa using this
    simp only [Option.map_some, renMap, he, beq_self_eq_true, if_true]
    simpa using hn

/-- a path that is neither at/below `old` nor at/below `new` is not affected -/
theorem rename_get_other (fs fs' : Fs.Tree) (old new p : Bytes) (h : Fs.rename fs old new = .ok fs')
    (hold : old ≠ [47]) (h1 : Fs.under old p = false) (h2 : Fs.under new p = false) :
    Fs.get fs' p = Fs.get fs p := by
  rw [rename_ok fs fs' old new h]
  have hgen : ∀ (l : Fs.Tree), Fs.get (l.map (renMap old new)) p = Fs.get l p := by
    intro l
    induction l with
    | nil => rfl
    | cons e rest ih =>
      simp only [List.map_cons, get_cons, ih]
      simp only [renMap]
      by_cases e1 : e.1 = old
      · have hp : ¬ old = p := by intro x; rw [← x, under_self] at h1; cases h1
        have hp2 : ¬ new = p := by intro x; rw [← x, under_self] at h2; cases h2
        simp [e1, hp, hp2]
      · have e1' : (e.1 == old) = false := by simpa using e1
        simp only [e1', Bool.false_eq_true, if_false]
        by_cases e2 : Fs.under old e.1 = true
        · simp only [e2, if_true]
          rcases under_cases old e.1 hold e2 with e3 | ⟨r, hr⟩
          · exact absurd e3 e1
          · have a1 : ¬ e.1 = p := by intro x; rw [← x, e2] at h1; cases h1
            have a2 : ¬ new ++ List.drop old.length e.1 = p := by
              intro x
              rw [hr] at x
              simp only [List.drop_left'] at x
              rw [← x, under_append] at h2; cases h2
            simp [a1, a2]
        · simp [e2]
  rw [hgen]
  split
  · rfl
  · exact get_removeAll_keep fs new p h2

end Lc.Lemmas.FsWrite
