/-
  The structural commands keep the forest on disk (`DiskForest`, Lemmas/DiskForest.lean).
  For each command: what the table it was handed has to do with the disk (`Start`), the
  relevant paths (layers directory, layerconfigs of legal names) against the paths the command
  writes, and then from the specifications of Props/C09 and Props/C11 (what the tree looks
  like after the command, on every exit) that the new tree is a forest again.
  Helper lemmas for Props/C02.
-/
import Lc.Lemmas.DiskForest
import Lc.Lemmas.CrashAdd
import Lc.Lemmas.CrashRename
import Lc.Lemmas.ExportsApart

namespace Lc.DiskCmd
open Lc Lc.Layers Lc.Fs Lc.Lemmas.Path Lc.ExportPath Lc.InLayers Lc.TreeWF Lc.TreeKeeps Lc.ForestInv
  Lc.ForestCmd Lc.Lemmas.WriteLF Lc.Layerfile Lc.DiskView Lc.DiskForest Lc.LayerPaths Lc.RunM

/-! ### legal names are tokens of the layerconfig syntax -/

set_option maxRecDepth 100000 in
theorem space_not_letter (r : Nat) (h : isSpaceRune r = true) : isLetterOrDigit r = false := by
  have hcases : r ∈ [0x20, 9, 10, 11, 12, 13, 0x85, 0xA0, 0x1680, 0x2000, 0x2001, 0x2002, 0x2003, 0x2004,
      0x2005, 0x2006, 0x2007, 0x2008, 0x2009, 0x200A, 0x2028, 0x2029, 0x202F, 0x205F, 0x3000] := by
    unfold isSpaceRune at h
    simp only [Bool.or_eq_true, Bool.and_eq_true, beq_iff_eq, decide_eq_true_eq] at h
    simp only [List.mem_cons, List.not_mem_nil, or_false]
    omega
  have hall : ∀ x ∈ [0x20, 9, 10, 11, 12, 13, 0x85, 0xA0, 0x1680, 0x2000, 0x2001, 0x2002, 0x2003, 0x2004,
      0x2005, 0x2006, 0x2007, 0x2008, 0x2009, 0x200A, 0x2028, 0x2029, 0x202F, 0x205F, 0x3000],
      isLetterOrDigit x = false := by decide
  exact hall r hcases

theorem legal_tok (n : Bytes) (hne : n ≠ []) (h : isLegalLayerName n = true) : Lc.Lemmas.Runes.Tok n := by
  refine ⟨hne, ?_⟩
  intro x hx
  unfold Lc.Lemmas.Runes.rs at hx
  obtain ⟨y, hy, rfl⟩ := List.mem_map.mp hx
  unfold isLegalLayerName at h
  have := List.all_eq_true.mp h y hy
  obtain ⟨off, r, bs⟩ := y
  simp only [Bool.or_eq_true, Bool.and_eq_true, beq_iff_eq] at this
  cases hs : isSpaceRune r with
  | false => rfl
  | true =>
    exfalso
    have hl := space_not_letter r hs
    rcases this with (h1 | h1) | h1
    · rw [hl] at h1; cases h1
    · rw [h1] at hs; revert hs; decide
    · rw [h1.1] at hs; revert hs; decide

theorem optneed_iff' (d : Defs) (n : Bytes) :
    testName1 d n (NAME_NEED + NAME_OPTIONAL) = true ↔
      n = [] ∨ (isLegalLayerName n = true ∧ (findLayer d n).isSome = true) := by
  unfold testName1 NAME_NEED NAME_OPTIONAL
  cases n with
  | nil => simp
  | cons x xs =>
    by_cases hl : isLegalLayerName (x :: xs) = true <;> simp [hl]

/-! ### the table a command is handed, against the disk -/

/-- what `getLayers` establishes about the table `d` read from the tree `fs` -/
structure Start (cfg : Config) (fs : Tree) (d : Defs) : Prop where
  wf : WF d
  placed : ∀ l ∈ d.layers, Placed cfg l
  lf : ∀ l ∈ d.layers, Lemmas.LayerfileRW.WF (toLayerFile l)
  agree : ∀ a b, (a, b) ∈ d.layers.map nb ↔ (LegalNE a ∧ cfgBase cfg fs a = some b)

theorem start_of_getLayers {cfg : Config} {ds : List Bytes} (h : LD cfg ds) (inuse : List (Bytes × List User))
    (w w' : World) (d : Defs) (hok : DiskOK cfg w.fs)
    (hr : (getLayers cfg inuse).run.run w = (.ok d, w')) : Start cfg w.fs d := by
  obtain ⟨hwf, _, hs⟩ := getLayers_ok cfg inuse w w' d hok.tree hr
  have hfrom : ∀ l ∈ d.layers, ∃ l0 ∈ diskLayers cfg w.fs, sig l = sig l0 := by
    intro l hl
    have : sig l ∈ (diskLayers cfg w.fs).map sig := by
      unfold diskLayers; rw [← hs]; exact List.mem_map.mpr ⟨l, hl, rfl⟩
    obtain ⟨l0, hl0, e⟩ := List.mem_map.mp this
    exact ⟨l0, hl0, e.symm⟩
  refine ⟨hwf, ?_, ?_, ?_⟩
  · intro l hl
    obtain ⟨l0, hl0, e⟩ := hfrom l hl
    have hp := readLayerFiles_placed cfg w.fs _ (fun hm => children_ne_nil _ _ _ hm rfl) l0 hl0
    unfold Placed at hp ⊢
    rw [sig_path e, sig_name e]; exact hp
  · intro l hl
    obtain ⟨l0, hl0, e⟩ := hfrom l hl
    obtain ⟨n, _, _, c, _, rfl⟩ := (mem_readLayerFiles_iff cfg w.fs _ l0).mp hl0
    have hwfc := Lemmas.LayerfileRW.readLayerFile_wf c
    have e2 : toLayerFile l = toLayerFile (layerOfFile cfg n (readLayerFile c)) := by
      unfold toLayerFile
      have b1 : l.base = (layerOfFile cfg n (readLayerFile c)).base := sig_base e
      have b2 : l.cmounts = (layerOfFile cfg n (readLayerFile c)).cmounts := congrArg (·.2.2.1) e
      have b3 : l.cexports = (layerOfFile cfg n (readLayerFile c)).cexports := congrArg (·.2.2.2.1) e
      rw [b1, b2, b3]
    rw [e2]
    exact hwfc
  · intro a b
    rw [← mem_diskView_iff' h hok a b]
    have : d.layers.map nb = (diskLayers cfg w.fs).map nb := sig_nb hs
    rw [this]

/-! ### relevant paths against the paths a command writes -/

theorem lcTmp_clean : CleanName (lcName ++ tmpSuffix) := by
  refine ⟨⟨by decide, by decide, by decide⟩, by decide⟩

theorem tmpOf_eq {cfg : Config} {ds : List Bytes} (h : LD cfg ds) (n : Bytes) (hn : CleanName n) :
    cfgOf cfg n ++ tmpSuffix = absPath (ds ++ [n] ++ [lcName ++ tmpSuffix]) := by
  rw [cfgOf_eq h n hn, absPath_snoc_eq, absPath_snoc_eq]; simp

theorem two_clean {ds : List Bytes} (hds : ∀ c ∈ ds, CleanName c) {n x : Bytes} (hn : CleanName n)
    (hx : CleanName x) : ∀ c ∈ ds ++ [n] ++ [x], CleanName c :=
  snoc_clean (snoc_clean hds hn) hx

/-- a path two components below the layers directory is not at or above it -/
theorem not_under_ld (ds : List Bytes) (hds : ∀ c ∈ ds, CleanName c) (n x : Bytes) (hn : CleanName n)
    (hx : CleanName x) : under (absPath (ds ++ [n] ++ [x])) (absPath ds) = false := by
  cases hu : under (absPath (ds ++ [n] ++ [x])) (absPath ds) with
  | false => rfl
  | true =>
    have := ((under_absPath _ _ (two_clean hds hn hx) hds).mp hu).length_le
    simp at this
    omega

theorem ne_ld (ds : List Bytes) (hds : ∀ c ∈ ds, CleanName c) (n x : Bytes) (hn : CleanName n)
    (hx : CleanName x) : absPath ds ≠ absPath (ds ++ [n] ++ [x]) := by
  intro e
  have := congrArg List.length (absPath_inj _ _ hds (two_clean hds hn hx) e)
  simp at this

/-- two paths two components below the layers directory: one at or above the other means equal -/
theorem under_two (ds : List Bytes) (hds : ∀ c ∈ ds, CleanName c) (n x a y : Bytes) (hn : CleanName n)
    (hx : CleanName x) (ha : CleanName a) (hy : CleanName y)
    (hu : under (absPath (ds ++ [n] ++ [x])) (absPath (ds ++ [a] ++ [y])) = true) : n = a ∧ x = y := by
  have hp := (under_absPath _ _ (two_clean hds hn hx) (two_clean hds ha hy)).mp hu
  have hl : (ds ++ [n] ++ [x]).length = (ds ++ [a] ++ [y]).length := by simp
  have := hp.eq_of_length hl
  simp only [List.append_assoc, List.cons_append, List.nil_append] at this
  have := List.append_cancel_left this
  simp at this
  exact this

/-- the layerconfig path of a placed layer -/
theorem cfgPath_placed {cfg : Config} {l : Layer} (hl : Placed cfg l) : layerconfigPath l = cfgOf cfg l.name := by
  unfold layerconfigPath cfgOf; rw [hl.1]

theorem placed_legal {cfg : Config} {l : Layer} (hl : Placed cfg l) : LegalNE l.name := ⟨hl.2.1, hl.2.2⟩

/-- only the temporary file of `n` differs: the relevant paths are untouched -/
theorem keep_of_frame {cfg : Config} {ds : List Bytes} (h : LD cfg ds) (n : Bytes) (hn : CleanName n)
    {w0 w : World} (hf : Frame (cfgOf cfg n ++ tmpSuffix) w0 w) :
    Keep w0.fs w.fs cfg.layerdirs ∧ ∀ a, LegalNE a → Keep w0.fs w.fs (cfgOf cfg a) := by
  rw [tmpOf_eq h n hn] at hf
  refine ⟨Or.inl (hf.1 _ ?_), fun a ha => Or.inl (hf.1 _ ?_)⟩
  · rw [h.eq]; exact ne_ld ds h.clean n _ hn lcTmp_clean
  · rw [cfgOf_eq h a ha.clean]
    intro e
    have := absPath_inj _ _ (two_clean h.clean ha.clean lcName_clean) (two_clean h.clean hn lcTmp_clean) e
    simp only [List.append_assoc, List.cons_append, List.nil_append] at this
    have := List.append_cancel_left this
    simp at this
    have h2 := this.2
    revert h2; decide

/-- the complete new layerconfig of `n` is in place: the other relevant paths are untouched -/
theorem written_relevant {cfg : Config} {ds : List Bytes} (h : LD cfg ds) {l : Layer} (hl : Placed cfg l)
    {w0 w : World} (hw : Written l w0 w) :
    Fs.get w.fs (cfgOf cfg l.name) = some (.file (render (toLayerFile l))) ∧
    Fs.get w.fs cfg.layerdirs = Fs.get w0.fs cfg.layerdirs ∧
    ∀ a, LegalNE a → a ≠ l.name → Fs.get w.fs (cfgOf cfg a) = Fs.get w0.fs (cfgOf cfg a) := by
  have hn := (placed_legal hl).clean
  unfold Written cfgPath tmpPath newNode at hw
  rw [cfgPath_placed hl] at hw
  refine ⟨hw.1, ?_, ?_⟩
  · apply hw.2
    · rw [cfgOf_eq h _ hn, h.eq]; exact not_under_ld ds h.clean _ _ hn lcName_clean
    · rw [tmpOf_eq h _ hn, h.eq]; exact not_under_ld ds h.clean _ _ hn lcTmp_clean
  · intro a ha hne
    apply hw.2
    · rw [cfgOf_eq h _ hn, cfgOf_eq h a ha.clean]
      cases hu : under (absPath (ds ++ [l.name] ++ [lcName])) (absPath (ds ++ [a] ++ [lcName])) with
      | false => rfl
      | true => exact absurd (under_two ds h.clean _ _ _ _ hn lcName_clean ha.clean lcName_clean hu).1.symm hne
    · rw [tmpOf_eq h _ hn, cfgOf_eq h a ha.clean]
      cases hu : under (absPath (ds ++ [l.name] ++ [lcName ++ tmpSuffix])) (absPath (ds ++ [a] ++ [lcName])) with
      | false => rfl
      | true => exact absurd (under_two ds h.clean _ _ _ _ hn lcTmp_clean ha.clean lcName_clean hu).1.symm hne

/-- the base line of a layerconfig as `writeLayerFile` writes it -/
theorem base_of_render (l : Layer) (hl : Lemmas.LayerfileRW.WF (toLayerFile l)) :
    (readLayerFile (render (toLayerFile l))).base = l.base := by
  rw [Lemmas.LayerfileRW.read_render _ hl]; rfl

/-- the (name, base) pairs after one record was replaced -/
theorem mem_view_setLayer (d : Defs) (l l' : Layer)
    (hfl : findLayer d l'.name = some l) (a b : Bytes) :
    (a, b) ∈ (setLayer d l').layers.map nb ↔
      (a = l'.name ∧ b = l'.base) ∨ (a ≠ l'.name ∧ (a, b) ∈ d.layers.map nb) := by
  unfold setLayer
  simp only [List.map_map]
  constructor
  · intro hm
    obtain ⟨x, hx, e⟩ := List.mem_map.mp hm
    simp only [Function.comp] at e
    split at e
    · left
      exact ⟨(congrArg Prod.fst e).symm, (congrArg Prod.snd e).symm⟩
    · rename_i hne
      right
      have e1 : x.name = a := congrArg Prod.fst e
      refine ⟨by rw [← e1]; simpa using hne, List.mem_map.mpr ⟨x, hx, e⟩⟩
  · rintro (⟨rfl, rfl⟩ | ⟨hne, hm⟩)
    · refine List.mem_map.mpr ⟨l, (findLayer_mem hfl).1, ?_⟩
      simp only [Function.comp, (findLayer_mem hfl).2, beq_self_eq_true, if_true]
      rfl
    · obtain ⟨x, hx, e⟩ := List.mem_map.mp hm
      have e1 : x.name = a := congrArg Prod.fst e
      refine List.mem_map.mpr ⟨x, hx, ?_⟩
      have : ¬ (x.name == l'.name) = true := by rw [e1]; simpa using hne
      simp only [Function.comp, this]
      exact e

/-! ### rebase -/

/-- **rebase keeps the forest on disk — on every exit**, with any fault, crash or pretend
    setting -/
theorem rebase_forest {cfg : Config} {ds : List Bytes} (h : LD cfg ds) (d : Defs) (n nb : Bytes) (w : World)
    (hst : Start cfg w.fs d) (hf : DiskForest cfg w.fs)
    (hT : TreeWF ((rebaseLayer cfg d n nb).run.run w).2.fs) :
    DiskForest cfg ((rebaseLayer cfg d n nb).run.run w).2.fs := by
  cases hfl : findLayer d n with
  | none =>
    have h1 : testName1 d n NAME_NEED = false := by
      unfold testName1 NAME_NEED
      cases n with
      | nil => simp
      | cons x xs => by_cases hl : isLegalLayerName (x :: xs) = true <;> simp [hl, hfl]
    have : (rebaseLayer cfg d n nb).run.run w = (.error (.err "name"), w) := by
      unfold rebaseLayer testName fail
      simp only [List.all_cons, h1, Bool.false_and, run_bind, run_throw, Bool.false_eq_true, if_false]
    rw [this]; exact hf
  | some l =>
    have hlm := findLayer_mem hfl
    have hnl := hlm.2
    subst hnl
    have hpl := hst.placed l hlm.1
    have hpl' : Placed cfg { l with base := nb } := hpl
    have hn : LegalNE l.name := placed_legal hpl
    have hspec := extractBoth _ w _ _ (rebaseLayer_spec cfg d l.name nb l w hfl)
    have htmp : tmpPath { l with base := nb } = cfgOf cfg l.name ++ tmpSuffix := by
      unfold tmpPath; rw [cfgPath_placed hpl']
    generalize hrun : (rebaseLayer cfg d l.name nb).run.run w = r at hspec hT ⊢
    obtain ⟨x, w'⟩ := r
    cases x with
    | error e =>
      simp only at hspec
      rw [htmp] at hspec
      obtain ⟨k1, k2⟩ := keep_of_frame h l.name hn.clean hspec
      exact diskForest_of_keep h hf hT k1 k2
    | ok d' =>
      simp only at hspec
      rcases hspec with hfs | hwr
      · show DiskForest cfg w'.fs
        rw [hfs]; exact hf
      · obtain ⟨_, ht2, l2, o, hl2, hchk, _, hd'⟩ := ret_elim _ _ (rebaseLayer_ret cfg d l.name nb) w d' w' hrun
        rw [hfl] at hl2
        injection hl2 with hl2
        subst hl2
        obtain ⟨hget, hdir, hother⟩ := written_relevant h hpl' hwr
        have hget : Fs.get w'.fs (cfgOf cfg l.name) = some (.file (render (toLayerFile { l with base := nb }))) := hget
        have hother : ∀ a, LegalNE a → a ≠ l.name → Fs.get w'.fs (cfgOf cfg a) = Fs.get w.fs (cfgOf cfg a) := hother
        -- the new base is empty or a token
        have hnbtok : nb = [] ∨ Lc.Lemmas.Runes.Tok nb := by
          rcases (optneed_iff' d nb).mp ht2 with e | ⟨hleg, _⟩
          · exact Or.inl e
          · by_cases hne : nb = []
            · exact Or.inl hne
            · exact Or.inr (legal_tok nb hne hleg)
        have hlf : Lemmas.LayerfileRW.WF (toLayerFile { l with base := nb }) :=
          ⟨hnbtok, (hst.lf l hlm.1).2.1, (hst.lf l hlm.1).2.2⟩
        have hbase_n : cfgBase cfg w'.fs l.name = some nb := by
          unfold cfgBase; rw [hget]; simp only [base_of_render _ hlf]
        have hbase_o : ∀ a, LegalNE a → a ≠ l.name → cfgBase cfg w'.fs a = cfgBase cfg w.fs a := by
          intro a ha hne; unfold cfgBase; rw [hother a ha hne]
        have hok' : DiskOK cfg w'.fs := by
          refine ⟨hT, by rw [hdir]; exact hf.ok.dir, ?_⟩
          intro a ha t
          by_cases e : a = l.name
          · rw [e, hget]; intro hh; cases hh
          · rw [hother a ha e]; exact hf.ok.nolink a ha t
        refine diskForest_of_table h hok' (setLayer d { l with base := nb }).layers hchk ?_
        intro a b
        rw [mem_view_setLayer d l { l with base := nb } hfl]
        show ((a = l.name ∧ b = nb) ∨ (a ≠ l.name ∧ _)) ↔ _
        constructor
        · rintro (⟨rfl, rfl⟩ | ⟨hne, hm⟩)
          · exact ⟨hn, hbase_n⟩
          · obtain ⟨ha, hb⟩ := (hst.agree a b).mp hm
            exact ⟨ha, by rw [hbase_o a ha hne]; exact hb⟩
        · rintro ⟨ha, hb⟩
          by_cases e : a = l.name
          · left
            rw [e, hbase_n] at hb
            injection hb with hb
            exact ⟨e, hb.symm⟩
          · right
            rw [hbase_o a ha e] at hb
            exact ⟨e, (hst.agree a b).mpr ⟨ha, hb⟩⟩

/-! ### remove -/

/-- a table that passes the cycle check can be ordered -/
theorem normalizeOrder_of_check (L : List Layer) (h : checkInheritance L = true) :
    ∃ o, normalizeOrder L = .ok o := by
  unfold normalizeOrder
  have hany : (L.map fun l => (l.name, sortKey L (L.length + 1) l.base l.name)).any (·.2.isNone) = false := by
    rw [List.any_eq_false]
    intro x hx
    obtain ⟨l, hl, rfl⟩ := List.mem_map.mp hx
    unfold checkInheritance at h
    have := Forest.chainOk_sortKey L _ _ _ l.name (List.all_eq_true.mp h l hl)
    cases hk : sortKey L (L.length + 1) l.base l.name with
    | none => rw [hk] at this; cases this
    | some k => simp
  simp only [hany]
  exact ⟨_, rfl⟩

open Std.Do Lc.Hoare Lc.RemoveLayer Lc.FsRename Lc.FsMove Lc.ExportsApart in
/-- nothing is left at or below `lp`; away from `lp`, from `new` and from the export links
    nothing changed -/
def Gone (ex : List Bytes) (lp new : Bytes) (w0 w : World) : Prop :=
  ∀ p, (under lp p = true → Fs.get w.fs p = none) ∧
    (under lp p = false → under new p = false → (∀ m ∈ ex, under m p = false) → Fs.get w.fs p = Fs.get w0.fs p)

set_option mvcgen.warning false

open Std.Do Lc.Hoare Lc.RemoveLayer Lc.FsRename in
theorem fsRemove_gone (ex : List Bytes) (w0 : World) (lp new : Bytes) :
    ⦃fun w => ⌜Same ex w0 w⌝⦄ fsRemove lp
    ⦃post⟨fun _ w => ⌜Same ex w0 w ∨ Gone ex lp new w0 w⌝, fun _ w => ⌜Same ex w0 w⌝⟩⦄ := by
  mvcgen [fsRemove, fsStep, gate, getW, setW, fail, record]
  · left; assumption
  · have hs : Same ex w0 _ := ‹Same ex w0 _›
    right
    intro p
    refine ⟨fun hu => ?_, fun hu _ hex => ?_⟩
    · show Fs.get (Fs.removeAll _ lp) p = none
      exact get_removeAll_under _ _ _ hu
    · show Fs.get (Fs.removeAll _ lp) p = _
      rw [FsRename.get_removeAll _ _ _ hu]
      exact hs.2 p hex

open Std.Do Lc.Hoare Lc.RemoveLayer Lc.FsRename Lc.FsMove in
theorem fsRename_gone (ex : List Bytes) (w0 : World) (lp new : Bytes) (hlp : lp ≠ [47])
    (hsep : under new lp = false) :
    ⦃fun w => ⌜Same ex w0 w⌝⦄ fsRename lp new
    ⦃post⟨fun _ w => ⌜Same ex w0 w ∨ Gone ex lp new w0 w⌝, fun _ w => ⌜Same ex w0 w⌝⟩⦄ := by
  mvcgen [fsRename, fsStep, gate, getW, setW, fail, record]
  · left; assumption
  · have hs : Same ex w0 _ := ‹Same ex w0 _›
    have hr := ‹Fs.rename _ lp new = Except.ok _›
    right
    intro p
    refine ⟨fun hu => ?_, fun hu hn hex => ?_⟩
    · exact rename_vacates _ _ lp new hr hlp hsep p hu
    · rw [rename_keeps _ _ lp new hr hlp p hu hn]
      exact hs.2 p hex

theorem under_removed_self (lp : Bytes) : under (lp ++ removedSuffix) lp = false := by
  unfold under
  have h1 : (lp == lp ++ removedSuffix) = false := by
    cases hb : lp == lp ++ removedSuffix with
    | false => rfl
    | true =>
      rw [beq_iff_eq] at hb
      have := congrArg List.length hb
      simp [removedSuffix] at this
  have h2 : (lp ++ removedSuffix == [47]) = false := by
    cases hb : lp ++ removedSuffix == [47] with
    | false => rfl
    | true =>
      rw [beq_iff_eq] at hb
      have := congrArg List.length hb
      simp [removedSuffix] at this
  rw [h1, h2]
  simp only [Bool.false_or, Bool.false_eq_true, if_false, List.append_assoc]
  exact ExportsApart.hasPrefix_longer_false lp _ (by simp [removedSuffix])

open Std.Do Lc.Hoare Lc.RemoveLayer in
/-- **remove, every exit**: the world differs from the start only below the export links, or
    (normal return, not pretending) the layer directory is gone -/
theorem removeLayer_gone (cfg : Config) (d : Defs) (name : Bytes) (files : Bool) (l : Layer) (w0 : World)
    (hl : findLayer d name = some l) (hlp : l.layerPath ≠ [47])
    (hord : hasChild d name = false → ∃ o, normalizeOrder (d.layers.filter (·.name != name)) = .ok o) :
    ⦃fun w => ⌜Same (exPaths cfg l) w0 w⌝⦄ removeLayer cfg d name files
    ⦃post⟨fun _ w => ⌜Same (exPaths cfg l) w0 w ∨
            Gone (exPaths cfg l) l.layerPath (l.layerPath ++ removedSuffix) w0 w⌝,
          fun _ w => ⌜Same (exPaths cfg l) w0 w⌝⟩⦄ := by
  have hT := testName_holds (Same (exPaths cfg l) w0) d
  have hE := errorIfError_holds (Same (exPaths cfg l) w0)
  have hB := errorIfBusy_holds (Same (exPaths cfg l) w0)
  have hX := removeLayerExportLinks_same w0 cfg l
  have hD := fsRemove_gone (exPaths cfg l) w0 l.layerPath (l.layerPath ++ removedSuffix)
  have hR := fsRename_gone (exPaths cfg l) w0 l.layerPath (l.layerPath ++ removedSuffix) hlp
    (under_removed_self _)
  have hg : getL d name = pure l := by simp [getL, hl]
  unfold Holds at *
  unfold removeLayer reorder
  simp only [hg]
  mvcgen [hT, hE, hB, hX, hD, hR, fail, fExists, getW, holdsOnlyOwnFiles]
  all_goals first
    | assumption
    | (intro hh; exact hh)
    | (exfalso
       obtain ⟨o, ho⟩ := hord (by simpa using ‹¬hasChild d name = true›)
       rw [ho] at *
       simp_all
       done)
    | trace_state

theorem under_layer_cfg {cfg : Config} {ds : List Bytes} (h : LD cfg ds) (a : Bytes) (ha : CleanName a) :
    under (layerPath cfg a) (cfgOf cfg a) = true := by
  rw [layerPath_eq h a ha, cfgOf_eq h a ha]
  exact (under_absPath _ _ (snoc_clean h.clean ha) (two_clean h.clean ha lcName_clean)).mpr (List.prefix_append _ _)

open Lc.RemoveLayer Lc.ExportsApart in
/-- **the export links of a placed layer are clear of the relevant paths** (configuration with
    `ExportsApart` and an absolute exports directory) -/
theorem ex_clear {cfg : Config} {ds : List Bytes} (h : LD cfg ds) (hA : ExportsApart cfg)
    (hex : isAbs cfg.exportdirs = true) (l : Layer) (hl : Placed cfg l) :
    ∀ m ∈ exPaths cfg l, under m cfg.layerdirs = false ∧ ∀ a, LegalNE a → under m (cfgOf cfg a) = false := by
  intro m hm
  have hn := (placed_legal hl).clean
  refine ⟨?_, fun a ha => exportsApart_exPaths cfg hA l hl _
    ⟨a, ha.1, ha.2, Or.inl (under_layer_cfg h a ha.clean)⟩ m hm⟩
  have hmc : CleanAbs m := by
    rcases mem_auto cfg l m hm with e | e <;> rw [e] <;> exact cleanAbs_join _ _ hex
  obtain ⟨ms, hms, rfl⟩ := cleanAbs_comps m hmc
  cases hu : under (absPath ms) cfg.layerdirs with
  | false => rfl
  | true =>
    exfalso
    rw [h.eq] at hu
    have hp := (under_absPath ms ds hms h.clean).mp hu
    have h2 : under (absPath ms) (layerPath cfg l.name) = true := by
      rw [layerPath_eq h _ hn]
      exact (under_absPath ms _ hms (snoc_clean h.clean hn)).mpr (hp.trans (List.prefix_append _ _))
    have h3 := exportsApart_exPaths cfg hA l hl (layerPath cfg l.name)
      ⟨l.name, hl.2.1, hl.2.2, Or.inl (ExportFs.under_self _)⟩ _ hm
    rw [h3] at h2; cases h2

open Lc.RemoveLayer in
theorem keep_of_same {cfg : Config} {ds : List Bytes} (h : LD cfg ds) (hA : ExportsApart.ExportsApart cfg)
    (hex : isAbs cfg.exportdirs = true) (l : Layer) (hl : Placed cfg l) {w0 w : World}
    (hs : Same (exPaths cfg l) w0 w) :
    Keep w0.fs w.fs cfg.layerdirs ∧ ∀ a, LegalNE a → Keep w0.fs w.fs (cfgOf cfg a) := by
  have hc := ex_clear h hA hex l hl
  exact ⟨Or.inl (hs.2 _ (fun m hm => (hc m hm).1)), fun a ha => Or.inl (hs.2 _ (fun m hm => (hc m hm).2 a ha))⟩

set_option maxRecDepth 100000 in
theorem tilde_illegal : isLetterOrDigit 126 = false := by decide

/-- `<name>~removed` is not a legal layer name -/
theorem removed_illegal (n : Bytes) : isLegalLayerName (n ++ removedSuffix) = false := by
  cases hleg : isLegalLayerName (n ++ removedSuffix) with
  | false => rfl
  | true =>
    exfalso
    have hm : (126 : Nat) ∈ n ++ removedSuffix := by simp [removedSuffix]
    rcases legal_ascii _ hleg 126 hm (by omega) with h1 | h1 | h1
    · rw [tilde_illegal] at h1; cases h1
    · cases h1
    · cases h1

open Lc.RemoveLayer in
/-- **remove keeps the forest on disk — on every exit**, with any fault, crash or pretend
    setting -/
theorem remove_forest {cfg : Config} {ds : List Bytes} (h : LD cfg ds) (hA : ExportsApart.ExportsApart cfg)
    (hex : isAbs cfg.exportdirs = true) (d : Defs) (n : Bytes) (files : Bool) (w : World)
    (hst : Start cfg w.fs d) (hf : DiskForest cfg w.fs)
    (hT : TreeWF ((removeLayer cfg d n files).run.run w).2.fs) :
    DiskForest cfg ((removeLayer cfg d n files).run.run w).2.fs := by
  cases hfl : findLayer d n with
  | none =>
    have h1 : testName1 d n NAME_NEED = false := by
      unfold testName1 NAME_NEED
      cases n with
      | nil => simp
      | cons x xs => by_cases hl : isLegalLayerName (x :: xs) = true <;> simp [hl, hfl]
    have : (removeLayer cfg d n files).run.run w = (.error (.err "name"), w) := by
      unfold removeLayer testName fail
      simp only [List.all_cons, h1, Bool.false_and, run_bind, run_throw, Bool.false_eq_true, if_false]
    rw [this]; exact hf
  | some l =>
    have hlm := findLayer_mem hfl
    have hnl := hlm.2
    subst hnl
    have hpl := hst.placed l hlm.1
    have hn : LegalNE l.name := placed_legal hpl
    have hlp : l.layerPath ≠ [47] := ExportsApart.placed_ne_root cfg l hpl
    have hnochild : hasChild d l.name = false → checkInheritance (d.layers.filter (·.name != l.name)) = true := by
      intro hno
      apply check_remove d.layers l.name _ hst.wf.acyclic
      intro x hx e
      unfold hasChild at hno
      rw [List.any_eq_false] at hno
      exact hno x hx (by simp [e])
    have hspec := extractPost _ _ _ _ (removeLayer_gone cfg d l.name files l w hfl hlp
      (fun hno => normalizeOrder_of_check _ (hnochild hno))) w (same_refl _ _)
    generalize hrun : (removeLayer cfg d l.name files).run.run w = r at hspec hT ⊢
    obtain ⟨x, w'⟩ := r
    cases x with
    | error e =>
      simp only at hspec
      obtain ⟨k1, k2⟩ := keep_of_same h hA hex l hpl hspec
      exact diskForest_of_keep h hf hT k1 k2
    | ok d' =>
      simp only at hspec
      rcases hspec with hsame | hgone
      · obtain ⟨k1, k2⟩ := keep_of_same h hA hex l hpl hsame
        exact diskForest_of_keep h hf hT k1 k2
      · obtain ⟨_, hno, o, _, hd'⟩ := ret_elim _ _ (removeLayer_ret cfg d l.name files) w d' w' hrun
        have hc := ex_clear h hA hex l hpl
        have hlpe : l.layerPath = absPath (ds ++ [l.name]) := hpl.1.trans (layerPath_eq h _ hn.clean)
        have hrm : CleanName (l.name ++ removedSuffix) := cleanName_suffix _ _ hn.clean (by decide) (by decide)
        have hnew : l.layerPath ++ removedSuffix = absPath (ds ++ [l.name ++ removedSuffix]) := by
          rw [hlpe, absPath_snoc_eq, absPath_snoc_eq]; simp
        -- the layers directory and the other layerconfigs are untouched
        have hdir : Fs.get w'.fs cfg.layerdirs = Fs.get w.fs cfg.layerdirs := by
          apply (hgone _).2
          · rw [hlpe, h.eq]
            cases hu : under (absPath (ds ++ [l.name])) (absPath ds) with
            | false => rfl
            | true =>
              have := ((under_absPath _ _ (snoc_clean h.clean hn.clean) h.clean).mp hu).length_le
              simp at this
              omega
          · rw [hnew, h.eq]
            cases hu : under (absPath (ds ++ [l.name ++ removedSuffix])) (absPath ds) with
            | false => rfl
            | true =>
              have := ((under_absPath _ _ (snoc_clean h.clean hrm) h.clean).mp hu).length_le
              simp at this
              omega
          · exact fun m hm => (hc m hm).1
        have hother : ∀ a, LegalNE a → a ≠ l.name → Fs.get w'.fs (cfgOf cfg a) = Fs.get w.fs (cfgOf cfg a) := by
          intro a ha hne
          apply (hgone _).2
          · rw [hlpe, cfgOf_eq h a ha.clean]
            cases hu : under (absPath (ds ++ [l.name])) (absPath (ds ++ [a] ++ [lcName])) with
            | false => rfl
            | true =>
              have hp := (under_absPath _ _ (snoc_clean h.clean hn.clean) (two_clean h.clean ha.clean lcName_clean)).mp hu
              rw [List.append_assoc, List.prefix_append_right_inj] at hp
              simp at hp
              exact absurd hp.symm hne
          · rw [hnew, cfgOf_eq h a ha.clean]
            cases hu : under (absPath (ds ++ [l.name ++ removedSuffix])) (absPath (ds ++ [a] ++ [lcName])) with
            | false => rfl
            | true =>
              have hp := (under_absPath _ _ (snoc_clean h.clean hrm) (two_clean h.clean ha.clean lcName_clean)).mp hu
              rw [List.append_assoc, List.prefix_append_right_inj] at hp
              simp at hp
              have := ha.2
              rw [← hp, removed_illegal] at this
              cases this
          · exact fun m hm => (hc m hm).2 a ha
        have hgone_n : Fs.get w'.fs (cfgOf cfg l.name) = none := by
          apply (hgone _).1
          rw [hpl.1]; exact under_layer_cfg h _ hn.clean
        have hok' : DiskOK cfg w'.fs := by
          refine ⟨hT, by rw [hdir]; exact hf.ok.dir, ?_⟩
          intro a ha t
          by_cases e : a = l.name
          · rw [e, hgone_n]; intro hh; cases hh
          · rw [hother a ha e]; exact hf.ok.nolink a ha t
        refine diskForest_of_table h hok' (d.layers.filter (·.name != l.name)) (hnochild hno) ?_
        intro a b
        constructor
        · intro hm
          obtain ⟨x, hx, e⟩ := List.mem_map.mp hm
          obtain ⟨hxm, hxn⟩ := List.mem_filter.mp hx
          have e1 : x.name = a := congrArg Prod.fst e
          have hne : a ≠ l.name := by rw [← e1]; simpa using hxn
          obtain ⟨ha, hb⟩ := (hst.agree a b).mp (List.mem_map.mpr ⟨x, hxm, e⟩)
          refine ⟨ha, ?_⟩
          unfold cfgBase at hb ⊢
          rw [hother a ha hne]; exact hb
        · rintro ⟨ha, hb⟩
          have hne : a ≠ l.name := by
            intro e
            unfold cfgBase at hb
            rw [e, hgone_n] at hb
            cases hb
          unfold cfgBase at hb
          rw [hother a ha hne] at hb
          obtain ⟨x, hx, e⟩ := List.mem_map.mp ((hst.agree a b).mpr ⟨ha, hb⟩)
          have e1 : x.name = a := congrArg Prod.fst e
          exact List.mem_map.mpr ⟨x, List.mem_filter.mpr ⟨hx, by rw [e1]; simpa using hne⟩, e⟩

/-! ### add -/

theorem bashrc_clean : CleanName (b!".bashrc" : Bytes) := by
  refine ⟨⟨by decide, by decide, by decide⟩, by decide⟩

open Lc.CrashAdd in
/-- the `.bashrc` that `add` writes is none of the relevant paths (the layers directory is not
    itself called `.bashrc`) -/
theorem bashrc_irrelevant {cfg : Config} {ds : List Bytes} (h : LD cfg ds)
    (hnb : pathBase cfg.layerdirs ≠ b!".bashrc") (name : Bytes) :
    cfg.layerdirs ≠ addBashrc cfg name ∧ ∀ a, cfgOf cfg a ≠ addBashrc cfg name := by
  have hld : isAbs cfg.layerdirs = true := by rw [h.eq]; rfl
  constructor
  · intro e
    apply hnb
    have hr : CleanAbs (pathJoin [pathJoin [layerPath cfg name, cfg.buildRoot], b!"root"]) :=
      cleanAbs_join _ _ (cleanAbs_join _ _ (cleanAbs_layerPath cfg name hld).2).2
    obtain ⟨xs, hxs, hx⟩ := cleanAbs_comps _ hr
    rw [e]
    unfold addBashrc
    rw [hx, pathJoin_absPath xs [b!".bashrc"] hxs (by simpa using bashrc_clean) (by simp)]
    exact pathBase_snoc xs _ bashrc_clean
  · intro a
    exact bashrc_ne_layerconfig _ { name := a, layerPath := layerPath cfg a }

theorem mem_view_append (L : List Layer) (x : Layer) (a b : Bytes) :
    (a, b) ∈ (L ++ [x]).map nb ↔ (a, b) ∈ L.map nb ∨ (a = x.name ∧ b = x.base) := by
  rw [List.map_append, List.mem_append]
  constructor
  · rintro (hm | hm)
    · exact Or.inl hm
    · simp only [List.map_cons, List.map_nil, List.mem_singleton] at hm
      exact Or.inr ⟨congrArg Prod.fst hm, congrArg Prod.snd hm⟩
  · rintro (hm | ⟨rfl, rfl⟩)
    · exact Or.inl hm
    · right; simp [nb]

open Lc.CrashAdd in
/-- **add keeps the forest on disk — on every exit**, with any fault, crash or pretend setting -/
theorem add_forest {cfg : Config} {ds : List Bytes} (h : LD cfg ds)
    (hnb : pathBase cfg.layerdirs ≠ b!".bashrc") (d : Defs) (name base cf : Bytes) (w : World)
    (hst : Start cfg w.fs d) (hf : DiskForest cfg w.fs)
    (hT : TreeWF ((addLayer cfg d name base cf).run.run w).2.fs) :
    DiskForest cfg ((addLayer cfg d name base cf).run.run w).2.fs := by
  cases ht : ([(name, NAME_FREE), (base, NAME_OPTIONAL + NAME_NEED)].all fun t => testName1 d t.1 t.2) with
  | false =>
    have : (addLayer cfg d name base cf).run.run w = (.error (.err "name"), w) := by
      unfold addLayer testName fail
      simp only [ht, run_bind, run_throw, Bool.false_eq_true, if_false]
    rw [this]; exact hf
  | true =>
    simp only [List.all_cons, List.all_nil, Bool.and_true, Bool.and_eq_true] at ht
    obtain ⟨ht1, ht2⟩ := ht
    obtain ⟨hne, hleg, hfree⟩ := (LayerPaths.free_iff d name).mp ht1
    have hn : LegalNE name := ⟨hne, hleg⟩
    have hbase : base = [] ∨ (isLegalLayerName base = true ∧ (findLayer d base).isSome = true) := by
      have : testName1 d base (NAME_NEED + NAME_OPTIONAL) = true := by rw [Nat.add_comm]; exact ht2
      exact (optneed_iff' d base).mp this
    have hpost := addLayer_post cfg d name base cf w
    generalize hw' : ((addLayer cfg d name base cf).run.run w).2 = w' at hpost hT ⊢
    have hC : addCfg cfg name = cfgOf cfg name := rfl
    have hTm : addTmp cfg name = cfgOf cfg name ++ tmpSuffix := rfl
    obtain ⟨hb1, hb2⟩ := bashrc_irrelevant h hnb name
    -- the relevant paths other than the new layerconfig
    have hkd : Keep w.fs w'.fs cfg.layerdirs := by
      have := hpost.2 cfg.layerdirs
        (by rw [hTm, tmpOf_eq h _ hn.clean, h.eq]; exact not_under_ld ds h.clean _ _ hn.clean lcTmp_clean)
        hb1
        (Or.inl (by rw [hC, cfgOf_eq h _ hn.clean, h.eq]; exact not_under_ld ds h.clean _ _ hn.clean lcName_clean))
      rcases this with e | e | ⟨e, _⟩
      · exact Or.inl e
      · exact Or.inr e
      · exfalso
        rw [hC, cfgOf_eq h _ hn.clean, h.eq] at e
        exact ne_ld ds h.clean _ _ hn.clean lcName_clean e
    have hko : ∀ a, LegalNE a → a ≠ name → Keep w.fs w'.fs (cfgOf cfg a) := by
      intro a ha hne'
      have := hpost.2 (cfgOf cfg a)
        (by
          rw [hTm, tmpOf_eq h _ hn.clean, cfgOf_eq h a ha.clean]
          cases hu : under (absPath (ds ++ [name] ++ [lcName ++ tmpSuffix])) (absPath (ds ++ [a] ++ [lcName])) with
          | false => rfl
          | true => exact absurd (under_two ds h.clean _ _ _ _ hn.clean lcTmp_clean ha.clean lcName_clean hu).1.symm hne')
        (hb2 a)
        (Or.inl (by
          rw [hC, cfgOf_eq h _ hn.clean, cfgOf_eq h a ha.clean]
          cases hu : under (absPath (ds ++ [name] ++ [lcName])) (absPath (ds ++ [a] ++ [lcName])) with
          | false => rfl
          | true => exact absurd (under_two ds h.clean _ _ _ _ hn.clean lcName_clean ha.clean lcName_clean hu).1.symm hne'))
      rcases this with e | e | ⟨e, _⟩
      · exact Or.inl e
      · exact Or.inr e
      · exfalso
        rw [hC, cfgOf_eq h _ hn.clean, cfgOf_eq h a ha.clean] at e
        have := absPath_inj _ _ (two_clean h.clean ha.clean lcName_clean) (two_clean h.clean hn.clean lcName_clean) e
        simp only [List.append_assoc, List.cons_append, List.nil_append] at this
        have := List.append_cancel_left this
        simp at this
        exact hne' this
    -- the new layerconfig itself
    have hown := hpost.2 (cfgOf cfg name)
      (by rw [hTm]; exact under_tmp_cfg _) (hb2 name) (Or.inr hC.symm)
    rcases hown with e | e | ⟨_, nd, ⟨cm, ce, hplan, hnd⟩, hget⟩
    · exact diskForest_of_keep h hf hT hkd (fun a ha => by
        by_cases e' : a = name
        · rw [e']; exact Or.inl e
        · exact hko a ha e')
    · exact diskForest_of_keep h hf hT hkd (fun a ha => by
        by_cases e' : a = name
        · rw [e']; exact Or.inr e
        · exact hko a ha e')
    · -- the complete new layerconfig is in place
      let x : Layer := newLayer cfg name base cm ce
      have hxlf : Lemmas.LayerfileRW.WF (toLayerFile x) := by
        refine ⟨?_, ?_, ?_⟩
        · rcases hbase with e | ⟨hl, _⟩
          · exact Or.inl e
          · by_cases hbe : base = []
            · exact Or.inl hbe
            · exact Or.inr (legal_tok base hbe hl)
        all_goals
          unfold Plan at hplan
          split at hplan
          · obtain ⟨lf, hdi, h1, h2⟩ := hplan
            have hlfwf : Lemmas.LayerfileRW.WF lf := by
              unfold defaultInfo at hdi
              simp only [] at hdi
              split at hdi
              · cases hdi
              · split at hdi
                · cases hdi
                · injection hdi with hdi; rw [← hdi]; exact Lemmas.LayerfileRW.readLayerFile_wf _
            first
              | (show ∀ m ∈ cm, _; rw [h1]; exact hlfwf.2.1)
              | (show ∀ m ∈ ce, _; rw [h2]; exact hlfwf.2.2)
          · obtain ⟨b, hb, h1, h2⟩ := hplan
            have := hst.lf b (findLayer_mem hb).1
            first
              | (show ∀ m ∈ cm, _; rw [h1]; exact this.2.1)
              | (show ∀ m ∈ ce, _; rw [h2]; exact this.2.2)
      have hbase_n : cfgBase cfg w'.fs name = some base := by
        unfold cfgBase; rw [hget, hnd]
        show some (readLayerFile (render (toLayerFile x))).base = _
        rw [base_of_render x hxlf]
      have hbase_o : ∀ a, LegalNE a → a ≠ name → cfgBase cfg w'.fs a = cfgBase cfg w.fs a :=
        fun a ha hne' => cfgBase_keep (hko a ha hne')
      have hok' : DiskOK cfg w'.fs := by
        refine ⟨hT, ?_, ?_⟩
        · rcases hkd with e | ⟨e1, _⟩
          · rw [e]; exact hf.ok.dir
          · rw [hf.ok.dir] at e1; cases e1
        · intro a ha t
          by_cases e' : a = name
          · rw [e', hget, hnd]; intro hh; cases hh
          · rcases hko a ha e' with e | ⟨_, e2⟩
            · rw [e]; exact hf.ok.nolink a ha t
            · rw [e2]; intro hh; cases hh
      have hnotin : name ∉ d.layers.map (·.name) := (findLayer_none_iff d name).mp hfree
      have hchk : checkInheritance (d.layers ++ [x]) = true := by
        apply check_add d.layers x hnotin _ hst.wf.acyclic
        intro hbne
        rcases hbase with e | ⟨_, hs⟩
        · exact absurd e hbne
        · exact Option.isSome_iff_exists.mp hs
      refine diskForest_of_table h hok' (d.layers ++ [x]) hchk ?_
      intro a b
      rw [mem_view_append]
      show ((a, b) ∈ d.layers.map nb ∨ (a = name ∧ b = base)) ↔ _
      constructor
      · rintro (hm | ⟨rfl, rfl⟩)
        · obtain ⟨ha, hb⟩ := (hst.agree a b).mp hm
          have hne' : a ≠ name := by
            intro e
            obtain ⟨y, hy, e2⟩ := List.mem_map.mp hm
            apply hnotin
            rw [← e]
            exact List.mem_map.mpr ⟨y, hy, congrArg Prod.fst e2⟩
          exact ⟨ha, by rw [hbase_o a ha hne']; exact hb⟩
        · exact ⟨hn, hbase_n⟩
      · rintro ⟨ha, hb⟩
        by_cases e : a = name
        · right
          rw [e, hbase_n] at hb
          injection hb with hb
          exact ⟨e, hb.symm⟩
        · left
          rw [hbase_o a ha e] at hb
          exact (hst.agree a b).mpr ⟨ha, hb⟩

/-! ### mkdirs, init: only new directories, and two files outside the layers -/

/-- outside the paths `S`: unchanged, or a directory where nothing was -/
def KeepX (S : List Bytes) (w0 w : World) : Prop := ∀ p, p ∉ S → Keep w0.fs w.fs p

theorem keepX_refl (S : List Bytes) (w : World) : KeepX S w w := fun _ _ => Or.inl rfl

theorem keep_trans {a b c : Tree} {p : Bytes} (h1 : Keep a b p) (h2 : Keep b c p) : Keep a c p := by
  rcases h2 with e | ⟨e1, e2⟩
  · rcases h1 with e' | ⟨e1', e2'⟩
    · exact Or.inl (e.trans e')
    · exact Or.inr ⟨e1', by rw [e]; exact e2'⟩
  · rcases h1 with e' | ⟨e1', e2'⟩
    · exact Or.inr ⟨by rw [← e']; exact e1, e2⟩
    · rw [e2'] at e1; cases e1

theorem keepX_trans (S : List Bytes) (w0 w1 w2 : World) (h1 : KeepX S w0 w1) (h2 : KeepX S w1 w2) :
    KeepX S w0 w2 := fun p hp => keep_trans (h1 p hp) (h2 p hp)

open Std.Do Lc.Hoare Lc.CrashAdd in
theorem fsMkdir_keepX (S : List Bytes) (w0 : World) (p : Bytes) : Holds (KeepX S w0) (fsMkdir p) := by
  unfold Holds
  apply lift_rel (fsMkdir p) _ _ (fsStep_spec _ _) (KeepX S w0)
  · rintro w1 _ w hI ⟨_, hh⟩
    rcases hh with ⟨_, hfs⟩ | ⟨_, hok⟩
    · intro q hq; rw [hfs]; exact hI q hq
    · apply keepX_trans S w0 w1 w hI
      intro q _
      rcases ExportFs.added_mkdirAll [] _ _ p hok q with e | ⟨hn, hd | ⟨e, he, _⟩⟩
      · exact Or.inl e
      · exact Or.inr ⟨hn, hd⟩
      · cases he
  · rintro w1 w hI ⟨hfs, _⟩
    intro q hq; rw [hfs]; exact hI q hq

open Std.Do Lc.Hoare Lc.CrashAdd Lc.FsMove in
theorem fsWriteTextFile_keepX (S : List Bytes) (w0 : World) (f content : Bytes) (hf : f ∈ S) :
    Holds (KeepX S w0) (fsWriteTextFile f content) := by
  unfold Holds
  apply lift_rel (fsWriteTextFile f content) _ _ (fsStep_spec _ _) (KeepX S w0)
  · rintro w1 _ w hI ⟨_, hh⟩
    rcases hh with ⟨_, hfs⟩ | ⟨_, hok⟩
    · intro q hq; rw [hfs]; exact hI q hq
    · apply keepX_trans S w0 w1 w hI
      intro q hq
      exact Or.inl (writeText_get_ne _ _ f content q hok (fun e => hq (e ▸ hf)))
  · rintro w1 w hI ⟨hfs, _⟩
    intro q hq; rw [hfs]; exact hI q hq

open Std.Do Lc.Hoare Lc.RemoveLayer in
/-- **mkdirs, every exit**: nothing but new directories -/
theorem makedirs_keepX (cfg : Config) (d : Defs) (n : Bytes) (w0 : World) :
    Holds (KeepX [] w0) (makedirs cfg d n) := by
  have hT := testName_holds (KeepX [] w0) d
  have hE := errorIfError_holds (KeepX [] w0)
  have hM := fsMkdir_keepX [] w0
  have hL := fun {α} (r : Res α) => liftRes_holds (KeepX [] w0) r
  unfold Holds at *
  unfold makedirs getL
  mvcgen [hT, hE, hM, hL, getW]
  case inv1 => exact post⟨fun _ w => ⌜KeepX [] w0 w⌝, fun _ w => ⌜KeepX [] w0 w⌝⟩
  all_goals first
    | assumption
    | (intros; assumption)
    | (split <;> mvcgen <;> assumption)
    | tw_done

/-- the two files `init` writes -/
def initFiles (cfg : Config) : List Bytes :=
  [pathJoin [cfg.basepath, skeletonFile], pathJoin [cfg.exportdirs, b!"index.html"]]

theorem needF_mem (cfg : Config) (fs : Fs.Tree) (f : Bytes × Bool)
    (hf : f ∈ [ (pathJoin [cfg.basepath, skeletonFile], true), (pathJoin [cfg.exportdirs, b!"index.html"], false) ].filter
      (fun f => !Fs.isFile fs f.1)) : f.1 ∈ initFiles cfg := by
  have := (List.mem_filter.mp hf).1
  simp only [List.mem_cons, List.not_mem_nil, or_false] at this
  unfold initFiles
  rcases this with e | e <;> rw [e] <;> simp

open Std.Do Lc.Hoare in
/-- **init, every exit**: new directories, and the two files -/
theorem initBase_keepX (cfg : Config) (w0 : World) : Holds (KeepX (initFiles cfg) w0) (initBase cfg) := by
  have hM := fsMkdir_keepX (initFiles cfg) w0
  have hF := fsWriteTextFile_keepX (initFiles cfg) w0
  unfold Holds at *
  mvcgen [initBase, hM, hF, getW, fail]
  case inv1 => exact post⟨fun _ w => ⌜KeepX (initFiles cfg) w0 w⌝, fun _ w => ⌜KeepX (initFiles cfg) w0 w⌝⟩
  case inv2 => exact post⟨fun _ w => ⌜KeepX (initFiles cfg) w0 w⌝, fun _ w => ⌜KeepX (initFiles cfg) w0 w⌝⟩
  all_goals first
    | assumption
    | (intros; assumption)
    | (have he := ‹_ = _ ++ _ :: _›
       exact needF_mem cfg _ _ (mem_of_split _ _ _ _ he))
    | tw_done

theorem keepX_forest {cfg : Config} {ds : List Bytes} (h : LD cfg ds) {S : List Bytes} {w0 w : World}
    (hf : DiskForest cfg w0.fs) (hT : TreeWF w.fs) (hk : KeepX S w0 w) (hd : cfg.layerdirs ∉ S)
    (hc : ∀ a, LegalNE a → cfgOf cfg a ∉ S) : DiskForest cfg w.fs :=
  diskForest_of_keep h hf hT (hk _ hd) (fun a ha => hk _ (hc a ha))

/-- no layerconfig path is `path.Join(x, c)` for a clean name `c` that does not end in 'g' -/
theorem cfgOf_ne_join (cfg : Config) (a x c : Bytes) (hc : CleanName c) (x' : Nat) (hl : c.getLast? = some x')
    (hx : x' ≠ 103) : cfgOf cfg a ≠ pathJoin [x, c] := by
  intro e
  have h1 := layerconfigPath_last { name := a, layerPath := layerPath cfg a }
  have h1' : (cfgOf cfg a).getLast? = some 103 := h1
  obtain ⟨B, hB⟩ := pathJoin2_suffix x c hc
  rw [e, hB, getLast_of_suffix B c x' hl] at h1'
  injection h1' with h1'
  exact hx h1'

theorem skel_clean : CleanName skeletonFile := by
  refine ⟨⟨by decide, by decide, by decide⟩, by decide⟩
theorem index_clean : CleanName (b!"index.html" : Bytes) := by
  refine ⟨⟨by decide, by decide, by decide⟩, by decide⟩

theorem cfgOf_not_initFile (cfg : Config) (a : Bytes) : cfgOf cfg a ∉ initFiles cfg := by
  unfold initFiles
  simp only [List.mem_cons, List.not_mem_nil, or_false]
  rintro (e | e)
  · exact cfgOf_ne_join cfg a _ _ skel_clean 108 (by decide) (by decide) e
  · exact cfgOf_ne_join cfg a _ _ index_clean 108 (by decide) (by decide) e

/-- **mkdirs keeps the forest on disk — on every exit** -/
theorem makedirs_forest {cfg : Config} {ds : List Bytes} (h : LD cfg ds) (d : Defs) (n : Bytes) (w : World)
    (hf : DiskForest cfg w.fs) (hT : TreeWF ((makedirs cfg d n).run.run w).2.fs) :
    DiskForest cfg ((makedirs cfg d n).run.run w).2.fs :=
  keepX_forest h hf hT (Hoare.extract _ _ (makedirs_keepX cfg d n w) w (keepX_refl _ _))
    (by simp) (fun _ _ => by simp)

/-- **init keeps the forest on disk — on every exit** (the layers directory is neither of
    the two files `init` writes) -/
theorem init_forest {cfg : Config} {ds : List Bytes} (h : LD cfg ds) (hni : cfg.layerdirs ∉ initFiles cfg)
    (w : World) (hf : DiskForest cfg w.fs) (hT : TreeWF ((initBase cfg).run.run w).2.fs) :
    DiskForest cfg ((initBase cfg).run.run w).2.fs :=
  keepX_forest h hf hT (Hoare.extract _ _ (initBase_keepX cfg w) w (keepX_refl _ _))
    hni (fun a _ => cfgOf_not_initFile cfg a)

/-! ### before the first `init`: no layers directory yet -/

/-- **the invariant of a whole installation**: the tree is well-formed and either there is no
    layers directory yet, or the installation can be listed and is a forest -/
def DiskInv (cfg : Config) (fs : Tree) : Prop :=
  TreeWF fs ∧ (Fs.get fs cfg.layerdirs = none ∨ DiskForest cfg fs)

/-- without a layers directory there is no layerconfig -/
theorem absent_cfg {cfg : Config} {ds : List Bytes} (h : LD cfg ds) {fs : Tree} (hT : TreeWF fs)
    (hab : Fs.get fs cfg.layerdirs = none) (a : Bytes) (ha : CleanName a) : Fs.get fs (cfgOf cfg a) = none := by
  cases hg : Fs.get fs (cfgOf cfg a) with
  | none => rfl
  | some x =>
    exfalso
    have h1 : cfgOf cfg a ∈ keys fs := (present_iff fs _).mp (by rw [hg]; rfl)
    have h2 := key_parent hT _ h1 (cfgOf_ne_root h a ha)
    rw [pathDir_cfgOf h a ha] at h2
    have h3 : layerPath cfg a ≠ [47] := by
      rw [layerPath_eq h a ha]; exact absPath_ne_root _ (snoc_clean h.clean ha) (by simp)
    have h4 := key_parent hT _ h2 h3
    rw [layerPath_eq h a ha, pathDir_snoc' ds a h.clean ha, ← h.eq] at h4
    have := (present_iff fs _).mpr h4
    rw [hab] at this; cases this

/-- a layers directory that has just appeared holds no layer: a forest -/
theorem forest_of_fresh {cfg : Config} {ds : List Bytes} (h : LD cfg ds) {fs fs' : Tree} (hT : TreeWF fs)
    (hab : Fs.get fs cfg.layerdirs = none) (hT' : TreeWF fs') (hdir : Fs.get fs' cfg.layerdirs = some .dir)
    (hc : ∀ a, LegalNE a → Keep fs fs' (cfgOf cfg a)) : DiskForest cfg fs' := by
  have hnone : ∀ a, LegalNE a → Fs.get fs' (cfgOf cfg a) = none ∨ Fs.get fs' (cfgOf cfg a) = some .dir := by
    intro a ha
    have h0 := absent_cfg h hT hab a ha.clean
    rcases hc a ha with e | ⟨_, e⟩
    · left; rw [e, h0]
    · right; exact e
  have hok : DiskOK cfg fs' := by
    refine ⟨hT', hdir, ?_⟩
    intro a ha t
    rcases hnone a ha with e | e <;> rw [e] <;> intro hh <;> cases hh
  refine diskForest_of_table h hok [] rfl ?_
  intro a b
  constructor
  · intro hm; cases hm
  · rintro ⟨ha, hb⟩
    exfalso
    unfold cfgBase at hb
    rcases hnone a ha with e | e <;> rw [e] at hb <;> cases hb

/-- **init keeps the installation invariant — on every exit**; a first `init` that gets as
    far as creating the layers directory makes the installation listable -/
theorem init_inv {cfg : Config} {ds : List Bytes} (h : LD cfg ds) (hni : cfg.layerdirs ∉ initFiles cfg)
    (w : World) (hi : DiskInv cfg w.fs) (hT : TreeWF ((initBase cfg).run.run w).2.fs) :
    DiskInv cfg ((initBase cfg).run.run w).2.fs := by
  refine ⟨hT, ?_⟩
  rcases hi.2 with hab | hf
  · have hk := Hoare.extract _ _ (initBase_keepX cfg w) w (keepX_refl _ _)
    rcases hk _ hni with e | ⟨_, e⟩
    · left; rw [e]; exact hab
    · right
      exact forest_of_fresh h hi.1 hab hT e (fun a _ => hk _ (cfgOf_not_initFile cfg a))
  · exact Or.inr (init_forest h hni w hf hT)

/-! ### rename: a run that returns normally -/

/-- the relevant paths after the directory move and the rewriting of the children `done` -/
structure KInv (cfg : Config) (old new : Bytes) (done : List Layer) (w0 w : World) : Prop where
  pretend : w.pretend = false
  dir : Fs.get w.fs cfg.layerdirs = Fs.get w0.fs cfg.layerdirs
  moved : Fs.get w.fs (cfgOf cfg new) = Fs.get w0.fs (cfgOf cfg old)
  vacated : Fs.get w.fs (cfgOf cfg old) = none
  kids : ∀ k ∈ done, Fs.get w.fs (cfgOf cfg k.name) = some (newNode { k with base := new })
  others : ∀ a, LegalNE a → a ≠ old → a ≠ new → (∀ k ∈ done, k.name ≠ a) →
    Fs.get w.fs (cfgOf cfg a) = Fs.get w0.fs (cfgOf cfg a)

/-- one more child rewritten -/
theorem kinv_step {cfg : Config} {ds : List Bytes} (h : LD cfg ds) {old new : Bytes} {done : List Layer}
    {w0 w1 w : World} (k : Layer) (hk : Placed cfg k) (hko : k.name ≠ old) (hkn : k.name ≠ new)
    (hnd : ∀ j ∈ done, j.name = k.name → j = k) (hdl : ∀ j ∈ done, LegalNE j.name)
    (hi : KInv cfg old new done w0 w1) (hold : LegalNE old) (hnew : LegalNE new)
    (hw : Written { k with base := new } w1 w) (hp : w.pretend = w1.pretend) :
    KInv cfg old new (done ++ [k]) w0 w := by
  have hpl' : Placed cfg { k with base := new } := hk
  obtain ⟨hget, hdir, hother⟩ := written_relevant h hpl' hw
  have hget : Fs.get w.fs (cfgOf cfg k.name) = some (newNode { k with base := new }) := hget
  have hother : ∀ a, LegalNE a → a ≠ k.name → Fs.get w.fs (cfgOf cfg a) = Fs.get w1.fs (cfgOf cfg a) := hother
  refine ⟨hp.trans hi.pretend, hdir.trans hi.dir, ?_, ?_, ?_, ?_⟩
  · rw [hother new hnew (fun e => hkn e.symm)]; exact hi.moved
  · rw [hother old hold (fun e => hko e.symm)]; exact hi.vacated
  · intro j hj
    rcases List.mem_append.mp hj with hj | hj
    · by_cases e : j.name = k.name
      · rw [hnd j hj e]; exact hget
      · rw [hother j.name (hdl j hj) e]
        exact hi.kids j hj
    · simp at hj; rw [hj]; exact hget
  · intro a ha hao han hd
    have hak : a ≠ k.name := fun e => hd k (by simp) e.symm
    rw [hother a ha hak]
    exact hi.others a ha hao han (fun j hj => hd j (List.mem_append_left _ hj))

open Lc.RemoveLayer Lc.FsMove in
/-- the directory move: from a world that differs from the start only at the export links -/
theorem kinv_move {cfg : Config} {ds : List Bytes} (h : LD cfg ds) (hA : ExportsApart.ExportsApart cfg)
    (hex : isAbs cfg.exportdirs = true) (l : Layer) (hl : Placed cfg l) (new : Bytes) (hnew : LegalNE new)
    (hne : new ≠ l.name) {w0 w1 w : World} (hp0 : w0.pretend = false)
    (hs : Same (exPaths cfg l) w0 w1) (hr : Fs.rename w1.fs l.layerPath (layerPath cfg new) = .ok w.fs)
    (hp : w.pretend = w1.pretend) : KInv cfg l.name new [] w0 w := by
  have hold := placed_legal hl
  have hc := ex_clear h hA hex l hl
  have hlpe : l.layerPath = absPath (ds ++ [l.name]) := hl.1.trans (layerPath_eq h _ hold.clean)
  have hnpe : layerPath cfg new = absPath (ds ++ [new]) := layerPath_eq h _ hnew.clean
  have c1 := snoc_clean h.clean hold.clean
  have c2 := snoc_clean h.clean hnew.clean
  have hlr : l.layerPath ≠ [47] := by rw [hlpe]; exact absPath_ne_root _ c1 (by simp)
  have hnr : layerPath cfg new ≠ [47] := by rw [hnpe]; exact absPath_ne_root _ c2 (by simp)
  -- one component below the layers directory: at or above the other means the same name
  have hone : ∀ x y, CleanName x → CleanName y → x ≠ y →
      under (absPath (ds ++ [x])) (absPath (ds ++ [y])) = false := by
    intro x y hx hy hxy
    cases hu : under (absPath (ds ++ [x])) (absPath (ds ++ [y])) with
    | false => rfl
    | true =>
      have hp := (under_absPath _ _ (snoc_clean h.clean hx) (snoc_clean h.clean hy)).mp hu
      rw [List.prefix_append_right_inj] at hp
      simp at hp
      exact absurd hp hxy
  have hsep : under (layerPath cfg new) l.layerPath = false := by
    rw [hlpe, hnpe]; exact hone _ _ hnew.clean hold.clean hne
  have hget := rename_get w1.fs w.fs _ _ hr hlr hnr hsep
  -- a layerconfig path against a layer directory
  have hunder : ∀ x a, CleanName x → CleanName a →
      (under (absPath (ds ++ [x])) (cfgOf cfg a) = true ↔ x = a) := by
    intro x a hx ha
    rw [cfgOf_eq h a ha, under_absPath _ _ (snoc_clean h.clean hx) (two_clean h.clean ha lcName_clean),
      List.append_assoc, List.prefix_append_right_inj]
    simp
  have hcfg_drop : ∀ a, CleanName a → (cfgOf cfg a).drop (absPath (ds ++ [a])).length = 47 :: lcName := by
    intro a ha
    rw [cfgOf_eq h a ha, absPath_append (ds ++ [a]) [lcName] (by simp) (by simp), List.drop_left]
    rfl
  have hcfg_app : ∀ a, CleanName a → absPath (ds ++ [a]) ++ 47 :: lcName = cfgOf cfg a := by
    intro a ha
    rw [cfgOf_eq h a ha, absPath_append (ds ++ [a]) [lcName] (by simp) (by simp)]
    rfl
  refine ⟨hp.trans (hs.1.trans hp0), ?_, ?_, ?_, (fun k hk => absurd hk List.not_mem_nil), ?_⟩
  · rw [hget]
    unfold getMoved
    have h1 : under (layerPath cfg new) cfg.layerdirs = false := by
      rw [hnpe, h.eq]
      cases hu : under (absPath (ds ++ [new])) (absPath ds) with
      | false => rfl
      | true =>
        have := ((under_absPath _ _ c2 h.clean).mp hu).length_le
        simp at this; omega
    have h2 : under l.layerPath cfg.layerdirs = false := by
      rw [hlpe, h.eq]
      cases hu : under (absPath (ds ++ [l.name])) (absPath ds) with
      | false => rfl
      | true =>
        have := ((under_absPath _ _ c1 h.clean).mp hu).length_le
        simp at this; omega
    simp only [h1, h2, Bool.false_eq_true, if_false]
    exact hs.2 _ (fun m hm => (hc m hm).1)
  · rw [hget]
    unfold getMoved
    have h1 : under (layerPath cfg new) (cfgOf cfg new) = true := by
      rw [hnpe]; exact (hunder new new hnew.clean hnew.clean).mpr rfl
    simp only [h1, if_true]
    rw [hnpe, hcfg_drop new hnew.clean, hlpe, hcfg_app _ hold.clean]
    exact hs.2 _ (fun m hm => (hc m hm).2 _ hold)
  · rw [hget]
    unfold getMoved
    have h1 : under (layerPath cfg new) (cfgOf cfg l.name) = false := by
      rw [hnpe]
      cases hu : under (absPath (ds ++ [new])) (cfgOf cfg l.name) with
      | false => rfl
      | true => exact absurd ((hunder new l.name hnew.clean hold.clean).mp hu) hne
    have h2 : under l.layerPath (cfgOf cfg l.name) = true := by
      rw [hlpe]; exact (hunder _ _ hold.clean hold.clean).mpr rfl
    simp [h1, h2]
  · intro a ha hao han _
    rw [hget]
    unfold getMoved
    have h1 : under (layerPath cfg new) (cfgOf cfg a) = false := by
      rw [hnpe]
      cases hu : under (absPath (ds ++ [new])) (cfgOf cfg a) with
      | false => rfl
      | true => exact absurd ((hunder new a hnew.clean ha.clean).mp hu).symm han
    have h2 : under l.layerPath (cfgOf cfg a) = false := by
      rw [hlpe]
      cases hu : under (absPath (ds ++ [l.name])) (cfgOf cfg a) with
      | false => rfl
      | true => exact absurd ((hunder _ a hold.clean ha.clean).mp hu).symm hao
    simp only [h1, h2, Bool.false_eq_true, if_false]
    exact hs.2 _ (fun m hm => (hc m hm).2 a ha)

/-- the relevant paths after a whole `rename` -/
structure KDone (cfg : Config) (old new : Bytes) (l' : Layer) (done : List Layer) (w0 w : World) : Prop where
  dir : Fs.get w.fs cfg.layerdirs = Fs.get w0.fs cfg.layerdirs
  top : Fs.get w.fs (cfgOf cfg new) = some (newNode l')
  vacated : Fs.get w.fs (cfgOf cfg old) = none
  kids : ∀ k ∈ done, Fs.get w.fs (cfgOf cfg k.name) = some (newNode { k with base := new })
  others : ∀ a, LegalNE a → a ≠ old → a ≠ new → (∀ k ∈ done, k.name ≠ a) →
    Fs.get w.fs (cfgOf cfg a) = Fs.get w0.fs (cfgOf cfg a)

/-- the renamed layer's own layerconfig written -/
theorem kdone_final {cfg : Config} {ds : List Bytes} (h : LD cfg ds) {old new : Bytes} {done : List Layer}
    {w0 w1 w : World} (l' : Layer) (hl' : Placed cfg l') (hn : l'.name = new) (hon : old ≠ new)
    (hdn : ∀ j ∈ done, j.name ≠ new) (hdl : ∀ j ∈ done, LegalNE j.name)
    (hi : KInv cfg old new done w0 w1) (hold : LegalNE old) (hw : Written l' w1 w) :
    KDone cfg old new l' done w0 w := by
  obtain ⟨hget, hdir, hother⟩ := written_relevant h hl' hw
  rw [hn] at hget hother
  refine ⟨hdir.trans hi.dir, hget, ?_, ?_, ?_⟩
  · rw [hother old hold hon]; exact hi.vacated
  · intro j hj
    rw [hother j.name (hdl j hj) (hdn j hj)]; exact hi.kids j hj
  · intro a ha hao han hd
    rw [hother a ha han]; exact hi.others a ha hao han hd

set_option maxHeartbeats 1000000 in
open Std.Do Lc.Hoare Lc.RemoveLayer Lc.CrashAdd in
/-- **rename, a normal return when not pretending**: the old layerconfig path is vacated, the
    new one holds the renamed layer's text, every child's layerconfig holds the child's text
    with the new base, the layers directory and every other layerconfig are as before -/
theorem renameLayer_done {cfg : Config} {ds : List Bytes} (h : LD cfg ds) (hA : ExportsApart.ExportsApart cfg)
    (hex : isAbs cfg.exportdirs = true) (d : Defs) (new : Bytes) (co : List Bytes)
    (l : Layer) (w0 : World) (hl : findLayer d l.name = some l) (hp : w0.pretend = false)
    (hwf : WF d) (hpl : ∀ k ∈ d.layers, Placed cfg k) :
    ⦃fun w => ⌜Same (exPaths cfg l) w0 w⌝⦄ renameLayer cfg d l.name new co
    ⦃post⟨fun _ w => ⌜KDone cfg l.name new { l with name := new, layerPath := layerPath cfg new }
            (kidsOf d l.name co) w0 w⌝, fun _ _ => ⌜True⌝⟩⦄ := by
  have hT : ∀ t, ⦃fun w => ⌜Same (exPaths cfg l) w0 w⌝⦄ testName d t
      ⦃post⟨fun _ w => ⌜Same (exPaths cfg l) w0 w ∧ t.all (fun t => testName1 d t.1 t.2) = true⌝,
            fun _ _ => ⌜True⌝⟩⦄ := by
    intro t; unfold testName; split <;> mvcgen [fail]
  have hE := errorIfError_holds (Same (exPaths cfg l) w0)
  have hB := errorIfBusy_holds (Same (exPaths cfg l) w0)
  have hX := removeLayerExportLinks_same w0 cfg l
  have hMv : LegalNE new → new ≠ l.name →
      ⦃fun w => ⌜Same (exPaths cfg l) w0 w⌝⦄ fsRename l.layerPath (layerPath cfg new)
      ⦃post⟨fun _ w => ⌜KInv cfg l.name new [] w0 w⌝, fun _ _ => ⌜True⌝⟩⦄ := by
    intro hnew hne
    apply lift_rel (fsRename l.layerPath (layerPath cfg new)) _ _ (fsStep_spec _ _) (Same (exPaths cfg l) w0)
    · rintro w1 _ w hs ⟨hpr, hh⟩
      rcases hh with ⟨ht, _⟩ | ⟨_, hok⟩
      · rw [hs.1, hp] at ht; cases ht
      · exact kinv_move h hA hex l (hpl l (findLayer_mem hl).1) new hnew hne hp hs hok hpr
    · intros; trivial
  have hg : getL d l.name = pure l := by simp [getL, hl]
  have hlm := (findLayer_mem hl).1
  have hold : LegalNE l.name := placed_legal (hpl l hlm)
  -- what the name test establishes
  have hname : ([(l.name, NAME_NEED), (new, NAME_FREE)].all fun t => testName1 d t.1 t.2) = true →
      LegalNE new ∧ new ∉ d.layers.map (·.name) := by
    intro ht
    simp only [List.all_cons, List.all_nil, Bool.and_true, Bool.and_eq_true] at ht
    obtain ⟨a1, a2, a3⟩ := (LayerPaths.free_iff d new).mp ht.2
    exact ⟨⟨a1, a2⟩, (findLayer_none_iff d new).mp a3⟩
  -- the children
  have hkid : ∀ k ∈ kidsOf d l.name co, k ∈ d.layers ∧ Placed cfg k ∧ k.name ≠ l.name := by
    intro k hk
    obtain ⟨hkm, hkb⟩ := kidsOf_mem d l.name co k hk
    refine ⟨hkm, hpl k hkm, ?_⟩
    intro e
    have : k = l := nodup_name_inj hwf.nodup hkm hlm e
    rw [this] at hkb
    exact self_base_ne d.layers hwf.acyclic l hlm hold.1 hkb
  unfold Holds at *
  unfold renameLayer reorder
  simp only [hg]
  mvcgen [hT, hE, hB, hX, hMv, fail, writeLayerFile_spec]
  case inv1 =>
    exact post⟨fun (cur, _) w => ⌜KInv cfg l.name new cur.prefix w0 w⌝, fun _ _ => ⌜True⌝⟩
  case vc2 => exact (‹_ ∧ _›).1
  case vc5 => exact (hname (‹Same _ _ _ ∧ _›).2).1
  case vc6 =>
    intro e
    exact (hname (‹Same _ _ _ ∧ _›).2).2 (e ▸ List.mem_map.mpr ⟨l, hlm, rfl⟩)
  case vc8 =>
    rename_i pref cur suff hsplit b s1 hinv r s hrel
    obtain ⟨hnewL, hnotin⟩ := hname (‹Same _ _ _ ∧ _›).2
    have hinv' : KInv cfg l.name new pref w0 s1 := hinv
    have hsplit' : kidsOf d l.name co = pref ++ cur :: suff := hsplit
    have hcur := hkid cur (by rw [hsplit']; simp)
    have hprefm : ∀ j ∈ pref, j ∈ kidsOf d l.name co := fun j hj => by rw [hsplit']; simp [hj]
    show KInv cfg l.name new (pref ++ [cur]) w0 s
    rcases hrel.2 with ⟨ht, _⟩ | ⟨_, hwr⟩
    · rw [hinv'.pretend] at ht; cases ht
    · exact kinv_step h cur hcur.2.1 hcur.2.2
        (fun e => hnotin (e ▸ List.mem_map.mpr ⟨cur, hcur.1, rfl⟩))
        (fun j hj e => nodup_name_inj hwf.nodup (hkid j (hprefm j hj)).1 hcur.1 e)
        (fun j hj => placed_legal (hkid j (hprefm j hj)).2.1)
        hinv' hold hnewL hwr hrel.1
  case vc9 => intros; trivial
  case vc10 => assumption
  case vc11 =>
    rename_i s1 hinv o hx r s hrel
    obtain ⟨hnewL, hnotin⟩ := hname (‹Same _ _ _ ∧ _›).2
    have hinv' : KInv cfg l.name new (kidsOf d l.name co) w0 s1 := hinv
    rcases hrel.2 with ⟨ht, _⟩ | ⟨_, hwr⟩
    · rw [hinv'.pretend] at ht; cases ht
    · exact kdone_final h _ ⟨rfl, hnewL.1, hnewL.2⟩ rfl
        (fun e => hnotin (e ▸ List.mem_map.mpr ⟨l, hlm, rfl⟩))
        (fun j hj e => hnotin (e ▸ List.mem_map.mpr ⟨j, (hkid j hj).1, rfl⟩))
        (fun j hj => placed_legal (hkid j hj).2.1) hinv' hold hwr

open Lc.RemoveLayer in
/-- **rename keeps the forest on disk** when it returns normally (pretending or not) -/
theorem rename_forest {cfg : Config} {ds : List Bytes} (h : LD cfg ds) (hA : ExportsApart.ExportsApart cfg)
    (hex : isAbs cfg.exportdirs = true) (d : Defs) (old new : Bytes) (co : List Bytes) (w : World)
    (hst : Start cfg w.fs d) (hf : DiskForest cfg w.fs) (d' : Defs) (w' : World)
    (hrun : (renameLayer cfg d old new co).run.run w = (.ok d', w')) (hT : TreeWF w'.fs) :
    DiskForest cfg w'.fs := by
  cases hpr : w.pretend with
  | true =>
    have := Hoare.extract (Pretend.PInv w) _ (Pretend.renameLayer_keeps w cfg d old new co) w ⟨rfl, rfl, rfl, rfl, hpr⟩
    rw [hrun] at this
    have e : w'.fs = w.fs := this.1
    rw [e]; exact hf
  | false =>
    obtain ⟨_, ht2, l, o, d1, hfl, hd1, ho, hd'⟩ := ret_elim _ _ (renameLayer_ret cfg d old new co) w d' w' hrun
    have hlm := findLayer_mem hfl
    have hnl := hlm.2
    subst hnl
    obtain ⟨hne, hleg, hfree⟩ := (LayerPaths.free_iff d new).mp ht2
    have hnewL : LegalNE new := ⟨hne, hleg⟩
    have hnotin : new ∉ d.layers.map (·.name) := (findLayer_none_iff d new).mp hfree
    have hpl := hst.placed l hlm.1
    have hold : LegalNE l.name := placed_legal hpl
    have hon : l.name ≠ new := fun e => hnotin (e ▸ List.mem_map.mpr ⟨l, hlm.1, rfl⟩)
    have hlb : l.base ≠ l.name := self_base_ne d.layers hst.wf.acyclic l hlm.1 hold.1
    let l' : Layer := { l with name := new, layerPath := layerPath cfg new }
    -- the table returned
    have hk : d1.layers = d.layers.map (rebaseKid l.name new) := by
      rw [hd1]; exact kids_foldl_layers d hst.wf.nodup l.name new co
    have hren : d1.layers.filter (·.name != l.name) ++ [l'] = renamed d.layers l.name new l' := by
      rw [hk]; rfl
    rw [hren] at ho
    have hwf' := wf_rename d l.name new l l' o hst.wf hfl hne hleg hfree rfl rfl ho
    -- the tree left behind
    have hdone := extractPost _ _ _ _
      (renameLayer_done h hA hex d new co l w hfl hpr hst.wf hst.placed) w (same_refl _ _)
    rw [hrun] at hdone
    have hdone : KDone cfg l.name new l' (kidsOf d l.name co) w w' := hdone
    -- children by name
    have hkidname : ∀ a, (∃ k ∈ kidsOf d l.name co, k.name = a) ↔ ∃ x ∈ d.layers, x.name = a ∧ x.base = l.name := by
      intro a
      constructor
      · rintro ⟨k, hk, e⟩
        obtain ⟨h1, h2⟩ := kidsOf_mem d l.name co k hk
        exact ⟨k, h1, e, h2⟩
      · rintro ⟨x, hx, e, hb⟩
        obtain ⟨k, hk, e2⟩ := List.mem_map.mp (kidsOf_complete d l.name co x hx hb)
        exact ⟨k, hk, e2.trans e⟩
    have hlf_kid : ∀ k ∈ d.layers, Lemmas.LayerfileRW.WF (toLayerFile { k with base := new }) := fun k hk =>
      ⟨Or.inr (legal_tok new hne hleg), (hst.lf k hk).2.1, (hst.lf k hk).2.2⟩
    have hlf_l' : Lemmas.LayerfileRW.WF (toLayerFile l') := hst.lf l hlm.1
    -- the base lines on the new tree
    have hb_new : cfgBase cfg w'.fs new = some l.base := by
      unfold cfgBase; rw [hdone.top]
      show some (readLayerFile (render (toLayerFile l'))).base = _
      rw [base_of_render l' hlf_l']
    have hb_old : cfgBase cfg w'.fs l.name = none := by
      unfold cfgBase; rw [hdone.vacated]
    have hb_kid : ∀ k ∈ kidsOf d l.name co, cfgBase cfg w'.fs k.name = some new := by
      intro k hk
      unfold cfgBase; rw [hdone.kids k hk]
      show some (readLayerFile (render (toLayerFile { k with base := new }))).base = _
      rw [base_of_render _ (hlf_kid k (kidsOf_mem d l.name co k hk).1)]
    have hb_other : ∀ a, LegalNE a → a ≠ l.name → a ≠ new → (∀ k ∈ kidsOf d l.name co, k.name ≠ a) →
        cfgBase cfg w'.fs a = cfgBase cfg w.fs a := by
      intro a ha h1 h2 h3
      unfold cfgBase; rw [hdone.others a ha h1 h2 h3]
    have hok' : DiskOK cfg w'.fs := by
      refine ⟨hT, by rw [hdone.dir]; exact hf.ok.dir, ?_⟩
      intro a ha t
      by_cases e1 : a = new
      · rw [e1, hdone.top]; intro hh; cases hh
      · by_cases e2 : a = l.name
        · rw [e2, hdone.vacated]; intro hh; cases hh
        · by_cases e3 : ∃ k ∈ kidsOf d l.name co, k.name = a
          · obtain ⟨k, hk, e⟩ := e3
            rw [← e, hdone.kids k hk]; intro hh; cases hh
          · rw [hdone.others a ha e2 e1 (fun k hk e => e3 ⟨k, hk, e⟩)]
            exact hf.ok.nolink a ha t
    refine diskForest_of_table h hok' (renamed d.layers l.name new l') hwf'.acyclic ?_
    intro a b
    rw [mem_view_renamed d.layers l.name new l l' hst.wf.nodup hfl hlb rfl rfl]
    constructor
    · rintro ⟨x, hx, rfl, rfl⟩
      by_cases hxo : x.name = l.name
      · have : x = l := nodup_name_inj hst.wf.nodup hx hlm.1 hxo
        subst this
        have r1 : rn x.name new x.name = new := by unfold rn; simp
        have r2 : rn x.name new x.base = x.base := by unfold rn; rw [if_neg hlb]
        rw [r1, r2]
        exact ⟨hnewL, hb_new⟩
      · have r1 : rn l.name new x.name = x.name := by unfold rn; rw [if_neg hxo]
        rw [r1]
        have hxL : LegalNE x.name := placed_legal (hst.placed x hx)
        have hxn : x.name ≠ new := fun e => hnotin (e ▸ List.mem_map.mpr ⟨x, hx, rfl⟩)
        refine ⟨hxL, ?_⟩
        by_cases hxb : x.base = l.name
        · have r2 : rn l.name new x.base = new := by unfold rn; rw [if_pos hxb]
          rw [r2]
          obtain ⟨k, hk, e⟩ := (hkidname x.name).mpr ⟨x, hx, rfl, hxb⟩
          rw [← e]; exact hb_kid k hk
        · have r2 : rn l.name new x.base = x.base := by unfold rn; rw [if_neg hxb]
          rw [r2, hb_other x.name hxL hxo hxn]
          · exact ((hst.agree x.name x.base).mp (List.mem_map.mpr ⟨x, hx, rfl⟩)).2
          · intro k hk e
            obtain ⟨h1, h2⟩ := kidsOf_mem d l.name co k hk
            have : k = x := nodup_name_inj hst.wf.nodup h1 hx e
            rw [this] at h2
            exact hxb h2
    · rintro ⟨ha, hb⟩
      by_cases e1 : a = new
      · rw [e1, hb_new] at hb
        injection hb with hb
        refine ⟨l, hlm.1, ?_, ?_⟩
        · rw [e1]; unfold rn; simp
        · rw [← hb]; unfold rn; rw [if_neg hlb]
      · by_cases e2 : a = l.name
        · rw [e2, hb_old] at hb; cases hb
        · by_cases e3 : ∃ k ∈ kidsOf d l.name co, k.name = a
          · obtain ⟨k, hk, e⟩ := e3
            rw [← e, hb_kid k hk] at hb
            injection hb with hb
            obtain ⟨h1, h2⟩ := kidsOf_mem d l.name co k hk
            refine ⟨k, h1, ?_, ?_⟩
            · rw [← e]; unfold rn; rw [if_neg (e ▸ e2)]
            · rw [← hb, h2]; unfold rn; simp
          · rw [hb_other a ha e2 e1 (fun k hk e => e3 ⟨k, hk, e⟩)] at hb
            obtain ⟨x, hx, e⟩ := List.mem_map.mp ((hst.agree a b).mpr ⟨ha, hb⟩)
            have ex1 : x.name = a := congrArg Prod.fst e
            have ex2 : x.base = b := congrArg Prod.snd e
            refine ⟨x, hx, ?_, ?_⟩
            · rw [ex1]; unfold rn; rw [if_neg e2]
            · rw [ex2]
              have : b ≠ l.name := by
                intro hbb
                exact e3 ((hkidname a).mpr ⟨x, hx, ex1, ex2.trans hbb⟩)
              unfold rn; rw [if_neg this]

end Lc.DiskCmd
