/-
  What the four structural commands return, as statements about the returned table only
  (`Ret m Q`: whenever `m` ends normally — from whatever world, whatever it did to the
  world — the value satisfies `Q`), and the bridge from the model's table updates to the
  pure updates of `Lemmas/ForestInv.lean`.  The (name, base) view of a table, on which
  alone the invariant depends.  Helpers for Props/C02.
-/
import Lc.Lemmas.Hoare
import Lc.Lemmas.RunM
import Lc.Lemmas.ForestInv
import Lc.Lemmas.StateProbeAll

namespace Lc.ForestCmd
open Std.Do Lc Lc.Layers Lc.Hoare Lc.ForestInv Lc.Forest Lc.RunM
set_option mvcgen.warning false

/-- a statement about the returned value only, whatever the worlds are -/
abbrev Ret {α} (m : M α) (Q : α → Prop) : Prop :=
  ⦃fun _ => ⌜True⌝⦄ m ⦃post⟨fun a _ => ⌜Q a⌝, fun _ _ => ⌜True⌝⟩⦄

theorem ret_intro {α} (m : M α) (Q : α → Prop)
    (h : ∀ w a w', m.run.run w = (.ok a, w') → Q a) : Ret m Q := by
  intro w _
  simp [wp]
  generalize hg : (StateT.run (ExceptT.run m) w) = r
  obtain ⟨x, s⟩ := r
  cases x with
  | error e => trivial
  | ok a => exact h w a s hg

theorem ret_elim {α} (m : M α) (Q : α → Prop) (h : Ret m Q) (w : World) (a : α) (w' : World)
    (hr : m.run.run w = (.ok a, w')) : Q a := by
  have h2 := h w trivial
  simp [wp] at h2
  have hr' : StateT.run (ExceptT.run m) w = (.ok a, w') := hr
  rw [hr'] at h2
  exact h2

theorem ret_any {α} (m : M α) : Ret m (fun _ => True) := ret_intro m _ (fun _ _ _ _ => trivial)

theorem testName_ret (d : Defs) (t : List (Bytes × Nat)) :
    Ret (testName d t) (fun _ => t.all (fun t => testName1 d t.1 t.2) = true) := by
  unfold Ret testName
  split <;> mvcgen [fail]

theorem reorder_ret (d : Defs) :
    Ret (reorder d) (fun d' => ∃ o, normalizeOrder d.layers = .ok o ∧ d' = { d with order := o }) := by
  unfold Ret reorder
  split <;> mvcgen
  rename_i o ho _
  exact ⟨o, ho, rfl⟩

theorem addLayer_ret (cfg : Config) (d : Defs) (n b f : Bytes) :
    Ret (addLayer cfg d n b f) (fun d' =>
      testName1 d n NAME_FREE = true ∧ testName1 d b (NAME_OPTIONAL + NAME_NEED) = true ∧
      ∃ cm ce o, normalizeOrder (d.layers ++ [{ name := n, base := b, cmounts := cm, cexports := ce, layerPath := layerPath cfg n }]) = .ok o ∧
        d' = { d with layers := d.layers ++ [{ name := n, base := b, cmounts := cm, cexports := ce, layerPath := layerPath cfg n }], order := o }) := by
  have hT := testName_ret d
  have hR := reorder_ret
  have hM := fun p => ret_any (fsMkdir p)
  have hW := fun l => ret_any (writeLayerFile l)
  have hF := fun p c => ret_any (fsWriteTextFile p c)
  have hG := fun f => ret_any (getDefaultLayerinfo cfg f)
  unfold Ret at *
  mvcgen [addLayer, hT, hR, hM, hW, hF, hG, fail]
  all_goals
    intro ⟨o, ho, hr⟩
    have ht := ‹(List.all _ _) = true›
    simp only [List.all_cons, List.all_nil, Bool.and_true, Bool.and_eq_true] at ht
    exact ⟨ht.1, ht.2, _, _, o, ho, hr⟩

theorem getL_ret (d : Defs) (n : Bytes) : Ret (getL d n) (fun l => findLayer d n = some l) := by
  unfold Ret getL
  split <;> mvcgen

theorem removeLayer_ret (cfg : Config) (d : Defs) (n : Bytes) (files : Bool) :
    Ret (removeLayer cfg d n files) (fun d' =>
      testName1 d n NAME_NEED = true ∧ hasChild d n = false ∧
      ∃ o, normalizeOrder (d.layers.filter (·.name != n)) = .ok o ∧
        d' = { d with layers := d.layers.filter (·.name != n), order := o }) := by
  have hT := testName_ret d
  have hR := reorder_ret
  have hG := getL_ret d
  have h1 := fun l => ret_any (errorIfError l)
  have h2 := fun l a => ret_any (errorIfBusy l a)
  have h3 := fun l => ret_any (removeLayerExportLinks cfg l)
  have h4 := fun p => ret_any (fsRemove p)
  have h5 := fun a b => ret_any (fsRename a b)
  have h6 := fun p => ret_any (fExists p)
  have h7 := fun l => ret_any (holdsOnlyOwnFiles cfg l)
  unfold Ret at *
  mvcgen [removeLayer, hT, hR, hG, h1, h2, h3, h4, h5, h6, h7, fail]
  all_goals
    intro ⟨o, ho, hr⟩
    have ht := ‹(List.all _ _) = true›
    simp only [List.all_cons, List.all_nil, Bool.and_true] at ht
    exact ⟨ht, by simpa using ‹¬ hasChild d n = true›, o, ho, hr⟩

/-- the children of `old`, in the order rename visits them -/
def kidsOf (d : Defs) (old : Bytes) (childOrder : List Bytes) : List Layer :=
  (childOrder.filterMap fun n => (d.layers.filter (·.base == old)).find? (·.name == n))
    ++ (d.layers.filter (·.base == old)).filter (fun k => !childOrder.contains k.name)

theorem renameLayer_ret (cfg : Config) (d : Defs) (old new : Bytes) (co : List Bytes) :
    Ret (renameLayer cfg d old new co) (fun d' =>
      testName1 d old NAME_NEED = true ∧ testName1 d new NAME_FREE = true ∧
      ∃ l o d1, findLayer d old = some l ∧
        d1 = (kidsOf d old co).foldl (fun d k => setLayer d { k with base := new }) d ∧
        normalizeOrder (d1.layers.filter (·.name != old)
          ++ [{ l with name := new, layerPath := layerPath cfg new }]) = .ok o ∧
        d' = { d1 with layers := d1.layers.filter (·.name != old)
          ++ [{ l with name := new, layerPath := layerPath cfg new }], order := o }) := by
  have hT := testName_ret d
  have hR := reorder_ret
  have hG := getL_ret d
  have h1 := fun l => ret_any (errorIfError l)
  have h2 := fun l a => ret_any (errorIfBusy l a)
  have h3 := fun l => ret_any (removeLayerExportLinks cfg l)
  have h5 := fun a b => ret_any (fsRename a b)
  have hW := fun l => ret_any (writeLayerFile l)
  unfold Ret at *
  mvcgen [renameLayer, hT, hR, hG, h1, h2, h3, h5, hW, fail]
  case inv1 => exact post⟨fun (cur, acc) _ => ⌜acc = cur.prefix.foldl (fun d k => setLayer d { k with base := new }) d⌝, fun _ _ => ⌜True⌝⟩
  case vc1 =>
    rename_i hinv _ _
    replace hinv : _ = List.foldl _ d _ := hinv
    show _ = List.foldl _ d (_ ++ [_])
    rw [List.foldl_append, ← hinv]
    rfl
  case vc2 => intro _; trivial
  case vc3 => rfl
  case vc4 =>
    rename_i hinv r1 s1 hre r0 s0
    obtain ⟨o, ho, hr⟩ := hre
    have ht := ‹(List.all _ _) = true›
    simp only [List.all_cons, List.all_nil, Bool.and_true, Bool.and_eq_true] at ht
    replace hinv : _ = List.foldl _ d _ := hinv
    exact ⟨ht.1, ht.2, _, o, _, ‹findLayer d old = some _›, hinv, ho, hr⟩

theorem rebaseLayer_ret (cfg : Config) (d : Defs) (n nb : Bytes) :
    Ret (rebaseLayer cfg d n nb) (fun d' =>
      testName1 d n NAME_NEED = true ∧ testName1 d nb (NAME_NEED + NAME_OPTIONAL) = true ∧
      ∃ l o, findLayer d n = some l ∧
        checkInheritance (setLayer d { l with base := nb }).layers = true ∧
        normalizeOrder (setLayer d { l with base := nb }).layers = .ok o ∧
        d' = { setLayer d { l with base := nb } with order := o }) := by
  have hT := testName_ret d
  have hR := reorder_ret
  have hG := getL_ret d
  have h1 := fun l => ret_any (errorIfError l)
  have h2 := fun l a => ret_any (errorIfBusy l a)
  have hW := fun l => ret_any (writeLayerFile l)
  unfold Ret at *
  mvcgen [rebaseLayer, hT, hR, hG, h1, h2, hW, fail]
  all_goals
    obtain ⟨o, ho, hr⟩ := ‹∃ o, _›
    have ht := ‹(List.all _ _) = true›
    simp only [List.all_cons, List.all_nil, Bool.and_true, Bool.and_eq_true] at ht
    have hc := ‹¬(!checkInheritance _) = true›
    exact ⟨ht.1, ht.2, _, o, ‹findLayer d n = some _›, by simpa using hc, ho, hr⟩

/-- a bind that ends normally: both parts did -/
theorem bind_ok_inv {α β} (x : M α) (f : α → M β) (w w' : World) (b : β)
    (h : (x >>= f).run.run w = (.ok b, w')) :
    ∃ a w1, x.run.run w = (.ok a, w1) ∧ (f a).run.run w1 = (.ok b, w') := by
  rw [run_bind] at h
  generalize hg : x.run.run w = r at h
  obtain ⟨r1, w1⟩ := r
  cases r1 with
  | error e => injection h with h1 _; cases h1
  | ok a => exact ⟨a, w1, rfl, h⟩

/-! ### rename: the children loop computes `rebaseKid` on every record -/

/-- records whose name is in `S` get the base `new` -/
def upd (new : Bytes) (S : List Bytes) (x : Layer) : Layer :=
  if S.contains x.name then { x with base := new } else x

theorem foldl_setLayer_layers (L : List Layer) (hnd : (L.map (·.name)).Nodup) (new : Bytes) :
    ∀ (ks : List Layer) (S : List Bytes) (acc : Defs), (∀ k ∈ ks, k ∈ L) →
      acc.layers = L.map (upd new S) →
      (ks.foldl (fun d k => setLayer d { k with base := new }) acc).layers
        = L.map (upd new (S ++ ks.map (·.name))) := by
  intro ks
  induction ks with
  | nil => intro S acc _ h; simpa using h
  | cons k ks ih =>
    intro S acc hk h
    rw [List.foldl_cons]
    have hkL : k ∈ L := hk k (by simp)
    have := ih (S ++ [k.name]) (setLayer acc { k with base := new })
      (fun k' hk' => hk k' (List.mem_cons_of_mem _ hk')) ?_
    · rw [this]; simp
    · unfold setLayer
      simp only [h, List.map_map]
      apply List.map_congr_left
      intro x hx
      simp only [Function.comp]
      have hun : (upd new S x).name = x.name := by unfold upd; split <;> rfl
      rw [hun]
      by_cases e : x.name = k.name
      · have hxk : x = k := nodup_name_inj hnd hx hkL e
        subst hxk
        simp [upd]
      · have e' : ¬ (x.name == k.name) = true := by simpa using e
        rw [if_neg e']
        unfold upd
        have : (S ++ [k.name]).contains x.name = S.contains x.name := by
          simp [e]
        rw [this]

theorem kidsOf_mem (d : Defs) (old : Bytes) (co : List Bytes) (k : Layer) (hk : k ∈ kidsOf d old co) :
    k ∈ d.layers ∧ k.base = old := by
  unfold kidsOf at hk
  have hsub : ∀ k, k ∈ d.layers.filter (·.base == old) → k ∈ d.layers ∧ k.base = old := by
    intro k hk
    obtain ⟨h1, h2⟩ := List.mem_filter.mp hk
    exact ⟨h1, by simpa using h2⟩
  rcases List.mem_append.mp hk with hk | hk
  · obtain ⟨n, _, hf⟩ := List.mem_filterMap.mp hk
    exact hsub k (List.mem_of_find?_eq_some hf)
  · exact hsub k (List.mem_filter.mp hk).1

theorem kidsOf_complete (d : Defs) (old : Bytes) (co : List Bytes) (x : Layer) (hx : x ∈ d.layers)
    (hb : x.base = old) : x.name ∈ (kidsOf d old co).map (·.name) := by
  have hx0 : x ∈ d.layers.filter (·.base == old) := List.mem_filter.mpr ⟨hx, by simp [hb]⟩
  unfold kidsOf
  rw [List.map_append, List.mem_append]
  by_cases hc : co.contains x.name = true
  · left
    have hcm : x.name ∈ co := by simpa using hc
    cases hf : (d.layers.filter (·.base == old)).find? (·.name == x.name) with
    | none =>
      rw [List.find?_eq_none] at hf
      exact absurd (by simp) (hf x hx0)
    | some k =>
      exact List.mem_map.mpr ⟨k, List.mem_filterMap.mpr ⟨x.name, hcm, hf⟩, find_name hf⟩
  · right
    exact List.mem_map.mpr ⟨x, List.mem_filter.mpr ⟨hx0, by simpa using hc⟩, rfl⟩

/-- **the children loop of rename**, whatever order Go's map iteration took: every record
    with base `old` gets base `new`, no other record is touched -/
theorem kids_foldl_layers (d : Defs) (hnd : (d.layers.map (·.name)).Nodup) (old new : Bytes)
    (co : List Bytes) :
    ((kidsOf d old co).foldl (fun d k => setLayer d { k with base := new }) d).layers
      = d.layers.map (rebaseKid old new) := by
  have h0 : d.layers = d.layers.map (upd new []) := by
    have : upd new [] = id := by funext x; simp [upd]
    rw [this, List.map_id]
  rw [foldl_setLayer_layers d.layers hnd new (kidsOf d old co) [] d
    (fun k hk => (kidsOf_mem d old co k hk).1) h0]
  apply List.map_congr_left
  intro x hx
  unfold upd rebaseKid
  simp only [List.nil_append]
  by_cases hb : x.base = old
  · have := kidsOf_complete d old co x hx hb
    have h1 : ((kidsOf d old co).map (·.name)).contains x.name = true := by simpa using this
    have h2 : (x.base == old) = true := by simp [hb]
    rw [if_pos h1, if_pos h2]
  · have h2 : ¬ (x.base == old) = true := by simpa using hb
    have h1 : ¬ ((kidsOf d old co).map (·.name)).contains x.name = true := by
      intro hc
      have hm : x.name ∈ (kidsOf d old co).map (·.name) := by simpa using hc
      obtain ⟨k, hk, e⟩ := List.mem_map.mp hm
      obtain ⟨hkL, hkb⟩ := kidsOf_mem d old co k hk
      have := nodup_name_inj hnd hkL hx e
      subst this
      exact hb hkb
    rw [if_neg h1, if_neg h2]

/-! ### probing keeps the (name, base) view -/

open Lc.StateProbe in
theorem probeLayer_nb (cfg : Config) (inuse : List (Bytes × List User)) (fs : Fs.Tree) (d : Defs)
    (name : Bytes) (l0 l' : Layer) (h : probeLayer cfg inuse fs d name l0 = .ok l') :
    l'.name = l0.name ∧ l'.base = l0.base := by
  unfold probeLayer at h
  simp only [] at h
  have hc := classifyUsers_sameCore cfg
    { l0 with mounts := getMountAndSubmounts d.mounts (buildPath cfg l0) } (usersOf inuse name)
  obtain ⟨c1, c2, _⟩ := hc
  split at h
  · injection h with h; subst h; exact ⟨c1, c2⟩
  · split at h
    · injection h with h; subst h; exact ⟨c1, c2⟩
    · obtain ⟨s, hs, _⟩ := findLayerstate_shape cfg fs d _ l' h
      subst hs
      exact ⟨c1, c2⟩

theorem foldlM_ret {α β} (I : β → Prop) (xs : List α) (body : β → α → M β) (init : β)
    (h : ∀ b x, I b → Ret (body b x) I) (hi : I init) : Ret (xs.foldlM body init) I := by
  induction xs generalizing init with
  | nil =>
    apply ret_intro
    intro w a w' hr
    simp only [List.foldlM_nil, run_pure] at hr
    injection hr with h1 _; injection h1 with h1; subst h1; exact hi
  | cons x xs ih =>
    apply ret_intro
    intro w a w' hr
    rw [List.foldlM_cons] at hr
    obtain ⟨b, w1, h1, h2⟩ := bind_ok_inv _ _ _ _ _ hr
    have hb := ret_elim _ _ (h init x hi) w b w1 h1
    exact ret_elim _ _ (ih b hb) w1 a w' h2

open Lc.StateProbe in
theorem probeStep_ret (cfg : Config) (inuse : List (Bytes × List User)) (fs : Fs.Tree) (d : Defs)
    (name : Bytes) (h : WF d) : Ret (probeStep cfg inuse fs d name) WF := by
  apply ret_intro
  intro w a w' hr
  rw [probeStep_eq] at hr
  cases hf : findLayer d name with
  | none => rw [hf] at hr; simp only [run_throw] at hr; injection hr with h1 _; cases h1
  | some l =>
    rw [hf] at hr
    simp only [] at hr
    split at hr
    · simp only [run_pure] at hr
      injection hr with h1 _; injection h1 with h1; subst h1
      -- (fix e3cb7aa) the record of a layer in the error state gets its mounts and users
      obtain ⟨e1, e2, _⟩ := probeErr_key cfg inuse d name l
      have hn : l.name = name := (findLayer_mem hf).2
      exact wf_setLayer_same h l _ (by rw [show (probeErr cfg inuse d name l).name = l.name from e1, hn]; exact hf) e2
    · obtain ⟨l', w1, h1, h2⟩ := bind_ok_inv _ _ _ _ _ hr
      rw [run_liftRes] at h1
      injection h1 with h1 _
      simp only [run_pure] at h2
      injection h2 with h2 _; injection h2 with h2; subst h2
      obtain ⟨e1, e2⟩ := probeLayer_nb cfg inuse fs d name l l' h1
      have hn : l.name = name := (findLayer_mem hf).2
      exact wf_setLayer_same h l l' (by rw [e1, hn]; exact hf) e2

theorem refreshMountInfo_ret (cfg : Config) (d : Defs) :
    Ret (refreshMountInfo cfg d) (fun d' => d'.layers.map nb = d.layers.map nb ∧ d'.order = d.order) := by
  unfold Ret
  mvcgen [refreshMountInfo, getW, liftRes]
  all_goals first
    | rfl
    | (rw [List.map_map]; rfl)

open Lc.StateProbe in
/-- **probing** (`ProbeAllLayerstate`) keeps a well-formed table well-formed: it only fills
    in states, mounts and user flags -/
theorem probeAll_ret (cfg : Config) (inuse : List (Bytes × List User)) (d : Defs) (h : WF d) :
    Ret (probeAll cfg inuse d) WF := by
  apply ret_intro
  intro w a w' hr
  rw [probeAll_eq] at hr
  obtain ⟨d1, w1, h1, h2⟩ := bind_ok_inv _ _ _ _ _ hr
  obtain ⟨hv, ho⟩ := ret_elim _ _ (refreshMountInfo_ret cfg d) w d1 w1 h1
  have hd1 : WF d1 := wf_of_view h hv ho
  obtain ⟨w2, w3, h3, h4⟩ := bind_ok_inv _ _ _ _ _ h2
  exact ret_elim _ _ (foldlM_ret WF d1.order (probeStep cfg inuse w2.fs) d1
    (fun b x hb => probeStep_ret cfg inuse w2.fs b x hb) hd1) w3 a w' h4

/-! ### FindLayers -/

theorem pathBase_ne_nil (s : Bytes) : pathBase s ≠ [] := by
  unfold pathBase
  split
  · simp
  · simp only []
    split
    · simp
    · rename_i h; intro e; rw [e] at h; simp at h

theorem children_ne_nil (fs : Fs.Tree) (dir : Bytes) : ∀ n ∈ Fs.children fs dir, n ≠ [] := by
  intro n hn
  unfold Fs.children at hn
  obtain ⟨e, _, rfl⟩ := List.mem_map.mp hn
  exact pathBase_ne_nil _

/-- the records read are named by a sub-list of the directory listing … -/
theorem readLayerFiles_names (cfg : Config) (fs : Fs.Tree) (names : List Bytes) :
    ((readLayerFiles cfg fs names).map (·.name)).Sublist names := by
  induction names with
  | nil => exact List.Sublist.slnil
  | cons n ns ih =>
    unfold readLayerFiles at ih ⊢
    rw [List.filterMap_cons]
    split
    · exact List.Sublist.cons _ ih
    · rename_i l hl
      have : l.name = n := by
        split at hl
        · cases hl
        · dsimp only at hl
          split at hl
          · injection hl with hl; rw [← hl]; rfl
          · cases hl
      rw [List.map_cons, this]
      exact List.Sublist.cons_cons _ ih

/-- … and only entries with a legal name become records -/
theorem readLayerFiles_legal (cfg : Config) (fs : Fs.Tree) (names : List Bytes) (l : Layer)
    (hl : l ∈ readLayerFiles cfg fs names) : l.name ∈ names ∧ isLegalLayerName l.name = true := by
  unfold readLayerFiles at hl
  obtain ⟨n, hn, hf⟩ := List.mem_filterMap.mp hl
  split at hf
  · cases hf
  · rename_i hleg
    dsimp only at hf
    split at hf
    · injection hf with hf
      have : l.name = n := by rw [← hf]; rfl
      rw [this]
      exact ⟨hn, by simpa using hleg⟩
    · cases hf

/-- a successful FindLayers: it only read; the table is what `readLayerFiles` makes of the
    listing of the layers directory, it passed the cycle check and got its order -/
theorem findLayers_ok (cfg : Config) (w w' : World) (d : Defs)
    (h : (findLayers cfg).run.run w = (.ok d, w')) :
    w' = w ∧ d.layers = readLayerFiles cfg w.fs (Fs.children w.fs cfg.layerdirs) ∧
      checkInheritance d.layers = true ∧ normalizeOrder d.layers = .ok d.order := by
  unfold findLayers fail reorder at h
  simp only [run_bind, run_getW, run_ite, run_throw] at h
  by_cases h1 : Fs.isDir w.fs cfg.layerdirs = true
  · by_cases h2 : checkInheritance (readLayerFiles cfg w.fs (Fs.children w.fs cfg.layerdirs)) = true
    · cases ho : normalizeOrder (readLayerFiles cfg w.fs (Fs.children w.fs cfg.layerdirs)) with
      | error e =>
        simp [h1, h2, ho] at h
        have h' : ((Except.error e : Except Fault Defs), w) = (Except.ok d, w') := h
        injection h' with a _; cases a
      | ok o =>
        simp [h1, h2, ho] at h
        have h' : ((Except.ok { layers := readLayerFiles cfg w.fs (Fs.children w.fs cfg.layerdirs), order := o } :
          Except Fault Defs), w) = (Except.ok d, w') := h
        injection h' with a b
        injection a with a
        subst a
        exact ⟨b.symm, rfl, h2, ho⟩
    · simp [h1, h2] at h
      injection h with a _; cases a
  · simp [h1] at h
    injection h with a _; cases a

end Lc.ForestCmd
