/-
  Helper lemmas for C18: the model's parser, chain loop and path patching expressed
  through the specification's vocabulary.
-/
import Lc.Model.Config
import Lc.Spec.Precedence
import Lc.Lemmas.Path

namespace Lc.Lemmas.Config
open Lc Lc.Config Lc.Spec.Precedence Lc.Lemmas.Path

/-! ### A. one file -/

theorem lookupKey_eq (n : Bytes) : lookupKey n = keyOfName n := by
  by_cases h0 : n = b!"BASEPATH"
  · subst h0; rfl
  by_cases h1 : n = b!"CONFIGFILE"
  · subst h1; rfl
  by_cases h2 : n = b!"LAYERS"
  · subst h2; rfl
  by_cases h3 : n = b!"BUILDROOT"
  · subst h3; rfl
  by_cases h4 : n = b!"BINPKGS"
  · subst h4; rfl
  by_cases h5 : n = b!"GENERATED_FILES"
  · subst h5; rfl
  by_cases h6 : n = b!"OVERFS_WORKDIR"
  · subst h6; rfl
  by_cases h7 : n = b!"OVERFS_UPPERDIR"
  · subst h7; rfl
  by_cases h8 : n = b!"EXPORTS"
  · subst h8; rfl
  by_cases h9 : n = b!"EXPORT_BINPKGS"
  · subst h9; rfl
  by_cases h10 : n = b!"EXPORT_GENERATED_FILES"
  · subst h10; rfl
  by_cases h11 : n = b!"CHROOT_EXEC"
  · subst h11; rfl
  have h : ∀ item ∈ settingSetup, ¬ ((n == item.configKey) = true) := by
    intro item hi
    simp only [settingSetup, List.mem_cons, List.not_mem_nil, or_false] at hi
    rcases hi with rfl | rfl | rfl | rfl | rfl | rfl | rfl | rfl | rfl | rfl | rfl | rfl
    all_goals (simp only [beq_iff_eq]; assumption)
  unfold lookupKey keyOfName
  rw [List.find?_eq_none.mpr h]
  simp only [h0, h1, h2, h3, h4, h5, h6, h7, h8, h9, h10, h11, if_false, Option.map_none]

/-- what a file's assignments do to an accumulator -/
def overlay (as : List (Option Key × Bytes)) (cfg : Setup) : Setup :=
  fun k => if lastValue k as ≠ [] then lastValue k as else cfg k

theorem assignmentsOf_cons_skip (l : Bytes) (rest : List Bytes) (h : isSkipped l = true) :
    assignmentsOf (l :: rest) = assignmentsOf rest := by
  simp [assignmentsOf, List.filter, h]

theorem assignmentsOf_cons_keep (l : Bytes) (rest : List Bytes) (h : isSkipped l = false) :
    assignmentsOf (l :: rest) = (keyOfName (lineKey l), lineVal l) :: assignmentsOf rest := by
  simp [assignmentsOf, List.filter, h]

theorem readLines_eq (ls : List Bytes) (cfg : Setup) :
    readLines cfg ls =
      if wellFormed (assignmentsOf ls) then .ok (overlay (assignmentsOf ls) cfg)
      else Res.err "unknown-key" := by
  induction ls generalizing cfg with
  | nil =>
    simp only [readLines, assignmentsOf, wellFormed, List.filter, List.map, List.all, if_true]
    congr 1
  | cons l rest ih =>
    unfold readLines
    by_cases hs : isSkipped l = true
    · simp only [hs, if_true]
      rw [assignmentsOf_cons_skip l rest hs]
      exact ih cfg
    · have hs' : isSkipped l = false := by simpa using hs
      simp only [hs', Bool.false_eq_true, if_false]
      rw [assignmentsOf_cons_keep l rest hs', lookupKey_eq]
      cases hk : keyOfName (lineKey l) with
      | none => simp [wellFormed]
      | some k0 =>
        simp only []
        rw [ih]
        have hwf : wellFormed ((some k0, lineVal l) :: assignmentsOf rest)
            = wellFormed (assignmentsOf rest) := by simp [wellFormed]
        rw [hwf]
        by_cases hw : wellFormed (assignmentsOf rest) = true
        · simp only [hw, if_true]
          congr 1
          funext k
          simp only [overlay, lastValue]
          by_cases hr : lastValue k (assignmentsOf rest) = []
          · by_cases hkk : k0 = k
            · subst hkk
              by_cases hv : lineVal l = []
              · simp [hr, hv]
              · have : (lineVal l).length > 0 := List.length_pos_iff.mpr hv
                simp [hr, hv, Setup.set, this]
            · have hkk' : ¬ k = k0 := fun e => hkk e.symm
              by_cases hv : (lineVal l).length > 0
              · simp [hr, hkk, hkk', Setup.set, hv]
              · simp [hr, hkk, hv]
          · simp [hr]
        · simp [hw]

theorem parseConfig_eq (c : Bytes) :
    parseConfig c =
      if wellFormed (assignments c) then .ok (fileValue c) else Res.err "unknown-key" := by
  unfold parseConfig
  rw [readLines_eq]
  unfold assignments
  by_cases hw : wellFormed (assignmentsOf (Mountinfo.scanLines c)) = true
  · simp only [hw, if_true]
    congr 1
    funext k
    simp [overlay, fileValue, assignments, Setup.empty]
  · simp [hw]

/-! ### B. the chain -/

/-- first-value-wins accumulation of the files' values onto `setup` -/
def accum (setup : Setup) (cs : List Bytes) : Setup :=
  fun k => firstNonEmpty (setup k :: cs.map (fun c => fileValue c k))

theorem accum_nil (setup : Setup) : accum setup [] = setup := by
  funext k
  by_cases h : setup k = [] <;> simp [accum, firstNonEmpty, h]

theorem accum_merge (setup : Setup) (c : Bytes) (cs : List Bytes) :
    accum (mergeSettingSetup setup (fileValue c)) cs = accum setup (c :: cs) := by
  funext k
  by_cases h : setup k = []
  · simp [accum, firstNonEmpty, mergeSettingSetup, h]
  · have : (setup k).length ≠ 0 := fun e => h (List.length_eq_zero_iff.mp e)
    simp [accum, firstNonEmpty, mergeSettingSetup, h, this]

theorem chainLoop_eq (fs : Fs) (fuel : Nat) (f : Bytes) (vis : List Bytes) (setup : Setup) :
    chainLoop fs fuel f vis setup =
      match follow fs fuel f vis with
      | .error e => .error e
      | .ok cs => .ok (accum setup cs) := by
  induction fuel generalizing f vis setup with
  | zero =>
    unfold chainLoop follow
    by_cases hf : f = []
    · subst hf; simp [accum_nil]
    · have : f.length ≠ 0 := fun e => hf (List.length_eq_zero_iff.mp e)
      simp [hf, this, Res.err]
  | succ n ih =>
    unfold chainLoop follow
    by_cases hf : f = []
    · subst hf; simp [accum_nil]
    · have : f.length ≠ 0 := fun e => hf (List.length_eq_zero_iff.mp e)
      simp only [this, hf, if_false]
      by_cases hv : f ∈ vis
      · simp [hv, Res.err]
      · simp only [hv, if_false]
        unfold readConfigFile
        cases hfs : fs f with
        | none => simp [Res.err]
        | some node =>
          cases node with
          | dir => simp [Res.err]
          | file c =>
            simp only [parseConfig_eq]
            by_cases hw : wellFormed (assignments c) = true
            · simp only [hw, if_true]
              rw [ih]
              cases follow fs n (fileValue c Key.configfile) (f :: vis) with
              | error e => rfl
              | ok cs => simp [accum_merge]
            · simp [hw, Res.err]

theorem startFile_eq (fs : Fs) (env : Env) (sw : Switches) :
    startFile fs env sw = selectFile fs env sw := by
  unfold startFile selectFile
  by_cases hc : sw.configfile = []
  · have hiF : isRegular fs = isFile fs := by
      funext n; rfl
    have hl : candidates env = searchList env := by
      unfold candidates searchList
      have hd : pathDir (pathDir env.argv0) ++ b!"/etc/layercake.conf" ≠ [] := by simp
      have hd2 : (pathDir (pathDir env.argv0)).length > 0 :=
        List.length_pos_iff.mpr (pathDir_ne_nil _)
      have hp : ∀ x : Bytes, x ≠ [] → 0 < x.length := fun x hx => List.length_pos_iff.mpr hx
      by_cases h1 : env.layerconf = [] <;> by_cases h2 : env.home = [] <;>
        simp [h1, h2, hd2, List.filter, hp]
    simp only [hc, List.length_nil, hiF, hl]
    cases (searchList env).find? (isFile fs) <;> simp
  · have : ¬ sw.configfile.length < 1 := by
      intro h; apply hc; apply List.length_eq_zero_iff.mp; omega
    simp [hc, this]

/-! ### C. patchPaths -/

theorem pathJoin_two (b l : Bytes) (hb : b ≠ []) : pathJoin [b, l] = pathClean (b ++ SLASH :: l) := by
  cases b with
  | nil => exact absurd rfl hb
  | cons x xs => simp [pathJoin, List.dropWhile, joinWith]

theorem isAbs_ne_nil {s : Bytes} (h : isAbs s = true) : s ≠ [] := by
  intro e; subst e; simp [isAbs] at h

theorem patchOne_value (cfg : Setup) (k : Key) (r : Option Key) (d n : Bytes) :
    patchOne cfg ⟨k, .value, r, d, n⟩ = .ok cfg := by
  simp [patchOne]

theorem patchOne_empty (cfg : Setup) (e : CfSetup) (h : cfg e.key = []) :
    patchOne cfg e = .ok cfg := by
  simp [patchOne, h]

theorem patchOne_file (cfg : Setup) (k : Key) (t : SType) (ht : t ≠ .value) (d n : Bytes) (h : cfg k ≠ []) :
    patchOne cfg ⟨k, t, none, d, n⟩ =
      if isAbs (pathClean (cfg k)) then .ok (cfg.set k (pathClean (cfg k))) else Res.err "no-abs-path" := by
  have hl : ¬ (cfg k).length < 1 := by
    have := List.length_pos_iff.mpr h; omega
  cases t <;> simp_all [patchOne] <;> cases isAbs (pathClean (cfg k)) <;> simp

theorem patchOne_rel (cfg : Setup) (k r : Key) (d n : Bytes) (h : cfg k ≠ [])
    (hr : isAbs (cfg r) = true) :
    patchOne cfg ⟨k, .dir, some r, d, n⟩ =
      .ok (cfg.set k (if isAbs (pathClean (cfg k)) then pathClean (cfg k)
                      else pathClean (cfg r ++ SLASH :: pathClean (cfg k)))) := by
  have hl : ¬ (cfg k).length < 1 := by
    have := List.length_pos_iff.mpr h; omega
  have hrn := isAbs_ne_nil hr
  have hrl : ¬ (cfg r).length < 1 := by
    have := List.length_pos_iff.mpr hrn; omega
  by_cases ha : isAbs (pathClean (cfg k)) = true
  · simp [patchOne, hl, ha]
  · simp [patchOne, hl, ha, hrl, hr, pathJoin_two _ _ hrn]

theorem len_lt_one {s : Bytes} (h : s ≠ []) : ¬ s.length < 1 := by
  have := List.length_pos_iff.mpr h; omega

theorem patchPaths_eq (m : Setup) (hb : m .basepath ≠ []) (hl : m .layerdirs ≠ [])
    (he : m .exportroot ≠ []) : patchPaths m = resolveFrom m := by
  have hb' := len_lt_one hb
  have hl' := len_lt_one hl
  have he' := len_lt_one he
  by_cases hA : isAbs (pathClean (m .basepath)) = true
  · have hBn := isAbs_ne_nil hA
    have hBl := len_lt_one hBn
    by_cases hC0 : m .configfile = [] <;>
    by_cases hC : isAbs (pathClean (m .configfile)) = true <;>
    by_cases hX0 : m .chrootexec = [] <;>
    by_cases hX : isAbs (pathClean (m .chrootexec)) = true <;>
    by_cases hL : isAbs (pathClean (m .layerdirs)) = true <;>
    by_cases hE : isAbs (pathClean (m .exportroot)) = true <;>
    simp [patchPaths, settingSetup, patchList, patchOne, Setup.set, resolveFrom, effectiveBase,
        resolveKey, kind, allKeys, pathJoin_two _ _ hBn, Res.err, *] <;>
    (funext k; cases k <;> simp [Setup.set, *])
  · simp [patchPaths, settingSetup, patchList, patchOne, hb', hA, resolveFrom, effectiveBase, Res.err]

/-! ### D. Load -/

theorem defaults_eq (k : Key) : defaultSettingSetup k = builtin k := by
  cases k <;> rfl

theorem fne_append (a b : List Bytes) :
    firstNonEmpty (a ++ b) = if firstNonEmpty a ≠ [] then firstNonEmpty a else firstNonEmpty b := by
  induction a with
  | nil => simp [firstNonEmpty]
  | cons x xs ih =>
    by_cases hx : x = []
    · simp [firstNonEmpty, hx, ih]
    · simp [firstNonEmpty, hx]

theorem fne_single (x : Bytes) : firstNonEmpty [x] = x := by
  by_cases hx : x = [] <;> simp [firstNonEmpty, hx]

/-- the switch/environment suppliers of a key -/
def pre (sw : Switches) (env : Env) (k : Key) : List Bytes :=
  match k with
  | .basepath => [sw.basepath, env.layerroot]
  | _ => []

theorem suppliers_eq (sw : Switches) (env : Env) (cs : List Bytes) (k : Key) :
    suppliers { switchBase := sw.basepath, envBase := env.layerroot, files := cs } k =
      pre sw env k ++ cs.map (fun c => fileValue c k) ++ [builtin k] := by
  cases k <;> rfl

theorem seed_eq (sw : Switches) (env : Env) (k : Key) (L : List Bytes) :
    firstNonEmpty (seedSetup env sw k :: L) = firstNonEmpty (pre sw env k ++ L) := by
  cases k
  case basepath =>
    by_cases h1 : sw.basepath = []
    · simp [seedSetup, Setup.set, pre, firstNonEmpty, h1]
    · have : ¬ sw.basepath.length < 1 := len_lt_one h1
      simp [seedSetup, Setup.set, pre, firstNonEmpty, h1, this]
  all_goals simp [seedSetup, Setup.set, Setup.empty, pre, firstNonEmpty]

theorem merged_eq (sw : Switches) (env : Env) (cs : List Bytes) :
    mergeSettingSetup (accum (seedSetup env sw) cs) defaultSettingSetup =
      raw { switchBase := sw.basepath, envBase := env.layerroot, files := cs } := by
  funext k
  unfold raw
  rw [suppliers_eq, fne_append, fne_single]
  simp only [mergeSettingSetup, accum, seed_eq, defaults_eq]
  by_cases h : firstNonEmpty (pre sw env k ++ cs.map (fun c => fileValue c k)) = []
  · simp [h]
  · have : (firstNonEmpty (pre sw env k ++ cs.map (fun c => fileValue c k))).length ≠ 0 :=
      fun e => h (List.length_eq_zero_iff.mp e)
    simp [h, this]

theorem raw_ne_nil (inp : Inputs) (k : Key) (h : builtin k ≠ []) : raw inp k ≠ [] := by
  unfold raw
  have key : ∀ (l : List Bytes) (x : Bytes), x ≠ [] → firstNonEmpty (l ++ [x]) ≠ [] := by
    intro l x hx
    rw [fne_append, fne_single]
    split
    · assumption
    · exact hx
  unfold suppliers
  exact key _ _ h

theorem loadSetup_eq (fs : Fs) (env : Env) (sw : Switches) (fuel : Nat) :
    loadSetup fs env sw fuel =
      match follow fs fuel (selectFile fs env sw) [] with
      | .error e => .error e
      | .ok cs => resolve { switchBase := sw.basepath, envBase := env.layerroot, files := cs } := by
  unfold loadSetup
  rw [chainLoop_eq, startFile_eq]
  cases follow fs fuel (selectFile fs env sw) [] with
  | error e => rfl
  | ok cs =>
    simp only [resolve]
    rw [merged_eq]
    exact patchPaths_eq _ (raw_ne_nil _ _ (by decide)) (raw_ne_nil _ _ (by decide))
      (raw_ne_nil _ _ (by decide))

/-! ### E. walks along the chain -/

theorem follow_nil (fs : Fs) (k : Nat) (seen : List Bytes) : follow fs k [] seen = .ok [] := by
  unfold follow; simp

theorem follow_step (fs : Fs) (n : Nat) (name c : Bytes) (seen : List Bytes) (hne : name ≠ [])
    (hns : name ∉ seen) (hfs : fs name = some (.file c))
    (hwf : wellFormed (assignments c) = true) :
    follow fs (n + 1) name seen =
      match follow fs n (fileValue c .configfile) (name :: seen) with
      | .ok cs => .ok (c :: cs)
      | .error f => .error f := by
  conv => lhs; unfold follow
  simp only [hne, if_false, hns, hfs, hwf, if_true]
  cases follow fs n (fileValue c Key.configfile) (name :: seen) <;> rfl

/-- decomposition of `follow` along a walk: after reading the files of the walk, `follow`
    continues from the walk's successor with the walk's names marked as seen -/
theorem follow_walk {fs : Fs} {start next : Bytes} {names cs : List Bytes}
    (h : Walk fs start names cs next) :
    ∀ (seen : List Bytes) (k : Nat), names.Nodup → (∀ n ∈ names, n ∉ seen) →
      follow fs (names.length + k) start seen =
        match follow fs k next (names.reverse ++ seen) with
        | .ok cs' => .ok (cs ++ cs')
        | .error f => .error f := by
  induction h with
  | nil =>
    intro seen k _ _
    simp only [List.length_nil, Nat.zero_add, List.reverse_nil, List.nil_append]
    cases follow fs k _ seen <;> rfl
  | @cons name c next names contents hne hfs hwf _ ih =>
    intro seen k hnd hdis
    have hlen : (name :: names).length + k = (names.length + k) + 1 := by
      simp only [List.length_cons]; omega
    have hns : name ∉ seen := hdis name (by simp)
    rw [hlen, follow_step fs _ name c seen hne hns hfs hwf]
    have hnd' : names.Nodup := (List.nodup_cons.mp hnd).2
    have hnn : name ∉ names := (List.nodup_cons.mp hnd).1
    have hdis' : ∀ n ∈ names, n ∉ name :: seen := by
      intro n hn hmem
      rcases List.mem_cons.mp hmem with e | e
      · exact hnn (e ▸ hn)
      · exact hdis n (by simp [hn]) e
    rw [ih (name :: seen) k hnd' hdis']
    have hrev : (name :: names).reverse ++ seen = names.reverse ++ name :: seen := by
      simp [List.reverse_cons, List.append_assoc]
    rw [hrev]
    cases follow fs k next (names.reverse ++ name :: seen) <;> simp

theorem walk_names_ne_nil {fs : Fs} {start next : Bytes} {names cs : List Bytes}
    (h : Walk fs start names cs next) : ∀ n ∈ names, n ≠ [] := by
  induction h with
  | nil => intro n hn; simp at hn
  | cons hne _ _ _ ih =>
    intro n hn
    rcases List.mem_cons.mp hn with e | e
    · exact e ▸ hne
    · exact ih n e

theorem walk_names_present {fs : Fs} {start next : Bytes} {names cs : List Bytes}
    (h : Walk fs start names cs next) : ∀ n ∈ names, fs n ≠ none := by
  induction h with
  | nil => intro n hn; simp at hn
  | cons _ hfs _ _ ih =>
    intro n hn
    rcases List.mem_cons.mp hn with e | e
    · rw [e, hfs]; simp
    · exact ih n e

/-- every "loop" verdict of `follow` comes from a walk that returns to a name already seen -/
theorem follow_loop_walk (fs : Fs) : ∀ (fuel : Nat) (start : Bytes) (seen : List Bytes),
    follow fs fuel start seen = Res.err "loop" →
      ∃ names cs next, Walk fs start names cs next ∧ names.Nodup ∧ (∀ n ∈ names, n ∉ seen) ∧
        (next ∈ names ∨ next ∈ seen) := by
  intro fuel
  induction fuel with
  | zero =>
    intro start seen h
    unfold follow at h
    by_cases hs : start = [] <;> simp [hs, Res.err] at h
  | succ n ih =>
    intro start seen h
    unfold follow at h
    by_cases hs : start = []
    · simp [hs, Res.err] at h
    · simp only [hs, if_false] at h
      by_cases hm : start ∈ seen
      · exact ⟨[], [], start, Walk.nil, List.nodup_nil, by simp, Or.inr hm⟩
      · simp only [hm, if_false] at h
        cases hfs : fs start with
        | none => simp [hfs, Res.err] at h
        | some node =>
          cases node with
          | dir => simp [hfs, Res.err] at h
          | file c =>
            simp only [hfs] at h
            by_cases hw : wellFormed (assignments c) = true
            · simp only [hw, if_true] at h
              cases hrec : follow fs n (fileValue c Key.configfile) (start :: seen) with
              | ok cs => simp [hrec, Res.err] at h
              | error f =>
                simp only [hrec] at h
                have hf : follow fs n (fileValue c Key.configfile) (start :: seen) = Res.err "loop" := by
                  rw [hrec]; exact h
                obtain ⟨names, cs, next, hwalk, hnd, hdis, hnext⟩ := ih _ _ hf
                refine ⟨start :: names, c :: cs, next, Walk.cons hs hfs hw hwalk, ?_, ?_, ?_⟩
                · refine List.nodup_cons.mpr ⟨?_, hnd⟩
                  intro hmem
                  exact hdis start hmem (by simp)
                · intro x hx
                  rcases List.mem_cons.mp hx with e | e
                  · exact e ▸ hm
                  · intro hxs; exact hdis x e (by simp [hxs])
                · rcases hnext with hx | hx
                  · exact Or.inl (by simp [hx])
                  · rcases List.mem_cons.mp hx with e | e
                    · exact Or.inl (by simp [e])
                    · exact Or.inr e
            · simp [hw, Res.err] at h

/-- pigeonhole: a duplicate-free list inside `m` is no longer than `m` -/
theorem nodup_subset_length {α : Type} [DecidableEq α] :
    ∀ (l m : List α), l.Nodup → (∀ x ∈ l, x ∈ m) → l.length ≤ m.length := by
  intro l
  induction l with
  | nil => intro m _ _; simp
  | cons a l ih =>
    intro m hnd hsub
    have ha : a ∈ m := hsub a (by simp)
    have hnd' := (List.nodup_cons.mp hnd)
    have hsub' : ∀ x ∈ l, x ∈ m.erase a := by
      intro x hx
      have hxa : x ≠ a := fun e => hnd'.1 (e ▸ hx)
      exact (List.mem_erase_of_ne hxa).mpr (hsub x (by simp [hx]))
    have := ih (m.erase a) hnd'.2 hsub'
    rw [List.length_erase_of_mem ha] at this
    have hpos : 0 < m.length := List.length_pos_of_mem ha
    simp only [List.length_cons]
    omega

/-- the visited-set measure: with `|support| + 1` units of fuel minus what has been used,
    `follow` never runs dry -/
theorem follow_fuel_suffices (fs : Fs) (support : List Bytes)
    (hsup : ∀ n, fs n ≠ none → n ∈ support) :
    ∀ (fuel : Nat) (start : Bytes) (seen : List Bytes), seen.Nodup → (∀ x ∈ seen, x ∈ support) →
      support.length + 1 ≤ seen.length + fuel →
      follow fs fuel start seen ≠ Res.err "out-of-fuel" := by
  intro fuel
  induction fuel with
  | zero =>
    intro start seen hnd hsub hlen
    have := nodup_subset_length seen support hnd hsub
    omega
  | succ n ih =>
    intro start seen hnd hsub hlen
    unfold follow
    by_cases hs : start = []
    · simp [hs, Res.err]
    · simp only [hs, if_false]
      by_cases hm : start ∈ seen
      · simp [hm, Res.err]
      · simp only [hm, if_false]
        cases hfs : fs start with
        | none => simp [Res.err]
        | some node =>
          cases node with
          | dir => simp [Res.err]
          | file c =>
            simp only []
            by_cases hw : wellFormed (assignments c) = true
            · simp only [hw, if_true]
              have hin : start ∈ support := hsup start (by rw [hfs]; simp)
              have hrec := ih (fileValue c Key.configfile) (start :: seen)
                (List.nodup_cons.mpr ⟨hm, hnd⟩)
                (by intro x hx; rcases List.mem_cons.mp hx with e | e
                    · exact e ▸ hin
                    · exact hsub x e)
                (by simp only [List.length_cons]; omega)
              cases hf : follow fs n (fileValue c Key.configfile) (start :: seen) with
              | ok cs => simp [Res.err]
              | error f =>
                simp only []
                intro e
                apply hrec
                rw [hf, e]
            · simp [hw, Res.err]

theorem resolveFrom_error (r : Key → Bytes) (f : Fault) (h : resolveFrom r = .error f) :
    f = .err "no-abs-path" := by
  unfold resolveFrom at h
  split at h
  · simp [Res.err] at h; exact h.symm
  · split at h
    · simp at h
    · simp [Res.err] at h; exact h.symm

/-- a file is ill formed exactly when one of its non-comment lines has an unknown key -/
theorem wellFormed_false_iff (ls : List Bytes) :
    wellFormed (assignmentsOf ls) = false ↔
      ∃ l ∈ ls, isSkipped l = false ∧ keyOfName (lineKey l) = none := by
  unfold wellFormed assignmentsOf
  rw [List.all_eq_false]
  constructor
  · rintro ⟨a, ha, hn⟩
    obtain ⟨l, hl, rfl⟩ := List.mem_map.mp ha
    have hl' := List.mem_filter.mp hl
    refine ⟨l, hl'.1, by simpa using hl'.2, ?_⟩
    cases hk : keyOfName (lineKey l) with
    | none => rfl
    | some k => simp [hk] at hn
  · rintro ⟨l, hl, hs, hk⟩
    refine ⟨(keyOfName (lineKey l), lineVal l), List.mem_map.mpr ⟨l, List.mem_filter.mpr ⟨hl, by simp [hs]⟩, rfl⟩, ?_⟩
    simp [hk]

/-! ### F. finite listings, directory settings -/

/-- the listing-based file systems the driver builds have finite support -/
theorem fsOf_support (files : List (Bytes × Node)) :
    ∀ n, fsOf files n ≠ none → n ∈ files.map Prod.fst := by
  intro n h
  unfold fsOf lookupName at h
  cases hf : files.find? (fun p => p.1 == n) with
  | none => simp [hf] at h
  | some p =>
    have hm := List.mem_of_find?_eq_some hf
    have hp := List.find?_some hf
    simp only [beq_iff_eq] at hp
    exact List.mem_map.mpr ⟨p, hm, hp⟩

/-- being a value of `path.Clean` -/
def CleanImage (v : Bytes) : Prop := ∃ x, v = pathClean x

theorem resolve_dirs (r : Key → Bytes) (s : Key → Bytes) (h : resolveFrom r = .ok s) :
    (isAbs (s .basepath) = true ∧ CleanImage (s .basepath)) ∧
    (isAbs (s .layerdirs) = true ∧ CleanImage (s .layerdirs)) ∧
    (isAbs (s .exportroot) = true ∧ CleanImage (s .exportroot)) ∧
    (s .chrootexec ≠ [] → isAbs (s .chrootexec) = true ∧ CleanImage (s .chrootexec)) := by
  unfold resolveFrom at h
  cases hb : effectiveBase r with
  | none => simp [hb, Res.err] at h
  | some base =>
    simp only [hb] at h
    have hbase : isAbs base = true ∧ base = pathClean (r .basepath) := by
      unfold effectiveBase at hb
      simp only [] at hb
      split at hb
      · rename_i habs
        have := Option.some.inj hb
        subst this
        exact ⟨habs, rfl⟩
      · simp at hb
    split at h
    · rename_i hall
      have hs := (Except.ok.inj h).symm
      subst hs
      have hunder : ∀ v : Bytes,
          isAbs (if isAbs (pathClean v) then pathClean v else pathClean (base ++ SLASH :: pathClean v)) = true ∧
          CleanImage (if isAbs (pathClean v) then pathClean v else pathClean (base ++ SLASH :: pathClean v)) := by
        intro v
        by_cases hv : isAbs (pathClean v) = true
        · rw [if_pos hv]; exact ⟨hv, v, rfl⟩
        · rw [if_neg hv]
          exact ⟨isAbs_pathClean_of_isAbs _ (isAbs_append _ _ hbase.1), _, rfl⟩
      refine ⟨?_, ?_, ?_, ?_⟩
      · simp only [resolveKey, kind, Option.getD]
        exact ⟨hbase.1, _, hbase.2⟩
      · simp only [resolveKey, kind, Option.getD]
        exact hunder _
      · simp only [resolveKey, kind, Option.getD]
        exact hunder _
      · intro hne
        simp only [resolveKey, kind] at hne ⊢
        by_cases hv : r .chrootexec = []
        · simp [hv] at hne
        · by_cases ha : isAbs (pathClean (r .chrootexec)) = true
          · rw [if_neg hv, if_pos ha]
            exact ⟨ha, _, rfl⟩
          · simp [hv, ha] at hne
    · simp [Res.err] at h

end Lc.Lemmas.Config
