/-
  The whole probe against the documented classification of the whole forest
  (`Spec.World.allStates`): fuel independence of the specification's recursion under
  `forestWF`, the table `FindLayers` + `refreshMountInfo` hand to the loop, the loop
  invariant "layers already visited carry the documented state, the others are untouched",
  generic in the per-round equation (supplied by Props/C08 `probe_round_eq_spec`).
  Helper lemmas for Props/C08 section 10.
-/
import Lc.Lemmas.ProbeRound
import Lc.Lemmas.ProbeLoop
import Lc.Props.C02

namespace Lc.StateProbe
open Lc Lc.Layers Lc.Mountinfo Lc.Layerfile Lc.Spec.World Lc.RunM Lc.Forest

/-! ### the specification's recursion -/

/-- the state the classification gives the layer named `n` -/
def specSt (i : Inst) (ls : List DLayer) (users : List (Bytes × List User)) (n : Bytes) : St :=
  allStates.go i ls users (ls.length + 1) n

theorem go_succ (i : Inst) (ls : List DLayer) (users : List (Bytes × List User)) (f : Nat) (n : Bytes) :
    allStates.go i ls users (f + 1) n =
      match findD ls n with
      | none => St.error
      | some l => stateOf i ls users l
          (if l.file.base.isEmpty then none else some (allStates.go i ls users f l.file.base)) := rfl

theorem ancestorsOf_succ (ls : List DLayer) (f : Nat) (n : Bytes) :
    ancestorsOf ls (f + 1) n =
      match findD ls n with
      | none => []
      | some l => if l.file.base.isEmpty then [] else l.file.base :: ancestorsOf ls f l.file.base := rfl

/-- once the ancestor walk ends within the fuel, more fuel changes nothing -/
theorem go_fuel (i : Inst) (ls : List DLayer) (users : List (Bytes × List User)) :
    ∀ (f : Nat) (n : Bytes), (ancestorsOf ls f n).length < f → ∀ f', f ≤ f' →
      allStates.go i ls users f' n = allStates.go i ls users f n := by
  intro f
  induction f with
  | zero => intro n h; simp at h
  | succ f ih =>
    intro n h f' hf'
    obtain ⟨f'', rfl⟩ : ∃ f'', f' = f'' + 1 := ⟨f' - 1, by omega⟩
    rw [go_succ, go_succ]
    rw [ancestorsOf_succ] at h
    cases hd : findD ls n with
    | none => rfl
    | some l =>
      rw [hd] at h
      simp only [] at h ⊢
      by_cases hb : l.file.base.isEmpty = true
      · simp [hb]
      · simp only [hb, Bool.false_eq_true, ↓reduceIte] at h ⊢
        simp only [List.length_cons] at h
        rw [ih l.file.base (by omega) f'' (by omega)]

theorem findD_mem (ls : List DLayer) (n : Bytes) (dl : DLayer) (h : findD ls n = some dl) : dl ∈ ls :=
  List.mem_of_find?_eq_some h

/-- the classification of a layer in terms of the classification of its parent -/
theorem specSt_eq (i : Inst) (ls : List DLayer) (users : List (Bytes × List User))
    (hwf : forestWF ls = true) (x : Bytes) (dl : DLayer) (hd : findD ls x = some dl) :
    specSt i ls users x = stateOf i ls users dl
      (if dl.file.base.isEmpty then none else some (specSt i ls users dl.file.base)) := by
  unfold specSt
  rw [go_succ, hd]
  simp only []
  by_cases hb : dl.file.base.isEmpty = true
  · simp [hb]
  · simp only [hb, Bool.false_eq_true, ↓reduceIte]
    have hmem := findD_mem ls x dl hd
    have hnm : dl.name = x := findD_name ls x dl hd
    unfold forestWF at hwf
    have := List.all_eq_true.mp hwf dl hmem
    simp only [Bool.and_eq_true, decide_eq_true_eq] at this
    have hlen := this.2
    rw [hnm, ancestorsOf_succ, hd] at hlen
    simp only [hb, Bool.false_eq_true, ↓reduceIte, List.length_cons] at hlen
    have hpos : 1 ≤ ls.length := by
      cases ls with
      | nil => cases hmem
      | cons a as => simp
    rw [go_fuel i ls users ls.length dl.file.base (by omega) (ls.length + 1) (by omega)]

theorem allStates_find (i : Inst) (ls : List DLayer) (users : List (Bytes × List User))
    (x : Bytes) (dl : DLayer) (hd : findD ls x = some dl) :
    (allStates i ls users).find? (·.1 == x) = some (x, specSt i ls users x) := by
  unfold allStates
  rw [List.find?_map]
  have : ((fun (p : Bytes × St) => p.1 == x) ∘ fun (l : DLayer) => (l.name, allStates.go i ls users (ls.length + 1) l.name))
      = fun (l : DLayer) => l.name == x := rfl
  rw [this]
  unfold findD at hd
  rw [hd]
  have hnm : dl.name = x := by
    have := List.find?_some hd
    simpa using this
  simp [specSt, hnm]

/-! ### the table handed to the loop -/

/-- a record as `FindLayers` + `refreshMountInfo` leave it -/
structure Init0 (i : Inst) (m : Mounts) (dl : DLayer) (l : Layer) : Prop where
  corr : Corr i dl l
  mb : l.mountBusy = false
  ov : l.overlain = (overlayLowerdirs m).contains (buildPath i.cfg l)
  st : l.state = if dl.file.nmsgs > 0 then S_error else S_empty

theorem read_find (i : Inst) (names : List Bytes) (n : Bytes) (l : Layer)
    (hl : (readLayerFiles i.cfg i.fs names).find? (·.name == n) = some l) :
    ∃ dl, findD (names.filterMap fun n =>
        if !isLegalLayerName n then none else
        match Fs.readFile i.fs (pathJoin [layerDir i n, b!"layerconfig"]) with
        | some c => some (⟨n, readLayerFile c⟩ : DLayer)
        | none => none) n = some dl ∧ l = layerOfFile i.cfg dl.name dl.file := by
  unfold findD
  unfold readLayerFiles at hl
  induction names with
  | nil => simp at hl
  | cons x xs ih =>
    simp only [List.filterMap_cons] at hl ⊢
    by_cases hlg : isLegalLayerName x = true
    · simp only [hlg, Bool.not_true, Bool.false_eq_true, ↓reduceIte] at hl ⊢
      have hp : pathJoin [layerPath i.cfg x, b!"layerconfig"] = pathJoin [layerDir i x, b!"layerconfig"] := rfl
      rw [hp] at hl
      cases hr : Fs.readFile i.fs (pathJoin [layerDir i x, b!"layerconfig"]) with
      | none =>
        rw [hr] at hl
        exact ih hl
      | some c =>
        rw [hr] at hl
        simp only [List.find?_cons] at hl ⊢
        have hnm : (layerOfFile i.cfg x (readLayerFile c)).name = x := rfl
        rw [hnm] at hl
        by_cases hx : (x == n) = true
        · simp only [hx] at hl ⊢
          cases hl
          exact ⟨_, rfl, rfl⟩
        · simp only [hx] at hl ⊢
          exact ih hl
    · simp only [hlg, Bool.not_false, ↓reduceIte] at hl ⊢
      exact ih hl

/-- every record of the refreshed table is an `Init0` record of the disk layer of its name -/
theorem init_table (i : Inst) (m : Mounts) (order : List Bytes) (n : Bytes) (l : Layer)
    (hl : findLayer
      { layers := (readLayerFiles i.cfg i.fs (Fs.children i.fs i.cfg.layerdirs)).map fun l =>
          { l with overlain := (overlayLowerdirs m).contains (buildPath i.cfg l) },
        order := order, mounts := m } n = some l) :
    ∃ dl, findD (diskLayers i) n = some dl ∧ Init0 i m dl l := by
  unfold findLayer at hl
  simp only [] at hl
  rw [List.find?_map] at hl
  have hcomp : ((fun (x : Layer) => x.name == n) ∘ fun (l : Layer) =>
      { l with overlain := (overlayLowerdirs m).contains (buildPath i.cfg l) })
      = fun (x : Layer) => x.name == n := rfl
  rw [hcomp] at hl
  cases hf : (readLayerFiles i.cfg i.fs (Fs.children i.fs i.cfg.layerdirs)).find? (·.name == n) with
  | none => rw [hf] at hl; cases hl
  | some l00 =>
    rw [hf] at hl
    simp only [Option.map_some, Option.some.injEq] at hl
    obtain ⟨dl, hd, rfl⟩ := read_find i _ n l00 hf
    refine ⟨dl, hd, ?_⟩
    subst hl
    exact ⟨⟨rfl, rfl, rfl, rfl, rfl⟩, rfl, rfl, rfl⟩

/-! ### replacing a record by one with the same configuration -/

theorem forestCorr_setLayer (i : Inst) (ls : List DLayer) (d : Defs) (hf : ForestCorr i ls d)
    (l l' : Layer) (hl : findLayer d l'.name = some l)
    (hk : l'.name = l.name ∧ l'.base = l.base ∧ l'.cmounts = l.cmounts ∧ l'.cexports = l.cexports ∧
      l'.layerPath = l.layerPath) : ForestCorr i ls (setLayer d l') := by
  refine ⟨by simp [setLayer]; exact hf.len, ?_⟩
  intro n r hr
  by_cases hn : n = l'.name
  · subst hn
    rw [findLayer_setLayer d l l' hl] at hr
    cases hr
    obtain ⟨dl, hd, hc⟩ := hf.find _ _ hl
    exact ⟨dl, hd, ⟨hk.1.trans hc.name, hk.2.1.trans hc.base, hk.2.2.1.trans hc.cmounts,
      hk.2.2.2.1.trans hc.cexports, hk.2.2.2.2.trans hc.layerPath⟩⟩
  · unfold findLayer at hr
    rw [find?_setLayer_other d l' n hn] at hr
    exact hf.find n r hr

/-! ### the loop invariant -/

/-- names in `done` carry the documented state; the others are as the loop found them -/
structure LInv (i : Inst) (ls : List DLayer) (users : List (Bytes × List User)) (m : Mounts)
    (d0 : Defs) (done : List Bytes) (d : Defs) : Prop where
  mounts : d.mounts = m
  keys : SameKeys d0 d
  forest : ForestCorr i ls d
  fin : ∀ n l, n ∈ done → findLayer d n = some l → l.state = (specSt i ls users n).toNat
  ini : ∀ n l, n ∉ done → findLayer d n = some l → ∃ dl, findD ls n = some dl ∧ Init0 i m dl l

/-- the per-round equation the loop is generic in (Props/C08 `probe_round_eq_spec`) -/
def RoundEq (i : Inst) (ls : List DLayer) (users : List (Bytes × List User)) (m : Mounts) (d0 : Defs) : Prop :=
  ∀ (d : Defs) (dl : DLayer) (l0 : Layer) (ps : Option St),
    ForestCorr i ls d → d.mounts = m → SameKeys d0 d →
    findD ls dl.name = some dl → findLayer d dl.name = some l0 → dl.file.nmsgs = 0 →
    (match ps with
      | none => dl.file.base = []
      | some s => dl.file.base ≠ [] ∧ ∃ bl, findLayer d dl.file.base = some bl ∧ bl.state = s.toNat) →
    l0.mountBusy = false → l0.overlain = (overlayLowerdirs m).contains (buildPath i.cfg l0) →
    ∃ l', probeLayer i.cfg users i.fs d dl.name l0 = .ok l' ∧ l'.state = (stateOf i ls users dl ps).toNat

theorem step_inv (i : Inst) (ls : List DLayer) (users : List (Bytes × List User)) (m : Mounts)
    (d0 : Defs) (hround : RoundEq i ls users m d0) (hwf : forestWF ls = true)
    (done : List Bytes) (x : Bytes) (d : Defs) (hI : LInv i ls users m d0 done d) (hx : x ∉ done)
    (hpar : ∀ dl, findD ls x = some dl → dl.file.base ≠ [] →
      dl.file.base ∈ done ∧ (findLayer d0 dl.file.base).isSome = true)
    (w : World) (d1 : Defs) (w1 : World)
    (hrun : (probeStep i.cfg users i.fs d x).run.run w = (.ok d1, w1)) :
    w1 = w ∧ LInv i ls users m d0 (done ++ [x]) d1 := by
  rw [probeStep_run_eq] at hrun
  cases hf : findLayer d x with
  | none => rw [hf] at hrun; cases hrun
  | some l0 =>
    rw [hf] at hrun
    simp only [] at hrun
    obtain ⟨dl, hd, hini⟩ := hI.ini x l0 hx hf
    have hnm : dl.name = x := findD_name ls x dl hd
    have hsp := specSt_eq i ls users hwf x dl hd
    by_cases hn : dl.file.nmsgs > 0
    · -- layerconfig with messages: the error state is kept (mounts and users recorded)
      have hst : l0.state = S_error := by rw [hini.st]; simp [hn]
      have hs : (l0.state == S_error) = true := by simp [hst]
      simp only [hs, ↓reduceIte] at hrun
      cases hrun
      obtain ⟨k1, k2, k3, k4, k5, k6, -, -⟩ := probeErr_key i.cfg users d x l0
      have k1' : (probeErr i.cfg users d x l0).name = l0.name := k1
      have k6' : (probeErr i.cfg users d x l0).state = l0.state := k6
      have hn0' : l0.name = x := findLayer_name d x l0 hf
      have hn1 : (probeErr i.cfg users d x l0).name = x := k1'.trans hn0'
      have hfl : findLayer d (probeErr i.cfg users d x l0).name = some l0 := by rw [hn1]; exact hf
      refine ⟨rfl, rfl.trans hI.mounts, hI.keys.trans (sameKeys_setLayer d l0 _ hfl ?_),
        forestCorr_setLayer i ls d hI.forest l0 _ hfl ⟨k1, k2, k3, k4, k5⟩, ?_, ?_⟩
      · unfold lkey
        rw [k1', show (probeErr i.cfg users d x l0).base = l0.base from k2,
          show (probeErr i.cfg users d x l0).layerPath = l0.layerPath from k5]
      · intro n l hn' hl
        by_cases hnx : n = x
        · subst hnx
          have := findLayer_setLayer d l0 _ hfl
          rw [hn1] at this
          rw [this] at hl
          cases hl
          rw [k6', hst, hsp, stateOf_unfold]
          simp [hn, St.toNat, S_error]
        · rcases List.mem_append.mp hn' with h | h
          · unfold findLayer at hl
            rw [find?_setLayer_other d _ n (by rw [hn1]; exact hnx)] at hl
            exact hI.fin n l h hl
          · simp only [List.mem_cons, List.not_mem_nil, or_false] at h
            exact absurd h hnx
      · intro n l hn' hl
        have hnx : n ≠ x := fun e => hn' (by simp [e])
        unfold findLayer at hl
        rw [find?_setLayer_other d _ n (by rw [hn1]; exact hnx)] at hl
        exact hI.ini n l (fun h => hn' (List.mem_append_left _ h)) hl
    · have hn0 : dl.file.nmsgs = 0 := by omega
      have hst : l0.state = S_empty := by rw [hini.st]; simp [hn]
      have hs : (l0.state == S_error) = false := by rw [hst]; decide
      simp only [hs, Bool.false_eq_true, ↓reduceIte] at hrun
      -- the parent's state, as already stored
      have hps : match (if dl.file.base.isEmpty then none else some (specSt i ls users dl.file.base)) with
          | none => dl.file.base = []
          | some s => dl.file.base ≠ [] ∧ ∃ bl, findLayer d dl.file.base = some bl ∧ bl.state = s.toNat := by
        by_cases hb : dl.file.base.isEmpty = true
        · simp only [hb, ↓reduceIte]
          exact List.isEmpty_iff.mp hb
        · simp only [hb, Bool.false_eq_true, ↓reduceIte]
          have hne : dl.file.base ≠ [] := fun e => hb (by rw [e]; rfl)
          obtain ⟨hbd, hbs⟩ := hpar dl hd hne
          obtain ⟨b0, hb0⟩ := Option.isSome_iff_exists.mp hbs
          obtain ⟨bl, hbl, -⟩ := sameKeys_find hI.keys _ _ hb0
          exact ⟨hne, bl, hbl, hI.fin _ bl hbd hbl⟩
      have hf' : findLayer d dl.name = some l0 := by rw [hnm]; exact hf
      have hd' : findD ls dl.name = some dl := by rw [hnm]; exact hd
      obtain ⟨l1, hp, hs1⟩ := hround d dl l0 _ hI.forest hI.mounts hI.keys hd' hf' hn0 hps hini.mb hini.ov
      rw [hnm] at hp
      rw [hp] at hrun
      simp only [] at hrun
      cases hrun
      obtain ⟨k1, k2, k3, k4, k5⟩ := probeLayer_key i.cfg users i.fs d x l0 l1 hp
      have hn0' : l0.name = x := findLayer_name d x l0 hf
      have hn1 : l1.name = x := k1.trans hn0'
      have hfl : findLayer d l1.name = some l0 := by rw [hn1]; exact hf
      refine ⟨rfl, rfl.trans hI.mounts, hI.keys.trans (sameKeys_setLayer d l0 l1 hfl ?_),
        forestCorr_setLayer i ls d hI.forest l0 l1 hfl ⟨k1, k2, k3, k4, k5⟩, ?_, ?_⟩
      · unfold lkey; rw [k1, k2, k5]
      · intro n l hn' hl
        by_cases hnx : n = x
        · subst hnx
          have := findLayer_setLayer d l0 l1 hfl
          rw [hn1] at this
          rw [this] at hl
          cases hl
          rw [hs1, hsp]
        · rcases List.mem_append.mp hn' with h | h
          · unfold findLayer at hl
            rw [find?_setLayer_other d l1 n (by rw [hn1]; exact hnx)] at hl
            exact hI.fin n l h hl
          · simp only [List.mem_cons, List.not_mem_nil, or_false] at h
            exact absurd h hnx
      · intro n l hn' hl
        have hnx : n ≠ x := fun e => hn' (by simp [e])
        unfold findLayer at hl
        rw [find?_setLayer_other d l1 n (by rw [hn1]; exact hnx)] at hl
        exact hI.ini n l (fun h => hn' (List.mem_append_left _ h)) hl

/-- the loop, from any split of the order list -/
theorem loop_inv (i : Inst) (ls : List DLayer) (users : List (Bytes × List User)) (m : Mounts)
    (d0 : Defs) (hround : RoundEq i ls users m d0) (hwf : forestWF ls = true) (order : List Bytes)
    (hnd : order.Nodup)
    (hpar : ∀ done x rest, order = done ++ x :: rest → ∀ dl, findD ls x = some dl → dl.file.base ≠ [] →
      dl.file.base ∈ done ∧ (findLayer d0 dl.file.base).isSome = true) :
    ∀ (rest done : List Bytes) (d dfin : Defs) (w w' : World), order = done ++ rest →
      LInv i ls users m d0 done d →
      (rest.foldlM (probeStep i.cfg users i.fs) d).run.run w = (.ok dfin, w') →
      w' = w ∧ LInv i ls users m d0 order dfin := by
  intro rest
  induction rest with
  | nil =>
    intro done d dfin w w' ho hI h
    simp only [List.foldlM_nil] at h
    cases h
    rw [ho, List.append_nil]
    exact ⟨rfl, hI⟩
  | cons x xs ih =>
    intro done d dfin w w' ho hI h
    simp only [List.foldlM_cons] at h
    rw [run_bind] at h
    cases hs : (probeStep i.cfg users i.fs d x).run.run w with
    | mk r w1 =>
      rw [hs] at h
      cases r with
      | error e => cases h
      | ok d1 =>
        simp only [] at h
        have hx : x ∉ done := by
          intro hm
          rw [ho] at hnd
          have := (List.nodup_append.mp hnd).2.2 x hm x (by simp)
          exact this rfl
        obtain ⟨hw1, hI1⟩ := step_inv i ls users m d0 hround hwf done x d hI hx
          (hpar done x xs ho) w d1 w1 hs
        subst hw1
        exact ih (done ++ [x]) d1 dfin w1 w' (by rw [ho]; simp) hI1 h

/-! ### the order list: parents first -/

/-- in a duplicate-free list, what stands before an element that is followed by `x` stands
    before `x` -/
theorem before_split (order done rest l1 l2 : List Bytes) (x b : Bytes) (hnd : order.Nodup)
    (h1 : order = done ++ x :: rest) (h2 : order = l1 ++ b :: l2) (hx : x ∈ l2) : b ∈ done := by
  have h := h1.symm.trans h2
  rcases List.append_eq_append_iff.mp h with ⟨a', e1, e2⟩ | ⟨c', e1, e2⟩
  · -- l1 = done ++ a', x :: rest = a' ++ b :: l2
    exfalso
    cases a' with
    | nil =>
      simp only [List.nil_append, List.cons.injEq] at e2
      rw [h2, ← e2.1] at hnd
      have := (List.nodup_append.mp hnd).2.1
      exact (List.nodup_cons.mp this).1 hx
    | cons y ys =>
      simp only [List.cons_append, List.cons.injEq] at e2
      rw [h2, e1, ← e2.1] at hnd
      have hxm : x ∈ done ++ x :: ys := by simp
      have := (List.nodup_append.mp hnd).2.2 x hxm x (by simp [hx])
      exact this rfl
  · -- done = l1 ++ c', b :: l2 = c' ++ x :: rest
    cases c' with
    | nil =>
      exfalso
      simp only [List.nil_append, List.cons.injEq] at e2
      rw [h2, e2.1] at hnd
      have := (List.nodup_append.mp hnd).2.1
      exact (List.nodup_cons.mp this).1 hx
    | cons y ys =>
      simp only [List.cons_append, List.cons.injEq] at e2
      rw [e1, e2.1]
      simp

/-- a layer accepted by checkInheritance has its parent in the table -/
theorem parent_exists (layers : List Layer) (h : checkInheritance layers = true) (c : Layer)
    (hc : c ∈ layers) (hb : c.base ≠ []) : ∃ p, layers.find? (·.name == c.base) = some p := by
  unfold checkInheritance at h
  have := List.all_eq_true.mp h c hc
  unfold chainOk at this
  have hlen : (c.base.length == 0) = false := by
    cases hx : c.base with
    | nil => exact absurd hx hb
    | cons a as => simp
  simp only [hlen, Bool.false_eq_true, ↓reduceIte] at this
  cases hf : layers.find? (·.name == c.base) with
  | none => rw [hf] at this; cases this
  | some p => exact ⟨p, rfl⟩

/-- the key builder and the `$$base` walk have the same recursion -/
theorem findLayerBase_sortKey (d : Defs) : ∀ (f : Nat) (l : Layer) (acc : Bytes),
    (findLayerBase d f l).isSome = (sortKey d.layers f l.base acc).isSome := by
  intro f
  induction f with
  | zero => intro l acc; rfl
  | succ f ih =>
    intro l acc
    unfold findLayerBase sortKey
    by_cases hb : l.base.length > 0
    · have hb' : ¬ l.base.length < 1 := by omega
      simp only [hb, ↓reduceIte, hb']
      unfold findLayer
      cases hf : d.layers.find? (·.name == l.base) with
      | none => rfl
      | some p => exact ih p _
    · have hb' : l.base.length < 1 := by omega
      simp [hb, hb']

theorem read_names (i : Inst) (names : List Bytes) :
    (readLayerFiles i.cfg i.fs names).map (·.name) =
      (names.filterMap fun n =>
        if !isLegalLayerName n then none else
        match Fs.readFile i.fs (pathJoin [layerDir i n, b!"layerconfig"]) with
        | some c => some (⟨n, readLayerFile c⟩ : DLayer)
        | none => none).map (·.name) := by
  unfold readLayerFiles
  induction names with
  | nil => rfl
  | cons x xs ih =>
    simp only [List.filterMap_cons]
    by_cases hlg : isLegalLayerName x = true
    · simp only [hlg, Bool.not_true, Bool.false_eq_true, ↓reduceIte]
      have hp : pathJoin [layerPath i.cfg x, b!"layerconfig"] = pathJoin [layerDir i x, b!"layerconfig"] := rfl
      rw [hp]
      cases Fs.readFile i.fs (pathJoin [layerDir i x, b!"layerconfig"]) with
      | none => exact ih
      | some c =>
        simp only [List.map_cons, ih]
        rfl
    · simp only [hlg, Bool.not_false, ↓reduceIte]
      exact ih

/-- converse of `read_find` -/
theorem read_find_conv (i : Inst) (names : List Bytes) (n : Bytes) (dl : DLayer)
    (hd : findD (names.filterMap fun n =>
        if !isLegalLayerName n then none else
        match Fs.readFile i.fs (pathJoin [layerDir i n, b!"layerconfig"]) with
        | some c => some (⟨n, readLayerFile c⟩ : DLayer)
        | none => none) n = some dl) :
    (readLayerFiles i.cfg i.fs names).find? (·.name == n) = some (layerOfFile i.cfg dl.name dl.file) := by
  unfold findD at hd
  unfold readLayerFiles
  induction names with
  | nil => simp at hd
  | cons x xs ih =>
    simp only [List.filterMap_cons] at hd ⊢
    by_cases hlg : isLegalLayerName x = true
    · simp only [hlg, Bool.not_true, Bool.false_eq_true, ↓reduceIte] at hd ⊢
      have hp : pathJoin [layerPath i.cfg x, b!"layerconfig"] = pathJoin [layerDir i x, b!"layerconfig"] := rfl
      rw [hp]
      cases hr : Fs.readFile i.fs (pathJoin [layerDir i x, b!"layerconfig"]) with
      | none =>
        rw [hr] at hd
        exact ih hd
      | some c =>
        rw [hr] at hd
        simp only [List.find?_cons] at hd ⊢
        have hnm : (layerOfFile i.cfg x (readLayerFile c)).name = x := rfl
        rw [hnm]
        by_cases hx : (x == n) = true
        · simp only [hx] at hd ⊢
          cases hd
          rfl
        · simp only [hx] at hd ⊢
          exact ih hd
    · simp only [hlg, Bool.not_false, ↓reduceIte] at hd ⊢
      exact ih hd

/-! ### every expanded import is a resolved import of the specification -/

theorem import_of_spec (i : Inst) (ls : List DLayer) (dl : DLayer) (d : Defs) (l : Layer)
    (imports : List Expanded) (hc : Corr i dl l)
    (hroot : (findLayerBase d (d.layers.length + 1) l).map (·.layerPath)
      = some (layerDir i (rootOf ls dl.name)))
    (hexp : expandConfigMounts i.cfg d l = .ok imports) :
    ∀ e ∈ imports, ∃ imp ∈ dl.file.mounts, resolveSource i ls dl.name imp.source = some e.source ∧
      e.mount = pathJoin [buildDir i dl.name, imp.mount] ∧ e.fstype = imp.fstype := by
  rw [expandConfigMounts_mapM, hc.cmounts] at hexp
  have hz := mapM_ok_forall2 _ _ _ hexp
  intro e he
  obtain ⟨imp, himp, hme⟩ := forall2_mem_right _ _ _ hz e he
  refine ⟨imp, himp, ?_⟩
  have hbp : buildPath i.cfg l = buildDir i dl.name := by
    unfold buildPath buildDir
    rw [hc.layerPath]
  rw [resolveSource_eq i ls dl d l hc hroot]
  unfold importOf at hme
  split at hme
  · cases hme
    exact ⟨rfl, by rw [hbp], rfl⟩
  · cases hme

theorem sameKeys_of_layers_eq {d d' : Defs} (h : d.layers = d'.layers) : SameKeys d d' := by
  refine ⟨by rw [h], fun n => ?_⟩
  unfold findLayer
  rw [h]

theorem sourceAgree_congr (i : Inst) (e e' : Expanded) (h1 : e.mount = e'.mount)
    (h2 : e.source = e'.source) (h3 : e.fstype = e'.fstype) (h : SourceAgree i e') : SourceAgree i e := by
  unfold SourceAgree at h ⊢
  rw [h1, h2, h3]
  exact h

/-- `SourceAgree` for every resolvable configured import of every layer of the forest — a
    decidable statement about the installation and the layerconfig files alone -/
def SourceAgreeAll (i : Inst) (ls : List DLayer) : Prop :=
  ∀ dl ∈ ls, ∀ imp ∈ dl.file.mounts, ∀ src ∈ (resolveSource i ls dl.name imp.source).toList,
    SourceAgree i ⟨pathJoin [buildDir i dl.name, imp.mount], src, imp.fstype, imp.mount, imp.source⟩

instance (i : Inst) (ls : List DLayer) : Decidable (SourceAgreeAll i ls) := by
  unfold SourceAgreeAll; exact inferInstance

/-- the chain walk for `$$base` ends for every record of a table with the skeleton of an
    accepted one -/
theorem rootsome_of_check (layers : List Layer) (hci : checkInheritance layers = true) (d : Defs)
    (hk : SameKeys { layers := layers } d) (n : Bytes) (l0 : Layer) (hl0 : findLayer d n = some l0) :
    (findLayerBase d (d.layers.length + 1) l0).isSome = true := by
  obtain ⟨l00, hl00, hkey⟩ := sameKeys_find hk.symm n l0 hl0
  have hmem : l00 ∈ layers := List.mem_of_find?_eq_some hl00
  unfold lkey at hkey
  simp only [Prod.mk.injEq] at hkey
  have h1 := findLayerBase_sameKeys hk.symm (d.layers.length + 1) l0 l00 hkey.2.1.symm hkey.2.2.symm
  have h2 := congrArg Option.isSome h1
  simp only [Option.isSome_map] at h2
  rw [h2, ← hk.1, findLayerBase_sortKey _ _ l00 l00.name]
  exact Lc.Props.C02.keys_defined layers hci l00 hmem

/-! ### assembly: `getLayers`, generic in the per-round equation -/

/-- **The whole probe = the documented classification of the whole forest**, for any
    per-round equation `RoundEq` (instantiated in Props/C08).  `i` is the installation the
    world shows (configuration, tree, kernel table). -/
theorem getLayers_spec (cfg : Config) (users : List (Bytes × List User)) (w w' : World) (d : Defs)
    (hrun : (getLayers cfg users).run.run w = (.ok d, w'))
    (hwf : forestWF (diskLayers ⟨cfg, w.fs, w.kt.mnts⟩) = true)
    (hnd : ((diskLayers ⟨cfg, w.fs, w.kt.mnts⟩).map (·.name)).Nodup)
    (hround : ∀ m d0, Kernel.probe w.kt = .ok m →
      d0.layers = (readLayerFiles cfg w.fs (Fs.children w.fs cfg.layerdirs)).map (fun l =>
        { l with overlain := (overlayLowerdirs m).contains (buildPath cfg l) }) →
      checkInheritance (readLayerFiles cfg w.fs (Fs.children w.fs cfg.layerdirs)) = true →
      RoundEq ⟨cfg, w.fs, w.kt.mnts⟩ (diskLayers ⟨cfg, w.fs, w.kt.mnts⟩) users m d0) :
    w' = w ∧ ∀ name l, findLayer d name = some l →
      (allStates ⟨cfg, w.fs, w.kt.mnts⟩ (diskLayers ⟨cfg, w.fs, w.kt.mnts⟩) users).find? (·.1 == name)
        = some (name, specSt ⟨cfg, w.fs, w.kt.mnts⟩ (diskLayers ⟨cfg, w.fs, w.kt.mnts⟩) users name) ∧
      l.state = (specSt ⟨cfg, w.fs, w.kt.mnts⟩ (diskLayers ⟨cfg, w.fs, w.kt.mnts⟩) users name).toNat := by
  obtain ⟨d00, hfl, hp, hord⟩ := getLayers_run cfg users w w' d hrun
  obtain ⟨-, hlay, -, hci, hno, -⟩ := findLayers_run cfg w w d00 hfl
  obtain ⟨m, hm, hloop⟩ := probeAll_run cfg users d00 d w w' hp
  -- the refreshed table
  generalize hd0 : ({ d00 with mounts := m, layers := d00.layers.map fun l =>
      { l with overlain := (overlayLowerdirs m).contains (buildPath cfg l) } } : Defs) = d0 at hloop
  have hlay0 : d0.layers = (readLayerFiles cfg w.fs (Fs.children w.fs cfg.layerdirs)).map (fun l =>
      { l with overlain := (overlayLowerdirs m).contains (buildPath cfg l) }) := by
    subst hd0; rw [hlay]
  have hord0 : d0.order = d00.order := by subst hd0; rfl
  have hm0 : d0.mounts = m := by subst hd0; rfl
  have hk00 : SameKeys d00 d0 := by subst hd0; exact sameKeys_refresh d00 m _
  rw [hlay] at hci hno
  have hR := hround m d0 hm hlay0 hci
  -- every record of d0 is an `Init0` record
  have hinit : ∀ n l, findLayer d0 n = some l →
      ∃ dl, findD (diskLayers ⟨cfg, w.fs, w.kt.mnts⟩) n = some dl ∧ Init0 ⟨cfg, w.fs, w.kt.mnts⟩ m dl l := by
    intro n l hl
    apply init_table ⟨cfg, w.fs, w.kt.mnts⟩ m d0.order n l
    unfold findLayer at hl ⊢
    simp only []
    rw [hlay0] at hl
    exact hl
  have hlen : d0.layers.length = (diskLayers ⟨cfg, w.fs, w.kt.mnts⟩).length := by
    rw [hlay0, List.length_map]
    exact (forestCorr_diskLayers ⟨cfg, w.fs, w.kt.mnts⟩ d0.order m).len
  have hI0 : LInv ⟨cfg, w.fs, w.kt.mnts⟩ (diskLayers ⟨cfg, w.fs, w.kt.mnts⟩) users m d0 [] d0 :=
    ⟨hm0, SameKeys.refl _, ⟨hlen, fun n l hl => by
        obtain ⟨dl, hd, hi0⟩ := hinit n l hl
        exact ⟨dl, hd, hi0.corr⟩⟩,
     (fun n l hn _ => by cases hn),
     (fun n l _ hl => hinit n l hl)⟩
  -- names: unique, parents first
  have hnames : (readLayerFiles cfg w.fs (Fs.children w.fs cfg.layerdirs)).map (·.name)
      = (diskLayers ⟨cfg, w.fs, w.kt.mnts⟩).map (·.name) :=
    read_names ⟨cfg, w.fs, w.kt.mnts⟩ (Fs.children w.fs cfg.layerdirs)
  have hnd0 : d0.order.Nodup := by
    rw [hord0]
    exact Lc.Props.C02.order_nodup _ _ hno (by rw [hnames]; exact hnd)
  have hpar : ∀ done x rest, d0.order = done ++ x :: rest → ∀ dl,
      findD (diskLayers ⟨cfg, w.fs, w.kt.mnts⟩) x = some dl →
      dl.file.base ≠ [] → dl.file.base ∈ done ∧ (findLayer d0 dl.file.base).isSome = true := by
    intro done x rest ho dl hd hb
    have hc0 : (readLayerFiles cfg w.fs (Fs.children w.fs cfg.layerdirs)).find? (·.name == x)
        = some (layerOfFile cfg dl.name dl.file) :=
      read_find_conv ⟨cfg, w.fs, w.kt.mnts⟩ (Fs.children w.fs cfg.layerdirs) x dl hd
    have hcm := List.mem_of_find?_eq_some hc0
    have hcb : (layerOfFile cfg dl.name dl.file).base ≠ [] := hb
    obtain ⟨p, hp'⟩ := parent_exists _ hci _ hcm hcb
    have hbef := Lc.Props.C02.parent_precedes _ _ hno _ p hcm hcb hp'
    obtain ⟨l1, l2, e, hx2⟩ := hbef
    have hcn : (layerOfFile cfg dl.name dl.file).name = x := findD_name _ x dl hd
    rw [hcn] at hx2
    have hcb' : (layerOfFile cfg dl.name dl.file).base = dl.file.base := rfl
    rw [hcb'] at e hp'
    refine ⟨before_split d0.order done rest l1 l2 x dl.file.base hnd0 ho (by rw [hord0]; exact e) hx2, ?_⟩
    have hf00 : findLayer d00 dl.file.base = some p := by
      unfold findLayer; rw [hlay]; exact hp'
    obtain ⟨p', hp'', -⟩ := sameKeys_find hk00 _ _ hf00
    rw [hp'']; rfl
  obtain ⟨hw, hfin⟩ := loop_inv ⟨cfg, w.fs, w.kt.mnts⟩ (diskLayers ⟨cfg, w.fs, w.kt.mnts⟩) users m d0 hR hwf
    d0.order hnd0 hpar d0.order [] d0 d w w' (by simp) hI0 (by rw [hord0]; exact hloop)
  refine ⟨hw, ?_⟩
  intro name l hl
  have hmem : name ∈ d0.order := by rw [hord0]; exact hord name l hl
  obtain ⟨dl, hd, -⟩ := hfin.forest.find name l hl
  exact ⟨allStates_find _ _ users name dl hd, hfin.fin name l hmem hl⟩

end Lc.StateProbe
