/-
  Helper lemmas for Props/C11 (read_write_read): `path.Clean` never introduces white
  space, bufio.ScanLines inverts "one line per chunk", the reader's step on the lines
  the writer emits.
-/
import Lc.Lemmas.Runes
import Lc.Lemmas.Path
import Lc.Model.Layerfile

namespace Lc.Lemmas.LayerfileRW
open Lc Lc.Lemmas.Runes Lc.Lemmas.Path Lc.Layerfile Lc.Mountinfo

/-! ### path.Clean keeps tokens tokens -/

theorem joinWith_cons_head (sep c : Nat) (h : Bytes) (t : List Bytes) :
    joinWith sep ((c :: h) :: t) = c :: joinWith sep (h :: t) := by
  cases t <;> simp [joinWith]

theorem joinWith_splitOn (sep : Nat) (s : Bytes) : joinWith sep (splitOn sep s) = s := by
  induction s with
  | nil => simp [splitOn, joinWith]
  | cons c cs ih =>
    unfold splitOn
    split
    · rename_i hc
      cases hs : splitOn sep cs with
      | nil => exact absurd hs (splitOn_ne_nil sep cs)
      | cons y rest => rw [hs] at ih; simp [joinWith, ih, hc]
    · split
      · rename_i hs; exact absurd hs (splitOn_ne_nil sep cs)
      · rename_i h t hs
        rw [hs] at ih
        rw [joinWith_cons_head, ih]

theorem ns_splitOn (s : Bytes) (h : NS s) : ∀ p ∈ splitOn 47 s, NS p := by
  rw [← joinWith_splitOn 47 s] at h
  exact (ns_joinWith 47 (by omega) (by decide) _).mp h

theorem cleanStep_mem (r : Bool) (stack : List Bytes) (c : Bytes) :
    ∀ x ∈ cleanStep r stack c, x ∈ stack ∨ x = c := by
  intro x hx
  unfold cleanStep at hx
  split at hx
  · rename_i hc
    split at hx
    · split at hx
      · simp at hx
      · simp at hx; right; rw [hx, hc]
    · split at hx
      · rcases List.mem_cons.mp hx with e | e
        · right; rw [e, hc]
        · left; exact e
      · left; simp [hx]
  · rcases List.mem_cons.mp hx with e | e
    · right; exact e
    · left; exact e

theorem foldl_cleanStep_mem (r : Bool) (l : List Bytes) : ∀ (stack : List Bytes),
    ∀ x ∈ l.foldl (cleanStep r) stack, x ∈ stack ∨ x ∈ l := by
  induction l with
  | nil => intro stack x hx; left; exact hx
  | cons c cs ih =>
    intro stack x hx
    simp only [List.foldl_cons] at hx
    rcases ih _ x hx with e | e
    · rcases cleanStep_mem r stack c x e with e | e
      · left; exact e
      · right; simp [e]
    · right; simp [e]

theorem ns_single (c : Nat) (h : c < 128) (hc : isSpaceRune c = false) : NS [c] := by
  have := (ns_split [] c [] h).mpr ⟨ns_nil, hc, ns_nil⟩
  simpa using this

/-- `path.Clean` of a string without white-space runes has no white-space runes -/
theorem ns_pathClean (s : Bytes) (h : NS s) : NS (pathClean s) := by
  rw [pathClean_eq_assemble]
  have hst : ∀ c ∈ (pathComps s).foldl (cleanStep (isAbs s)) [], NS c := by
    intro c hc
    rcases foldl_cleanStep_mem _ _ _ c hc with e | e
    · simp at e
    · unfold pathComps at e
      exact ns_splitOn s h c (List.mem_filter.mp e).1
  generalize (pathComps s).foldl (cleanStep (isAbs s)) [] = stack at hst
  generalize isAbs s = r
  have hbody : NS (joinWith SLASH stack.reverse) :=
    (ns_joinWith 47 (by omega) (by decide) _).mpr (fun p hp => hst p (by simpa using hp))
  unfold assemble
  cases r
  · simp only [Bool.false_eq_true, if_false]
    split
    · exact ns_single 46 (by omega) (by decide)
    · exact hbody
  · simp only [if_true, List.isEmpty_cons, Bool.false_eq_true, if_false]
    have := (ns_split [] 47 (joinWith SLASH stack.reverse) (by omega)).mpr ⟨ns_nil, by decide, hbody⟩
    simp only [List.nil_append] at this
    exact this

theorem tok_pathClean (f : Bytes) (h : Tok f) : Tok (pathClean f) :=
  ⟨pathClean_ne_nil f, ns_pathClean f h.2⟩

/-! ### bufio.ScanLines on "one line per chunk" text -/

theorem dropCR_id (b : Bytes) (h : 13 ∉ b) : dropCR b = b := by
  unfold dropCR
  split
  · rename_i r hr
    exfalso; apply h
    have : 13 ∈ b.reverse := by rw [hr]; simp
    simpa using this
  · rfl

theorem splitOn_lines (bodies : List Bytes) (h : ∀ b ∈ bodies, 10 ∉ b) :
    splitOn 10 (bodies.flatMap (· ++ [10])) = bodies ++ [[]] := by
  induction bodies with
  | nil => rfl
  | cons b rest ih =>
    simp only [List.flatMap_cons, List.append_assoc, List.singleton_append]
    rw [splitOn_append_sep 10 b _ (h b (by simp)), ih (fun x hx => h x (by simp [hx]))]
    rfl

theorem scanLines_lines (bodies : List Bytes) (h10 : ∀ b ∈ bodies, 10 ∉ b) (h13 : ∀ b ∈ bodies, 13 ∉ b) :
    scanLines (bodies.flatMap (· ++ [10])) = bodies := by
  unfold scanLines
  rw [splitOn_lines bodies h10]
  simp only [List.reverse_append, List.reverse_cons, List.reverse_nil, List.nil_append,
    List.singleton_append, List.reverse_reverse]
  rw [List.map_congr_left (fun b hb => dropCR_id b (h13 b hb))]
  simp

/-! ### what the writer emits, line by line -/

def body (kw : Bytes) (m : NeededMount) : Bytes := joinWith 32 [kw, m.fstype, m.source, m.mount]

theorem renderMount_eq (kw : Bytes) (m : NeededMount) : renderMount kw m = body kw m ++ [10] := by
  simp [renderMount, body, joinWith]

def bodies (l : LayerFile) : List Bytes :=
  (if l.base.length > 0 then [joinWith 32 [kwBase, l.base], []] else [])
  ++ l.mounts.map (body kwImport)
  ++ (if l.exports.length > 0 then [[]] else [])
  ++ l.exports.map (body kwExport)

theorem render_eq (l : LayerFile) : render l = (bodies l).flatMap (· ++ [10]) := by
  unfold render writeChunks bodies
  simp only [List.flatten_append, List.flatMap_append, List.flatMap_map]
  have hm : ∀ (kw : Bytes) (ms : List NeededMount),
      (ms.map (renderMount kw)).flatten = ms.flatMap (fun m => body kw m ++ [10]) := by
    intro kw ms
    induction ms with
    | nil => rfl
    | cons m rest ih => simp [renderMount_eq, ih]
  rw [hm, hm]
  congr 1
  · congr 1
    · congr 1
      split <;> simp [joinWith]
    · split <;> simp
  

/-! ### tokens in a layer description -/

def TokM (m : NeededMount) : Prop :=
  Tok m.fstype ∧ Tok m.source ∧ Tok m.mount ∧ pathClean m.source = m.source ∧ pathClean m.mount = m.mount

/-- what every result of the reader satisfies, whatever the input -/
def WF (l : LayerFile) : Prop :=
  (l.base = [] ∨ Tok l.base) ∧ (∀ m ∈ l.mounts, TokM m) ∧ (∀ m ∈ l.exports, TokM m)

theorem tokM_mk (t s m : Bytes) (ht : Tok t) (hs : Tok s) (hm : Tok m) :
    TokM ⟨pathClean m, pathClean s, t⟩ :=
  ⟨ht, tok_pathClean s hs, tok_pathClean m hm, pathClean_idem s, pathClean_idem m⟩

theorem readStep_wf (l : LayerFile) (line : Bytes) (h : WF l) : WF (readStep l line) := by
  have hf := fields_tok (trimSpace line)
  unfold readStep
  simp only
  split
  · exact h
  · split
    · exact h
    · rename_i kw args hfe
      rw [hfe] at hf
      split
      · split
        · exact h
        · rename_i b rest
          split
          · exact h
          · exact ⟨Or.inr (hf b (by simp)), h.2.1, h.2.2⟩
      · split
        · split
          · rename_i t s m rest
            refine ⟨h.1, ?_, h.2.2⟩
            intro x hx
            rcases List.mem_append.mp hx with e | e
            · exact h.2.1 x e
            · simp only [List.mem_singleton] at e
              subst e
              exact tokM_mk t s m (hf t (by simp)) (hf s (by simp)) (hf m (by simp))
          · exact h
        · split
          · split
            · rename_i t s m rest
              refine ⟨h.1, h.2.1, ?_⟩
              intro x hx
              rcases List.mem_append.mp hx with e | e
              · exact h.2.2 x e
              · simp only [List.mem_singleton] at e
                subst e
                exact tokM_mk t s m (hf t (by simp)) (hf s (by simp)) (hf m (by simp))
            · exact h
          · exact h

theorem wf_empty : WF {} := ⟨Or.inl rfl, by simp, by simp⟩

theorem readLines_wf (lines : List Bytes) : ∀ l, WF l → WF (lines.foldl readStep l) := by
  induction lines with
  | nil => intro l h; exact h
  | cons x xs ih => intro l h; exact ih _ (readStep_wf l x h)

theorem readLayerFile_wf (content : Bytes) : WF (readLayerFile content) :=
  readLines_wf _ _ wf_empty

/-! ### the reader on the writer's lines -/

theorem tok_kwBase : Tok kwBase := by constructor <;> decide
theorem tok_kwImport : Tok kwImport := by constructor <;> decide
theorem tok_kwExport : Tok kwExport := by constructor <;> decide

theorem readStep_blank (x : LayerFile) : readStep x [] = x := by
  simp [readStep, trimSpace_nil, isContentLine]

theorem readStep_base (x : LayerFile) (b : Bytes) (hb : Tok b) (hx : x.base = []) :
    readStep x (joinWith 32 [kwBase, b]) = { x with base := b } := by
  have hall : ∀ f ∈ [kwBase, b], Tok f := by
    intro f hf; simp at hf; rcases hf with e | e <;> subst e <;> first | exact tok_kwBase | exact hb
  have ht := trimSpace_join [kwBase, b] (by simp) hall
  have hfl := fields_join [kwBase, b] hall
  unfold readStep
  simp only [ht, hfl]
  have hc : isContentLine (joinWith 32 [kwBase, b]) = true := by simp [joinWith, kwBase, isContentLine]
  simp [hc, hx]

theorem readStep_line (_x : LayerFile) (kw : Bytes) (m : NeededMount) (hk : Tok kw) (hm : TokM m)
    (hc : isContentLine (body kw m) = true) :
    trimSpace (body kw m) = body kw m ∧ fields (body kw m) = [kw, m.fstype, m.source, m.mount] := by
  obtain ⟨h1, h2, h3, _, _⟩ := hm
  have hall : ∀ f ∈ [kw, m.fstype, m.source, m.mount], Tok f := by
    intro f hf
    simp at hf
    rcases hf with e | e | e | e <;> subst e <;> assumption
  exact ⟨trimSpace_join _ (by simp) hall, fields_join _ hall⟩

theorem readStep_import (x : LayerFile) (m : NeededMount) (hm : TokM m) :
    readStep x (body kwImport m) = { x with mounts := x.mounts ++ [m] } := by
  have hc : isContentLine (body kwImport m) = true := by simp [body, joinWith, kwImport, isContentLine]
  obtain ⟨ht, hfl⟩ := readStep_line x kwImport m tok_kwImport hm hc
  unfold readStep
  simp only [ht, hfl]
  have hne : kwImport ≠ kwBase := by decide
  obtain ⟨_, _, _, h4, h5⟩ := hm
  simp [hc, hne, h4, h5]

theorem readStep_export (x : LayerFile) (m : NeededMount) (hm : TokM m) :
    readStep x (body kwExport m) = { x with exports := x.exports ++ [m] } := by
  have hc : isContentLine (body kwExport m) = true := by simp [body, joinWith, kwExport, isContentLine]
  obtain ⟨ht, hfl⟩ := readStep_line x kwExport m tok_kwExport hm hc
  unfold readStep
  simp only [ht, hfl]
  have hne : kwExport ≠ kwBase := by decide
  have hne2 : kwExport ≠ kwImport := by decide
  obtain ⟨_, _, _, h4, h5⟩ := hm
  simp [hc, hne, hne2, h4, h5]

theorem readLines_imports (ms : List NeededMount) : ∀ (x : LayerFile), (∀ m ∈ ms, TokM m) →
    (ms.map (body kwImport)).foldl readStep x = { x with mounts := x.mounts ++ ms } := by
  induction ms with
  | nil => intro x _; simp
  | cons m rest ih =>
    intro x h
    simp only [List.map_cons, List.foldl_cons]
    rw [readStep_import x m (h m (by simp)), ih _ (fun y hy => h y (by simp [hy]))]
    simp

theorem readLines_exports (ms : List NeededMount) : ∀ (x : LayerFile), (∀ m ∈ ms, TokM m) →
    (ms.map (body kwExport)).foldl readStep x = { x with exports := x.exports ++ ms } := by
  induction ms with
  | nil => intro x _; simp
  | cons m rest ih =>
    intro x h
    simp only [List.map_cons, List.foldl_cons]
    rw [readStep_export x m (h m (by simp)), ih _ (fun y hy => h y (by simp [hy]))]
    simp

theorem body_no_lf_cr (kw : Bytes) (m : NeededMount) (hk : Tok kw) (hm : TokM m) :
    10 ∉ body kw m ∧ 13 ∉ body kw m := by
  obtain ⟨h1, h2, h3, _, _⟩ := hm
  have a1 := tok_no_lf _ hk; have a2 := tok_no_lf _ h1; have a3 := tok_no_lf _ h2; have a4 := tok_no_lf _ h3
  have b1 := tok_no_cr _ hk; have b2 := tok_no_cr _ h1; have b3 := tok_no_cr _ h2; have b4 := tok_no_cr _ h3
  simp [body, joinWith, a1, a2, a3, a4, b1, b2, b3, b4]

theorem bodies_no_lf_cr (l : LayerFile) (h : WF l) : ∀ b ∈ bodies l, 10 ∉ b ∧ 13 ∉ b := by
  intro b hb
  unfold bodies at hb
  simp only [List.mem_append, List.mem_map] at hb
  rcases hb with ((hb | ⟨m, hm, rfl⟩) | hb) | ⟨m, hm, rfl⟩
  · split at hb
    · rename_i hlen
      have hbt : Tok l.base := by
        rcases h.1 with e | e
        · rw [e] at hlen; simp at hlen
        · exact e
      simp at hb
      rcases hb with rfl | rfl
      · have a1 := tok_no_lf _ tok_kwBase; have a2 := tok_no_lf _ hbt
        have b1 := tok_no_cr _ tok_kwBase; have b2 := tok_no_cr _ hbt
        simp [joinWith, a1, a2, b1, b2]
      · simp
    · simp at hb
  · exact body_no_lf_cr _ _ tok_kwImport (h.2.1 m hm)
  · split at hb
    · simp at hb; subst hb; simp
    · simp at hb
  · exact body_no_lf_cr _ _ tok_kwExport (h.2.2 m hm)

/-- reading the writer's lines gives back the description (message count 0) -/
theorem readLines_bodies (l : LayerFile) (h : WF l) :
    (bodies l).foldl readStep {} = { l with nmsgs := 0 } := by
  unfold bodies
  simp only [List.foldl_append]
  have hbase : (if l.base.length > 0 then [joinWith 32 [kwBase, l.base], []] else []).foldl readStep {}
      = { base := l.base } := by
    split
    · rename_i hlen
      have hbt : Tok l.base := by
        rcases h.1 with e | e
        · rw [e] at hlen; simp at hlen
        · exact e
      simp only [List.foldl_cons, List.foldl_nil]
      rw [readStep_base {} l.base hbt rfl, readStep_blank]
    · rename_i hlen
      have : l.base = [] := by
        cases hb : l.base with
        | nil => rfl
        | cons a b => rw [hb] at hlen; simp at hlen
      simp [this]
  rw [hbase, readLines_imports l.mounts _ h.2.1]
  have hsep : ∀ x : LayerFile, (if l.exports.length > 0 then [([] : Bytes)] else []).foldl readStep x = x := by
    intro x; split <;> simp [readStep_blank]
  rw [hsep, readLines_exports l.exports _ h.2.2]
  simp

/-- WriteLayerfile followed by ReadLayerFile on any description the reader can produce -/
theorem read_render (l : LayerFile) (h : WF l) : readLayerFile (render l) = { l with nmsgs := 0 } := by
  unfold readLayerFile readLines
  rw [render_eq, scanLines_lines _ (fun b hb => (bodies_no_lf_cr l h b hb).1)
    (fun b hb => (bodies_no_lf_cr l h b hb).2)]
  exact readLines_bodies l h

end Lc.Lemmas.LayerfileRW
