/-
  Closed form of `findLayerstate` (manage/probe.go): the function of the model, cut into
  named pieces (overlay pre-check, import tally, export tally, final if-chain), each
  proved equal to the corresponding piece of the model; fold invariants of the two
  loops.  Helper lemmas for Props/C08.  The model itself is not changed.
-/
import Lc.Model.Layers

namespace Lc.StateProbe
open Lc Lc.Layers Lc.Mountinfo Lc.Layerfile

/-- decidable equality of results (for the `decide`d examples) -/
instance exceptDecEq {ε α : Type} [DecidableEq ε] [DecidableEq α] : DecidableEq (Except ε α) :=
  fun a b => match a, b with
    | .ok x, .ok y => if h : x = y then isTrue (by rw [h]) else isFalse (fun e => h (Except.ok.inj e))
    | .error x, .error y =>
      if h : x = y then isTrue (by rw [h]) else isFalse (fun e => h (Except.error.inj e))
    | .ok _, .error _ => isFalse (fun e => by cases e)
    | .error _, .ok _ => isFalse (fun e => by cases e)

/-! ### the pieces of `findLayerstate`, named -/

/-- marker value used by the model for "return now with this state" -/
def RET : Nat := 1000000

/-- the overlay check of a derived layer / the FHS check; `none` = return the layer as it is
    (`complete`), `some (l, RET)` = return `l`, `some (l, n)` = go on with `n` mounts counted -/
def preCheck (cfg : Config) (fs : Fs.Tree) (d : Defs) (l : Layer) : Res (Option (Layer × Nat)) :=
  let builddir := buildPath cfg l
  if l.base.length > 0 then
    match findLayer d l.base with
    | none => Res.panic
    | some bl =>
      if bl.state < S_mountable then .ok none else
      match getMount d.mounts builddir with
      | none =>
        if l.mounts.length > 0 then .ok (some ({ l with state := S_error }, 1000000))
        else .ok (some ({ l with state := S_mountable }, 1000000))
      | some mnt =>
        if mnt.fstype != b!"overlay" then .ok (some ({ l with state := S_error }, 1000000))
        else if mnt.source != buildPath cfg bl || mnt.source2 != upperPath cfg l
                || mnt.workdir != workPath cfg l then
          .ok (some ({ l with state := S_error }, 1000000))
        else if !minimalBuildDirsPresent fs builddir then .ok none
        else .ok (some (l, 1))
  else if !minimalBuildDirsPresent fs builddir then .ok none
  else .ok (some (l, 0))

/-- one round of the import loop: (numMounted, missing, incorrect, panic) -/
def importStep (cfg : Config) (fs : Fs.Tree) (m : Mounts) (acc : Nat × Bool × Bool × Bool)
    (pair : Expanded) : Nat × Bool × Bool × Bool :=
  let (n, missing, incorrect, pn) := acc
  if !Fs.lexists fs pair.mount then (n, true, incorrect, pn)
  else if isAbs pair.source && !Fs.lexists fs pair.source
          && !inAnyLayerDirectory cfg (pair.source.length + 1) pair.source then
    (n, true, incorrect, pn)
  else match getMount m pair.mount with
    | none => (n, missing, incorrect, pn)
    | some mnt =>
      match mountSourceIsExpected m mnt pair.source with
      | .ok true => (n + 1, missing, incorrect, pn)
      | .ok false => (n + 1, missing, true, pn)
      | .error _ => (n + 1, missing, incorrect, true)

/-- one round of the export loop: (missing, incorrect) -/
def exportStep (fs : Fs.Tree) (builddir : Bytes) (acc : Bool × Bool) (pair : Expanded) : Bool × Bool :=
  let (missing, incorrect) := acc
  if !isDescendant builddir pair.source && builddir != pair.source then (missing, true)
  else if !Fs.lexists fs pair.source then (true, incorrect)
  else if Fs.isSymlink fs pair.mount then
    (missing, incorrect || readlink fs pair.mount != some pair.source)
  else (missing, incorrect)

/-- the final if-chain (as a layer) -/
def finish (l : Layer) (numExpected numMounted : Nat) (missing incorrect fsErr : Bool) : Layer :=
  if incorrect || fsErr then { l with state := S_error }
  else if missing then l
  else if numMounted == 0 then { l with state := S_mountable }
  else if numMounted < numExpected then { l with state := S_partialmount }
  else if l.mountBusy || l.overlain then { l with state := S_mounted_busy }
  else { l with state := S_mounted }

/-- the final if-chain, literally as in the model -/
def finishR (l : Layer) (numExpected numMounted : Nat) (missing incorrect fsErr : Bool) : Res Layer :=
  if incorrect || fsErr then .ok { l with state := S_error }
  else if missing then .ok l
  else if numMounted == 0 then .ok { l with state := S_mountable }
  else if numMounted < numExpected then .ok { l with state := S_partialmount }
  else if l.mountBusy || l.overlain then .ok { l with state := S_mounted_busy }
  else .ok { l with state := S_mounted }

theorem finishR_eq (l : Layer) (ne nm : Nat) (a b c : Bool) :
    finishR l ne nm a b c = .ok (finish l ne nm a b c) := by
  unfold finishR finish
  repeat' split
  all_goals rfl

def numExpected (l : Layer) : Nat := l.cmounts.length + (if l.base.length > 0 then 1 else 0)

/-- the expanded exports; `true` = the expansion failed (`fsErr`) -/
def exportsOf (cfg : Config) (l : Layer) : List Expanded × Bool :=
  match expandConfigExports cfg l with
  | .ok e => (e, false)
  | .error _ => ([], true)

/-- everything after the pre-check -/
def classify (cfg : Config) (fs : Fs.Tree) (d : Defs) (builddir : Bytes) (l : Layer)
    (numMounted0 : Nat) : Res Layer :=
  let l := { l with state := S_inhabited }
  match expandConfigMounts cfg d l with
  | .error (.err _) => .ok l
  | .error .panic => Res.panic
  | .ok mounts =>
    let (numMounted, missing1, incorrect1, pn) :=
      mounts.foldl (importStep cfg fs d.mounts) (numMounted0, false, false, false)
    if pn then Res.panic else
    let (exports, fsErr) := exportsOf cfg l
    let (missing, incorrect) := exports.foldl (exportStep fs builddir) (missing1, incorrect1)
    finishR l (numExpected l) numMounted missing incorrect fsErr

/-- what follows the pre-check -/
def afterPre (cfg : Config) (fs : Fs.Tree) (d : Defs) (bd : Bytes) (l : Layer)
    (r : Res (Option (Layer × Nat))) : Res Layer :=
  match r with
  | .error e => .error e
  | .ok none => .ok l
  | .ok (some (l, 1000000)) => .ok l
  | .ok (some (l, numMounted0)) => classify cfg fs d bd l numMounted0

def findLayerstate2 (cfg : Config) (fs : Fs.Tree) (d : Defs) (l0 : Layer) : Res Layer :=
  let l := { l0 with mounts := getMountAndSubmounts d.mounts (buildPath cfg l0) }
  if l.state < S_complete then .ok l else
  let l := { l with state := S_complete }
  afterPre cfg fs d (buildPath cfg l0) l (preCheck cfg fs d l)

theorem findLayerstate_eq (cfg : Config) (fs : Fs.Tree) (d : Defs) (l : Layer) :
    findLayerstate cfg fs d l = findLayerstate2 cfg fs d l := by
  rfl

/-! ### closed form of the import loop -/

/-- the mountpoint directory or the (host) source of an import is missing -/
def impMissing (cfg : Config) (fs : Fs.Tree) (e : Expanded) : Bool :=
  !Fs.lexists fs e.mount ||
    (isAbs e.source && !Fs.lexists fs e.source
      && !inAnyLayerDirectory cfg (e.source.length + 1) e.source)

/-- nothing missing and something is mounted on the import's mountpoint -/
def impMounted (cfg : Config) (fs : Fs.Tree) (m : Mounts) (e : Expanded) : Bool :=
  !impMissing cfg fs e && (getMount m e.mount).isSome

/-- mounted, but `MountSourceIsExpected` says no -/
def impWrong (cfg : Config) (fs : Fs.Tree) (m : Mounts) (e : Expanded) : Bool :=
  !impMissing cfg fs e &&
    match getMount m e.mount with
    | none => false
    | some mnt =>
      match mountSourceIsExpected m mnt e.source with
      | .ok false => true
      | _ => false

/-- mounted, and `GetMountSources` dereferences nil -/
def impPanic (cfg : Config) (fs : Fs.Tree) (m : Mounts) (e : Expanded) : Bool :=
  !impMissing cfg fs e &&
    match getMount m e.mount with
    | none => false
    | some mnt =>
      match mountSourceIsExpected m mnt e.source with
      | .error _ => true
      | _ => false

theorem importStep_eq (cfg : Config) (fs : Fs.Tree) (m : Mounts) (acc : Nat × Bool × Bool × Bool)
    (e : Expanded) :
    importStep cfg fs m acc e =
      (acc.1 + (if impMounted cfg fs m e then 1 else 0), acc.2.1 || impMissing cfg fs e,
       acc.2.2.1 || impWrong cfg fs m e, acc.2.2.2 || impPanic cfg fs m e) := by
  obtain ⟨n, a, b, c⟩ := acc
  unfold importStep impMounted impWrong impPanic impMissing
  simp only []
  generalize Fs.lexists fs e.mount = x1
  generalize isAbs e.source = x2
  generalize Fs.lexists fs e.source = x3
  generalize inAnyLayerDirectory cfg (e.source.length + 1) e.source = x4
  cases hg : getMount m e.mount with
  | none => cases x1 <;> cases x2 <;> cases x3 <;> cases x4 <;> simp
  | some mnt =>
    cases hm : mountSourceIsExpected m mnt e.source with
    | error f => cases x1 <;> cases x2 <;> cases x3 <;> cases x4 <;> simp [hm]
    | ok r => cases r <;> cases x1 <;> cases x2 <;> cases x3 <;> cases x4 <;> simp [hm]

/-- the fold invariant of the import loop, in closed form -/
theorem importFold (cfg : Config) (fs : Fs.Tree) (m : Mounts) (es : List Expanded)
    (acc : Nat × Bool × Bool × Bool) :
    es.foldl (importStep cfg fs m) acc =
      (acc.1 + es.countP (impMounted cfg fs m), acc.2.1 || es.any (impMissing cfg fs),
       acc.2.2.1 || es.any (impWrong cfg fs m), acc.2.2.2 || es.any (impPanic cfg fs m)) := by
  induction es generalizing acc with
  | nil => simp
  | cons e es ih =>
    rw [List.foldl_cons, ih, importStep_eq]
    simp only [List.countP_cons, List.any_cons, Bool.or_assoc, Nat.add_assoc]
    congr 2
    omega

/-! ### closed form of the export loop -/

/-- the export source is not the build directory or below it, or the link points elsewhere -/
def expWrong (fs : Fs.Tree) (builddir : Bytes) (e : Expanded) : Bool :=
  (!isDescendant builddir e.source && builddir != e.source) ||
    (Fs.lexists fs e.source && Fs.isSymlink fs e.mount && readlink fs e.mount != some e.source)

/-- the export source does not exist -/
def expMissing (fs : Fs.Tree) (builddir : Bytes) (e : Expanded) : Bool :=
  !(!isDescendant builddir e.source && builddir != e.source) && !Fs.lexists fs e.source

theorem exportStep_eq (fs : Fs.Tree) (bd : Bytes) (acc : Bool × Bool) (e : Expanded) :
    exportStep fs bd acc e = (acc.1 || expMissing fs bd e, acc.2 || expWrong fs bd e) := by
  obtain ⟨a, b⟩ := acc
  unfold exportStep expMissing expWrong
  simp only []
  generalize (!isDescendant bd e.source && bd != e.source) = x1
  generalize Fs.lexists fs e.source = x2
  generalize Fs.isSymlink fs e.mount = x3
  generalize (readlink fs e.mount != some e.source) = x4
  cases x1 <;> cases x2 <;> cases x3 <;> cases x4 <;> simp

theorem exportFold (fs : Fs.Tree) (bd : Bytes) (es : List Expanded) (acc : Bool × Bool) :
    es.foldl (exportStep fs bd) acc =
      (acc.1 || es.any (expMissing fs bd), acc.2 || es.any (expWrong fs bd)) := by
  induction es generalizing acc with
  | nil => simp
  | cons e es ih =>
    rw [List.foldl_cons, ih, exportStep_eq]
    simp only [List.any_cons, Bool.or_assoc]

/-! ### the configuration expansion does not look at state or mounts -/

theorem findLayerBase_path (d : Defs) (n : Nat) (l1 l2 : Layer) (hb : l1.base = l2.base)
    (hp : l1.layerPath = l2.layerPath) :
    (findLayerBase d (n + 1) l1).map (·.layerPath) = (findLayerBase d (n + 1) l2).map (·.layerPath) := by
  unfold findLayerBase
  rw [hb]
  split
  · rfl
  · simp [hp]

theorem expandConfigMounts_congr (cfg : Config) (d : Defs) (l1 l2 : Layer) (hb : l1.base = l2.base)
    (hc : l1.cmounts = l2.cmounts) (hp : l1.layerPath = l2.layerPath) :
    expandConfigMounts cfg d l1 = expandConfigMounts cfg d l2 := by
  unfold expandConfigMounts buildPath
  rw [hc, hp, findLayerBase_path d _ l1 l2 hb hp]

theorem expandConfigMounts_length (cfg : Config) (d : Defs) (l : Layer) (es : List Expanded)
    (h : expandConfigMounts cfg d l = .ok es) : es.length = l.cmounts.length := by
  unfold expandConfigMounts at h
  generalize l.cmounts = cm at h
  induction cm generalizing es with
  | nil => simp [List.mapM_nil, pure, Except.pure] at h; subst h; rfl
  | cons m ms ih =>
    rw [List.mapM_cons] at h
    simp only [bind, Except.bind] at h
    split at h
    · cases h
    · rename_i e he
      split at h
      · cases h
      · rename_i es' hes
        simp only [pure, Except.pure, Except.ok.injEq] at h
        subst h
        simp [ih es' hes]

/-! ### closed form of `classify` -/

theorem finish_same (l : Layer) (ne nm : Nat) (a b c : Bool) :
    ∃ s, finish l ne nm a b c = { l with state := s } := by
  unfold finish
  repeat' split
  all_goals exact ⟨_, rfl⟩

theorem classify_eq (cfg : Config) (fs : Fs.Tree) (d : Defs) (bd : Bytes) (l : Layer) (n0 : Nat) :
    classify cfg fs d bd l n0 =
      match expandConfigMounts cfg d l with
      | .error (.err _) => .ok { l with state := S_inhabited }
      | .error .panic => Res.panic
      | .ok mounts =>
        if mounts.any (impPanic cfg fs d.mounts) then Res.panic else
        .ok (finish { l with state := S_inhabited } (numExpected l)
          (n0 + mounts.countP (impMounted cfg fs d.mounts))
          (mounts.any (impMissing cfg fs) || (exportsOf cfg l).1.any (expMissing fs bd))
          (mounts.any (impWrong cfg fs d.mounts) || (exportsOf cfg l).1.any (expWrong fs bd))
          (exportsOf cfg l).2) := by
  unfold classify
  simp only []
  rw [expandConfigMounts_congr cfg d { l with state := S_inhabited } l rfl rfl rfl]
  split
  · rfl
  · rfl
  · rename_i mounts hm
    rw [importFold]
    simp only [Bool.false_or]
    split
    · rfl
    · rw [exportFold, finishR_eq]
      rfl

/-! ### inversion of the pre-check and of `findLayerstate` -/

/-- the overlay of the derived layer `l` is mounted on its build directory exactly as
    configured, and the parent is at least mountable -/
def OverlayOk (cfg : Config) (d : Defs) (l : Layer) : Prop :=
  ∃ bl mnt, findLayer d l.base = some bl ∧ ¬ bl.state < S_mountable ∧
    getMount d.mounts (buildPath cfg l) = some mnt ∧ mnt.fstype = b!"overlay" ∧
    mnt.source = buildPath cfg bl ∧ mnt.source2 = upperPath cfg l ∧ mnt.workdir = workPath cfg l

theorem preCheck_go (cfg : Config) (fs : Fs.Tree) (d : Defs) (l l2 : Layer) (n : Nat)
    (h : preCheck cfg fs d l = .ok (some (l2, n))) (hn : n ≠ 1000000) :
    l2 = l ∧ minimalBuildDirsPresent fs (buildPath cfg l) = true ∧
      ((l.base.length = 0 ∧ n = 0) ∨ (l.base.length > 0 ∧ n = 1 ∧ OverlayOk cfg d l)) := by
  unfold preCheck at h
  simp only [] at h
  split at h
  · rename_i hb
    split at h
    · cases h
    · rename_i bl hbl
      split at h
      · cases h
      · rename_i hst
        split at h
        · split at h <;>
          · simp only [Except.ok.injEq, Option.some.injEq, Prod.mk.injEq] at h
            omega
        · rename_i mnt hmnt
          split at h
          · simp only [Except.ok.injEq, Option.some.injEq, Prod.mk.injEq] at h
            omega
          · rename_i hft
            split at h
            · simp only [Except.ok.injEq, Option.some.injEq, Prod.mk.injEq] at h
              omega
            · rename_i hsrc
              split at h
              · cases h
              · rename_i hfhs
                simp only [Except.ok.injEq, Option.some.injEq, Prod.mk.injEq] at h
                refine ⟨h.1.symm, by simpa using hfhs, Or.inr ⟨hb, h.2.symm, bl, mnt, hbl, hst, hmnt, ?_⟩⟩
                simp only [bne_iff_ne, ne_eq, Bool.or_eq_true, not_or, Decidable.not_not] at hsrc hft
                exact ⟨hft, hsrc.1.1, hsrc.1.2, hsrc.2⟩
  · rename_i hb
    split at h
    · cases h
    · rename_i hfhs
      simp only [Except.ok.injEq, Option.some.injEq, Prod.mk.injEq] at h
      exact ⟨h.1.symm, by simpa using hfhs, Or.inl ⟨by omega, h.2.symm⟩⟩

theorem preCheck_ret (cfg : Config) (fs : Fs.Tree) (d : Defs) (l l2 : Layer)
    (h : preCheck cfg fs d l = .ok (some (l2, 1000000))) :
    l.base.length > 0 ∧ (l2 = { l with state := S_mountable } ∨ l2 = { l with state := S_error }) := by
  unfold preCheck at h
  simp only [] at h
  split at h
  · rename_i hb
    refine ⟨hb, ?_⟩
    split at h
    · cases h
    · split at h
      · cases h
      · split at h
        · split at h
          · simp only [Except.ok.injEq, Option.some.injEq, Prod.mk.injEq] at h
            exact Or.inr h.1.symm
          · simp only [Except.ok.injEq, Option.some.injEq, Prod.mk.injEq] at h
            exact Or.inl h.1.symm
        · split at h
          · simp only [Except.ok.injEq, Option.some.injEq, Prod.mk.injEq] at h
            exact Or.inr h.1.symm
          · split at h
            · simp only [Except.ok.injEq, Option.some.injEq, Prod.mk.injEq] at h
              exact Or.inr h.1.symm
            · split at h
              · cases h
              · simp only [Except.ok.injEq, Option.some.injEq, Prod.mk.injEq] at h
                omega
  · split at h
    · cases h
    · simp only [Except.ok.injEq, Option.some.injEq, Prod.mk.injEq] at h
      omega

/-- all normal exits of `findLayerstate` -/
theorem findLayerstate_cases (cfg : Config) (fs : Fs.Tree) (d : Defs) (l l' : Layer)
    (h : findLayerstate cfg fs d l = .ok l') :
    (l.state < S_complete ∧
      l' = { l with mounts := getMountAndSubmounts d.mounts (buildPath cfg l) }) ∨
    (¬ l.state < S_complete ∧
      ((preCheck cfg fs d { l with mounts := getMountAndSubmounts d.mounts (buildPath cfg l),
                                    state := S_complete } = .ok none ∧
        l' = { l with mounts := getMountAndSubmounts d.mounts (buildPath cfg l), state := S_complete }) ∨
       (preCheck cfg fs d { l with mounts := getMountAndSubmounts d.mounts (buildPath cfg l),
                                    state := S_complete } = .ok (some (l', 1000000))) ∨
       (∃ l2 n, n ≠ 1000000 ∧
          preCheck cfg fs d { l with mounts := getMountAndSubmounts d.mounts (buildPath cfg l),
                                      state := S_complete } = .ok (some (l2, n)) ∧
          classify cfg fs d (buildPath cfg l) l2 n = .ok l'))) := by
  rw [findLayerstate_eq] at h
  unfold findLayerstate2 afterPre at h
  simp only [] at h
  split at h
  · rename_i hs
    exact Or.inl ⟨hs, (Except.ok.inj h).symm⟩
  · rename_i hs
    refine Or.inr ⟨hs, ?_⟩
    split at h
    · cases h
    · rename_i hp
      exact Or.inl ⟨hp, (Except.ok.inj h).symm⟩
    · rename_i l2 hp
      cases h
      exact Or.inr (Or.inl hp)
    · rename_i l2 n hne hp
      exact Or.inr (Or.inr ⟨l2, n, fun hn => hne (by subst hn; rfl) , hp, h⟩)

/-! ### the final if-chain -/

theorem finish_state (l : Layer) (ne nm : Nat) (a b c : Bool) :
    (finish l ne nm a b c).state =
      if b || c then S_error else if a then l.state else if nm == 0 then S_mountable
      else if nm < ne then S_partialmount
      else if l.mountBusy || l.overlain then S_mounted_busy else S_mounted := by
  unfold finish
  simp only [apply_ite Layer.state]

theorem exportsOf_ok (cfg : Config) (l : Layer) (h : (exportsOf cfg l).2 = false) :
    expandConfigExports cfg l = .ok (exportsOf cfg l).1 := by
  unfold exportsOf at h ⊢
  split at h
  · rename_i e he
    simp [he]
  · cases h

/-- per import: what `impMounted`, not `impWrong`, not `impPanic` say in plain terms -/
theorem imp_good (cfg : Config) (fs : Fs.Tree) (m : Mounts) (e : Expanded)
    (h1 : impMounted cfg fs m e = true) (h2 : impWrong cfg fs m e = false)
    (h3 : impPanic cfg fs m e = false) :
    Fs.lexists fs e.mount = true ∧
    (isAbs e.source = true → Fs.lexists fs e.source = true ∨
        inAnyLayerDirectory cfg (e.source.length + 1) e.source = true) ∧
    ∃ mnt, getMount m e.mount = some mnt ∧ mountSourceIsExpected m mnt e.source = .ok true := by
  unfold impMounted at h1
  unfold impWrong at h2
  unfold impPanic at h3
  simp only [Bool.and_eq_true, Bool.not_eq_true'] at h1
  obtain ⟨hmiss, hsome⟩ := h1
  rw [hmiss] at h2 h3
  have hm := hmiss
  unfold impMissing at hm
  simp only [Bool.or_eq_false_iff, Bool.not_eq_false', Bool.and_eq_false_iff,
    Bool.not_eq_false'] at hm
  refine ⟨hm.1, ?_, ?_⟩
  · intro ha
    rcases hm.2 with (h | h) | h
    · rw [ha] at h; cases h
    · exact Or.inl h
    · exact Or.inr h
  · cases hg : getMount m e.mount with
    | none => rw [hg] at hsome; cases hsome
    | some mnt =>
      refine ⟨mnt, rfl, ?_⟩
      rw [hg] at h2 h3
      cases hx : mountSourceIsExpected m mnt e.source with
      | error f => simp [hx] at h3
      | ok r =>
        cases r with
        | true => rfl
        | false => simp [hx] at h2

theorem exp_good (fs : Fs.Tree) (bd : Bytes) (e : Expanded) (h1 : expMissing fs bd e = false)
    (h2 : expWrong fs bd e = false) :
    (isDescendant bd e.source = true ∨ bd = e.source) ∧ Fs.lexists fs e.source = true ∧
    (Fs.isSymlink fs e.mount = true → readlink fs e.mount = some e.source) := by
  unfold expMissing at h1
  unfold expWrong at h2
  simp only [Bool.or_eq_false_iff, Bool.and_eq_false_iff, Bool.not_eq_false', bne_eq_false_iff_eq,
    Bool.not_eq_false'] at h1 h2
  obtain ⟨h2a, h2b⟩ := h2
  have hx : Fs.lexists fs e.source = true := by
    rcases h1 with h | h
    · rcases h2a with h' | h'
      · rw [h'] at h; simp at h
      · rw [h'] at h; simp at h
    · exact h
  refine ⟨h2a, hx, ?_⟩
  intro hs
  rcases h2b with (h | h) | h
  · rw [hx] at h; cases h
  · rw [hs] at h; cases h
  · exact h

/-! ### forward direction: the pre-check on the two good paths -/

theorem preCheck_base (cfg : Config) (fs : Fs.Tree) (d : Defs) (l : Layer) (hb : l.base.length = 0) :
    preCheck cfg fs d l =
      if minimalBuildDirsPresent fs (buildPath cfg l) then .ok (some (l, 0)) else .ok none := by
  unfold preCheck
  simp only [hb, Nat.lt_irrefl, ↓reduceIte, gt_iff_lt]
  cases minimalBuildDirsPresent fs (buildPath cfg l) <;> simp

theorem preCheck_overlayOk (cfg : Config) (fs : Fs.Tree) (d : Defs) (l : Layer)
    (hb : l.base.length > 0) (ho : OverlayOk cfg d l) :
    preCheck cfg fs d l =
      if minimalBuildDirsPresent fs (buildPath cfg l) then .ok (some (l, 1)) else .ok none := by
  obtain ⟨bl, mnt, hbl, hst, hmnt, hft, h1, h2, h3⟩ := ho
  unfold preCheck
  simp only [hb, ↓reduceIte, hbl, hst, hmnt, hft, h1, h2, h3, bne_self_eq_false, Bool.or_self,
    Bool.false_eq_true]
  cases minimalBuildDirsPresent fs (buildPath cfg l) <;> simp

/-- with the FHS directories present and (derived layer) the overlay mounted as configured,
    `findLayerstate` is `classify` -/
theorem findLayerstate_reached (cfg : Config) (fs : Fs.Tree) (d : Defs) (l : Layer)
    (hs : ¬ l.state < S_complete)
    (hfhs : minimalBuildDirsPresent fs (buildPath cfg l) = true)
    (hov : l.base.length > 0 → OverlayOk cfg d l) :
    findLayerstate cfg fs d l =
      classify cfg fs d (buildPath cfg l)
        { l with mounts := getMountAndSubmounts d.mounts (buildPath cfg l), state := S_complete }
        (if l.base.length > 0 then 1 else 0) := by
  rw [findLayerstate_eq]
  unfold findLayerstate2
  simp only [hs, ↓reduceIte]
  generalize hlc : ({ l with mounts := getMountAndSubmounts d.mounts (buildPath cfg l),
                             state := S_complete } : Layer) = lc
  have hbase : lc.base = l.base := by subst hlc; rfl
  have hbp : buildPath cfg lc = buildPath cfg l := by subst hlc; rfl
  have hov' : lc.base.length > 0 → OverlayOk cfg d lc := by subst hlc; exact hov
  by_cases hb : l.base.length > 0
  · rw [preCheck_overlayOk cfg fs d lc (hbase ▸ hb) (hov' (hbase ▸ hb)), hbp, hfhs]
    simp [afterPre, hb]
  · rw [preCheck_base cfg fs d lc (by rw [hbase]; omega), hbp, hfhs]
    simp [afterPre, hb]

/-- the last three arms of the if-chain, read as none / some / all -/
theorem chain_iff (nm ne : Nat) (busy : Bool) (hle : nm ≤ ne) :
    ((if (nm == 0) = true then S_mountable else if nm < ne then S_partialmount
        else if busy = true then S_mounted_busy else S_mounted) = S_mountable ↔ nm = 0) ∧
    ((if (nm == 0) = true then S_mountable else if nm < ne then S_partialmount
        else if busy = true then S_mounted_busy else S_mounted) = S_partialmount ↔
      0 < nm ∧ nm < ne) ∧
    ((if (nm == 0) = true then S_mountable else if nm < ne then S_partialmount
        else if busy = true then S_mounted_busy else S_mounted) = S_mounted ∨
     (if (nm == 0) = true then S_mountable else if nm < ne then S_partialmount
        else if busy = true then S_mounted_busy else S_mounted) = S_mounted_busy ↔
      0 < nm ∧ nm = ne) := by
  simp only [beq_iff_eq, S_mountable, S_partialmount, S_mounted, S_mounted_busy]
  by_cases h0 : nm = 0
  · subst h0
    simp
  · by_cases h1 : nm < ne
    · simp only [h0, h1, ↓reduceIte]
      simp
      omega
    · cases busy <;> simp only [h0, h1, ↓reduceIte] <;> simp <;> omega

/-- the reported state, for `decide` -/
def st (r : Res Layer) : Option Nat := r.toOption.map (·.state)

theorem st_ok {r : Res Layer} {s : Nat} (h : st r = some s) : ∃ l', r = .ok l' ∧ l'.state = s := by
  unfold st at h
  cases r with
  | error e => simp [Except.toOption] at h
  | ok l => exact ⟨l, rfl, by simpa [Except.toOption] using h⟩


end Lc.StateProbe
