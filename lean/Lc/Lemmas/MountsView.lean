/-
  The `ProbeMounts` view of a kernel mount table, as a relation `MountsView mnts m` that
  does not mention the text rendering (decidable on concrete values), proved of the
  model's own conversion `Kernel.probe` (C12 `probe_render`); from it: `GetMount` against
  the table's topmost mount, the overlay entry, `Overlain`, and the parts of `ImportBridge`
  / `OverlayBridge` (Lemmas/SpecBridge, Lemmas/StateSpec) that follow.  Helper lemmas for
  Props/C08 section 8.
-/
import Lc.Lemmas.StateSpec
import Lc.Props.C12
import Lc.Lemmas.Sort
import Lc.Lemmas.TreeOrder

namespace Lc.StateProbe
open Lc Lc.Layers Lc.Mountinfo Lc.Layerfile Lc.Spec.World

/-! ### the relation -/

structure MKey where
  mp : Bytes
  fstype : Bytes
  dev : Bytes
  root : Bytes
  lower : Bytes
  upper : Bytes
  work : Bytes
  deriving DecidableEq, Repr

/-- the fields of a `ProbeMounts` entry package manage looks at -/
def entryKey (e : MountType) : MKey :=
  ⟨e.mountpoint, e.fstype, e.stDev, e.root, e.source, e.source2, e.workdir⟩

/-- the same fields of a kernel mount (overlay directories only for overlay mounts) -/
def kmntKey (k : Kernel.KMnt) : MKey :=
  ⟨k.mp, k.fstype, k.dev, k.root,
   if k.fstype = b!"overlay" then k.lower else [],
   if k.fstype = b!"overlay" then k.upper else [],
   if k.fstype = b!"overlay" then k.work else []⟩

/-- the device table `ProbeMounts` builds: per `major:minor` the source of its first mount
    and the mountpoints of the mounts of its root directory -/
def kDevices (mnts : List Kernel.KMnt) : List Device :=
  mnts.foldl (fun d k => addDevice d k.dev k.source k.root k.mp) []

/-- `m` is what `ProbeMounts` shows of the kernel table `mnts` (shadow flags and option
    strings aside): one entry per mount, in table order, and the device table -/
structure MountsView (mnts : List Kernel.KMnt) (m : Mounts) : Prop where
  list : m.list.map entryKey = mnts.map kmntKey
  devices : m.devices = kDevices mnts

instance (mnts : List Kernel.KMnt) (m : Mounts) : Decidable (MountsView mnts m) :=
  have : Decidable (m.list.map entryKey = mnts.map kmntKey) := inferInstance
  have : Decidable (m.devices = kDevices mnts) := inferInstance
  decidable_of_iff (m.list.map entryKey = mnts.map kmntKey ∧ m.devices = kDevices mnts)
    ⟨fun ⟨a, b⟩ => ⟨a, b⟩, fun h => ⟨h.list, h.devices⟩⟩

/-- a view of any table, built without the text rendering (for examples: `decide` cannot
    evaluate `Kernel.probe`, whose renderer goes through `toString`) -/
def viewOf (mnts : List Kernel.KMnt) : Mounts :=
  { list := mnts.map fun k =>
      { source := if k.fstype = b!"overlay" then k.lower else [], mountpoint := k.mp,
        source2 := if k.fstype = b!"overlay" then k.upper else [],
        workdir := if k.fstype = b!"overlay" then k.work else [], fstype := k.fstype,
        options := b!"rw", inShadow := false, stDev := k.dev, root := k.root },
    devices := kDevices mnts }

theorem viewOf_view (mnts : List Kernel.KMnt) : MountsView mnts (viewOf mnts) := by
  refine ⟨?_, rfl⟩
  unfold viewOf
  simp only [List.map_map]
  rfl

/-! ### the model's conversion produces a view -/

theorem lastVal_toSpec (k : Kernel.KMnt) (hov : k.fstype = b!"overlay") :
    Spec.lastVal b!"lowerdir" (Kernel.toSpec k).super = k.lower ∧
    Spec.lastVal b!"upperdir" (Kernel.toSpec k).super = k.upper ∧
    Spec.lastVal b!"workdir" (Kernel.toSpec k).super = k.work := by
  unfold Kernel.toSpec
  simp only [hov, beq_self_eq_true, ↓reduceIte]
  refine ⟨?_, ?_, ?_⟩ <;> simp [Spec.lastVal]

theorem entryOf_toSpec (pre : List Spec.KMount) (k : Kernel.KMnt) :
    entryKey (Lc.Props.C12.entryOf pre (Kernel.toSpec k)) = kmntKey k := by
  obtain ⟨h1, h2, -, h4, h5, -, h7, h8⟩ := Lc.Props.C12.entryOf_fields pre (Kernel.toSpec k)
  have hft : (Kernel.toSpec k).fstype = k.fstype := rfl
  unfold entryKey kmntKey
  rw [h1, h2, h4, h5]
  by_cases hov : k.fstype = b!"overlay"
  · obtain ⟨a, b, c⟩ := h7 (hft.trans hov)
    obtain ⟨l1, l2, l3⟩ := lastVal_toSpec k hov
    rw [a, b, c, l1, l2, l3]
    simp [hov, Kernel.toSpec]
  · obtain ⟨a, b, c⟩ := h8 (by rw [hft]; exact hov)
    rw [a, b, c]
    simp [hov, Kernel.toSpec]

theorem entries_view (ks : List Kernel.KMnt) :
    (Lc.Props.C12.entries (ks.map Kernel.toSpec)).map entryKey = ks.map kmntKey := by
  unfold Lc.Props.C12.entries
  apply List.ext_getElem?
  intro n
  simp only [List.getElem?_map, List.getElem?_mapIdx]
  cases hk : ks[n]? with
  | none => simp
  | some k => simp [entryOf_toSpec]

theorem devices_view (ks : List Kernel.KMnt) :
    Lc.Props.C12.devicesOf (ks.map Kernel.toSpec) = kDevices ks := by
  unfold Lc.Props.C12.devicesOf kDevices
  rw [List.foldl_map]
  rfl

/-- **`Kernel.probe` yields a view.**  For every kernel table whose mounts are printable as
    the kernel prints them (`Spec.KMount.WF`: token fields without blanks, byte strings
    elsewhere — C12's precondition), the model's own conversion (render as
    /proc/self/mountinfo, parse with the model of `ProbeMounts`) succeeds and its result is
    a `MountsView` of the table. -/
theorem probe_view (kt : Kernel.KTable) (wf : ∀ k ∈ kt.mnts, (Kernel.toSpec k).WF) :
    ∃ m, Kernel.probe kt = .ok m ∧ MountsView kt.mnts m := by
  refine ⟨_, Lc.Props.C12.probe_render (kt.mnts.map Kernel.toSpec) ?_, ?_⟩
  · intro s hs
    obtain ⟨k, hk, rfl⟩ := List.mem_map.mp hs
    exact wf k hk
  · exact ⟨entries_view kt.mnts, devices_view kt.mnts⟩

/-! ### lookups through a view -/

theorem find?_map_rel {α β γ : Type} (f : α → γ) (g : β → γ) (p : α → Bool) (q : β → Bool)
    (hpq : ∀ a b, f a = g b → p a = q b) :
    ∀ (xs : List α) (ys : List β), xs.map f = ys.map g →
      (xs.find? p).map f = (ys.find? q).map g := by
  intro xs
  induction xs with
  | nil =>
    intro ys h
    cases ys with
    | nil => rfl
    | cons y ys => simp at h
  | cons x xs ih =>
    intro ys h
    cases ys with
    | nil => simp at h
    | cons y ys =>
      simp only [List.map_cons, List.cons.injEq] at h
      simp only [List.find?_cons, hpq x y h.1]
      cases q y with
      | true => simp [h.1]
      | false => exact ih ys h.2

/-- `GetMount(path)` through a view is the topmost mount at `path` of the table -/
theorem getMount_view {mnts : List Kernel.KMnt} {m : Mounts} (hv : MountsView mnts m) (p : Bytes) :
    (getMount m p).map entryKey = (topAt mnts p).map kmntKey := by
  unfold getMount topAt Kernel.topmostAt
  apply find?_map_rel
  · intro a b hab
    unfold entryKey kmntKey at hab
    simp only [MKey.mk.injEq] at hab
    rw [hab.1]
  · rw [List.map_reverse, List.map_reverse, hv.list]

theorem getMount_view_isSome {mnts : List Kernel.KMnt} {m : Mounts} (hv : MountsView mnts m) (p : Bytes) :
    (getMount m p).isSome = (topAt mnts p).isSome := by
  have := congrArg Option.isSome (getMount_view hv p)
  simpa using this

theorem getMount_view_some {mnts : List Kernel.KMnt} {m : Mounts} (hv : MountsView mnts m) (p : Bytes)
    (mnt : MountType) (km : Kernel.KMnt) (hg : getMount m p = some mnt) (ht : topAt mnts p = some km) :
    entryKey mnt = kmntKey km := by
  have := getMount_view hv p
  rw [hg, ht] at this
  simpa using this

theorem filter_length_pos {α : Type} (p : α → Bool) (l : List α) :
    decide ((l.filter p).length > 0) = l.any p := by
  induction l with
  | nil => rfl
  | cons x xs ih =>
    simp only [List.filter_cons, List.any_cons]
    cases hx : p x with
    | true => simp
    | false => simpa using ih

/-- "something is mounted at or below `bd`", on the view and on the table -/
theorem submounts_of_view {mnts : List Kernel.KMnt} {m : Mounts} (hv : MountsView mnts m) (bd : Bytes) :
    decide ((getMountAndSubmounts m bd).length > 0) = mnts.any (fun k => atOrBelow bd k.mp) := by
  rw [(TreeOrder.getMountAndSubmounts_perm_region m bd).length_eq]
  unfold TreeOrder.regionOf
  rw [filter_length_pos]
  have h1 : m.list.any (fun x => x.mountpoint == bd || hasPrefix x.mountpoint (bd ++ [47]))
      = (m.list.map entryKey).any (fun x => x.mp == bd || hasPrefix x.mp (bd ++ [47])) := by
    rw [List.any_map]; rfl
  rw [h1, hv.list, List.any_map]
  rfl

/-- the overlay part of the bridge holds through a view -/
theorem overlayBridge_of_view (i : Inst) (m : Mounts) (hv : MountsView i.mnts m) (bd : Bytes) :
    OverlayBridge i m bd := by
  refine ⟨getMount_view_isSome hv bd, submounts_of_view hv bd, ?_⟩
  intro mnt km hg ht
  have hk := getMount_view_some hv bd mnt km hg ht
  unfold entryKey kmntKey at hk
  simp only [MKey.mk.injEq] at hk
  obtain ⟨-, h2, -, -, h5, h6, h7⟩ := hk
  refine ⟨h2, fun hov => ?_⟩
  simp only [hov, ↓reduceIte] at h5 h6 h7
  exact ⟨h5, h6, h7⟩

/-- `Overlain` as the probe computes it from the view is the documented one -/
theorem overlain_of_view (mnts : List Kernel.KMnt) (m : Mounts) (hv : MountsView mnts m) (bp : Bytes) :
    (overlayLowerdirs m).contains bp = mnts.any fun k => k.fstype == b!"overlay" && k.lower == bp := by
  unfold overlayLowerdirs
  have h1 : ((m.list.filter (·.fstype == b!"overlay")).map (·.source)).contains bp
      = (m.list.map entryKey).any fun x => x.fstype == b!"overlay" && x.lower == bp := by
    generalize m.list = es
    induction es with
    | nil => rfl
    | cons e es ih =>
      simp only [List.filter_cons, List.map_cons, List.any_cons]
      rw [← ih]
      by_cases he : (e.fstype == b!"overlay") = true
      · simp only [he, ↓reduceIte, List.map_cons, List.contains_cons, entryKey, Bool.true_and]
        rw [Bool.beq_comm]
      · simp only [he, Bool.false_eq_true, ↓reduceIte, entryKey]
        simp only [Bool.not_eq_true] at he
        simp
  rw [h1, hv.list, List.any_map]
  congr 1
  funext k
  simp only [Function.comp, kmntKey]
  by_cases hov : k.fstype = b!"overlay"
  · simp [hov]
  · have : (k.fstype == b!"overlay") = false := by simpa using hov
    simp [this]

/-! ### `GetMountSources` through a view: the bind-source candidates, on the kernel table -/

/-- the sources `GetMountSources` lists for the kernel mount `km` (after fix 23c682d): the
    lower directory of an overlay; the device's first mount source if `km` shows the
    device's root; `mountpoint/root` for every mount of the device's root directory; and
    `mountpoint/rest` for every mount of the device that shows `km`'s directory or a
    directory above it; `km`'s own mountpoint excepted -/
def kSources (mnts : List Kernel.KMnt) (km : Kernel.KMnt) : List Bytes :=
  let devName := match mnts.find? (·.dev == km.dev) with
    | some f => f.source
    | none => []
  let roots := (mnts.filter (fun x => x.dev == km.dev && x.root == [47])).map (·.mp)
  let subs := (mnts.filter (fun x => x.dev == km.dev && x.root != [47])).map fun x => (x.root, x.mp)
  (if km.fstype = b!"overlay" ∧ km.lower.length > 0 then [km.lower] else [])
    ++ (if km.root = [47] then [devName] else [])
    ++ (roots.map fun mp => pathJoin [mp, km.root]).filter (· != km.mp)
    ++ ((subs.filter fun s => km.root == s.1 || hasPrefix km.root (s.1 ++ [47])).map
          fun s => pathJoin [s.2, km.root.drop s.1.length]).filter (· != km.mp)

theorem getDevice_view {mnts : List Kernel.KMnt} {m : Mounts} (hv : MountsView mnts m) (d : Bytes) :
    getDevice m d = (mnts.find? (·.dev == d)).map fun f =>
      ⟨f.dev, f.source, (mnts.filter (fun x => x.dev == d && x.root == [47])).map (·.mp),
       (mnts.filter (fun x => x.dev == d && x.root != [47])).map (fun x => (x.root, x.mp))⟩ := by
  unfold getDevice
  rw [hv.devices, ← devices_view]
  unfold Lc.Props.C12.devicesOf
  rw [Lc.Lemmas.Mountinfo.find?_devices]
  unfold Lc.Lemmas.Mountinfo.devLookup
  rw [List.find?_map, List.filter_map, List.map_map, List.filter_map, List.map_map]
  cases hf : mnts.find? (·.dev == d) with
  | none =>
    have : List.find? ((fun x : Spec.KMount => x.dev == d) ∘ Kernel.toSpec) mnts = none := hf
    rw [this]
    rfl
  | some f =>
    have : List.find? ((fun x : Spec.KMount => x.dev == d) ∘ Kernel.toSpec) mnts = some f := hf
    rw [this]
    rfl

/-- what `GetMountSources` answers for the entry of `km`, computed on the kernel table -/
theorem getMountSources_view {mnts : List Kernel.KMnt} {m : Mounts} (hv : MountsView mnts m)
    (mnt : MountType) (km : Kernel.KMnt) (hk : entryKey mnt = kmntKey km) (hmem : km ∈ mnts) :
    getMountSources m mnt = .ok (kSources mnts km) := by
  unfold entryKey kmntKey at hk
  simp only [MKey.mk.injEq] at hk
  obtain ⟨h1, -, h3, h4, h5, -, -⟩ := hk
  unfold getMountSources
  rw [getDevice_view hv, h3]
  cases hf : mnts.find? (·.dev == km.dev) with
  | none =>
    have := List.find?_eq_none.mp hf km hmem
    simp at this
  | some f =>
    simp only [Option.map_some]
    unfold kSources
    rw [h5, h4, h1, hf]
    by_cases hov : km.fstype = b!"overlay"
    · by_cases hl : km.lower.length > 0
      · simp [hov, hl]
      · simp [hov, hl]
    · simp [hov]

/-- the code's "is the mount source the expected one", evaluated on the kernel table alone,
    agrees with the documented comparison for the mount on the import's mountpoint.  This is
    the exclusion of what is still different between the two (finding
    nonbind-import-fstype-not-compared, Props/C08 section 9), as a decidable predicate on the
    installation: it does not mention the `ProbeMounts` view any more. -/
def SourceAgree (i : Inst) (e : Expanded) : Prop :=
  ∀ km, topAt i.mnts e.mount = some km →
    (kSources i.mnts km).contains e.source = importAsConfigured i km e.fstype e.source

instance (i : Inst) (e : Expanded) : Decidable (SourceAgree i e) := by
  unfold SourceAgree
  cases topAt i.mnts e.mount with
  | none => exact isTrue (fun _ h => by cases h)
  | some km =>
    exact decidable_of_iff ((kSources i.mnts km).contains e.source = importAsConfigured i km e.fstype e.source)
      ⟨fun h km' hk => by cases hk; exact h, fun h => h km rfl⟩

theorem topAt_mem (mnts : List Kernel.KMnt) (p : Bytes) (km : Kernel.KMnt) (h : topAt mnts p = some km) :
    km ∈ mnts := by
  unfold topAt Kernel.topmostAt at h
  have := List.mem_of_find?_eq_some h
  simpa using this

theorem expected_of_view (i : Inst) (m : Mounts) (hv : MountsView i.mnts m) (e : Expanded)
    (hs : SourceAgree i e) :
    ∀ mnt km, getMount m e.mount = some mnt → topAt i.mnts e.mount = some km →
      mountSourceIsExpected m mnt e.source = .ok (importAsConfigured i km e.fstype e.source) := by
  intro mnt km hg ht
  unfold mountSourceIsExpected
  rw [getMountSources_view hv mnt km (getMount_view_some hv _ mnt km hg ht) (topAt_mem _ _ _ ht)]
  simp only [Except.map]
  rw [hs km ht]

/-! ### the import bridge, as far as the view carries -/

/-- an expanded path is absolute when the configured one is not empty and every `$$` prefix
    resolves to a non-empty path -/
theorem adjustPrefixedPath_abs (p np : Bytes) (r : Bytes → Option Bytes)
    (h : adjustPrefixedPath p r = .ok np) (hp : p ≠ [])
    (hr : ∀ s pre, r s = some pre → pre ≠ []) : isAbs np = true := by
  unfold adjustPrefixedPath at h
  have hlen : ¬ p.length < 1 := by
    cases p with
    | nil => exact absurd rfl hp
    | cons a as => simp
  simp only [hlen, ↓reduceIte, Res.err] at h
  split at h
  · cases h
  · rename_i np' hnp
    have hne : np' ≠ [] := by
      split at hnp
      · cases hnp
      · split at hnp
        · split at hnp
          · rename_i pre hpre
            cases hnp
            have hpre' := hr _ _ hpre
            unfold pathJoin
            cases pre with
            | nil => exact absurd rfl hpre'
            | cons a as =>
              simp only [List.dropWhile_cons, List.isEmpty_cons, Bool.false_eq_true, ↓reduceIte]
              exact Lc.Lemmas.Path.pathClean_ne_nil _
          · cases hnp
        · split at hnp
          · cases hnp
          · cases hnp; exact hp
    split at h
    · cases h
    · rename_i hc
      cases h
      cases np with
      | nil => exact absurd rfl hne
      | cons a as =>
        simp only [List.length_cons, Nat.zero_lt_succ, decide_true, List.head?_cons, Bool.true_and,
          bne_iff_ne, ne_eq, Option.some.injEq, Decidable.not_not] at hc
        subst hc
        rfl

/-- every expanded import source is absolute, when no configured source is empty and the
    layer paths involved are not empty -/
theorem expanded_source_abs (cfg : Config) (d : Defs) (l : Layer) (imports : List Expanded)
    (hexp : expandConfigMounts cfg d l = .ok imports)
    (hsrc : ∀ m ∈ l.cmounts, m.source ≠ [])
    (hself : l.layerPath ≠ [])
    (hroot : ∀ p, (findLayerBase d (d.layers.length + 1) l).map (·.layerPath) = some p → p ≠ []) :
    ∀ e ∈ imports, isAbs e.source = true := by
  rw [expandConfigMounts_mapM] at hexp
  have hz := mapM_ok_forall2 _ _ _ hexp
  intro e he
  obtain ⟨m, hm, hme⟩ := forall2_mem_right _ _ _ hz e he
  unfold importOf at hme
  split at hme
  · rename_i src hsrc'
    cases hme
    refine adjustPrefixedPath_abs _ _ _ hsrc' (hsrc m hm) ?_
    intro s pre hs
    unfold modelResolve at hs
    split at hs
    · exact hroot pre hs
    · split at hs
      · cases hs; exact hself
      · cases hs
  · cases hme

/-- Through a view, `ImportBridge` is left with its two genuinely external parts, both
    statements about the installation alone: the "inside the layers directory" tests agree,
    and `SourceAgree` (the exclusion of finding nonbind-import-fstype-not-compared). -/
theorem importBridge_of_view (i : Inst) (m : Mounts) (hv : MountsView i.mnts m) (e : Expanded)
    (habs : isAbs e.source = true)
    (hin : inAnyLayerDirectory i.cfg (e.source.length + 1) e.source = underLayers i e.source)
    (hs : SourceAgree i e) :
    ImportBridge i m e :=
  ⟨habs, hin, getMount_view_isSome hv e.mount, expected_of_view i m hv e hs⟩

end Lc.StateProbe
