/-
  The kernel table of the model is printable: `Kernel.toSpec k` satisfies C12's
  precondition `Spec.KMount.WF` as soon as the byte-string fields of `k` are byte strings
  and its token fields (device number, type) are tokens — the decimal ids the model
  prints itself always are.  Helper lemmas for Props/C08 section 8 (`probe_gives_view_kwf`).
-/
import Lc.Lemmas.MountsView

namespace Lc.KernelWF
open Lc Lc.Spec

/-! ### `ByteArray.toList` -/

theorem toList_loop (bs : ByteArray) : ∀ (k i : Nat) (r : List UInt8), bs.size - i = k → i ≤ bs.size →
    ByteArray.toList.loop bs i r = r.reverse ++ bs.data.toList.drop i := by
  intro k
  induction k with
  | zero =>
    intro i r hk hi
    have : i = bs.size := by omega
    rw [ByteArray.toList.loop]
    have hlt : ¬ i < bs.size := by omega
    simp only [hlt, ↓reduceIte]
    have : bs.data.toList.drop i = [] := by
      apply List.drop_eq_nil_of_le
      have : bs.data.toList.length = bs.size := by rw [Array.length_toList]; rfl
      omega
    rw [this]; simp
  | succ k ih =>
    intro i r hk hi
    rw [ByteArray.toList.loop]
    have hlt : i < bs.size := by omega
    simp only [hlt, ↓reduceIte]
    rw [ih (i + 1) _ (by omega) (by omega)]
    have hsz : i < bs.data.toList.length := by
      have : bs.data.toList.length = bs.size := by rw [Array.length_toList]; rfl
      omega
    rw [List.drop_eq_getElem_cons hsz]
    have hget : bs.get! i = bs.data.toList[i] := by
      cases bs with
      | mk data =>
        simp only [ByteArray.get!]
        have : i < data.size := by simpa [ByteArray.size] using hlt
        simp [this]
    rw [hget]
    simp

theorem byteArray_toList (bs : ByteArray) : bs.toList = bs.data.toList := by
  unfold ByteArray.toList
  rw [toList_loop bs bs.size 0 [] (by omega) (by omega)]
  simp

/-! ### the decimal rendering of a number is a token of digits -/

theorem natBytes_eq (n : Nat) :
    Kernel.natBytes n = ((Nat.toDigits 10 n).flatMap String.utf8EncodeChar).map (·.toNat) := by
  unfold Kernel.natBytes
  rw [Nat.toString_eq_repr, Nat.repr_eq_ofList_toDigits, String.toUTF8_eq_toByteArray,
    String.toByteArray_ofList, byteArray_toList]
  unfold List.utf8Encode
  rw [List.toList_data_toByteArray]

theorem digit_bytes (c : Char) (h : c.isDigit = true) :
    (String.utf8EncodeChar c).map (·.toNat) = [c.val.toNat] ∧ 48 ≤ c.val.toNat ∧ c.val.toNat ≤ 57 := by
  unfold Char.isDigit at h
  simp only [Bool.and_eq_true, decide_eq_true_eq, ge_iff_le] at h
  have h1 : 48 ≤ c.val.toNat := by
    have := h.1
    rw [UInt32.le_iff_toNat_le] at this
    exact this
  have h2 : c.val.toNat ≤ 57 := by
    have := h.2
    rw [UInt32.le_iff_toNat_le] at this
    exact this
  have hsz : c.utf8Size = 1 := by
    unfold Char.utf8Size
    have : c.val ≤ 127 := by
      rw [UInt32.le_iff_toNat_le]
      show c.val.toNat ≤ 127
      omega
    simp [this]
  rw [String.utf8EncodeChar_eq_singleton hsz]
  refine ⟨?_, h1, h2⟩
  simp only [List.map_cons, List.map_nil, List.cons.injEq, and_true]
  rw [UInt32.toNat_toUInt8]
  omega

theorem natBytes_digits (n : Nat) : ∀ b ∈ Kernel.natBytes n, 48 ≤ b ∧ b ≤ 57 := by
  rw [natBytes_eq]
  have hd : ∀ c ∈ Nat.toDigits 10 n, c.isDigit = true :=
    fun c hc => Nat.isDigit_of_mem_toDigits (by decide) (by decide) hc
  generalize Nat.toDigits 10 n = ds at hd
  induction ds with
  | nil => intro b hb; cases hb
  | cons c cs ih =>
    intro b hb
    simp only [List.flatMap_cons, List.map_append, List.mem_append] at hb
    rcases hb with hb | hb
    · obtain ⟨e, h1, h2⟩ := digit_bytes c (hd c (by simp))
      rw [e] at hb
      simp only [List.mem_cons, List.not_mem_nil, or_false] at hb
      subst hb
      exact ⟨h1, h2⟩
    · exact ih (fun x hx => hd x (by simp [hx])) b hb

theorem natBytes_ne_nil (n : Nat) : Kernel.natBytes n ≠ [] := by
  rw [natBytes_eq]
  have hne : Nat.toDigits 10 n ≠ [] := Nat.toDigits_ne_nil
  have hd : ∀ c ∈ Nat.toDigits 10 n, c.isDigit = true :=
    fun c hc => Nat.isDigit_of_mem_toDigits (by decide) (by decide) hc
  generalize Nat.toDigits 10 n = ds at hne hd
  cases ds with
  | nil => exact absurd rfl hne
  | cons c cs =>
    obtain ⟨e, -, -⟩ := digit_bytes c (hd c (by simp))
    simp only [List.flatMap_cons, List.map_append, e]
    simp

theorem natBytes_token (n : Nat) : TokenOK (Kernel.natBytes n) := by
  refine ⟨natBytes_ne_nil n, ?_, ?_, ?_⟩ <;>
  · intro h
    have := natBytes_digits n _ h
    omega

/-! ### printable kernel mounts -/

/-- the fields of a kernel mount are printable: device number and type are tokens (not
    empty, no blank / newline / carriage return), the paths, the source and the overlay
    directories are byte strings, and an overlay's work directory does not end in a carriage
    return (the one byte the kernel does not escape and `bufio.ScanLines` drops at the end
    of a line, C12 finding mountinfo-cr-at-line-end) -/
structure KWF (k : Kernel.KMnt) : Prop where
  dev : TokenOK k.dev
  fstype : TokenOK k.fstype
  root : IsB k.root
  mp : IsB k.mp
  source : IsB k.source
  lower : IsB k.lower
  upper : IsB k.upper
  work : IsB k.work
  workLast : k.work.getLast? ≠ some 13

instance (s : Bytes) : Decidable (TokenOK s) := by unfold TokenOK; exact inferInstance
instance (s : Bytes) : Decidable (IsB s) := by unfold IsB; exact inferInstance

instance (k : Kernel.KMnt) : Decidable (KWF k) :=
  decidable_of_iff (TokenOK k.dev ∧ TokenOK k.fstype ∧ IsB k.root ∧ IsB k.mp ∧ IsB k.source ∧
      IsB k.lower ∧ IsB k.upper ∧ IsB k.work ∧ k.work.getLast? ≠ some 13)
    ⟨fun ⟨a, b, c, d, e, f, g, h, i⟩ => ⟨a, b, c, d, e, f, g, h, i⟩,
     fun h => ⟨h.dev, h.fstype, h.root, h.mp, h.source, h.lower, h.upper, h.work, h.workLast⟩⟩

theorem toSpec_wf (k : Kernel.KMnt) (h : KWF k) : (Kernel.toSpec k).WF := by
  have hrw : TokenOK b!"rw" := by simp [TokenOK]
  have krw : KeyOK b!"rw" := by simp [KeyOK, TokenOK]
  constructor
  · exact natBytes_token k.id
  · exact natBytes_token k.parent
  · exact h.dev
  · exact hrw
  · exact h.fstype
  · intro o ho; cases ho
  · exact h.root
  · exact h.mp
  · exact h.source
  · unfold Kernel.toSpec; simp only []; split <;> simp
  · intro o ho
    unfold Kernel.toSpec at ho
    simp only [] at ho
    split at ho
    · simp only [List.mem_cons, List.not_mem_nil, or_false] at ho
      rcases ho with rfl | rfl | rfl | rfl
      · exact ⟨krw, fun v hv => by cases hv⟩
      · exact ⟨by simp [KeyOK, TokenOK], fun v hv => by cases hv; exact h.lower⟩
      · exact ⟨by simp [KeyOK, TokenOK], fun v hv => by cases hv; exact h.upper⟩
      · exact ⟨by simp [KeyOK, TokenOK], fun v hv => by cases hv; exact h.work⟩
    · simp only [List.mem_cons, List.not_mem_nil, or_false] at ho
      subst ho
      exact ⟨krw, fun v hv => by cases hv⟩
  · intro o ho v hv
    unfold Kernel.toSpec at ho
    simp only [] at ho
    split at ho
    · simp only [List.getLast?_cons_cons, List.getLast?_singleton, Option.some.injEq] at ho
      subst ho
      cases hv
      exact h.workLast
    · simp only [List.getLast?_singleton, Option.some.injEq] at ho
      subst ho
      cases hv

end Lc.KernelWF
