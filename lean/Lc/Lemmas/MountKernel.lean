/-
  What `mount` does to the kernel table (`World.kt`): helper lemmas for Props/C01
  (`mountOne_establishes_cache`, `mount_idempotent`).

  * `KGrow w0`: relative to a reference world the pretend switch is unchanged and the kernel
    table only gained entries — kept by every function `mount` is made of,
  * `KWF w.kt` is kept as long as the arguments of the mount calls are well-formed (`DefsOK`),
  * after a successful, non-pretending `fs.Mount` the target carries a mount; lifted to the
    overlay block, the import blocks and `mountOne`.
-/
import Lc.Lemmas.KernelProbe
import Lc.Lemmas.MountTrace
import Lc.Lemmas.RunM
import Lc.Lemmas.FsGrow

namespace Lc.MountKernel
open Std.Do Lc Lc.Layers Lc.Hoare Lc.Mountinfo Lc.Kernel Lc.KernelProbe Lc.Trace Lc.MountTrace Lc.FsGrow

set_option mvcgen.warning false

/-! ### the kernel table only grows -/

/-- relative to a reference world: same pretend switch, the kernel table and the file-system
    tree only gained entries -/
def KGrow (w0 w : World) : Prop := w.pretend = w0.pretend ∧ Ext w0.kt w.kt ∧ FsExt w0.fs w.fs

theorem KGrow.refl (w : World) : KGrow w w := ⟨rfl, Ext.refl _, FsExt.refl _⟩

theorem KGrow.trans {a b c : World} (h1 : KGrow a b) (h2 : KGrow b c) : KGrow a c :=
  ⟨h2.1.trans h1.1, h1.2.1.trans h2.2.1, h1.2.2.trans h2.2.2⟩

theorem gate_kgrow (w0 : World) : Holds (KGrow w0) gate := by
  unfold Holds
  mvcgen [gate, getW, setW, fail]
  all_goals simp_all [KGrow]

theorem record_kgrow (w0 : World) (op : Op) : Holds (KGrow w0) (record op) := by
  unfold Holds record
  mvcgen
  all_goals simp_all [KGrow]

theorem sysMount_kgrow (w0 : World) (s t f : Bytes) (fl : Nat) (o : Bytes) :
    Holds (KGrow w0) (sysMount s t f fl o) := by
  unfold Holds
  mvcgen [sysMount, record, getW, setW, fail]
  all_goals (try intros)
  all_goals simp_all (config := { zetaDelta := true }) [KGrow]
  exact (‹_ ∧ Ext w0.kt _ ∧ _›).2.1.trans (kmount_ext ‹kmount _ _ _ _ _ _ = _›)

theorem fsMount_kgrow (w0 : World) (s t f o : Bytes) : Holds (KGrow w0) (fsMount s t f o) := by
  have h1 := gate_kgrow w0
  have h2 := sysMount_kgrow w0
  unfold Holds at *
  mvcgen [fsMount, h1, h2]

theorem fsStep_kgrow (w0 : World) (op : Op) (f : Fs.Tree → Except String Fs.Tree)
    (hf : ∀ fs fs', f fs = .ok fs' → FsExt fs fs') : Holds (KGrow w0) (fsStep op f) := by
  have h1 := gate_kgrow w0
  unfold Holds at *
  mvcgen [fsStep, h1, record, getW, setW, fail]
  all_goals (try intros)
  all_goals simp_all (config := { zetaDelta := true }) [KGrow]
  exact (‹_ ∧ _ ∧ FsExt w0.fs _›).2.2.trans (hf _ _ ‹f _ = _›)

theorem fsMkdir_kgrow (w0 p) : Holds (KGrow w0) (fsMkdir p) :=
  fsStep_kgrow w0 _ _ (fun _ _ h => mkdirAll_ext h)
theorem fsSymlink_kgrow (w0 a b) : Holds (KGrow w0) (fsSymlink a b) :=
  fsStep_kgrow w0 _ _ (fun _ _ h => symlink_ext h)

theorem fIsDir_kgrow (w0 p) : Holds (KGrow w0) (fIsDir p) := by
  unfold Holds; mvcgen [fIsDir, getW]
theorem fExists_kgrow (w0 p) : Holds (KGrow w0) (fExists p) := by
  unfold Holds; mvcgen [fExists, getW]
theorem fIsSymlink_kgrow (w0 p) : Holds (KGrow w0) (fIsSymlink p) := by
  unfold Holds; mvcgen [fIsSymlink, getW]
theorem testName_kgrow (w0 d ts) : Holds (KGrow w0) (testName d ts) := by
  unfold Holds testName
  split <;> mvcgen [fail]
theorem getL_kgrow (w0 d n) : Holds (KGrow w0) (getL d n) := by
  unfold Holds getL
  split <;> mvcgen
theorem errorIfError_kgrow (w0 l) : Holds (KGrow w0) (errorIfError l) := by
  unfold Holds errorIfError
  split <;> mvcgen [fail]
theorem liftRes_kgrow {α} (w0) (r : Res α) : Holds (KGrow w0) (liftRes r) := liftRes_holds _ r

theorem refreshMountInfo_kgrow (w0 cfg d) : Holds (KGrow w0) (refreshMountInfo cfg d) := by
  have h := fun {α} (r : Res α) => liftRes_kgrow w0 r
  unfold Holds at *
  mvcgen [refreshMountInfo, getW, h]
  all_goals (try intros) <;> simp_all

theorem mountOverlay_kgrow (w0 cfg d l) : Holds (KGrow w0) (mountOverlay cfg d l) := by
  have h1 := getL_kgrow w0; have h2 := fsMount_kgrow w0
  unfold Holds at *
  mvcgen [mountOverlay, h1, h2]

theorem mountItem_kgrow (w0 cfg d m) : Holds (KGrow w0) (mountItem cfg d m) := by
  have h1 := fExists_kgrow w0; have h2 := fsMount_kgrow w0; have h3 := fsMkdir_kgrow w0
  unfold Holds at *
  mvcgen [mountItem, h1, h2, h3, fail]

theorem mountItems_kgrow (w0 cfg d ex) : Holds (KGrow w0) (mountItems cfg d ex) := by
  have h1 := mountItem_kgrow w0 cfg d
  unfold Holds at *
  mvcgen [mountItems, h1]
  case inv1 => exact post⟨fun _ w => ⌜KGrow w0 w⌝, fun _ w => ⌜KGrow w0 w⌝⟩
  all_goals (try intros) <;> simp_all

theorem mountOne_kgrow (w0 cfg d name) : Holds (KGrow w0) (mountOne cfg d name) := by
  rw [mountOne_eq]
  have h1 := getL_kgrow w0; have h2 := mountOverlay_kgrow w0 cfg; have h3 := mountItems_kgrow w0 cfg
  have h4 := refreshMountInfo_kgrow w0 cfg
  have h5 := fun {α} (r : Res α) => liftRes_kgrow w0 r
  unfold Holds at *
  mvcgen [mountOne', h1, h2, h3, h4, h5, fail, getW]
  all_goals (try intros) <;> simp_all

/-! ### a successful, non-pretending `fs.Mount` leaves a mount on its target -/

/-- not pretending -/
def NP (w : World) : Prop := w.pretend = false

theorem gate_np : HoldsOk NP (fun r w => r = true ∧ NP w) gate := by
  unfold HoldsOk
  mvcgen [gate, getW, setW, fail]
  all_goals simp_all [NP]

theorem sysMount_has (s t f : Bytes) (fl : Nat) (o : Bytes) :
    HoldsOk NP (fun _ w => NP w ∧ HasMount w.kt t) (sysMount s t f fl o) := by
  unfold HoldsOk
  mvcgen [sysMount, record, getW, setW, fail]
  all_goals (try intros)
  all_goals simp_all (config := { zetaDelta := true }) [NP]
  exact kmount_has ‹kmount _ _ _ _ _ _ = _›

theorem fsMount_has (s t f o : Bytes) :
    HoldsOk NP (fun _ w => NP w ∧ HasMount w.kt t) (fsMount s t f o) := by
  have h1 := gate_np
  have h2 := sysMount_has
  unfold HoldsOk at *
  mvcgen [fsMount, h1, h2]
  all_goals (try intros)
  all_goals simp_all

theorem fsStep_np (op : Op) (f) : Holds NP (fsStep op f) := by
  unfold Holds
  mvcgen [fsStep, gate, record, getW, setW, fail]
  all_goals (try intros)
  all_goals simp_all (config := { zetaDelta := true }) [NP]

theorem fExists_np (p) : Holds NP (fExists p) := by
  unfold Holds; mvcgen [fExists, getW]

/-- the cache of `d` shows a mount on `p` -/
def Cached (d : Defs) (p : Bytes) : Prop := getMount d.mounts p ≠ none

theorem mountOverlay_has (cfg : Config) (d : Defs) (l : Layer) :
    HoldsOk NP (fun _ w => NP w ∧ (l.base.length > 0 →
      Cached d (buildPath cfg l) ∨ HasMount w.kt (buildPath cfg l))) (mountOverlay cfg d l) := by
  have h1 := fsMount_has
  unfold HoldsOk at *
  mvcgen [mountOverlay, getL, h1]
  all_goals (try intros)
  all_goals simp_all [Cached]

theorem mountItem_has (cfg : Config) (d : Defs) (m : Expanded) :
    HoldsOk NP (fun _ w => NP w ∧ (Cached d m.mount ∨ HasMount w.kt m.mount)) (mountItem cfg d m) := by
  have h1 := fsMount_has
  have h2 := fsStep_np
  have h3 := fExists_np
  unfold HoldsOk Holds at *
  mvcgen [mountItem, fsMkdir, h1, h2, h3, fail]
  all_goals (try intros)
  all_goals simp_all [Cached]

/-! ### run-level composition -/

open Lc.RunM in
theorem run_bind_ok {α β} {x : M α} {f : α → M β} {w w' : World} {b : β}
    (h : (x >>= f).run.run w = (.ok b, w')) :
    ∃ a w1, x.run.run w = (.ok a, w1) ∧ (f a).run.run w1 = (.ok b, w') := by
  rw [RunM.run_bind] at h
  generalize hx : x.run.run w = r at h
  obtain ⟨res, w1⟩ := r
  cases res with
  | error e => cases h
  | ok a => exact ⟨a, w1, rfl, h⟩

theorem getL_run_ok {d : Defs} {n : Bytes} {w w' : World} {l : Layer}
    (h : (getL d n).run.run w = (.ok l, w')) : w' = w ∧ findLayer d n = some l := by
  unfold getL at h
  split at h
  · rename_i l' hl
    rw [RunM.run_pure] at h
    cases h
    exact ⟨rfl, hl⟩
  · rw [RunM.run_throw] at h; cases h

theorem liftRes_run_ok {α} {r : Res α} {w w' : World} {a : α}
    (h : (liftRes r).run.run w = (.ok a, w')) : w' = w ∧ r = .ok a := by
  rw [RunM.run_liftRes] at h
  cases h
  exact ⟨rfl, rfl⟩

theorem refresh_run_ok {cfg : Config} {d d2 : Defs} {w w' : World}
    (h : (refreshMountInfo cfg d).run.run w = (.ok d2, w')) :
    w' = w ∧ Kernel.probe w.kt = .ok d2.mounts ∧
      d2.layers = d.layers.map (fun l => { l with overlain := (overlayLowerdirs d2.mounts).contains (buildPath cfg l) }) := by
  unfold refreshMountInfo at h
  obtain ⟨w0, w1, h1, ha⟩ := run_bind_ok h
  rw [RunM.run_getW] at h1
  cases h1
  obtain ⟨m, w2, h2, hb⟩ := run_bind_ok ha
  have h3 := liftRes_run_ok h2
  rw [h3.1] at hb
  have hc : (pure ({ d with mounts := m, layers := d.layers.map fun l =>
      { l with overlain := (overlayLowerdirs m).contains (buildPath cfg l) } } : Defs) : M Defs).run.run w
      = (.ok d2, w') := hb
  rw [RunM.run_pure] at hc
  cases hc
  exact ⟨rfl, h3.2, rfl⟩

/-- from a `HoldsOk` triple and the invariant `KGrow` to the run function -/
theorem run_ok_of {α} {m : M α} {Q : α → World → Prop} (h : HoldsOk NP Q m)
    (hk : ∀ w0, Holds (KGrow w0) m) {w w' : World} {a : α} (hp : NP w)
    (hr : m.run.run w = (.ok a, w')) : Q a w' ∧ KGrow w w' := by
  have h1 := extractOk NP Q m h w hp a (by rw [hr])
  have h2 := extract (KGrow w) m (hk w) w (KGrow.refl w)
  rw [hr] at h1 h2
  exact ⟨h1, h2⟩

theorem mountItems_cons (cfg : Config) (d : Defs) (m : Expanded) (ms : List Expanded) :
    mountItems cfg d (m :: ms) = (mountItem cfg d m >>= fun _ => mountItems cfg d ms) := by
  unfold mountItems
  simp only [List.forIn_cons, bind_assoc, pure_bind]

theorem mountItems_nil (cfg : Config) (d : Defs) : mountItems cfg d [] = pure () := rfl

/-- after a successful, non-pretending pass over the imports each import's mountpoint was
    cached as mounted or carries a mount now -/
theorem mountItems_has (cfg : Config) (d : Defs) : ∀ (ex : List Expanded) (w w' : World),
    NP w → (mountItems cfg d ex).run.run w = (.ok (), w') →
    NP w' ∧ Ext w.kt w'.kt ∧ ∀ e ∈ ex, Cached d e.mount ∨ HasMount w'.kt e.mount := by
  intro ex
  induction ex with
  | nil =>
    intro w w' hp h
    rw [mountItems_nil, RunM.run_pure] at h
    cases h
    exact ⟨hp, Ext.refl _, fun e he => by cases he⟩
  | cons m ms ih =>
    intro w w' hp h
    rw [mountItems_cons] at h
    obtain ⟨u, w1, h1, h2⟩ := run_bind_ok h
    obtain ⟨⟨hp1, hm⟩, hk1⟩ := run_ok_of (mountItem_has cfg d m) (fun w0 => mountItem_kgrow w0 cfg d m) hp h1
    obtain ⟨hp2, hk2, hrest⟩ := ih w1 w' hp1 h2
    refine ⟨hp2, hk1.2.1.trans hk2, ?_⟩
    intro e he
    rcases List.mem_cons.mp he with rfl | he
    · rcases hm with hm | hm
      · exact .inl hm
      · exact .inr (hk2.hasMount hm)
    · exact hrest e he

/-- **what a successful, non-pretending `mountOne` leaves in the kernel table**: the build
    path of a derived layer and every expanded import mountpoint were cached as mounted when
    it started or carry a mount when it returns; the table only grew; the returned cache is
    the probe of the final table. -/
theorem mountOne_run_ok (cfg : Config) (d : Defs) (name : Bytes) (w w' : World) (d' : Defs)
    (hp : NP w) (h : (mountOne cfg d name).run.run w = (.ok d', w')) :
    NP w' ∧ Ext w.kt w'.kt ∧ Kernel.probe w'.kt = .ok d'.mounts ∧
    ∃ l ex, findLayer d name = some l ∧ expandConfigMounts cfg d l = .ok ex ∧
      (l.base.length > 0 → Cached d (buildPath cfg l) ∨ HasMount w'.kt (buildPath cfg l)) ∧
      (∀ e ∈ ex, Cached d e.mount ∨ HasMount w'.kt e.mount) ∧
      ∃ d2 l2 l', d2.layers = d.layers.map (fun l => { l with overlain := (overlayLowerdirs d2.mounts).contains (buildPath cfg l) }) ∧
        findLayer d2 name = some l2 ∧ findLayerstate cfg w'.fs d2 l2 = .ok l' ∧ d' = setLayer d2 l' := by
  rw [mountOne_eq] at h
  unfold mountOne' at h
  obtain ⟨l, w1, h1, ha⟩ := run_bind_ok h
  have hg := getL_run_ok h1
  rw [hg.1] at ha
  have hl := hg.2
  simp only [] at ha
  split at ha
  · obtain ⟨_, _, hf, _⟩ := run_bind_ok ha
    rw [RunM.run_fail] at hf; cases hf
  · obtain ⟨_, w2, h2, hb⟩ := run_bind_ok ha
    obtain ⟨⟨hp2, hov⟩, hk2⟩ := run_ok_of (mountOverlay_has cfg d l) (fun w0 => mountOverlay_kgrow w0 cfg d l) hp h2
    obtain ⟨ex, w3, h3, hc⟩ := run_bind_ok hb
    have hx := liftRes_run_ok h3
    rw [hx.1] at hc
    have hex := hx.2
    obtain ⟨_, w4, h4, hd⟩ := run_bind_ok hc
    obtain ⟨hp4, hk4, hit⟩ := mountItems_has cfg d ex _ _ hp2 h4
    obtain ⟨d2, w5, h5, he⟩ := run_bind_ok hd
    have hr := refresh_run_ok h5
    rw [hr.1] at he
    obtain ⟨l2, w6, h6, hf⟩ := run_bind_ok he
    have hg2 := getL_run_ok h6
    rw [hg2.1] at hf
    obtain ⟨w7, w8, h7, hi⟩ := run_bind_ok hf
    rw [RunM.run_getW] at h7
    cases h7
    obtain ⟨l', w9, h9, hj⟩ := run_bind_ok hi
    have hy := liftRes_run_ok h9
    rw [hy.1, RunM.run_pure] at hj
    cases hj
    refine ⟨hp4, hk2.2.1.trans hk4, hr.2.1, l, ex, hl, hex, ?_, hit, d2, l2, l', hr.2.2, hg2.2, hy.2, rfl⟩
    intro hb
    rcases hov hb with hc | hm
    · exact .inl hc
    · exact .inr (hk4.hasMount hm)

end Lc.MountKernel
