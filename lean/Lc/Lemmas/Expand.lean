/-
  `expandConfigMounts` / `adjustPrefixedPath` / `findLayerBase`: where a configured import
  is mounted and what its source resolves to.  Helper lemmas for Props/C01.
-/
import Lc.Model.Layers

namespace Lc.Expand
open Lc Lc.Layers Lc.Layerfile

/-- element-wise relation between two lists of the same length -/
inductive All2 {α β : Type} (R : α → β → Prop) : List α → List β → Prop
  | nil : All2 R [] []
  | cons {x y xs ys} : R x y → All2 R xs ys → All2 R (x :: xs) (y :: ys)

theorem All2.imp {α β : Type} {R S : α → β → Prop} (h : ∀ x y, R x y → S x y) {xs : List α} {ys : List β}
    (h2 : All2 R xs ys) : All2 S xs ys := by
  induction h2 with
  | nil => exact .nil
  | cons hr _ ih => exact .cons (h _ _ hr) ih

theorem All2.length_eq {α β : Type} {R : α → β → Prop} {xs : List α} {ys : List β}
    (h : All2 R xs ys) : xs.length = ys.length := by
  induction h with
  | nil => rfl
  | cons _ _ ih => simp [ih]

theorem mapM_ok {α β ε : Type} (f : α → Except ε β) :
    ∀ (xs : List α) (ys : List β), xs.mapM f = .ok ys → All2 (fun x y => f x = .ok y) xs ys := by
  intro xs
  induction xs with
  | nil =>
    intro ys h
    simp only [List.mapM_nil] at h
    cases h
    exact All2.nil
  | cons x xs ih =>
    intro ys h
    rw [List.mapM_cons] at h
    cases hx : f x with
    | error e => rw [hx] at h; cases h
    | ok y =>
      rw [hx] at h
      cases hxs : xs.mapM f with
      | error e => rw [hxs] at h; cases h
      | ok ys' =>
        rw [hxs] at h
        cases h
        exact All2.cons hx (ih ys' hxs)

/-- the `$$name` resolver `expandConfigMounts` hands to `adjustPrefixedPath` -/
def resolver (d : Defs) (l : Layer) : Bytes → Option Bytes := fun sym =>
  if sym == b!"base" then (findLayerBase d (d.layers.length + 1) l).map (·.layerPath)
  else if sym == b!"self" then some l.layerPath
  else none

/-- the expanded import `e` comes from the configured import `m` of layer `l` -/
def ExpandsTo (cfg : Config) (d : Defs) (l : Layer) (m : NeededMount) (e : Expanded) : Prop :=
  e.mount = pathJoin [buildPath cfg l, m.mount] ∧ e.fstype = m.fstype ∧
  e.unMount = m.mount ∧ e.unSource = m.source ∧
  adjustPrefixedPath m.source (resolver d l) = .ok e.source

theorem expand_forall₂ {cfg : Config} {d : Defs} {l : Layer} {ex : List Expanded}
    (h : expandConfigMounts cfg d l = .ok ex) : All2 (ExpandsTo cfg d l) l.cmounts ex := by
  unfold expandConfigMounts at h
  have := mapM_ok _ _ _ h
  refine All2.imp ?_ this
  intro m e hme
  simp only at hme
  split at hme
  · rename_i src hsrc
    cases hme
    exact ⟨rfl, rfl, rfl, rfl, hsrc⟩
  · cases hme

theorem forall₂_mem_right {α β : Type} {R : α → β → Prop} {xs : List α} {ys : List β}
    (h : All2 R xs ys) : ∀ y ∈ ys, ∃ x ∈ xs, R x y := by
  induction h with
  | nil => intro y hy; cases hy
  | cons hr _ ih =>
    intro y hy
    rcases List.mem_cons.mp hy with hy | hy
    · exact ⟨_, List.mem_cons_self, hy ▸ hr⟩
    · obtain ⟨x, hx, hxy⟩ := ih y hy
      exact ⟨x, List.mem_cons_of_mem _ hx, hxy⟩

/-- every expanded import stems from a configured one: mountpoint below the build path,
    same type, source resolved by `adjustPrefixedPath` -/
theorem expand_mem {cfg : Config} {d : Defs} {l : Layer} {ex : List Expanded}
    (h : expandConfigMounts cfg d l = .ok ex) :
    ∀ e ∈ ex, ∃ m ∈ l.cmounts, ExpandsTo cfg d l m e :=
  forall₂_mem_right (expand_forall₂ h)

theorem expand_length {cfg : Config} {d : Defs} {l : Layer} {ex : List Expanded}
    (h : expandConfigMounts cfg d l = .ok ex) : ex.length = l.cmounts.length :=
  (All2.length_eq (expand_forall₂ h)).symm

/-! ### `adjustPrefixedPath` -/

theorem decompose_self (tail : Bytes) (ht : tail = [] ∨ ∃ t, tail = 47 :: t) :
    decomposePrefix (b!"$$self" ++ tail) = ([36, 36], b!"self", tail) := by
  rcases ht with rfl | ⟨t, rfl⟩ <;> simp [decomposePrefix, List.takeWhile]

theorem decompose_base (tail : Bytes) (ht : tail = [] ∨ ∃ t, tail = 47 :: t) :
    decomposePrefix (b!"$$base" ++ tail) = ([36, 36], b!"base", tail) := by
  rcases ht with rfl | ⟨t, rfl⟩ <;> simp [decomposePrefix, List.takeWhile]

/-- the absolute-path check at the end of `AdjustPrefixedPath` -/
def absCheck (np : Bytes) : Res Bytes :=
  if np.length > 0 && np.head? != some 47 then Res.err "relative" else .ok np

/-- `$$self` + tail resolves to the layer directory joined with the tail -/
theorem adjust_self (tail : Bytes) (ht : tail = [] ∨ ∃ t, tail = 47 :: t) (d : Defs) (l : Layer) :
    adjustPrefixedPath (b!"$$self" ++ tail) (resolver d l) = absCheck (pathJoin [l.layerPath, tail]) := by
  unfold adjustPrefixedPath
  rw [decompose_self tail ht]
  simp [resolver, absCheck]

/-- `$$base` + tail resolves to the directory of the layer `findLayerBase` finds, joined
    with the tail -/
theorem adjust_base (tail : Bytes) (ht : tail = [] ∨ ∃ t, tail = 47 :: t) (d : Defs) (l r : Layer)
    (hr : findLayerBase d (d.layers.length + 1) l = some r) :
    adjustPrefixedPath (b!"$$base" ++ tail) (resolver d l) = absCheck (pathJoin [r.layerPath, tail]) := by
  unfold adjustPrefixedPath
  rw [decompose_base tail ht]
  simp [resolver, absCheck, hr]

/-- an absolute source without sigil is taken as it is -/
theorem adjust_plain (c : Nat) (p : Bytes) (hc : c ≠ 126 ∧ c ≠ 36) (habs : c = 47) (res : Bytes → Option Bytes) :
    adjustPrefixedPath (c :: p) res = .ok (c :: p) := by
  subst habs
  simp [adjustPrefixedPath, decomposePrefix, List.takeWhile]

/-! ### `findLayerBase` -/

/-- `r` is reached from `l` by following `base` links inside `d` -/
inductive UpChain (d : Defs) : Layer → Layer → Prop
  | refl (l : Layer) : UpChain d l l
  | step {l p r : Layer} : l.base.length > 0 → findLayer d l.base = some p → UpChain d p r → UpChain d l r

/-- `findLayerBase` returns the root base layer of `l`: reached over base links, itself
    without base -/
theorem findLayerBase_root (d : Defs) : ∀ (fuel : Nat) (l r : Layer),
    findLayerBase d fuel l = some r → r.base.length = 0 ∧ UpChain d l r := by
  intro fuel
  induction fuel with
  | zero => intro l r h; simp [findLayerBase] at h
  | succ k ih =>
    intro l r h
    unfold findLayerBase at h
    split at h
    · rename_i hb
      split at h
      · rename_i p hp
        obtain ⟨h1, h2⟩ := ih p r h
        exact ⟨h1, UpChain.step hb hp h2⟩
      · cases h
    · rename_i hb
      cases h
      exact ⟨by omega, UpChain.refl l⟩

end Lc.Expand
